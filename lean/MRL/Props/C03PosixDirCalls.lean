/-
C03 under power loss with a lazy directory, for histories without a restart while unlinks are
pending — the instants the hypothesis `lateSync = false` of `C03PD.C03_posix_dir_partial` excluded.

`NoReopenWhilePending g l D evs` (executable: `noReopenWhilePending`): walking through the history,
no `Ev.reopen` starts while an unlink is not yet covered by an `fsync(dir)` (`PDC.noReopenPend`: the
flag is set by every `unlink` effect and cleared by every `fsync(dir)` effect).

`C03_posix_dir_calls`: `C03PD.C03_posix_dir_partial` with that condition IN PLACE OF `lateSync = false`:
for every `u` and EVERY instant `k ≥` the promise, `recover g (powerImageD img (opsP.take k) u) …`
succeeds with queues `AbsEq` to a prefix state `i ≥ m`. In particular: `truncate` (GC pass) under a
policy that does not fsync, then appends, then `persist FlushAndFsync` with the power lost between its
`fsync(file)` and its `fsync(dir)`. The GC pass of `open` itself followed by calls IS covered: the
window then BEGINS at a restart (allowed: nothing is pending when it starts); only a SECOND restart
before the next `fsync(dir)` is excluded.

HOW. If `lateSync = false`: `C03_posix_dir_partial`. Otherwise an `fsync(file)` has just made new
content durable while unlinks were pending; then (`PDC.hinvD`, MRL/Proofs/PDCSem.lean) the image is
the volatile image of the effects with the late unlinks beyond the first `u` UNDONE
(`PDC.skipLate u`): the collected files are back, next to everything written since
(`power_reductionD_hard`). `PDC.vrec` (MRL/Proofs/PDCRun.lean) opens every such image: up to the GC
pass the real invariant; at the GC pass `PDC.gc_partial` (the in-memory log that still tracks the
files not unlinked satisfies the relaxed invariant on the disk where they are still there —
`H.rep_at` for the replay, `L.gc_diskX` for the disk); inside the window `PDC.vwin` / `PDC.virt_call`:
the real log's calls act on that disk exactly as on the real one (`writeEntry_virt`: the writer does
not look at the files in front), so `L.cinvx_write` / `L.write_phase_crashX` apply to the log that
still tracks them — until the next `fsync(dir)`, where the two logs coincide again.
-/
import MRL.Proofs.PDCPat
import MRL.Props.C03PosixDir

namespace MRL.PDC
open MRL Buf G H L Log K C01J Codec P PX PD

theorem power_reductionD_hard (g : Geom) (hB : g.B ≤ 65542) (cap : Nat) (l : Log) (J : List JE) (D : Image)
    (b : BufSt) (hc : CInvX g l J D) (hwJ : ∀ j ∈ J, C07.WF j.e) (hb : b.pend = []) (evs : List Ev)
    (hwf : ∀ j ∈ jourX g l D evs, C07.WF j.e) (htorn : TornEffs (effsX g l D evs))
    (m : Nat) (pre : List Effect) (f : Nat)
    (htail : effsX g l D (evs.take m) = pre ++ [.flush, .fsyncFile f, .fsyncDir])
    (k : Nat) (hk : (toOsOpsP cap b (effsX g l D (evs.take m))).2.length ≤ k)
    (hns : lateSync D ((toOsOpsP cap b (effsX g l D evs)).2.take k) = true)
    (hnr : noReopenPend g l D false evs = true) (u : Nat) :
    ∃ n, powerImageD D ((toOsOpsP cap b (effsX g l D evs)).2.take k) u =
      applyOsOps (diskXs g l D (evs.take m))
        (directOps (skipLate u
          ((effsX g (logX g l D (evs.take m)) (diskXs g l D (evs.take m)) (evs.drop m)).take n))) := by
  have hfb := fileBytes_pos g
  have hsplit : evs = evs.take m ++ evs.drop m := (List.take_append_drop m evs).symm
  have heffs : effsX g l D evs = effsX g l D (evs.take m) ++
      effsX g (logX g l D (evs.take m)) (diskXs g l D (evs.take m)) (evs.drop m) := by
    conv => lhs; rw [hsplit]
    exact effsX_append g _ _ l D
  have hjour : jourX g l D evs = jourX g l D (evs.take m) ++
      jourX g (logX g l D (evs.take m)) (diskXs g l D (evs.take m)) (evs.drop m) := by
    conv => lhs; rw [hsplit]
    exact jourX_append g _ _ l D
  have hwfm : ∀ j ∈ jourX g l D (evs.take m), C07.WF j.e :=
    fun j hj => hwf j (by rw [hjour]; exact List.mem_append_left _ hj)
  have hwfr : ∀ j ∈ jourX g (logX g l D (evs.take m)) (diskXs g l D (evs.take m)) (evs.drop m), C07.WF j.e :=
    fun j hj => hwf j (by rw [hjour]; exact List.mem_append_right _ hj)
  have htornm : TornEffs (effsX g l D (evs.take m)) := torn_left (by rw [← heffs]; exact htorn)
  have htornr : TornEffs (effsX g (logX g l D (evs.take m)) (diskXs g l D (evs.take m)) (evs.drop m)) :=
    torn_right (by rw [← heffs]; exact htorn)
  obtain ⟨⟨Jm, hcm, hwm⟩, hpdM, hdiscM⟩ := runX_inv g hB (evs.take m) hc hwJ hwfm htornm
  obtain ⟨_, hpdR, hdiscR⟩ := runX_inv g hB (evs.drop m) hcm hwm hwfr htornr
  have hfoeM := fun (w : Bool) X => runX_foe g hB (evs.take m) hc hwJ hwfm htornm w X
  have hfoeR := fun (w : Bool) X => runX_foe g hB (evs.drop m) hcm hwm hwfr htornr w X
  have hspR := syncPat_hist g hB (evs.drop m) hcm hwm hwfr htornr
  have hpresR := unl_present g hB (evs.drop m) hcm hwm hwfr htornr
  have hnrR : noReopenPend g (logX g l D (evs.take m)) (diskXs g l D (evs.take m)) false (evs.drop m) = true := by
    have := hnr
    rw [hsplit, noReopenPend_append, Bool.and_eq_true] at this
    have hp : pendAfter false (effsX g l D (evs.take m)) = false := by
      rw [htail]
      have : pre ++ [Effect.flush, Effect.fsyncFile f, Effect.fsyncDir] =
          (pre ++ [Effect.flush, Effect.fsyncFile f]) ++ [Effect.fsyncDir] := by simp
      rw [this]; exact pendAfter_end_ds _ _
    rw [hp] at this
    exact this.2
  have hceR := ce_pend g hB (evs.drop m) false hcm hwm hwfr htornr hnrR
  have hDm : diskXs g l D (evs.take m) = applyOsOps D (directOps (effsX g l D (evs.take m))) := diskXs_eq g _ l D
  have hsortm : SortedK (diskXs g l D (evs.take m)) := sorted_of_dshape (dshape_of_cinvx hcm)
  generalize hEm : effsX g l D (evs.take m) = Em at *
  generalize hEr : effsX g (logX g l D (evs.take m)) (diskXs g l D (evs.take m)) (evs.drop m) = Er at *
  have hsh := dshape_of_cinvx hc
  obtain ⟨σm, hpdm, hpdlm⟩ := hpdM (pd0X l) (pdl0X hsh)
  obtain ⟨σe, hpdr, _⟩ := hpdR σm hpdlm
  obtain ⟨hdm, hnm, hclean⟩ : σm.dirty = false ∧ σm.named = true ∧ σm.clean = true := by
    rw [htail] at hpdm; exact pd_triple_end _ _ _ pre f hpdm
  obtain ⟨stm, hrunm, _⟩ := hdiscM none (Or.inl rfl)
  obtain ⟨hrunSm, hstm⟩ := PX.runS_of_pd g.fileBytes Em none stm (pd0X l) σm hrunm hpdm (fun _ => rfl)
  have hstm0 : stm = none := hstm hclean
  subst hstm0
  obtain ⟨str, hrunr, _⟩ := hdiscR none (Or.inl rfl)
  obtain ⟨hrunSr, _⟩ := PX.runS_of_pd g.fileBytes Er none str σm σe hrunr hpdr (fun _ => rfl)
  have hinv0 : Buf.Inv cap b none := ⟨Or.inl hb, by rw [hb]; exact Nat.zero_le _⟩
  obtain ⟨hinvm, _⟩ := toOsOpsP_ok cap Em b none none hinv0 hrunSm
  have hbm : (toOsOpsP cap b Em).1.pend = [] := by
    rcases hinvm.1 with h | h
    · exact h
    · cases h
  -- the state after the first `m` events: nothing pending
  have hDSm : prunD (DState.init D) (toOsOpsP cap b Em).2 = prunD (DState.init D) (directOpsP Em) := by
    have := toOsOpsD_ok cap Em b none none hinv0 hrunSm (DState.init D)
    rw [flushOps_nil _ hbm, flushOps_nil b hb] at this
    exact this
  have hreset : prunD (DState.init D) (directOpsP Em) =
      ⟨prun (PState.init D) (directOpsP Em), [], false⟩ := by
    have hs := prunD_s (directOpsP Em) (DState.init D)
    rw [htail, directOpsP_append, prunD_append] at hs ⊢
    rw [htail, directOpsP_append] at *
    generalize prunD (DState.init D) (directOpsP pre) = d0 at *
    have : prunD d0 (directOpsP [Effect.flush, Effect.fsyncFile f, Effect.fsyncDir]) =
        pstepD (pstepD d0 (.syncFile f)) .syncDir := rfl
    rw [this] at hs ⊢
    have h2 : pstepD (pstepD d0 (.syncFile f)) .syncDir =
        ⟨(pstepD (pstepD d0 (.syncFile f)) .syncDir).s, [], false⟩ := rfl
    rw [h2, hs]
    rfl
  -- the operations
  unfold powerImageD lateSync at *
  rw [heffs, toOsOpsP_append] at hns ⊢
  simp only at hns ⊢
  rw [List.take_append, List.take_of_length_le hk, prunD_append, hDSm, hreset] at hns ⊢
  obtain ⟨n', hn'⟩ := op_boundaryD cap Er (toOsOpsP cap b Em).1 none str
    ⟨prun (PState.init D) (directOpsP Em), [], false⟩ hinvm hrunSr (k - (toOsOpsP cap b Em).2.length)
  rw [hn', pendW_nil _ hbm, List.nil_append] at hns ⊢
  -- sizes of the files along the history
  have hfoem : ∀ i, i ≤ Em.length → FullOrEmpty g.fileBytes
      (applyOsOps (PState.init D).vol (directOps (Em.take i))) := by
    intro i _
    exact hfoeM true _ (CutW.of_take true Em i D)
  obtain ⟨_, σn, _, hpdn, hIm, _⟩ := PX.power_prefix g.fileBytes hfb Em (pd0X l) (PState.init D) (pinv0X hfb hsh) rfl rfl
    σm hpdm hfoem Em.length (Nat.le_refl _)
  rw [List.take_length] at hpdn hIm
  rw [hpdm] at hpdn
  injection hpdn with hpdn
  subst hpdn
  have hvolm : (prun (PState.init D) (directOpsP Em)).vol = applyOsOps D (directOps Em) := prun_vol_direct _ _
  have hfoer : ∀ i, i ≤ Er.length → FullOrEmpty g.fileBytes
      (applyOsOps (prun (PState.init D) (directOpsP Em)).vol (directOps (Er.take i))) := by
    intro i _
    rw [hvolm, ← hDm]
    exact hfoeR true _ (CutW.of_take true Er i _)
  have htk : Er.take n' = Er.take (min n' Er.length) := by
    rw [List.take_eq_take_iff]; simp
  rw [htk] at hns ⊢
  generalize hnn : min n' Er.length = n at *
  have hnle : n ≤ Er.length := by rw [← hnn]; exact Nat.min_le_right _ _
  have hsortS : SortedK (prun (PState.init D) (directOpsP Em)).vol := by rw [hvolm, ← hDm]; exact hsortm
  have hH := hinvD g.fileBytes hfb Er σm _ hIm hdm hnm σe hpdr hfoer hsortS
    (by
      intro i e hi hce
      apply Classical.byContradiction
      intro hne
      have := und_of_pend (Er.take i) ⟨prun (PState.init D) (directOpsP Em), [], false⟩ false
        (fun h => absurd rfl h) hne
      rw [hceR i e hi hce] at this
      cases this)
    (by
      intro i f' hi
      rw [hvolm, ← hDm]
      exact hpresR i f' hi)
    (fun i f' hi _ => hspR i f' hi) n hnle
  obtain ⟨hune, f', hn1, hf'⟩ := hH.hardF hns
  obtain ⟨_, σn, _, hpdn, hIn, _⟩ := PX.power_prefix g.fileBytes hfb Er σm _ hIm hdm hnm σe hpdr hfoer n hnle
  have hnamed := hH.named σn hpdn hune
  have hdirty : σn.dirty = false := by
    have htk1 : Er.take n = Er.take (n - 1) ++ [Effect.fsyncFile f'] := by
      have := take_succ_get' hf'
      rwa [show n - 1 + 1 = n by omega] at this
    rw [htk1, PX.pd_append] at hpdn
    cases hq : PX.pd g.fileBytes σm (Er.take (n - 1)) with
    | none => rw [hq] at hpdn; cases hpdn
    | some σq =>
      rw [hq] at hpdn
      simp only [Option.bind_some, PX.pd, PX.pd1] at hpdn
      split at hpdn
      · simp only [Option.bind_some, Option.some.injEq] at hpdn
        rw [← hpdn]
      · cases hpdn
  refine ⟨n, ?_⟩
  unfold DState.image
  rw [prunD_s]
  rw [PX.image_alldur hIn hdirty hnamed, prun_vol_direct, hH.img u, hvolm, hDm]

end MRL.PDC

namespace MRL.PDC
open MRL Buf G H L Log K C01J Codec P PX PD

theorem noReopenPend_drop (g : Geom) (l : Log) (D : Image) (evs : List Ev) (m : Nat) (pre : List Effect) (f : Nat)
    (htail : effsX g l D (evs.take m) = pre ++ [.flush, .fsyncFile f, .fsyncDir])
    (hnr : noReopenPend g l D false evs = true) :
    noReopenPend g (logX g l D (evs.take m)) (diskXs g l D (evs.take m)) false (evs.drop m) = true := by
  have hsplit : evs = evs.take m ++ evs.drop m := (List.take_append_drop m evs).symm
  rw [hsplit, noReopenPend_append, Bool.and_eq_true] at hnr
  have hp : pendAfter false (effsX g l D (evs.take m)) = false := by
    rw [htail]
    have : pre ++ [Effect.flush, Effect.fsyncFile f, Effect.fsyncDir] =
        (pre ++ [Effect.flush, Effect.fsyncFile f]) ++ [Effect.fsyncDir] := by simp
    rw [this]; exact pendAfter_end_ds _ _
  have h2 := hnr.2
  rw [hp] at h2
  exact h2

end MRL.PDC

namespace MRL.C03PD
open MRL Log C05 C01J G H L K Buf Codec P PX PD PDC

/-- executable: no `reopen` starts while an unlink is not covered by an `fsync(dir)` -/
def noReopenWhilePending (g : Geom) (l : Log) (D : Image) (evs : List Ev) : Bool := noReopenPend g l D false evs

def NoReopenWhilePending (g : Geom) (l : Log) (D : Image) (evs : List Ev) : Prop :=
  noReopenWhilePending g l D evs = true

instance (g : Geom) (l : Log) (D : Image) (evs : List Ev) : Decidable (NoReopenWhilePending g l D evs) := by
  unfold NoReopenWhilePending; exact inferInstance

/-- the core, from any state satisfying the relaxed invariant -/
theorem C03_posix_dir_calls_cinvx (g : Geom) (hB : g.B ≤ 65542) (cap : Nat) (l : Log) (J : List JE) (D : Image)
    (b : BufSt) (hc : CInvX g l J D) (hwJ : ∀ j ∈ J, C07.WF j.e) (hb : b.pend = []) (evs : List Ev)
    (hfits : ∀ j ∈ jourX g l D evs, C07.WF j.e) (htorn : TornEffs (effsX g l D evs))
    (m : Nat) (hm : m ≤ evs.length) (pre : List Effect) (f : Nat)
    (htail : effsX g l D (evs.take m) = pre ++ [.flush, .fsyncFile f, .fsyncDir])
    (k : Nat) (hk : (toOsOpsP cap b (effsX g l D (evs.take m))).2.length ≤ k)
    (hnr : NoReopenWhilePending g l D evs) (u : Nat) (policy' : Policy) (order' : List Bytes) :
    ∃ rec i, m ≤ i ∧ i ≤ evs.length ∧
      recover g (powerImageD D ((toOsOpsP cap b (effsX g l D evs)).2.take k) u) policy' order' none = .ok rec ∧
      AbsEq rec.log.queues (logX g l D (evs.take i)).queues := by
  cases hns : lateSync D ((toOsOpsP cap b (effsX g l D evs)).2.take k) with
  | false => exact C03_posix_dir_cinvx g hB cap l J D b hc hwJ hb evs hfits htorn m hm pre f htail k hk hns u policy' order'
  | true =>
    obtain ⟨n, hred⟩ := power_reductionD_hard g hB cap l J D b hc hwJ hb evs hfits htorn m pre f htail k hk hns hnr u
    have hsplit : evs = evs.take m ++ evs.drop m := (List.take_append_drop m evs).symm
    have heffs : effsX g l D evs = effsX g l D (evs.take m) ++
        effsX g (logX g l D (evs.take m)) (diskXs g l D (evs.take m)) (evs.drop m) := by
      conv => lhs; rw [hsplit]
      exact effsX_append g _ _ l D
    have hjour : jourX g l D evs = jourX g l D (evs.take m) ++
        jourX g (logX g l D (evs.take m)) (diskXs g l D (evs.take m)) (evs.drop m) := by
      conv => lhs; rw [hsplit]
      exact jourX_append g _ _ l D
    obtain ⟨⟨Jm, hcm, hwm⟩, _, _⟩ := runX_inv g hB (evs.take m) hc hwJ
      (fun j hj => hfits j (by rw [hjour]; exact List.mem_append_left _ hj))
      (torn_left (by rw [← heffs]; exact htorn))
    obtain ⟨i, lp, e0, io, hi, hrec, hq⟩ := vrec g hB u (evs.drop m) false hcm hwm
      (fun j hj => hfits j (by rw [hjour]; exact List.mem_append_right _ hj))
      (torn_right (by rw [← heffs]; exact htorn))
      (noReopenPend_drop g l D evs m pre f htail hnr) n policy'
    obtain ⟨r, hr, hrq⟩ := recover_of_pre g _ policy' order' lp e0 io hrec
    refine ⟨r, m + i, Nat.le_add_right _ _, ?_, by rw [hred]; exact hr, ?_⟩
    · simp at hi; omega
    · rw [hrq]
      have : evs.take (m + i) = evs.take m ++ (evs.drop m).take i := List.take_add
      rw [this, logX_append]
      exact hq

/-- **C03 under power loss with a lazy directory, histories without a restart while unlinks are
    pending**: every `u`, EVERY instant -/
theorem C03_posix_dir_calls (g : Geom) (hB : g.B ≤ 65542) (cap : Nat) (l : Log) (img : Image) (b : BufSt)
    (h : C02U.ReachX g cap l img b) (hb : b.pend = []) (evs : List Ev)
    (hfits : ∀ j ∈ jourX g l img evs, C07.WF j.e) (htorn : TornEffs (effsX g l img evs))
    (m : Nat) (hm : m ≤ evs.length) (pre : List Effect) (f : Nat)
    (htail : effsX g l img (evs.take m) = pre ++ [.flush, .fsyncFile f, .fsyncDir])
    (k : Nat) (hk : (toOsOpsP cap b (effsX g l img (evs.take m))).2.length ≤ k)
    (hnr : NoReopenWhilePending g l img evs) (u : Nat) (policy' : Policy) (order' : List Bytes) :
    ∃ rec i, m ≤ i ∧ i ≤ evs.length ∧
      recover g (powerImageD img ((toOsOpsP cap b (effsX g l img evs)).2.take k) u) policy' order' none = .ok rec ∧
      AbsEq rec.log.queues (logX g l img (evs.take i)).queues := by
  obtain ⟨⟨J, hc, hw⟩, _⟩ := C02U.reachX_inv g hB cap h
  rw [C02U.flushDisk_of_empty img b hb] at hc
  exact C03_posix_dir_calls_cinvx g hB cap l J img b hc hw hb evs hfits htorn m hm pre f htail k hk hnr u policy' order'

end MRL.C03PD
