/-
C05 — every call conforms to the sequential queue-map specification.
`Log.step` refines `Spec.step` through the abstraction `Log.abs`, with the same logical outcome,
under (and preserving) the representation invariant `Inv`; the read accessors of `MemQueue`
agree with those of the specification.
-/
import MRL.Proofs.QStepShape

namespace MRL.C05
open MRL Log

/-- per-queue invariant: positions strictly increasing, none below `start` -/
def QInv (q : MemQueue) : Prop :=
  q.recs.Pairwise (fun a b => a.pos < b.pos) ∧ ∀ r ∈ q.recs, q.start ≤ r.pos

/-- log invariant: distinct queue names, every queue well formed -/
def Inv (l : Log) : Prop :=
  (l.queues.map (·.1)).Nodup ∧ ∀ kv ∈ l.queues, QInv kv.2

/-! ### the invariant is a property of `queues` only and is kept by `set` / `remove` -/

theorem Inv.of_queues {l l' : Log} (h : l'.queues = l.queues) (hI : Inv l) : Inv l' := by
  unfold Inv; rw [h]; exact hI

theorem abs_of_queues {l l' : Log} (h : l'.queues = l.queues) : l'.abs = l.abs := by
  unfold Log.abs; rw [h]

theorem Inv.get {l : Log} (hI : Inv l) {q : Bytes} {mq : MemQueue}
    (hg : l.queues.get? q = some mq) : QInv mq :=
  hI.2 _ (get_mem hg)

theorem Inv.set {l l' : Log} {q : Bytes} {mq : MemQueue} (h : l'.queues = l.queues.set q mq)
    (hI : Inv l) (hq : QInv mq) : Inv l' := by
  unfold Inv; rw [h]
  refine ⟨set_keys_nodup _ _ _ hI.1, ?_⟩
  intro kv hkv
  rcases mem_set hkv with h | h
  · exact hI.2 kv h
  · subst h; exact hq

theorem Inv.remove {l l' : Log} {q : Bytes} (h : l'.queues = l.queues.remove q)
    (hI : Inv l) : Inv l' := by
  unfold Inv; rw [h]
  exact ⟨remove_keys_nodup _ _ hI.1, fun kv hkv => hI.2 kv (mem_remove hkv)⟩

theorem abs_of_set {l l' : Log} {q : Bytes} {mq : MemQueue} (h : l'.queues = l.queues.set q mq) :
    l'.abs = Spec.set l.abs q mq.abs := by
  unfold Log.abs; rw [h]; exact abs_set _ _ _

theorem abs_of_remove {l l' : Log} {q : Bytes} (h : l'.queues = l.queues.remove q) :
    l'.abs = Spec.remove l.abs q := by
  unfold Log.abs; rw [h]; exact abs_remove _ _

/-- lookup commutes with the abstraction -/
theorem get_abs (l : Log) (name : Bytes) :
    (l.queues.get? name = none ↔ l.abs.get? name = none) ∧
    (l.queues.get? name).map MemQueue.abs = l.abs.get? name := by
  have h : l.abs.get? name = (l.queues.get? name).map MemQueue.abs := abs_get l.queues name
  rw [h]
  exact ⟨by simp, rfl⟩

theorem abs_get_eq (l : Log) (name : Bytes) :
    Spec.get? l.abs name = (l.queues.get? name).map MemQueue.abs := abs_get l.queues name

theorem QInv_empty : QInv {} := ⟨List.Pairwise.nil, fun _ h => by cases h⟩

/-! ### the refinement, call by call -/

section
variable (g : Geom) (l : Log) (tick : Bool) (order : List Bytes)

/-- the three clauses of the refinement for one step -/
def Refines (c : Call) : Prop :=
  (step g l c tick order).1.abs = (Spec.step l.abs c).1 ∧
  (step g l c tick order).2.1.logical = (Spec.step l.abs c).2 ∧
  Inv (step g l c tick order).1

theorem refines_create (hI : Inv l) (q : Bytes) : Refines g l tick order (.create q) := by
  unfold Refines
  have hs := abs_get_eq l q
  cases hg : l.queues.get? q with
  | some mq =>
    rw [hg] at hs
    rw [step_create_some g l tick order q mq hg]
    simp only [Spec.step, hs, Option.map_some]
    exact ⟨by trivial, by trivial, hI⟩
  | none =>
    rw [hg] at hs
    obtain ⟨hq, n, ho⟩ := step_create_none g l tick order q hg
    simp only [Spec.step, hs, Option.map_none]
    refine ⟨abs_of_set hq, by rw [ho]; rfl, Inv.set hq hI QInv_empty⟩

theorem refines_delete (hI : Inv l) (q : Bytes) : Refines g l tick order (.delete q) := by
  unfold Refines
  have hs := abs_get_eq l q
  cases hg : l.queues.get? q with
  | none =>
    rw [hg] at hs
    rw [step_delete_none g l tick order q hg]
    simp only [Spec.step, hs, Option.map_none]
    exact ⟨by trivial, by trivial, hI⟩
  | some mq =>
    rw [hg] at hs
    obtain ⟨hq, n, ho⟩ := step_delete_some g l tick order q mq hg
    simp only [Spec.step, hs, Option.map_some]
    exact ⟨abs_of_remove hq, by rw [ho]; rfl, Inv.remove hq hI⟩

theorem refines_truncate (hI : Inv l) (q : Bytes) (p : Nat) :
    Refines g l tick order (.truncate q p) := by
  unfold Refines
  have hs := abs_get_eq l q
  cases hg : l.queues.get? q with
  | none =>
    rw [hg] at hs
    rw [step_truncate_none g l tick order q p hg]
    simp only [Spec.step, hs, Option.map_none]
    exact ⟨by trivial, by trivial, hI⟩
  | some mq =>
    rw [hg] at hs
    obtain ⟨hq, n, ho⟩ := step_truncate_some g l tick order q p mq hg
    have hmq := hI.get hg
    obtain ⟨hrecs, hnext, hev, hsort, hstart⟩ := MemQueue.truncateHead_spec mq p hmq.1 hmq.2
    simp only [Spec.step, hs, Option.map_some]
    refine ⟨?_, ?_, Inv.set hq hI ⟨hsort, hstart⟩⟩
    · rw [abs_of_set hq]
      congr 1
      simp only [MemQueue.abs, hrecs, hnext, List.filter_map]
      rfl
    · rw [ho]
      simp only [Outcome.logical, hev, MemQueue.abs, List.filter_map, List.length_map]
      rfl

theorem refines_append (hI : Inv l) (q : Bytes) (pos? : Option Nat) (pls : List Bytes) :
    Refines g l tick order (.append q pos? pls) := by
  unfold Refines
  have hs := abs_get_eq l q
  cases hg : l.queues.get? q with
  | none =>
    rw [hg] at hs
    rw [step_append_none g l tick order q pos? pls hg]
    simp only [Spec.step, hs, Option.map_none]
    exact ⟨by trivial, by trivial, hI⟩
  | some mq =>
    rw [hg] at hs
    have hmq := hI.get hg
    have hnext : mq.abs.next = mq.nextPosition := rfl
    -- rejected / no-op shapes first
    by_cases hretry : ∃ p, pos? = some p ∧ p + 1 = mq.nextPosition
    · obtain ⟨p, rfl, hp⟩ := hretry
      rw [step_append_retry g l tick order q mq p pls hg hp]
      simp only [Spec.step, hs, Option.map_some, hnext, hp, if_true]
      exact ⟨by trivial, by trivial, hI⟩
    by_cases hpast : ∃ p, pos? = some p ∧ p < mq.nextPosition
    · obtain ⟨p, rfl, hp⟩ := hpast
      have hp1 : p + 1 ≠ mq.nextPosition := fun h => hretry ⟨p, rfl, h⟩
      rw [step_append_past g l tick order q mq p pls hg hp1 hp]
      simp only [Spec.step, hs, Option.map_some, hnext, hp1, hp, if_true, if_false]
      exact ⟨by trivial, by trivial, hI⟩
    have hp : ∀ p, pos? = some p → mq.nextPosition ≤ p := by
      intro p h
      have : ¬ p < mq.nextPosition := fun h' => hpast ⟨p, h, h'⟩
      omega
    cases hpl : pls with
    | nil =>
      rw [step_append_empty g l tick order q mq pos? hg hp]
      cases pos? with
      | none =>
        simp only [Spec.step, hs, Option.map_some, List.isEmpty_nil, if_true]
        exact ⟨by trivial, by trivial, hI⟩
      | some p =>
        have := hp p rfl
        have h1 : ¬ (p + 1 = mq.nextPosition) := by omega
        have h2 : ¬ (p < mq.nextPosition) := by omega
        simp only [Spec.step, hs, Option.map_some, hnext, h1, h2, List.isEmpty_nil, if_true, if_false]
        exact ⟨by trivial, by trivial, hI⟩
    | cons pl pls' =>
      rw [← hpl]
      have hne : pls ≠ [] := by rw [hpl]; simp
      have hemp : pls.isEmpty = false := by rw [hpl]; rfl
      have hpos : mq.nextPosition ≤ appendPos mq pos? := by
        cases pos? with
        | none => exact Nat.le_refl _
        | some p => exact hp p rfl
      obtain ⟨mq', hall, hrecs, hnx, hsort, hstart⟩ :=
        appendAll_spec l.cur pls mq (appendPos mq pos?) hmq.1 hmq.2 hpos
      obtain ⟨hq, n, ho⟩ := step_append_ok g l tick order q mq mq' pos? pls hg hp hne hall
      have habs : mq'.abs = { next := appendPos mq pos? + pls.length,
                              recs := mq.abs.recs ++ numberFrom (appendPos mq pos?) pls } := by
        simp only [MemQueue.abs, hrecs, hnx hne]
      refine ⟨?_, ?_, Inv.set hq hI ⟨hsort, hstart⟩⟩
      · rw [abs_of_set hq, habs]
        cases pos? with
        | none =>
          simp only [Spec.step, hs, Option.map_some, hemp, appendPos]
          rfl
        | some p =>
          have := hp p rfl
          have h1 : ¬ (p + 1 = mq.nextPosition) := by omega
          have h2 : ¬ (p < mq.nextPosition) := by omega
          simp only [Spec.step, hs, Option.map_some, hnext, h1, h2, hemp, appendPos, if_false]
          rfl
      · rw [ho]
        cases pos? with
        | none =>
          simp only [Spec.step, hs, Option.map_some, hemp, appendPos, Outcome.logical]
          rfl
        | some p =>
          have := hp p rfl
          have h1 : ¬ (p + 1 = mq.nextPosition) := by omega
          have h2 : ¬ (p < mq.nextPosition) := by omega
          simp only [Spec.step, hs, Option.map_some, hnext, h1, h2, hemp, appendPos, if_false,
            Outcome.logical]
          rfl

theorem refines_persist (hI : Inv l) (a : PersistAction) : Refines g l tick order (.persist a) :=
  ⟨rfl, rfl, hI⟩

end

/-- **C05 (one call).** Under the invariant, `Log.step` and `Spec.step` commute with the
    abstraction, return the same logical outcome, and the invariant is kept. -/
theorem C05_refines (g : Geom) (l : Log) (hI : Inv l) (c : Call) (tick : Bool) (order : List Bytes) :
    let r := Log.step g l c tick order
    r.1.abs = (Spec.step l.abs c).1 ∧ r.2.1.logical = (Spec.step l.abs c).2 ∧ Inv r.1 := by
  intro r
  cases c with
  | create q => exact refines_create g l tick order hI q
  | delete q => exact refines_delete g l tick order hI q
  | append q pos? pls => exact refines_append g l tick order hI q pos? pls
  | truncate q p => exact refines_truncate g l tick order hI q p
  | persist a => exact refines_persist g l tick order hI a

/-- every log without queues (in particular the freshly created one) satisfies the invariant -/
theorem Inv_empty (files : List Nat) (cur off : Nat) (policy : Policy) :
    Inv { files := files, cur := cur, off := off, queues := [], policy := policy } :=
  ⟨List.Pairwise.nil, fun _ h => by cases h⟩

/-! ### histories -/

/-- run a list of calls (each with its clock bit and hash-map order oracle) -/
def run (g : Geom) (l : Log) : List (Call × Bool × List Bytes) → Log
  | [] => l
  | (c, tick, order) :: cs => run g (Log.step g l c tick order).1 cs

/-- outcomes of a run -/
def outcomes (g : Geom) (l : Log) : List (Call × Bool × List Bytes) → List Outcome
  | [] => []
  | (c, tick, order) :: cs =>
    (Log.step g l c tick order).2.1 :: outcomes g (Log.step g l c tick order).1 cs

end MRL.C05

namespace MRL.Spec

def run (s : Spec) : List Call → Spec
  | [] => s
  | c :: cs => run (s.step c).1 cs

def outcomes (s : Spec) : List Call → List LOutcome
  | [] => []
  | c :: cs => (s.step c).2 :: outcomes (s.step c).1 cs

end MRL.Spec

namespace MRL.C05
open MRL Log

/-- **C05 (histories).** Any sequence of calls from a log satisfying the invariant is a run of
    the specification: same final abstract state, same logical outcomes, invariant kept. -/
theorem C05_history (g : Geom) (cs : List (Call × Bool × List Bytes)) : ∀ (l : Log), Inv l →
    (run g l cs).abs = Spec.run l.abs (cs.map (·.1)) ∧
    (outcomes g l cs).map Outcome.logical = Spec.outcomes l.abs (cs.map (·.1)) ∧
    Inv (run g l cs) := by
  induction cs with
  | nil => intro l hI; exact ⟨rfl, rfl, hI⟩
  | cons x cs ih =>
    intro l hI
    obtain ⟨c, tick, order⟩ := x
    obtain ⟨h1, h2, h3⟩ := C05_refines g l hI c tick order
    obtain ⟨i1, i2, i3⟩ := ih _ h3
    simp only [run, outcomes, List.map_cons, Spec.run, Spec.outcomes]
    rw [← h1, ← h2]
    exact ⟨i1, by rw [i2], i3⟩

/-- pointwise form: the `i`-th outcomes agree -/
theorem C05_history_pointwise (g : Geom) (cs : List (Call × Bool × List Bytes)) (l : Log)
    (hI : Inv l) (i : Nat) :
    ((outcomes g l cs)[i]?).map Outcome.logical = (Spec.outcomes l.abs (cs.map (·.1)))[i]? := by
  rw [← (C05_history g cs l hI).2.1, List.getElem?_map]

/-! ### read accessors -/

theorem range_eq_filter (q : MemQueue) (hq : QInv q) (lo hi : MemQueue.Bound) :
    q.range lo hi = Spec.range q.abs lo hi := by
  rw [MemQueue.range_recs q hq.1 lo hi]
  simp only [Spec.range, MemQueue.abs, List.filter_map]
  rfl

theorem lastPosition_eq (q : MemQueue) : q.lastPosition = Spec.lastPosition q.abs := rfl

theorem lastRecord_eq (q : MemQueue) : q.lastRecord = Spec.lastRecord q.abs := by
  simp only [MemQueue.lastRecord, Spec.lastRecord, MemQueue.abs, List.getLast?_map]

/-! ### non-vacuity -/

/-- a concrete log with two queues, one holding two records -/
def exLog : Log :=
  { files := [0], cur := 0, off := 0, policy := .doNothing,
    queues := [([1], { start := 3, recs := [⟨3, [7], none⟩, ⟨5, [8], some 0⟩] }), ([2], {})] }

theorem exLog_Inv : Inv exLog := by
  refine ⟨by decide, ?_⟩
  intro kv hkv
  simp only [exLog, List.mem_cons, List.not_mem_nil, or_false] at hkv
  rcases hkv with rfl | rfl
  · exact ⟨by simp, by simp⟩
  · exact QInv_empty

/-- an append on it really changes the abstract state, as the specification says -/
example (g : Geom) :
    (Log.step g exLog (.append [1] none [[9]]) false []).1.abs =
      [([1], { next := 7, recs := [(3, [7]), (5, [8]), (6, [9])] }), ([2], {})] ∧
    (Log.step g exLog (.append [1] none [[9]]) false []).1.abs ≠ exLog.abs ∧
    (Log.step g exLog (.append [1] none [[9]]) false []).2.1.logical = .appended (some 6) := by
  obtain ⟨h1, h2, _⟩ := C05_refines g exLog exLog_Inv (.append [1] none [[9]]) false []
  rw [h1, h2]
  decide

end MRL.C05
