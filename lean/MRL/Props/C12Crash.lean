/-
C12, crash leg: a batch is atomic across a crash. If an `append` of several payloads is in
flight when the process dies, then after recovery the queue holds either exactly the records it
had before, or those plus ALL the records of the batch at consecutive fresh positions — never a
strict non-empty prefix of the batch, never a hole.
-/
import MRL.Proofs.StepCrash

namespace MRL.C12K
open MRL Log C01J C02A Crash

/-- **C12 across a crash.** `mq` is the queue before the call; the call, had it completed, would
    have returned `.appended (some last) w`. -/
theorem C12_crash_batch_atomic (g : Geom) (hB : g.B ≤ 65542) (cap : Nat) (l : Log) (J : List JE)
    (img : Image) (b : BufSt) (h : C01R.ReachD g cap l J img b) (hb : b.pend = [])
    (q : Bytes) (pos : Option Nat) (pls : List Bytes) (tick : Bool) (order : List Bytes)
    (hfits : ∀ j ∈ J ++ l.stepJ g (.append q pos pls) order, C07.WF j.e)
    (htorn : TornStep g l (.append q pos pls) tick order) (k cut : Nat) (policy' : Policy)
    (order' : List Bytes) (mq : MemQueue) (hg : l.queues.get? q = some mq) (last w : Nat)
    (hout : (l.step g (.append q pos pls) tick order).2.1 = .appended (some last) w) :
    ∃ rec p, recover g (crashDisk g cap l img b (.append q pos pls) tick order k cut) policy' order' none
        = .ok rec ∧
      mq.nextPosition ≤ p ∧ (numberFrom p pls).map (·.1) = List.range' p pls.length ∧
      ∃ sq, C18.view rec.log q = some sq ∧
        ((sq.recs = mq.abs.recs ∧ sq.next = mq.nextPosition) ∨
         (sq.recs = mq.abs.recs ++ numberFrom p pls ∧ sq.next = last + 1)) := by
  obtain ⟨rec, hrec, _, hI, hv⟩ :=
    crash_views g hB cap l J img b h hb (.append q pos pls) tick order hfits htorn k cut policy' order'
  obtain ⟨mq', p, h1, h2, h3, h4, h5⟩ :=
    C04.C04_model_append_fresh g l hI tick order q pos pls last w mq hg hout
  refine ⟨rec, p, hrec, h2, h4, ?_⟩
  rcases hv with hv | hv
  · refine ⟨mq.abs, ?_, .inl ⟨rfl, rfl⟩⟩
    rw [hv q]; unfold C18.view; rw [hg]; rfl
  · refine ⟨mq'.abs, ?_, .inr ⟨h3, ?_⟩⟩
    · rw [hv q]; unfold C18.view; rw [h1]; rfl
    · show mq'.nextPosition = last + 1
      omega

/-- spelled out: the number of records of `q` after recovery is the old one or the old one plus
    the whole batch; in particular no strict non-empty prefix of the batch survives alone -/
theorem C12_crash_no_partial_batch (g : Geom) (hB : g.B ≤ 65542) (cap : Nat) (l : Log) (J : List JE)
    (img : Image) (b : BufSt) (h : C01R.ReachD g cap l J img b) (hb : b.pend = [])
    (q : Bytes) (pos : Option Nat) (pls : List Bytes) (tick : Bool) (order : List Bytes)
    (hfits : ∀ j ∈ J ++ l.stepJ g (.append q pos pls) order, C07.WF j.e)
    (htorn : TornStep g l (.append q pos pls) tick order) (k cut : Nat) (policy' : Policy)
    (order' : List Bytes) (mq : MemQueue) (hg : l.queues.get? q = some mq) (last w : Nat)
    (hout : (l.step g (.append q pos pls) tick order).2.1 = .appended (some last) w) :
    ∃ rec sq, recover g (crashDisk g cap l img b (.append q pos pls) tick order k cut) policy' order' none
        = .ok rec ∧ C18.view rec.log q = some sq ∧
      (sq.recs.length = mq.recs.length ∨ sq.recs.length = mq.recs.length + pls.length) ∧
      ∀ p j, 0 < j → j < pls.length → sq.recs ≠ mq.abs.recs ++ (numberFrom p pls).take j := by
  obtain ⟨rec, p, hrec, _, _, sq, hsq, hcases⟩ :=
    C12_crash_batch_atomic g hB cap l J img b h hb q pos pls tick order hfits htorn k cut policy' order'
      mq hg last w hout
  have hlen : (mq.abs.recs).length = mq.recs.length := by simp [MemQueue.abs]
  have hnf : ∀ p, (numberFrom p pls).length = pls.length := fun p => numberFrom_length p pls
  have hl : sq.recs.length = mq.recs.length ∨ sq.recs.length = mq.recs.length + pls.length := by
    rcases hcases with ⟨h1, _⟩ | ⟨h1, _⟩
    · left; rw [h1, hlen]
    · right; rw [h1, List.length_append, hlen, hnf]
  refine ⟨rec, sq, hrec, hsq, hl, ?_⟩
  intro p' j hj0 hj he
  have := congrArg List.length he
  rw [List.length_append, List.length_take, hnf, hlen] at this
  omega

end MRL.C12K
