/-
C09 about `open`, closed: `C09V.C09_recover_one_frame` without the hypothesis `7 ≤ z`.

The tape of the image of a reachable state may end anywhere — within the last 6 bytes of the last
block of the last tracked file, or exactly at its end (then the reader stops with `needNext` at the
cursor and no block follows). The scan of the damaged stream is taken from the reader over tapes of
items (`L.readS_layoutJ`, MRL/Proofs/LScanJ.lean): the damaged frame is a junk item whose checksum
fails (`L.JunkOK`, first alternative). Everything else is as in MRL/Props/C08Recover.lean.
-/
import MRL.Proofs.Img2OneFrame
import MRL.Props.C08Recover

namespace MRL.C09V
open MRL Consts Codec Log Img

/-- **C09_recover_one_frame_all.** For the image `W` of ANY reachable state there is a frame layout
    `fs` of its tape (then `z` zeros, any `z`) such that for ANY frame `(t, p)` of it, any
    replacement `crc'`, `p'` (same lengths) of its checksum/payload bytes that fails the frame's
    check, and any image `W'` of the same shape carrying the damaged stream: `recover` succeeds on
    `W'`, and for some journal index `a` every record of every live queue that was not appended by
    `J[a]` is in the recovered log with the same position and payload. -/
theorem C09_recover_one_frame_all (g : Geom) (hB : g.B ≤ 65542) (cap : Nat) (l : Log) (J : List JE) (img : Image)
    (b : BufSt) (h : C01R.ReachD g cap l J img b) (hwf : ∀ j ∈ J, C07.WF j.e) :
    ∃ fs z, streamOf (C01R.flushDisk img b) = (layoutBufs g 0 fs).flatten ++ zeros z ∧ Fits g 0 fs ∧
      ∀ fs1 t p fs2, fs = fs1 ++ (t, p) :: fs2 →
      ∀ crc' p' : Bytes, crc'.length = 4 → p'.length = p.length → frameCrc t p' ≠ leNat crc' →
      ∀ W', SameShape (C01R.flushDisk img b) W' →
        streamOf W' = (C09.damagedBufs g 0 fs1 t fs2 crc' p').flatten ++ zeros z →
      ∀ (policy : Policy) (order : List Bytes),
        ∃ r a, recover g W' policy order none = .ok r ∧
          ∀ name q, l.queues.get? name = some q → ∀ rc ∈ q.recs, ¬ RecordOfIdx J a name rc →
            ∃ q', r.log.queues.get? name = some q' ∧ ∃ r' ∈ q'.recs, r'.pos = rc.pos ∧ r'.payload = rc.payload := by
  obtain ⟨fs, z, h1, h2, h3⟩ := one_frame_core_all g hB cap l J img b h hwf
  refine ⟨fs, z, h1, h2, ?_⟩
  intro fs1 t p fs2 hfs crc' p' h4 hp hdet W' hshape hS' policy order
  obtain ⟨r, a, hr, hii⟩ := h3 fs1 t p fs2 hfs crc' p' h4 hp hdet W' hshape hS' policy order
  refine ⟨r, a, hr, ?_⟩
  intro name q hq rc hrc hnot
  exact hii name q hq rc hrc (fun ha hrec => hnot ⟨ha, hrec⟩)

end MRL.C09V
