/-
C03, effect-order part: a WAL file is never removed while the data that supersedes it is still
only in a volatile buffer — every `unlink` comes after a full `flush, fsync(file), fsync(dir)` with
no write in between —, and every persisted operation has reached the OS / the disk when its call
returns. Stated on the effect lists of `Log.step` and `recover`, with the `BufWriter` consequences.
-/
import MRL.Props.C06
import MRL.Proofs.StepBuf

namespace MRL.C03
open MRL MRL.Log MRL.Step

/-! ### Definitions -/

def isWrite : Effect → Bool
  | .write _ _ _ => true
  | _ => false

def noWrite (es : List Effect) : Bool := es.all fun e => !isWrite e

/-- progress towards a full sync: `dirty` (something may be volatile), `f1` (just flushed),
    `f2` (flushed and file-fsynced), `clean` (flush, fsync(file), fsync(dir) done, no write since) -/
inductive SyncSt
  | dirty | f1 | f2 | clean
  deriving DecidableEq, Repr

def syncStep : SyncSt → Effect → SyncSt
  | _, .write _ _ _ => .dirty
  | .clean, _ => .clean
  | _, .flush => .f1
  | .f1, .fsyncFile _ => .f2
  | .f2, .fsyncDir => .clean
  | _, _ => .dirty

def syncState (s : SyncSt) (es : List Effect) : SyncSt := es.foldl syncStep s

/-- every `unlink` happens in state `clean` -/
def unlinksOk : SyncSt → List Effect → Bool
  | _, [] => true
  | s, .unlink _ :: es => s == .clean && unlinksOk s es
  | s, e :: es => unlinksOk (syncStep s e) es

/-- every `unlink` is preceded by a full `flush, fsync(file), fsync(dir)` with no write in between -/
def syncedBeforeUnlinks (es : List Effect) : Bool := unlinksOk .dirty es

def flushStep : Bool → Effect → Bool
  | _, .write _ _ _ => false
  | _, .flush => true
  | b, _ => b

/-- the last write, if any, is followed by a `flush` -/
def endsFlushed (es : List Effect) : Bool := es.foldl flushStep true

/-- there is a `flush` with no write after it -/
def flushedAtEnd (es : List Effect) : Bool := es.foldl flushStep false

/-- the last write, if any, is followed by `flush, fsync(file), fsync(dir)` -/
def endsSynced (es : List Effect) : Bool := syncState .clean es == .clean

/-! ### Algebra -/

theorem syncState_append (s : SyncSt) (a b : List Effect) :
    syncState s (a ++ b) = syncState (syncState s a) b := by
  simp [syncState, List.foldl_append]

theorem syncStep_clean_of_not_write (e : Effect) (h : isWrite e = false) : syncStep .clean e = .clean := by
  cases e <;> first | rfl | (simp [isWrite] at h)

theorem syncStep_unlink (s : SyncSt) (f : Nat) (h : s = .clean) : syncStep s (.unlink f) = s := by
  subst h; rfl

theorem unlinksOk_append (a b : List Effect) :
    ∀ s, unlinksOk s (a ++ b) = (unlinksOk s a && unlinksOk (syncState s a) b) := by
  induction a with
  | nil => intro s; simp [unlinksOk, syncState]
  | cons e es ih =>
    intro s
    cases e with
    | unlink f =>
      simp only [List.cons_append, unlinksOk, ih, syncState, List.foldl_cons]
      cases s <;> first | rfl | simp [syncStep, Bool.and_assoc]
    | _ => simp only [List.cons_append, unlinksOk, ih, syncState, List.foldl_cons]

theorem unlinksOk_of_no_unlink (es : List Effect) (h : unlinked es = []) : ∀ s, unlinksOk s es = true := by
  induction es with
  | nil => intro s; rfl
  | cons e es ih =>
    intro s
    cases e with
    | unlink f => simp [unlinked] at h
    | _ => simp only [unlinked] at h; simp only [unlinksOk]; exact ih h _

theorem unlinksOk_unlinks (fs : List Nat) : unlinksOk .clean (fs.map Effect.unlink) = true := by
  induction fs with
  | nil => rfl
  | cons f fs ih => simp [unlinksOk, ih]

theorem syncState_unlinks (fs : List Nat) : syncState .clean (fs.map Effect.unlink) = .clean := by
  induction fs with
  | nil => rfl
  | cons f fs ih => simpa [syncState, syncStep] using ih

theorem syncState_triple (s : SyncSt) (l : Log) :
    syncState s (l.persistEffects .flushAndFsync) = .clean := by
  cases s <;> rfl

theorem flush_append (st : Bool) (a b : List Effect) :
    (a ++ b).foldl flushStep st = b.foldl flushStep (a.foldl flushStep st) := List.foldl_append

theorem flush_persist (st : Bool) (l : Log) (a : PersistAction) :
    (l.persistEffects a).foldl flushStep st = true := by
  cases a <;> rfl

/-! ### Reading the checkers: explicit splits -/

theorem syncStep_eq_clean (s : SyncSt) (e : Effect) (h : syncStep s e = .clean) :
    (s = .clean ∧ isWrite e = false) ∨ (s = .f2 ∧ e = .fsyncDir) := by
  cases s <;> cases e <;> simp [syncStep, isWrite] at h ⊢

theorem syncStep_eq_f2 (s : SyncSt) (e : Effect) (h : syncStep s e = .f2) :
    s = .f1 ∧ ∃ c, e = .fsyncFile c := by
  cases s <;> cases e <;> simp [syncStep] at h ⊢

theorem syncStep_eq_f1 (s : SyncSt) (e : Effect) (h : syncStep s e = .f1) : e = .flush := by
  cases s <;> cases e <;> simp [syncStep] at h ⊢

/-- how a run of effects can end in state `clean` -/
theorem clean_decomp (es : List Effect) : ∀ s, syncState s es = .clean →
    (∃ a c b, es = a ++ [.flush, .fsyncFile c, .fsyncDir] ++ b ∧ noWrite b = true) ∨
    (s = .clean ∧ noWrite es = true) ∨
    (s = .f2 ∧ ∃ b, es = .fsyncDir :: b ∧ noWrite b = true) ∨
    (s = .f1 ∧ ∃ c b, es = .fsyncFile c :: .fsyncDir :: b ∧ noWrite b = true) := by
  induction es with
  | nil => intro s h; exact .inr (.inl ⟨h, rfl⟩)
  | cons e es ih =>
    intro s h
    have h' : syncState (syncStep s e) es = .clean := h
    rcases ih _ h' with ⟨a, c, b, rfl, hb⟩ | ⟨hs, hn⟩ | ⟨hs, b, rfl, hb⟩ | ⟨hs, c, b, rfl, hb⟩
    · exact .inl ⟨e :: a, c, b, by simp, hb⟩
    · rcases syncStep_eq_clean s e hs with ⟨h1, h2⟩ | ⟨h1, h2⟩
      · exact .inr (.inl ⟨h1, by simp [noWrite, h2] at hn ⊢; exact hn⟩)
      · subst h2; exact .inr (.inr (.inl ⟨h1, es, rfl, hn⟩))
    · obtain ⟨h1, c, rfl⟩ := syncStep_eq_f2 s e hs
      exact .inr (.inr (.inr ⟨h1, c, b, rfl, hb⟩))
    · have := syncStep_eq_f1 s e hs
      subst this
      exact .inl ⟨[], c, b, rfl, hb⟩

/-- **Explicit form of the unlink discipline.** However the effect list is split at an `unlink`,
    what precedes it ends with `flush, fsync(file), fsync(dir)` followed by write-free effects. -/
theorem split_of_synced (es : List Effect) (h : syncedBeforeUnlinks es = true)
    (pre post : List Effect) (f : Nat) (hes : es = pre ++ [.unlink f] ++ post) :
    ∃ a c b, pre = a ++ [.flush, .fsyncFile c, .fsyncDir] ++ b ∧ noWrite b = true := by
  subst hes
  rw [syncedBeforeUnlinks, List.append_assoc, unlinksOk_append] at h
  simp only [List.singleton_append, unlinksOk, Bool.and_eq_true, beq_iff_eq] at h
  rcases clean_decomp pre .dirty h.2.1 with r | ⟨hs, _⟩ | ⟨hs, _⟩ | ⟨hs, _⟩
  · exact r
  · cases hs
  · cases hs
  · cases hs

/-- `endsSynced`, read: no write at all, or a full sync after the last write -/
theorem endsSynced_split (es : List Effect) (h : endsSynced es = true) :
    noWrite es = true ∨ ∃ a c b, es = a ++ [.flush, .fsyncFile c, .fsyncDir] ++ b ∧ noWrite b = true := by
  simp only [endsSynced, beq_iff_eq] at h
  rcases clean_decomp es .clean h with r | ⟨_, hn⟩ | ⟨hs, _⟩ | ⟨hs, _⟩
  · exact .inr r
  · exact .inl hn
  · cases hs
  · cases hs

/-- `endsFlushed` / `flushedAtEnd`, read -/
theorem flush_decomp (es : List Effect) : ∀ st, es.foldl flushStep st = true →
    (st = true ∧ noWrite es = true) ∨ ∃ a b, es = a ++ [.flush] ++ b ∧ noWrite b = true := by
  induction es with
  | nil => intro st h; exact .inl ⟨h, rfl⟩
  | cons e es ih =>
    intro st h
    have h' : es.foldl flushStep (flushStep st e) = true := h
    rcases ih _ h' with ⟨hs, hn⟩ | ⟨a, b, rfl, hb⟩
    · cases e with
      | write f off d => simp [flushStep] at hs
      | flush => exact .inr ⟨[], es, rfl, hn⟩
      | _ => exact .inl ⟨hs, by simpa [noWrite, isWrite] using hn⟩
    · exact .inr ⟨e :: a, b, by simp, hb⟩

theorem endsFlushed_split (es : List Effect) (h : endsFlushed es = true) :
    noWrite es = true ∨ ∃ a b, es = a ++ [.flush] ++ b ∧ noWrite b = true := by
  rcases flush_decomp es true h with ⟨_, hn⟩ | r
  · exact .inl hn
  · exact .inr r

theorem flushedAtEnd_split (es : List Effect) (h : flushedAtEnd es = true) :
    ∃ a b, es = a ++ [.flush] ++ b ∧ noWrite b = true := by
  rcases flush_decomp es false h with ⟨hs, _⟩ | r
  · cases hs
  · exact r

/-! ### (a) every unlink is preceded by a full sync -/

section
variable (g : Geom)

theorem runGc_unlinksOk (l : Log) (order : List Bytes) (s : SyncSt) :
    unlinksOk s (runGc g l order).2.1 = true := by
  rcases runGc_trichotomy g l order with ⟨hr, _⟩ | ⟨hr, _⟩ | ⟨hr, _⟩
  · rw [hr]
    simp only [gcResult, unlinksOk_append, syncState_append, syncState_triple, unlinksOk_unlinks,
      unlinksOk_of_no_unlink _ (writeTouches_unlinked g _ l), unlinksOk_of_no_unlink _ (unlinked_persist _ _),
      Bool.and_self]
  · rw [hr]; rfl
  · rw [hr]; rfl

theorem step_unlinksOk (l : Log) (c : Call) (tick : Bool) (order : List Bytes) (s : SyncSt) :
    unlinksOk s (Log.step g l c tick order).2.2 = true := by
  rcases step_shape2 g l c tick order with ⟨out, hs⟩ | ⟨a, _, hs⟩ | ⟨e, qs', out, hs⟩
  · rw [hs]; rfl
  · rw [hs]; exact unlinksOk_of_no_unlink _ (unlinked_persist l a) s
  · rw [hs]
    simp only [unlinksOk_append, unlinksOk_of_no_unlink _ (writeEntry_unlinked g l e),
      unlinksOk_of_no_unlink _ (unlinked_tailSync _ c tick), Bool.true_and, Bool.and_true]
    cases isGcCall c with
    | false => rfl
    | true => exact runGc_unlinksOk g _ order _

/-- **C03 (a).** In the effects of every call, each `unlink` comes after a complete
    `flush, fsync(file), fsync(dir)` with no write in between. -/
theorem unlink_after_sync (l : Log) (c : Call) (tick : Bool) (order : List Bytes) :
    syncedBeforeUnlinks (Log.step g l c tick order).2.2 = true :=
  step_unlinksOk g l c tick order .dirty

/-- the same for the effects of `open` -/
theorem unlink_after_sync_open (img : Image) (policy : Policy) (order : List Bytes) (failAt : Option Nat)
    (r : Recovered) (h : recover g img policy order failAt = .ok r) :
    syncedBeforeUnlinks r.effects = true := by
  obtain ⟨lp, e0, io, hpre, _, heff⟩ := recover_ok g img policy order failAt r h
  rw [heff, syncedBeforeUnlinks, unlinksOk_append, runGc_unlinksOk, Bool.and_true]
  apply unlinksOk_of_no_unlink
  rw [recoverPre_effects g img policy failAt lp e0 io hpre]
  exact prepareImage_unlinked g img

/-- the explicit form, for calls -/
theorem unlink_after_sync_split (l : Log) (c : Call) (tick : Bool) (order : List Bytes)
    (pre post : List Effect) (f : Nat) (h : (Log.step g l c tick order).2.2 = pre ++ [.unlink f] ++ post) :
    ∃ a cf b, pre = a ++ [.flush, .fsyncFile cf, .fsyncDir] ++ b ∧ noWrite b = true :=
  split_of_synced _ (unlink_after_sync g l c tick order) pre post f h

end

/-! ### (b) persist points -/

section
variable (g : Geom) (l : Log) (tick : Bool) (order : List Bytes)

theorem endsSynced_of_triple (pre : List Effect) (l' : Log) :
    endsSynced (pre ++ l'.persistEffects .flushAndFsync) = true := by
  simp [endsSynced, syncState_append, syncState_triple]

theorem endsFlushed_of_persist (pre : List Effect) (l' : Log) (a : PersistAction) :
    endsFlushed (pre ++ l'.persistEffects a) = true := by
  rw [endsFlushed, flush_append, flush_persist]

theorem flushedAtEnd_of_persist (pre : List Effect) (l' : Log) (a : PersistAction) :
    flushedAtEnd (pre ++ l'.persistEffects a) = true := by
  rw [flushedAtEnd, flush_append, flush_persist]

/-- **C03 (b).** `create_queue`, when not rejected, ends with flush + fsync of the file and the
    directory after its last write. -/
theorem create_synced (q : Bytes) (h : l.queues.contains q = false) :
    endsSynced (Log.step g l (.create q) tick order).2.2 = true ∧
    flushedAtEnd (Log.step g l (.create q) tick order).2.2 = true := by
  rw [step_create_eq g l q tick order h]
  exact ⟨endsSynced_of_triple _ _, flushedAtEnd_of_persist _ _ _⟩

/-- **C03 (b).** `delete_queue`, when not rejected, likewise (the GC pass included). -/
theorem delete_synced (q : Bytes) (mq : MemQueue) (h : l.queues.get? q = some mq) :
    endsSynced (Log.step g l (.delete q) tick order).2.2 = true ∧
    flushedAtEnd (Log.step g l (.delete q) tick order).2.2 = true := by
  rw [step_delete_eq g l q mq tick order h]
  exact ⟨endsSynced_of_triple _ _, flushedAtEnd_of_persist _ _ _⟩

theorem persist_flush : (Log.step g l (.persist .flush) tick order).2.2 = [.flush] := rfl

theorem persist_flushAndFsync :
    (Log.step g l (.persist .flushAndFsync) tick order).2.2 = [.flush, .fsyncFile l.cur, .fsyncDir] := rfl

/-- the effects of a call: nothing, or something ending with the call's sync tail -/
theorem step_tail (c : Call) :
    (Log.step g l c tick order).2.2 = [] ∨ (∃ a, c = .persist a) ∨
    ∃ pre, (Log.step g l c tick order).2.2 = pre ++ tailSync (Log.step g l c tick order).1 c tick := by
  rcases step_shape2 g l c tick order with ⟨out, hs⟩ | ⟨a, hc, _⟩ | ⟨e, qs', out, hs⟩
  · left; rw [hs]
  · right; left; exact ⟨a, hc⟩
  · right; right; rw [hs]; exact ⟨_, rfl⟩

theorem tailSync_always (l' : Log) (c : Call) (a : PersistAction) (hp : l'.policy = .always a) :
    tailSync l' c tick = l'.persistEffects a ∨ tailSync l' c tick = l'.persistEffects .flushAndFsync := by
  unfold tailSync
  split
  · exact .inr rfl
  · left; simp [policyEffects, hp]

theorem tailSync_onDelay (l' : Log) (c : Call) (a : PersistAction) (hp : l'.policy = .onDelay a) :
    tailSync l' c true = l'.persistEffects a ∨ tailSync l' c true = l'.persistEffects .flushAndFsync := by
  unfold tailSync
  split
  · exact .inr rfl
  · left; simp [policyEffects, hp]

/-- effects ending with a persist of action `a` (or stronger) -/
theorem ends_of_tail (es pre : List Effect) (l' : Log) (a : PersistAction)
    (h : es = pre ++ l'.persistEffects a ∨ es = pre ++ l'.persistEffects .flushAndFsync) :
    endsFlushed es = true ∧ (a = .flushAndFsync → endsSynced es = true) := by
  rcases h with rfl | rfl
  · exact ⟨endsFlushed_of_persist _ _ _, fun ha => by subst ha; exact endsSynced_of_triple _ _⟩
  · exact ⟨endsFlushed_of_persist _ _ _, fun _ => endsSynced_of_triple _ _⟩

theorem ends_of_persist_call (a' a : PersistAction) :
    endsFlushed (l.persistEffects a') = true ∧ (a = .flushAndFsync → endsSynced (l.persistEffects a') = true) := by
  cases a' <;> exact ⟨rfl, fun _ => rfl⟩

/-- **C03 (b).** Under `PersistPolicy::Always(a)` every call — in particular every `append` and
    `truncate` — ends flushed; with `a = FlushAndFsync` it ends fully synced. -/
theorem always_persists (c : Call) (a : PersistAction) (hp : l.policy = .always a) :
    endsFlushed (Log.step g l c tick order).2.2 = true ∧
    (a = .flushAndFsync → endsSynced (Log.step g l c tick order).2.2 = true) := by
  have hpol : (Log.step g l c tick order).1.policy = .always a := by
    rw [C14.step_keeps_policy]; exact hp
  rcases step_tail g l tick order c with h | ⟨a', rfl⟩ | ⟨pre, h⟩
  · rw [h]; exact ⟨rfl, fun _ => rfl⟩
  · exact ends_of_persist_call l a' a
  · refine ends_of_tail _ pre (Log.step g l c tick order).1 a ?_
    rcases tailSync_always tick _ c a hpol with e | e <;> rw [e] at h
    · exact .inl h
    · exact .inr h

/-- **C03 (b).** Under `PersistPolicy::OnDelay(a)`, a call made when the delay has elapsed
    (`tick = true`) likewise. -/
theorem onDelay_persists (c : Call) (a : PersistAction) (hp : l.policy = .onDelay a) :
    endsFlushed (Log.step g l c true order).2.2 = true ∧
    (a = .flushAndFsync → endsSynced (Log.step g l c true order).2.2 = true) := by
  have hpol : (Log.step g l c true order).1.policy = .onDelay a := by
    rw [C14.step_keeps_policy]; exact hp
  rcases step_tail g l true order c with h | ⟨a', rfl⟩ | ⟨pre, h⟩
  · rw [h]; exact ⟨rfl, fun _ => rfl⟩
  · exact ends_of_persist_call l a' a
  · refine ends_of_tail _ pre (Log.step g l c true order).1 a ?_
    rcases tailSync_onDelay _ c a hpol with e | e <;> rw [e] at h
    · exact .inl h
    · exact .inr h

/-- a call that wrote something under `Always(_)` (or `OnDelay(_)` at a tick) left a flush behind
    its last write -/
theorem always_flushedAtEnd (c : Call) (a : PersistAction) (hp : l.policy = .always a)
    (hne : (Log.step g l c tick order).2.2 ≠ []) : flushedAtEnd (Log.step g l c tick order).2.2 = true := by
  have hpol : (Log.step g l c tick order).1.policy = .always a := by
    rw [C14.step_keeps_policy]; exact hp
  rcases step_tail g l tick order c with h | ⟨a', rfl⟩ | ⟨pre, h⟩
  · exact absurd h hne
  · cases a' <;> rfl
  · rcases tailSync_always tick _ c a hpol with e | e <;> rw [e] at h <;> rw [h] <;>
      exact flushedAtEnd_of_persist _ _ _

end

/-! ### (c) consequences for the `BufWriter` -/

theorem pend_after (cap : Nat) (es : List Effect) : ∀ (b : BufSt) (st : Bool), (st = true → b.pend = []) →
    es.foldl flushStep st = true → (toOsOps cap b es).1.pend = [] := by
  induction es with
  | nil => intro b st hinv h; exact hinv h
  | cons e es ih =>
    intro b st hinv h
    rw [Buf.toOsOps_cons]
    refine ih _ (flushStep st e) ?_ h
    cases e with
    | write f off d => intro h'; simp [flushStep] at h'
    | flush => intro _; rfl
    | _ => exact hinv

/-- **C03 (c).** If a flush follows the last write, nothing is left in the user-space buffer. -/
theorem buffer_empty_of_flushedAtEnd (cap : Nat) (b : BufSt) (es : List Effect) (h : flushedAtEnd es = true) :
    (toOsOps cap b es).1.pend = [] :=
  pend_after cap es b false (fun h => by cases h) h

/-- … and if the buffer was empty to begin with, `endsFlushed` suffices -/
theorem buffer_empty_of_endsFlushed (cap : Nat) (b : BufSt) (es : List Effect) (hb : b.pend = [])
    (h : endsFlushed es = true) : (toOsOps cap b es).1.pend = [] :=
  pend_after cap es b true (fun _ => hb) h

/-- a successful `create_queue` leaves the `BufWriter` empty, whatever was pending before -/
theorem create_leaves_buffer_empty (g : Geom) (l : Log) (tick : Bool) (order : List Bytes) (q : Bytes)
    (h : l.queues.contains q = false) (cap : Nat) (b : BufSt) :
    (toOsOps cap b (Log.step g l (.create q) tick order).2.2).1.pend = [] :=
  buffer_empty_of_flushedAtEnd cap b _ (create_synced g l tick order q h).2

theorem delete_leaves_buffer_empty (g : Geom) (l : Log) (tick : Bool) (order : List Bytes) (q : Bytes)
    (mq : MemQueue) (h : l.queues.get? q = some mq) (cap : Nat) (b : BufSt) :
    (toOsOps cap b (Log.step g l (.delete q) tick order).2.2).1.pend = [] :=
  buffer_empty_of_flushedAtEnd cap b _ (delete_synced g l tick order q mq h).2

/-- the sync state bounds the buffer: outside `dirty`, nothing is pending -/
theorem sync_inv (cap : Nat) (es : List Effect) : ∀ (b : BufSt) (s : SyncSt), (s ≠ .dirty → b.pend = []) →
    (syncState s es ≠ .dirty → (toOsOps cap b es).1.pend = []) := by
  induction es with
  | nil => intro b s hinv h; exact hinv h
  | cons e es ih =>
    intro b s hinv h
    rw [Buf.toOsOps_cons]
    refine ih _ (syncStep s e) ?_ h
    intro hs
    cases e with
    | write f off d => simp [syncStep] at hs
    | flush => rfl
    | _ =>
      refine hinv ?_
      intro hd; subst hd; simp [syncStep] at hs

/-- every `unlink` is issued with an empty buffer -/
def unlinkClean (cap : Nat) : BufSt → List Effect → Bool
  | _, [] => true
  | b, .unlink _ :: es => b.pend.isEmpty && unlinkClean cap b es
  | b, e :: es => unlinkClean cap (bufStep cap b e).1 es

theorem unlinkClean_of_ok (cap : Nat) (es : List Effect) : ∀ (b : BufSt) (s : SyncSt),
    (s ≠ .dirty → b.pend = []) → unlinksOk s es = true → unlinkClean cap b es = true := by
  induction es with
  | nil => intro b s _ _; rfl
  | cons e es ih =>
    intro b s hinv h
    cases e with
    | unlink f =>
      simp only [unlinksOk, Bool.and_eq_true, beq_iff_eq] at h
      have hp : b.pend = [] := hinv (by rw [h.1]; decide)
      simp only [unlinkClean, hp, List.isEmpty_nil, Bool.true_and]
      exact ih b s hinv h.2
    | write f off d =>
      simp only [unlinksOk] at h
      exact ih _ _ (by intro hs; simp [syncStep] at hs) h
    | flush =>
      simp only [unlinksOk] at h
      exact ih _ _ (fun _ => rfl) h
    | _ =>
      simp only [unlinksOk] at h
      refine ih _ _ ?_ h
      intro hs
      refine hinv ?_
      intro hd; subst hd; simp [syncStep] at hs

/-- **C03 (c).** In the OS-level run of a disciplined effect list, every `unlink` is issued with
    an empty `BufWriter` … -/
theorem flush_then_unlink (cap : Nat) (b : BufSt) (es : List Effect) (h : syncedBeforeUnlinks es = true) :
    unlinkClean cap b es = true :=
  unlinkClean_of_ok cap es b .dirty (fun h => absurd rfl h) h

/-- … so the OS operations before it are *all* the operations of the earlier effects: at whatever
    `unlink` the list is split, the OS-level list splits there too and nothing is pending. -/
theorem flush_then_unlink_image (cap : Nat) (b : BufSt) (es pre post : List Effect) (f : Nat)
    (h : syncedBeforeUnlinks es = true) (hes : es = pre ++ [.unlink f] ++ post) :
    (toOsOps cap b pre).1.pend = [] ∧
    (toOsOps cap b es).2 =
      (toOsOps cap b pre).2 ++ [OsOp.unlink f] ++ (toOsOps cap (toOsOps cap b pre).1 post).2 := by
  subst hes
  have h' := h
  rw [syncedBeforeUnlinks, List.append_assoc, unlinksOk_append] at h'
  simp only [List.singleton_append, unlinksOk, Bool.and_eq_true, beq_iff_eq] at h'
  refine ⟨sync_inv cap pre b .dirty (fun h => absurd rfl h) (by rw [h'.2.1]; decide), ?_⟩
  rw [List.append_assoc, Buf.toOsOps_append, List.singleton_append, Buf.toOsOps_cons]
  simp [bufStep, List.append_assoc]

/-- for calls -/
theorem step_unlinks_clean (g : Geom) (l : Log) (c : Call) (tick : Bool) (order : List Bytes)
    (cap : Nat) (b : BufSt) : unlinkClean cap b (Log.step g l c tick order).2.2 = true :=
  flush_then_unlink cap b _ (unlink_after_sync g l c tick order)

/-! ### Non-vacuity -/

/-- the truncation of `C06.lx_truncate`: two writes, the sync triple, two unlinks, in that order -/
example :
    let es := (Log.step C06.g64 C06.lx (.truncate [1] 0) false []).2.2
    es.map isWrite = [true, true, false, false, false, false, false] ∧
    es.drop 2 = [.flush, .fsyncFile 2, .fsyncDir, .unlink 0, .unlink 1] ∧
    syncedBeforeUnlinks es = true ∧ endsSynced es = true ∧ flushedAtEnd es = true := by
  rw [C06.lx_truncate]
  exact ⟨rfl, rfl, rfl, rfl, rfl⟩

/-- the checker is not vacuous: an unlink right after a write, or after a flush only, is refused -/
example : syncedBeforeUnlinks [.write 0 0 [1], .unlink 0] = false ∧
    syncedBeforeUnlinks [.write 0 0 [1], .flush, .unlink 0] = false ∧
    syncedBeforeUnlinks [.flush, .fsyncFile 0, .fsyncDir, .write 0 0 [1], .unlink 0] = false ∧
    syncedBeforeUnlinks [.write 0 0 [1], .flush, .fsyncFile 0, .fsyncDir, .unlink 0, .unlink 1] = true ∧
    endsFlushed [.flush, .write 0 0 [1]] = false ∧ endsSynced [.write 0 0 [1], .flush] = false := by
  decide

end MRL.C03
