/-
C07 — entries of any size round-trip at any block or file alignment.

Writer: `writeEntry` (recordlog/writer.rs + frame/writer.rs) cuts an entry into frames that never
cross a block end, zero-pads a block tail shorter than a header and writes an empty frame when
exactly a header fits. Reader: `scanBlocks` (frame/reader.rs over the rolling block reader) and
`assemble` (recordlog/reader.rs). For every geometry whose frame lengths fit the 2-byte length
field, every start cursor, every list of entries (any sizes, empty entries included), the reader
started at the writer's start cursor returns exactly the entries, in order, with no corruption
event, and stops exactly where the writer would write next.

`crc32` is opaque in all proofs (only `frameCrc t p < 2^32` is used).
Proof machinery: MRL/Proofs/Codec*.lean.
-/
import MRL.Proofs.CodecRead
import MRL.Proofs.CodecEntry

namespace MRL.C07
open MRL Consts Codec

/-! ### the writer: layout, frame discipline, byte counts -/

/-- **writeEntryBufs_frames.** The buffers of one entry (or of the tail of one entry when
    `isFirst = false`) are the layout `layoutBufs g c fs` — each frame `encodeFrame t p`, preceded
    by `zeros (g.B - cursor)` exactly when fewer than 7 bytes remain in the block — of a frame list
    `fs` such that: the types follow `FrameType.ofFlags isFirst isLast` (`EntryFrames`: a single
    Full, or First, Middle*, Last), the payloads concatenate to the entry, and every payload fits
    `maxFrameLen` at its cursor. The non-padding buffers are exactly the encoded frames. -/
theorem writeEntryBufs_frames (g : Geom) (c : Nat) (isFirst : Bool) (payload : Bytes) (hc : c < g.B) :
    ∃ fs : List Frm,
      writeEntryBufs g c isFirst payload hc = layoutBufs g c fs ∧
      EntryFrames isFirst fs ∧ payloadOf fs = payload ∧ Fits g c fs ∧
      (writeEntryBufs g c isFirst payload hc).filter (fun b => !isAllZero b)
        = fs.map (fun fr => encodeFrame fr.1 fr.2) := by
  obtain ⟨fs, h1, h2, h3, h4⟩ := writeEntryBufs_layout g c isFirst payload hc
  exact ⟨fs, h1, h2, h3, h4, by rw [h1]; exact layoutBufs_filter g c fs⟩

/-- the shape of `EntryFrames true`: `[Full]`, or `First :: … :: [Last]` with `Middle` between -/
theorem entryFrames_shape (fs : List Frm) (h : EntryFrames true fs) :
    (∃ p, fs = [(FrameType.full, p)]) ∨
    (∃ (p : Bytes) (mid : List Bytes) (q : Bytes), fs = (FrameType.first, p) :: (mid.map (fun m => (FrameType.middle, m)) ++ [(FrameType.last, q)])) := by
  have tail : ∀ fs : List Frm, EntryFrames false fs →
      ∃ (mid : List Bytes) (q : Bytes), fs = mid.map (fun m => (FrameType.middle, m)) ++ [(FrameType.last, q)] := by
    intro fs
    induction fs with
    | nil => intro h; exact h.elim
    | cons fr fs ih =>
      intro h
      obtain ⟨t, p⟩ := fr
      cases fs with
      | nil =>
        have := (EntryFrames_single false (t, p)).1 h
        simp only [FrameType.ofFlags] at this
        exact ⟨[], p, by simp [this]⟩
      | cons f2 fs =>
        obtain ⟨h1, h2⟩ := (EntryFrames_cons2 false (t, p) f2 fs).1 h
        obtain ⟨mid, q, hq⟩ := ih h2
        simp only [FrameType.ofFlags] at h1
        exact ⟨p :: mid, q, by simp [h1, hq]⟩
  cases fs with
  | nil => exact h.elim
  | cons fr fs =>
    obtain ⟨t, p⟩ := fr
    cases fs with
    | nil =>
      have := (EntryFrames_single true (t, p)).1 h
      simp only [FrameType.ofFlags] at this
      exact Or.inl ⟨p, by simp [this]⟩
    | cons f2 fs =>
      obtain ⟨h1, h2⟩ := (EntryFrames_cons2 true (t, p) f2 fs).1 h
      obtain ⟨mid, q, hq⟩ := tail _ h2
      simp only [FrameType.ofFlags] at h1
      exact Or.inr ⟨p, mid, q, by simp [h1, hq]⟩

/-- **writeEntry_bytes_count.** One entry: the bytes written are the payload, 7 header bytes per
    frame and the padding; every buffer is non-empty and none crosses a block end when the buffers
    are written one after the other from cursor `c` (`NoCross`, stated with the running cursor
    `adv`). -/
theorem writeEntry_bytes_count (g : Geom) (c : Nat) (e : Bytes) (hc : c < g.B) :
    ∃ fs : List Frm,
      writeEntry g c e hc = layoutBufs g c fs ∧ EntryFrames true fs ∧ payloadOf fs = e ∧
      totalLen (writeEntry g c e hc) = e.length + HEADER_LEN * fs.length + padTotal g c fs ∧
      NoCross g c (writeEntry g c e hc) := by
  obtain ⟨fs, h1, h2, h3, h4⟩ := writeEntryBufs_layout g c true e hc
  refine ⟨fs, h1, h2, h3, ?_, ?_⟩
  · unfold writeEntry; rw [h1, totalLen_layoutBufs, h3]
  · unfold writeEntry; rw [h1]; exact noCross_layoutBufs g c fs hc h4

/-! ### a list of entries -/

/-- cursor after writing `n` more bytes from in-block cursor `c` -/
def cursorAfter (g : Geom) (c n : Nat) : Nat := (c + n) % g.B

theorem cursorAfter_lt (g : Geom) (c n : Nat) : cursorAfter g c n < g.B :=
  Nat.mod_lt _ (Nat.lt_trans (by decide : 0 < HEADER_LEN) g.hB)

/-- all buffers of a list of entries written one after the other: each with `writeEntry`, the
    next one starting where the previous one ended -/
def writeEntriesBufs (g : Geom) : (c : Nat) → (hc : c < g.B) → List Bytes → List Bytes
  | _, _, [] => []
  | c, hc, e :: es =>
    writeEntry g c e hc ++
      writeEntriesBufs g (cursorAfter g c (totalLen (writeEntry g c e hc))) (cursorAfter_lt g _ _) es

theorem writeEntriesBufs_layout (g : Geom) (c : Nat) (hc : c < g.B) (es : List Bytes) :
    ∃ fs : List Frm, writeEntriesBufs g c hc es = layoutBufs g c fs ∧ EntriesFrames es fs ∧ Fits g c fs := by
  induction es generalizing c with
  | nil => exact ⟨[], rfl, .nil, trivial⟩
  | cons e es ih =>
    obtain ⟨fs1, h1, h2, h3, h4⟩ := writeEntryBufs_layout g c true e hc
    obtain ⟨fs2, k1, k2, k3⟩ := ih (cursorAfter g c (totalLen (writeEntry g c e hc))) (cursorAfter_lt g _ _)
    have hcur : cursorAfter g c (totalLen (writeEntry g c e hc)) = endCursor g c fs1 := by
      unfold cursorAfter writeEntry; rw [h1]; exact layoutBufs_mod g c fs1 hc h4
    refine ⟨fs1 ++ fs2, ?_, .cons h2 h3 k2, ?_⟩
    · simp only [writeEntriesBufs]
      rw [k1, hcur, layoutBufs_append]
      unfold writeEntry; rw [h1]
    · rw [Fits_append]; rw [hcur] at k3; exact ⟨h4, k3⟩

/-- **C07.** Entries of any size round-trip at any block alignment. -/
theorem C07_roundtrip (g : Geom) (hB : g.B ≤ 65542) (c : Nat) (hc : c < g.B) (es : List Bytes)
    (file z : Nat) (hz : 7 ≤ z) :
    let bufs := writeEntriesBufs g c hc es
    let stream := zeros c ++ bufs.flatten ++ zeros z
    stream.length % g.B = 0 →
    ∃ b0 rest evs e io,
      fileBlocks g file stream 1 0 (stream.length / g.B) = b0 :: rest ∧
      scanBlocks g none 1 0 b0 c rest = some (evs, e, io) ∧
      assemble { within := false, buf := [], attr := file } evs = es.map (RecEv.entry file) ∧
      e.file = file ∧
      e.idx * g.B + e.cursor =
        (let w := c + totalLen bufs; if g.B - w % g.B < 7 then w + (g.B - w % g.B) else w) := by
  intro bufs stream hmod
  have hB7 : 7 < g.B := g.hB
  obtain ⟨fs, h1, h2, h3⟩ := writeEntriesBufs_layout g c hc es
  -- the stream is a positive whole number of blocks
  have hlen0 : stream.length = c + bufs.flatten.length + z := by
    simp [stream, Nat.add_assoc]
  have hdiv : stream.length = g.B * (stream.length / g.B) := by
    have := Nat.div_add_mod stream.length g.B
    omega
  obtain ⟨n, hn⟩ : ∃ n, stream.length / g.B = n + 1 := by
    cases h : stream.length / g.B with
    | zero => rw [h] at hdiv; omega
    | succ n => exact ⟨n, rfl⟩
  have hlen : stream.length = (n + 1) * g.B := by rw [hdiv, hn, Nat.mul_comm]
  have hdrop : stream.drop c = (layoutBufs g c fs).flatten ++ zeros z := by
    show (zeros c ++ bufs.flatten ++ zeros z).drop c = _
    rw [List.append_assoc, List.drop_left' (length_zeros c)]
    show (writeEntriesBufs g c hc es).flatten ++ zeros z = _
    rw [h1]
  obtain ⟨e, r1, r2, r3⟩ := readFrom_layout g hB file z hz fs stream 0 n c hc h3 hlen hdrop
  unfold readFrom at r1
  obtain ⟨io, hio⟩ := scanBlocks_eq_scanB g 1 0
    ⟨file, 0, stream.take g.B, if 0 = 0 then 1 else 1⟩ c (fileBlocks g file (stream.drop g.B) 1 (0 + 1) n)
  rw [r1] at hio
  refine ⟨_, _, _, e, io, ?_, hio, ?_, r2, ?_⟩
  · rw [hn]; exact fileBlocks_succ g file stream 0 n
  · exact assemble_entriesFrames file es fs h2 []
  · rw [r3]
    show finalPos g (0 * g.B + c + totalLen (layoutBufs g c fs)) = finalPos g (c + totalLen bufs)
    show _ = finalPos g (c + totalLen (writeEntriesBufs g c hc es))
    rw [h1, Nat.zero_mul, Nat.zero_add]

/-- The hypotheses of `C07_roundtrip` are satisfiable for every geometry, cursor and entry list:
    some `z ≥ 7` completes the stream to a whole number of blocks. -/
theorem C07_nonvacuous (g : Geom) (c : Nat) (hc : c < g.B) (es : List Bytes) :
    ∃ z, 7 ≤ z ∧ (zeros c ++ (writeEntriesBufs g c hc es).flatten ++ zeros z).length % g.B = 0 := by
  have hB7 : 7 < g.B := g.hB
  let L := c + (writeEntriesBufs g c hc es).flatten.length + 7
  have hm : L % g.B < g.B := Nat.mod_lt _ (by omega)
  refine ⟨7 + (g.B - L % g.B), by omega, ?_⟩
  have hL := Nat.div_add_mod L g.B
  have : (zeros c ++ (writeEntriesBufs g c hc es).flatten ++ zeros (7 + (g.B - L % g.B))).length
      = g.B * (L / g.B + 1) := by
    simp only [List.length_append, length_zeros, Nat.mul_add, Nat.mul_one]
    omega
  rw [this, Nat.mul_mod_right]

/-! ### entry (de)serialisation -/

/-- what `serialize` can represent: a UTF-8 queue name shorter than 2^16 bytes, 64-bit positions,
    payloads shorter than 2^32 bytes -/
def WF : Entry → Prop
  | .append q pos recs =>
    utf8Valid q = true ∧ q.length < 65536 ∧ pos < 2 ^ 64 ∧ ∀ r ∈ recs, r.1 < 2 ^ 64 ∧ r.2.length < 2 ^ 32
  | .truncate q pos | .touch q pos | .delete q pos =>
    utf8Valid q = true ∧ q.length < 65536 ∧ pos < 2 ^ 64

instance : DecidablePred WF := fun e => by
  cases e <;> unfold WF <;> infer_instance

theorem decode_encode (e : Entry) (h : WF e) : Entry.decode e.encode = some e := by
  cases e with
  | append q pos recs =>
    obtain ⟨h1, h2, h3, h4⟩ := h
    unfold Entry.encode
    rw [decode_encodeRaw _ _ _ _ (by decide) h3 h2 h1, decodeRecs_encodeRecs recs h4]
    rfl
  | truncate q pos =>
    obtain ⟨h1, h2, h3⟩ := h
    unfold Entry.encode
    rw [decode_encodeRaw _ _ _ _ (by decide) h3 h2 h1]
    rfl
  | touch q pos =>
    obtain ⟨h1, h2, h3⟩ := h
    unfold Entry.encode
    rw [decode_encodeRaw _ _ _ _ (by decide) h3 h2 h1]
    rfl
  | delete q pos =>
    obtain ⟨h1, h2, h3⟩ := h
    unfold Entry.encode
    rw [decode_encodeRaw _ _ _ _ (by decide) h3 h2 h1]
    rfl

/-! ### non-vacuity on a small geometry

`B = 16`, start cursor 2, five entries chosen so that: one entry leaves fewer than 7 bytes in its
block (zero padding), one leaves exactly 7 (the next entry starts with an EMPTY `First` frame),
one entry is empty, one spans three blocks and a frame ends exactly at a block end. Running the
executable model on it (`#eval` of `scanBlocks`/`assemble` over `fileBlocks` of the stream) prints
```
some ([entry 5 [1], entry 5 [3, 4], entry 5 [5, 6, 7], entry 5 [],
       entry 5 [10, 11, 12, 13, 14, 15, 16, 17, 18, 19, 20, 21]], { file := 5, idx := 5, cursor := 8 }, 5)
```
and the `example` below obtains the same from `C07_roundtrip`, all hypotheses discharged. -/

def g16 : Geom := ⟨16, 2, by decide, by decide⟩

def exEntries : List Bytes :=
  [[1], [3, 4], [5, 6, 7], [], [10, 11, 12, 13, 14, 15, 16, 17, 18, 19, 20, 21]]

theorem exBufs :
    writeEntriesBufs g16 2 (by decide) exEntries =
      [ encodeFrame .full [1],                      -- block 0, cursor 2 → 10: 6 bytes left
        zeros 6,                                    -- fewer than 7 left: padding
        encodeFrame .full [3, 4],                   -- block 1, cursor 0 → 9: exactly 7 left
        encodeFrame .first [],                      -- the EMPTY frame, ends block 1
        encodeFrame .last [5, 6, 7],                -- block 2, cursor 0 → 10
        zeros 6,                                    -- padding again
        encodeFrame .full [],                       -- the empty entry: block 3, cursor 0 → 7
        encodeFrame .first [10, 11],                -- fills block 3 exactly
        encodeFrame .middle [12, 13, 14, 15, 16, 17, 18, 19, 20],   -- the whole of block 4
        encodeFrame .last [21] ] := by              -- block 5, cursor 0 → 8
  simp [exEntries, writeEntriesBufs, writeEntry, writeEntryBufs, cursorAfter, g16, maxFrameLen,
    frameWrites, frameEndCursor, adv, HEADER_LEN, FrameType.ofFlags, length_encodeFrame]

example :
    ∃ b0 rest evs e io,
      fileBlocks g16 5 (zeros 2 ++ (writeEntriesBufs g16 2 (by decide) exEntries).flatten ++ zeros 8) 1 0 6
        = b0 :: rest ∧
      scanBlocks g16 none 1 0 b0 2 rest = some (evs, e, io) ∧
      assemble { within := false, buf := [], attr := 5 } evs =
        [.entry 5 [1], .entry 5 [3, 4], .entry 5 [5, 6, 7], .entry 5 [],
         .entry 5 [10, 11, 12, 13, 14, 15, 16, 17, 18, 19, 20, 21]] ∧
      e.file = 5 ∧ e.idx * 16 + e.cursor = 88 := by
  have hlen : (zeros 2 ++ (writeEntriesBufs g16 2 (by decide) exEntries).flatten ++ zeros 8).length = 96 := by
    rw [exBufs]; simp [length_encodeFrame]
  have htot : totalLen (writeEntriesBufs g16 2 (by decide) exEntries) = 86 := by
    rw [exBufs]; simp [length_encodeFrame]
  have h := C07_roundtrip g16 (by decide) 2 (by decide) exEntries 5 8 (by decide)
  simp only [hlen, htot] at h
  exact h (by decide)

/-- second instance: the writer stops with fewer than 7 bytes left in the block; the reader stops
    at the start of the next block, where the writer's next frame lands after its padding -/
example :
    ∃ b0 rest evs e io,
      fileBlocks g16 5 (zeros 2 ++ (writeEntriesBufs g16 2 (by decide) [[1]]).flatten ++ zeros 22) 1 0 2
        = b0 :: rest ∧
      scanBlocks g16 none 1 0 b0 2 rest = some (evs, e, io) ∧
      assemble { within := false, buf := [], attr := 5 } evs = [.entry 5 [1]] ∧
      e.file = 5 ∧ e.idx * 16 + e.cursor = 16 := by
  have hb : writeEntriesBufs g16 2 (by decide) [[1]] = [encodeFrame .full [1]] := by
    simp [writeEntriesBufs, writeEntry, writeEntryBufs, g16, maxFrameLen, frameWrites, HEADER_LEN,
      FrameType.ofFlags]
  have hlen : (zeros 2 ++ (writeEntriesBufs g16 2 (by decide) [[1]]).flatten ++ zeros 22).length = 32 := by
    rw [hb]; simp [length_encodeFrame]
  have htot : totalLen (writeEntriesBufs g16 2 (by decide) [[1]]) = 8 := by
    rw [hb]; simp [length_encodeFrame]
  have h := C07_roundtrip g16 (by decide) 2 (by decide) [[1]] 5 22 (by decide)
  simp only [hlen, htot] at h
  exact h (by decide)

end MRL.C07
