/-
C10R: `open` and the calls never overflow on directories the library itself wrote from fitting
calls — with restarts and crashes at any point, any number of times (`C07F.ReachXF`).

`C10.recover_no_panic` needs `NoMax (deliveredEvents …)`: every entry the reader delivers carries
positions below `u64::MAX`. Here that hypothesis is DISCHARGED for every image `open` is run on along
a `ReachXF` history — the flushed disk at a restart, the crash image of any call cut at any byte,
the crash image of `open`'s own effects — from `CallFits` + positions below `P` on the calls:

* `delivered_diskX`: on a disk satisfying the relaxed disk invariant `L.DiskX g X F J`, the entries
  the reader delivers are exactly (encodings of) retained entries of the journal `J`;
* the invariant is carried with the provenance predicate `C10.NoMaxEntry` (`LP.*`), so the journal of
  every such image has positions below `u64::MAX` (`reachXF_noMax`, `XInvResP`);
* `call_no_panic`, `reopen_no_panic`, `crash_open_no_panic`, `crash2_open_no_panic`: the panic twins
  agree — `Log.stepP = .ok Log.step`, `recoverP = .ok recover` — and the read accessors of the
  recovered log do not overflow.

What remains a hypothesis is the FILE-NUMBER room, in the form of `C10.recover_no_panic_img` /
`C05B.stepP_agrees_cur` (file numbers do not depend on positions): finding F4 (a position or truncate
bound of 2^64-1, excluded by `CallBelow P` with `P + n < u64::MAX`) and a WAL file numbered near
2^64 are the only ways the checked build panics on a directory the library wrote.
-/
import MRL.Props.C07Fits
import MRL.Props.C10Reach
import MRL.Proofs.LProvReach

namespace MRL.C10R
open MRL Codec Consts G H Log Buf Torn L

/-! ### what the reader delivers on a `DiskX` disk -/

/-- **the delivered entries of a relaxed disk are retained journal entries** -/
theorem delivered_diskX (g : Geom) (hB : g.B ≤ 65542) {X : Image} {F : Nat} {J : List JE}
    (hd : DiskX g X F J) :
    ∃ J' : List JE, entriesOf (deliveredEvents g X none) = entriesEv J' ∧ ∀ j ∈ J', ∃ j0 ∈ J, j.e = j0.e := by
  obtain ⟨cs, x, ais, res, z0, hne, hfull, ⟨z1, hflat⟩, hX, hlast, hfits, htag, hjok, hresok, lead, gs, hais, hlead,
    hmap, hok⟩ := hd
  obtain ⟨evT, e, ke, ce, zz, hscan, hevT, _⟩ :=
    scan_diskX g hB F cs hne hfull ais res z0 z1 hflat hfits htag hjok hlast hresok
  obtain ⟨gs', st', R, g1, g2, g3, g4, g5⟩ := asm_segsX g F ais htag lead gs hais hlead hok evT
  have htailR : entriesOf (assemble st' evT) = [] := by
    rcases hevT with h | ⟨f, h⟩
    · subst h; rfl
    · subst h; rfl
  -- the blocks `open` reads are those of the tape
  obtain ⟨c0, cs', hcs⟩ : ∃ c0 cs', cs = c0 :: cs' := by
    cases cs with
    | nil => exact absurd rfl hne
    | cons c0 cs' => exact ⟨c0, cs', rfl⟩
  have hc0 : c0.length = g.fileBytes := hfull c0 (by rw [hcs]; exact List.mem_cons_self)
  have hBle := B_le_fileBytes g
  have hprep : prepareImage g X = (X, [.ensureLen F g.fileBytes]) := by
    rw [hX, hcs]
    simp only [imgOf, List.cons_append, prepareImage]
    rw [if_neg (by omega)]
  have hblocks : (blocksOf g X 1).1 = blksFrom g F cs.flatten 0 (cs.length * g.K) := by
    have h0 := blocksOf_imgOf g F cs 0 [] hfull (by simp)
    simp only [Nat.add_zero, List.nil_append, Nat.zero_mul] at h0
    rw [hX]
    cases x
    · simpa [xtra] using h0
    · simp only [xtra, if_true]
      rw [blocksOf_snoc_empty]; exact h0
  have hNpos : 0 < cs.length * g.K := by
    rw [hcs]; exact Nat.mul_pos (Nat.succ_pos _) g.hK
  obtain ⟨m, hm⟩ : ∃ m, cs.length * g.K = m + 1 := ⟨cs.length * g.K - 1, by omega⟩
  rcases hbo : blocksOf g X 1 with ⟨bs, trail⟩
  rw [hbo] at hblocks
  simp only at hblocks
  rw [hm, blksFrom_succ] at hblocks
  have hbo' : blocksOf g (prepareImage g X).1 1 =
      (blkAt g F cs.flatten 0 :: blksFrom g F cs.flatten 1 m, trail) := by
    rw [hprep, hbo, hblocks]
  unfold scanAt at hscan
  have hm1 : cs.length * g.K - (0 + 1) = m := by omega
  rw [hm1] at hscan
  obtain ⟨io', hio⟩ := scanBlocks_eq_scanB g trail (blkAt g F cs.flatten 0).cost (blkAt g F cs.flatten 0) 0
    (blksFrom g F cs.flatten 1 m)
  rw [hscan] at hio
  have hb0 : (blkAt g F cs.flatten 0).file = F := by simp [blkAt]
  have hdel : deliveredEvents g X none =
      assemble { within := false, buf := [], attr := F } (evsJ ais ++ evT) := by
    unfold deliveredEvents
    simp only [hbo', ioFails, Bool.false_eq_true, if_false, hb0]
    rw [C10.scanPrefix_of_some g none trail _ _ _ _ _ _ _ hio]
  refine ⟨(liveOf gs').map (·.1), ?_, ?_⟩
  · rw [hdel, g4, entriesOf_append, g5, htailR, List.append_nil]
  · intro j hj
    have hJ'rel : All2 (fun a b : JE => a.e = b.e ∧ a.loc = b.loc ∧ F ≤ a.attr ∧ a.attr ≤ a.loc)
        ((liveOf gs').map (·.1)) (J.filter fun j => decide (F ≤ j.loc)) := by
      rw [← hmap]
      exact All2.map_right (R := fun a b : JE => a.e = b.e ∧ a.loc = b.loc ∧ F ≤ a.attr ∧ a.attr ≤ a.loc)
        (fun s : Seg => s.1) (g3.imp (fun a b hab => hab))
    obtain ⟨b, hb, h1, _⟩ := hJ'rel.mem_left j hj
    exact ⟨b, (List.mem_filter.mp hb).1, h1⟩

open C07F LP

abbrev NM := C10.NoMaxEntry

/-- on a relaxed disk whose journal carries positions below `u64::MAX`, so does everything the
    reader delivers -/
theorem noMax_of_diskX (g : Geom) (hB : g.B ≤ 65542) {X : Image} {F : Nat} {J : List JE}
    (hd : DiskX g X F J) (hw : ∀ j ∈ J, WFP NM j.e) : C10.NoMax (deliveredEvents g X none) := by
  obtain ⟨J', h1, h2⟩ := delivered_diskX g hB hd
  intro file bytes e hm hdec
  have hm' : RecEv.entry file bytes ∈ entriesOf (deliveredEvents g X none) := by
    unfold entriesOf
    exact List.mem_filter.mpr ⟨hm, rfl⟩
  rw [h1] at hm'
  unfold entriesEv at hm'
  obtain ⟨j, hj, he⟩ := List.mem_map.mp hm'
  obtain ⟨j0, hj0, hje⟩ := h2 j hj
  simp only [RecEv.entry.injEq] at he
  have hwf := hw j0 hj0
  have : Entry.decode bytes = some j0.e := by
    rw [← he.2, hje]; exact C07.decode_encode _ hwf.1
  rw [this] at hdec
  cases hdec
  exact hwf.2

/-- … in particular on any disk carrying the relaxed invariant -/
theorem noMax_of_cinvx (g : Geom) (hB : g.B ≤ 65542) {X : Image} {l : Log} {J : List JE}
    (hc : L.CInvX g l J X) (hw : ∀ j ∈ J, WFP NM j.e) : C10.NoMax (deliveredEvents g X none) := by
  obtain ⟨init, t, x, res, ais, lead, gs, hx⟩ := hc.disk
  exact noMax_of_diskX g hB hx.diskX hw

/-- the disks the crash lemmas describe -/
theorem noMax_of_xinvres (g : Geom) (hB : g.B ≤ 65542) {qB qA : MemQueues} {X : Image}
    (h : XInvResP g NM qB qA X) : C10.NoMax (deliveredEvents g X none) := by
  obtain ⟨J', lp, io, F', _, _, hc, hw, _, _⟩ := h .doNothing
  exact noMax_of_cinvx g hB hc hw

/-! ### the journal entries of fitting calls carry positions below `u64::MAX` -/

section
variable (g : Geom)

theorem touchesJ_nm (names : List Bytes) : ∀ (l : Log),
    (∀ n q, l.queues.get? n = some q → q.nextPosition < U64MAX) →
    ∀ j ∈ touchesJ g l names, NM j.e := by
  induction names with
  | nil => intro l _ j hj; cases hj
  | cons n ns ih =>
    intro l hp j hj
    simp only [touchesJ, List.mem_cons] at hj
    rcases hj with rfl | hj
    · show (match l.queues.get? n with | some q => q.nextPosition | none => 0) < U64MAX
      cases hg : l.queues.get? n with
      | none => decide
      | some q => exact hp n q hg
    · refine ih _ ?_ j hj
      intro m q hg
      rw [writeEntry_queues] at hg
      exact hp m q hg

theorem gcJ_nm (l : Log) (order : List Bytes) (K : Nat) (hp : C05B.PosBnd K l) (hK : K < U64MAX) :
    ∀ j ∈ l.gcJ g order, NM j.e := by
  have hpos : ∀ n q, l.queues.get? n = some q → q.nextPosition < U64MAX :=
    fun n q hg => Nat.lt_of_le_of_lt (hp.get hg) hK
  intro j hj
  unfold gcJ at hj
  split at hj
  · split at hj
    · exact touchesJ_nm g _ l hpos j hj
    · cases hj
  · cases hj

theorem stepJ_nm (l : Log) (c : Call) (order : List Bytes) (K P : Nat) (hI : C05.Inv l)
    (hp : C05B.PosBnd K l) (hPK : P ≤ K) (hb : C05B.CallBelow P c) (hK' : K + C05B.callRecs c < U64MAX) :
    ∀ j ∈ l.stepJ g c order, NM j.e := by
  have hK : K < U64MAX := by omega
  cases c with
  | persist a => intro j hj; cases hj
  | create q =>
    intro j hj
    simp only [stepJ] at hj
    split at hj
    · cases hj
    · simp only [List.mem_singleton] at hj
      subst hj
      show 0 < U64MAX
      decide
  | delete q =>
    intro j hj
    simp only [stepJ] at hj
    split at hj
    · cases hj
    · rename_i mq hg
      simp only [List.mem_cons] at hj
      have hnext := hp.get hg
      rcases hj with rfl | hj
      · show mq.nextPosition < U64MAX
        omega
      · refine gcJ_nm g _ order K ?_ hK j hj
        intro kv hkv
        simp only at hkv
        have := mem_remove hkv
        rw [writeEntry_queues] at this
        exact hp kv this
  | truncate q p =>
    intro j hj
    simp only [stepJ] at hj
    split at hj
    · cases hj
    · rename_i mq hg
      simp only [List.mem_cons] at hj
      have hnext := hp.get hg
      have hpP : p < P := hb
      rcases hj with rfl | hj
      · show p < U64MAX
        omega
      · have hqi := hI.get hg
        obtain ⟨_, hnx, _⟩ := MemQueue.truncateHead_spec mq p hqi.1 hqi.2
        refine gcJ_nm g _ order (max K (p + 1)) ?_ ?_ j hj
        · intro kv hkv
          simp only at hkv
          rcases mem_set hkv with hkv | rfl
          · rw [writeEntry_queues] at hkv
            exact Nat.le_trans (hp kv hkv) (Nat.le_max_left _ _)
          · simp only [hnx]; omega
        · omega
  | append q pos? pls =>
    intro j hj
    simp only [stepJ] at hj
    split at hj
    · cases hj
    · rename_i mq hg
      have hnext := hp.get hg
      have key : ∀ pos, pos + pls.length < U64MAX → j ∈ (if pls.isEmpty = true then [] else
          [l.je g (.append q pos (numberFrom pos pls))]) → NM j.e := by
        intro pos hpos hj
        split at hj
        · cases hj
        · simp only [List.mem_singleton] at hj
          subst hj
          refine ⟨by show pos < U64MAX; omega, ?_⟩
          intro r hr
          obtain ⟨_, h2, _⟩ := mem_numberFrom pls pos r hr
          omega
      cases pos? with
      | none =>
        have : K + pls.length < U64MAX := hK'
        simp only at hj
        exact key mq.nextPosition (by omega) hj
      | some p0 =>
        have hp0 : p0 < P := hb
        have hk2 : K + pls.length < U64MAX := hK'
        have : p0 + pls.length < U64MAX := by omega
        by_cases h1 : p0 + 1 = mq.nextPosition
        · simp only [h1, if_true] at hj
          cases hj
        · by_cases h2 : p0 < mq.nextPosition
          · simp only [h1, h2, if_false, if_true] at hj
            cases hj
          · simp only [h1, h2, if_false] at hj
            exact key p0 this hj

end

/-! ### along `ReachDF` / `ReachXF` -/

open C02W in
/-- the GC entries of an `open` whose result fits -/
theorem gc_wfp (g : Geom) {lp : Log} {r : Recovered} {K : Nat} (hq : lp.queues = r.log.queues)
    (hf : Fit K r.log) (hK : K < U64MAX) (order : List Bytes) : ∀ j ∈ lp.gcJ g order, WFP NM j.e := by
  have hU := U64MAX_lt
  intro j hj
  exact ⟨gcJ_wf g lp order K (hf.names.of_queues hq) (PosBnd.of_queues hq hf.pos) (by omega) j hj,
    gcJ_nm g lp order K (PosBnd.of_queues hq hf.pos) hK j hj⟩

/-- one fitting call: its journal entries are well formed with positions below `u64::MAX` -/
theorem step_wfp (g : Geom) {K : Nat} {l : Log} (h : Fit K l) (c : Call) (order : List Bytes) (P : Nat)
    (hPK : P ≤ K) (hf : CallFits c) (hb : C05B.CallBelow P c) (hK : K + C05B.callRecs c < U64MAX) :
    ∀ j ∈ l.stepJ g c order, WFP NM j.e := by
  intro j hj
  exact ⟨(h.step g c false order P hPK hf hb hK).1 j hj, stepJ_nm g l c order K P h.inv h.pos hPK hb hK j hj⟩

theorem reachDF_nm (g : Geom) (hB : g.B ≤ 65542) (cap P : Nat) (hP : P < U64MAX) {n : Nat} {l : Log}
    {J : List JE} {img : Image} {b : BufSt} (h : ReachDF g cap P n l J img b) : ∀ j ∈ J, WFP NM j.e := by
  induction h with
  | init policy order r hr => intro j hj; cases hj
  | step c tick order hsub hf hb hK ih =>
    obtain ⟨_, _, hfit, _⟩ := reachDF_inv g hB cap P hP hsub
    intro j hj
    rcases List.mem_append.mp hj with hj | hj
    · exact ih j hj
    · exact step_wfp g hfit c order P (Nat.le_add_right _ _) hf hb hK j hj
  | reopen policy order lp e0 io r hsub hpre hrec ih =>
    obtain ⟨_, _, hfit, hb⟩ := reachDF_inv g hB cap P hP (ReachDF.reopen policy order lp e0 io r hsub hpre hrec)
    intro j hj
    rcases List.mem_append.mp hj with hj | hj
    · exact ih j hj
    · exact gc_wfp g (recover_queues hpre hrec) hfit hb order j hj

/-- **every `ReachXF` state carries the relaxed invariant for a journal whose positions are below
    `u64::MAX`** -/
theorem reachXF_invP (g : Geom) (hB : g.B ≤ 65542) (cap P : Nat) (hP : P < U64MAX) {n : Nat} {l : Log}
    {img : Image} {b : BufSt} (h : ReachXF g cap P n l img b) : C02W.XRInvP g cap NM l img b := by
  induction h with
  | base hd =>
    obtain ⟨h1, h2, _, _⟩ := reachDF_inv g hB cap P hP hd
    have := C01R.reach_rinv g hB cap h1 h2
    exact ⟨⟨_, CInvX.of_cinv this.c, reachDF_nm g hB cap P hP hd⟩, this.buf⟩
  | @step n0 l0 img0 b0 c tick order hsub hf hb hK ih =>
    obtain ⟨_, hfit, _⟩ := reachXF_inv g hB cap P hP hsub
    obtain ⟨⟨J, hc, hw⟩, st, hinv, hclean⟩ := ih
    obtain ⟨st', hrun, hclean'⟩ := C14.step_Disc g l0 c tick order st hclean
    obtain ⟨hfl, hinv'⟩ := flushDisk_toOsOps cap img0 b0 _ st st' hinv hrun
    refine ⟨⟨J ++ l0.stepJ g c order, ?_, ?_⟩, st', hinv', hclean'⟩
    · show L.CInvX g _ _ (G.flushDisk _ _)
      rw [hfl]
      exact L.cinvx_step g hc c tick order
    · intro j hj
      rcases List.mem_append.mp hj with hj | hj
      · exact hw j hj
      · exact step_wfp g hfit c order P (Nat.le_add_right _ _) hf hb hK j hj
  | @reopen n0 l0 img0 b0 policy order lp e0 io r hsub hpre hrec ih =>
    obtain ⟨_, hfitr, hbr⟩ := reachXF_inv g hB cap P hP (ReachXF.reopen policy order lp e0 io r hsub hpre hrec)
    obtain ⟨⟨J, hc, hw⟩, _⟩ := ih
    have hres : XInvResP g NM l0.queues l0.queues (C02W.flushDisk img0 b0) := by
      intro pol
      obtain ⟨J', lp1, io1, F', a1, a2, a3, a4, a5, a6⟩ := xinvres_of_cinvxP g hB _ hc hw pol
      exact ⟨J', lp1, io1, F', a1, a2, a3, a4, a5, Or.inl a6⟩
    exact (C02W.after_xinvresP g cap _ hres policy order lp e0 io r hpre hrec
      (gc_wfp g (recover_queues hpre hrec) hfitr hbr order)).1
  | @crash n0 l0 img0 b0 c tick order k cut X policy' order' lp e0 io r hsub hbp hf hcb hK htorn hXeq hpre hrec ih =>
    obtain ⟨_, hfit, _⟩ := reachXF_inv g hB cap P hP hsub
    obtain ⟨_, hfitr, hbr⟩ := reachXF_inv g hB cap P hP
      (ReachXF.crash c tick order k cut X policy' order' lp e0 io r hsub hbp hf hcb hK htorn hXeq hpre hrec)
    obtain ⟨⟨J, hc, hw⟩, st, hinv, hclean⟩ := ih
    have hfd : C02W.flushDisk img0 b0 = img0 := C02U.flushDisk_of_empty img0 b0 hbp
    rw [hfd] at hc
    obtain ⟨st', hrun, _⟩ := C14.step_Disc g l0 c tick order st hclean
    have hcut := crash_cut cap _ b0 st st' img0 hinv hrun k cut
    rw [pendW_nil b0 hbp, List.nil_append, ← hXeq] at hcut
    have hfits : ∀ j ∈ J ++ l0.stepJ g c order, WFP NM j.e := by
      intro j hj
      rcases List.mem_append.mp hj with hj | hj
      · exact hw j hj
      · exact step_wfp g hfit c order P (Nat.le_add_right _ _) hf hcb hK j hj
    have hres := call_cutXP g hB _ hc c tick order hfits htorn false X (CutW.of_cutState hcut)
    exact (C02W.after_xinvresP g cap _ hres policy' order' lp e0 io r hpre hrec
      (gc_wfp g (recover_queues hpre hrec) hfitr hbr order')).1
  | @crash2 n0 l0 img0 b0 policy order lp0 e00 io0 r0 k cut X policy' order' lp e0 io r hsub hpre0 hrec0 htorn hXeq
      hpre hrec ih =>
    obtain ⟨_, hfit0, hb0⟩ := reachXF_inv g hB cap P hP (ReachXF.reopen policy order lp0 e00 io0 r0 hsub hpre0 hrec0)
    obtain ⟨_, hfitr, hbr⟩ := reachXF_inv g hB cap P hP
      (ReachXF.crash2 policy order lp0 e00 io0 r0 k cut X policy' order' lp e0 io r hsub hpre0 hrec0 htorn hXeq hpre hrec)
    obtain ⟨⟨J, hc, hw⟩, _⟩ := ih
    obtain ⟨_, ⟨st', hrun⟩, hcut⟩ := C02W.recover_boundaryP g hB _ hc hw policy order lp0 e00 io0 r0 hpre0 hrec0
      (gc_wfp g (recover_queues hpre0 hrec0) hfit0 hb0 order) htorn
    have hX := crash_cut cap _ {} none st' (C02W.flushDisk img0 b0) (Buf.inv_empty cap none) hrun k cut
    have hn : pendW ({} : BufSt) = [] := rfl
    rw [hn, List.nil_append, ← hXeq] at hX
    have hres := hcut false X (CutW.of_cutState hX)
    exact (C02W.after_xinvresP g cap _ hres policy' order' lp e0 io r hpre hrec
      (gc_wfp g (recover_queues hpre hrec) hfitr hbr order')).1

/-! ### the panic twins agree -/

/-- what `open` does on an image whose delivered entries stay below `u64::MAX`, that is no longer than
    nominal, and whose file numbers leave room `nroom` for the roll-overs of the GC pass: the twin
    returns what `recover` returns — also through `clipImage`, which is the identity here — and the
    read accessors of the result do not overflow -/
theorem open_agrees (g : Geom) (X : Image) (policy : Policy) (order : List Bytes) (nroom : Nat)
    (hnm : C10.NoMax (deliveredEvents g X none)) (hno : C10A.NoOversize g X)
    (hfiles : ∀ f ∈ X.map (·.1), f + nroom ≤ U64MAX) (hn : nroom ≤ U64MAX)
    (hcount : ∀ lp e0 io, recoverPre g X policy none = .ok (lp, e0, io) → gcBufCount g lp order ≤ nroom) :
    clipImage g X = X ∧
    recoverP g (clipImage g X) policy order none = .ok (recover g X policy order none) ∧
    recoverC g X policy order none = recover g X policy order none ∧
    ∀ r, recover g X policy order none = .ok r → accessorsPanic r.log.queues = false := by
  have hid := C10V.clipImage_id g X hno
  obtain ⟨h1, h2⟩ := C10.recover_no_panic_img g X policy order none nroom hnm hfiles hn hcount
  refine ⟨hid, ?_, C10V.recoverC_eq_recover g X policy order none hno, h2⟩
  rw [hid]
  cases hr : recoverP g X policy order none with
  | error u => exact absurd hr h1
  | ok x => rw [C10.recoverP_agrees g X policy order none x hr]

section
variable (g : Geom) (hB : g.B ≤ 65542) (cap P : Nat) (hP : P < U64MAX)
include hB hP

/-- **(a) every call of a `ReachXF` history**: the panic twin of the call agrees with `Log.step`
    (the file hypothesis is the exact one of `C05B.stepP_agrees_cur`) -/
theorem call_no_panic {n : Nat} {l : Log} {img : Image} {b : BufSt} (h : ReachXF g cap P n l img b)
    (c : Call) (tick : Bool) (order : List Bytes) (hcb : C05B.CallBelow P c)
    (hK : P + n + C05B.callRecs c < U64MAX) (hcur : (l.step g c tick order).1.cur ≤ U64MAX) :
    l.stepP g c tick order = .ok (l.step g c tick order) := by
  obtain ⟨_, hfit, _⟩ := reachXF_inv g hB cap P hP h
  have hcok : C05B.CallOK (P + n) c := by
    cases c with
    | append q pos? pls =>
      cases pos? with
      | none => simp only [C05B.CallOK, C05B.callRecs] at hK ⊢; omega
      | some p => have : p < P := hcb; simp only [C05B.CallOK, C05B.callRecs] at hK ⊢; omega
    | truncate q p => have : p < P := hcb; simp only [C05B.CallOK]; omega
    | create q => trivial
    | delete q => trivial
    | persist a => trivial
  exact C05B.stepP_agrees_cur g l c tick order (P + n) hfit.pos (by omega) hcok hcur

/-- **(b₁) every clean restart of a `ReachXF` state** -/
theorem reopen_no_panic {n : Nat} {l : Log} {img : Image} {b : BufSt} (h : ReachXF g cap P n l img b)
    (policy : Policy) (order : List Bytes) (nroom : Nat)
    (hfiles : ∀ f ∈ (C02U.flushDisk img b).map (·.1), f + nroom ≤ U64MAX) (hn : nroom ≤ U64MAX)
    (hcount : ∀ lp e0 io, recoverPre g (C02U.flushDisk img b) policy none = .ok (lp, e0, io) →
      gcBufCount g lp order ≤ nroom) :
    C10.NoMax (deliveredEvents g (C02U.flushDisk img b) none) ∧
    clipImage g (C02U.flushDisk img b) = C02U.flushDisk img b ∧
    recoverP g (clipImage g (C02U.flushDisk img b)) policy order none =
      .ok (recover g (C02U.flushDisk img b) policy order none) ∧
    ∀ r, recover g (C02U.flushDisk img b) policy order none = .ok r → accessorsPanic r.log.queues = false := by
  obtain ⟨hx, _, _⟩ := reachXF_inv g hB cap P hP h
  obtain ⟨⟨J, hc, hw⟩, _⟩ := reachXF_invP g hB cap P hP h
  have hnm := noMax_of_cinvx g hB hc hw
  obtain ⟨a1, a2, _, a4⟩ := open_agrees g _ policy order nroom hnm (C10V.reach_noOversize g hB cap hx) hfiles hn hcount
  exact ⟨hnm, a1, a2, a4⟩

/-- **(b₂) the `open` that follows a crash at ANY point of a fitting call** -/
theorem crash_open_no_panic {n : Nat} {l : Log} {img : Image} {b : BufSt} (h : ReachXF g cap P n l img b)
    (hb : b.pend = []) (c : Call) (tick : Bool) (order : List Bytes) (hcf : CallFits c)
    (hcb : C05B.CallBelow P c) (hK : P + n + C05B.callRecs c < U64MAX)
    (htorn : C02A.TornStep g l c tick order) (k cut : Nat) (policy' : Policy) (order' : List Bytes)
    (nroom : Nat)
    (hfiles : ∀ f ∈ (crashImage img (toOsOps cap b (l.step g c tick order).2.2).2 k cut).map (·.1),
      f + nroom ≤ U64MAX) (hn : nroom ≤ U64MAX)
    (hcount : ∀ lp e0 io, recoverPre g (crashImage img (toOsOps cap b (l.step g c tick order).2.2).2 k cut)
      policy' none = .ok (lp, e0, io) → gcBufCount g lp order' ≤ nroom) :
    let X := crashImage img (toOsOps cap b (l.step g c tick order).2.2).2 k cut
    C10.NoMax (deliveredEvents g X none) ∧ clipImage g X = X ∧
    recoverP g (clipImage g X) policy' order' none = .ok (recover g X policy' order' none) ∧
    ∀ r, recover g X policy' order' none = .ok r → accessorsPanic r.log.queues = false := by
  intro X
  obtain ⟨hx, hfit, _⟩ := reachXF_inv g hB cap P hP h
  obtain ⟨⟨J, hc, hw⟩, st, hinv, hclean⟩ := reachXF_invP g hB cap P hP h
  have hfd : C02W.flushDisk img b = img := C02U.flushDisk_of_empty img b hb
  rw [hfd] at hc
  obtain ⟨st', hrun, _⟩ := C14.step_Disc g l c tick order st hclean
  have hcut := crash_cut cap _ b st st' img hinv hrun k cut
  rw [pendW_nil b hb, List.nil_append] at hcut
  have hsw := step_wfp g hfit c order P (Nat.le_add_right _ _) hcf hcb hK
  have hfits : ∀ j ∈ J ++ l.stepJ g c order, WFP NM j.e := by
    intro j hj
    rcases List.mem_append.mp hj with hj | hj
    · exact hw j hj
    · exact hsw j hj
  have hres := call_cutXP g hB _ hc c tick order hfits htorn false X (CutW.of_cutState hcut)
  have hnm := noMax_of_xinvres g hB hres
  have hno := C10V.crash_noOversize g hB cap hx hb c tick order (fun j hj => (hsw j hj).1) htorn k cut
  obtain ⟨a1, a2, _, a4⟩ := open_agrees g X policy' order' nroom hnm hno hfiles hn hcount
  exact ⟨hnm, a1, a2, a4⟩

/-- **(b₃) the `open` that follows a crash at ANY point of `open` itself** -/
theorem crash2_open_no_panic {n : Nat} {l : Log} {img : Image} {b : BufSt} (h : ReachXF g cap P n l img b)
    (policy : Policy) (order : List Bytes) (lp0 : Log) (e00 : List Effect) (io0 : Nat) (r0 : Recovered)
    (hpre0 : recoverPre g (C02U.flushDisk img b) policy none = .ok (lp0, e00, io0))
    (hrec0 : recover g (C02U.flushDisk img b) policy order none = .ok r0)
    (htorn : H.TornEffs r0.effects) (k cut : Nat) (policy' : Policy) (order' : List Bytes) (nroom : Nat)
    (hfiles : ∀ f ∈ (crashImage (C02U.flushDisk img b) (toOsOps cap {} r0.effects).2 k cut).map (·.1),
      f + nroom ≤ U64MAX) (hn : nroom ≤ U64MAX)
    (hcount : ∀ lp e0 io, recoverPre g (crashImage (C02U.flushDisk img b) (toOsOps cap {} r0.effects).2 k cut)
      policy' none = .ok (lp, e0, io) → gcBufCount g lp order' ≤ nroom) :
    let X := crashImage (C02U.flushDisk img b) (toOsOps cap {} r0.effects).2 k cut
    C10.NoMax (deliveredEvents g X none) ∧ clipImage g X = X ∧
    recoverP g (clipImage g X) policy' order' none = .ok (recover g X policy' order' none) ∧
    ∀ r, recover g X policy' order' none = .ok r → accessorsPanic r.log.queues = false := by
  intro X
  obtain ⟨hx, _, _⟩ := reachXF_inv g hB cap P hP h
  obtain ⟨_, hfit0, hb0⟩ := reachXF_inv g hB cap P hP (ReachXF.reopen policy order lp0 e00 io0 r0 h hpre0 hrec0)
  obtain ⟨⟨J, hc, hw⟩, _⟩ := reachXF_invP g hB cap P hP h
  have hgw0 := gc_wfp g (recover_queues hpre0 hrec0) hfit0 hb0 order
  obtain ⟨_, ⟨st', hrun⟩, hcut⟩ := C02W.recover_boundaryP g hB _ hc hw policy order lp0 e00 io0 r0 hpre0 hrec0
    hgw0 htorn
  have hX := crash_cut cap _ {} none st' (C02W.flushDisk img b) (Buf.inv_empty cap none) hrun k cut
  have hn0 : pendW ({} : BufSt) = [] := rfl
  rw [hn0, List.nil_append] at hX
  have hres := hcut false X (CutW.of_cutState hX)
  have hnm := noMax_of_xinvres g hB hres
  have hno := C10V.crash2_noOversize g hB cap hx policy order lp0 e00 io0 r0 hpre0 hrec0
    (fun j hj => (hgw0 j hj).1) htorn k cut
  obtain ⟨a1, a2, _, a4⟩ := open_agrees g X policy' order' nroom hnm hno hfiles hn hcount
  exact ⟨hnm, a1, a2, a4⟩

end

end MRL.C10R
