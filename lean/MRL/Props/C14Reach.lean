/-
C14 from reachable states: from any state reachable from an empty directory — whatever is still
pending in the `BufWriter` — the same calls under two policies and two clocks, then a clean
restart, give the same disk and therefore the same recovered log up to the policy field.
(`C14R.C14_restart` had an arbitrary disk but an empty `BufWriter`; here the buffer is the one the
history left, possibly non-empty, identical on both sides.)
-/
import MRL.Props.C14Restart
import MRL.Props.C01Restart

namespace MRL.C14S
open MRL Log C01R C01J C14 C14R

/-- the disk after running the effects `es` from `(img, b)` and dropping the `BufWriter` -/
def diskFrom (cap : Nat) (img : Image) (b : BufSt) (es : List Effect) : Image :=
  flushDisk (applyOsOps img (toOsOps cap b es).2) (toOsOps cap b es).1

/-- **C14 from a reachable state.** -/
theorem C14_reach_restart (g : Geom) (hB : g.B ≤ 65542) (cap : Nat) (l : Log) (J : List JE) (img : Image)
    (b : BufSt) (h : ReachD g cap l J img b) (hwf : ∀ j ∈ J, C07.WF j.e)
    (cs : List (Call × List Bytes)) (p₁ p₂ : Policy) (ticks₁ ticks₂ : List Bool) (order : List Bytes)
    (fa : Option Nat) :
    let d₁ := diskFrom cap img b (run g (withPolicy l p₁) cs ticks₁).2.2
    let d₂ := diskFrom cap img b (run g (withPolicy l p₂) cs ticks₂).2.2
    d₁ = d₂ ∧
    (∀ p, recover g d₁ p order fa = recover g d₂ p order fa) ∧
    (∀ q₁ q₂, recover g d₂ q₂ order fa =
      match recover g d₁ q₁ order fa with
      | .error e => .error e
      | .ok r => .ok (withPolicyR r q₂)) := by
  intro d₁ d₂
  obtain ⟨st, hinv, hclean⟩ := (reach_rinv g hB cap h hwf).buf
  have hd : d₁ = d₂ := by
    obtain ⟨s1, hr1, _⟩ := run_Disc g cs (withPolicy l p₁) ticks₁ st hclean
    obtain ⟨s2, hr2, _⟩ := run_Disc g cs (withPolicy l p₂) ticks₂ st hclean
    have e1 := (G.flushDisk_toOsOps cap img b _ st s1 hinv hr1).1
    have e2 := (G.flushDisk_toOsOps cap img b _ st s2 hinv hr2).1
    show G.flushDisk _ _ = G.flushDisk _ _
    rw [e1, e2, direct_eraseSync, direct_eraseSync (run g (withPolicy l p₂) cs ticks₂).2.2,
      (C14_history g cs l p₁ p₂ ticks₁ ticks₂).2.2]
  refine ⟨hd, fun p => by rw [hd], fun q₁ q₂ => ?_⟩
  rw [hd]
  exact recover_policy_irrelevant g d₂ q₁ q₂ order fa

/-- the logical side: same outcomes, same final log up to the policy (C14_history), recorded
    next to the disk statement -/
theorem C14_reach_logical (g : Geom) (l : Log) (cs : List (Call × List Bytes)) (p₁ p₂ : Policy)
    (ticks₁ ticks₂ : List Bool) :
    (run g (withPolicy l p₂) cs ticks₂).1 = withPolicy (run g (withPolicy l p₁) cs ticks₁).1 p₂ ∧
    (run g (withPolicy l p₁) cs ticks₁).2.1 = (run g (withPolicy l p₂) cs ticks₂).2.1 :=
  ⟨(C14_history g cs l p₁ p₂ ticks₁ ticks₂).1, (C14_history g cs l p₁ p₂ ticks₁ ticks₂).2.1⟩

end MRL.C14S
