/-
C12, the missing head made exact (AUDIT3 item A4).

`C12.batch_suffix_fresh`, `C12X.no_hole`, `CD.C12_crash_no_hole_clean` say that the records of a
delivered batch `b` present in the recovered queue are a suffix `b.drop k`, and constrain `k` only
when NO truncate of the queue is delivered after the batch: any later truncate — even one whose
bound lies below the batch — leaves `k` free. Here the surviving records are characterised exactly,
from the entries `es₂` delivered after the batch:

* `wiped name es₂`: a `DeleteQueue` or a `RecordPosition` ("touch") entry of that queue is among them.
  Then NO record of the batch is in the recovered queue. (`delete` removes the queue; replaying a
  `RecordPosition` entry on a non-empty queue replaces it by an empty one — `ack_position` — which
  can only happen in a damaged replay, the writer emitting such entries for empty queues only.)
* otherwise the surviving records of the batch are exactly those whose position is above every
  bound of the truncate entries of that queue among them (`truncs name es₂`) — i.e. above the
  largest bound `T` (`maxB`), or all of them if there is none:
      b.filter (· ∈ plain q) = b.filter (fun r => T < r.1).
A missing head is therefore allowed only where a delivered truncation removed it, and the whole
batch is gone only after a delivered delete / `RecordPosition`, or when every position is `≤ T`.

Hypothesis: the records of `b` are not records of an append to the same queue delivered AFTER it
(the incarnation caveat; records delivered BEFORE the batch do not matter here). `head_exact` is
about any successful replay; `C12_crash_head_clean` instantiates it for `recover` on damaged images
of crash-reachable states (`Img.CleanDamage`).
-/
import MRL.Props.CrashDamageClean

namespace MRL.C12H
open MRL Log Rec

/-- does the entry remove every record of queue `name`? -/
def wipes (name : Bytes) : Entry → Bool
  | .touch q _ => q == name
  | .delete q _ => q == name
  | _ => false

/-- the truncation bound of the entry, if it truncates queue `name` -/
def truncOf (name : Bytes) : Entry → List Nat
  | .truncate q p => if q == name then [p] else []
  | _ => []

def wiped (name : Bytes) (es : List (Nat × Entry)) : Bool := es.any fun fe => wipes name fe.2

/-- the bounds of the truncate entries of queue `name`, in order -/
def truncs (name : Bytes) (es : List (Nat × Entry)) : List Nat := es.flatMap fun fe => truncOf name fe.2

/-- the largest element -/
def maxB : List Nat → Option Nat
  | [] => none
  | a :: l => some (match maxB l with | none => a | some m => max a m)

theorem all_lt_maxB (x : Nat) : ∀ l : List Nat,
    (∀ T ∈ l, T < x) ↔ (match maxB l with | none => True | some M => M < x) := by
  intro l
  induction l with
  | nil => simp [maxB]
  | cons a l ih =>
    simp only [List.mem_cons, forall_eq_or_imp, maxB, ih]
    cases maxB l with
    | none => simp
    | some m => simp only; omega

/-- record `r` is in the queue, if there is one -/
def InQ (x : Option MemQueue) (r : Nat × Bytes) : Prop := ∃ q, x = some q ∧ r ∈ plain q

theorem inQ_none (r : Nat × Bytes) : ¬ InQ none r := fun ⟨_, h, _⟩ => by cases h

theorem inQ_some (q : MemQueue) (r : Nat × Bytes) : InQ (some q) r ↔ r ∈ plain q :=
  ⟨fun ⟨_, h, hr⟩ => by cases h; exact hr, fun h => ⟨q, rfl, h⟩⟩

theorem plain_withNext (p : Nat) : plain (MemQueue.withNextPosition p) = [] := rfl

theorem mem_plain_truncate (q : MemQueue) (hq : C05.QInv q) (p : Nat) (r : Nat × Bytes) :
    r ∈ plain (q.truncateHead p).1 ↔ r ∈ plain q ∧ p < r.1 := by
  have h := (MemQueue.truncateHead_spec q p hq.1 hq.2).1
  unfold plain
  rw [h]
  simp only [List.mem_map, List.mem_filter, decide_eq_true_eq]
  constructor
  · rintro ⟨x, ⟨hx, hp⟩, rfl⟩; exact ⟨⟨x, hx, rfl⟩, hp⟩
  · rintro ⟨⟨x, hx, rfl⟩, hp⟩; exact ⟨x, ⟨hx, hp⟩, rfl⟩

/-- **one entry**: the record is in the queue afterwards iff it was before, the entry does not wipe
    the queue, and the record is above the entry's truncation bound -/
theorem step_inQ {qs qs' : MemQueues} {f : Nat} {e : Entry} (h : replayEntry qs f e = some qs') (hI : QsInv qs)
    (name : Bytes) (r : Nat × Bytes) (hfr : (name, r.1, r.2) ∉ recordsOf [(f, e)]) :
    InQ (qs'.get? name) r ↔ (InQ (qs.get? name) r ∧ wipes name e = false ∧ ∀ T ∈ truncOf name e, T < r.1) := by
  obtain ⟨ho, hother⟩ := Drop.replayEntry_opQ h
  by_cases hn : name = e.queue
  · subst hn
    cases e with
    | append q p recs =>
      simp only [Drop.opQ, Entry.queue] at ho ⊢
      simp only [wipes, truncOf, List.not_mem_nil, false_implies, implies_true, and_true]
      have hnr : r ∉ recs := by
        intro hr
        apply hfr
        simp only [recordsOf, List.append_nil, List.mem_map]
        exact ⟨r, hr, rfl⟩
      cases ha : Log.appendAll ((qs.get? q).getD (MemQueue.withNextPosition p)) f recs with
      | none => rw [ha] at ho; cases ho
      | some q'' =>
        rw [ha] at ho
        simp only [Option.map_some, Option.some.injEq] at ho
        rw [← ho, inQ_some, plain_appendAll f recs _ _ ha, List.mem_append]
        cases hg : qs.get? q with
        | none =>
          simp only [Option.getD_none, plain_withNext, List.not_mem_nil, false_or]
          exact ⟨fun h => absurd h hnr, fun h => absurd h (inQ_none r)⟩
        | some q0 =>
          simp only [Option.getD_some, inQ_some]
          exact ⟨fun h => h.elim id (fun h => absurd h hnr), Or.inl⟩
    | truncate q p =>
      simp only [Drop.opQ, Entry.queue, Option.some.injEq] at ho ⊢
      simp only [wipes, truncOf, beq_self_eq_true, if_true, List.mem_singleton, forall_eq, true_and]
      rw [← ho]
      cases hg : qs.get? q with
      | none => simp only [Option.map_none]; exact ⟨fun h => absurd h (inQ_none r), fun h => absurd h.1 (inQ_none r)⟩
      | some q0 =>
        simp only [Option.map_some, inQ_some]
        exact mem_plain_truncate q0 (hI.get hg) p r
    | touch q p =>
      simp only [Drop.opQ, Entry.queue, Option.some.injEq] at ho ⊢
      simp only [wipes, beq_self_eq_true, Bool.true_eq_false, false_and, and_false, iff_false]
      rw [← ho, inQ_some, plain_withNext]
      simp
    | delete q p =>
      simp only [Drop.opQ, Entry.queue, Option.some.injEq] at ho ⊢
      simp only [wipes, beq_self_eq_true, Bool.true_eq_false, false_and, and_false, iff_false]
      rw [← ho]
      exact inQ_none r
  · rw [hother name hn]
    have hq : (e.queue == name) = false := by
      simp only [beq_eq_false_iff_ne, ne_eq]; exact fun h => hn h.symm
    have h1 : wipes name e = false := by
      cases e <;> simp only [wipes, Entry.queue] at hq ⊢ <;> exact hq
    have h2 : truncOf name e = [] := by
      cases e <;> simp only [truncOf, Entry.queue] at hq ⊢
      rw [hq]; rfl
    rw [h1, h2]
    simp

theorem recordsOf_cons (fe : Nat × Entry) (es : List (Nat × Entry)) :
    recordsOf (fe :: es) = recordsOf [fe] ++ recordsOf es := by
  have := recordsOf_append [fe] es
  simpa using this

/-- **a list of entries** -/
theorem replay_inQ (name : Bytes) (r : Nat × Bytes) : ∀ (es : List (Nat × Entry)) (qs qs' : MemQueues) (w : Bool)
    (Ts : List Nat), QsInv qs → replayEntries qs es = some qs' → (name, r.1, r.2) ∉ recordsOf es →
    (InQ (qs.get? name) r ↔ (w = false ∧ ∀ T ∈ Ts, T < r.1)) →
    (InQ (qs'.get? name) r ↔ ((w || wiped name es) = false ∧ ∀ T ∈ Ts ++ truncs name es, T < r.1)) := by
  intro es
  induction es with
  | nil =>
    intro qs qs' w Ts _ h _ h0
    simp only [replayEntries, Option.some.injEq] at h
    subst h
    simpa [wiped, truncs] using h0
  | cons fe es ih =>
    intro qs qs' w Ts hI h hfr h0
    obtain ⟨f, e⟩ := fe
    rw [recordsOf_cons, List.mem_append, not_or] at hfr
    simp only [replayEntries] at h
    cases h1 : replayEntry qs f e with
    | none => rw [h1] at h; cases h
    | some qs1 =>
      rw [h1] at h
      simp only [Option.bind_some] at h
      have hs := step_inQ h1 hI name r hfr.1
      have h0' : InQ (qs1.get? name) r ↔ ((w || wipes name e) = false ∧ ∀ T ∈ Ts ++ truncOf name e, T < r.1) := by
        rw [hs, h0]
        simp only [Bool.or_eq_false_iff, List.mem_append]
        constructor
        · rintro ⟨⟨a, b⟩, c, d⟩; exact ⟨⟨a, c⟩, fun T hT => hT.elim (b T) (d T)⟩
        · rintro ⟨⟨a, c⟩, d⟩; exact ⟨⟨a, fun T hT => d T (Or.inl hT)⟩, c, fun T hT => d T (Or.inr hT)⟩
      have := ih qs1 qs' (w || wipes name e) (Ts ++ truncOf name e) (QsInv_replayEntry h1 hI) h hfr.2 h0'
      simpa [wiped, truncs, Bool.or_assoc, List.append_assoc] using this

/-- **the head, exactly.** -/
theorem head_mem (L : List (Nat × Entry)) (qs : MemQueues) (h : replayEntries [] L = some qs)
    (es₁ es₂ : List (Nat × Entry)) (f : Nat) (name : Bytes) (p : Nat) (b : List (Nat × Bytes))
    (hL : L = es₁ ++ [(f, Entry.append name p b)] ++ es₂)
    (hfresh : ∀ r ∈ b, (name, r.1, r.2) ∉ recordsOf es₂)
    (q : MemQueue) (hq : qs.get? name = some q) :
    ∀ r ∈ b, r ∈ plain q ↔ (wiped name es₂ = false ∧ ∀ T ∈ truncs name es₂, T < r.1) := by
  subst hL
  intro r hr
  rw [replayEntries_append, replayEntries_append] at h
  cases h1 : replayEntries [] es₁ with
  | none => rw [h1] at h; cases h
  | some qs₁ =>
    rw [h1] at h
    simp only [Option.bind_some, replayEntries] at h
    cases h2 : replayEntry qs₁ f (Entry.append name p b) with
    | none => rw [h2] at h; cases h
    | some qs₂ =>
      rw [h2] at h
      simp only [Option.bind_some] at h
      have hI1 : QsInv qs₁ := QsInv_replayEntries es₁ [] qs₁ h1 QsInv_nil
      have hI2 : QsInv qs₂ := QsInv_replayEntry h2 hI1
      -- right after the batch every record of it is there
      have hbase : InQ (qs₂.get? name) r := by
        obtain ⟨ho, _⟩ := Drop.replayEntry_opQ h2
        simp only [Drop.opQ, Entry.queue] at ho
        cases ha : Log.appendAll ((qs₁.get? name).getD (MemQueue.withNextPosition p)) f b with
        | none => rw [ha] at ho; cases ho
        | some q'' =>
          rw [ha] at ho
          simp only [Option.map_some, Option.some.injEq] at ho
          rw [← ho, inQ_some, plain_appendAll f b _ _ ha]
          exact List.mem_append_right _ hr
      have := replay_inQ name r es₂ qs₂ qs false [] hI2 h (hfresh r hr)
        ⟨fun _ => ⟨rfl, fun _ h => by cases h⟩, fun _ => hbase⟩
      rw [hq, inQ_some] at this
      simpa using this

/-- **no missing head but a truncated one**: the records of a delivered batch present in the
    recovered queue, in the order of the batch — none after a delivered delete / `RecordPosition` of
    the queue, otherwise exactly those above the largest delivered truncation bound. -/
theorem head_exact (L : List (Nat × Entry)) (qs : MemQueues) (h : replayEntries [] L = some qs)
    (es₁ es₂ : List (Nat × Entry)) (f : Nat) (name : Bytes) (p : Nat) (b : List (Nat × Bytes))
    (hL : L = es₁ ++ [(f, Entry.append name p b)] ++ es₂)
    (hfresh : ∀ r ∈ b, (name, r.1, r.2) ∉ recordsOf es₂)
    (q : MemQueue) (hq : qs.get? name = some q) :
    b.filter (fun r => decide (r ∈ plain q)) =
      if wiped name es₂ then []
      else match maxB (truncs name es₂) with
        | none => b
        | some T => b.filter (fun r => decide (T < r.1)) := by
  have hm := head_mem L qs h es₁ es₂ f name p b hL hfresh q hq
  cases hw : wiped name es₂ with
  | true =>
    simp only [if_true]
    rw [List.filter_eq_nil_iff]
    intro r hr
    have := hm r hr
    rw [hw] at this
    simpa using this
  | false =>
    simp only [Bool.false_eq_true, if_false]
    have hm' : ∀ r ∈ b, r ∈ plain q ↔ (match maxB (truncs name es₂) with | none => True | some M => M < r.1) := by
      intro r hr
      rw [hm r hr, hw, all_lt_maxB]
      simp
    cases hmx : maxB (truncs name es₂) with
    | none =>
      rw [hmx] at hm'
      simp only
      rw [List.filter_eq_self]
      intro r hr
      simpa using (hm' r hr).mpr trivial
    | some T =>
      rw [hmx] at hm'
      simp only
      apply List.filter_congr
      intro r hr
      simp only [decide_eq_decide]
      exact hm' r hr

/-- corollaries in the old vocabulary: no delivered wipe and no delivered truncate of the queue —
    the batch is whole; a truncate whose bound lies below the batch removes nothing -/
theorem head_whole (L : List (Nat × Entry)) (qs : MemQueues) (h : replayEntries [] L = some qs)
    (es₁ es₂ : List (Nat × Entry)) (f : Nat) (name : Bytes) (p : Nat) (b : List (Nat × Bytes))
    (hL : L = es₁ ++ [(f, Entry.append name p b)] ++ es₂)
    (hfresh : ∀ r ∈ b, (name, r.1, r.2) ∉ recordsOf es₂)
    (q : MemQueue) (hq : qs.get? name = some q) (hw : wiped name es₂ = false)
    (hbelow : ∀ T ∈ truncs name es₂, ∀ r ∈ b, T < r.1) : ∀ r ∈ b, r ∈ plain q := by
  intro r hr
  rw [head_mem L qs h es₁ es₂ f name p b hL hfresh q hq r hr]
  exact ⟨hw, fun T hT => hbelow T hT r hr⟩

/-- **C12_crash_head_clean.** For every crash-reachable state and every admissible damaged image:
    whatever `recover` returns is the replay of a list `L` of entries handed to the writer, and
    every delivered batch of `L` (fresh with respect to what is delivered after it) shows up in its
    queue with exactly the head a delivered truncation removed. -/
theorem C12_crash_head_clean (g : Geom) (hB : g.B ≤ 65542) (cap : Nat) (l : Log) (img : Image) (b : BufSt)
    (W : List Entry) (h : C02W.ReachXW g cap l img b W) :
    ∀ W', Img.SameShape (C02U.flushDisk img b) W' → Img.CleanDamage g (C02U.flushDisk img b) W' →
    ∀ (policy : Policy) (order : List Bytes) (r : Recovered), recover g W' policy order none = .ok r →
      ∃ L : List (Nat × Entry), (∀ fe ∈ L, fe.2 ∈ W) ∧ replayEntries [] L = some r.log.queues ∧
        ∀ es₁ es₂ f name p bt, L = es₁ ++ [(f, Entry.append name p bt)] ++ es₂ →
          (∀ rc ∈ bt, (name, rc.1, rc.2) ∉ recordsOf es₂) →
          ∀ q, r.log.queues.get? name = some q →
            bt.filter (fun rc => decide (rc ∈ plain q)) =
              if wiped name es₂ then []
              else match maxB (truncs name es₂) with
                | none => bt
                | some T => bt.filter (fun rc => decide (T < rc.1)) := by
  obtain ⟨J, _, _, _, hall⟩ := CD.C12_crash_damage_clean g hB cap l img b W h
  intro W' hshape hN policy order r hr
  obtain ⟨L, _, hLW, hL1, _⟩ := hall W' hshape hN policy order r hr
  refine ⟨L, hLW, hL1, ?_⟩
  intro es₁ es₂ f name p bt hL hfresh q hq
  exact head_exact L _ hL1 es₁ es₂ f name p bt hL hfresh q hq

/-- the same for a restart without damage (no hypothesis) -/
theorem C12_crash_head_restart (g : Geom) (hB : g.B ≤ 65542) (cap : Nat) (l : Log) (img : Image) (b : BufSt)
    (W : List Entry) (h : C02W.ReachXW g cap l img b W) :
    ∀ (policy : Policy) (order : List Bytes) (r : Recovered),
      recover g (C02U.flushDisk img b) policy order none = .ok r →
      ∃ L : List (Nat × Entry), (∀ fe ∈ L, fe.2 ∈ W) ∧ replayEntries [] L = some r.log.queues ∧
        ∀ es₁ es₂ f name p bt, L = es₁ ++ [(f, Entry.append name p bt)] ++ es₂ →
          (∀ rc ∈ bt, (name, rc.1, rc.2) ∉ recordsOf es₂) →
          ∀ q, r.log.queues.get? name = some q →
            bt.filter (fun rc => decide (rc ∈ plain q)) =
              if wiped name es₂ then []
              else match maxB (truncs name es₂) with
                | none => bt
                | some T => bt.filter (fun rc => decide (T < rc.1)) := by
  obtain ⟨J, _, _, _, hall⟩ := C12X.C12_crash_restart g hB cap l img b W h
  intro policy order r hr
  obtain ⟨L, _, hLW, hL1, _⟩ := hall policy order r hr
  refine ⟨L, hLW, hL1, ?_⟩
  intro es₁ es₂ f name p bt hL hfresh q hq
  exact head_exact L _ hL1 es₁ es₂ f name p bt hL hfresh q hq

/-! ### non-vacuity -/

/-- a truncate whose bound lies below the batch, a second one cutting into it: the head missing is
    exactly the records at positions `≤ 5`; the old statement allowed any `k` here -/
example :
    let bt : List (Nat × Bytes) := [(4, [7]), (5, [8]), (6, [9])]
    let es₁ : List (Nat × Entry) := [(0, .append [1] 0 [(0, [1]), (1, [2])])]
    let es₂ : List (Nat × Entry) := [(0, .truncate [1] 0), (0, .truncate [1] 5), (0, .truncate [2] 9)]
    ∃ qs q, replayEntries [] (es₁ ++ [(0, Entry.append [1] 4 bt)] ++ es₂) = some qs ∧ qs.get? [1] = some q ∧
      wiped [1] es₂ = false ∧ maxB (truncs [1] es₂) = some 5 ∧
      bt.filter (fun r => decide (r ∈ plain q)) = [(6, [9])] := by
  refine ⟨_, _, rfl, rfl, rfl, rfl, ?_⟩
  decide

/-- a `RecordPosition` entry delivered after the batch (its queue having been… not emptied: a
    damaged replay): the whole batch is gone -/
example :
    let bt : List (Nat × Bytes) := [(0, [7]), (1, [8])]
    let es₂ : List (Nat × Entry) := [(0, .touch [1] 2)]
    ∃ qs q, replayEntries [] ([] ++ [(0, Entry.append [1] 0 bt)] ++ es₂) = some qs ∧ qs.get? [1] = some q ∧
      wiped [1] es₂ = true ∧ bt.filter (fun r => decide (r ∈ plain q)) = [] := by
  refine ⟨_, _, rfl, rfl, rfl, ?_⟩
  decide

end MRL.C12H
