/-
C06, restart leg: at every state reachable from an empty directory — calls and restarts in any
order — the directory is a contiguous run of WAL files ending at the file being written; every
restart and every `truncate`/`delete_queue` leaves as oldest file one that is not older than the
file being written before it, or one some queue still references; GC releases nothing referenced.
-/
import MRL.Proofs.StepRestart
import MRL.Props.C06
import MRL.Props.C10

namespace MRL.C06R
open MRL Log C01R C01J Restart C06

variable {g : Geom} {cap : Nat}

/-- the first `open` of an empty directory: one file, `wal-0`, being written -/
theorem filesOk_init (policy : Policy) (order : List Bytes) (r : Recovered)
    (h : recover g [] policy order none = .ok r) : FilesOk r.log := by
  obtain ⟨lp, e0, io, hpre, hlog, _⟩ := Step.recover_ok g [] policy order none r h
  obtain ⟨hf, hc⟩ := C10.recoverPre_files hpre
  have hf0 : lp.files = [0] := hf
  have hc0 : lp.cur = 0 := by rw [hf0] at hc; simpa using hc
  have hok : FilesOk lp := by
    unfold FilesOk; rw [hf0, hc0]; exact ⟨trivial, rfl⟩
  rw [hlog]
  exact (runGc_reclaim g lp order hok).1

/-- **`FilesOk` is an invariant of the end-to-end system.** -/
theorem filesOk_reach (hB : g.B ≤ 65542) {l : Log} {J : List JE} {img : Image} {b : BufSt}
    (h : ReachD g cap l J img b) : (∀ j ∈ J, C07.WF j.e) → FilesOk l := by
  induction h with
  | init policy order r hr => intro _; exact filesOk_init policy order r hr
  | step c tick order _ ih =>
    intro hwf
    exact filesOk_step g _ c tick order (ih fun j hj => hwf j (List.mem_append_left _ hj))
  | @reopen l J img b policy order lp e0 io r hprev hpre hrec ih =>
    intro hwf
    have hwf' : ∀ j ∈ J, C07.WF j.e := fun j hj => hwf j (List.mem_append_left _ hj)
    obtain ⟨hlog, hf, hc, _⟩ :=
      reopen_facts hB (s := ⟨l, J, img, b⟩) hprev hwf' policy order lp e0 io r hpre hrec
    rw [hlog]
    exact (runGc_reclaim g lp order ((ih hwf').same hf hc)).1

theorem reach_filesOk (hB : g.B ≤ 65542) {s : Sys} (h : Reach g cap s) (hwf : WFJ s) : FilesOk s.l :=
  filesOk_reach hB h hwf

/-- **C06 at every restart of a reachable state.** -/
theorem C06_reach_open (hB : g.B ≤ 65542) {s s' : Sys} (h : Reach g cap s) (hwf : WFJ s)
    {policy : Policy} {order : List Bytes} (hr : Reopens g cap s policy order s') :
    FilesOk s'.l ∧ s'.l.diskUsed g = s'.l.files.length * g.fileBytes ∧
    (∀ f₀, s'.l.files.head? = some f₀ → s.l.cur ≤ f₀ ∨ s'.l.queues.refsFile f₀ = true) ∧
    (∀ lp e0 io r, recoverPre g s.disk policy none = .ok (lp, e0, io) →
      recover g s.disk policy order none = .ok r →
      ∀ f, Effect.unlink f ∈ r.effects → r.log.queues.refsFile f = false ∧ f ≠ r.log.cur ∧ f ∉ r.log.files) := by
  obtain ⟨lp, e0, io, r, hpre, hrec, rfl⟩ := hr
  obtain ⟨_, hf, hc, _⟩ := reopen_facts hB h hwf policy order lp e0 io r hpre hrec
  have hok : FilesOk lp := (reach_filesOk hB h hwf).same hf hc
  obtain ⟨h1, h2, h3, _⟩ := C06_open g order s.disk policy none r lp e0 io hpre hrec hok
  refine ⟨h1, h2, by rw [← hc]; exact h3, ?_⟩
  intro lp' e0' io' r' hpre' hrec'
  rw [hpre] at hpre'
  simp only [Except.ok.injEq, Prod.mk.injEq] at hpre'
  obtain ⟨rfl, rfl, rfl⟩ := hpre'
  exact (C06_open g order s.disk policy none r' lp e0 io hpre hrec' hok).2.2.2

/-- **C06 at every `truncate`/`delete_queue` of a reachable state.** -/
theorem C06_reach_reclaim (hB : g.B ≤ 65542) {s : Sys} (h : Reach g cap s) (hwf : WFJ s) (c : Call)
    (tick : Bool) (order : List Bytes) (hc : Step.isGcCall c = true) :
    let r := Log.step g s.l c tick order
    FilesOk r.1 ∧ r.1.diskUsed g = r.1.files.length * g.fileBytes ∧
    (r.2.1 ≠ .missingQueue → ∀ f₀, r.1.files.head? = some f₀ →
      s.l.cur ≤ f₀ ∨ r.1.queues.refsFile f₀ = true) ∧
    (∀ f, Effect.unlink f ∈ r.2.2 → r.1.queues.refsFile f = false ∧ f ≠ r.1.cur ∧ f ∉ r.1.files) := by
  intro r
  have hok := reach_filesOk hB h hwf
  obtain ⟨h1, h2, h3⟩ := C06_reclaim g s.l c tick order hok hc
  refine ⟨h1, h2, h3, fun f hf => ?_⟩
  obtain ⟨a, b, c'⟩ := no_premature_release g s.l c tick order f hf
  exact ⟨a, b, c' hok⟩

/-- non-vacuity: the initial state is reachable and satisfies the invariant; so does every
    restart of it -/
example (hB : g.B ≤ 65542) : ∃ s, Reach g cap s ∧ FilesOk s.l ∧ ∃ s', Reopens g cap s .doNothing [] s' ∧ FilesOk s'.l := by
  obtain ⟨s, hs, hJ⟩ := reach_init (g := g) (cap := cap) hB .doNothing []
  have hwf : WFJ s := by intro j hj; rw [hJ] at hj; cases hj
  obtain ⟨s', hs'⟩ := reopens_exists hB hs hwf .doNothing []
  exact ⟨s, hs, reach_filesOk hB hs hwf, s', hs', (C06_reach_open hB hs hwf hs').1⟩

end MRL.C06R
