/-
C10: `open` never panics on an arithmetic overflow, and the read accessors of the log it returns
do not either — for every image whose entries stay below `u64::MAX`. `MRL/Model/Panic.lean` is
the instrumented twin of recovery; here: it agrees with `recover` whenever it does not report a
panic, it never reports one under the hypotheses, the hypotheses are needed, and the reassembly
buffer never exceeds the bytes read.
-/
import MRL.Model.Panic
import MRL.Proofs.RecIo
import MRL.Proofs.QMemQueue
import MRL.Proofs.StepGc
import MRL.Proofs.RecReplay

namespace MRL.C10
open MRL MRL.Log

/-! ### (a) the twin agrees with the model -/

theorem appendAllP_agrees (file : Nat) (recs : List (Nat × Bytes)) :
    ∀ (q : MemQueue) (x : Option MemQueue), appendAllP q file recs = .ok x → x = appendAll q file recs := by
  induction recs with
  | nil => intro q x h; cases h; rfl
  | cons r rs ih =>
    intro q x h
    obtain ⟨p, pl⟩ := r
    simp only [appendAllP] at h
    split at h
    · cases h
    · simp only [appendAll]
      cases ha : q.appendRecord file p pl with
      | none => rw [ha] at h; cases h; rfl
      | some q' => rw [ha] at h; exact ih q' x h

theorem replayEntryP_agrees (qs : MemQueues) (file : Nat) (e : Entry) (x : Option MemQueues)
    (h : replayEntryP qs file e = .ok x) : x = replayEntry qs file e := by
  cases e with
  | append q pos recs =>
    simp only [replayEntryP] at h
    simp only [replayEntry]
    split at h
    · rename_i mq hg
      rw [hg]
      simp only
      cases ha : appendAllP mq file recs with
      | error u => rw [ha] at h; cases h
      | ok y =>
        rw [ha] at h
        have := appendAllP_agrees file recs mq y ha
        rw [← this]
        cases y with
        | none => cases h; rfl
        | some mq' => cases h; rfl
    · rename_i hg
      rw [hg]
      cases h; rfl
  | truncate q p =>
    simp only [replayEntryP] at h
    simp only [replayEntry]
    split at h
    · rename_i mq hg
      rw [hg]
      split at h
      · cases h
      · cases h; rfl
    · rename_i hg
      rw [hg]; cases h; rfl
  | touch q p => cases h; rfl
  | delete q p => cases h; rfl

theorem replayP_skip (qs : MemQueues) (file : Nat) (bytes : Bytes) (evs : List RecEv)
    (hd : Entry.decode bytes = none) : replayP qs (.entry file bytes :: evs) = replayP qs evs := by
  simp only [replayP, hd]

theorem replayP_entry (qs : MemQueues) (file : Nat) (bytes : Bytes) (evs : List RecEv) (e : Entry)
    (hd : Entry.decode bytes = some e) :
    replayP qs (.entry file bytes :: evs) =
      match replayEntryP qs file e with
      | .error () => .error ()
      | .ok none => .ok none
      | .ok (some qs') => replayP qs' evs := by
  simp only [replayP, hd]
  rcases replayEntryP qs file e with u | (_ | _) <;> rfl

theorem replay_skip (qs : MemQueues) (file : Nat) (bytes : Bytes) (evs : List RecEv)
    (hd : Entry.decode bytes = none) : replay qs (.entry file bytes :: evs) = replay qs evs := by
  simp only [replay, hd]

theorem replay_entry (qs : MemQueues) (file : Nat) (bytes : Bytes) (evs : List RecEv) (e : Entry)
    (hd : Entry.decode bytes = some e) :
    replay qs (.entry file bytes :: evs) = (replayEntry qs file e).bind fun qs' => replay qs' evs := by
  simp only [replay, hd]

theorem replayP_agrees (evs : List RecEv) :
    ∀ (qs : MemQueues) (x : Option MemQueues), replayP qs evs = .ok x → x = replay qs evs := by
  induction evs with
  | nil => intro qs x h; cases h; rfl
  | cons ev evs ih =>
    intro qs x h
    cases ev with
    | corrupt => exact ih qs x h
    | entry file bytes =>
      cases hd : Entry.decode bytes with
      | none =>
        rw [replayP_skip _ _ _ _ hd] at h
        rw [replay_skip _ _ _ _ hd]
        exact ih qs x h
      | some e =>
        rw [replayP_entry _ _ _ _ e hd] at h
        rw [replay_entry _ _ _ _ e hd]
        cases hr : replayEntryP qs file e with
        | error u => rw [hr] at h; cases h
        | ok y =>
          rw [hr] at h
          rw [← replayEntryP_agrees qs file e y hr]
          cases y with
          | none => cases h; rfl
          | some qs' => exact ih qs' x h

/-- **C10 (a).** Whenever the twin does not report a panic, it returns what `recover` returns. -/
theorem recoverP_agrees (g : Geom) (img : Image) (policy : Policy) (order : List Bytes) (failAt : Option Nat)
    (x : Except OpenErr Recovered) (h : recoverP g img policy order failAt = .ok x) :
    x = recover g img policy order failAt := by
  unfold recoverP at h
  split at h
  · cases h
  · split at h
    · split at h
      · cases h
      · cases h; rfl
    · cases h; rfl

/-! ### (b) no panic below `u64::MAX` -/

/-- every stored position is below `u64::MAX` -/
def SafeQ (q : MemQueue) : Prop := ∀ p ∈ q.recs.map (·.pos), p < U64MAX

def Safe (qs : MemQueues) : Prop := ∀ kv ∈ qs, SafeQ kv.2

/-- what the replay of an entry needs: record positions and truncate bounds below `u64::MAX` -/
def NeedsEntry : Entry → Prop
  | .append _ _ recs => ∀ r ∈ recs, r.1 < U64MAX
  | .truncate _ p => p < U64MAX
  | .touch _ _ => True
  | .delete _ _ => True

/-- entry position, truncate bound and all record positions below `u64::MAX` -/
def NoMaxEntry : Entry → Prop
  | .append _ pos recs => pos < U64MAX ∧ ∀ r ∈ recs, r.1 < U64MAX
  | .truncate _ p => p < U64MAX
  | .touch _ p => p < U64MAX
  | .delete _ p => p < U64MAX

theorem NoMaxEntry.needs {e : Entry} (h : NoMaxEntry e) : NeedsEntry e := by
  cases e with
  | append q pos recs => exact h.2
  | truncate q p => exact h
  | touch q p => trivial
  | delete q p => trivial

/-- every decodable entry among the events stays below `u64::MAX` -/
def NoMax (evs : List RecEv) : Prop :=
  ∀ file bytes e, RecEv.entry file bytes ∈ evs → Entry.decode bytes = some e → NoMaxEntry e

def NoMaxFiles (img : Image) : Prop := ∀ f ∈ img.map (·.1), f < U64MAX

theorem SafeQ.not_poisoned {q : MemQueue} (h : SafeQ q) : q.poisoned = false := by
  unfold MemQueue.poisoned
  split
  · rename_i r hr
    have := h r.pos (List.mem_map.mpr ⟨r, List.mem_of_getLast? hr, rfl⟩)
    simp only [decide_eq_false_iff_not]
    omega
  · rfl

theorem SafeQ_empty (s : Nat) : SafeQ { start := s, recs := [] } := by
  intro p hp; cases hp

theorem SafeQ_appendRecord {q q' : MemQueue} {file pos : Nat} {pl : Bytes} (h : SafeQ q) (hp : pos < U64MAX)
    (ha : q.appendRecord file pos pl = some q') : SafeQ q' := by
  unfold MemQueue.appendRecord at ha
  split at ha
  · cases ha
  · injection ha with ha
    subst ha
    intro p hm
    simp only [List.map_append, MemQueue.dropLastHandle_pos, List.map_cons, List.map_nil, List.mem_append,
      List.mem_singleton] at hm
    rcases hm with hm | rfl
    · exact h p hm
    · exact hp

theorem SafeQ_truncateHead {q : MemQueue} (h : SafeQ q) (p : Nat) : SafeQ (q.truncateHead p).1 := by
  unfold MemQueue.truncateHead
  split
  · exact h
  · split
    · exact SafeQ_empty _
    · intro x hx
      simp only [List.map_drop] at hx
      exact h x (List.mem_of_mem_drop hx)

theorem Safe_nil : Safe [] := fun _ h => by cases h

theorem Safe.set {qs : MemQueues} (h : Safe qs) (n : Bytes) {q : MemQueue} (hq : SafeQ q) : Safe (qs.set n q) := by
  intro kv hkv
  rcases mem_set hkv with hm | rfl
  · exact h kv hm
  · exact hq

theorem Safe.remove {qs : MemQueues} (h : Safe qs) (n : Bytes) : Safe (qs.remove n) :=
  fun kv hkv => h kv (mem_remove hkv)

theorem Safe.ack {qs : MemQueues} (h : Safe qs) (n : Bytes) (next : Nat) : Safe (qs.ackPosition n next) := by
  unfold MemQueues.ackPosition
  split
  · split
    · exact h.set n (SafeQ_empty _)
    · exact h
  · exact h.set n (SafeQ_empty _)

theorem Safe.get {qs : MemQueues} (h : Safe qs) {n : Bytes} {q : MemQueue} (hg : qs.get? n = some q) : SafeQ q :=
  h (n, q) (get_mem hg)

theorem Safe.not_accessorsPanic {qs : MemQueues} (h : Safe qs) : accessorsPanic qs = false := by
  unfold accessorsPanic
  rw [List.any_eq_false]
  intro kv hkv
  rw [(h kv hkv).not_poisoned]
  simp

theorem appendAllP_safe (file : Nat) (recs : List (Nat × Bytes)) :
    ∀ q : MemQueue, SafeQ q → (∀ r ∈ recs, r.1 < U64MAX) →
      ∃ x, appendAllP q file recs = .ok x ∧ ∀ q', x = some q' → SafeQ q' := by
  induction recs with
  | nil => intro q h _; exact ⟨some q, rfl, fun q' e => by cases e; exact h⟩
  | cons r rs ih =>
    intro q h hr
    obtain ⟨p, pl⟩ := r
    simp only [appendAllP, h.not_poisoned, Bool.false_eq_true, if_false]
    cases ha : q.appendRecord file p pl with
    | none => exact ⟨none, rfl, fun q' e => by cases e⟩
    | some q1 =>
      exact ih q1 (SafeQ_appendRecord h (hr (p, pl) List.mem_cons_self) ha)
        (fun r hm => hr r (List.mem_cons_of_mem _ hm))

/-- one entry: no panic, and the invariant is kept -/
theorem replayEntryP_safe (qs : MemQueues) (file : Nat) (e : Entry) (h : Safe qs) (he : NeedsEntry e) :
    ∃ x, replayEntryP qs file e = .ok x ∧ ∀ qs', x = some qs' → Safe qs' := by
  cases e with
  | append q pos recs =>
    simp only [replayEntryP]
    have h1 : Safe (if qs.contains q then qs else qs.ackPosition q pos) := by
      split
      · exact h
      · exact h.ack q pos
    generalize (if qs.contains q then qs else qs.ackPosition q pos) = qs1 at h1
    cases hg : qs1.get? q with
    | none => exact ⟨none, rfl, fun _ e => by cases e⟩
    | some mq =>
      obtain ⟨x, hx, hs⟩ := appendAllP_safe file recs mq (h1.get hg) he
      simp only [hx]
      cases x with
      | none => exact ⟨none, rfl, fun _ e => by cases e⟩
      | some mq' => exact ⟨_, rfl, fun qs' e => by cases e; exact h1.set q (hs mq' rfl)⟩
  | truncate q p =>
    simp only [replayEntryP]
    cases hg : qs.get? q with
    | none => exact ⟨some qs, rfl, fun qs' e => by cases e; exact h⟩
    | some mq =>
      have hq := h.get hg
      have hnp : truncatePanics mq p = false := by
        unfold truncatePanics
        split
        · rfl
        · have hp : p < U64MAX := he
          simp [hq.not_poisoned]
          omega
      simp only [hnp, Bool.false_eq_true, if_false]
      exact ⟨_, rfl, fun qs' e => by cases e; exact h.set q (SafeQ_truncateHead hq p)⟩
  | touch q p => exact ⟨_, rfl, fun qs' e => by cases e; exact h.ack q p⟩
  | delete q p => exact ⟨_, rfl, fun qs' e => by cases e; exact h.remove q⟩

theorem replayP_safe (evs : List RecEv) : ∀ qs : MemQueues, Safe qs →
    (∀ file bytes e, RecEv.entry file bytes ∈ evs → Entry.decode bytes = some e → NeedsEntry e) →
    ∃ x, replayP qs evs = .ok x ∧ ∀ qs', x = some qs' → Safe qs' := by
  induction evs with
  | nil => intro qs h _; exact ⟨some qs, rfl, fun qs' e => by cases e; exact h⟩
  | cons ev evs ih =>
    intro qs h hn
    have hn' : ∀ file bytes e, RecEv.entry file bytes ∈ evs → Entry.decode bytes = some e → NeedsEntry e :=
      fun file bytes e hm hd => hn file bytes e (List.mem_cons_of_mem _ hm) hd
    cases ev with
    | corrupt => exact ih qs h hn'
    | entry file bytes =>
      cases hd : Entry.decode bytes with
      | none => rw [replayP_skip _ _ _ _ hd]; exact ih qs h hn'
      | some e =>
        rw [replayP_entry _ _ _ _ e hd]
        obtain ⟨x, hx, hs⟩ := replayEntryP_safe qs file e h (hn file bytes e List.mem_cons_self hd)
        rw [hx]
        cases x with
        | none => exact ⟨none, rfl, fun _ e => by cases e⟩
        | some qs1 => exact ih qs1 (hs qs1 rfl) hn'

/-- **C10 (b), replay.** Entries below `u64::MAX`: the replay loop never overflows, and the queues
    it builds hold no position at `u64::MAX`. -/
theorem replay_no_panic (evs : List RecEv) (h : NoMax evs) :
    ∃ x, replayP [] evs = .ok x ∧ x = replay [] evs ∧ ∀ qs', x = some qs' → Safe qs' := by
  obtain ⟨x, hx, hs⟩ := replayP_safe evs [] Safe_nil (fun file bytes e hm hd => (h file bytes e hm hd).needs)
  exact ⟨x, hx, replayP_agrees evs [] x hx, hs⟩

/-! #### the GC pass -/

/-- `M` bounds the current file and every tracked file -/
def Bnd (M : Nat) (l : Log) : Prop := l.cur ≤ M ∧ ∀ f ∈ l.files, f ≤ M

theorem Bnd.mono {M M' : Nat} {l : Log} (h : Bnd M l) (hm : M ≤ M') : Bnd M' l :=
  ⟨Nat.le_trans h.1 hm, fun f hf => Nat.le_trans (h.2 f hf) hm⟩

section
variable (g : Geom)

theorem writeBuf_bnd (l : Log) (buf : Bytes) (M : Nat) (h : Bnd M l) : Bnd (M + 1) (writeBuf g l buf).1 := by
  unfold writeBuf
  split
  · exact h.mono (Nat.le_succ _)
  · split
    · split
      · rename_i nf hnf
        have hm : nf ∈ l.files := by unfold nextFile at hnf; exact List.mem_of_find?_eq_some hnf
        exact ⟨Nat.le_trans (h.2 nf hm) (Nat.le_succ _), fun f hf => Nat.le_trans (h.2 f hf) (Nat.le_succ _)⟩
      · refine ⟨Nat.succ_le_succ h.1, fun f hf => ?_⟩
        simp only [List.mem_append, List.mem_singleton] at hf
        rcases hf with hf | rfl
        · exact Nat.le_trans (h.2 f hf) (Nat.le_succ _)
        · exact Nat.succ_le_succ h.1
    · exact h.mono (Nat.le_succ _)

theorem writeBufPanics_false (l : Log) (buf : Bytes) (M : Nat) (h : Bnd M l) (hM : M < U64MAX) :
    writeBufPanics g l buf = false := by
  unfold writeBufPanics
  have : ¬ U64MAX ≤ l.cur := by have := h.1; omega
  simp [this]

theorem writeBufs_bnd (bufs : List Bytes) : ∀ (l : Log) (M : Nat), Bnd M l → M + bufs.length ≤ U64MAX →
    writeBufsPanics g l bufs = false ∧ Bnd (M + bufs.length) (writeBufs g l bufs).1 := by
  induction bufs with
  | nil => intro l M h _; exact ⟨rfl, h⟩
  | cons b bs ih =>
    intro l M h hM
    simp only [List.length_cons] at hM ⊢
    obtain ⟨h1, h2⟩ := ih (writeBuf g l b).1 (M + 1) (writeBuf_bnd g l b M h) (by omega)
    refine ⟨?_, ?_⟩
    · simp only [writeBufsPanics, writeBufPanics_false g l b M h (by omega), h1, Bool.or_self]
    · rw [Step.writeBufs_cons]
      have : M + (bs.length + 1) = M + 1 + bs.length := by omega
      rw [this]; exact h2

theorem writeEntry_bnd (l : Log) (e : Entry) (M : Nat) (h : Bnd M l)
    (hM : M + (entryBufsOf g l e).length ≤ U64MAX) :
    writeEntryPanics g l e = false ∧ Bnd (M + (entryBufsOf g l e).length) (l.writeEntry g e).1 :=
  writeBufs_bnd g (entryBufsOf g l e) l M h hM

theorem writeTouches_bnd (names : List Bytes) : ∀ (l : Log) (M : Nat), Bnd M l →
    M + touchBufCount g l names ≤ U64MAX → writeTouchesPanics g l names = false := by
  induction names with
  | nil => intro l M _ _; rfl
  | cons n ns ih =>
    intro l M h hM
    simp only [touchBufCount] at hM
    obtain ⟨h1, h2⟩ := writeEntry_bnd g l (touchOf l n) M h (by omega)
    simp only [writeTouchesPanics, h1, Bool.false_or]
    exact ih _ _ h2 (by omega)

/-- **C10 (b), GC.** If every tracked file number, plus the number of buffers the GC pass writes,
    stays within `u64`, the pass never overflows a file number. -/
theorem runGc_no_panic (l : Log) (order : List Bytes) (M : Nat) (h : Bnd M l)
    (hM : M + gcBufCount g l order ≤ U64MAX) : runGcPanics g l order = false :=
  writeTouches_bnd g _ l M h hM

end

/-! #### the scan prefix is the scan when no I/O call fails -/

theorem scanPrefix_of_some (g : Geom) (fa : Option Nat) (trail : Nat) (rest : List Blk) :
    ∀ (io : Nat) (cur : Blk) (c : Nat) (evs : List RdEv) (e : EndPos) (io' : Nat),
      scanBlocks g fa trail io cur c rest = some (evs, e, io') → scanPrefix g fa io cur c rest = evs := by
  induction rest with
  | nil =>
    intro io cur c evs e io' h
    unfold scanBlocks at h
    unfold scanPrefix
    split at h
    · rename_i evs0 c' hs
      rw [hs]
      injection h with h
      injection h with h _
    · rename_i evs0 c' hs
      rw [hs]
      simp only at h ⊢
      split at h
      · cases h
      · injection h with h
        injection h with h _
  | cons b rest' ih =>
    intro io cur c evs e io' h
    unfold scanBlocks at h
    unfold scanPrefix
    split at h
    · rename_i evs0 c' hs
      rw [hs]
      injection h with h
      injection h with h _
    · rename_i evs0 c' hs
      rw [hs]
      simp only at h ⊢
      split at h
      · cases h
      · rename_i hio
        rw [if_neg hio]
        cases hrec : scanBlocks g fa trail (io + b.cost) b 0 rest' with
        | none => rw [hrec] at h; cases h
        | some r =>
          obtain ⟨evs2, e2, io2⟩ := r
          rw [hrec] at h
          simp only [Option.some.injEq, Prod.mk.injEq] at h
          rw [ih _ _ _ _ _ _ hrec, ← h.1]

/-! #### `open` -/

theorem deliveredEvents_of_pre {g : Geom} {img : Image} {policy : Policy} {fa : Option Nat}
    {lp : Log} {e0 : List Effect} {io : Nat} (h : recoverPre g img policy fa = .ok (lp, e0, io)) :
    replay [] (deliveredEvents g img fa) = some lp.queues := by
  obtain ⟨b0, rest, trail, rdEvs, e, hb, hs, hr⟩ := Rec.recoverPre_ok_replay h
  have hio : ioFails fa 0 b0.cost = false := by
    rw [Rec.recoverPre_cons g img policy fa b0 rest trail hb] at h
    cases hf : ioFails fa 0 b0.cost with
    | false => rfl
    | true => rw [hf] at h; cases h
  unfold deliveredEvents
  simp only [hb, hio, Bool.false_eq_true, if_false]
  rw [scanPrefix_of_some g fa trail rest _ _ _ _ _ _ hs]
  exact hr

/-- **C10 (b).** For every image — arbitrary bytes, arbitrary lengths, any I/O fault plan — whose
    delivered entries stay below `u64::MAX` and whose file numbers leave room for the roll-overs
    of the final GC pass: `open` does not panic (the twin returns what `recover` returns), and no
    queue of the returned log is poisoned, so `last_position`, `summary`, `next_position` and
    every later `append_record`/`truncate_head` start from positions below `u64::MAX`. -/
theorem recover_no_panic (g : Geom) (img : Image) (policy : Policy) (order : List Bytes) (failAt : Option Nat)
    (hev : NoMax (deliveredEvents g img failAt))
    (hgc : ∀ lp e0 io, recoverPre g img policy failAt = .ok (lp, e0, io) →
      ∃ M, Bnd M lp ∧ M + gcBufCount g lp order ≤ U64MAX) :
    recoverP g img policy order failAt = .ok (recover g img policy order failAt) ∧
    recoverP g img policy order failAt ≠ .error () ∧
    ∀ r, recover g img policy order failAt = .ok r →
      Safe r.log.queues ∧ accessorsPanic r.log.queues = false := by
  obtain ⟨x, hx, hxr, hs⟩ := replay_no_panic _ hev
  have h1 : recoverP g img policy order failAt = .ok (recover g img policy order failAt) := by
    unfold recoverP
    rw [hx]
    simp only
    cases hpre : recoverPre g img policy failAt with
    | error e => rfl
    | ok r =>
      obtain ⟨lp, e0, io⟩ := r
      obtain ⟨M, hb, hM⟩ := hgc lp e0 io hpre
      simp only [runGc_no_panic g lp order M hb hM, Bool.false_eq_true, if_false]
  have h2 : recoverP g img policy order failAt ≠ .error () := by
    rw [h1]; intro h; cases h
  refine ⟨h1, h2, ?_⟩
  intro r hr
  obtain ⟨lp, e0, io, hpre, hlog, _⟩ := Step.recover_ok g img policy order failAt r hr
  have hq : r.log.queues = lp.queues := by rw [hlog]; exact runGc_queues g lp order
  have hsafe : Safe lp.queues := hs lp.queues (by rw [hxr]; exact deliveredEvents_of_pre hpre)
  rw [hq]
  exact ⟨hsafe, hsafe.not_accessorsPanic⟩

/-! #### the same with the hypothesis on the image's file numbers -/

theorem fileBlocks_file (g : Geom) (f fc : Nat) (n : Nat) :
    ∀ (content : Bytes) (i : Nat), ∀ b ∈ fileBlocks g f content fc i n, b.file = f := by
  induction n with
  | zero => intro content i b hb; cases hb
  | succ n ih =>
    intro content i b hb
    simp only [fileBlocks, List.mem_cons] at hb
    rcases hb with rfl | hb
    · rfl
    · exact ih _ _ b hb

theorem blocksOf_files (g : Geom) (img : Image) :
    ∀ p, ∀ b ∈ (blocksOf g img p).1, b.file ∈ img.map (·.1) := by
  induction img with
  | nil => intro p b hb; cases hb
  | cons fc img ih =>
    intro p b hb
    obtain ⟨f, content⟩ := fc
    simp only [blocksOf] at hb
    split at hb
    · exact List.mem_cons_of_mem _ (ih _ b hb)
    · simp only [List.mem_append] at hb
      rcases hb with hb | hb
      · rw [fileBlocks_file g f _ _ _ _ b hb]
        exact List.mem_cons_self
      · exact List.mem_cons_of_mem _ (ih _ b hb)

theorem scanBlocks_end_file (g : Geom) (fa : Option Nat) (trail : Nat) (rest : List Blk) :
    ∀ (io : Nat) (cur : Blk) (c : Nat) (evs : List RdEv) (e : EndPos) (io' : Nat),
      scanBlocks g fa trail io cur c rest = some (evs, e, io') → e.file ∈ (cur :: rest).map (·.file) := by
  induction rest with
  | nil =>
    intro io cur c evs e io' h
    unfold scanBlocks at h
    split at h
    · simp only [Option.some.injEq, Prod.mk.injEq] at h
      rw [← h.2.1]; simp
    · simp only at h
      split at h
      · cases h
      · simp only [Option.some.injEq, Prod.mk.injEq] at h
        rw [← h.2.1]; simp
  | cons b rest' ih =>
    intro io cur c evs e io' h
    unfold scanBlocks at h
    split at h
    · simp only [Option.some.injEq, Prod.mk.injEq] at h
      rw [← h.2.1]; simp
    · simp only at h
      split at h
      · cases h
      · cases hrec : scanBlocks g fa trail (io + b.cost) b 0 rest' with
        | none => rw [hrec] at h; cases h
        | some r =>
          obtain ⟨evs2, e2, io2⟩ := r
          rw [hrec] at h
          simp only [Option.some.injEq, Prod.mk.injEq] at h
          rw [← h.2.1]
          exact List.mem_cons_of_mem _ (ih _ _ _ _ _ _ hrec)

/-- the log rebuilt by `open` tracks the files of the (prepared) image and writes in one of them -/
theorem recoverPre_files {g : Geom} {img : Image} {policy : Policy} {fa : Option Nat}
    {lp : Log} {e0 : List Effect} {io : Nat} (h : recoverPre g img policy fa = .ok (lp, e0, io)) :
    lp.files = (prepareImage g img).1.map (·.1) ∧ lp.cur ∈ lp.files := by
  obtain ⟨b0, rest, trail, rdEvs, e, hb, hs, hr⟩ := Rec.recoverPre_ok_replay h
  rw [Rec.recoverPre_cons g img policy fa b0 rest trail hb, hs] at h
  split at h
  · cases h
  · simp only [Rec.finishPre, hr, Except.ok.injEq, Prod.mk.injEq] at h
    obtain ⟨hl, _, _⟩ := h
    have hfiles : lp.files = (prepareImage g img).1.map (·.1) := by rw [← hl]
    have hcur : lp.cur = e.file := by rw [← hl]
    refine ⟨hfiles, ?_⟩
    rw [hfiles, hcur]
    have hm := scanBlocks_end_file g fa trail rest _ _ _ _ _ _ hs
    obtain ⟨b, hbm, hbf⟩ := List.mem_map.mp hm
    have := blocksOf_files g (prepareImage g img).1 1 b (by rw [hb]; exact hbm)
    rw [hbf] at this
    exact this

theorem prepareImage_files (g : Geom) (img : Image) :
    (prepareImage g img).1.map (·.1) = if img = [] then [0] else img.map (·.1) := by
  unfold prepareImage
  split
  · rfl
  · split <;> simp

/-- **C10 (b), image form.** `n` = room left for the roll-overs of the final GC pass (`0` when it
    writes nothing): file numbers `≤ u64::MAX - n` and entries below `u64::MAX` ⇒ no panic. -/
theorem recover_no_panic_img (g : Geom) (img : Image) (policy : Policy) (order : List Bytes)
    (failAt : Option Nat) (n : Nat) (hev : NoMax (deliveredEvents g img failAt))
    (hfiles : ∀ f ∈ img.map (·.1), f + n ≤ U64MAX) (hn : n ≤ U64MAX)
    (hcount : ∀ lp e0 io, recoverPre g img policy failAt = .ok (lp, e0, io) → gcBufCount g lp order ≤ n) :
    recoverP g img policy order failAt ≠ .error () ∧
    ∀ r, recover g img policy order failAt = .ok r → accessorsPanic r.log.queues = false := by
  have := recover_no_panic g img policy order failAt hev (by
    intro lp e0 io hpre
    obtain ⟨hf, hc⟩ := recoverPre_files hpre
    have hall : ∀ f ∈ lp.files, f + n ≤ U64MAX := by
      intro f hm
      rw [hf, prepareImage_files] at hm
      split at hm
      · simp only [List.mem_singleton] at hm; subst hm; omega
      · exact hfiles f hm
    refine ⟨U64MAX - n, ⟨?_, ?_⟩, ?_⟩
    · have := hall lp.cur hc; omega
    · intro f hm; have := hall f hm; omega
    · have := hcount lp e0 io hpre; omega)
  exact ⟨this.2.1, fun r hr => (this.2.2 r hr).2⟩

/-! ### (d) the reassembly buffer is bounded by the bytes read -/

/-- payload bytes carried by frame events -/
def frameBytes : List RdEv → Nat
  | [] => 0
  | .frame _ _ p :: evs => p.length + frameBytes evs
  | .corrupt _ :: evs => frameBytes evs

def frameBytes' : List FrameEv → Nat
  | [] => 0
  | .frame _ p :: evs => p.length + frameBytes' evs
  | .corrupt :: evs => frameBytes' evs

theorem frameBytes_append (a b : List RdEv) : frameBytes (a ++ b) = frameBytes a + frameBytes b := by
  induction a with
  | nil => simp [frameBytes]
  | cons e es ih => cases e <;> simp [frameBytes, ih] <;> omega

theorem frameBytes_tag (file : Nat) (evs : List FrameEv) : frameBytes (tagEvs file evs) = frameBytes' evs := by
  induction evs with
  | nil => rfl
  | cons e es ih => cases e <;> simp [tagEvs, frameBytes, frameBytes', ih]

/-- every entry `assemble` delivers is at most the carried-over buffer plus the payloads read -/
theorem assemble_entry_len (evs : List RdEv) : ∀ (st : AsmSt) (f : Nat) (bytes : Bytes),
    RecEv.entry f bytes ∈ assemble st evs → bytes.length ≤ st.buf.length + frameBytes evs := by
  induction evs with
  | nil => intro st f bytes h; cases h
  | cons ev evs ih =>
    intro st f bytes h
    cases ev with
    | corrupt file =>
      simp only [assemble, List.mem_cons, reduceCtorEq, false_or] at h
      have := ih _ f bytes h
      simpa [frameBytes] using this
    | frame file t p =>
      simp only [assemble] at h
      have hb0 : (if t.isFirst then ([] : Bytes) else st.buf).length ≤ st.buf.length := by
        split <;> simp
      split at h
      · split at h
        · simp only [List.mem_cons, RecEv.entry.injEq] at h
          rcases h with ⟨_, rfl⟩ | h
          · simp only [List.length_append, frameBytes]; omega
          · have := ih _ f bytes h
            simp only [List.length_append, frameBytes] at this ⊢; omega
        · have := ih _ f bytes h
          simp only [List.length_append, frameBytes] at this ⊢; omega
      · have := ih _ f bytes h
        simp only [frameBytes]; omega

theorem scanBlockFrom_bytes (g : Geom) (rest : Bytes) (c : Nat) :
    frameBytes' (scanBlockFrom g rest c).1 ≤ rest.length := by
  fun_induction scanBlockFrom g rest c with
  | case1 => simp [frameBytes']
  | case2 => simp [frameBytes']
  | case3 => simp [frameBytes']
  | case4 => simp [frameBytes']
  | case5 rest c h hdr hz t ht len c1 hfit body p ev evs e hrec ih =>
    simp only [hrec] at ih
    have hev : frameBytes' [ev] ≤ p.length := by
      simp only [ev]
      split <;> simp [frameBytes']
    have hp : p.length + (body.drop len).length ≤ body.length := by
      simp only [p, List.length_take, List.length_drop]; omega
    have hbody : body.length ≤ rest.length := by simp [body, List.length_drop]
    have : frameBytes' (ev :: evs) = frameBytes' [ev] + frameBytes' evs := by
      cases ev <;> simp [frameBytes']
    rw [this]
    omega

/-- total size of a list of blocks -/
def blocksBytes (bs : List Blk) : Nat := (bs.map (·.data.length)).sum

theorem scanPrefix_bytes (g : Geom) (fa : Option Nat) (rest : List Blk) : ∀ (io : Nat) (cur : Blk) (c : Nat),
    frameBytes (scanPrefix g fa io cur c rest) ≤ blocksBytes (cur :: rest) := by
  induction rest with
  | nil =>
    intro io cur c
    have := scanBlockFrom_bytes g (cur.data.drop c) c
    unfold scanPrefix
    simp only [scanBlock, blocksBytes, List.map_cons, List.map_nil, List.sum_cons, List.sum_nil] at *
    split <;> (rename_i hs; rw [hs] at this; simp only [frameBytes_tag]; simp [List.length_drop] at this; omega)
  | cons b rest' ih =>
    intro io cur c
    have := scanBlockFrom_bytes g (cur.data.drop c) c
    have hrec := ih (io + b.cost) b 0
    unfold scanPrefix
    simp only [scanBlock, blocksBytes, List.map_cons, List.sum_cons] at *
    split
    · rename_i hs; rw [hs] at this; simp only [frameBytes_tag]; simp [List.length_drop] at this; omega
    · rename_i hs; rw [hs] at this
      split
      · simp only [frameBytes_tag]; simp [List.length_drop] at this; omega
      · simp only [frameBytes_append, frameBytes_tag]; simp [List.length_drop] at this; omega

def imageBytes (img : Image) : Nat := (img.map (·.2.length)).sum

theorem fileBlocks_bytes (g : Geom) (f fc : Nat) (n : Nat) : ∀ (content : Bytes) (i : Nat),
    blocksBytes (fileBlocks g f content fc i n) ≤ content.length := by
  induction n with
  | zero => intro content i; simp [fileBlocks, blocksBytes]
  | succ n ih =>
    intro content i
    have := ih (content.drop g.B) (i + 1)
    simp only [fileBlocks, blocksBytes, List.map_cons, List.sum_cons, List.length_take, List.length_drop] at this ⊢
    omega

theorem blocksOf_bytes (g : Geom) (img : Image) : ∀ p, blocksBytes (blocksOf g img p).1 ≤ imageBytes img := by
  induction img with
  | nil => intro p; simp [blocksOf, blocksBytes]
  | cons fc img ih =>
    intro p
    obtain ⟨f, content⟩ := fc
    simp only [blocksOf, imageBytes, List.map_cons, List.sum_cons]
    split
    · have := ih (p + 2); simp only [imageBytes] at this; omega
    · have h1 := ih 1
      have h2 := fileBlocks_bytes g f (p + 2) (content.length / g.B) content 0
      simp only [blocksBytes, imageBytes, List.map_append, List.sum_append] at h1 h2 ⊢
      omega

/-- **C10 (d).** Every entry `open` reassembles is no longer than the (prepared) image: the
    `RecordReader` buffer cannot grow beyond the bytes on disk, whatever they are. -/
theorem recover_buf_bounded (g : Geom) (img : Image) (failAt : Option Nat) (f : Nat) (bytes : Bytes)
    (h : RecEv.entry f bytes ∈ deliveredEvents g img failAt) :
    bytes.length ≤ imageBytes (prepareImage g img).1 := by
  unfold deliveredEvents at h
  split at h
  · cases h
  · rename_i b0 rest trail hb
    split at h
    · cases h
    · have h1 := assemble_entry_len _ _ f bytes h
      have h2 := scanPrefix_bytes g failAt rest b0.cost b0 0
      have h3 := blocksOf_bytes g (prepareImage g img).1 1
      rw [hb] at h3
      have h3' : blocksBytes (b0 :: rest) ≤ imageBytes (prepareImage g img).1 := h3
      simp only [List.length_nil, Nat.zero_add] at h1
      omega

/-- `replayP` is a total function: it returns on every list of events, of any length -/
theorem replayP_total (qs : MemQueues) (evs : List RecEv) :
    replayP qs evs = .error () ∨ ∃ x, replayP qs evs = .ok x := by
  cases h : replayP qs evs with
  | error u => exact .inl rfl
  | ok x => exact .inr ⟨x, rfl⟩

/-! ### (c) the hypotheses are needed (finding F4) -/

/-- a `Truncate { ..=u64::MAX }` entry on an existing queue: `truncate_up_to_pos + 1` overflows -/
theorem truncate_max_panics : replayEntryP [([1], {})] 0 (.truncate [1] U64MAX) = .error () := rfl

/-- in general: on any existing queue whose start fits a `u64` -/
theorem truncate_max_panics' (qs : MemQueues) (file : Nat) (q : Bytes) (mq : MemQueue)
    (hg : qs.get? q = some mq) (hs : mq.start ≤ U64MAX) :
    replayEntryP qs file (.truncate q U64MAX) = .error () := by
  have : truncatePanics mq U64MAX = true := by
    unfold truncatePanics
    rw [if_neg (by omega)]
    simp
  simp only [replayEntryP, hg, this, if_true]

/-- the queue an `AppendRecords` entry with a record at `u64::MAX` leaves behind -/
def poisonedQs : MemQueues := [([1], { start := U64MAX, recs := [⟨U64MAX, [7], some 0⟩] })]

/-- such an entry is replayed without panic, but poisons the queue: `open` succeeds and returns a
    log whose `last_position`/`summary` panic, as does the replay of any later append to it -/
theorem append_max_poisons :
    replayEntryP [([1], {})] 0 (.append [1] 0 [(U64MAX, [7])]) = .ok (some poisonedQs) ∧
    accessorsPanic poisonedQs = true ∧
    replayEntryP poisonedQs 0 (.append [1] 0 [(5, [])]) = .error () ∧
    replayEntryP poisonedQs 0 (.truncate [1] 5) = .ok (some poisonedQs) :=
  ⟨rfl, rfl, rfl, rfl⟩

/-- an entry that fits what is left of the block is one full frame -/
theorem entryBufsOf_one (g : Geom) (l : Log) (e : Entry)
    (hfit : Consts.HEADER_LEN + e.encode.length ≤ g.B - l.off % g.B) :
    entryBufsOf g l e = [encodeFrame .full e.encode] := by
  unfold entryBufsOf MRL.writeEntry
  rw [writeEntryBufs]
  have h1 : min (maxFrameLen g (l.off % g.B)) e.encode.length = e.encode.length := by
    unfold maxFrameLen
    simp only [Consts.HEADER_LEN] at hfit ⊢
    split <;> omega
  simp only [h1, List.drop_length, List.isEmpty_nil, List.take_length, dite_true]
  unfold frameWrites
  simp only [Consts.HEADER_LEN] at hfit ⊢
  rw [if_neg (by omega)]
  rfl

def g19 : Geom := { B := 19, K := 1, hB := by decide, hK := by decide }

/-- all file numbers below `u64::MAX`, the current file full, two empty queues -/
def lmax : Log := { files := [U64MAX - 2, U64MAX - 1], cur := U64MAX - 1, off := 19, policy := .doNothing,
                    queues := [([1], {}), ([2], {})] }

/-- **Finding.** `NoMaxFiles` alone (every file number `< u64::MAX`) does not rule out the
    file-number overflow: a GC pass that rolls over twice — here two 19-byte `RecordPosition`
    entries with 19-byte files — creates file `u64::MAX` at the first roll-over and overflows
    `*curr.file_number + 1` at the second. Hence the slack `gcBufCount` in `runGc_no_panic`. -/
theorem noMaxFiles_insufficient :
    (∀ f ∈ lmax.files, f < U64MAX) ∧ lmax.cur < U64MAX ∧ runGcPanics g19 lmax [] = true := by
  refine ⟨by decide, by decide, ?_⟩
  have hn : gcNamesOf lmax [] = [[1], [2]] := by decide
  have ht1 : touchOf lmax [1] = .touch [1] 0 := by decide
  have hb1 : entryBufsOf g19 lmax (.touch [1] 0) = [encodeFrame .full (Entry.touch [1] 0).encode] :=
    entryBufsOf_one g19 lmax _ (by decide)
  have hl : (encodeFrame .full (Entry.touch [1] 0).encode).length = 19 := by
    rw [Step.encodeFrame_length]; decide
  have hne : (encodeFrame .full (Entry.touch [1] 0).encode).isEmpty = false := by
    cases h : encodeFrame .full (Entry.touch [1] 0).encode with
    | nil => rw [h] at hl; cases hl
    | cons a b => rfl
  -- the state after the first touch: rolled over into the new file `u64::MAX`
  have hw : (lmax.writeEntry g19 (.touch [1] 0)).1 =
      { lmax with files := [U64MAX - 2, U64MAX - 1, U64MAX], cur := U64MAX, off := 19 } := by
    rw [Step.writeEntry_eq]
    show (writeBufs g19 lmax (entryBufsOf g19 lmax (.touch [1] 0))).1 = _
    rw [hb1]
    have hnf : nextFile lmax.files lmax.cur = none := by decide
    simp only [writeBufs, writeBuf, hne, hl, hnf]
    rfl
  have ht2 : touchOf { lmax with files := [U64MAX - 2, U64MAX - 1, U64MAX], cur := U64MAX, off := 19 } [2] =
      .touch [2] 0 := by decide
  have hb2 : entryBufsOf g19 { lmax with files := [U64MAX - 2, U64MAX - 1, U64MAX], cur := U64MAX, off := 19 }
      (.touch [2] 0) = [encodeFrame .full (Entry.touch [2] 0).encode] :=
    entryBufsOf_one g19 _ _ (by decide)
  have hl2 : (encodeFrame .full (Entry.touch [2] 0).encode).length = 19 := by
    rw [Step.encodeFrame_length]; decide
  have hne2 : (encodeFrame .full (Entry.touch [2] 0).encode).isEmpty = false := by
    cases h : encodeFrame .full (Entry.touch [2] 0).encode with
    | nil => rw [h] at hl2; cases hl2
    | cons a b => rfl
  simp only [runGcPanics, hn, writeTouchesPanics, ht1, hw, ht2, writeEntryPanics, hb1, hb2, writeBufsPanics,
    writeBufPanics, hne, hne2, hl, hl2]
  decide

/-! ### Non-vacuity of the no-panic theorem -/

/-- entries below the bound are accepted: the replay of an append at position 41 and a
    truncation keeps the invariant -/
example : NoMaxEntry (.append [1] 41 [(41, [7]), (42, [8])]) ∧ NoMaxEntry (.truncate [1] 41) ∧
    ¬ NoMaxEntry (.truncate [1] U64MAX) ∧ ¬ NeedsEntry (.append [1] 0 [(U64MAX, [7])]) := by
  refine ⟨⟨by decide, ?_⟩, (by decide : 41 < U64MAX), (fun h => Nat.lt_irrefl _ h), ?_⟩
  · intro r hr
    simp only [List.mem_cons, List.not_mem_nil, or_false] at hr
    rcases hr with rfl | rfl <;> decide
  · intro h
    have := h (U64MAX, [7]) List.mem_cons_self
    exact absurd this (by decide)

/-- the empty directory: `open` creates `wal-0`, nothing is replayed, nothing can overflow -/
example : NoMax (deliveredEvents g19 [] none) ∧ NoMaxFiles [] := by
  constructor
  · intro file bytes e hm hd
    have := recover_buf_bounded g19 [] none file bytes hm
    -- any delivered entry would have to be decodable from at most 19 zero bytes; in fact none is
    -- delivered: the first header is all zeros
    exfalso
    revert hm
    unfold deliveredEvents
    have hb : blocksOf g19 (prepareImage g19 []).1 1 =
        ([{ file := 0, idx := 0, data := zeros 19, cost := 3 }], 1) := by
      simp [prepareImage, blocksOf, fileBlocks, g19, Geom.fileBytes, zeros]
    rw [hb]
    simp only [ioFails, Bool.false_eq_true, if_false]
    have hs : scanPrefix g19 none 3 { file := 0, idx := 0, data := zeros 19, cost := 3 } 0 [] = [] := by
      unfold scanPrefix scanBlock
      rw [scanBlockFrom]
      simp [g19, Consts.HEADER_LEN, isAllZero, zeros, tagEvs]
    rw [hs]
    simp [assemble]
  · intro f hf; cases hf

end MRL.C10
