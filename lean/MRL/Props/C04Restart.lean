/-
C04, restart leg: automatic positions continue from the last position ever appended or
truncated-to — even after the queue has been emptied, every WAL file that mentioned it has been
deleted, AND the log has been restarted. From C01 (end to end): a restart gives back the same next
position for every queue, so the monotonicity and freshness theorems of C04 go through restarts.
-/
import MRL.Proofs.StepRestart
import MRL.Props.C04
import MRL.Props.C08

namespace MRL.C04R
open MRL Log C01R C01J Restart

variable {g : Geom} {cap : Nat}

/-- **A restart keeps every queue's next position.** -/
theorem C04_restart_next (g : Geom) (hB : g.B ≤ 65542) (cap : Nat) (l : Log) (J : List JE) (img : Image)
    (b : BufSt) (h : ReachD g cap l J img b) (hfits : ∀ j ∈ J, C07.WF j.e) (policy : Policy)
    (order : List Bytes) (r : Recovered) (hr : recover g (flushDisk img b) policy order none = .ok r)
    (q : Bytes) : C04.nextOf r.log q = C04.nextOf l q := by
  obtain ⟨r', hr', hq⟩ := C01_restart_exact g hB cap l J img b h hfits policy order
  rw [hr] at hr'
  simp only [Except.ok.injEq] at hr'
  subst hr'
  have := qsEquiv_iff.mp hq q
  unfold C04.nextOf
  cases h1 : r.log.queues.get? q <;> cases h2 : l.queues.get? q <;> rw [h1, h2] at this
  · exact this.elim
  · exact this.elim
  · simp only [Option.map_some, Option.some.injEq]; exact this.2

/-- the same on system states -/
theorem reopens_next (hB : g.B ≤ 65542) {s s' : Sys} (h : Reach g cap s) (hwf : WFJ s) {policy : Policy}
    {order : List Bytes} (hr : Reopens g cap s policy order s') (q : Bytes) :
    C04.nextOf s'.l q = C04.nextOf s.l q := by
  obtain ⟨lp, e0, io, r, _, hrec, rfl⟩ := hr
  exact C04_restart_next g hB cap s.l s.J s.img s.b h hwf policy order r hrec q

/-- **C04 across a restart.** The first effective append after a restart gets fresh consecutive
    positions starting at or above the next position the queue had BEFORE the restart, on top of
    the records it had before the restart. -/
theorem C04_restart_append_fresh (g : Geom) (hB : g.B ≤ 65542) (cap : Nat) (l : Log) (J : List JE)
    (img : Image) (b : BufSt) (h : ReachD g cap l J img b) (hfits : ∀ j ∈ J, C07.WF j.e)
    (policy : Policy) (order : List Bytes) (r : Recovered)
    (hr : recover g (flushDisk img b) policy order none = .ok r)
    (tick : Bool) (order' : List Bytes) (q : Bytes) (pos : Option Nat) (pls : List Bytes) (last w : Nat)
    (mq : MemQueue) (hg : l.queues.get? q = some mq)
    (hout : (Log.step g r.log (.append q pos pls) tick order').2.1 = .appended (some last) w) :
    ∃ mq' p, (Log.step g r.log (.append q pos pls) tick order').1.queues.get? q = some mq' ∧
      mq.nextPosition ≤ p ∧
      mq'.abs.recs = mq.abs.recs ++ numberFrom p pls ∧
      (numberFrom p pls).map (·.1) = List.range' p pls.length ∧
      last + 1 = mq'.nextPosition := by
  obtain ⟨mqr, hgr, hrecs, hnext⟩ := C01_no_loss g hB cap l J img b h hfits policy order r hr q mq hg
  have hI := C08.recover_sorted g _ policy order none r hr
  obtain ⟨mq', p, h1, h2, h3, h4, h5⟩ :=
    C04.C04_model_append_fresh g r.log hI tick order' q pos pls last w mqr hgr hout
  refine ⟨mq', p, h1, by omega, ?_, h4, h5⟩
  rw [h3]
  unfold MemQueue.abs
  rw [hrecs]

/-! ### along whole derivations -/

/-- `s'` is reached from `s` by calls other than `delete q` and by restarts -/
inductive Later (g : Geom) (cap : Nat) (q : Bytes) (s : Sys) : Sys → Prop
  | refl : Later g cap q s s
  | step {t : Sys} (c : Call) (tick : Bool) (order : List Bytes) :
      Later g cap q s t → c ≠ .delete q → Later g cap q s (t.step g cap c tick order)
  | reopen {t t' : Sys} (policy : Policy) (order : List Bytes) :
      Later g cap q s t → Reopens g cap t policy order t' → Later g cap q s t'

theorem Later.reach {q : Bytes} {s s' : Sys} (hl : Later g cap q s s') (h : Reach g cap s) : Reach g cap s' := by
  induction hl with
  | refl => exact h
  | step c tick order _ _ ih => exact ih.step c tick order
  | reopen policy order _ hr ih => exact ih.reopen hr

/-- **C04 along any derivation, restarts included**: as long as `q` is not deleted, its next
    position never decreases — whatever is appended, truncated, garbage-collected or restarted. -/
theorem C04_reach_next_mono (hB : g.B ≤ 65542) (q : Bytes) {s s' : Sys} (h : Reach g cap s)
    (hl : Later g cap q s s') (hwf : WFJ s') (n : Nat) (hn : C04.nextOf s.l q = some n) :
    ∃ n', C04.nextOf s'.l q = some n' ∧ n ≤ n' := by
  induction hl with
  | refl => exact ⟨n, hn, Nat.le_refl _⟩
  | @step t c tick order hl hc ih =>
    have hwft : WFJ t := fun j hj => hwf j (List.mem_append_left _ hj)
    obtain ⟨n1, h1, hle⟩ := ih hwft
    have hI := (hl.reach h).inv hB hwft
    obtain ⟨n2, h2, hle2⟩ := C04.C04_model_next_mono g t.l hI c tick order q n1 hc h1
    exact ⟨n2, h2, Nat.le_trans hle hle2⟩
  | @reopen t t' policy order hl hr ih =>
    have hwft : WFJ t := WFJ.of_reopen hr hwf
    obtain ⟨n1, h1, hle⟩ := ih hwft
    exact ⟨n1, by rw [reopens_next hB (hl.reach h) hwft hr]; exact h1, hle⟩

/-- non-vacuity: from the first `open` of an empty directory, create `q`, restart: the next
    position of `q` is still there (and the restart exists) -/
example (hB : g.B ≤ 65542) (q : Bytes) (s : Sys) (h : Reach g cap s)
    (hwf : WFJ (s.step g cap (.create q) false [])) :
    ∃ s', Reopens g cap (s.step g cap (.create q) false []) .doNothing [] s' ∧
      C04.nextOf s'.l q = C04.nextOf (s.step g cap (.create q) false []).l q := by
  obtain ⟨s', hs'⟩ := reopens_exists hB (h.step (.create q) false []) hwf .doNothing []
  exact ⟨s', hs', reopens_next hB (h.step _ _ _) hwf hs' q⟩

end MRL.C04R
