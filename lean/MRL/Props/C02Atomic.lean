/-
C02 (model level) — a crash at ANY instant is atomic.

FULL STATEMENT (as posed). Take a reachable (log, journal, OS image, `BufWriter`) quadruple
`C01R.ReachD g cap l J img b` at a call boundary under a flush-per-operation policy (`b.pend = []`)
and any API call `c`. Let `ops` be the OS operations the call issues through the `BufWriter`. For
EVERY prefix length `k` (also past the end) and EVERY byte cut of operation `k`, opening the
directory `crashImage img ops k cut` succeeds and yields the queues of `l` (none of the call) or of
the log after the call (all of it):

    ∃ rec, recover g (crashImage img ops k cut) policy' order' none = .ok rec ∧
      (QsEquiv rec.log.queues l.queues ∨ QsEquiv rec.log.queues (l.step g c tick order).1.queues)

assuming `g.B ≤ 65542`, serialisable journal entries (`C07.WF`) and the CRC collision clause for
the frames of THIS call (`TornStep`).

WHAT IS PROVED.
* `C02_crash_atomic_exact`: the statement above, with `QsEquiv` (names, positions, payloads, FILE
  HANDLES, next positions), for every crash point at which no `unlink` has been issued yet
  (every byte of every write, the roll-over windows: next file absent / created empty /
  zero-filled, the GC touches, the flush/fsync operations).
* `C02_crash_atomic`: for EVERY crash point, the same with `AbsEq` instead of `QsEquiv`: same
  names, positions, payloads and next positions — the abstraction of C05 — the file handles
  being left out.
* FINDING (why `QsEquiv` is weakened during the unlinks): when an entry spans a whole WAL file
  (an entry longer than `fileBytes`), a crash between two `unlink`s of one GC pass can leave as
  first file a file that lies entirely inside that entry. `open` attributes the first entry it
  reads to the first file present, so the recovered handle of its records is that file instead of
  the file where the entry actually starts (`some 3`/`some 4` instead of `some 5` below). Records,
  positions and next positions are unaffected and the handle errs on the safe side (it pins an
  EARLIER file, and files are deleted in order). Witness (`g = ⟨16, 2⟩`, `cap = 16`, policy
  `Always(Flush)`; evaluated with `#eval`, the kernel cannot run the writer):
  `create [1]; create [2]; append [1] [7 × 40]; append [1] [[9]]` then `truncate [1] ..=0` issues
  `… unlink 0, unlink 1, unlink 2, unlink 3, unlink 4`; crashing after `unlink 2` (resp.
  `unlink 3`) recovers queue `[1]` as `{pos 1, payload [9], file := some 3}` (resp. `some 4`)
  whereas the live log — and a crash-free restart — have `file := some 5`.
* `C02_second_crash` / `C02_second_crash_exact`: the same two statements for a crash during the
  OS operations of `recover` itself (its GC pass) on any reachable flushed disk; the exact form is
  stated for every cut state of the effects before the first `unlink`.
* `C02_recovered_usable_partial`, `clean_crash_points`: the recovered log is fully usable — proved
  for every disk that carries the invariant `CInv` (all reachable flushed disks, and the crash
  images equal to the disk before the call or after its last operation); see there for what is
  not covered.
The whole analysis rests on `H.crash_cut` (MRL/Proofs/HBufCrash.lean): every `crashImage` of the
`BufWriter`'s OS operations is the direct application of a prefix of the effects, the last write cut
at any byte — whatever the capacity `cap` and however the buffer re-chunks the writes.
-/
import MRL.Proofs.HSecond
import MRL.Props.C01Restart

namespace MRL.C02A
open MRL Log C05 C01J G H Buf Codec

/-- the collision clause for the frames written by the call -/
def TornStep (g : Geom) (l : Log) (c : Call) (tick : Bool) (order : List Bytes) : Prop :=
  TornEffs (l.step g c tick order).2.2

/-- equality of queue maps up to the file handles -/
abbrev AbsEq := H.AbsEq

theorem flushDisk_of_empty (img : Image) (b : BufSt) (hb : b.pend = []) : C01R.flushDisk img b = img := by
  simp [C01R.flushDisk, G.flushDisk, flushOps_nil b hb, applyOsOps]

/-- every crash image of the call, as a cut state of its effects -/
theorem crash_is_cut (g : Geom) (hB : g.B ≤ 65542) (cap : Nat) {l : Log} {J : List JE} {img : Image}
    {b : BufSt} (h : C01R.ReachD g cap l J img b) (hwf : ∀ j ∈ J, C07.WF j.e) (hb : b.pend = [])
    (c : Call) (tick : Bool) (order : List Bytes) (k cut : Nat) :
    CInv g l J img ∧
    CutState img (l.step g c tick order).2.2
      (crashImage img (toOsOps cap b (l.step g c tick order).2.2).2 k cut) := by
  have hr := C01R.reach_rinv g hB cap h hwf
  have hc := hr.c
  rw [flushDisk_of_empty img b hb] at hc
  obtain ⟨st, hinv, hclean⟩ := hr.buf
  obtain ⟨st', hrun, _⟩ := C14.step_Disc g l c tick order st hclean
  have := crash_cut cap _ b st st' img hinv hrun k cut
  rw [pendW_nil b hb, List.nil_append] at this
  exact ⟨hc, this⟩

/-- **C02, every crash point** (queues up to the file handles) -/
theorem C02_crash_atomic (g : Geom) (hB : g.B ≤ 65542) (cap : Nat) (l : Log) (J : List JE) (img : Image)
    (b : BufSt) (h : C01R.ReachD g cap l J img b) (hb : b.pend = []) (c : Call) (tick : Bool)
    (order : List Bytes) (hfits : ∀ j ∈ J ++ l.stepJ g c order, C07.WF j.e)
    (htorn : TornStep g l c tick order) (k cut : Nat) (policy' : Policy) (order' : List Bytes) :
    ∃ rec, recover g (crashImage img (toOsOps cap b (l.step g c tick order).2.2).2 k cut) policy' order' none = .ok rec ∧
      (AbsEq rec.log.queues l.queues ∨ AbsEq rec.log.queues (l.step g c tick order).1.queues) := by
  have hwfJ : ∀ j ∈ J, C07.WF j.e := fun j hj => hfits j (List.mem_append_left _ hj)
  obtain ⟨hc, hX⟩ := crash_is_cut g hB cap h hwfJ hb c tick order k cut
  obtain ⟨A, U, S, heff, _, hS, hpre, habs, hfin⟩ := step_decomp g hB hc c tick order hfits htorn
  -- from a `recoverPre` result to the statement
  have fin : ∀ X, (∀ policy, ∃ lp e0 io, recoverPre g X policy none = .ok (lp, e0, io) ∧
      (AbsEq lp.queues l.queues ∨ AbsEq lp.queues (l.step g c tick order).1.queues)) →
      ∃ rec, recover g X policy' order' none = .ok rec ∧
        (AbsEq rec.log.queues l.queues ∨ AbsEq rec.log.queues (l.step g c tick order).1.queues) := by
    intro X hXr
    obtain ⟨lp, e0, io, hrec, hq⟩ := hXr policy'
    obtain ⟨r, hr, hrq⟩ := recover_of_pre g X policy' order' lp e0 io hrec
    exact ⟨r, hr, by rw [hrq]; exact hq⟩
  have ofPre : ∀ X, PreRes g l.queues (l.step g c tick order).1.queues X →
      ∀ policy, ∃ lp e0 io, recoverPre g X policy none = .ok (lp, e0, io) ∧
      (AbsEq lp.queues l.queues ∨ AbsEq lp.queues (l.step g c tick order).1.queues) := by
    intro X hp policy
    obtain ⟨lp, e0, io, hrec, hq⟩ := hp policy
    exact ⟨lp, e0, io, hrec, hq.imp AbsEq.of_qsEquiv AbsEq.of_qsEquiv⟩
  apply fin
  generalize crashImage img (toOsOps cap b (l.step g c tick order).2.2).2 k cut = X at hX ⊢
  rw [heff] at hX
  rcases CutState.of_append _ hX with hX | hX
  · rcases CutState.of_append _ hX with hX | hX
    · exact ofPre _ (hpre _ hX)
    · obtain ⟨k'', hk, hXe⟩ := cut_unlinks U hX
      rw [hXe]
      cases k'' with
      | zero =>
        simp only [List.take_zero, List.map_nil, applyOsOps, List.foldl_nil]
        exact ofPre _ (hpre _ (CutState.full A img))
      | succ k'' =>
        intro policy
        obtain ⟨lp, e0, io, hrec, hq⟩ := habs (k'' + 1) (Nat.succ_pos _) hk policy
        exact ⟨lp, e0, io, hrec, Or.inr hq⟩
  · have hXe := cut_syncL hS hX
    rw [hXe]
    have : applyOsOps img (directOps (A ++ U.map Effect.unlink)) =
        applyOsOps img (directOps (l.step g c tick order).2.2) := by
      rw [heff, directOps_append (A ++ U.map Effect.unlink), applyOsOps_append, syncL_apply hS]
    rw [this]
    exact ofPre _ hfin

/-- no `unlink` among the OS operations issued for effects without `unlink` -/
theorem toOsOps_no_unlink (cap : Nat) (es : List Effect) (hes : ∀ f, Effect.unlink f ∉ es) :
    ∀ (b : BufSt) (f : Nat), OsOp.unlink f ∉ (toOsOps cap b es).2 := by
  induction es with
  | nil => intro b f hf; simp [toOsOps] at hf
  | cons e es ih =>
    intro b f hf
    rw [toOsOps_cons] at hf
    simp only [List.mem_append] at hf
    rcases hf with hf | hf
    · cases e with
      | unlink f' =>
        simp only [bufStep, List.mem_singleton, OsOp.unlink.injEq] at hf
        subst hf
        exact hes f List.mem_cons_self
      | write f' off d =>
        rw [bufStep_write] at hf
        unfold BufSt.flushOps at hf
        split at hf <;> (try split at hf) <;> (try split at hf) <;> (try split at hf) <;> simp at hf
      | flush => simp only [bufStep, BufSt.flushOps] at hf; split at hf <;> simp at hf
      | _ => simp [bufStep] at hf
    · exact ih (fun f' hf' => hes f' (List.mem_cons_of_mem _ hf')) _ f hf

/-- **C02, before the unlinks** (queues with their file handles): for every crash point at which
    no `unlink` has been issued -/
theorem C02_crash_atomic_exact (g : Geom) (hB : g.B ≤ 65542) (cap : Nat) (l : Log) (J : List JE)
    (img : Image) (b : BufSt) (h : C01R.ReachD g cap l J img b) (hb : b.pend = []) (c : Call) (tick : Bool)
    (order : List Bytes) (hfits : ∀ j ∈ J ++ l.stepJ g c order, C07.WF j.e)
    (htorn : TornStep g l c tick order) (k cut : Nat)
    (hnu : ∀ f, OsOp.unlink f ∉ ((toOsOps cap b (l.step g c tick order).2.2).2).take k)
    (policy' : Policy) (order' : List Bytes) :
    ∃ rec, recover g (crashImage img (toOsOps cap b (l.step g c tick order).2.2).2 k cut) policy' order' none = .ok rec ∧
      (QsEquiv rec.log.queues l.queues ∨ QsEquiv rec.log.queues (l.step g c tick order).1.queues) := by
  have hwfJ : ∀ j ∈ J, C07.WF j.e := fun j hj => hfits j (List.mem_append_left _ hj)
  have hr := C01R.reach_rinv g hB cap h hwfJ
  have hc := hr.c
  rw [flushDisk_of_empty img b hb] at hc
  obtain ⟨st, hinv, hclean⟩ := hr.buf
  obtain ⟨st', hrun, _⟩ := C14.step_Disc g l c tick order st hclean
  obtain ⟨A, U, S, heff, hAnu, hS, hpre, _, hfin⟩ := step_decomp g hB hc c tick order hfits htorn
  have fin : ∀ X, PreRes g l.queues (l.step g c tick order).1.queues X →
      ∃ rec, recover g X policy' order' none = .ok rec ∧
        (QsEquiv rec.log.queues l.queues ∨ QsEquiv rec.log.queues (l.step g c tick order).1.queues) := by
    intro X hXr
    obtain ⟨lp, e0, io, hrec, hq⟩ := hXr policy'
    obtain ⟨r, hr, hrq⟩ := recover_of_pre g X policy' order' lp e0 io hrec
    exact ⟨r, hr, by rw [hrq]; exact hq⟩
  apply fin
  cases U with
  | nil =>
    -- the call unlinks nothing
    have hX := crash_cut cap _ b st st' img hinv hrun k cut
    rw [pendW_nil b hb, List.nil_append] at hX
    generalize crashImage img (toOsOps cap b (l.step g c tick order).2.2).2 k cut = X at hX ⊢
    rw [heff] at hX
    simp only [List.map_nil, List.append_nil] at hX heff
    rcases CutState.of_append _ hX with hX | hX
    · exact hpre _ hX
    · have hXe := cut_syncL hS hX
      rw [hXe]
      have : applyOsOps img (directOps A) = applyOsOps img (directOps (l.step g c tick order).2.2) := by
        rw [heff, directOps_append, applyOsOps_append, syncL_apply hS]
      rw [this]; exact hfin
  | cons f0 U' =>
    -- the crash point lies in the part before the first unlink
    have heff2 : (l.step g c tick order).2.2 = A ++ (Effect.unlink f0 :: (U'.map Effect.unlink ++ S)) := by
      rw [heff]; simp
    rw [heff2] at hrun hnu ⊢
    rw [run_append] at hrun
    cases hrA : run st A with
    | none => rw [hrA] at hrun; cases hrun
    | some stA =>
      rw [toOsOps_append] at hnu ⊢
      simp only at hnu ⊢
      rw [toOsOps_cons] at hnu ⊢
      have hbs : (bufStep cap (toOsOps cap b A).1 (Effect.unlink f0)).2 = [OsOp.unlink f0] := rfl
      rw [hbs] at hnu ⊢
      have hk : k ≤ (toOsOps cap b A).2.length := by
        apply Classical.byContradiction
        intro hn
        apply hnu f0
        rw [List.take_append, List.take_of_length_le (by omega)]
        apply List.mem_append_right
        have : k - (toOsOps cap b A).2.length = (k - (toOsOps cap b A).2.length - 1) + 1 := by omega
        rw [this]
        simp
      have hXA : crashImage img ((toOsOps cap b A).2 ++ ([OsOp.unlink f0] ++
          (toOsOps cap (bufStep cap (toOsOps cap b A).1 (Effect.unlink f0)).1 (U'.map Effect.unlink ++ S)).2)) k cut =
          crashImage img (toOsOps cap b A).2 k cut := by
        by_cases hlt : k < (toOsOps cap b A).2.length
        · exact crashImage_append_lt _ _ _ _ _ hlt
        · have hke : k = (toOsOps cap b A).2.length := by omega
          rw [crashImage_append_ge _ _ _ _ _ (by omega), hke, Nat.sub_self]
          simp [crashImage, applyOsOps]
      rw [hXA]
      have hX := crash_cut cap A b st stA img hinv hrA k cut
      rw [pendW_nil b hb, List.nil_append] at hX
      exact hpre _ hX

/-! ### a crash during the effects of `recover` itself -/

/-- the effects of `open` on a reachable flushed disk, and the crash states of its OS operations -/
theorem second_cut (g : Geom) (hB : g.B ≤ 65542) (cap : Nat) {l : Log} {J : List JE} {D : Image}
    (hc : CInv g l J D) (hwfJ : ∀ j ∈ J, C07.WF j.e) (policy : Policy) (order : List Bytes) (lp : Log)
    (e0 : List Effect) (io : Nat) (rec : Recovered)
    (hpre : recoverPre g D policy none = .ok (lp, e0, io))
    (hrec : recover g D policy order none = .ok rec) (k cut : Nat) :
    CInv g lp J D ∧ QsEquiv lp.queues l.queues ∧
    rec.effects = [.ensureLen (l.files.headD 0) g.fileBytes] ++ (runGc g lp order).2.1 ∧
    CutState D (runGc g lp order).2.1 (crashImage D (toOsOps cap {} rec.effects).2 k cut) := by
  obtain ⟨lp', io', r', hpre', hrec', hlog, heff, hc', hq, _, _⟩ := recover_ok g hB hc hwfJ policy order
  rw [hpre] at hpre'
  simp only [Except.ok.injEq, Prod.mk.injEq] at hpre'
  obtain ⟨rfl, _, _⟩ := hpre'
  rw [hrec] at hrec'
  simp only [Except.ok.injEq] at hrec'
  subst hrec'
  refine ⟨hc', hq, heff, ?_⟩
  obtain ⟨st', hrun, _⟩ := C14.runGc_Disc g lp order none (Or.inl rfl)
  have hrun' : Buf.run none ([Effect.ensureLen (l.files.headD 0) g.fileBytes] ++ (runGc g lp order).2.1) =
      some st' := by
    simp only [List.cons_append, List.nil_append, Buf.run, Buf.run1, if_true, Option.bind_some]
    exact hrun
  have hX := crash_cut cap _ {} none st' D (Buf.inv_empty cap none) hrun' k cut
  have hn : pendW ({} : BufSt) = [] := rfl
  rw [hn, List.nil_append, ← heff] at hX
  generalize crashImage D (toOsOps cap {} rec.effects).2 k cut = X at hX ⊢
  rw [heff] at hX
  have hens : applyOsOps D (direct (Effect.ensureLen (l.files.headD 0) g.fileBytes)) = D := by
    simp only [direct, applyOsOps, List.foldl_cons, List.foldl_nil]
    apply ensureLen_full
    intro kv hkv _
    rw [C01R.DInvF_full hc.disk kv hkv]; omega
  rcases hX.cons_inv with h1 | ⟨_, _, _, _, hw, _⟩ | h1
  · rw [h1]; exact .stop _ _
  · cases hw
  · rw [hens] at h1; exact h1

/-- **C02, second crash** (every crash point; queues up to the file handles): a crash during the
    OS operations of `open` itself — its GC pass — on any reachable flushed disk -/
theorem C02_second_crash (g : Geom) (hB : g.B ≤ 65542) (cap : Nat) (l : Log) (J : List JE) (img : Image)
    (b : BufSt) (h : C01R.ReachD g cap l J img b) (policy : Policy) (order : List Bytes) (lp : Log)
    (e0 : List Effect) (io : Nat) (rec : Recovered)
    (hpre : recoverPre g (C01R.flushDisk img b) policy none = .ok (lp, e0, io))
    (hrec : recover g (C01R.flushDisk img b) policy order none = .ok rec)
    (hfits : ∀ j ∈ J ++ gcJ g lp order, C07.WF j.e) (htorn : TornEffs rec.effects)
    (k cut : Nat) (policy' : Policy) (order' : List Bytes) :
    ∃ rec', recover g (crashImage (C01R.flushDisk img b) (toOsOps cap {} rec.effects).2 k cut)
        policy' order' none = .ok rec' ∧ AbsEq rec'.log.queues l.queues := by
  have hwfJ : ∀ j ∈ J, C07.WF j.e := fun j hj => hfits j (List.mem_append_left _ hj)
  have hr := C01R.reach_rinv g hB cap h hwfJ
  obtain ⟨hc', hq, heff, hX⟩ := second_cut g hB cap hr.c hwfJ policy order lp e0 io rec hpre hrec k cut
  obtain ⟨A, U, hgeff, _, hpreA, habs, hfin⟩ := gc_decomp g hB hc' order hfits
    (htorn.mono (by intro v hv; rw [heff]; exact List.mem_append_right _ hv))
  have fin : ∀ X, (∀ policy, ∃ lp' e0' io', recoverPre g X policy none = .ok (lp', e0', io') ∧
      AbsEq lp'.queues lp.queues) →
      ∃ rec', recover g X policy' order' none = .ok rec' ∧ AbsEq rec'.log.queues l.queues := by
    intro X hXr
    obtain ⟨lp', e0', io', hrec', hq'⟩ := hXr policy'
    obtain ⟨r, hr', hrq⟩ := recover_of_pre g X policy' order' lp' e0' io' hrec'
    exact ⟨r, hr', by rw [hrq]; exact hq'.trans (AbsEq.of_qsEquiv hq)⟩
  apply fin
  generalize crashImage (C01R.flushDisk img b) (toOsOps cap {} rec.effects).2 k cut = X at hX ⊢
  rw [hgeff] at hX
  rcases CutState.of_append _ hX with hX | hX
  · intro pol
    obtain ⟨lp', e0', io', h1, h2⟩ := hpreA X hX pol
    exact ⟨lp', e0', io', h1, AbsEq.of_qsEquiv h2⟩
  · obtain ⟨k'', hk, hXe⟩ := cut_unlinks U hX
    rw [hXe]
    cases k'' with
    | zero =>
      simp only [List.take_zero, List.map_nil, applyOsOps, List.foldl_nil]
      intro pol
      obtain ⟨lp', e0', io', h1, h2⟩ := hpreA _ (CutState.full A _) pol
      exact ⟨lp', e0', io', h1, AbsEq.of_qsEquiv h2⟩
    | succ k'' => exact habs (k'' + 1) (Nat.succ_pos _) hk

/-- **C02, second crash, before the unlinks** (queues with their file handles) -/
theorem C02_second_crash_exact (g : Geom) (hB : g.B ≤ 65542) (cap : Nat) (l : Log) (J : List JE)
    (img : Image) (b : BufSt) (h : C01R.ReachD g cap l J img b) (policy : Policy) (order : List Bytes)
    (lp : Log) (e0 : List Effect) (io : Nat) (rec : Recovered)
    (hpre : recoverPre g (C01R.flushDisk img b) policy none = .ok (lp, e0, io))
    (hrec : recover g (C01R.flushDisk img b) policy order none = .ok rec)
    (hfits : ∀ j ∈ J ++ gcJ g lp order, C07.WF j.e) (htorn : TornEffs rec.effects)
    (X : Image) (hX : ∃ (A : List Effect) (U : List Nat), (runGc g lp order).2.1 = A ++ U.map Effect.unlink ∧
      (∀ f, Effect.unlink f ∉ A) ∧ CutState (C01R.flushDisk img b) A X)
    (policy' : Policy) (order' : List Bytes) :
    ∃ rec', recover g X policy' order' none = .ok rec' ∧ QsEquiv rec'.log.queues l.queues := by
  have hwfJ : ∀ j ∈ J, C07.WF j.e := fun j hj => hfits j (List.mem_append_left _ hj)
  have hr := C01R.reach_rinv g hB cap h hwfJ
  obtain ⟨hc', hq, heff, _⟩ := second_cut g hB cap hr.c hwfJ policy order lp e0 io rec hpre hrec 0 0
  obtain ⟨A', U', hgeff, hnoA', hpreA, _, _⟩ := gc_decomp g hB hc' order hfits
    (htorn.mono (by intro v hv; rw [heff]; exact List.mem_append_right _ hv))
  obtain ⟨A, U, hAU, hnoA, hXA⟩ := hX
  -- both decompositions split the effects at the first unlink
  have hAA : ∃ R, A' = A ++ R := by
    rw [hgeff] at hAU
    rcases List.append_eq_append_iff.mp hAU with ⟨a', h1, h2⟩ | ⟨c', h1, h2⟩
    · -- A = A' ++ a', with a' a prefix of the unlinks: a' = []
      cases a' with
      | nil => exact ⟨[], by simpa using h1.symm⟩
      | cons x xs =>
        exfalso
        have hx : x ∈ U'.map Effect.unlink := by rw [h2]; simp
        obtain ⟨f, _, rfl⟩ := List.mem_map.mp hx
        exact hnoA f (by rw [h1]; simp)
    · exact ⟨c', h1⟩
  obtain ⟨R, hR⟩ := hAA
  have hXA' : CutState (C01R.flushDisk img b) A' X := by rw [hR]; exact hXA.append_left R
  obtain ⟨lp', e0', io', h1, h2⟩ := hpreA X hXA' policy'
  obtain ⟨r, hr', hrq⟩ := recover_of_pre g X policy' order' lp' e0' io' h1
  exact ⟨r, hr', by rw [hrq]; exact h2.trans hq⟩

/-! ### the recovered log is fully usable (partial) -/

/-- **C02, usability (partial).** `CInv g l J D` (MRL/Proofs/GRestart.lean) is the invariant from
    which everything is derived: `C01_restart_exact` (`G.recover_ok`), preservation by calls
    (`G.cinv_step`) and by restarts (below), and the crash atomicity of the next call
    (`H.step_decomp`, `C02_crash_atomic`). This theorem shows that a restart on ANY disk carrying
    the invariant — reachable or obtained after a crash — re-establishes it for the log `open`
    returns, the journal extended by `open`'s GC touches, and the disk `open` leaves. Together
    with `clean_crash_points` it gives: after a crash at a point that leaves no remnant on the
    tape (before the call's first byte, or after its last operation), the recovered log is
    indistinguishable from one that never crashed: further calls, restarts and crashes behave as
    proved for reachable states.
    NOT covered (what `_partial` misses): crash images with a torn remnant (a corrupt frame or torn
    header stays on the tape; the reader skips it but the layout invariant `FLay` does not
    describe it), crash images with the next file pre-created, and crash images in the middle of
    the unlinks (for these only the queues are characterised, by `C02_crash_atomic`). -/
theorem C02_recovered_usable_partial (g : Geom) (hB : g.B ≤ 65542) (cap : Nat) {lm : Log} {Jm : List JE}
    {X : Image} (hX : CInv g lm Jm X) (hwf : ∀ j ∈ Jm, C07.WF j.e) (policy : Policy) (order : List Bytes) :
    ∃ lp io rec, recoverPre g X policy none = .ok (lp, [.ensureLen (lm.files.headD 0) g.fileBytes], io) ∧
      recover g X policy order none = .ok rec ∧
      CInv g lp Jm X ∧ QsEquiv lp.queues lm.queues ∧
      CInv g rec.log (Jm ++ gcJ g lp order)
        (G.flushDisk (applyOsOps X (toOsOps cap {} rec.effects).2) (toOsOps cap {} rec.effects).1) ∧
      BufOK cap rec.log (toOsOps cap {} rec.effects).1 := by
  obtain ⟨lp, io, rec, hpre, hrec, hlog, heff, hc, hq, _, _⟩ := recover_ok g hB hX hwf policy order
  refine ⟨lp, io, rec, hpre, hrec, hc, hq, ?_⟩
  rw [hlog, heff]
  obtain ⟨st', hrun, hclean'⟩ := C14.runGc_Disc g lp order none (Or.inl rfl)
  have hrun' : Buf.run none ([Effect.ensureLen (lm.files.headD 0) g.fileBytes] ++ (runGc g lp order).2.1) =
      some st' := by
    simp only [List.cons_append, List.nil_append, Buf.run, Buf.run1, if_true, Option.bind_some]
    exact hrun
  obtain ⟨hfl, hinv'⟩ := flushDisk_toOsOps cap X {} _ none st' (Buf.inv_empty cap none) hrun'
  refine ⟨?_, st', hinv', hclean'⟩
  rw [hfl]
  have hD : G.flushDisk X {} = X := rfl
  rw [hD, Buf.directOps_append, Buf.applyOsOps_append]
  have hens : applyOsOps X (Buf.directOps [Effect.ensureLen (lm.files.headD 0) g.fileBytes]) = X := by
    simp only [Buf.directOps, List.flatMap_cons, List.flatMap_nil, Buf.direct, List.append_nil,
      applyOsOps, List.foldl_cons, List.foldl_nil]
    apply ensureLen_full
    intro kv hkv _
    rw [C01R.DInvF_full hX.disk kv hkv]; omega
  rw [hens]
  exact cinv_gc g hc order

/-- the disk before the call and the (flushed) disk after its last operation carry the
    invariant, with the log before, resp. after, the call; every `k` past the last operation
    gives the latter -/
theorem clean_crash_points (g : Geom) (hB : g.B ≤ 65542) (cap : Nat) (l : Log) (J : List JE) (img : Image)
    (b : BufSt) (h : C01R.ReachD g cap l J img b) (hb : b.pend = []) (c : Call) (tick : Bool)
    (order : List Bytes) (hfits : ∀ j ∈ J ++ l.stepJ g c order, C07.WF j.e) :
    CInv g l J img ∧
    CInv g (l.step g c tick order).1 (J ++ l.stepJ g c order)
      (applyOsOps img (directOps (l.step g c tick order).2.2)) ∧
    (∀ k cut, (toOsOps cap b (l.step g c tick order).2.2).2.length ≤ k →
      G.flushDisk (crashImage img (toOsOps cap b (l.step g c tick order).2.2).2 k cut)
        (toOsOps cap b (l.step g c tick order).2.2).1 =
        applyOsOps img (directOps (l.step g c tick order).2.2)) := by
  have hwfJ : ∀ j ∈ J, C07.WF j.e := fun j hj => hfits j (List.mem_append_left _ hj)
  have hr := C01R.reach_rinv g hB cap h hwfJ
  have hc := hr.c
  rw [flushDisk_of_empty img b hb] at hc
  obtain ⟨st, hinv, hclean⟩ := hr.buf
  obtain ⟨st', hrun, _⟩ := C14.step_Disc g l c tick order st hclean
  refine ⟨hc, cinv_step g hc c tick order, ?_⟩
  intro k cut hk
  have hfl := (flushDisk_toOsOps cap img b _ st st' hinv hrun).1
  have hD : G.flushDisk img b = img := flushDisk_of_empty img b hb
  rw [hD] at hfl
  rw [← hfl]
  simp only [crashImage]
  rw [List.take_of_length_le hk]
  have : (toOsOps cap b (l.step g c tick order).2.2).2[k]? = none := by
    rw [List.getElem?_eq_none_iff]; exact hk
  rw [this]

end MRL.C02A
