/-
Non-vacuity, round 3: more crash-level theorems instantiated on concrete states, with their
hypotheses discharged and their conclusions evaluated. Reuses history 1 (`NonVacuityHistory.lean`:
`reach5`, the second crash `X2`/`R2`, the state `S*` = `reachS`), the crash-free history 2
(`NonVacuity2.lean`: `reachT`) and the `Twin` evaluation machinery. Everything is proved by kernel
evaluation (`decide +kernel` after the `Twin` rewriting); nothing is "evaluated, not proved".

 1. `nv3_C03PD`, `nv3_C03PD_forced`, `nv3_C03PD_image`, `lateK`, `nrK`: `C03PD.C03_posix_dir_calls` on a
    history with pending unlinks, at a hard instant (`lateSync = true`, 2 pending unlinks, `u = 0`).
 2. `nv3_C04` (+ `_eval`): `CX.C04X_crash_then_append_fresh` on the second crash of history 1;
    `nv3_C18` (+ `_eval`): `CX.C18X_crash_projection` after a third crash, with a second queue "b".
 3. `reachTF` (a `C07F.ReachDF` derivation of history 2: `CallFits`, `CallBelow`, record budget
    discharged), `nv3_C07_inv`, `nv3_C01` (+ `_eval`), `nv3_C10R` (`C10R.reopen_no_panic`).
 4. `nv3_C06` (+ `_eval`): `C06X.C06_crash_recover` on the crash between two unlinks; `nv3_C10MF`
    (+ `_eval`): `C10MF.openC_trace_bounded` on the damaged image `imgD`; `nv3_C13`: `C13C.rejected_iff`.
-/
import MRL.Props.NonVacuity2
import MRL.Props.C04C18Crash
import MRL.Props.C07Fits
import MRL.Props.C10NoPanicReach
import MRL.Props.C10MemoryFail
import MRL.Props.C13Complete
import MRL.Props.C03PosixDirCalls

namespace MRL.NV3
open MRL Log Twin Codec Img Gen NV NV2 P
set_option maxRecDepth 100000
set_option linter.unusedSimpArgs false

def u1 : Log × Outcome × List Effect :=
  ({ files := [5, 6, 7, 8, 9, 10, 11, 12], cur := 12, off := 26, queues := [([97], { start := 2, recs := [{ pos := 2, payload := [5], file := none }, { pos := 3, payload := [6], file := some 5 }, { pos := 4, payload := [7], file := none }, { pos := 5, payload := [8], file := some 8 }] }), ([98], { start := 0, recs := [] })], policy := MRL.Policy.doNothing }, MRL.Outcome.created 32, [MRL.Effect.write 11 26 [0, 0, 0, 0, 0, 0],
    MRL.Effect.flush,
    MRL.Effect.fsyncFile 11,
    MRL.Effect.fsyncDir,
    MRL.Effect.create 12,
    MRL.Effect.setLen 12 32,
    MRL.Effect.write 12 0 [205, 144, 137, 201, 9, 0, 2, 2, 0, 0, 0, 0, 0, 0, 0, 0],
    MRL.Effect.write 12 16 [8, 34, 88, 12, 3, 0, 4, 1, 0, 98],
    MRL.Effect.flush,
    MRL.Effect.fsyncFile 12,
    MRL.Effect.fsyncDir])

def km1 : Image :=
  [(5, [66, 185, 127, 9, 9, 0, 3, 0, 0, 0, 0, 0, 0, 1, 0, 0, 215, 181, 37, 255, 2, 0, 4, 0, 4, 161, 142, 12, 60, 0, 0, 2]),
    (6, [4, 133, 116, 23, 9, 0, 3, 4, 2, 0, 0, 0, 0, 0, 0, 0, 108, 33, 207, 127, 9, 0, 3, 1, 0, 97, 2, 0, 0, 0, 0, 0]),
    (7, [233, 73, 44, 131, 9, 0, 3, 0, 0, 1, 0, 0, 0, 5, 3, 0, 66, 185, 127, 9, 9, 0, 3, 0, 0, 0, 0, 0, 0, 1, 0, 0]),
    (8, [251, 212, 43, 17, 2, 0, 4, 0, 6, 161, 142, 12, 60, 0, 0, 2, 131, 140, 27, 209, 9, 0, 3, 4, 4, 0, 0, 0, 0, 0, 0, 0]),
    (9, [113, 194, 150, 169, 9, 0, 3, 1, 0, 97, 4, 0, 0, 0, 0, 0, 1, 58, 242, 214, 9, 0, 3, 0, 0, 1, 0, 0, 0, 7, 5, 0]),
    (10, [66, 185, 127, 9, 9, 0, 3, 0, 0, 0, 0, 0, 0, 1, 0, 0, 252, 249, 147, 246, 2, 0, 4, 0, 8, 161, 142, 12, 60, 0, 0, 2]),
    (11, [168, 199, 108, 211, 9, 0, 3, 1, 1, 0, 0, 0, 0, 0, 0, 0, 178, 115, 81, 149, 3, 0, 4, 1, 0, 97, 0, 0, 0, 0, 0, 0]),
    (12, [205, 144, 137, 201, 9, 0, 2, 2, 0, 0, 0, 0, 0, 0, 0, 0, 8, 34, 88, 12, 3, 0, 4, 1, 0, 98, 0, 0, 0, 0, 0, 0])]

def u2 : Log × Outcome × List Effect :=
  ({ files := [5, 6, 7, 8, 9, 10, 11, 12, 13, 14, 15], cur := 15, off := 9, queues := [([97], { start := 2, recs := [{ pos := 2, payload := [5], file := none }, { pos := 3, payload := [6], file := some 5 }, { pos := 4, payload := [7], file := none }, { pos := 5, payload := [8], file := some 8 }, { pos := 6, payload := [9], file := none }, { pos := 7, payload := [10], file := some 12 }] }), ([98], { start := 0, recs := [] })], policy := MRL.Policy.doNothing }, MRL.Outcome.appended (some 7) 79, [MRL.Effect.write 12 26 [0, 0, 0, 0, 0, 0],
    MRL.Effect.flush,
    MRL.Effect.fsyncFile 12,
    MRL.Effect.fsyncDir,
    MRL.Effect.create 13,
    MRL.Effect.setLen 13 32,
    MRL.Effect.write 13 0 [192, 224, 252, 124, 9, 0, 2, 4, 6, 0, 0, 0, 0, 0, 0, 0],
    MRL.Effect.write 13 16 [122, 99, 94, 228, 9, 0, 3, 1, 0, 97, 6, 0, 0, 0, 0, 0],
    MRL.Effect.flush,
    MRL.Effect.fsyncFile 13,
    MRL.Effect.fsyncDir,
    MRL.Effect.create 14,
    MRL.Effect.setLen 14 32,
    MRL.Effect.write 14 0 [137, 117, 90, 238, 9, 0, 3, 0, 0, 1, 0, 0, 0, 9, 7, 0],
    MRL.Effect.write 14 16 [66, 185, 127, 9, 9, 0, 3, 0, 0, 0, 0, 0, 0, 1, 0, 0],
    MRL.Effect.flush,
    MRL.Effect.fsyncFile 14,
    MRL.Effect.fsyncDir,
    MRL.Effect.create 15,
    MRL.Effect.setLen 15 32,
    MRL.Effect.write 15 0 [208, 152, 157, 24, 2, 0, 4, 0, 10]])

def Y : Image :=
  [(5, [66, 185, 127, 9, 9, 0, 3, 0, 0, 0, 0, 0, 0, 1, 0, 0, 215, 181, 37, 255, 2, 0, 4, 0, 4, 161, 142, 12, 60, 0, 0, 2]),
    (6, [4, 133, 116, 23, 9, 0, 3, 4, 2, 0, 0, 0, 0, 0, 0, 0, 108, 33, 207, 127, 9, 0, 3, 1, 0, 97, 2, 0, 0, 0, 0, 0]),
    (7, [233, 73, 44, 131, 9, 0, 3, 0, 0, 1, 0, 0, 0, 5, 3, 0, 66, 185, 127, 9, 9, 0, 3, 0, 0, 0, 0, 0, 0, 1, 0, 0]),
    (8, [251, 212, 43, 17, 2, 0, 4, 0, 6, 161, 142, 12, 60, 0, 0, 2, 131, 140, 27, 209, 9, 0, 3, 4, 4, 0, 0, 0, 0, 0, 0, 0]),
    (9, [113, 194, 150, 169, 9, 0, 3, 1, 0, 97, 4, 0, 0, 0, 0, 0, 1, 58, 242, 214, 9, 0, 3, 0, 0, 1, 0, 0, 0, 7, 5, 0]),
    (10, [66, 185, 127, 9, 9, 0, 3, 0, 0, 0, 0, 0, 0, 1, 0, 0, 252, 249, 147, 246, 2, 0, 4, 0, 8, 161, 142, 12, 60, 0, 0, 2]),
    (11, [168, 199, 108, 211, 9, 0, 3, 1, 1, 0, 0, 0, 0, 0, 0, 0, 178, 115, 81, 149, 3, 0, 4, 1, 0, 97, 0, 0, 0, 0, 0, 0]),
    (12, [205, 144, 137, 201, 9, 0, 2, 2, 0, 0, 0, 0, 0, 0, 0, 0, 8, 34, 88, 12, 3, 0, 4, 1, 0, 98, 0, 0, 0, 0, 0, 0]),
    (13, [192, 224, 252, 124, 9, 0, 2, 4, 6, 0, 0, 0, 0, 0, 0, 0, 122, 99, 94, 228, 9, 0, 3, 1, 0, 0, 0, 0, 0, 0, 0, 0])]

def RY : Recovered :=
  { log := { files := [5, 6, 7, 8, 9, 10, 11, 12, 13], cur := 13, off := 32, queues := [([97], { start := 2, recs := [{ pos := 2, payload := [5], file := none }, { pos := 3, payload := [6], file := some 5 }, { pos := 4, payload := [7], file := none }, { pos := 5, payload := [8], file := some 8 }] }), ([98], { start := 0, recs := [] })], policy := MRL.Policy.doNothing }, effects := [MRL.Effect.ensureLen 5 32], ioCalls := 37 }

def PT : Log × List Effect × Nat :=
  ({ files := [3, 4, 5, 6, 7, 8, 9], cur := 9, off := 16, queues := [([97], { start := 2, recs := [{ pos := 2, payload := [3], file := none }, { pos := 3, payload := [4], file := some 3 }, { pos := 4, payload := [5], file := none }, { pos := 5, payload := [6], file := some 5 }] })], policy := MRL.Policy.doNothing }, [MRL.Effect.ensureLen 3 32], 28)

/-! ### item 2a: `CX.C04X_crash_then_append_fresh` on the second crash of history 1 -/

theorem crashDisk2 : Crash.crashDisk g 0 s5.1 img5 {} c6 false [] 10 0 = X2 := e_X2.symm

theorem next5 : C04.nextOf s5.1 [97] = some 6 := by decide +kernel

theorem out9 : (Log.step g R2.log (.append [97] none [[9]]) false []).2.1 = .appended (some 6) 52 := by
  rw [step_twin]; decide +kernel

/-- the theorem applies: the truncate cut between two unlinks, `open`, then an append — the queue's
    next position was 6 before the crash; the append lands at `p ≥ 6`, contiguously -/
theorem nv3_C04 : ∃ mq mq' p, R2.log.queues.get? [97] = some mq ∧
    (Log.step g R2.log (.append [97] none [[9]]) false []).1.queues.get? [97] = some mq' ∧
    6 ≤ p ∧ mq'.abs.recs = mq.abs.recs ++ numberFrom p [[9]] ∧
    (numberFrom p [[9]]).map (·.1) = List.range' p 1 ∧ 6 + 1 = mq'.nextPosition :=
  CX.C04X_crash_then_append_fresh g (by decide) 0 s5.1 img5 {} reach5.toReachX rfl c6 false [] wf6 torn6 10 0
    .doNothing [] [97] 6 (by unfold c6; intro h; cases h) next5 R2 (by rw [crashDisk2]; exact e_R2) false [] none [[9]] 6 52 out9

/-- evaluated: the new record is at position 6 exactly -/
theorem nv3_C04_eval :
    ((Log.step g R2.log (.append [97] none [[9]]) false []).1.queues.get? [97]).map MemQueue.abs =
      some ⟨7, [(2, [5]), (3, [6]), (4, [7]), (5, [8]), (6, [9])]⟩ := by
  rw [step_twin]; decide +kernel

/-! ### item 2b: `CX.C18X_crash_projection` with a second queue

From `S*`: `create_queue "b"` (completed), then `append "a" [[9],[10]]` CRASHES after 6 OS operations,
9 bytes into the 7th (a Middle frame torn in its payload). -/

def cq : Call := .create [98]
def ca : Call := .append [97] none [[9],[10]]

theorem e_u1 : R2.log.step g cq false [] = u1 := by rw [step_twin]; decide +kernel
theorem e_km1 : applyOsOps img6 (toOsOps 0 {} u1.2.2).2 = km1 ∧ (toOsOps 0 {} u1.2.2).1 = {} := by decide +kernel
theorem wfq : ∀ j ∈ R2.log.stepJ g cq [], C07.WF j.e := by rw [stepJ_twin]; decide +kernel

theorem reachU : C02U.ReachX g 0 u1.1 km1 {} := by
  have h := C02U.ReachX.step cq false [] reachS.toReachX wfq
  rw [e_u1, e_km1.1, e_km1.2] at h
  exact h

theorem e_u2 : u1.1.step g ca false [] = u2 := by rw [step_twin]; decide +kernel
theorem wfa : ∀ j ∈ u1.1.stepJ g ca [], C07.WF j.e := by rw [stepJ_twin]; decide +kernel
theorem tornA : C02A.TornStep g u1.1 ca false [] := by
  show H.TornEffs (u1.1.step g ca false []).2.2
  rw [e_u2]
  apply NV.tornEffs_check _ [(.first, [4, 6, 0, 0, 0, 0, 0, 0, 0]), (.middle, [1, 0, 97, 6, 0, 0, 0, 0, 0]),
    (.middle, [0, 0, 1, 0, 0, 0, 9, 7, 0]), (.middle, [0, 0, 0, 0, 0, 0, 1, 0, 0]), (.last, [0, 10])]
  · decide +kernel
  · decide +kernel
theorem crashDiskY : Crash.crashDisk g 0 u1.1 km1 {} ca false [] 6 9 = Y := by
  unfold Crash.crashDisk; rw [e_u2]; decide +kernel
theorem e_RY : recover g Y .doNothing [] none = .ok RY := by rw [recover_twin]; decide +kernel

/-- the later history on the recovered log, and its projection on queue "b" run on a fresh log that
    only has the (empty) queue "b" -/
def cs₁ : List (Call × Bool × List Bytes) :=
  [(.append [98] none [[1]], false, []), (.append [97] none [[2]], false, []), (.append [98] none [[3], [4]], false, []),
   (.truncate [98] 0, false, [])]
def cs₂ : List (Call × Bool × List Bytes) :=
  [(.append [98] none [[1]], true, []), (.append [98] none [[3], [4]], true, []), (.truncate [98] 0, true, [])]
def lB : Log := { files := [0], cur := 0, off := 0, queues := [([98], {})], policy := .doNothing }
def g64 : Geom := { B := 64, K := 4, hB := by decide, hK := by decide }

theorem invB : C05.Inv lB := ⟨by decide, by
  intro kv hkv
  simp only [lB, List.mem_singleton] at hkv
  subst hkv
  exact ⟨List.Pairwise.nil, fun _ h => by cases h⟩⟩

/-- `C18X_crash_projection` applies (the interrupted call is addressed to "a", the projection is on
    "b"; the second log has another geometry and other clock bits) -/
theorem nv3_C18 : ∃ rec, recover g (Crash.crashDisk g 0 u1.1 km1 {} ca false [] 6 9) .doNothing [] none = .ok rec ∧
    C18.view (C05.run g rec.log cs₁) [98] = C18.view (C05.run g64 lB cs₂) [98] ∧
    (C18.qOutcomes [98] (cs₁.map (·.1)) (C05.outcomes g rec.log cs₁)).map Outcome.logical =
      (C05.outcomes g64 lB cs₂).map Outcome.logical :=
  CX.C18X_crash_projection g g64 (by decide) 0 u1.1 km1 {} reachU rfl ca false [] wfa tornA 6 9 .doNothing [] [98]
    (by decide) lB invB (by decide +kernel) cs₁ cs₂ rfl

/-- evaluated: the recovered log is `RY` (queue "a" as before the append, queue "b" untouched), and
    after the later history queue "b" holds records 1, 2 at positions 1, 2 on both sides -/
theorem nv3_C18_eval :
    recover g (Crash.crashDisk g 0 u1.1 km1 {} ca false [] 6 9) .doNothing [] none = .ok RY ∧
    C18.view RY.log [98] = some ⟨0, []⟩ ∧
    C18.view (C05.run g RY.log cs₁) [98] = some ⟨3, [(1, [3]), (2, [4])]⟩ := by
  refine ⟨by rw [crashDiskY]; exact e_RY, by decide +kernel, ?_⟩
  simp only [cs₁, C05.run, step_twin]
  decide +kernel

/-! ### item 3: `C07F` and `C10R` on the crash-free history -/

theorem castDF {g : Geom} {cap P n n' : Nat} {l l' : Log} {J J' : List JE} {img img' : Image} {b b' : BufSt}
    (h : C07F.ReachDF g cap P n l J img b) (e0 : n = n') (e1 : l = l') (e2 : J = J') (e3 : img = img') (e4 : b = b') :
    C07F.ReachDF g cap P n' l' J' img' b' := by subst e0 e1 e2 e3 e4; exact h

theorem fitsC1 : C07F.CallFits c1 := by unfold c1 C07F.CallFits C07F.NameFits; decide +kernel
theorem fitsApp (pls : List Bytes) (h : ∀ p ∈ pls, p.length < 2 ^ 32) : C07F.CallFits (.append [97] none pls) := h

theorem rdf0 : C07F.ReachDF g 0 100 0 R0.log [] img0 {} :=
  castDF (C07F.ReachDF.init .doNothing [] R0 hR0) rfl rfl rfl e_img0.1 e_img0.2

theorem rdf1 : C07F.ReachDF g 0 100 0 s1.1 (R0.log.stepJ g c1 []) img1 {} :=
  castDF (C07F.ReachDF.step c1 false [] rdf0 fitsC1 trivial (by decide)) rfl (by rw [e_s1]) (by simp)
    (by rw [e_s1]; exact e_img1.1) (by rw [e_s1]; exact e_img1.2)

theorem rdf2 : C07F.ReachDF g 0 100 2 t1.1 (R0.log.stepJ g c1 [] ++ s1.1.stepJ g a1 []) jm1 {} :=
  castDF (C07F.ReachDF.step a1 false [] rdf1 (fitsApp _ (by decide)) trivial (by decide)) rfl (by rw [e_t1]) rfl
    (by rw [e_t1]; exact e_jm1.1) (by rw [e_t1]; exact e_jm1.2)

theorem rdf3 : C07F.ReachDF g 0 100 4 t2.1 (R0.log.stepJ g c1 [] ++ s1.1.stepJ g a1 [] ++ t1.1.stepJ g c3 []) jm2 {} :=
  castDF (C07F.ReachDF.step c3 false [] rdf2 (fitsApp _ (by decide)) trivial (by decide)) rfl (by rw [e_t2]) rfl
    (by rw [e_t2]; exact e_jm2.1) (by rw [e_t2]; exact e_jm2.2)

theorem rdf4 : C07F.ReachDF g 0 100 6 t3.1
    (R0.log.stepJ g c1 [] ++ s1.1.stepJ g a1 [] ++ t1.1.stepJ g c3 [] ++ t2.1.stepJ g c4 []) jm3 {} :=
  castDF (C07F.ReachDF.step c4 false [] rdf3 (fitsApp _ (by decide)) trivial (by decide)) rfl (by rw [e_t3]) rfl
    (by rw [e_t3]; exact e_jm3.1) (by rw [e_t3]; exact e_jm3.2)

/-- **the crash-free history as a `ReachDF` derivation**: every `CallFits`, `CallBelow 100` and the
    record budget discharged; no hypothesis on the journal -/
theorem reachTF : C07F.ReachDF g 0 100 6 t4.1 JJ jm4 {} :=
  castDF (C07F.ReachDF.step c6 false [] rdf4 trivial (by show 1 < 100; decide) (by decide)) rfl (by rw [e_t4]) e_JJ
    (by rw [e_t4]; exact e_jm4.1) (by rw [e_t4]; exact e_jm4.2)

theorem nv3_C07_inv : C01R.ReachD g 0 t4.1 JJ jm4 {} ∧ (∀ j ∈ JJ, C07.WF j.e) ∧ C07F.Fit (100 + 6) t4.1 ∧
    100 + 6 < U64MAX :=
  C07F.reachDF_inv g (by decide) 0 100 (by decide) reachTF

theorem nv3_C01 : ∃ r, recover g jm4 .doNothing [] none = .ok r ∧ QsEquiv r.log.queues t4.1.queues :=
  C07F.C01_restart_exact_calls g (by decide) 0 100 (by decide) reachTF .doNothing []

/-- evaluated: the restart returns `QC`, whose queue is the live one record for record -/
theorem nv3_C01_eval : recover g jm4 .doNothing [] none = .ok QC ∧ QC.log.queues = t4.1.queues := ⟨e_QC, by decide⟩

theorem e_PT : recoverPre g jm4 .doNothing none = .ok PT := by decide +kernel

/-- `C10R.reopen_no_panic` on `T*`, its file-number and roll-over-room hypotheses discharged
    (`nroom = 0`: the GC pass of this `open` writes nothing) -/
theorem nv3_C10R :
    C10.NoMax (deliveredEvents g jm4 none) ∧ clipImage g jm4 = jm4 ∧
    recoverP g (clipImage g jm4) .doNothing [] none = .ok (recover g jm4 .doNothing [] none) ∧
    ∀ r, recover g jm4 .doNothing [] none = .ok r → accessorsPanic r.log.queues = false := by
  have h := C10R.reopen_no_panic g (by decide) 0 100 (by decide) (C07F.ReachXF.base reachTF) .doNothing [] 0
    (by decide +kernel) (by decide) (by
      intro lp e0 io hpre
      have hp : recoverPre g (C02U.flushDisk jm4 {}) .doNothing none = .ok PT := e_PT
      rw [hp] at hpre
      simp only [Except.ok.injEq] at hpre
      have hl : lp = PT.1 := by rw [hpre]
      rw [hl]
      decide +kernel)
  exact h

/-! ### item 4 -/

/-- `C06X.C06_crash_recover` on the second crash of history 1 (cut between two unlinks) -/
theorem nv3_C06 : C06X.FilesOkX P2.1 ∧ C06X.After P2.1 R2.log ∧ R2.log.diskUsed g = R2.log.files.length * g.fileBytes ∧
    (∀ f₀, R2.log.files.head? = some f₀ → P2.1.cur ≤ f₀ ∨ R2.log.queues.refsFile f₀ = true) ∧
    (∀ f, Effect.unlink f ∈ R2.effects → R2.log.queues.refsFile f = false ∧ f ≠ R2.log.cur ∧ f ∉ R2.log.files) :=
  C06X.C06_crash_recover (g := g) (by decide) 0 reach5.toReachX rfl c6 false [] wf6 torn6 10 0 .doNothing [] P2.1 P2.2.1
    P2.2.2 R2 (by rw [← e_X2]; exact e_P2) (by rw [← e_X2]; exact e_R2)

/-- evaluated: the `open` after the crash tracked `wal-3 … wal-11` (the two files the interrupted GC
    pass had not unlinked yet included) and its own GC pass released `wal-3`, `wal-4` -/
theorem nv3_C06_eval : P2.1.files = [3, 4, 5, 6, 7, 8, 9, 10, 11] ∧ R2.log.files = [5, 6, 7, 8, 9, 10, 11] ∧
    Step.unlinked R2.effects = [3, 4] ∧ R2.log.queues.refsFile 5 = true := by decide +kernel

/-- `C10MF.openC_trace_bounded` on the damaged image: the final state of the replay loop -/
theorem nv3_C10MF : C16.nameBytes RD.log.queues + C16.totalPayload RD.log.queues ≤ C10.imageBytes imgD + g.fileBytes ∧
    12 * C16.totalRecords RD.log.queues ≤ C10.imageBytes imgD + g.fileBytes ∧
    12 * MemQueues.usedBytes 40 RD.log.queues ≤ (12 + 40) * (C10.imageBytes imgD + g.fileBytes) :=
  C10MF.openC_trace_bounded 40 g imgD none RD.log.queues (by decide +kernel)

theorem nv3_C10MF_eval : C16.nameBytes RD.log.queues + C16.totalPayload RD.log.queues = 3 ∧
    C16.totalRecords RD.log.queues = 2 ∧ C10.imageBytes imgD + g.fileBytes = 256 := by decide +kernel

/-- `C13C.rejected_iff` on `S*`: creating the existing queue "a" is rejected — both sides hold -/
theorem nv3_C13 : C13C.IsRejection (step g R2.log (.create [97]) false []).2.1 ∧
    C13.Rejected R2.log (.create [97]) (step g R2.log (.create [97]) false []).2.1 := by
  have h : C13C.IsRejection (step g R2.log (.create [97]) false []).2.1 := by
    rw [step_twin]
    have : (stepT g R2.log (.create [97]) false []).2.1 = .alreadyExists := by decide +kernel
    rw [this]; trivial
  exact ⟨h, (C13C.rejected_iff g R2.log (.create [97]) false []).mp h⟩


/-! ### item 1: `C03PD.C03_posix_dir_calls` — power loss with a lazy directory

Geometry `B = 16`, `K = 5` (files of 80 bytes; in the 32-byte geometry every append rolls over and the
roll-over's `fsync(dir)` covers the unlinks before any new content is synced). History from the empty
directory, policy `DoNothing`: `create_queue "a"` (promise point `m = 1`), `append [[0],[0]]`,
`append [[1],[1]]`, `truncate ..=3` (its GC pass unlinks `wal-0`, `wal-1`; no `fsync(dir)` follows),
`append [[9]]` (fits in `wal-3`: no roll-over), `persist(FlushAndFsync)`. Power loss after 43 of the 44
refined OS operations: BETWEEN that persist's `fsync(file)` and its `fsync(dir)` — `lateSync = true` —
with `u = 0`: both pending unlinks undone. -/

def g5 : Geom := { B := 16, K := 5, hB := by decide, hK := by decide }

def evK : List PX.Ev :=
  [.call (.create [97]) false [], .call (.append [97] none [[0],[0]]) false [], .call (.append [97] none [[1],[1]]) false [],
   .call (.truncate [97] 3) false [], .call (.append [97] none [[9]]) false [], .call (.persist .flushAndFsync) false []]

def K0 : Recovered :=
  { log := { files := [0], cur := 0, off := 0, queues := [], policy := MRL.Policy.doNothing }, effects := [MRL.Effect.create 0,
    MRL.Effect.setLen 0 80,
    MRL.Effect.ensureLen 0 80], ioCalls := 3 }

def kimg : Image :=
  [(0, [0, 0, 0, 0, 0, 0, 0, 0, 0, 0, 0, 0, 0, 0, 0, 0, 0, 0, 0, 0, 0, 0, 0, 0, 0, 0, 0, 0, 0, 0, 0, 0, 0, 0, 0, 0, 0, 0, 0, 0, 0, 0, 0, 0, 0, 0, 0, 0, 0, 0, 0, 0, 0, 0, 0, 0, 0, 0, 0, 0, 0, 0, 0, 0, 0, 0, 0, 0, 0, 0, 0, 0, 0, 0, 0, 0, 0, 0, 0, 0])]

def effsK : List Effect :=
  [MRL.Effect.write 0 0 [205, 144, 137, 201, 9, 0, 2, 2, 0, 0, 0, 0, 0, 0, 0, 0],
    MRL.Effect.write 0 16 [178, 115, 81, 149, 3, 0, 4, 1, 0, 97],
    MRL.Effect.flush,
    MRL.Effect.fsyncFile 0,
    MRL.Effect.fsyncDir,
    MRL.Effect.write 0 26 [0, 0, 0, 0, 0, 0],
    MRL.Effect.write 0 32 [71, 233, 147, 186, 9, 0, 2, 4, 0, 0, 0, 0, 0, 0, 0, 0],
    MRL.Effect.write 0 48 [103, 128, 7, 50, 9, 0, 3, 1, 0, 97, 0, 0, 0, 0, 0, 0],
    MRL.Effect.write 0 64 [128, 233, 209, 183, 9, 0, 3, 0, 0, 1, 0, 0, 0, 0, 1, 0],
    MRL.Effect.flush,
    MRL.Effect.fsyncFile 0,
    MRL.Effect.fsyncDir,
    MRL.Effect.create 1,
    MRL.Effect.setLen 1 80,
    MRL.Effect.write 1 0 [66, 185, 127, 9, 9, 0, 3, 0, 0, 0, 0, 0, 0, 1, 0, 0],
    MRL.Effect.write 1 16 [206, 113, 72, 248, 2, 0, 4, 0, 0],
    MRL.Effect.write 1 25 [161, 142, 12, 60, 0, 0, 2],
    MRL.Effect.write 1 32 [4, 133, 116, 23, 9, 0, 3, 4, 2, 0, 0, 0, 0, 0, 0, 0],
    MRL.Effect.write 1 48 [108, 33, 207, 127, 9, 0, 3, 1, 0, 97, 2, 0, 0, 0, 0, 0],
    MRL.Effect.write 1 64 [53, 225, 37, 132, 9, 0, 3, 0, 0, 1, 0, 0, 0, 1, 3, 0],
    MRL.Effect.flush,
    MRL.Effect.fsyncFile 1,
    MRL.Effect.fsyncDir,
    MRL.Effect.create 2,
    MRL.Effect.setLen 2 80,
    MRL.Effect.write 2 0 [66, 185, 127, 9, 9, 0, 3, 0, 0, 0, 0, 0, 0, 1, 0, 0],
    MRL.Effect.write 2 16 [88, 65, 79, 143, 2, 0, 4, 0, 1],
    MRL.Effect.write 2 25 [161, 142, 12, 60, 0, 0, 2],
    MRL.Effect.write 2 32 [213, 192, 73, 145, 9, 0, 3, 1, 3, 0, 0, 0, 0, 0, 0, 0],
    MRL.Effect.write 2 48 [178, 115, 81, 149, 3, 0, 4, 1, 0, 97],
    MRL.Effect.write 2 58 [0, 0, 0, 0, 0, 0],
    MRL.Effect.write 2 64 [55, 158, 195, 77, 9, 0, 2, 2, 4, 0, 0, 0, 0, 0, 0, 0],
    MRL.Effect.flush,
    MRL.Effect.fsyncFile 2,
    MRL.Effect.fsyncDir,
    MRL.Effect.create 3,
    MRL.Effect.setLen 3 80,
    MRL.Effect.write 3 0 [178, 115, 81, 149, 3, 0, 4, 1, 0, 97],
    MRL.Effect.flush,
    MRL.Effect.fsyncFile 3,
    MRL.Effect.fsyncDir,
    MRL.Effect.unlink 0,
    MRL.Effect.unlink 1,
    MRL.Effect.write 3 10 [0, 0, 0, 0, 0, 0],
    MRL.Effect.write 3 16 [189, 231, 217, 62, 9, 0, 2, 4, 4, 0, 0, 0, 0, 0, 0, 0],
    MRL.Effect.write 3 32 [113, 194, 150, 169, 9, 0, 3, 1, 0, 97, 4, 0, 0, 0, 0, 0],
    MRL.Effect.write 3 48 [135, 64, 212, 165, 7, 0, 4, 0, 0, 1, 0, 0, 0, 9],
    MRL.Effect.flush,
    MRL.Effect.fsyncFile 3,
    MRL.Effect.fsyncDir]

def pimK : Image :=
  [(0, [205, 144, 137, 201, 9, 0, 2, 2, 0, 0, 0, 0, 0, 0, 0, 0, 178, 115, 81, 149, 3, 0, 4, 1, 0, 97, 0, 0, 0, 0, 0, 0, 71, 233, 147, 186, 9, 0, 2, 4, 0, 0, 0, 0, 0, 0, 0, 0, 103, 128, 7, 50, 9, 0, 3, 1, 0, 97, 0, 0, 0, 0, 0, 0, 128, 233, 209, 183, 9, 0, 3, 0, 0, 1, 0, 0, 0, 0, 1, 0]),
    (1, [66, 185, 127, 9, 9, 0, 3, 0, 0, 0, 0, 0, 0, 1, 0, 0, 206, 113, 72, 248, 2, 0, 4, 0, 0, 161, 142, 12, 60, 0, 0, 2, 4, 133, 116, 23, 9, 0, 3, 4, 2, 0, 0, 0, 0, 0, 0, 0, 108, 33, 207, 127, 9, 0, 3, 1, 0, 97, 2, 0, 0, 0, 0, 0, 53, 225, 37, 132, 9, 0, 3, 0, 0, 1, 0, 0, 0, 1, 3, 0]),
    (2, [66, 185, 127, 9, 9, 0, 3, 0, 0, 0, 0, 0, 0, 1, 0, 0, 88, 65, 79, 143, 2, 0, 4, 0, 1, 161, 142, 12, 60, 0, 0, 2, 213, 192, 73, 145, 9, 0, 3, 1, 3, 0, 0, 0, 0, 0, 0, 0, 178, 115, 81, 149, 3, 0, 4, 1, 0, 97, 0, 0, 0, 0, 0, 0, 55, 158, 195, 77, 9, 0, 2, 2, 4, 0, 0, 0, 0, 0, 0, 0]),
    (3, [178, 115, 81, 149, 3, 0, 4, 1, 0, 97, 0, 0, 0, 0, 0, 0, 189, 231, 217, 62, 9, 0, 2, 4, 4, 0, 0, 0, 0, 0, 0, 0, 113, 194, 150, 169, 9, 0, 3, 1, 0, 97, 4, 0, 0, 0, 0, 0, 135, 64, 212, 165, 7, 0, 4, 0, 0, 1, 0, 0, 0, 9, 0, 0, 0, 0, 0, 0, 0, 0, 0, 0, 0, 0, 0, 0, 0, 0, 0, 0])]

def RK : Recovered :=
  { log := { files := [3], cur := 3, off := 64, queues := [([97], { start := 4, recs := [{ pos := 4, payload := [9], file := some 3 }] })], policy := MRL.Policy.doNothing }, effects := [MRL.Effect.ensureLen 0 80,
    MRL.Effect.flush,
    MRL.Effect.fsyncFile 3,
    MRL.Effect.fsyncDir,
    MRL.Effect.unlink 0,
    MRL.Effect.unlink 1,
    MRL.Effect.unlink 2], ioCalls := 28 }

theorem hK0 : recover g5 [] .doNothing [] none = .ok K0 := by rw [recover_twin]; decide +kernel
theorem e_kimg : applyOsOps [] (toOsOps 0 {} K0.effects).2 = kimg ∧ (toOsOps 0 {} K0.effects).1 = {} := by decide +kernel

theorem reachK : C02U.ReachX g5 0 K0.log kimg {} := by
  have h := C01R.ReachD.init (g := g5) (cap := 0) .doNothing [] K0 hK0
  rw [e_kimg.1, e_kimg.2] at h
  exact C02U.ReachX.base h (fun j hj => by cases hj)

theorem e_effsK : PX.effsX g5 K0.log kimg evK = effsK := by
  simp only [evK, PX.effsX, PX.evEffs, PX.evLog, PX.evDisk, step_twin]; decide +kernel

theorem fitsK : ∀ j ∈ PX.jourX g5 K0.log kimg evK, C07.WF j.e := by
  simp only [evK, PX.jourX, PX.evJ, PX.evLog, PX.evDisk, step_twin, stepJ_twin]; decide +kernel

theorem tornK : H.TornEffs (PX.effsX g5 K0.log kimg evK) := by
  rw [e_effsK]
  apply NV.tornEffs_check _ [(.first, [2, 0, 0, 0, 0, 0, 0, 0, 0]), (.last, [1, 0, 97]), (.first, [4, 0, 0, 0, 0, 0, 0, 0, 0]),
    (.middle, [1, 0, 97, 0, 0, 0, 0, 0, 0]), (.middle, [0, 0, 1, 0, 0, 0, 0, 1, 0]), (.middle, [0, 0, 0, 0, 0, 0, 1, 0, 0]),
    (.last, [0, 0]), (.first, []), (.middle, [4, 2, 0, 0, 0, 0, 0, 0, 0]), (.middle, [1, 0, 97, 2, 0, 0, 0, 0, 0]),
    (.middle, [0, 0, 1, 0, 0, 0, 1, 3, 0]), (.last, [0, 1]), (.middle, [1, 3, 0, 0, 0, 0, 0, 0, 0]),
    (.first, [2, 4, 0, 0, 0, 0, 0, 0, 0]), (.first, [4, 4, 0, 0, 0, 0, 0, 0, 0]), (.middle, [1, 0, 97, 4, 0, 0, 0, 0, 0]),
    (.last, [0, 0, 1, 0, 0, 0, 9])]
  · decide +kernel
  · decide +kernel

theorem tailK : PX.effsX g5 K0.log kimg (evK.take 1) =
    [.write 0 0 [205, 144, 137, 201, 9, 0, 2, 2, 0, 0, 0, 0, 0, 0, 0, 0], .write 0 16 [178, 115, 81, 149, 3, 0, 4, 1, 0, 97]] ++
      [.flush, .fsyncFile 0, .fsyncDir] := by
  simp only [evK, List.take, PX.effsX, PX.evEffs, PX.evLog, PX.evDisk, step_twin]; decide +kernel

theorem hkK : (toOsOpsP 0 {} (PX.effsX g5 K0.log kimg (evK.take 1))).2.length ≤ 43 := by
  rw [tailK]; decide +kernel

theorem nrK : C03PD.NoReopenWhilePending g5 K0.log kimg evK := by
  unfold C03PD.NoReopenWhilePending C03PD.noReopenWhilePending
  simp only [evK, PDC.noReopenPend, PX.evEffs, PX.evLog, PX.evDisk, step_twin]
  decide +kernel

/-- the instant is a hard one: an `fsync(file)` has made new content durable while two unlinks are
    not covered by an `fsync(dir)` -/
theorem lateK : lateSync kimg ((toOsOpsP 0 {} (PX.effsX g5 K0.log kimg evK)).2.take 43) = true ∧
    pendingUnlinks kimg ((toOsOpsP 0 {} (PX.effsX g5 K0.log kimg evK)).2.take 43) = 2 := by
  rw [e_effsK]; decide +kernel

/-- `C03_posix_dir_calls` applies -/
theorem nv3_C03PD : ∃ rec i, 1 ≤ i ∧ i ≤ evK.length ∧
    recover g5 (powerImageD kimg ((toOsOpsP 0 {} (PX.effsX g5 K0.log kimg evK)).2.take 43) 0) .doNothing [] none = .ok rec ∧
    H.AbsEq rec.log.queues (PX.logX g5 K0.log kimg (evK.take i)).queues :=
  C03PD.C03_posix_dir_calls g5 (by decide) 0 K0.log kimg {} reachK rfl evK fitsK tornK 1 (by decide) _ 0 tailK 43 hkK
    nrK 0 .doNothing []

theorem e_pimK : powerImageD kimg ((toOsOpsP 0 {} (PX.effsX g5 K0.log kimg evK)).2.take 43) 0 = pimK := by
  rw [e_effsK]; decide +kernel
theorem e_RK : recover g5 pimK .doNothing [] none = .ok RK := by rw [recover_twin]; decide +kernel

theorem e_logK (i : Nat) (hi : i ≤ 4) (h1 : 1 ≤ i) :
    ((PX.logX g5 K0.log kimg (evK.take i)).queues.get? [97]).map MemQueue.abs ≠ some ⟨5, [(4, [9])]⟩ := by
  rcases (by omega : i = 1 ∨ i = 2 ∨ i = 3 ∨ i = 4) with rfl | rfl | rfl | rfl <;>
    (simp only [evK, List.take, PX.logX, PX.evLog, PX.evDisk, PX.evEffs, step_twin]; decide +kernel)

/-- the conclusion is forced: the recovered log is `RK` — the old files `wal-0`, `wal-1` are back next
    to the new append, `open` replays them and ends with the queue holding record 4 only — and the
    prefix is the whole history up to the last append (`i = 5`, or `6`: the final `persist` changes
    nothing), far beyond the promise point -/
theorem nv3_C03PD_forced (rec : Recovered) (i : Nat) (h1 : 1 ≤ i) (h2 : i ≤ evK.length)
    (h3 : recover g5 (powerImageD kimg ((toOsOpsP 0 {} (PX.effsX g5 K0.log kimg evK)).2.take 43) 0) .doNothing []
      none = .ok rec)
    (h4 : H.AbsEq rec.log.queues (PX.logX g5 K0.log kimg (evK.take i)).queues) :
    rec = RK ∧ (i = 5 ∨ i = 6) := by
  rw [e_pimK, e_RK] at h3
  simp only [Except.ok.injEq] at h3
  subst h3
  refine ⟨rfl, ?_⟩
  have hlen : evK.length = 6 := rfl
  have h5 := h4 [97]
  have hq : (RK.log.queues.get? [97]).map MemQueue.abs = some ⟨5, [(4, [9])]⟩ := by decide +kernel
  rw [hq] at h5
  by_cases hi : i ≤ 4
  · exact absurd h5.symm (e_logK i hi h1)
  · omega

theorem nv3_C03PD_image : pimK.map (·.1) = [0, 1, 2, 3] ∧ RK.log.files = [3] ∧ Step.unlinked RK.effects = [0, 1, 2] := by
  decide +kernel

end MRL.NV3
