/-
The read accessors see nothing but the abstraction. `range`, `last_position`, `last_record`,
`next_position` of a queue are functions of `MemQueue.abs` (positions, payloads, next position):
two states related by `AbsEq` — as delivered by crash atomicity (C02), restart exactness (C01) and
durability — are indistinguishable to the user. No invariant is needed.
-/
import MRL.Proofs.HAbs
import MRL.Spec.QueueMap

namespace MRL.C13Acc
open MRL

/-- `range` computed on the abstract records -/
def rangeP (rs : List (Nat × Bytes)) (lo hi : MemQueue.Bound) : List (Nat × Bytes) :=
  let startIdx := match lo with
    | .unbounded => 0
    | .incl n => (rs.takeWhile (·.1 < n)).length
    | .excl n => (rs.takeWhile (·.1 ≤ n)).length
  (rs.drop startIdx).takeWhile fun r => lo.okLo r.1 && hi.okHi r.1

theorem range_abs (q : MemQueue) (lo hi : MemQueue.Bound) : q.range lo hi = rangeP q.abs.recs lo hi := by
  have hlen : ∀ P : Nat → Bool, (q.recs.takeWhile fun r => P r.pos).length =
      ((q.recs.map fun r => (r.pos, r.payload)).takeWhile fun x => P x.1).length := by
    intro P
    rw [List.takeWhile_map, List.length_map]
    rfl
  have key : ∀ k, ((q.recs.drop k).takeWhile fun r => lo.okLo r.pos && hi.okHi r.pos).map
      (fun r => (r.pos, r.payload)) =
      ((q.recs.map fun r => (r.pos, r.payload)).drop k).takeWhile fun r => lo.okLo r.1 && hi.okHi r.1 := by
    intro k
    rw [← List.map_drop, List.takeWhile_map]
    rfl
  unfold MemQueue.range rangeP MemQueue.abs
  cases lo with
  | unbounded => exact key 0
  | incl n => simp only; rw [hlen (fun x => decide (x < n))]; exact key _
  | excl n => simp only; rw [hlen (fun x => decide (x ≤ n))]; exact key _

theorem lastRecord_abs (q : MemQueue) : q.lastRecord = q.abs.recs.getLast? := by
  unfold MemQueue.lastRecord MemQueue.abs
  rw [List.getLast?_map]

theorem lastPosition_abs (q : MemQueue) :
    q.lastPosition = if q.abs.next = 0 then none else some (q.abs.next - 1) := rfl

theorem nextPosition_abs (q : MemQueue) : q.nextPosition = q.abs.next := rfl

/-- **queues with the same abstraction answer every read the same way** -/
theorem accessors_of_abs (a b : MemQueue) (h : a.abs = b.abs) :
    (∀ lo hi, a.range lo hi = b.range lo hi) ∧ a.lastRecord = b.lastRecord ∧
    a.lastPosition = b.lastPosition ∧ a.nextPosition = b.nextPosition := by
  refine ⟨fun lo hi => by rw [range_abs, range_abs, h], by rw [lastRecord_abs, lastRecord_abs, h],
    by rw [lastPosition_abs, lastPosition_abs, h], by rw [nextPosition_abs, nextPosition_abs, h]⟩

/-- **`AbsEq` states are indistinguishable through the read API**: same queue names, and for each
    queue the same `range` (every bound shape), `last_record`, `last_position`, `next_position`. -/
theorem accessors_of_absEq (x y : MemQueues) (h : H.AbsEq x y) (name : Bytes) :
    (x.contains name = y.contains name) ∧
    (∀ lo hi, (x.get? name).map (·.range lo hi) = (y.get? name).map (·.range lo hi)) ∧
    (x.get? name).map (·.lastRecord) = (y.get? name).map (·.lastRecord) ∧
    (x.get? name).map (·.lastPosition) = (y.get? name).map (·.lastPosition) ∧
    (x.get? name).map (·.nextPosition) = (y.get? name).map (·.nextPosition) := by
  have hn := h name
  refine ⟨H.AbsEq.contains h name, ?_⟩
  cases hx : x.get? name with
  | none =>
    rw [hx] at hn
    cases hy : y.get? name with
    | none => exact ⟨fun _ _ => rfl, rfl, rfl, rfl⟩
    | some b => rw [hy] at hn; cases hn
  | some a =>
    rw [hx] at hn
    cases hy : y.get? name with
    | none => rw [hy] at hn; cases hn
    | some b =>
      rw [hy] at hn
      simp only [Option.map_some, Option.some.injEq] at hn
      obtain ⟨h1, h2, h3, h4⟩ := accessors_of_abs a b hn
      exact ⟨fun lo hi => by simp [h1 lo hi], by simp [h2], by simp [h3], by simp [h4]⟩

/-- non-vacuity: two different representations (different `start`, different file handles) of
    the same abstract queue -/
example : let a : MemQueue := { start := 0, recs := [⟨3, [1], some 0⟩, ⟨4, [2, 2], some 1⟩] }
    let b : MemQueue := { start := 3, recs := [⟨3, [1], none⟩, ⟨4, [2, 2], some 7⟩] }
    a ≠ b ∧ a.abs = b.abs ∧ a.range (.excl 3) .unbounded = [(4, [2, 2])] := by
  decide

end MRL.C13Acc
