/-
C07 at file level, for EVERY reachable state — entries of any size round-trip through `open`
wherever they start.

For `h : C01R.ReachD g cap l J img b` (any history of calls and restarts, any roll-overs and file
deletions) with serialisable entries, `D := flushDisk img b`, `F := l.files.headD 0` (first tracked
file): `recoverPre` scans the blocks of `D` with no corrupt event, and the entries `assemble`
DELIVERS, decoded, in order, are exactly the journal entries located in the tracked files, each
attributed to the file the writer was in when it wrote it (`max attr F`):

    Rec.decoded (assemble … evs) = (J.filter (F ≤ ·.loc)).map fun j => (max j.attr F, j.e)

whatever the sizes of the entries and wherever each starts: at a block end, with fewer than 7 bytes
left in the block (zero padding), with exactly a header left (empty First frame), spanning several
blocks — and several FILES: an entry whose first frame lies in a deleted file is not among the
delivered ones, and its remaining frames at the start of the first tracked file (the `lead` frames
of the tape, Middle/Last) are read and skipped, never delivered. The recovered writer stands where
the tape ends (after the padding when fewer than 7 bytes remained in the block): `ResumeOK`.

This is the event-level content of `G.read_disk` (disk layer) restated at the level property C07
speaks about; the single-stream form is `C07.C07_roundtrip`.
-/
import MRL.Proofs.Img2Read
import MRL.Props.C01Restart

namespace MRL.C07V
open MRL Consts Codec Log Img

/-- the recovered writer stands at the end of the tape of `D`: in file `F + n` at offset `off`, the
    absolute position `n * fileBytes + off` being the end of a frame layout `fs` of the tape, or the
    next block start when fewer than 7 bytes remained -/
def ResumeOK (g : Geom) (D : Image) (F : Nat) (lp : Log) : Prop :=
  ∃ fs n, TapeLayout g D fs ∧ lp.cur = F + n ∧
    (n * g.fileBytes + lp.off = G.endPos g 0 fs ∨ n * g.fileBytes + lp.off = G.hdrPos g (G.endPos g 0 fs))

theorem resume_of_dinv {g : Geom} {lp : Log} {D : Image} {J : List JE} {F : Nat} (h : G.DInvF g lp D J F) :
    ResumeOK g D F lp := by
  obtain ⟨cs, afs, lead, segs, _, _, _, hlay, _, _, _, _⟩ := Img.tape_of_dinv h
  obtain ⟨init, t, afs', hT, hL, _, _, _⟩ := h
  refine ⟨G.untag afs', init.length, ?_, hT.cur, ?_⟩
  · refine ⟨hL.fits, (init.flatten ++ t).length - G.endPos g 0 (G.untag afs') + (g.fileBytes - lp.off), ?_⟩
    rw [hT.img, streamOf_imgOf, List.flatten_append, List.flatten_singleton, ← List.append_assoc]
    conv => lhs; rw [hL.bytes]
    rw [List.append_assoc, ← Codec.zeros_add]
  · rw [← hT.P_length]; exact hL.len

/-- **C07_recover_roundtrip.** -/
theorem C07_recover_roundtrip (g : Geom) (hB : g.B ≤ 65542) (cap : Nat) (l : Log) (J : List JE) (img : Image)
    (b : BufSt) (h : C01R.ReachD g cap l J img b) (hwf : ∀ j ∈ J, C07.WF j.e) (policy : Policy) :
    let D := C01R.flushDisk img b
    let F := l.files.headD 0
    ∃ lp e0 io b0 rest trail evs e io',
      recoverPre g D policy none = .ok (lp, e0, io) ∧
      blocksOf g (prepareImage g D).1 1 = (b0 :: rest, trail) ∧
      scanBlocks g none trail b0.cost b0 0 rest = some (evs, e, io') ∧
      (∀ ev ∈ evs, ∀ f, ev ≠ RdEv.corrupt f) ∧
      (∀ ev ∈ assemble { within := false, buf := [], attr := b0.file } evs, ev ≠ RecEv.corrupt) ∧
      Rec.decoded (assemble { within := false, buf := [], attr := b0.file } evs) =
        ((J.filter fun j => decide (F ≤ j.loc)).map fun j => (max j.attr F, j.e)) ∧
      lp.files = l.files ∧ lp.cur = l.cur ∧ ResumeOK g D F lp := by
  intro D F
  have hr := C01R.reach_rinv g hB cap h hwf
  have hfirst := G.hfirst_of hr.c.mono2 hr.c.jinv.chunk hr.c.first
  obtain ⟨lp, io, hrec, hc, _, hf, _⟩ := G.open_ok g hB hr.c hwf policy
  obtain ⟨b0, rest, trail, evs, e, io', h1, h2, h3, h4, h5⟩ := clean_delivered g hB hr.c.disk hwf hfirst
  have hcur : lp.cur = l.cur := by
    have h6 := hc.disk
    rw [hf] at h6
    obtain ⟨_, _, _, hT, _⟩ := h6
    obtain ⟨_, _, _, hT', _⟩ := hr.c.disk
    have e1 := hT.img
    have e2 := hT'.img
    have hk : (G.imgOf (l.files.headD 0) _).map (·.1) = (G.imgOf (l.files.headD 0) _).map (·.1) :=
      congrArg (List.map (·.1)) (e1.symm.trans e2)
    rw [G.imgOf_keys, G.imgOf_keys] at hk
    have hlen := congrArg List.length hk
    simp at hlen
    rw [hT.cur, hT'.cur]; omega
  refine ⟨lp, _, io, b0, rest, trail, evs, e, io', hrec, h1, h2, h3, h4, h5, hf, hcur, ?_⟩
  have h6 := hc.disk
  rw [hf] at h6
  exact resume_of_dinv h6

end MRL.C07V
