/-
C13, restart leg: a rejected or no-op call leaves no trace that a restart could see. The call
returns the log unchanged, adds nothing to the journal, hands nothing to the `BufWriter` and sends
nothing to the OS: the system state is literally the same, hence so are the flushed disk and the
result of every later restart.
-/
import MRL.Proofs.StepRestart
import MRL.Props.C13

namespace MRL.C13R
open MRL Log C01R Restart C13

/-- a rejected / no-op call writes no journal entry -/
theorem stepJ_rejected (g : Geom) (l : Log) (c : Call) (out : Outcome) (order : List Bytes)
    (h : Rejected l c out) : l.stepJ g c order = [] := by
  cases h with
  | createExisting q h => simp [stepJ, h]
  | deleteMissing q h => simp [stepJ, h]
  | truncateMissing q p h => simp [stepJ, h]
  | appendMissing q pos pls h => simp [stepJ, h]
  | appendRetry q mq p pls h hp => simp [stepJ, h, hp]
  | appendPast q mq p pls h hp =>
    have h1 : ¬ (p + 1 = mq.nextPosition) := by omega
    have h2 : p < mq.nextPosition := by omega
    simp [stepJ, h, h1, h2]
  | appendEmpty q mq pos h hp =>
    cases pos with
    | none => simp [stepJ, h]
    | some p =>
      have := hp p rfl
      have h1 : ¬ (p + 1 = mq.nextPosition) := by omega
      have h2 : ¬ (p < mq.nextPosition) := by omega
      simp [stepJ, h, h1, h2]

/-- **C13 on the end-to-end system.** A rejected / no-op call leaves the whole system state —
    log, journal, OS image, `BufWriter` — exactly as it was. -/
theorem C13_state_unchanged (g : Geom) (cap : Nat) (s : Sys) (c : Call) (out : Outcome) (tick : Bool)
    (order : List Bytes) (h : Rejected s.l c out) : s.step g cap c tick order = s := by
  have h1 := C13_no_trace g s.l tick order c out h
  have h2 := stepJ_rejected g s.l c out order h
  cases s with
  | mk l J img b =>
    simp only [Sys.step, h1, h2, List.append_nil, toOsOps, applyOsOps, List.foldl_nil]

/-- **C13 across restarts.** After a rejected / no-op call the flushed disk is the same, so every
    later restart — any policy, any GC order, any I/O fault plan — returns the same result, and
    the set of possible restarted states is the same. -/
theorem C13_restart_unaffected (g : Geom) (cap : Nat) (s : Sys) (c : Call) (out : Outcome) (tick : Bool)
    (order : List Bytes) (h : Rejected s.l c out) :
    (s.step g cap c tick order).disk = s.disk ∧
    (∀ policy order' fa, recover g (s.step g cap c tick order).disk policy order' fa =
      recover g s.disk policy order' fa) ∧
    (∀ policy order' s', Reopens g cap (s.step g cap c tick order) policy order' s' ↔
      Reopens g cap s policy order' s') := by
  rw [C13_state_unchanged g cap s c out tick order h]
  exact ⟨rfl, fun _ _ _ => rfl, fun _ _ _ => Iff.rfl⟩

/-- non-vacuity: `C13`'s concrete log with its four rejected shapes, as a system state -/
example (g : Geom) (cap : Nat) (img : Image) (b : BufSt) :
    let l : Log := { files := [0], cur := 0, off := 0, policy := .doNothing,
                     queues := [([1], { start := 5, recs := [] })] }
    let s : Sys := ⟨l, [], img, b⟩
    s.step g cap (.create [1]) false [] = s ∧ s.step g cap (.delete [2]) false [] = s ∧
    s.step g cap (.append [1] (some 4) [[9]]) false [] = s ∧
    s.step g cap (.append [1] (some 2) [[9]]) false [] = s := by
  intro l s
  exact ⟨C13_state_unchanged g cap s _ .alreadyExists false [] (.createExisting _ rfl),
    C13_state_unchanged g cap s _ .missingQueue false [] (.deleteMissing _ rfl),
    C13_state_unchanged g cap s _ (.appended none 0) false []
      (.appendRetry _ { start := 5, recs := [] } _ _ rfl rfl),
    C13_state_unchanged g cap s _ .past false []
      (.appendPast _ { start := 5, recs := [] } _ _ rfl (by decide))⟩

end MRL.C13R
