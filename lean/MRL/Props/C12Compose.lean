/-
C12 composed — after any crash (`C12_crash`) or any in-place damage (`C12_damage`), the recovered
records of one batch are all of it or none of it, apart from a leading part legitimately removed
by truncation.

Both statements have the same shape. The reader delivers some list `L` of the API-level entries
(a prefix `entries.take j` after a crash — C02; a sub-sequence after damage — C08G); `replay`
acts on exactly `L`. Whenever the replay succeeds, for EVERY way of writing
`L = es₁ ++ [(file, append name p b)] ++ es₂` — i.e. for every batch `b` that was delivered — and
the final state `q` of queue `name` (if it still exists):

    plain q = pre ++ b.drop k' ++ post

the surviving records of the batch are a CONTIGUOUS SUFFIX `b.drop k'` of it, preceded only by
records of earlier delivered appends to `name` (`pre`, empty as soon as `0 < k'`), followed only
by records of later delivered appends (`post`); and unless a delivered `truncate name` follows,
`k' = 0` (whole batch) or `b.length ≤ k'` (nothing of it). A batch that was NOT delivered
contributes nothing: every record of every queue is a record of a delivered append
(`records_from_delivered`).

Ingredients: `C02.C02_torn_tail`, `C08G.C08_genuine_records`, `C12.replay_batch_suffix`,
`C08.replay_records_subset`, `C07.decode_encode`.
-/
import MRL.Props.C08Genuine
import MRL.Props.C12

namespace MRL.C12C
open MRL Consts Codec Torn Gen Rec

/-- the conclusion about one delivered batch, spelled out -/
def BatchSuffix (b : List (Nat × Bytes)) (name : Bytes) (es₁ es₂ : List (Nat × Entry)) (q : MemQueue) : Prop :=
  ∃ pre k' post, plain q = pre ++ b.drop k' ++ post ∧ (0 < k' → pre = []) ∧
    (∀ r ∈ pre, (name, r.1, r.2) ∈ recordsOf es₁) ∧ (∀ r ∈ post, (name, r.1, r.2) ∈ recordsOf es₂) ∧
    (noTrunc name es₂ = true → k' = 0 ∨ b.length ≤ k')

/-- what holds of the queues `qs` obtained by replaying the delivered entries `L` -/
def AllOrSuffix (L : List (Nat × Entry)) (qs : MemQueues) : Prop :=
  (∀ es₁ es₂ f name p b, L = es₁ ++ [(f, Entry.append name p b)] ++ es₂ →
    ∀ q, qs.get? name = some q → BatchSuffix b name es₁ es₂ q) ∧
  (∀ kv ∈ qs, ∀ rec ∈ kv.2.recs, (kv.1, rec.pos, rec.payload) ∈ recordsOf L)

/-- the core: any successfully replayed list of entries -/
theorem allOrSuffix_of_replay (L : List (Nat × Entry)) (qs : MemQueues) (h : replayEntries [] L = some qs) :
    AllOrSuffix L qs := by
  refine ⟨?_, C08.replay_records_subset L qs h⟩
  intro es₁ es₂ f name p b hL q hq
  subst hL
  have hW := C12.replay_batch_suffix es₁ es₂ f name p b qs h
  rw [hq] at hW
  exact hW

/-- records of undelivered appends are nowhere -/
theorem records_from_delivered {L : List (Nat × Entry)} {qs : MemQueues} (h : AllOrSuffix L qs) :
    ∀ kv ∈ qs, ∀ rec ∈ kv.2.recs, (kv.1, rec.pos, rec.payload) ∈ recordsOf L := h.2

/-- **C12_crash.** After a crash at ANY byte offset `k` (setting of `C02_torn_tail`, API-level
    entries): the reader delivers the prefix `entries.take j` (`j = m` or `m + 1`), and whenever the
    replay succeeds every delivered batch is all-or-suffix. -/
theorem C12_crash (g : Geom) (hB : g.B ≤ 65542) (c : Nat) (hc : c < g.B) (entries : List Entry)
    (hwf : ∀ e ∈ entries, C07.WF e) (file : Nat)
    (hT : C02.TornOK g c hc (entries.map Entry.encode)) (k z : Nat)
    (hk : k ≤ (C07.writeEntriesBufs g c hc (entries.map Entry.encode)).flatten.length) (hz : g.B + 7 ≤ z) :
    let es := entries.map Entry.encode
    let stream := zeros c ++ (C07.writeEntriesBufs g c hc es).flatten.take k ++ zeros z
    let m := C02.wholeCount g c hc es k
    stream.length % g.B = 0 →
    ∃ b0 rest evs e io j,
      fileBlocks g file stream 1 0 (stream.length / g.B) = b0 :: rest ∧
      scanBlocks g none 1 0 b0 c rest = some (evs, e, io) ∧
      (j = m ∨ j = m + 1) ∧
      decoded (assemble { within := false, buf := [], attr := file } evs) =
        (entries.take j).map (fun en => (file, en)) ∧
      ∀ qs, replay [] (assemble { within := false, buf := [], attr := file } evs) = some qs →
        AllOrSuffix ((entries.take j).map fun en => (file, en)) qs := by
  intro es stream m hmod
  obtain ⟨b0, rest, evs, e, io, j, h1, h2, h3, h4, _, _⟩ :=
    C02.C02_torn_tail g hB c hc es file hT k z hk hz hmod
  have hdec : decoded (assemble { within := false, buf := [], attr := file } evs) =
      (entries.take j).map (fun en => (file, en)) := by
    rw [← decoded_entriesOf]
    have : C02.entriesOf (assemble { within := false, buf := [], attr := file } evs) =
        (entries.take j).map (fun en => RecEv.entry file en.encode) := by
      rw [h3]; simp [es, List.map_take]; rfl
    rw [show entriesOf _ = _ from this]
    exact decoded_encoded file _ (fun en he => C07.decode_encode en (hwf en (List.mem_of_mem_take he)))
  refine ⟨b0, rest, evs, e, io, j, h1, h2, h4, hdec, ?_⟩
  intro qs hq
  rw [replay_eq, hdec] at hq
  exact allOrSuffix_of_replay _ qs hq

/-- **C12_damage.** After ANY in-place damage (setting of `C08_genuine_entries`, API-level
    entries, `NoAccidentalFrame`): the reader delivers a sub-sequence `l'` of `entries`, and
    whenever the replay succeeds every delivered batch is all-or-suffix. -/
theorem C12_damage (g : Geom) (c : Nat) (hc : c < g.B) (entries : List Entry)
    (hwf : ∀ e ∈ entries, C07.WF e) (file z : Nat) (hz : 7 ≤ z) (W' : Bytes)
    (hN : C08G.NoAccidentalFrame g c hc (entries.map Entry.encode) W') :
    let es := entries.map Entry.encode
    let W := zeros c ++ (C07.writeEntriesBufs g c hc es).flatten ++ zeros z
    W.length % g.B = 0 → W'.length = W.length →
    ∃ b0 rest evs e io l',
      fileBlocks g file W' 1 0 (W'.length / g.B) = b0 :: rest ∧
      scanBlocks g none 1 0 b0 c rest = some (evs, e, io) ∧
      List.Sublist l' entries ∧
      decoded (assemble { within := false, buf := [], attr := file } evs) = l'.map (fun en => (file, en)) ∧
      ∀ qs, replay [] (assemble { within := false, buf := [], attr := file } evs) = some qs →
        AllOrSuffix (l'.map fun en => (file, en)) qs := by
  intro es W hmod hsame
  obtain ⟨b0, rest, evs, e, io, h1, h2, ⟨l', hl, hd⟩, _⟩ :=
    C08G.C08_genuine_records g c hc entries hwf file z hz W' hN hmod hsame
  refine ⟨b0, rest, evs, e, io, l', h1, h2, hl, hd, ?_⟩
  intro qs hq
  rw [replay_eq, hd] at hq
  exact allOrSuffix_of_replay _ qs hq

/-! ### non-vacuity: `AllOrSuffix` on a concrete replay -/

/-- a delivered list with a batch of three records followed by a truncation: the batch survives
    as its suffix `drop 1` -/
example : ∃ qs, replayEntries []
      ([(0, .touch [1] 0), (0, .append [1] 0 [(0, [7])])] ++ [(0, Entry.append [1] 1 [(1, [8]), (2, [9]), (3, [10])])] ++
        [(0, .truncate [1] 1)]) = some qs ∧
    (qs.get? [1]).map plain = some [(2, [9]), (3, [10])] ∧
    AllOrSuffix ([(0, .touch [1] 0), (0, .append [1] 0 [(0, [7])])] ++
      [(0, Entry.append [1] 1 [(1, [8]), (2, [9]), (3, [10])])] ++ [(0, .truncate [1] 1)]) qs := by
  have h : (replayEntries []
      ([(0, .touch [1] 0), (0, .append [1] 0 [(0, [7])])] ++ [(0, Entry.append [1] 1 [(1, [8]), (2, [9]), (3, [10])])] ++
        [(0, .truncate [1] 1)])).isSome = true := by decide
  obtain ⟨qs, hqs⟩ := Option.isSome_iff_exists.mp h
  refine ⟨qs, hqs, ?_, allOrSuffix_of_replay _ qs hqs⟩
  have : (replayEntries []
      ([(0, .touch [1] 0), (0, .append [1] 0 [(0, [7])])] ++ [(0, Entry.append [1] 1 [(1, [8]), (2, [9]), (3, [10])])] ++
        [(0, .truncate [1] 1)])).map (fun qs => (qs.get? [1]).map plain) = some (some [(2, [9]), (3, [10])]) := by
    decide
  rw [hqs] at this
  simpa using this

end MRL.C12C
