/-
C16 across calls: what each API call does to `memory_used_bytes`. `create_queue` adds the name;
`delete_queue` gives back the name and the queue's size; an effective append adds the payloads plus
one `RecordMeta` per record; `truncate` gives back the evicted payloads and metas; rejected and
no-op calls change nothing. Distinct queue names (`C05.Inv`) are needed: the total is a sum over
an association list.
-/
import MRL.Props.C16Restart
import MRL.Props.C13
import MRL.Proofs.QStepShape

namespace MRL.C16K
open MRL Log C16 C16R

variable (msz : Nat)

theorem usedBytes_eq (qs : MemQueues) : MemQueues.usedBytes msz qs = (qs.map (cost (MemQueue.size msz))).sum := rfl

/-! ### `set` and `remove` on maps with distinct names -/

theorem used_remove (qs : MemQueues) (hnd : (qs.map (·.1)).Nodup) (n : Bytes) (q0 : MemQueue)
    (hg : qs.get? n = some q0) :
    MemQueues.usedBytes msz (qs.remove n) + n.length + q0.size msz = MemQueues.usedBytes msz qs := by
  rw [usedBytes_eq, usedBytes_eq, sum_remove (MemQueue.size msz) qs hnd n q0 hg]
  simp only [cost]; omega

theorem used_set_new (qs : MemQueues) (n : Bytes) (q : MemQueue) (hg : qs.get? n = none) :
    MemQueues.usedBytes msz (qs.set n q) = MemQueues.usedBytes msz qs + n.length + q.size msz := by
  have hc : qs.contains n = false := by rw [contains_eq_isSome, hg]; rfl
  simp only [MemQueues.set, hc, Bool.false_eq_true, if_false, MemQueues.usedBytes, List.map_append,
    List.sum_append, List.map_cons, List.map_nil, List.sum_cons, List.sum_nil]
  omega

theorem used_set_replace (qs : MemQueues) (hnd : (qs.map (·.1)).Nodup) (n : Bytes) (q0 q : MemQueue)
    (hg : qs.get? n = some q0) :
    MemQueues.usedBytes msz (qs.set n q) + q0.size msz = MemQueues.usedBytes msz qs + q.size msz := by
  have hnd' := set_keys_nodup qs n q hnd
  have h1 := used_remove msz (qs.set n q) hnd' n q (Rec.get_set_same qs n q)
  have h2 := used_remove msz qs hnd n q0 hg
  have h3 : MemQueues.usedBytes msz ((qs.set n q).remove n) = MemQueues.usedBytes msz (qs.remove n) := by
    rw [usedBytes_eq, usedBytes_eq]
    apply sum_congr (MemQueue.size msz) _ _ (remove_keys_nodup _ n hnd') (remove_keys_nodup _ n hnd)
    intro m
    by_cases hm : m = n
    · subst hm; rw [Rec.get_remove_same, Rec.get_remove_same]
    · rw [Rec.get_remove_other _ n m hm, Rec.get_remove_other _ n m hm, Rec.get_set_other qs n m q hm]
  omega

/-! ### `appendAll` -/

theorem appendAll_size (file : Nat) (recs : List (Nat × Bytes)) : ∀ (q q' : MemQueue),
    appendAll q file recs = some q' →
    q'.size msz = q.size msz + (recs.map (·.2.length)).sum + msz * recs.length := by
  induction recs with
  | nil => intro q q' h; cases h; simp
  | cons r rs ih =>
    intro q q' h
    obtain ⟨p, pl⟩ := r
    simp only [appendAll] at h
    cases ha : q.appendRecord file p pl with
    | none => rw [ha] at h; cases h
    | some q1 =>
      rw [ha] at h
      have h1 := C16_append_grows msz q q1 file p pl ha
      have h2 := ih q1 q' h
      simp only [List.map_cons, List.sum_cons, List.length_cons, Nat.mul_succ]
      omega

theorem numberFrom_payload_sum (pos : Nat) (pls : List Bytes) :
    ((numberFrom pos pls).map (·.2.length)).sum = (pls.map List.length).sum ∧
    (numberFrom pos pls).length = pls.length := by
  induction pls generalizing pos with
  | nil => exact ⟨rfl, rfl⟩
  | cons p ps ih =>
    obtain ⟨h1, h2⟩ := ih (pos + 1)
    simp only [numberFrom, List.map_cons, List.sum_cons, List.length_cons, h1, h2, and_self]

/-! ### the calls -/

variable (g : Geom) (l : Log) (tick : Bool) (order : List Bytes)

/-- (a) **create** adds exactly the name -/
theorem C16_create (q : Bytes) (hg : l.queues.get? q = none) :
    MemQueues.usedBytes msz (Log.step g l (.create q) tick order).1.queues =
      MemQueues.usedBytes msz l.queues + q.length := by
  rw [(step_create_none g l tick order q hg).1, used_set_new msz _ q {} hg]
  simp [MemQueue.size]

/-- (b) **delete** gives back the name and the queue's size -/
theorem C16_delete (hI : C05.Inv l) (q : Bytes) (mq : MemQueue) (hg : l.queues.get? q = some mq) :
    MemQueues.usedBytes msz (Log.step g l (.delete q) tick order).1.queues + q.length + mq.size msz =
      MemQueues.usedBytes msz l.queues := by
  rw [(step_delete_some g l tick order q mq hg).1]
  exact used_remove msz l.queues hI.1 q mq hg

/-- (c) an effective **append** adds the payload bytes plus one `RecordMeta` per record -/
theorem C16_append (hI : C05.Inv l) (q : Bytes) (mq : MemQueue) (pos? : Option Nat) (pls : List Bytes)
    (hg : l.queues.get? q = some mq) (hp : ∀ p, pos? = some p → mq.nextPosition ≤ p) (hne : pls ≠ []) :
    MemQueues.usedBytes msz (Log.step g l (.append q pos? pls) tick order).1.queues =
      MemQueues.usedBytes msz l.queues + (pls.map List.length).sum + msz * pls.length := by
  have hpos : mq.nextPosition ≤ appendPos mq pos? := by
    cases pos? with
    | none => exact Nat.le_refl _
    | some p => exact hp p rfl
  obtain ⟨mq', hall⟩ := Step.appendAll_isSome l.cur pls mq (appendPos mq pos?) hpos
  rw [(step_append_ok g l tick order q mq mq' pos? pls hg hp hne hall).1]
  have h1 := used_set_replace msz l.queues hI.1 q mq mq' hg
  have h2 := appendAll_size msz l.cur _ mq mq' hall
  obtain ⟨h3, h4⟩ := numberFrom_payload_sum (appendPos mq pos?) pls
  rw [h3, h4] at h2
  omega

/-- (d) **truncate** gives back the evicted payloads and one `RecordMeta` per evicted record
    (nothing when the bound is below the queue's start) -/
theorem C16_truncate (hI : C05.Inv l) (q : Bytes) (mq : MemQueue) (p : Nat) (hg : l.queues.get? q = some mq) :
    (mq.start ≤ p →
      MemQueues.usedBytes msz (Log.step g l (.truncate q p) tick order).1.queues +
        evictedBytes mq p + msz * (mq.truncateHead p).2 = MemQueues.usedBytes msz l.queues) ∧
    (mq.start > p →
      MemQueues.usedBytes msz (Log.step g l (.truncate q p) tick order).1.queues =
        MemQueues.usedBytes msz l.queues) := by
  rw [(step_truncate_some g l tick order q p mq hg).1]
  have h1 := used_set_replace msz l.queues hI.1 q mq (mq.truncateHead p).1 hg
  have hq := C05.Inv.get hI hg
  constructor
  · intro hs
    have h2 := C16_truncate_drop msz mq p hq.1 hs
    omega
  · intro hs
    rw [C16_truncate_noop mq p hs] at h1 ⊢
    simp only at h1 ⊢
    omega

/-- (e) **rejected / no-op calls** change nothing -/
theorem C16_rejected (c : Call) (out : Outcome) (h : C13.Rejected l c out) :
    MemQueues.usedBytes msz (Log.step g l c tick order).1.queues = MemQueues.usedBytes msz l.queues := by
  rw [C13.C13_no_trace g l tick order c out h]

/-- `persist` changes nothing either -/
theorem C16_persist (a : PersistAction) :
    MemQueues.usedBytes msz (Log.step g l (.persist a) tick order).1.queues = MemQueues.usedBytes msz l.queues := rfl

/-- non-vacuity: on C16's example map (84 bytes with 24-byte metas), creating queue `[7,7]`,
    appending two payloads to `[97,98]`, truncating it, deleting it -/
example : let l : Log := { files := [0], cur := 0, off := 0, policy := .doNothing, queues := C16.qsEx }
    MemQueues.usedBytes 24 l.queues = 84 ∧ C05.Inv l := by
  refine ⟨by decide, by decide, ?_⟩
  intro kv hkv
  simp only [C16.qsEx, List.mem_cons, List.not_mem_nil, or_false] at hkv
  rcases hkv with rfl | rfl <;> exact ⟨by decide, by decide⟩

end MRL.C16K
