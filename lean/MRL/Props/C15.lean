/-
C15: `wal_bytes_written` reported by a call equals the number of bytes the call actually handed to
the WAL writer — frame headers and block padding included, GC touch entries included — and those
bytes form one contiguous run starting at the writer's cursor.
-/
import MRL.Proofs.StepLemmas

namespace MRL.C15
open MRL MRL.Log MRL.Step

/-! ### Definitions -/

def isWrite : Effect → Bool
  | .write _ _ _ => true
  | _ => false

/-- bytes carried by one effect -/
def effBytes : Effect → Nat
  | .write _ _ data => data.length
  | _ => 0

/-- total number of bytes handed to the WAL writer by a list of effects -/
def writtenBytes (es : List Effect) : Nat := (es.map effBytes).sum

/-- `wal_bytes_written` reported by an outcome -/
def walBytes : Outcome → Nat
  | .created n | .deleted n | .appended _ n | .truncated _ n => n
  | _ => 0

/-- running write cursor `(file, offset)`: every write continues the current file where the
    previous one ended, or starts a *different* file at offset 0 -/
def cursorAfter : (Nat × Nat) → List Effect → Option (Nat × Nat)
  | c, [] => some c
  | c, .write f off data :: es =>
    if (f = c.1 ∧ off = c.2) ∨ (f ≠ c.1 ∧ off = 0) then cursorAfter (f, off + data.length) es else none
  | c, _ :: es => cursorAfter c es

/-- every write effect carries at least one byte -/
def WritesNonempty (es : List Effect) : Prop := ∀ f off data, Effect.write f off data ∈ es → data ≠ []

/-! ### Algebra of the definitions -/

theorem walBytes_eq_outBytes (o : Outcome) : walBytes o = outBytes o := by cases o <;> rfl

@[simp] theorem writtenBytes_nil : writtenBytes [] = 0 := rfl

@[simp] theorem writtenBytes_append (a b : List Effect) :
    writtenBytes (a ++ b) = writtenBytes a + writtenBytes b := by
  simp [writtenBytes, List.map_append, List.sum_append]

@[simp] theorem writtenBytes_cons (e : Effect) (es : List Effect) :
    writtenBytes (e :: es) = effBytes e + writtenBytes es := by
  simp [writtenBytes]

theorem writtenBytes_persist (l : Log) (a : PersistAction) : writtenBytes (l.persistEffects a) = 0 := by
  cases a <;> simp [persistEffects, effBytes]

theorem writtenBytes_unlinks (fs : List Nat) : writtenBytes (fs.map Effect.unlink) = 0 := by
  induction fs with
  | nil => rfl
  | cons f fs ih => simp [effBytes, ih]

theorem writtenBytes_isSync (l : Log) (sy : List Effect) (h : IsSync l sy) : writtenBytes sy = 0 := by
  rcases h with rfl | ⟨a, rfl⟩
  · rfl
  · exact writtenBytes_persist l a

theorem cursorAfter_append (a b : List Effect) :
    ∀ c, cursorAfter c (a ++ b) = (cursorAfter c a).bind fun c' => cursorAfter c' b := by
  induction a with
  | nil => intro c; rfl
  | cons e es ih =>
    intro c
    cases e <;> simp only [List.cons_append, cursorAfter, ih]
    split
    · rfl
    · rfl

theorem cursorAfter_noWrite (es : List Effect) (h : es.all (fun e => !isWrite e) = true) :
    ∀ c, cursorAfter c es = some c := by
  induction es with
  | nil => intro c; rfl
  | cons e es ih =>
    intro c
    simp only [List.all_cons, Bool.and_eq_true] at h
    obtain ⟨h1, h2⟩ := h
    cases e <;> first | (simp [isWrite] at h1; done) | simp only [cursorAfter, ih h2]

theorem noWrite_persist (l : Log) (a : PersistAction) :
    (l.persistEffects a).all (fun e => !isWrite e) = true := by
  cases a <;> rfl

theorem noWrite_unlinks (fs : List Nat) : (fs.map Effect.unlink).all (fun e => !isWrite e) = true := by
  induction fs with
  | nil => rfl
  | cons f fs ih => simp [isWrite]

theorem noWrite_isSync (l : Log) (sy : List Effect) (h : IsSync l sy) :
    sy.all (fun e => !isWrite e) = true := by
  rcases h with rfl | ⟨a, rfl⟩
  · rfl
  · exact noWrite_persist l a

theorem WritesNonempty.append {a b : List Effect} (ha : WritesNonempty a) (hb : WritesNonempty b) :
    WritesNonempty (a ++ b) := by
  intro f off data h
  rcases List.mem_append.mp h with h | h
  · exact ha f off data h
  · exact hb f off data h

theorem writesNonempty_of_noWrite (es : List Effect) (h : es.all (fun e => !isWrite e) = true) :
    WritesNonempty es := by
  intro f off data hm
  have := List.all_eq_true.mp h _ hm
  simp [isWrite] at this

/-- with non-empty writes, zero bytes means no write at all -/
theorem writtenBytes_eq_zero_iff (es : List Effect) (h : WritesNonempty es) :
    writtenBytes es = 0 ↔ es.all (fun e => !isWrite e) = true := by
  induction es with
  | nil => simp
  | cons e es ih =>
    have h' : WritesNonempty es := fun f off data hm => h f off data (List.mem_cons_of_mem _ hm)
    cases e with
    | write f off data =>
      have hne : data ≠ [] := h f off data (List.mem_cons_self)
      have : data.length ≠ 0 := fun h0 => hne (List.eq_nil_of_length_eq_zero h0)
      simp [effBytes, isWrite, this]
    | _ => simpa [effBytes, isWrite] using ih h'

/-! ### Buffers of one entry are non-empty -/

/-- every buffer `write_frame` hands to the writer is non-empty: the padding is
    `B - c > 0` zero bytes, a frame has at least its 7 header bytes -/
theorem frameWrites_nonempty (g : Geom) (c : Nat) (hc : c < g.B) (t : FrameType) (p : Bytes) :
    ∀ b ∈ frameWrites g c t p, b ≠ [] := by
  intro b hb
  have hf : encodeFrame t p ≠ [] := encodeFrame_ne_nil t p
  unfold frameWrites at hb
  split at hb
  · simp only [List.mem_cons, List.not_mem_nil, or_false] at hb
    rcases hb with rfl | rfl
    · intro h
      have : (zeros (g.B - c)).length = 0 := by rw [h]; rfl
      simp [zeros] at this
      omega
    · exact hf
  · simp only [List.mem_cons, List.not_mem_nil, or_false] at hb
    subst hb
    exact hf

theorem frameWrites_totalLen_pos (g : Geom) (c : Nat) (t : FrameType) (p : Bytes) :
    0 < totalLen (frameWrites g c t p) := by
  have := encodeFrame_length t p
  unfold frameWrites
  split <;> simp [totalLen, this, Consts.HEADER_LEN] <;> omega

theorem writeEntryBufs_nonempty (g : Geom) (c : Nat) (isFirst : Bool) (payload : Bytes) (hc : c < g.B) :
    ∀ b ∈ writeEntryBufs g c isFirst payload hc, b ≠ [] := by
  fun_induction writeEntryBufs g c isFirst payload hc with
  | case1 c isFirst payload hc n rest bufs hr =>
    exact frameWrites_nonempty g c hc _ _
  | case2 c isFirst payload hc n rest bufs hr ih =>
    intro b hb
    rcases List.mem_append.mp hb with hb | hb
    · exact frameWrites_nonempty g c hc _ _ b hb
    · exact ih b hb

theorem writeEntryBufs_totalLen_pos (g : Geom) (c : Nat) (isFirst : Bool) (payload : Bytes) (hc : c < g.B) :
    0 < totalLen (writeEntryBufs g c isFirst payload hc) := by
  unfold writeEntryBufs
  have := frameWrites_totalLen_pos g c
  dsimp only
  split
  · exact this _ _
  · simp only [totalLen, List.map_append, List.sum_append] at *
    exact Nat.lt_of_lt_of_le (this _ _) (Nat.le_add_right _ _)

/-- every buffer of an entry is non-empty -/
theorem entryBufs_nonempty (g : Geom) (l : Log) (e : Entry) : ∀ b ∈ entryBufs g l e, b ≠ [] :=
  writeEntryBufs_nonempty g _ true _ _

/-! ### The write path, function by function -/

section
variable (g : Geom)

theorem writeBuf_bytes (l : Log) (buf : Bytes) : writtenBytes (writeBuf g l buf).2 = buf.length := by
  unfold writeBuf
  split
  · rename_i h
    simp [List.isEmpty_iff.mp h]
  · split
    · split <;> simp [effBytes]
    · simp [effBytes]

theorem writeBuf_nonempty (l : Log) (buf : Bytes) : WritesNonempty (writeBuf g l buf).2 := by
  intro f off data hm
  unfold writeBuf at hm
  split at hm
  · simp at hm
  · rename_i hne
    have hb : buf ≠ [] := fun h => hne (by simp [h])
    split at hm
    · split at hm <;> simp at hm <;> (obtain ⟨_, _, rfl⟩ := hm; exact hb)
    · simp at hm
      obtain ⟨_, _, rfl⟩ := hm
      exact hb

theorem nextFile_gt (files : List Nat) (f nf : Nat) (h : nextFile files f = some nf) : f < nf := by
  unfold nextFile at h
  simpa using List.find?_some h

theorem writeBuf_cursor (l : Log) (buf : Bytes) :
    cursorAfter (l.cur, l.off) (writeBuf g l buf).2 = some ((writeBuf g l buf).1.cur, (writeBuf g l buf).1.off) := by
  unfold writeBuf
  split
  · rfl
  · split
    · split
      · rename_i nf h
        have := nextFile_gt _ _ _ h
        have hne : nf ≠ l.cur := by omega
        simp [cursorAfter, hne]
      · simp [cursorAfter]
    · simp [cursorAfter]

theorem writeBufs_bytes (bufs : List Bytes) :
    ∀ l : Log, writtenBytes (writeBufs g l bufs).2 = totalLen bufs := by
  induction bufs with
  | nil => intro l; rfl
  | cons b bs ih =>
    intro l
    rw [writeBufs_cons, writtenBytes_append, writeBuf_bytes, ih]
    simp [totalLen]

theorem writeBufs_nonempty (bufs : List Bytes) : ∀ l : Log, WritesNonempty (writeBufs g l bufs).2 := by
  induction bufs with
  | nil => intro l f off data hm; simp [writeBufs_nil] at hm
  | cons b bs ih =>
    intro l
    rw [writeBufs_cons]
    exact (writeBuf_nonempty g l b).append (ih _)

theorem writeBufs_cursor (bufs : List Bytes) :
    ∀ l : Log, cursorAfter (l.cur, l.off) (writeBufs g l bufs).2 =
      some ((writeBufs g l bufs).1.cur, (writeBufs g l bufs).1.off) := by
  induction bufs with
  | nil => intro l; rfl
  | cons b bs ih =>
    intro l
    rw [writeBufs_cons, cursorAfter_append, writeBuf_cursor]
    exact ih _

/-- `num_bytes_written` of `write_record` is what reaches the writer -/
theorem writeEntry_bytes (l : Log) (e : Entry) :
    writtenBytes (l.writeEntry g e).2.1 = (l.writeEntry g e).2.2 := by
  rw [writeEntry_eq]
  exact writeBufs_bytes g _ l

theorem writeEntry_nonempty (l : Log) (e : Entry) : WritesNonempty (l.writeEntry g e).2.1 := by
  rw [writeEntry_eq]
  exact writeBufs_nonempty g _ l

theorem writeEntry_cursor (l : Log) (e : Entry) :
    cursorAfter (l.cur, l.off) (l.writeEntry g e).2.1 =
      some ((l.writeEntry g e).1.cur, (l.writeEntry g e).1.off) := by
  rw [writeEntry_eq]
  exact writeBufs_cursor g _ l

/-- an entry always costs at least one frame header -/
theorem writeEntry_pos (l : Log) (e : Entry) : 0 < (l.writeEntry g e).2.2 := by
  rw [writeEntry_eq]
  exact writeEntryBufs_totalLen_pos g _ true _ _

theorem writeTouches_bytes (names : List Bytes) :
    ∀ l : Log, writtenBytes (writeTouches g l names).2.1 = (writeTouches g l names).2.2 := by
  induction names with
  | nil => intro l; rfl
  | cons n ns ih =>
    intro l
    rw [writeTouches_cons, writtenBytes_append, writeEntry_bytes, ih]

theorem writeTouches_nonempty (names : List Bytes) :
    ∀ l : Log, WritesNonempty (writeTouches g l names).2.1 := by
  induction names with
  | nil => intro l f off data hm; simp [writeTouches_nil] at hm
  | cons n ns ih =>
    intro l
    rw [writeTouches_cons]
    exact (writeEntry_nonempty g l _).append (ih _)

theorem writeTouches_cursor (names : List Bytes) :
    ∀ l : Log, cursorAfter (l.cur, l.off) (writeTouches g l names).2.1 =
      some ((writeTouches g l names).1.cur, (writeTouches g l names).1.off) := by
  induction names with
  | nil => intro l; rfl
  | cons n ns ih =>
    intro l
    rw [writeTouches_cons, cursorAfter_append, writeEntry_cursor]
    exact ih _

theorem runGc_bytes (l : Log) (order : List Bytes) :
    writtenBytes (runGc g l order).2.1 = (runGc g l order).2.2 := by
  rcases runGc_cases g l order with h | h
  · rw [h]; rfl
  · rw [h]
    simp only [writtenBytes_append, writtenBytes_persist, writtenBytes_unlinks, writeTouches_bytes]
    rfl

theorem runGc_nonempty (l : Log) (order : List Bytes) : WritesNonempty (runGc g l order).2.1 := by
  rcases runGc_cases g l order with h | h
  · rw [h]; intro f off data hm; simp at hm
  · rw [h]
    exact ((writeTouches_nonempty g _ l).append (writesNonempty_of_noWrite _ (noWrite_persist _ _))).append
      (writesNonempty_of_noWrite _ (noWrite_unlinks _))

theorem runGc_cursor (l : Log) (order : List Bytes) :
    cursorAfter (l.cur, l.off) (runGc g l order).2.1 =
      some ((runGc g l order).1.cur, (runGc g l order).1.off) := by
  rcases runGc_cases g l order with h | h
  · rw [h]; rfl
  · rw [h]
    simp only [cursorAfter_append, writeTouches_cursor, Option.bind_some,
      cursorAfter_noWrite _ (noWrite_persist _ _), cursorAfter_noWrite _ (noWrite_unlinks _)]

end

/-! ### The property -/

variable (g : Geom) (l : Log) (c : Call) (tick : Bool) (order : List Bytes)

/-- all three facts about one call, from the shape of `step` -/
theorem step_facts :
    let r := Log.step g l c tick order
    walBytes r.2.1 = writtenBytes r.2.2 ∧ WritesNonempty r.2.2 ∧
      cursorAfter (l.cur, l.off) r.2.2 = some (r.1.cur, r.1.off) := by
  intro r
  rcases step_shape g l c tick order with ⟨out, h, h0⟩ | ⟨a, h⟩ | ⟨e, qs', gc, sy, out, h, hb, hs⟩
  · simp only [r, h, walBytes_eq_outBytes, h0]
    exact ⟨rfl, fun f off data hm => by simp at hm, rfl⟩
  · simp only [r, h]
    exact ⟨(writtenBytes_persist l a).symm, writesNonempty_of_noWrite _ (noWrite_persist l a),
      cursorAfter_noWrite _ (noWrite_persist l a) _⟩
  · simp only [r, h, walBytes_eq_outBytes, hb]
    cases gc with
    | false =>
      simp only [Bool.false_eq_true, if_false, List.append_nil] at hs ⊢
      refine ⟨?_, ?_, ?_⟩
      · rw [writtenBytes_append, writeEntry_bytes, writtenBytes_isSync _ _ hs]
      · exact (writeEntry_nonempty g l e).append (writesNonempty_of_noWrite _ (noWrite_isSync _ _ hs))
      · rw [cursorAfter_append, writeEntry_cursor, Option.bind_some, cursorAfter_noWrite _ (noWrite_isSync _ _ hs)]
    | true =>
      simp only [if_true] at hs ⊢
      refine ⟨?_, ?_, ?_⟩
      · rw [writtenBytes_append, writtenBytes_append, writeEntry_bytes, runGc_bytes, writtenBytes_isSync _ _ hs]
        rfl
      · exact ((writeEntry_nonempty g l e).append (runGc_nonempty g _ order)).append
          (writesNonempty_of_noWrite _ (noWrite_isSync _ _ hs))
      · rw [cursorAfter_append, cursorAfter_append, writeEntry_cursor, Option.bind_some]
        have := runGc_cursor g { (l.writeEntry g e).1 with queues := qs' } order
        simp only at this
        rw [this, Option.bind_some, cursorAfter_noWrite _ (noWrite_isSync _ _ hs)]

/-- **C15.** The byte count reported by a call is exactly the number of bytes the call handed to
    the WAL writer (frame headers, block padding and GC touch entries included). -/
theorem C15_bytes_exact :
    let r := Log.step g l c tick order
    walBytes r.2.1 = writtenBytes r.2.2 :=
  (step_facts g l c tick order).1

/-- every write effect of a call carries at least one byte -/
theorem C15_writes_nonempty : WritesNonempty (Log.step g l c tick order).2.2 :=
  (step_facts g l c tick order).2.1

/-- **C15.** Zero reported bytes ⇔ the call did not write to the WAL at all. -/
theorem C15_zero_iff :
    let r := Log.step g l c tick order
    walBytes r.2.1 = 0 ↔ r.2.2.all (fun e => !isWrite e) = true := by
  intro r
  rw [show walBytes r.2.1 = writtenBytes r.2.2 from C15_bytes_exact g l c tick order]
  exact writtenBytes_eq_zero_iff _ (C15_writes_nonempty g l c tick order)

/-- **C15.** The writes of one call are contiguous: starting from the writer's cursor
    `(cur, off)`, each write continues the current file where the previous one ended or opens a
    different file at offset 0, and the run ends at the new cursor. -/
theorem C15_contiguous :
    let r := Log.step g l c tick order
    cursorAfter (l.cur, l.off) r.2.2 = some (r.1.cur, r.1.off) :=
  (step_facts g l c tick order).2.2

/-- a successful `create_queue` always reports a positive byte count (at least one frame header) -/
theorem C15_created_pos (q : Bytes) (h : l.queues.contains q = false) :
    0 < walBytes (Log.step g l (.create q) tick order).2.1 := by
  simp only [step, h, Bool.false_eq_true, if_false, walBytes]
  exact writeEntry_pos g l _

/-! ### Non-vacuity -/

/-- geometry with 16-byte blocks, 4 blocks per file -/
def g16 : Geom := { B := 16, K := 4, hB := by decide, hK := by decide }

def l0 : Log :=
  { files := [0], cur := 0, off := 11, policy := .doNothing, queues := [([1], {})] }

/-- Appending a 1-byte payload (25 entry bytes) at in-block offset 11 of a 16-byte block: the 5
    bytes left cannot hold a header, so the call writes 5 padding bytes, then three frames of
    16, 16 and 14 bytes. All 51 bytes are reported, the padding included, and the first write
    effect is the padding at `(file 0, offset 11)`. -/
example :
    let r := Log.step g16 l0 (.append [1] none [[7]]) false []
    r.2.2.map effBytes = [5, 16, 16, 14] ∧ r.2.1 = .appended (some 0) 51 ∧
      r.2.2.head? = some (.write 0 11 (zeros 5)) := by
  simp [step, l0, g16, MemQueues.get?, MemQueue.nextPosition, numberFrom, Log.writeEntry, MRL.writeEntry,
    Entry.encode, Entry.encodeRaw, Entry.encodeRecs, leBytes, appendAll, MemQueue.appendRecord]
  rw [writeEntryBufs]
  simp [maxFrameLen, frameWrites, frameEndCursor, adv, Consts.HEADER_LEN]
  rw [writeEntryBufs]
  simp [maxFrameLen, frameWrites, frameEndCursor, adv, Consts.HEADER_LEN]
  rw [writeEntryBufs]
  simp [maxFrameLen, frameWrites, Consts.HEADER_LEN]
  simp [writeBufs, writeBuf, Geom.fileBytes, effBytes, encodeFrame_length, policyEffects, totalLen, zeros,
    encodeFrame_ne_nil, Consts.HEADER_LEN]

/-- …and the general theorems apply to it: 51 = 5 + 16 + 16 + 14, contiguous from `(0, 11)` to `(0, 62)` -/
example :
    let r := Log.step g16 l0 (.append [1] none [[7]]) false []
    walBytes r.2.1 = writtenBytes r.2.2 ∧ cursorAfter (0, 11) r.2.2 = some (r.1.cur, r.1.off) :=
  ⟨C15_bytes_exact g16 l0 _ false [], C15_contiguous g16 l0 _ false []⟩

end MRL.C15
