/-
C17: only `wal-<20 ASCII digits>` names (value fitting a `u64`) are WAL files; `fileName` and
`parseFileName` are mutually inverse on `u64`; every file the log touches is a tracked file number.
-/
import MRL.Proofs.StepLemmas
import MRL.Model.FileName

namespace MRL.C17
open MRL MRL.Log MRL.Step MRL.Consts

/-! ### Decimal digits -/

theorem namePrefix_eq : namePrefix = [119, 97, 108, 45] := by
  unfold namePrefix Consts.NAME_PREFIX
  with_unfolding_all decide

theorem namePrefix_length : namePrefix.length = 4 := by rw [namePrefix_eq]; rfl

theorem decDigits_length (n k : Nat) : (decDigits n k).length = k := by
  induction k generalizing n with
  | zero => rfl
  | succ k ih => simp [decDigits, ih]

theorem digit_toNat (d : Nat) (h : d < 10) : (48 + d).toUInt8.toNat = 48 + d := by
  simp [Nat.toUInt8_eq]
  omega

theorem asciiDigit_iff (b : UInt8) : asciiDigit b = true ↔ 48 ≤ b.toNat ∧ b.toNat ≤ 57 := by
  simp [asciiDigit]

theorem decDigits_ascii (n k : Nat) : ∀ b ∈ decDigits n k, asciiDigit b = true := by
  induction k generalizing n with
  | zero => intro b hb; simp [decDigits] at hb
  | succ k ih =>
    intro b hb
    simp only [decDigits, List.mem_append, List.mem_singleton] at hb
    rcases hb with hb | rfl
    · exact ih _ b hb
    · rw [asciiDigit_iff, digit_toNat _ (Nat.mod_lt _ (by decide))]
      have := Nat.mod_lt n (show 0 < 10 by decide)
      omega

theorem decValue_snoc (ds : Bytes) (b : UInt8) : decValue (ds ++ [b]) = decValue ds * 10 + (b.toNat - 48) := by
  simp [decValue, List.foldl_append]

/-- the value of the `k` low digits of `n` is `n mod 10^k` -/
theorem decValue_decDigits (n k : Nat) : decValue (decDigits n k) = n % 10 ^ k := by
  induction k generalizing n with
  | zero => simp [decDigits, decValue, Nat.mod_one]
  | succ k ih =>
    rw [decDigits, decValue_snoc, ih, digit_toNat _ (Nat.mod_lt _ (by decide)), Nat.pow_succ,
      Nat.mul_comm (10 ^ k) 10, Nat.mod_mul]
    omega

/-- a string of `k` ASCII digits is the `k`-digit rendering of its value -/
theorem decDigits_decValue_rev (rs : Bytes) (h : ∀ b ∈ rs, asciiDigit b = true) :
    decDigits (decValue rs.reverse) rs.length = rs.reverse := by
  induction rs with
  | nil => rfl
  | cons b rs ih =>
    have hb := (asciiDigit_iff b).mp (h b List.mem_cons_self)
    have ih' := ih (fun x hx => h x (List.mem_cons_of_mem _ hx))
    rw [List.reverse_cons, decValue_snoc, List.length_cons, decDigits]
    have h1 : (decValue rs.reverse * 10 + (b.toNat - 48)) / 10 = decValue rs.reverse := by omega
    have h2 : (decValue rs.reverse * 10 + (b.toNat - 48)) % 10 = b.toNat - 48 := by omega
    rw [h1, h2, ih']
    congr 2
    have : 48 + (b.toNat - 48) = b.toNat := by omega
    rw [this, Nat.toUInt8_eq, UInt8.ofNat_toNat]

theorem decDigits_decValue (ds : Bytes) (h : ds.all asciiDigit = true) :
    decDigits (decValue ds) ds.length = ds := by
  have := decDigits_decValue_rev ds.reverse (by
    intro b hb
    exact List.all_eq_true.mp h b (List.mem_reverse.mp hb))
  simpa using this

/-! ### `fileName` and `parseFileName` -/

theorem fileName_length (n : Nat) : (fileName n).length = NAME_LEN := by
  simp [fileName, namePrefix_length, decDigits_length, NAME_DIGITS, NAME_LEN]

theorem two64_lt : 2 ^ 64 < 10 ^ 20 := by decide

/-- **C17.** Every `u64` file number round-trips through its name. -/
theorem parse_fileName (n : Nat) (h : n < 2 ^ 64) : parseFileName (fileName n) = some n := by
  have hv : decValue (decDigits n NAME_DIGITS) = n := by
    rw [decValue_decDigits]
    exact Nat.mod_eq_of_lt (Nat.lt_trans h two64_lt)
  have hd : (decDigits n NAME_DIGITS).all asciiDigit = true :=
    List.all_eq_true.mpr (decDigits_ascii n _)
  have htake : (fileName n).take 4 = namePrefix := List.take_left' namePrefix_length
  have hdrop : (fileName n).drop 4 = decDigits n NAME_DIGITS := List.drop_left' namePrefix_length
  unfold parseFileName
  simp only [fileName_length, htake, hdrop, hd, hv, h, ne_eq, not_true_eq_false, if_false, if_true,
    Bool.not_true, Bool.false_eq_true]

/-- **C17.** Only names of the form `wal-<20 ASCII digits>` with a value below `2^64` parse, and
    they parse to the number they render: exactly 24 bytes, the 4-byte prefix, 20 digits. -/
theorem parse_format (s : Bytes) (n : Nat) (h : parseFileName s = some n) : s = fileName n ∧ n < 2 ^ 64 := by
  unfold parseFileName at h
  split at h
  · cases h
  · rename_i hlen
    split at h
    · cases h
    · rename_i hpre
      simp only at h
      split at h
      · cases h
      · rename_i hdig
        split at h
        · rename_i hlt
          injection h with h
          subst h
          refine ⟨?_, hlt⟩
          have hlen' : s.length = 24 := by simpa [NAME_LEN] using hlen
          have hpre' : s.take 4 = namePrefix := by simpa using hpre
          have hdig' : (s.drop 4).all asciiDigit = true := by simpa using hdig
          have hl : (s.drop 4).length = NAME_DIGITS := by simp [hlen', NAME_DIGITS]
          have := decDigits_decValue (s.drop 4) hdig'
          rw [hl] at this
          unfold fileName
          rw [this, ← hpre', List.take_append_drop]
        · cases h

theorem parse_some_iff (s : Bytes) (n : Nat) : parseFileName s = some n ↔ s = fileName n ∧ n < 2 ^ 64 :=
  ⟨parse_format s n, fun ⟨hs, hn⟩ => hs ▸ parse_fileName n hn⟩

/-- two names of the same file number are the same name -/
theorem parse_injective (s s' : Bytes) (n : Nat) (h : parseFileName s = some n) (h' : parseFileName s' = some n) :
    s = s' := by
  rw [(parse_format s n h).1, (parse_format s' n h').1]

/-- different `u64` numbers have different names -/
theorem fileName_injective (n m : Nat) (hn : n < 2 ^ 64) (hm : m < 2 ^ 64) (h : fileName n = fileName m) : n = m := by
  have := parse_fileName n hn
  rw [h, parse_fileName m hm] at this
  exact (Option.some.inj this).symm

/-- a name that is not exactly 24 bytes long is not a WAL file -/
theorem parse_wrong_length (s : Bytes) (h : s.length ≠ 24) : parseFileName s = none := by
  unfold parseFileName
  rw [if_pos (by simpa [NAME_LEN] using h)]

/-- a name that does not start with `wal-` is not a WAL file -/
theorem parse_wrong_prefix (s : Bytes) (h : s.take 4 ≠ [119, 97, 108, 45]) : parseFileName s = none := by
  unfold parseFileName
  split
  · rfl
  · rw [if_pos (by rw [namePrefix_eq]; exact h)]

/-- a byte outside `'0'..'9'` anywhere in positions 4..23 disqualifies the name -/
theorem parse_nondigit (s : Bytes) (i : Nat) (b : UInt8) (hi : 4 ≤ i) (hb : s[i]? = some b)
    (hnd : ¬ (48 ≤ b.toNat ∧ b.toNat ≤ 57)) : parseFileName s = none := by
  cases h : parseFileName s with
  | none => rfl
  | some n =>
    exfalso
    obtain ⟨hs, _⟩ := parse_format s n h
    have hmem : b ∈ s.drop 4 := by
      have : (s.drop 4)[i - 4]? = some b := by
        rw [List.getElem?_drop, show 4 + (i - 4) = i by omega, hb]
      exact List.mem_of_getElem? this
    have hdrop : s.drop 4 = decDigits n NAME_DIGITS := by
      rw [hs]; exact List.drop_left' namePrefix_length
    rw [hdrop] at hmem
    exact hnd ((asciiDigit_iff b).mp (decDigits_ascii n _ b hmem))

/-- in particular no byte `≥ 128` (so no non-ASCII "digit" of any script) can occur there -/
theorem parse_non_ascii (s : Bytes) (i : Nat) (b : UInt8) (hi : 4 ≤ i) (hb : s[i]? = some b)
    (h128 : 128 ≤ b.toNat) : parseFileName s = none :=
  parse_nondigit s i b hi hb (by omega)

/-- a 20-digit number that does not fit a `u64` is not a WAL file number -/
theorem parse_overflow (s : Bytes) (h : 2 ^ 64 ≤ decValue (s.drop 4)) : parseFileName s = none := by
  cases h' : parseFileName s with
  | none => rfl
  | some n =>
    exfalso
    obtain ⟨hs, hn⟩ := parse_format s n h'
    have hdrop : s.drop 4 = decDigits n NAME_DIGITS := by
      rw [hs]; exact List.drop_left' namePrefix_length
    rw [hdrop, decValue_decDigits, Nat.mod_eq_of_lt (Nat.lt_trans hn two64_lt)] at h
    omega

/-- **C17.** `Directory::open` tracks exactly the regular files whose name parses. -/
theorem listWal_only_named (entries : List (Bytes × EntryKind)) (f : Nat) :
    f ∈ listWal entries ↔ ∃ name, (name, EntryKind.regular) ∈ entries ∧ parseFileName name = some f := by
  unfold listWal
  rw [List.mem_filterMap]
  constructor
  · rintro ⟨⟨name, kind⟩, hm, h⟩
    simp only at h
    split at h
    · rename_i hk
      subst hk
      exact ⟨name, hm, h⟩
    · cases h
  · rintro ⟨name, hm, h⟩
    exact ⟨(name, .regular), hm, by simp [h]⟩

/-- tracked numbers are `u64`s and their directory entry is the canonical name -/
theorem listWal_canonical (entries : List (Bytes × EntryKind)) (f : Nat) (h : f ∈ listWal entries) :
    (fileName f, EntryKind.regular) ∈ entries ∧ f < 2 ^ 64 := by
  obtain ⟨name, hm, hp⟩ := (listWal_only_named entries f).mp h
  obtain ⟨hs, hf⟩ := parse_format name f hp
  exact ⟨hs ▸ hm, hf⟩

/-! ### Non-vacuity of the parser facts -/

example : parseFileName (fileName 42) = some 42 := by with_unfolding_all decide
example : fileName 42 = "wal-00000000000000000042".toUTF8.toList := by with_unfolding_all decide
example : parseFileName "wal-18446744073709551615".toUTF8.toList = some (2 ^ 64 - 1) := by with_unfolding_all decide
/-- `2^64` has 20 digits but does not fit -/
example : parseFileName "wal-18446744073709551616".toUTF8.toList = none := by with_unfolding_all decide
/-- 23 bytes -/
example : parseFileName "wal-0000000000000000042".toUTF8.toList = none := by with_unfolding_all decide
/-- 24 bytes, the last two being the UTF-8 encoding of ARABIC-INDIC DIGIT TWO -/
example : parseFileName "wal-000000000000000000٢".toUTF8.toList = none := by with_unfolding_all decide
example : parseFileName "WAL-00000000000000000042".toUTF8.toList = none := by with_unfolding_all decide
example : parseFileName "wal-+0000000000000000042".toUTF8.toList = none := by with_unfolding_all decide
example : listWal [("wal-00000000000000000007".toUTF8.toList, .regular),
    ("wal-00000000000000000008".toUTF8.toList, .other), ("wal-8".toUTF8.toList, .regular),
    ("wal-00000000000000000009.tmp".toUTF8.toList, .regular)] = [7] := by with_unfolding_all decide

/-! ### Files named by effects -/

/-- the file numbers an effect names -/
def effFiles : Effect → List Nat
  | .create f | .setLen f _ | .ensureLen f _ | .openFile f | .readBlock f | .write f _ _ | .fsyncFile f
  | .unlink f => [f]
  | .listDir | .flush | .fsyncDir => []

def touchedFiles (es : List Effect) : List Nat := es.flatMap effFiles

theorem mem_touched {es : List Effect} {f : Nat} : f ∈ touchedFiles es ↔ ∃ e ∈ es, f ∈ effFiles e := by
  simp [touchedFiles, List.mem_flatMap]

theorem touched_append (a b : List Effect) : touchedFiles (a ++ b) = touchedFiles a ++ touchedFiles b := by
  simp [touchedFiles]

/-- What a piece of the write path does to the tracker, assuming the current file is tracked. -/
structure Tr (l : Log) (es : List Effect) (l' : Log) : Prop where
  cur : l'.cur ∈ l'.files
  /-- a touched file is still tracked afterwards, or was unlinked -/
  post : ∀ f ∈ touchedFiles es, f ∈ l'.files ∨ Effect.unlink f ∈ es
  /-- a touched file was tracked before, or was created -/
  pre : ∀ f ∈ touchedFiles es, f ∈ l.files ∨ Effect.create f ∈ es
  /-- a tracked file was tracked before, or was created above some previously tracked file -/
  new : ∀ f ∈ l'.files, f ∈ l.files ∨ (Effect.create f ∈ es ∧ ∃ f' ∈ l.files, f' < f)
  /-- a file tracked before is still tracked, or was unlinked -/
  old : ∀ f ∈ l.files, f ∈ l'.files ∨ Effect.unlink f ∈ es

def R (l : Log) (es : List Effect) (l' : Log) : Prop := l.cur ∈ l.files → Tr l es l'

theorem R.same {l l' : Log} (hf : l'.files = l.files) (hc : l'.cur = l.cur) : R l [] l' := by
  intro h
  refine ⟨by rw [hf, hc]; exact h, ?_, ?_, ?_, ?_⟩
  · intro f hf'; simp [touchedFiles] at hf'
  · intro f hf'; simp [touchedFiles] at hf'
  · intro f hf'; rw [hf] at hf'; exact .inl hf'
  · intro f hf'; rw [hf]; exact .inl hf'

theorem R.trans {l l1 l2 : Log} {a b : List Effect} (h1 : R l a l1) (h2 : R l1 b l2) : R l (a ++ b) l2 := by
  intro h
  have t1 := h1 h
  have t2 := h2 t1.cur
  refine ⟨t2.cur, ?_, ?_, ?_, ?_⟩
  · intro f hf
    rw [touched_append, List.mem_append] at hf
    rcases hf with hf | hf
    · rcases t1.post f hf with h' | h'
      · rcases t2.old f h' with h'' | h''
        · exact .inl h''
        · exact .inr (List.mem_append_right _ h'')
      · exact .inr (List.mem_append_left _ h')
    · rcases t2.post f hf with h' | h'
      · exact .inl h'
      · exact .inr (List.mem_append_right _ h')
  · intro f hf
    rw [touched_append, List.mem_append] at hf
    rcases hf with hf | hf
    · rcases t1.pre f hf with h' | h'
      · exact .inl h'
      · exact .inr (List.mem_append_left _ h')
    · rcases t2.pre f hf with h' | h'
      · rcases t1.new f h' with h'' | ⟨h'', _⟩
        · exact .inl h''
        · exact .inr (List.mem_append_left _ h'')
      · exact .inr (List.mem_append_right _ h')
  · intro f hf
    rcases t2.new f hf with h' | ⟨hc, f', hf', hlt⟩
    · rcases t1.new f h' with h'' | ⟨hc, hx⟩
      · exact .inl h''
      · exact .inr ⟨List.mem_append_left _ hc, hx⟩
    · refine .inr ⟨List.mem_append_right _ hc, ?_⟩
      rcases t1.new f' hf' with h'' | ⟨_, f'', hf'', hlt'⟩
      · exact ⟨f', h'', hlt⟩
      · exact ⟨f'', hf'', Nat.lt_trans hlt' hlt⟩
  · intro f hf
    rcases t1.old f hf with h' | h'
    · rcases t2.old f h' with h'' | h''
      · exact .inl h''
      · exact .inr (List.mem_append_right _ h'')
    · exact .inr (List.mem_append_left _ h')

section
variable (g : Geom)

theorem nextFile_mem (files : List Nat) (f nf : Nat) (h : nextFile files f = some nf) : nf ∈ files ∧ f < nf := by
  unfold nextFile at h
  exact ⟨List.mem_of_find?_eq_some h, by simpa using List.find?_some h⟩

theorem writeBuf_R (l : Log) (buf : Bytes) : R l (writeBuf g l buf).2 (writeBuf g l buf).1 := by
  unfold writeBuf
  split
  · exact R.same rfl rfl
  · split
    · split
      · rename_i nf hnf
        obtain ⟨hmem, _⟩ := nextFile_mem _ _ _ hnf
        intro h
        refine ⟨hmem, ?_, ?_, fun f hf => .inl hf, fun f hf => .inl hf⟩
        · intro f hf
          simp [touchedFiles, effFiles] at hf
          rcases hf with rfl | rfl | rfl | rfl <;> first | exact .inl h | exact .inl hmem
        · intro f hf
          simp [touchedFiles, effFiles] at hf
          rcases hf with rfl | rfl | rfl | rfl <;> first | exact .inl h | exact .inl hmem
      · intro h
        refine ⟨by simp, ?_, ?_, ?_, fun f hf => .inl (List.mem_append_left _ hf)⟩
        · intro f hf
          simp [touchedFiles, effFiles] at hf
          rcases hf with rfl | rfl | rfl | rfl <;> first | exact .inl (List.mem_append_left _ h) | exact .inl (by simp)
        · intro f hf
          simp [touchedFiles, effFiles] at hf
          rcases hf with rfl | rfl | rfl | rfl <;> first | exact .inl h | exact .inr (by simp)
        · intro f hf
          simp only [List.mem_append, List.mem_singleton] at hf
          rcases hf with hf | rfl
          · exact .inl hf
          · exact .inr ⟨by simp, l.cur, h, Nat.lt_succ_self _⟩
    · intro h
      refine ⟨h, ?_, ?_, fun f hf => .inl hf, fun f hf => .inl hf⟩
      · intro f hf
        simp [touchedFiles, effFiles] at hf
        subst hf; exact .inl h
      · intro f hf
        simp [touchedFiles, effFiles] at hf
        subst hf; exact .inl h

theorem writeBufs_R (bufs : List Bytes) : ∀ l : Log, R l (writeBufs g l bufs).2 (writeBufs g l bufs).1 := by
  induction bufs with
  | nil => intro l; exact R.same rfl rfl
  | cons b bs ih =>
    intro l
    rw [writeBufs_cons]
    exact (writeBuf_R g l b).trans (ih _)

theorem writeEntry_R (l : Log) (e : Entry) : R l (l.writeEntry g e).2.1 (l.writeEntry g e).1 := by
  rw [writeEntry_eq]
  exact writeBufs_R g _ l

theorem writeTouches_R (names : List Bytes) :
    ∀ l : Log, R l (writeTouches g l names).2.1 (writeTouches g l names).1 := by
  induction names with
  | nil => intro l; exact R.same rfl rfl
  | cons n ns ih =>
    intro l
    rw [writeTouches_cons]
    exact (writeEntry_R g l _).trans (ih _)

theorem persist_R (l : Log) (a : PersistAction) : R l (l.persistEffects a) l := by
  intro h
  refine ⟨h, ?_, ?_, fun f hf => .inl hf, fun f hf => .inl hf⟩
  · intro f hf
    cases a <;> simp [persistEffects, touchedFiles, effFiles] at hf
    subst hf; exact .inl h
  · intro f hf
    cases a <;> simp [persistEffects, touchedFiles, effFiles] at hf
    subst hf; exact .inl h

theorem isSync_R (l : Log) (sy : List Effect) (hs : IsSync l sy) : R l sy l := by
  rcases hs with rfl | ⟨a, rfl⟩
  · exact R.same rfl rfl
  · exact persist_R l a

/-- `gc` splits the tracked list into a deleted prefix and the rest -/
theorem gcFiles_split (canDel : Nat → Bool) (files : List Nat) :
    (gcFiles canDel files).2 ++ (gcFiles canDel files).1 = files := by
  fun_induction gcFiles canDel files with
  | case1 f f' rest h r d hrec ih =>
    simp only [hrec] at ih
    simp [ih]
  | case2 f f' rest h => rfl
  | case3 fs h => rfl

theorem gcFiles_keeps (canDel : Nat → Bool) (files : List Nat) (f : Nat) (hf : f ∈ files) (hn : canDel f = false) :
    f ∈ (gcFiles canDel files).1 := by
  fun_induction gcFiles canDel files with
  | case1 f0 f' rest h r d hrec ih =>
    simp only [hrec] at ih
    have : f ≠ f0 := by intro e; rw [e, h] at hn; cases hn
    rcases List.mem_cons.mp hf with e | hm
    · exact absurd e this
    · exact ih hm
  | case2 f0 f' rest h => exact hf
  | case3 fs h => exact hf

theorem gc_R (l : Log) (pinned : Nat) :
    R l ((gcFiles (l.canDelete pinned) l.files).2.map Effect.unlink)
      { l with files := (gcFiles (l.canDelete pinned) l.files).1 } := by
  intro h
  have hsplit := gcFiles_split (l.canDelete pinned) l.files
  have hcur : l.canDelete pinned l.cur = false := by simp [canDelete]
  refine ⟨gcFiles_keeps _ _ _ h hcur, ?_, ?_, ?_, ?_⟩
  · intro f hf
    obtain ⟨e, he, hfe⟩ := mem_touched.mp hf
    obtain ⟨d, hd, rfl⟩ := List.mem_map.mp he
    simp only [effFiles, List.mem_singleton] at hfe
    subst hfe
    exact .inr he
  · intro f hf
    obtain ⟨e, he, hfe⟩ := mem_touched.mp hf
    obtain ⟨d, hd, rfl⟩ := List.mem_map.mp he
    simp only [effFiles, List.mem_singleton] at hfe
    subst hfe
    left
    rw [← hsplit]
    exact List.mem_append_left _ hd
  · intro f hf
    left
    rw [← hsplit]
    exact List.mem_append_right _ hf
  · intro f hf
    rw [← hsplit] at hf
    rcases List.mem_append.mp hf with hd | hr
    · exact .inr (List.mem_map.mpr ⟨f, hd, rfl⟩)
    · exact .inl hr

theorem runGc_R (l : Log) (order : List Bytes) : R l (runGc g l order).2.1 (runGc g l order).1 := by
  rcases runGc_cases g l order with h | h
  · rw [h]; exact R.same rfl rfl
  · rw [h]
    exact ((writeTouches_R g _ l).trans (persist_R _ _)).trans (gc_R _ l.cur)

end

variable (g : Geom) (l : Log) (c : Call) (tick : Bool) (order : List Bytes)

theorem step_R : R l (Log.step g l c tick order).2.2 (Log.step g l c tick order).1 := by
  rcases step_shape g l c tick order with ⟨out, h, _⟩ | ⟨a, h⟩ | ⟨e, qs', gc, sy, out, h, _, hs⟩
  · rw [h]; exact R.same rfl rfl
  · rw [h]; exact persist_R l a
  · rw [h]
    cases gc with
    | false =>
      simp only [Bool.false_eq_true, if_false, List.append_nil] at hs ⊢
      have h2 : R (l.writeEntry g e).1 [] { (l.writeEntry g e).1 with queues := qs' } := R.same rfl rfl
      have := ((writeEntry_R g l e).trans h2).trans (isSync_R _ sy hs)
      simpa using this
    | true =>
      simp only [if_true] at hs ⊢
      have h2 : R (l.writeEntry g e).1 [] { (l.writeEntry g e).1 with queues := qs' } := R.same rfl rfl
      have := (((writeEntry_R g l e).trans h2).trans (runGc_R g _ order)).trans (isSync_R _ sy hs)
      simpa using this

/-- the writer's current file stays tracked -/
theorem cur_tracked (hcur : l.cur ∈ l.files) :
    (Log.step g l c tick order).1.cur ∈ (Log.step g l c tick order).1.files :=
  (step_R g l c tick order hcur).cur

/-- **C17.** Every file a call touches (create, set_len, open, write, fsync, unlink) is a tracked
    file number — tracked before or after the call — except possibly a file both created and
    unlinked by this very call. -/
theorem effects_named_partial (hcur : l.cur ∈ l.files) :
    let r := Log.step g l c tick order
    ∀ f ∈ touchedFiles r.2.2, f ∈ r.1.files ++ l.files ∨ (Effect.create f ∈ r.2.2 ∧ Effect.unlink f ∈ r.2.2) := by
  intro r f hf
  have t := step_R g l c tick order hcur
  rcases t.post f hf with h1 | h1
  · exact .inl (List.mem_append_left _ h1)
  · rcases t.pre f hf with h2 | h2
    · exact .inl (List.mem_append_right _ h2)
    · exact .inr ⟨h2, h1⟩

/-- a call that unlinks nothing (every `create`, `append`, `persist`; every `truncate`/`delete`
    that does not trigger a deletion) touches only files that are tracked after it -/
theorem effects_named_of_no_unlink (hcur : l.cur ∈ l.files)
    (hno : ∀ f, Effect.unlink f ∉ (Log.step g l c tick order).2.2) :
    ∀ f ∈ touchedFiles (Log.step g l c tick order).2.2, f ∈ (Log.step g l c tick order).1.files := by
  intro f hf
  rcases (step_R g l c tick order hcur).post f hf with h | h
  · exact h
  · exact absurd h (hno f)

/-- **C17.** The tracker only grows by successors: a file tracked after a call was tracked before
    or lies above a previously tracked one (and was created by this call). -/
theorem files_grow_by_succ (hcur : l.cur ∈ l.files) :
    let r := Log.step g l c tick order
    ∀ f ∈ r.1.files, f ∈ l.files ∨ ∃ f' ∈ l.files, f' < f := by
  intro r f hf
  rcases (step_R g l c tick order hcur).new f hf with h | ⟨_, h⟩
  · exact .inl h
  · exact .inr h

/-- new tracked files were created, dropped ones were unlinked -/
theorem files_accounted (hcur : l.cur ∈ l.files) :
    let r := Log.step g l c tick order
    (∀ f ∈ r.1.files, f ∈ l.files ∨ Effect.create f ∈ r.2.2) ∧
    (∀ f ∈ l.files, f ∈ r.1.files ∨ Effect.unlink f ∈ r.2.2) := by
  intro r
  have t := step_R g l c tick order hcur
  exact ⟨fun f hf => (t.new f hf).imp id (·.1), t.old⟩

/-! ### The unrestricted statement is false in tiny geometries

`effects_named` without the exception — "every touched file is tracked before or after the call"
— does not hold for every geometry: with 13-byte blocks and one block per file, the 12-byte
`DeleteQueue` entry needs two 13-byte frames; written at the end of file 0 it creates file 1 *and*
file 2, and the GC that follows (no queue is left) unlinks files 0 and 1. File 1 is created and
unlinked within the call: it is tracked neither before nor after. (With the production geometry
a `Truncate`/`DeleteQueue` entry is far smaller than a file, so this cannot happen there.) -/

def g13 : Geom := { B := 13, K := 1, hB := by decide, hK := by decide }
def lw : Log := { files := [0], cur := 0, off := 13, policy := .doNothing, queues := [([1], {})] }

theorem lw_bufs : ∃ b1 b2 : Bytes, b1.length = 13 ∧ b2.length = 13 ∧ entryBufs g13 lw (.delete [1] 0) = [b1, b2] := by
  refine ⟨encodeFrame (FrameType.ofFlags true false) [UInt8.ofNat Consts.TAG_DELETE, 0, 0, 0, 0, 0],
    encodeFrame (FrameType.ofFlags false true) [0, 0, 0, 1, 0, 1], by simp [encodeFrame_length],
    by simp [encodeFrame_length], ?_⟩
  simp [entryBufs, lw, g13, MRL.writeEntry, Entry.encode, Entry.encodeRaw, leBytes]
  rw [writeEntryBufs]
  simp [maxFrameLen, frameWrites, frameEndCursor, adv, Consts.HEADER_LEN]
  rw [writeEntryBufs]
  simp [maxFrameLen, frameWrites, Consts.HEADER_LEN]

theorem lw_write (b1 b2 : Bytes) (h1 : b1.length = 13) (h2 : b2.length = 13) :
    writeBufs g13 lw [b1, b2] =
      ({ lw with files := [0, 1, 2], cur := 2, off := 13 },
       [.flush, .fsyncFile 0, .fsyncDir, .create 1, .setLen 1 13, .write 1 0 b1,
        .flush, .fsyncFile 1, .fsyncDir, .create 2, .setLen 2 13, .write 2 0 b2]) := by
  have e1 : b1.isEmpty = false := by cases b1 <;> simp at h1 ⊢
  have e2 : b2.isEmpty = false := by cases b2 <;> simp at h2 ⊢
  simp [writeBufs, writeBuf, lw, g13, Geom.fileBytes, h1, h2, e1, e2, nextFile]

/-- the complete result of the witness call -/
theorem lw_step : ∃ b1 b2 : Bytes,
    Log.step g13 lw (.delete [1]) false [] =
      ({ lw with files := [2], cur := 2, off := 13, queues := [] }, .deleted 26,
       [.flush, .fsyncFile 0, .fsyncDir, .create 1, .setLen 1 13, .write 1 0 b1,
        .flush, .fsyncFile 1, .fsyncDir, .create 2, .setLen 2 13, .write 2 0 b2,
        .flush, .fsyncFile 2, .fsyncDir, .unlink 0, .unlink 1, .flush, .fsyncFile 2, .fsyncDir]) := by
  obtain ⟨b1, b2, h1, h2, hb⟩ := lw_bufs
  refine ⟨b1, b2, ?_⟩
  have hq : lw.queues.get? [1] = some {} := rfl
  have hn : ({} : MemQueue).nextPosition = 0 := rfl
  simp only [step, hq, hn, writeEntry_eq, hb, lw_write b1 b2 h1 h2]
  simp [runGc, canDelete, lw, MemQueues.remove, MemQueues.refsFile, MemQueues.emptyNames, isPermOf,
    writeTouches, gcFiles, persistEffects, totalLen, h1, h2]

/-- **Finding.** `effects_named` without the created-and-unlinked exception is false for the
    model over arbitrary geometries. -/
theorem effects_named_false :
    ¬ (∀ (g : Geom) (l : Log) (c : Call) (tick : Bool) (order : List Bytes), l.cur ∈ l.files →
        ∀ f ∈ touchedFiles (Log.step g l c tick order).2.2, f ∈ (Log.step g l c tick order).1.files ++ l.files) := by
  intro h
  have := h g13 lw (.delete [1]) false [] (by decide) 1
  obtain ⟨b1, b2, hs⟩ := lw_step
  rw [hs] at this
  have h1 : 1 ∈ touchedFiles [Effect.flush, .fsyncFile 0, .fsyncDir, .create 1, .setLen 1 13, .write 1 0 b1,
        .flush, .fsyncFile 1, .fsyncDir, .create 2, .setLen 2 13, .write 2 0 b2,
        .flush, .fsyncFile 2, .fsyncDir, .unlink 0, .unlink 1, .flush, .fsyncFile 2, .fsyncDir] := by
    simp [touchedFiles, effFiles]
  have := this h1
  simp [lw] at this

end MRL.C17
