/-
The specification (C05): a map from queue name to an ordered list of (position, payload) plus a
next position. Short enough to be read in minutes; everything else is related to it through
externally visible behaviour only.
-/
import MRL.Model.Log

namespace MRL

structure SQueue where
  next : Nat := 0
  recs : List (Nat × Bytes) := []
  deriving Repr, DecidableEq

abbrev Spec := List (Bytes × SQueue)

namespace Spec

def get? (s : Spec) (q : Bytes) : Option SQueue := (s.find? (·.1 == q)).map (·.2)

def set (s : Spec) (q : Bytes) (v : SQueue) : Spec :=
  if s.any (·.1 == q) then s.map fun kv => if kv.1 == q then (q, v) else kv else s ++ [(q, v)]

def remove (s : Spec) (q : Bytes) : Spec := s.filter (·.1 != q)

/-- the logical part of an `Outcome`: everything but the WAL byte counts -/
inductive LOutcome
  | created | deleted | appended (last : Option Nat) | truncated (evicted : Nat) | persisted
  | alreadyExists | missingQueue | past
  deriving Repr, DecidableEq

def step (s : Spec) : Call → Spec × LOutcome
  | .create q =>
    match s.get? q with
    | some _ => (s, .alreadyExists)
    | none => (s.set q {}, .created)
  | .delete q =>
    match s.get? q with
    | none => (s, .missingQueue)
    | some _ => (s.remove q, .deleted)
  | .append q pos? payloads =>
    match s.get? q with
    | none => (s, .missingQueue)
    | some sq =>
      match pos? with
      | some p =>
        if p + 1 = sq.next then (s, .appended none)           -- retry of the last position
        else if p < sq.next then (s, .past)
        else if payloads.isEmpty then (s, .appended none)
        else
          (s.set q { next := p + payloads.length, recs := sq.recs ++ Log.numberFrom p payloads },
           .appended (some (p + payloads.length - 1)))
      | none =>
        if payloads.isEmpty then (s, .appended none)
        else
          (s.set q { next := sq.next + payloads.length, recs := sq.recs ++ Log.numberFrom sq.next payloads },
           .appended (some (sq.next + payloads.length - 1)))
  | .truncate q p =>
    match s.get? q with
    | none => (s, .missingQueue)
    | some sq =>
      (s.set q { next := max sq.next (p + 1), recs := sq.recs.filter (fun r => p < r.1) },
       .truncated (sq.recs.filter (fun r => r.1 ≤ p)).length)
  | .persist _ => (s, .persisted)

/-- read accessors -/
def lastPosition (sq : SQueue) : Option Nat := if sq.next = 0 then none else some (sq.next - 1)
def lastRecord (sq : SQueue) : Option (Nat × Bytes) := sq.recs.getLast?
def range (sq : SQueue) (lo hi : MemQueue.Bound) : List (Nat × Bytes) :=
  sq.recs.filter fun r => lo.okLo r.1 && hi.okHi r.1

end Spec

def Outcome.logical : Outcome → Spec.LOutcome
  | .created _ => .created
  | .deleted _ => .deleted
  | .appended l _ => .appended l
  | .truncated e _ => .truncated e
  | .persisted => .persisted
  | .alreadyExists => .alreadyExists
  | .missingQueue => .missingQueue
  | .past => .past

/-- abstraction of an in-memory queue -/
def MemQueue.abs (q : MemQueue) : SQueue :=
  { next := q.nextPosition, recs := q.recs.map fun r => (r.pos, r.payload) }

/-- abstraction of the log's logical state -/
def Log.abs (l : Log) : Spec := l.queues.map fun kv => (kv.1, kv.2.abs)

end MRL
