/-
Power loss with a lazier directory. In `powerImage` (MRL/Model/PowerLoss.lean) an `unlink` is
durable at once. Here the operations on the directory persist IN ORDER but possibly late: of the
unlinks issued since the last `fsync` of the directory only the first `u` (in program order) have
reached stable storage when the power is lost; the others are undone — the file reappears, with
what a power loss leaves of it (its last-`fsync`ed content, fitted to the length it had when it
was unlinked). Creations since the last `fsync(dir)` are dropped, as before.

`DState`: the state of `PowerLoss.lean`, the files unlinked since the last `syncDir` (`und`, in
program order, with what would reappear), and a flag `hard`: an `fsync(file)` has made NEW content
durable while `und` was not empty — then the image shows, side by side, files whose unlink is not
durable yet and appends issued after those unlinks.
-/
import MRL.Model.PowerLoss

namespace MRL

structure DState where
  s : PState
  und : List (Nat × Bytes)
  hard : Bool
  deriving Repr

def pstepD (d : DState) : OsOpP → DState
  | .unlink f =>
    match lookupF d.s.vol f with
    | some c =>
      if d.s.dirs.contains f then
        { d with s := pstep d.s (.unlink f),
                 und := d.und ++ [(f, fitLen ((lookupF d.s.dur f).getD []) c.length)] }
      else { d with s := pstep d.s (.unlink f) }
    | none => { d with s := pstep d.s (.unlink f) }
  | .syncDir => { s := pstep d.s .syncDir, und := [], hard := false }
  | .syncFile f =>
    { d with s := pstep d.s (.syncFile f),
             hard := d.hard || (!d.und.isEmpty &&
               (match lookupF d.s.vol f with
                | some c => lookupF d.s.dur f != some c
                | none => false)) }
  | op => { d with s := pstep d.s op }

def prunD (d : DState) (ops : List OsOpP) : DState := ops.foldl pstepD d

/-- insertion of a file into a directory listing sorted by file number (an existing file wins) -/
def putFile : Image → Nat → Bytes → Image
  | [], f, c => [(f, c)]
  | (f', c') :: rest, f, c =>
    if f < f' then (f, c) :: (f', c') :: rest
    else if f = f' then (f', c') :: rest
    else (f', c') :: putFile rest f c

/-- what a power loss leaves when only the first `u` of the pending unlinks are durable -/
def DState.image (d : DState) (u : Nat) : Image :=
  (d.und.drop u).foldr (fun kv acc => putFile acc kv.1 kv.2) d.s.image

def DState.init (img : Image) : DState := ⟨PState.init img, [], false⟩

/-- **the image left by a power loss after the operations `ops`, the first `u` unlinks issued
    since the last `fsync` of the directory being durable** (`u ≥` their number: `powerImage`) -/
def powerImageD (img : Image) (ops : List OsOpP) (u : Nat) : Image := (prunD (DState.init img) ops).image u

/-- an `fsync(file)` made new content durable while some unlink was not covered by an `fsync(dir)` -/
def lateSync (img : Image) (ops : List OsOpP) : Bool := (prunD (DState.init img) ops).hard

/-- number of unlinks not covered by an `fsync(dir)` -/
def pendingUnlinks (img : Image) (ops : List OsOpP) : Nat := (prunD (DState.init img) ops).und.length

end MRL
