/-
In-memory queues (mem/queue.rs, mem/queues.rs) at the level used by the log model: every record
keeps its own payload (the concatenated ring buffer and its offsets are modelled separately in
`Model/RollingBuffer.lean`); the file handle logic (`RecordMeta::file_number`) is transcribed as is.
-/
import MRL.Model.Basic

namespace MRL

/-- one `RecordMeta` plus its payload; `file` is the `Option<FileNumber>` handle, present only on
    the last record of a run of records attributed to the same file -/
structure Rec where
  pos : Nat
  payload : Bytes
  file : Option Nat
  deriving Repr, DecidableEq

structure MemQueue where
  start : Nat := 0
  recs : List Rec := []
  deriving Repr, DecidableEq

namespace MemQueue

def withNextPosition (p : Nat) : MemQueue := { start := p, recs := [] }

def isEmpty (q : MemQueue) : Bool := q.recs.isEmpty

/-- `next_position` -/
def nextPosition (q : MemQueue) : Nat :=
  match q.recs.getLast? with
  | some r => r.pos + 1
  | none => q.start

/-- `last_position`: `next_position().checked_sub(1)` -/
def lastPosition (q : MemQueue) : Option Nat :=
  if q.nextPosition = 0 then none else some (q.nextPosition - 1)

def lastRecord (q : MemQueue) : Option (Nat × Bytes) :=
  q.recs.getLast?.map fun r => (r.pos, r.payload)

/-- `first_file_number` (shown by `summary()`) -/
def firstFile (q : MemQueue) : Option Nat := (q.recs.filterMap (·.file)).head?

/-- does the queue hold a handle on file `f`? -/
def refsFile (q : MemQueue) (f : Nat) : Bool := q.recs.any (·.file == some f)

/-- move the handle off the previous last record when it is for the same file
    (mem/queue.rs:100-108) -/
def dropLastHandle (rs : List Rec) (file : Nat) : List Rec :=
  match rs.getLast? with
  | some r => if r.file = some file then rs.dropLast ++ [{ r with file := none }] else rs
  | none => rs

/-- `append_record`; `none` is `AppendError::Past` -/
def appendRecord (q : MemQueue) (file : Nat) (pos : Nat) (payload : Bytes) : Option MemQueue :=
  if pos < q.nextPosition then none
  else
    let start := if q.start = 0 ∧ q.recs.isEmpty then pos else q.start
    some { start := start,
           recs := dropLastHandle q.recs file ++ [{ pos := pos, payload := payload, file := some file }] }

/-- `truncate_head(..=p)`; returns the number of evicted records -/
def truncateHead (q : MemQueue) (p : Nat) : MemQueue × Nat :=
  if q.start > p then (q, 0)
  else if p + 1 ≥ q.nextPosition then ({ start := p + 1, recs := [] }, q.recs.length)
  else
    -- `position_to_idx(p + 1)`: index of the first record at a position ≥ p + 1
    let k := (q.recs.takeWhile (·.pos ≤ p)).length
    ({ start := p + 1, recs := q.recs.drop k }, k)

/-- `RangeBounds::contains` for the three kinds of bound -/
inductive Bound
  | unbounded | incl (n : Nat) | excl (n : Nat)
  deriving Repr, DecidableEq

def Bound.okLo : Bound → Nat → Bool
  | .unbounded, _ => true
  | .incl n, x => n ≤ x
  | .excl n, x => n < x

def Bound.okHi : Bound → Nat → Bool
  | .unbounded, _ => true
  | .incl n, x => x ≤ n
  | .excl n, x => x < n

/-- `range(r)`: start index from the lower bound, then `take_while(contains)` (mem/queue.rs:129-161) -/
def range (q : MemQueue) (lo hi : Bound) : List (Nat × Bytes) :=
  let startIdx := match lo with
    | .unbounded => 0
    | .incl n => (q.recs.takeWhile (·.pos < n)).length
    | .excl n => (q.recs.takeWhile (·.pos ≤ n)).length
  ((q.recs.drop startIdx).takeWhile fun r => lo.okLo r.pos && hi.okHi r.pos).map fun r => (r.pos, r.payload)

/-- `size()` with `msz = size_of::<RecordMeta>()` -/
def size (msz : Nat) (q : MemQueue) : Nat :=
  (q.recs.map (·.payload.length)).sum + q.recs.length * msz

end MemQueue

/-- `MemQueues`: the `HashMap<String, MemQueue>` as an association list (keys kept distinct by
    every operation; iteration order is never relied upon). -/
abbrev MemQueues := List (Bytes × MemQueue)

namespace MemQueues

def get? (qs : MemQueues) (name : Bytes) : Option MemQueue := (qs.find? (·.1 == name)).map (·.2)

def contains (qs : MemQueues) (name : Bytes) : Bool := qs.any (·.1 == name)

def remove (qs : MemQueues) (name : Bytes) : MemQueues := qs.filter (·.1 != name)

/-- insert or replace -/
def set (qs : MemQueues) (name : Bytes) (q : MemQueue) : MemQueues :=
  if qs.contains name then qs.map fun kv => if kv.1 == name then (name, q) else kv
  else qs ++ [(name, q)]

/-- `ack_position` (mem/queues.rs:119-150) -/
def ackPosition (qs : MemQueues) (name : Bytes) (next : Nat) : MemQueues :=
  match qs.get? name with
  | some q =>
    if !q.isEmpty || q.nextPosition != next then qs.set name (MemQueue.withNextPosition next) else qs
  | none => qs.set name (MemQueue.withNextPosition next)

def emptyNames (qs : MemQueues) : List Bytes := (qs.filter (·.2.isEmpty)).map (·.1)

def refsFile (qs : MemQueues) (f : Nat) : Bool := qs.any (·.2.refsFile f)

/-- `size().0`: names + per-queue sizes -/
def usedBytes (msz : Nat) (qs : MemQueues) : Nat :=
  (qs.map fun kv => kv.1.length + kv.2.size msz).sum

end MemQueues
end MRL
