/-
The panic-instrumented twin of recovery. The model computes over `Nat` and cannot overflow; the
code computes over `u64` with checked arithmetic (debug / overflow-checked builds). This file
transcribes *which* additions the code performs while `open_with_prefs` replays the log and runs
its final GC pass, and reports `.error ()` exactly when one of them overflows:

* `MemQueue::next_position` = `record.position + 1` on the last record (mem/queue.rs:77-82),
  called by `append_record` (l.94), `truncate_head` (l.171), `last_position` (l.63), `summary`;
  no addition when the queue is empty (`unwrap_or(self.start_position)`);
* `truncate_head`: `truncate_up_to_pos + 1` (mem/queue.rs:171,172,179,190), after the early exit
  `start_position > truncate_up_to_pos`;
* `FileTracker::inc`: `*curr.file_number + 1u64` (rolling/file_number.rs:58) when the writer rolls
  over and no next file is tracked.

`ack_position` evaluates `next_position()` only for an existing *empty* queue (short-circuit `||`,
mem/queues.rs:122): no addition. `delete_queue`, `create_queue`, `contains_queue` do no arithmetic.
For values that fit a `u64`, `U64MAX ≤ x` below is `x = U64MAX`.
-/
import MRL.Model.Recovery

namespace MRL

def U64MAX : Nat := 2 ^ 64 - 1

/-- the last record sits at `u64::MAX`: every later `next_position()` overflows -/
def MemQueue.poisoned (q : MemQueue) : Bool :=
  match q.recs.getLast? with
  | some r => decide (U64MAX ≤ r.pos)
  | none => false

/-- the loop `for record in records { … append_record(…)? }` of `open_with_prefs`: every
    `append_record` first calls `next_position()`. `.ok none` = `AppendError::Past`. -/
def appendAllP (q : MemQueue) (file : Nat) : List (Nat × Bytes) → Except Unit (Option MemQueue)
  | [] => .ok (some q)
  | (p, pl) :: rs =>
    if q.poisoned then .error ()
    else
      match q.appendRecord file p pl with
      | none => .ok none
      | some q' => appendAllP q' file rs

/-- `MemQueue::truncate_head(..=p)` panics? (after the early exit) -/
def truncatePanics (q : MemQueue) (p : Nat) : Bool :=
  if q.start > p then false else decide (U64MAX ≤ p) || q.poisoned

/-- the body of the replay loop for one decoded entry: `.error ()` = the code panics,
    `.ok r` = it does not, and `r` is what `replayEntry` returns -/
def replayEntryP (qs : MemQueues) (file : Nat) : Entry → Except Unit (Option MemQueues)
  | .append q pos recs =>
    -- `contains_queue` false ⇒ `ack_position` inserts a fresh queue: no `next_position()`
    let qs1 := if qs.contains q then qs else qs.ackPosition q pos
    match qs1.get? q with
    | some mq =>
      match appendAllP mq file recs with
      | .error () => .error ()
      | .ok none => .ok none
      | .ok (some mq') => .ok (some (qs1.set q mq'))
    | none => .ok none
  | .truncate q p =>
    match qs.get? q with
    | some mq => if truncatePanics mq p then .error () else .ok (some (qs.set q (mq.truncateHead p).1))
    | none => .ok (some qs)          -- `MemQueues::truncate` on an unknown queue: nothing
  | .touch q p => .ok (some (qs.ackPosition q p))
  | .delete q _ => .ok (some (qs.remove q))

/-- `replay` with panics: corrupt events and undecodable entries are skipped; a `Corruption`
    error (`.ok none`) ends `open` before anything else is applied -/
def replayP (qs : MemQueues) : List RecEv → Except Unit (Option MemQueues)
  | [] => .ok (some qs)
  | .corrupt :: evs => replayP qs evs
  | .entry file bytes :: evs =>
    match Entry.decode bytes with
    | none => replayP qs evs
    | some e =>
      match replayEntryP qs file e with
      | .error () => .error ()
      | .ok none => .ok none
      | .ok (some qs') => replayP qs' evs

/-! ### the GC pass -/

/-- `RollingWriter::write` of one buffer reaches `FileTracker::inc` with `curr = u64::MAX` -/
def writeBufPanics (g : Geom) (l : Log) (buf : Bytes) : Bool :=
  !buf.isEmpty && decide (l.off + buf.length > g.fileBytes) && (nextFile l.files l.cur).isNone &&
    decide (U64MAX ≤ l.cur)

def writeBufsPanics (g : Geom) (l : Log) : List Bytes → Bool
  | [] => false
  | b :: bs => writeBufPanics g l b || writeBufsPanics g (Log.writeBuf g l b).1 bs

/-- the buffers `Log.writeEntry` hands to the rolling writer -/
def entryBufsOf (g : Geom) (l : Log) (e : Entry) : List Bytes :=
  writeEntry g (l.off % g.B) e.encode (Nat.mod_lt _ (Nat.lt_trans (Nat.succ_pos _) g.hB))

def writeEntryPanics (g : Geom) (l : Log) (e : Entry) : Bool := writeBufsPanics g l (entryBufsOf g l e)

/-- the `RecordPosition` entry written for the empty queue `name` -/
def touchOf (l : Log) (name : Bytes) : Entry :=
  .touch name (match l.queues.get? name with | some q => q.nextPosition | none => 0)

/-- `record_empty_queues_position`; `next_position()` of an *empty* queue adds nothing -/
def writeTouchesPanics (g : Geom) (l : Log) : List Bytes → Bool
  | [] => false
  | name :: rest =>
    writeEntryPanics g l (touchOf l name) || writeTouchesPanics g (l.writeEntry g (touchOf l name)).1 rest

/-- number of buffers `record_empty_queues_position` hands to the writer (each rolls at most once) -/
def touchBufCount (g : Geom) (l : Log) : List Bytes → Nat
  | [] => 0
  | name :: rest =>
    (entryBufsOf g l (touchOf l name)).length + touchBufCount g (l.writeEntry g (touchOf l name)).1 rest

/-- the names `run_gc_if_necessary` visits, `[]` when it has nothing to do -/
def gcNamesOf (l : Log) (order : List Bytes) : List Bytes :=
  match l.files with
  | f :: _ :: _ =>
    if l.canDelete l.cur f then
      (if Log.isPermOf order l.queues.emptyNames then order else l.queues.emptyNames)
    else []
  | _ => []

/-- the GC pass overflows a file number -/
def runGcPanics (g : Geom) (l : Log) (order : List Bytes) : Bool :=
  writeTouchesPanics g l (gcNamesOf l order)

/-- number of buffers the GC pass writes -/
def gcBufCount (g : Geom) (l : Log) (order : List Bytes) : Nat := touchBufCount g l (gcNamesOf l order)

/-- `last_position`, `summary` (and the harness's `next`) call `next_position()` on every queue -/
def accessorsPanic (qs : MemQueues) : Bool := qs.any (·.2.poisoned)

/-! ### `open` -/

/-- the frames `read_frame` delivered before the scan stopped — normally, or because an I/O call
    failed (the entries completed before the failure have already been replayed by then) -/
def scanPrefix (g : Geom) (failAt : Option Nat) : Nat → Blk → Nat → List Blk → List RdEv
  | io, cur, c, rest =>
    match scanBlock g cur.data c with
    | (evs, .zeroHeader _) => tagEvs cur.file evs
    | (evs, .needNext _) =>
      match rest with
      | [] => tagEvs cur.file evs
      | b :: rest' =>
        if ioFails failAt io (io + b.cost) then tagEvs cur.file evs
        else tagEvs cur.file evs ++ scanPrefix g failAt (io + b.cost) b 0 rest'

/-- the record events the replay loop of `open` sees (all of them, or those before an I/O error) -/
def deliveredEvents (g : Geom) (img : Image) (failAt : Option Nat) : List RecEv :=
  match blocksOf g (prepareImage g img).1 1 with
  | ([], _) => []
  | (b0 :: rest, _) =>
    if ioFails failAt 0 b0.cost then []
    else assemble { within := false, buf := [], attr := b0.file } (scanPrefix g failAt b0.cost b0 0 rest)

/-- `open_with_prefs` with panics: `.error ()` iff the replay loop or the final GC pass would
    panic on an arithmetic overflow; otherwise what `recover` returns.
    (Not modelled: the `event_enabled!(Level::DEBUG)` loop of `run_gc_if_necessary`, which calls
    `last_position()` on every queue — with debug tracing on, `open` itself panics iff
    `accessorsPanic`; and the order between a failing `open_file` and a later overflowing
    roll-over inside the same GC pass.) -/
def recoverP (g : Geom) (img : Image) (policy : Policy) (order : List Bytes) (failAt : Option Nat) :
    Except Unit (Except OpenErr Recovered) :=
  match replayP [] (deliveredEvents g img failAt) with
  | .error () => .error ()
  | .ok _ =>
    match recoverPre g img policy failAt with
    | .ok (l, _, _) => if runGcPanics g l order then .error () else .ok (recover g img policy order failAt)
    | .error _ => .ok (recover g img policy order failAt)

end MRL
