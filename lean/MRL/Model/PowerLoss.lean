/-
POSIX-style power loss. The coarse crash model (`Disk.lean`) keeps every OS operation issued before
the crash (ordered persistence). Here a power loss keeps, of what was issued, only what `fsync`
made durable:

* a file name is durable once the DIRECTORY was fsynced after its creation (`syncDir`): a file
  created after the last `syncDir` is lost. Files present in the initial image count as durable.
  Removals are taken from the volatile state: a file unlinked after the last `syncDir` is gone
  (the harness does the same: a file that reappears would only add older, already superseded
  entries in front);
* the content of a file is what it was at its last `syncFile` (its initial content if it was
  never synced since; nothing — zeros — if it was created since and never synced): later writes are
  lost, the pre-sized file reads as it did before. The LENGTH is that of the volatile state.

`toOsOpsP` is `toOsOps` (same `BufWriter` model) with the two kinds of `fsync` kept apart;
`powerImage img ops` is the image left by a power loss after the operations `ops`. Executable.
This is `power_loss_image` of the harness (`synced_end` / `dir_synced`, recipe `drop` / `zero`).
-/
import MRL.Model.Disk

namespace MRL

/-- OS operations with the two kinds of `fsync` kept apart -/
inductive OsOpP
  | write (f off : Nat) (data : Bytes)
  | create (f : Nat)
  | setLen (f n : Nat)
  | ensureLen (f n : Nat)
  | unlink (f : Nat)
  /-- `fdatasync` of file `f` -/
  | syncFile (f : Nat)
  /-- `fsync` of the directory -/
  | syncDir
  deriving Repr, DecidableEq

/-- forget which `fsync` it was -/
def OsOpP.erase : OsOpP → OsOp
  | .write f off d => .write f off d
  | .create f => .create f
  | .setLen f n => .setLen f n
  | .ensureLen f n => .ensureLen f n
  | .unlink f => .unlink f
  | .syncFile _ => .sync
  | .syncDir => .sync

/-- an operation of the coarse model as a refined one (`sync` is never lifted: the `fsync` effects
    are translated directly) -/
def OsOpP.lift : OsOp → OsOpP
  | .write f off d => .write f off d
  | .create f => .create f
  | .setLen f n => .setLen f n
  | .ensureLen f n => .ensureLen f n
  | .unlink f => .unlink f
  | .sync => .syncDir

/-- `bufStep` with the two `fsync` effects kept apart (same buffering) -/
def bufStepP (cap : Nat) (b : BufSt) : Effect → BufSt × List OsOpP
  | .fsyncFile f => (b, [.syncFile f])
  | .fsyncDir => (b, [.syncDir])
  | e => ((bufStep cap b e).1, (bufStep cap b e).2.map OsOpP.lift)

/-- `toOsOps` with the two `fsync` effects kept apart -/
def toOsOpsP (cap : Nat) (b : BufSt) : List Effect → BufSt × List OsOpP
  | [] => (b, [])
  | e :: es =>
    let (b1, o1) := bufStepP cap b e
    let (b2, o2) := toOsOpsP cap b1 es
    (b2, o1 ++ o2)

/-- volatile image, durable contents (latest snapshot first), durable names -/
structure PState where
  vol : Image
  dur : List (Nat × Bytes)
  dirs : List Nat
  deriving Repr

def lookupF (m : List (Nat × Bytes)) (f : Nat) : Option Bytes := (m.find? fun kv => kv.1 == f).map (·.2)

def pstep (s : PState) : OsOpP → PState
  | .syncFile f =>
    match lookupF s.vol f with
    | some c => { s with dur := (f, c) :: s.dur }
    | none => s
  | .syncDir => { s with dirs := s.vol.map (·.1) }
  | op => { s with vol := applyOs s.vol op.erase }

def prun (s : PState) (ops : List OsOpP) : PState := ops.foldl pstep s

/-- the first `n` bytes of `d`, zero-extended -/
def fitLen (d : Bytes) (n : Nat) : Bytes := d.take n ++ zeros (n - d.length)

/-- what a power loss leaves of the state -/
def PState.image (s : PState) : Image :=
  s.vol.filterMap fun kv =>
    if s.dirs.contains kv.1 then some (kv.1, fitLen ((lookupF s.dur kv.1).getD []) kv.2.length) else none

/-- the state in which everything in `img` is durable -/
def PState.init (img : Image) : PState := ⟨img, img, img.map (·.1)⟩

/-- **the image left by a power loss after the operations `ops`** -/
def powerImage (img : Image) (ops : List OsOpP) : Image := (prun (PState.init img) ops).image

end MRL
