/-
Recovery (`open_with_prefs`, multi_record_log.rs:39-107) over a directory *image*: the rolling
reader (rolling/directory.rs), the frame and record readers iterated to the end of the log, the
replay of entries into the in-memory queues, and the GC pass that ends `open`.
-/
import MRL.Model.Log

namespace MRL
open Consts

/-- what `open` finds: (file number, content) of every `wal-…` file, ascending by number -/
abbrev Image := List (Nat × Bytes)

/-- one block as delivered by `RollingReader`; `cost` is the number of list/open/read calls made
    to load it after the previous block was loaded -/
structure Blk where
  file : Nat
  idx : Nat
  data : Bytes
  cost : Nat
  deriving Repr

/-- full blocks `i, i+1, …` of a file (`n` of them left); a trailing partial block is never delivered -/
def fileBlocks (g : Geom) (f : Nat) (content : Bytes) (firstCost : Nat) : Nat → Nat → List Blk
  | _, 0 => []
  | i, n + 1 =>
    { file := f, idx := i, data := content.take g.B, cost := if i = 0 then firstCost else 1 }
      :: fileBlocks g f (content.drop g.B) firstCost (i + 1) n

/-- The sequence of blocks `next_block` delivers over the files of an image, and the number of
    I/O calls of the final, failing `next_block`. `pending` = calls already made since the last
    delivered block (a failed read of the previous file, open+read of files without a full block). -/
def blocksOf (g : Geom) : Image → Nat → List Blk × Nat
  | [], pending => ([], pending)
  | (f, content) :: rest, pending =>
    let n := content.length / g.B
    if n = 0 then blocksOf g rest (pending + 2)
    else
      let (bs, trail) := blocksOf g rest 1
      (fileBlocks g f content (pending + 2) 0 n ++ bs, trail)

inductive RdEv
  | frame (file : Nat) (t : FrameType) (p : Bytes)
  | corrupt (file : Nat)
  deriving Repr

/-- where reading stopped: the writer resumes at `idx * B + cursor` of `file` -/
structure EndPos where
  file : Nat
  idx : Nat
  cursor : Nat
  deriving Repr, DecidableEq

def tagEvs (file : Nat) : List FrameEv → List RdEv
  | [] => []
  | .frame t p :: evs => .frame file t p :: tagEvs file evs
  | .corrupt :: evs => .corrupt file :: tagEvs file evs

def ioFails (failAt : Option Nat) (lo hi : Nat) : Bool :=
  match failAt with
  | some n => lo ≤ n && n < hi
  | none => false

/-- `read_frame` iterated over the block sequence until `NotAvailable`. `io` = I/O calls made so
    far. Returns `none` when a call whose index is `failAt` is reached (an `IoError`). -/
def scanBlocks (g : Geom) (failAt : Option Nat) (trail : Nat) :
    Nat → Blk → Nat → List Blk → Option (List RdEv × EndPos × Nat)
  | io, cur, c, rest =>
    match scanBlock g cur.data c with
    | (evs, .zeroHeader c') => some (tagEvs cur.file evs, ⟨cur.file, cur.idx, c'⟩, io)
    | (evs, .needNext c') =>
      match rest with
      | [] =>
        if ioFails failAt io (io + trail) then none
        else some (tagEvs cur.file evs, ⟨cur.file, cur.idx, c'⟩, io + trail)
      | b :: rest' =>
        if ioFails failAt io (io + b.cost) then none
        else
          match scanBlocks g failAt trail (io + b.cost) b 0 rest' with
          | none => none
          | some (evs2, e, io') => some (tagEvs cur.file evs ++ evs2, e, io')

inductive RecEv
  | entry (file : Nat) (bytes : Bytes)
  | corrupt
  deriving Repr

/-- `RecordReader` state plus the file number `open` reads before each `read_record` -/
structure AsmSt where
  within : Bool
  buf : Bytes
  attr : Nat
  deriving Repr

/-- `RecordReader::go_next` iterated (recordlog/reader.rs:52-82): reassembly of entries from
    frames; each entry is attributed to the file the reader stood in when `go_next` was called. -/
def assemble (st : AsmSt) : List RdEv → List RecEv
  | [] => []
  | .frame f t p :: evs =>
    let within := st.within || t.isFirst
    let buf0 := if t.isFirst then [] else st.buf
    if within then
      let buf := buf0 ++ p
      if t.isLast then .entry st.attr buf :: assemble { within := false, buf := buf, attr := f } evs
      else assemble { within := true, buf := buf, attr := st.attr } evs
    else assemble st evs
  | .corrupt f :: evs => .corrupt :: assemble { within := false, buf := st.buf, attr := f } evs

/-- the body of the replay loop for one decoded entry; `none` = `open` fails with `Corruption` -/
def replayEntry (qs : MemQueues) (file : Nat) : Entry → Option MemQueues
  | .append q pos recs =>
    let qs1 := if qs.contains q then qs else qs.ackPosition q pos
    match qs1.get? q with
    | some mq => (Log.appendAll mq file recs).map fun mq' => qs1.set q mq'
    | none => none
  | .truncate q p =>
    match qs.get? q with
    | some mq => some (qs.set q (mq.truncateHead p).1)
    | none => some qs
  | .touch q p => some (qs.ackPosition q p)
  | .delete q _ => some (qs.remove q)

def replay (qs : MemQueues) : List RecEv → Option MemQueues
  | [] => some qs
  | .corrupt :: evs => replay qs evs
  | .entry file bytes :: evs =>
    match Entry.decode bytes with
    | none => replay qs evs            -- `read_record` returns Corruption: skipped
    | some e => (replayEntry qs file e).bind fun qs' => replay qs' evs

inductive OpenErr
  | io | corruption
  deriving Repr, DecidableEq

/-- the image as `RollingReader::open` leaves it, and the effects of getting there: an empty
    directory gets `wal-0`; a first file shorter than a block is given its nominal size (F2) -/
def prepareImage (g : Geom) (img : Image) : Image × List Effect :=
  match img with
  | [] => ([(0, zeros g.fileBytes)], [.create 0, .setLen 0 g.fileBytes, .ensureLen 0 g.fileBytes])
  | (f, content) :: rest =>
    if content.length < g.B then
      ((f, content ++ zeros (g.fileBytes - content.length)) :: rest, [.ensureLen f g.fileBytes])
    else (img, [.ensureLen f g.fileBytes])

structure Recovered where
  log : Log
  effects : List Effect
  ioCalls : Nat
  deriving Repr

/-- `open_with_prefs` up to (not including) its final GC pass: the log rebuilt by replaying the
    image, the effects of preparing the directory, and the number of I/O calls made. -/
def recoverPre (g : Geom) (img : Image) (policy : Policy) (failAt : Option Nat) :
    Except OpenErr (Log × List Effect × Nat) :=
  let (img1, e0) := prepareImage g img
  match blocksOf g img1 1 with
  | ([], _) => .error .io      -- unreachable after `prepareImage` (first file has ≥ 1 block)
  | (b0 :: rest, trail) =>
    if ioFails failAt 0 b0.cost then .error .io
    else
      match scanBlocks g failAt trail b0.cost b0 0 rest with
      | none => .error .io
      | some (evs, endPos, io) =>
        match replay [] (assemble { within := false, buf := [], attr := b0.file } evs) with
        | none => .error .corruption
        | some qs =>
          .ok ({ files := img1.map (·.1), cur := endPos.file,
                 off := endPos.idx * g.B + endPos.cursor, queues := qs, policy := policy }, e0, io)

/-- `MultiRecordLog::open_with_prefs`. `failAt` = index of the first failing list/open/read
    call (none: no failure); `order` = GC visiting order oracle. -/
def recover (g : Geom) (img : Image) (policy : Policy) (order : List Bytes) (failAt : Option Nat) :
    Except OpenErr Recovered :=
  match recoverPre g img policy failAt with
  | .error e => .error e
  | .ok (l, e0, io) =>
    let (l', e1, _) := l.runGc g order
    -- the GC pass may roll over into an existing next file: one more `open_file` call
    let nOpen := (e1.filter fun e => match e with | .openFile _ => true | _ => false).length
    if ioFails failAt io (io + nOpen) then .error .io
    else .ok { log := l', effects := e0 ++ e1, ioCalls := io + nOpen }

/-- What the reader sees of the directory since fix F6 (`RollingReader::next_block` ignores what lies
    beyond the nominal size of a WAL file; the read that would deliver it is still made, so the
    I/O calls are those of the clipped file). The identity on every image the log itself produces
    (`C10V.clipImage_id`). -/
def clipImage (g : Geom) (img : Image) : Image := img.map fun kv => (kv.1, kv.2.take g.fileBytes)

/-- `open` on an arbitrary directory content: `recover` on the clipped view; the effects it
    returns act on the directory as it is. -/
def recoverC (g : Geom) (img : Image) (policy : Policy) (order : List Bytes) (failAt : Option Nat) :
    Except OpenErr Recovered :=
  recover g (clipImage g img) policy order failAt

end MRL
