/-
The panic-instrumented twin of the API calls, as `MRL/Model/Panic.lean` is the twin of `open`.
`Log.step` computes over `Nat` and cannot overflow; the code computes over `u64` and, built with
`overflow-checks = true` (the harness profile), panics on overflow. `Log.stepP` transcribes which
`u64` additions each call performs, in program order, and returns

* `.error es` when one of them overflows — `es` are the effects already issued at that point
  (`Effect.write` = bytes already handed to the `BufWriter`; when the panic unwinds through the
  owner of the log, `BufWriter::drop` flushes them to the OS file, see C09Close);
* `.ok (Log.step g l c tick order)` otherwise — literally the value of the `Nat` model.

The additions on the call paths (line numbers of /repo/src):

* `MemQueue::next_position`: `record.position + 1` on the last record (mem/queue.rs:77), none
  when the queue is empty. Reached from `append_records` (multi_record_log.rs:187),
  `delete_queue` (l.142), `truncate_head` (mem/queue.rs:172), `MemQueue::append_record`
  (mem/queue.rs:91), `record_empty_queues_position` (multi_record_log.rs:242, empty queues only:
  never adds), `last_position` (mem/queue.rs:62).
* `append_records`: `position + 1 == next_position` (multi_record_log.rs:190), evaluated for every
  explicit position before anything else.
* `MultiRecord::serialize`: `(position..).zip(record_payloads)` (record.rs:228). `Zip::next` calls
  `RangeFrom::<u64>::next` once per payload *and once more* before it finds the payloads
  exhausted; each call computes `Step::forward(start, 1)` (`start + 1` with the overflow checks
  of the calling crate) before it yields `start`. With `n` payloads it computes
  `position + 1, …, position + n + 1`: it panics iff `position + n ≥ u64::MAX` — so a record at
  `u64::MAX - 1` cannot be appended either, and `append(q, None, [])` panics on an empty queue
  whose next position is `u64::MAX`. The panic is raised inside `core::iter::range` while the `for`
  loop of `serialize_with_pos` (record.rs:236) pulls the zipped iterator, called from
  multi_record_log.rs:203. This happens before `write_record`: nothing has been written.
  (Observed on the library itself, dev profile, rustc 1.95: `append(Some(MAX-1), [p])` and
  `append(None, [])` at next position `MAX` panic there, `append(Some(MAX-2), [p])` succeeds.)
* `MemQueue::truncate_head`: `truncate_up_to_pos + 1` (mem/queue.rs:172, left operand, evaluated
  before `next_position()`), after the early exit of l.169. `truncate` has written the `Truncate`
  entry by then (multi_record_log.rs:275-280 precede l.281-284): the partial effect of F4.
* `FileTracker::inc`: `*curr.file_number + 1u64` (rolling/file_number.rs:59), reached from
  `RollingWriter::write` (rolling/directory.rs:344) after the flush, the `sync_data` and the
  directory sync of the roll-over (l.318-326), when no next file is tracked.

No addition on positions or file numbers: `create_queue`, `persist`, `persist_on_policy`,
`MemQueues::delete_queue`, `Directory::gc`, `AppendOutcome.last_position` (`max_position` is the
last position yielded by the iterator, multi_record_log.rs:223-233). Not modelled: the byte
counters (`num_bytes_written: u64`, sums of buffer lengths), the `Instant`/`Duration` arithmetic of
`PersistState`, and the `event_enabled!(Level::DEBUG)` loop of `run_gc_if_necessary`
(multi_record_log.rs:315-322) which calls `last_position()` on every queue: with a DEBUG
subscriber installed, `delete_queue`/`truncate` additionally panic after the GC pass iff
`accessorsPanic` holds of the queues at that point.
No proofs here: this file is linked into the driver.
-/
import MRL.Model.Panic

namespace MRL

/-- what has been issued when `writeBufs` panics in `FileTracker::inc`: the earlier buffers, then
    the flush / fsync / directory sync of the roll-over that overflows (meaningful only when
    `writeBufsPanics g l bufs`) -/
def writeBufsPre (g : Geom) (l : Log) : List Bytes → List Effect
  | [] => []
  | b :: bs =>
    if writeBufPanics g l b then [.flush, .fsyncFile l.cur, .fsyncDir]
    else (Log.writeBuf g l b).2 ++ writeBufsPre g (Log.writeBuf g l b).1 bs

def writeEntryPre (g : Geom) (l : Log) (e : Entry) : List Effect := writeBufsPre g l (entryBufsOf g l e)

/-- same for `record_empty_queues_position` (meaningful only when `writeTouchesPanics`) -/
def writeTouchesPre (g : Geom) (l : Log) : List Bytes → List Effect
  | [] => []
  | name :: rest =>
    if writeEntryPanics g l (touchOf l name) then writeEntryPre g l (touchOf l name)
    else (l.writeEntry g (touchOf l name)).2.1 ++ writeTouchesPre g (l.writeEntry g (touchOf l name)).1 rest

/-- effects of the GC pass up to the overflow (meaningful only when `runGcPanics`) -/
def runGcPre (g : Geom) (l : Log) (order : List Bytes) : List Effect :=
  writeTouchesPre g l (gcNamesOf l order)

/-- the position an `append_records` that passes the `Past`/retry guard serialises from
    (`position_opt.unwrap_or(next_position)`), `none` when the guard returns early -/
def appendStart (mq : MemQueue) : Option Nat → Option Nat
  | some p => if p + 1 = mq.nextPosition then none else if p < mq.nextPosition then none else some p
  | none => some mq.nextPosition

/-- `position + 1 == next_position` (multi_record_log.rs:190) overflows: an explicit position at
    `u64::MAX` -/
def explicitAtMax : Option Nat → Bool
  | some p => decide (U64MAX ≤ p)
  | none => false

namespace Log

/-- One API call with panics. `.error es`: the checked build panics on a `u64` overflow, after
    having issued the effects `es`. `.ok r`: it does not, and `r = Log.step g l c tick order`. -/
def stepP (g : Geom) (l : Log) (c : Call) (tick : Bool) (order : List Bytes) :
    Except (List Effect) (Log × Outcome × List Effect) :=
  match c with
  | .create q =>
    if l.queues.contains q then .ok (l.step g c tick order)
    else if writeEntryPanics g l (.touch q 0) then .error (writeEntryPre g l (.touch q 0))
    else .ok (l.step g c tick order)
  | .delete q =>
    match l.queues.get? q with
    | none => .ok (l.step g c tick order)
    | some mq =>
      -- `self.in_mem_queues.next_position(queue)?` (multi_record_log.rs:142)
      if mq.poisoned then .error []
      else if writeEntryPanics g l (.delete q mq.nextPosition) then
        .error (writeEntryPre g l (.delete q mq.nextPosition))
      else
        let r1 := l.writeEntry g (.delete q mq.nextPosition)
        let l2 : Log := { r1.1 with queues := r1.1.queues.remove q }
        if runGcPanics g l2 order then .error (r1.2.1 ++ runGcPre g l2 order)
        else .ok (l.step g c tick order)
  | .append q pos? payloads =>
    match l.queues.get? q with
    | none => .ok (l.step g c tick order)
    | some mq =>
      -- `next_position(queue)?` (multi_record_log.rs:187)
      if mq.poisoned then .error []
      -- `position + 1 == next_position` (l.190)
      else if explicitAtMax pos? then .error []
      else
        match appendStart mq pos? with
        | none => .ok (l.step g c tick order)
        | some pos =>
          -- `(position..).zip(record_payloads)` (record.rs:228): one step more than payloads
          if U64MAX ≤ pos + payloads.length then .error []
          else if payloads.isEmpty then .ok (l.step g c tick order)
          else if writeEntryPanics g l (.append q pos (numberFrom pos payloads)) then
            .error (writeEntryPre g l (.append q pos (numberFrom pos payloads)))
          -- the loop of `MemQueue::append_record`: `next_position()` of a queue that is not
          -- poisoned, then of records below `u64::MAX - 1`
          else .ok (l.step g c tick order)
  | .truncate q p =>
    match l.queues.get? q with
    | none => .ok (l.step g c tick order)
    | some mq =>
      if writeEntryPanics g l (.truncate q p) then .error (writeEntryPre g l (.truncate q p))
      else
        let r1 := l.writeEntry g (.truncate q p)
        -- F4: the `Truncate` entry has been written when `truncate_head` overflows
        if truncatePanics mq p then .error r1.2.1
        else
          let l2 : Log := { r1.1 with queues := r1.1.queues.set q (mq.truncateHead p).1 }
          if runGcPanics g l2 order then .error (r1.2.1 ++ runGcPre g l2 order)
          else .ok (l.step g c tick order)
  | .persist _ => .ok (l.step g c tick order)

/-- does the checked build panic during this call? -/
def stepPanics (g : Geom) (l : Log) (c : Call) (tick : Bool) (order : List Bytes) : Bool :=
  match stepP g l c tick order with
  | .error _ => true
  | .ok _ => false

/-- the `Except Unit` view: `.error ()` iff the call panics -/
def stepPU (g : Geom) (l : Log) (c : Call) (tick : Bool) (order : List Bytes) :
    Except Unit (Log × Outcome × List Effect) :=
  match stepP g l c tick order with
  | .error _ => .error ()
  | .ok r => .ok r

end Log
end MRL
