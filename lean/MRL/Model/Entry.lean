/-
WAL entries (`MultiPlexedRecord` / `MultiRecord` of record.rs) and their byte encoding.
Queue names are byte strings; `utf8Valid` stands for `std::str::from_utf8(..).is_ok()`.
-/
import MRL.Model.Basic

namespace MRL
open Consts

/-- number of continuation bytes (`10xxxxxx`) at the head of a byte string, up to `n` -/
def contBytes : Nat → Bytes → Bool
  | 0, _ => true
  | _ + 1, [] => false
  | n + 1, b :: bs => (0x80 ≤ b.toNat && b.toNat ≤ 0xBF) && contBytes n bs

/-- UTF-8 well-formedness (Unicode Table 3-7), the predicate `str::from_utf8` decides. -/
def utf8Valid : Bytes → Bool
  | [] => true
  | b :: bs =>
    let x := b.toNat
    if x < 0x80 then utf8Valid bs
    else if 0xC2 ≤ x && x ≤ 0xDF then contBytes 1 bs && utf8Valid (bs.drop 1)
    else if 0xE0 ≤ x && x ≤ 0xEF then
      (match bs with
       | b1 :: _ =>
         let y := b1.toNat
         (if x = 0xE0 then 0xA0 ≤ y && y ≤ 0xBF
          else if x = 0xED then 0x80 ≤ y && y ≤ 0x9F
          else 0x80 ≤ y && y ≤ 0xBF)
       | [] => false) && contBytes 2 bs && utf8Valid (bs.drop 2)
    else if 0xF0 ≤ x && x ≤ 0xF4 then
      (match bs with
       | b1 :: _ =>
         let y := b1.toNat
         (if x = 0xF0 then 0x90 ≤ y && y ≤ 0xBF
          else if x = 0xF4 then 0x80 ≤ y && y ≤ 0x8F
          else 0x80 ≤ y && y ≤ 0xBF)
       | [] => false) && contBytes 3 bs && utf8Valid (bs.drop 3)
    else false
termination_by bs => bs.length
decreasing_by all_goals simp [List.length_drop] <;> omega

inductive Entry
  /-- `AppendRecords { queue, position, records }`; every record carries its own position -/
  | append (q : Bytes) (pos : Nat) (recs : List (Nat × Bytes))
  /-- `Truncate { queue, truncate_range: ..=pos }` -/
  | truncate (q : Bytes) (pos : Nat)
  /-- `RecordPosition { queue, position }` (tag "Touch") -/
  | touch (q : Bytes) (pos : Nat)
  /-- `DeleteQueue { queue, position }` -/
  | delete (q : Bytes) (pos : Nat)
  deriving Repr, DecidableEq

namespace Entry

def queue : Entry → Bytes
  | append q _ _ | truncate q _ | touch q _ | delete q _ => q

/-- `MultiRecord::serialize_with_pos` -/
def encodeRecs : List (Nat × Bytes) → Bytes
  | [] => []
  | (p, pl) :: rs => leBytes p 8 ++ leBytes pl.length 4 ++ pl ++ encodeRecs rs

/-- `serialize(record_type, position, queue, payload, buffer)` of record.rs:104-117 -/
def encodeRaw (tag pos : Nat) (q body : Bytes) : Bytes :=
  tag.toUInt8 :: (leBytes pos 8 ++ leBytes q.length 2 ++ q ++ body)

def encode : Entry → Bytes
  | append q pos recs => encodeRaw TAG_APPEND pos q (encodeRecs recs)
  | truncate q pos => encodeRaw TAG_TRUNCATE pos q []
  | touch q pos => encodeRaw TAG_TOUCH pos q []
  | delete q pos => encodeRaw TAG_DELETE pos q []

/-- `MultiRecord::new` + iteration (record.rs:203-214, 255-285): the records of a batch body, or
    `none` if it is malformed (a record header or payload running past the end). -/
def decodeRecs (bs : Bytes) : Option (List (Nat × Bytes)) :=
  if bs.isEmpty then some []
  else if bs.length < REC_HEADER_LEN then none
  else
    let pos := leNat (bs.take 8)
    let len := leNat ((bs.drop 8).take 4)
    let rest := bs.drop REC_HEADER_LEN
    if rest.length < len then none
    else (decodeRecs (rest.drop len)).map fun rs => (pos, rest.take len) :: rs
termination_by bs.length
decreasing_by simp only [REC_HEADER_LEN, List.length_drop] at *; omega

/-- `MultiPlexedRecord::deserialize` (record.rs:152-189). -/
def decode (bs : Bytes) : Option Entry :=
  if bs.length < ENTRY_HEADER_LEN then none
  else
    let tag := (bs.getD 0 0).toNat
    let pos := leNat ((bs.drop 1).take 8)
    let qlen := leNat ((bs.drop 9).take 2)
    let body := bs.drop ENTRY_HEADER_LEN
    if tag ≠ TAG_TRUNCATE ∧ tag ≠ TAG_TOUCH ∧ tag ≠ TAG_DELETE ∧ tag ≠ TAG_APPEND then none
    else if body.length < qlen then none
    else
      let q := body.take qlen
      let payload := body.drop qlen
      if !utf8Valid q then none
      else if tag = TAG_APPEND then (decodeRecs payload).map fun recs => append q pos recs
      else if tag = TAG_TRUNCATE then some (truncate q pos)
      else if tag = TAG_TOUCH then some (touch q pos)
      else some (delete q pos)

end Entry
end MRL
