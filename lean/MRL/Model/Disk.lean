/-
Disk and crash semantics. Effects are turned into the operations that actually reach the OS by a
model of `std::io::BufWriter` (capacity `FRAME_NUM_BYTES`); an image is the result of applying a
prefix of those operations (the last write possibly cut at any byte).
-/
import MRL.Model.Log
import MRL.Model.Recovery

namespace MRL

inductive OsOp
  | write (f off : Nat) (data : Bytes)
  | create (f : Nat)
  | setLen (f n : Nat)
  | ensureLen (f n : Nat)
  | unlink (f : Nat)
  /-- an `fsync`: everything before it is on stable storage -/
  | sync
  deriving Repr, DecidableEq

/-- `BufWriter` state: pending bytes and where they go -/
structure BufSt where
  pend : Bytes := []
  file : Nat := 0
  off : Nat := 0
  deriving Repr

def BufSt.flushOps (b : BufSt) : List OsOp := if b.pend.isEmpty then [] else [.write b.file b.off b.pend]

/-- `BufWriter::write_all` / `flush` (std): a write that does not fit flushes the buffer first;
    a write at least as large as the capacity bypasses the buffer. -/
def bufStep (cap : Nat) (b : BufSt) : Effect → BufSt × List OsOp
  | .write f off data =>
    let spare := cap - b.pend.length
    if data.length < spare then
      (if b.pend.isEmpty then { pend := data, file := f, off := off } else { b with pend := b.pend ++ data }, [])
    else
      let (b1, ops1) := if data.length > spare then (({} : BufSt), b.flushOps) else (b, [])
      if data.length ≥ cap then (b1, ops1 ++ [.write f off data])
      else
        (if b1.pend.isEmpty then { pend := data, file := f, off := off } else { b1 with pend := b1.pend ++ data }, ops1)
  | .flush => ({}, b.flushOps)
  | .fsyncFile _ => (b, [.sync])
  | .fsyncDir => (b, [.sync])
  | .create f => (b, [.create f])
  | .setLen f n => (b, [.setLen f n])
  | .ensureLen f n => (b, [.ensureLen f n])
  | .unlink f => (b, [.unlink f])
  | .listDir | .openFile _ | .readBlock _ => (b, [])

def toOsOps (cap : Nat) (b : BufSt) : List Effect → BufSt × List OsOp
  | [] => (b, [])
  | e :: es =>
    let (b1, o1) := bufStep cap b e
    let (b2, o2) := toOsOps cap b1 es
    (b2, o1 ++ o2)

/-- overwrite `data` at offset `off` (zero-extending a shorter file first) -/
def overwrite (content : Bytes) (off : Nat) (data : Bytes) : Bytes :=
  let c := if content.length < off then content ++ zeros (off - content.length) else content
  c.take off ++ data ++ c.drop (off + data.length)

def insertFile (img : Image) (f : Nat) (content : Bytes) : Image :=
  match img with
  | [] => [(f, content)]
  | (f', c') :: rest =>
    if f < f' then (f, content) :: (f', c') :: rest
    else if f = f' then (f', c') :: rest     -- `create_new` on an existing file fails: no change
    else (f', c') :: insertFile rest f content

def mapFile (img : Image) (f : Nat) (fn : Bytes → Bytes) : Image :=
  img.map fun kv => if kv.1 = f then (kv.1, fn kv.2) else kv

def setLenBytes (content : Bytes) (n : Nat) : Bytes :=
  if content.length < n then content ++ zeros (n - content.length) else content.take n

def applyOs (img : Image) : OsOp → Image
  | .write f off data => mapFile img f fun c => overwrite c off data
  | .create f => insertFile img f []
  | .setLen f n => mapFile img f fun c => setLenBytes c n
  | .ensureLen f n => mapFile img f fun c => if c.length < n then setLenBytes c n else c
  | .unlink f => img.filter (·.1 != f)
  | .sync => img

def applyOsOps (img : Image) (ops : List OsOp) : Image := ops.foldl applyOs img

/-- merge a write into the previous one when it continues it in the same file; applying the
    merged list gives the same image (the driver uses this to keep list-based images cheap) -/
def coalesce : List OsOp → List OsOp
  | .write f off d :: .write f' off' d' :: rest =>
    if f = f' ∧ off' = off + d.length then coalesce (.write f off (d ++ d') :: rest)
    else .write f off d :: coalesce (.write f' off' d' :: rest)
  | op :: rest => op :: coalesce rest
  | [] => []
termination_by ops => ops.length

/-- image after the first `k` OS operations, plus the first `cut` bytes of operation `k` when it
    is a write (a process crash at that instant) -/
def crashImage (img : Image) (ops : List OsOp) (k cut : Nat) : Image :=
  let base := applyOsOps img (ops.take k)
  match ops[k]? with
  | some (.write f off data) => applyOs base (.write f off (data.take cut))
  | _ => base

end MRL
