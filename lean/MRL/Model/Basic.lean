/-
Layer 0 of the model: bytes and little-endian integers.
Model files import nothing outside Lean core so that the driver links as a plain executable.
-/
import MRL.Generated.Consts

namespace MRL

abbrev Bytes := List UInt8

/-- `k` little-endian bytes of `n` (`to_le_bytes` of a `u{8k}` holding `n % 256^k`). -/
def leBytes (n : Nat) : Nat → Bytes
  | 0 => []
  | k + 1 => (n % 256).toUInt8 :: leBytes (n / 256) k

/-- little-endian value of a byte string (`from_le_bytes`). -/
def leNat : Bytes → Nat
  | [] => 0
  | b :: bs => b.toNat + 256 * leNat bs

def zeros (n : Nat) : Bytes := List.replicate n 0

def isAllZero (bs : Bytes) : Bool := bs.all (· == 0)

/-- total number of bytes in a list of buffers -/
def totalLen (bufs : List Bytes) : Nat := (bufs.map List.length).sum

/-- FNV-1a 64 of a byte string; only used to print digests in the driver. -/
def fnv64 (bs : Bytes) : UInt64 :=
  bs.foldl (fun h b => (h ^^^ b.toUInt64) * 0x100000001b3) 0xcbf29ce484222325

end MRL
