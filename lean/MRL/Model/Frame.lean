/-
Layer A of the model: frames inside blocks (frame/header.rs, frame/writer.rs, frame/reader.rs)
and entries cut into frames (recordlog/writer.rs).

A *cursor* `c` is an offset inside a block, `c < g.B` on the write side (`offset % BLOCK`), and
`c ≤ g.B` on the read side (`FrameReader::cursor`).
-/
import MRL.Model.Crc32

namespace MRL
open Consts

/-- Geometry: block size and blocks per WAL file. The code has `B = 32768` and `K = 4096`
    (`K = 4` in test/verification builds). Theorems are stated for every geometry. -/
structure Geom where
  B : Nat
  K : Nat
  hB : HEADER_LEN < B
  hK : 0 < K

def Geom.fileBytes (g : Geom) : Nat := g.B * g.K

inductive FrameType
  | full | first | middle | last
  deriving DecidableEq, Repr, Inhabited

namespace FrameType

def code : FrameType → Nat
  | full => FT_FULL
  | first => FT_FIRST
  | middle => FT_MIDDLE
  | last => FT_LAST

/-- `FrameType::from_u8` -/
def ofCode (n : Nat) : Option FrameType :=
  if n = FT_FULL then some full
  else if n = FT_FIRST then some first
  else if n = FT_MIDDLE then some middle
  else if n = FT_LAST then some last
  else none

def isFirst : FrameType → Bool
  | full | first => true
  | middle | last => false

def isLast : FrameType → Bool
  | full | last => true
  | first | middle => false

/-- `frame_type(is_first_frame, is_last_frame)` of recordlog/writer.rs -/
def ofFlags : Bool → Bool → FrameType
  | true, true => full
  | true, false => first
  | false, true => last
  | false, false => middle

end FrameType

/-- `crc32(payload, frame_type)` of frame/header.rs: the type byte then the payload. -/
def frameCrc (t : FrameType) (p : Bytes) : Nat := (crc32 (t.code.toUInt8 :: p)).toNat

/-- `Header::serialize`: checksum (4 LE) | len (2 LE, `as u16`) | type (1). -/
def encodeHeader (t : FrameType) (p : Bytes) : Bytes :=
  leBytes (frameCrc t p) 4 ++ leBytes p.length 2 ++ [t.code.toUInt8]

def encodeFrame (t : FrameType) (p : Bytes) : Bytes := encodeHeader t p ++ p

/-! ### Writer -/

/-- `FrameWriter::max_writable_frame_length` at in-block cursor `c`. -/
def maxFrameLen (g : Geom) (c : Nat) : Nat :=
  if HEADER_LEN ≤ g.B - c then g.B - c - HEADER_LEN else g.B - HEADER_LEN

/-- cursor after writing `n` bytes that do not cross the block end -/
def adv (g : Geom) (c n : Nat) : Nat := if c + n = g.B then 0 else c + n

/-- `FrameWriter::write_frame`: the buffers handed to `BlockWrite::write`, in order — the
    zero padding when fewer than `HEADER_LEN` bytes remain in the block, then the frame. -/
def frameWrites (g : Geom) (c : Nat) (t : FrameType) (p : Bytes) : List Bytes :=
  if g.B - c < HEADER_LEN then [zeros (g.B - c), encodeFrame t p] else [encodeFrame t p]

/-- cursor after `write_frame` -/
def frameEndCursor (g : Geom) (c : Nat) (plen : Nat) : Nat :=
  if g.B - c < HEADER_LEN then adv g 0 (HEADER_LEN + plen) else adv g c (HEADER_LEN + plen)

theorem maxFrameLen_adv_of_zero (g : Geom) (c : Nat) (hc : c < g.B) (h0 : maxFrameLen g c = 0) :
    maxFrameLen g (frameEndCursor g c 0) ≠ 0 := by
  have hB := g.hB
  unfold maxFrameLen at h0
  unfold frameEndCursor adv maxFrameLen
  simp only [HEADER_LEN] at *
  split at h0
  · have : c + 7 = g.B := by omega
    have h1 : ¬ (g.B - c < 7) := by omega
    simp only [h1, if_false, Nat.add_zero, this, if_true, Nat.sub_zero]
    split <;> omega
  · omega

theorem frameEndCursor_lt (g : Geom) (c n : Nat) (hc : c < g.B) (hn : n ≤ maxFrameLen g c) :
    frameEndCursor g c n < g.B := by
  have hB := g.hB
  unfold maxFrameLen at hn
  unfold frameEndCursor adv
  simp only [HEADER_LEN] at *
  split at hn <;> split <;> split <;> omega

/-- `RecordWriter::write_record` (the loop of recordlog/writer.rs:56-71): the buffers handed to
    `BlockWrite::write` for one entry whose remaining serialised bytes are `payload`, starting at
    in-block cursor `c`. Terminates because an empty frame can only be written when exactly
    `HEADER_LEN` bytes remain, after which a whole block is available (`HEADER_LEN < B`). -/
def writeEntryBufs (g : Geom) (c : Nat) (isFirst : Bool) (payload : Bytes) (hc : c < g.B) : List Bytes :=
  let n := min (maxFrameLen g c) payload.length
  let rest := payload.drop n
  let bufs := frameWrites g c (FrameType.ofFlags isFirst rest.isEmpty) (payload.take n)
  if hr : rest.isEmpty then bufs
  else
    bufs ++ writeEntryBufs g (frameEndCursor g c n) false rest
      (frameEndCursor_lt g c n hc (Nat.min_le_left _ _))
termination_by (payload.length, if maxFrameLen g c = 0 then 1 else 0)
decreasing_by
  have hlen : (payload.drop n).length = payload.length - n := List.length_drop
  have hne : (payload.drop n).length ≠ 0 := by
    intro h; apply hr; simp only [rest, List.isEmpty_iff]; exact List.eq_nil_of_length_eq_zero h
  have hnle : n ≤ payload.length := Nat.min_le_right _ _
  have hndef : n = min (maxFrameLen g c) payload.length := rfl
  show Prod.Lex (· < ·) (· < ·) ((payload.drop n).length, if maxFrameLen g (frameEndCursor g c n) = 0 then 1 else 0)
    (payload.length, if maxFrameLen g c = 0 then 1 else 0)
  by_cases hn : n = 0
  · have hm : maxFrameLen g c = 0 := by omega
    have h2 := maxFrameLen_adv_of_zero g c hc hm
    rw [hn] at hlen ⊢
    have e1 : (payload.drop 0).length = payload.length := by simp
    rw [e1, if_neg h2, if_pos hm]
    exact Prod.Lex.right _ (by omega)
  · exact Prod.Lex.left _ _ (by omega)

/-- All buffers of one entry (`write_record` clears and serialises first, then loops). -/
def writeEntry (g : Geom) (c : Nat) (entry : Bytes) (hc : c < g.B) : List Bytes :=
  writeEntryBufs g c true entry hc

/-! ### Reader -/

inductive FrameEv
  | frame (t : FrameType) (p : Bytes)
  | corrupt
  deriving Repr

/-- How the scan of one block ends. -/
inductive BlockEnd
  /-- an all-zero header at cursor `c`: `ReadFrameError::NotAvailable`, cursor not advanced -/
  | zeroHeader (c : Nat)
  /-- the reader needs the next block (fewer than `HEADER_LEN` bytes left, or the block was
      declared corrupted); `c` is the cursor at that moment -/
  | needNext (c : Nat)
  deriving Repr

/-- `FrameReader::read_frame` iterated inside one block, starting at cursor `c` with
    `block_corrupted = false` (frame/reader.rs:50-104). `rest` is the block content from the
    cursor on (`&block[cursor..]`). -/
def scanBlockFrom (g : Geom) (rest : Bytes) (c : Nat) : List FrameEv × BlockEnd :=
  if _h : g.B - c < HEADER_LEN then ([], .needNext c)
  else
    let hdr := rest.take HEADER_LEN
    if isAllZero hdr then ([], .zeroHeader c)
    else
      match FrameType.ofCode (hdr.getD 6 0).toNat with
      | none => ([.corrupt], .needNext c)          -- block_corrupted := true, cursor unchanged
      | some t =>
        let len := leNat ((hdr.drop 4).take 2)
        let c1 := c + HEADER_LEN
        if c1 + len > g.B then ([.corrupt], .needNext c1)   -- block_corrupted := true
        else
          let body := rest.drop HEADER_LEN
          let p := body.take len
          let ev := if frameCrc t p = leNat (hdr.take 4) then FrameEv.frame t p else FrameEv.corrupt
          let (evs, e) := scanBlockFrom g (body.drop len) (c1 + len)
          (ev :: evs, e)
termination_by g.B - c
decreasing_by simp only [HEADER_LEN] at *; omega

/-- scan of a whole block `data` from cursor `c` -/
def scanBlock (g : Geom) (data : Bytes) (c : Nat) : List FrameEv × BlockEnd :=
  scanBlockFrom g (data.drop c) c

end MRL
