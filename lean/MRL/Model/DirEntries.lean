/-
The WAL directory with everything it may contain. `Image` (Recovery.lean) only lists the WAL
files, so foreign files and sub-directories are invisible to the rest of the model "by typing";
this file makes the embedding explicit. A directory is a list of entries with distinct names; its
image is what `Directory::open` sees: the REGULAR entries whose name parses as `wal-<20 digits>`
(`parseFileName`), ascending by number. OS operations name files by number and therefore only
ever address the regular entry called `fileName f`.
-/
import MRL.Model.FileName
import MRL.Model.Disk

namespace MRL

structure DirEntry where
  name : Bytes
  kind : EntryKind
  content : Bytes
  deriving Repr, DecidableEq

/-- a directory: entries with distinct names -/
abbrev Dir := List DirEntry

/-- insert by file number, ascending -/
def insertSorted (f : Nat) (c : Bytes) : Image → Image
  | [] => [(f, c)]
  | (f', c') :: rest => if f ≤ f' then (f, c) :: (f', c') :: rest else (f', c') :: insertSorted f c rest

/-- the WAL file number of an entry, if it is one -/
def DirEntry.walNumber (e : DirEntry) : Option Nat :=
  if e.kind = .regular then parseFileName e.name else none

namespace Dir

/-- what `open` sees: regular entries with a WAL name, ascending by number -/
def image : Dir → Image
  | [] => []
  | e :: d =>
    match e.walNumber with
    | some n => insertSorted n e.content (image d)
    | none => image d

/-- is this the regular entry that file number `f` designates? -/
def isFile (f : Nat) (e : DirEntry) : Bool := e.kind == .regular && e.name == fileName f

/-- rewrite the content of WAL file `f` (nothing happens if it does not exist) -/
def mapFileD (d : Dir) (f : Nat) (fn : Bytes → Bytes) : Dir :=
  d.map fun e => if isFile f e then { e with content := fn e.content } else e

/-- one OS operation; the content transformations are those of `MRL.applyOs` -/
def applyOs (d : Dir) : OsOp → Dir
  | .write f off data => d.mapFileD f fun c => overwrite c off data
  | .create f =>
    -- `create_new` fails if ANY entry (file, directory, …) has that name: nothing changes
    if d.any (·.name == fileName f) then d else d ++ [{ name := fileName f, kind := .regular, content := [] }]
  | .setLen f n => d.mapFileD f fun c => setLenBytes c n
  | .ensureLen f n => d.mapFileD f fun c => if c.length < n then setLenBytes c n else c
  | .unlink f => d.filter fun e => !isFile f e
  | .sync => d

def applyOsOps (d : Dir) (ops : List OsOp) : Dir := ops.foldl applyOs d

end Dir

/-- the file numbers an OS operation names -/
def OsOp.files : OsOp → List Nat
  | .write f _ _ | .create f | .setLen f _ | .ensureLen f _ | .unlink f => [f]
  | .sync => []

end MRL
