/-
The in-memory queue at the level of the code (mem/rolling_buffer.rs, mem/queue.rs): ONE
concatenated `VecDeque<u8>` plus, per record, the offset at which its payload starts. A `VecDeque`
is a ring buffer: `as_slices()` returns the logical content as two slices `left ++ right`, cut at
an arbitrary point (wherever the ring wraps). The functions below take that cut as a parameter
`split ≤ buf.length` (`left = buf.take split`, `right = buf.drop split`).
Slices `s[a..b]` are `(s.drop a).take (b - a)` (the code panics when `a > b` or `b > s.len()`;
`MRL/Props/C05Impl.lean` shows the representation invariant excludes it).
-/
import MRL.Model.MemQueue

namespace MRL

/-- `RollingBuffer::get_range(start..end_)` over `as_slices() = (left, right)`
    (mem/rolling_buffer.rs:67-88): entirely in the left slice, entirely in the right one, or
    straddling the wrap point (copied). -/
def getRange (left right : Bytes) (start end_ : Nat) : Bytes :=
  if end_ < left.length then (left.drop start).take (end_ - start)
  else if start ≥ left.length then
    let s := start - left.length
    let e := end_ - left.length
    (right.drop s).take (e - s)
  else left.drop start ++ right.take (end_ - left.length)

/-- `RecordMeta` -/
structure MetaI where
  startOff : Nat
  file : Option Nat
  pos : Nat
  deriving Repr, DecidableEq

/-- `MemQueue` as implemented: `start_position`, `record_metas`, `concatenated_records` -/
structure MemQueueI where
  start : Nat := 0
  metas : List MetaI := []
  buf : Bytes := []
  deriving Repr, DecidableEq

namespace MemQueueI

def isEmpty (q : MemQueueI) : Bool := q.metas.isEmpty

/-- `next_position` -/
def nextPosition (q : MemQueueI) : Nat :=
  match q.metas.getLast? with
  | some m => m.pos + 1
  | none => q.start

/-- move the file handle off the previous last record when it is for the same file
    (mem/queue.rs:100-108) -/
def dropLastHandle (ms : List MetaI) (file : Nat) : List MetaI :=
  match ms.getLast? with
  | some m => if m.file = some file then ms.dropLast ++ [{ m with file := none }] else ms
  | none => ms

/-- `append_record`; `none` is `AppendError::Past` -/
def appendRecordI (q : MemQueueI) (file : Nat) (pos : Nat) (payload : Bytes) : Option MemQueueI :=
  if pos < q.nextPosition then none
  else
    let start := if q.start = 0 ∧ q.metas.isEmpty then pos else q.start
    some { start := start,
           metas := dropLastHandle q.metas file ++ [{ startOff := q.buf.length, file := some file, pos := pos }],
           buf := q.buf ++ payload }

/-- `position_to_idx(p).unwrap_or_else(identity)` on strictly increasing positions: the index of
    the first record at a position `≥ p` -/
def idxOf (ms : List MetaI) (p : Nat) : Nat := (ms.takeWhile (·.pos < p)).length

/-- `truncate_head(..=p)`: the two early exits, then drain the metas, re-base the offsets
    (`start_offset -= start_offset_to_keep`) and drop the head of the buffer -/
def truncateHeadI (q : MemQueueI) (p : Nat) : MemQueueI × Nat :=
  if q.start > p then (q, 0)
  else if p + 1 ≥ q.nextPosition then ({ start := p + 1, metas := [], buf := [] }, q.metas.length)
  else
    let k := idxOf q.metas (p + 1)
    -- `self.record_metas[first_record_to_keep].start_offset` (the code panics when out of bounds)
    let off := match q.metas[k]? with
      | some m => m.startOff
      | none => 0
    ({ start := p + 1,
       metas := (q.metas.drop k).map fun m => { m with startOff := m.startOff - off },
       buf := q.buf.drop off }, k)

/-- each record with the offset at which its payload ends: the next record's `start_offset`
    (`record_metas.get(idx + 1)`), the length of the buffer for the last one (`start_offset..`) -/
def slots : List MetaI → Nat → List (MetaI × Nat)
  | [], _ => []
  | [m], n => [(m, n)]
  | m :: m' :: rest, n => (m, m'.startOff) :: slots (m' :: rest) n

/-- `range(lo, hi)` (mem/queue.rs:129-161) with `as_slices()` cutting the buffer at `split` -/
def rangeI (q : MemQueueI) (lo hi : MemQueue.Bound) (split : Nat) : List (Nat × Bytes) :=
  let left := q.buf.take split
  let right := q.buf.drop split
  let startIdx := match lo with
    | .unbounded => 0
    | .incl n => idxOf q.metas n
    | .excl n => (q.metas.takeWhile (·.pos ≤ n)).length
  (((slots q.metas q.buf.length).drop startIdx).takeWhile fun s => lo.okLo s.1.pos && hi.okHi s.1.pos).map
    fun s => (s.1.pos, getRange left right s.1.startOff s.2)

/-- `last_record` -/
def lastRecordI (q : MemQueueI) (split : Nat) : Option (Nat × Bytes) :=
  q.metas.getLast?.map fun m =>
    (m.pos, getRange (q.buf.take split) (q.buf.drop split) m.startOff q.buf.length)

/-- `size()` with `msz = size_of::<RecordMeta>()` -/
def sizeI (msz : Nat) (q : MemQueueI) : Nat := q.buf.length + q.metas.length * msz

/-- the abstraction: record `i` holds `buf[startOff_i, startOff_{i+1})`, the last one to the end -/
def absI (q : MemQueueI) : MemQueue :=
  { start := q.start,
    recs := (slots q.metas q.buf.length).map fun s =>
      { pos := s.1.pos, payload := (q.buf.drop s.1.startOff).take (s.2 - s.1.startOff), file := s.1.file } }

end MemQueueI
end MRL
