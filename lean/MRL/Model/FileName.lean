/-
WAL file names (rolling/directory.rs `filename_to_position`, rolling/file_number.rs `filename`):
`wal-` followed by exactly 20 ASCII decimal digits, the number fitting a `u64`.
Names are byte strings (the code measures `str::len`, i.e. bytes).
-/
import MRL.Model.Basic

namespace MRL
open Consts

def asciiDigit (b : UInt8) : Bool := 48 ≤ b.toNat && b.toNat ≤ 57

/-- decimal value of a string of ASCII digits -/
def decValue (ds : Bytes) : Nat := ds.foldl (fun acc b => acc * 10 + (b.toNat - 48)) 0

def namePrefix : Bytes := NAME_PREFIX.toUTF8.toList

/-- `filename_to_position` -/
def parseFileName (s : Bytes) : Option Nat :=
  if s.length ≠ NAME_LEN then none
  else if s.take 4 ≠ namePrefix then none
  else
    let ds := s.drop 4
    if !ds.all asciiDigit then none
    else if decValue ds < 2 ^ 64 then some (decValue ds) else none

/-- the `k` low decimal digits of `n`, most significant first, zero padded -/
def decDigits (n : Nat) : Nat → Bytes
  | 0 => []
  | k + 1 => decDigits (n / 10) k ++ [(48 + n % 10).toUInt8]

/-- `FileNumber::filename`: `format!("wal-{:020}", n)` for `n < 10^20` (every `u64`) -/
def fileName (n : Nat) : Bytes := namePrefix ++ decDigits n NAME_DIGITS

/-- kinds of directory entries as far as `Directory::open` distinguishes them -/
inductive EntryKind
  | regular | other
  deriving DecidableEq, Repr

/-- the file numbers `Directory::open` tracks: regular files whose name parses -/
def listWal (entries : List (Bytes × EntryKind)) : List Nat :=
  entries.filterMap fun (name, kind) => if kind = .regular then parseFileName name else none

end MRL
