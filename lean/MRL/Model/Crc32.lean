/-
CRC-32 (IEEE 802.3, reflected, as computed by `crc32fast`). The theorems never look inside this
function: they only use that it is a function. Its agreement with `crc32fast` is checked by the
correspondence run on every frame of every trace (the written bytes contain the checksums).
-/
import MRL.Model.Basic

namespace MRL

def crcTableEntry (i : Nat) : UInt32 :=
  let step (c : UInt32) : UInt32 := if c &&& 1 == 1 then (0xEDB88320 : UInt32) ^^^ (c >>> 1) else c >>> 1
  step (step (step (step (step (step (step (step i.toUInt32)))))))

def crcTable : Array UInt32 := Array.ofFn (n := 256) fun i => crcTableEntry i.val

def crcStep (c : UInt32) (b : UInt8) : UInt32 :=
  crcTable[((c ^^^ b.toUInt32) &&& 0xFF).toNat]! ^^^ (c >>> 8)

def crc32 (bs : Bytes) : UInt32 := (bs.foldl crcStep 0xFFFFFFFF) ^^^ 0xFFFFFFFF

end MRL
