/-
The multiplexed log (multi_record_log.rs) and the rolling writer (rolling/directory.rs) as a
state machine `step : Log → Call → oracles → Log × Outcome × List Effect`. Effects are the file
system actions in program order; policy, buffering and ordering are visible only through them.
This transcribes the code *after* the three `fix:` commits (DESIGN §7).
-/
import MRL.Model.Frame
import MRL.Model.Entry
import MRL.Model.MemQueue

namespace MRL

inductive PersistAction
  | flush | flushAndFsync
  deriving Repr, DecidableEq

inductive Policy
  | doNothing
  | onDelay (a : PersistAction)
  | always (a : PersistAction)
  deriving Repr, DecidableEq

inductive Effect
  | listDir
  | create (f : Nat)
  | setLen (f n : Nat)
  /-- `set_len(n)` only if the file is shorter than `n` (the F2 repair) -/
  | ensureLen (f n : Nat)
  | openFile (f : Nat)
  | readBlock (f : Nat)
  /-- bytes handed to the `BufWriter` of file `f` at in-file offset `off` -/
  | write (f off : Nat) (data : Bytes)
  | flush
  | fsyncFile (f : Nat)
  | fsyncDir
  | unlink (f : Nat)
  deriving Repr, DecidableEq

structure Log where
  /-- tracked WAL file numbers, ascending (`FileTracker`) -/
  files : List Nat
  /-- file being written (`RollingWriter::file_number`) -/
  cur : Nat
  /-- in-file write offset (`RollingWriter::offset`) -/
  off : Nat
  queues : MemQueues
  policy : Policy
  deriving Repr

inductive Call
  | create (q : Bytes)
  | delete (q : Bytes)
  | append (q : Bytes) (pos : Option Nat) (payloads : List Bytes)
  | truncate (q : Bytes) (p : Nat)
  | persist (a : PersistAction)
  deriving Repr

inductive Outcome
  | created (walBytes : Nat)
  | deleted (walBytes : Nat)
  | appended (last : Option Nat) (walBytes : Nat)
  | truncated (evicted walBytes : Nat)
  | persisted
  | alreadyExists
  | missingQueue
  | past
  deriving Repr, DecidableEq

/-- `FileTracker::next`: the smallest tracked number above `f` -/
def nextFile (files : List Nat) (f : Nat) : Option Nat := files.find? (f < ·)

namespace Log

/-- `RollingWriter::persist` -/
def persistEffects (l : Log) : PersistAction → List Effect
  | .flush => [.flush]
  | .flushAndFsync => [.flush, .fsyncFile l.cur, .fsyncDir]

/-- `RollingWriter::write` of one buffer (rolling/directory.rs:241-268) -/
def writeBuf (g : Geom) (l : Log) (buf : Bytes) : Log × List Effect :=
  if buf.isEmpty then (l, [])
  else if l.off + buf.length > g.fileBytes then
    let roll := [Effect.flush, .fsyncFile l.cur, .fsyncDir]
    match nextFile l.files l.cur with
    | some nf =>
      ({ l with cur := nf, off := buf.length },
       roll ++ [.openFile nf, .ensureLen nf g.fileBytes, .write nf 0 buf])
    | none =>
      let nf := l.cur + 1
      ({ l with files := l.files ++ [nf], cur := nf, off := buf.length },
       roll ++ [.create nf, .setLen nf g.fileBytes, .write nf 0 buf])
  else ({ l with off := l.off + buf.length }, [.write l.cur l.off buf])

def writeBufs (g : Geom) (l : Log) : List Bytes → Log × List Effect
  | [] => (l, [])
  | b :: bs =>
    let (l1, e1) := writeBuf g l b
    let (l2, e2) := writeBufs g l1 bs
    (l2, e1 ++ e2)

/-- `RecordWriter::write_record`: returns the new log, the effects and `num_bytes_written` -/
def writeEntry (g : Geom) (l : Log) (e : Entry) : Log × List Effect × Nat :=
  let bufs := MRL.writeEntry g (l.off % g.B) e.encode
    (Nat.mod_lt _ (Nat.lt_trans (Nat.succ_pos _) g.hB))
  let (l1, effs) := writeBufs g l bufs
  (l1, effs, totalLen bufs)

/-- `FileNumber::can_be_deleted` for a tracked file: nobody but the tracker holds it. `pinned`
    is the clone `_file_number` taken by `run_gc_if_necessary`. -/
def canDelete (l : Log) (pinned : Nat) (f : Nat) : Bool :=
  f != l.cur && f != pinned && !l.queues.refsFile f

/-- `Directory::gc`: drop deletable files from the front, never the last one. Returns
    (remaining, deleted). -/
def gcFiles (canDel : Nat → Bool) : List Nat → List Nat × List Nat
  | f :: f' :: rest =>
    if canDel f then
      let (r, d) := gcFiles canDel (f' :: rest)
      (r, f :: d)
    else (f :: f' :: rest, [])
  | fs => (fs, [])

def isPermOf (a b : List Bytes) : Bool :=
  a.length == b.length && a.all (fun x => a.count x == b.count x)

/-- write one `RecordPosition` entry per name (`record_empty_queues_position`) -/
def writeTouches (g : Geom) (l : Log) : List Bytes → Log × List Effect × Nat
  | [] => (l, [], 0)
  | name :: rest =>
    let next := match l.queues.get? name with
      | some q => q.nextPosition
      | none => 0
    let (l1, e1, n1) := writeEntry g l (.touch name next)
    let (l2, e2, n2) := writeTouches g l1 rest
    (l2, e1 ++ e2, n1 + n2)

/-- `run_gc_if_necessary`. `order` is the (hash-map) order in which the empty queues are
    visited; it is used if it is a permutation of the empty queue names. -/
def runGc (g : Geom) (l : Log) (order : List Bytes) : Log × List Effect × Nat :=
  match l.files with
  | f :: _ :: _ =>
    if l.canDelete l.cur f then
      let pinned := l.cur
      let names := if isPermOf order l.queues.emptyNames then order else l.queues.emptyNames
      let (l1, e1, n) := writeTouches g l names
      let e2 := l1.persistEffects .flushAndFsync
      let (remaining, deleted) := gcFiles (l1.canDelete pinned) l1.files
      ({ l1 with files := remaining }, e1 ++ e2 ++ deleted.map Effect.unlink, n)
    else (l, [], 0)
  | _ => (l, [], 0)

/-- `persist_on_policy`; `tick` is the one bit of `Instant::now()` the code looks at -/
def policyEffects (l : Log) (tick : Bool) : List Effect :=
  match l.policy with
  | .always a => l.persistEffects a
  | .onDelay a => if tick then l.persistEffects a else []
  | .doNothing => []

/-- positions `pos, pos+1, …` zipped with the payloads (`MultiRecord::serialize`) -/
def numberFrom (pos : Nat) : List Bytes → List (Nat × Bytes)
  | [] => []
  | p :: ps => (pos, p) :: numberFrom (pos + 1) ps

def appendAll (q : MemQueue) (file : Nat) : List (Nat × Bytes) → Option MemQueue
  | [] => some q
  | (p, pl) :: rs => (q.appendRecord file p pl).bind fun q' => appendAll q' file rs

/-- One API call (multi_record_log.rs:119-333). -/
def step (g : Geom) (l : Log) (c : Call) (tick : Bool) (order : List Bytes) : Log × Outcome × List Effect :=
  match c with
  | .create q =>
    if l.queues.contains q then (l, .alreadyExists, [])
    else
      let (l1, e1, n) := l.writeEntry g (.touch q 0)
      let e2 := l1.persistEffects .flushAndFsync
      ({ l1 with queues := l1.queues.set q {} }, .created n, e1 ++ e2)
  | .delete q =>
    match l.queues.get? q with
    | none => (l, .missingQueue, [])
    | some mq =>
      let (l1, e1, n1) := l.writeEntry g (.delete q mq.nextPosition)
      let l2 := { l1 with queues := l1.queues.remove q }
      let (l3, e3, n3) := l2.runGc g order
      (l3, .deleted (n1 + n3), e1 ++ e3 ++ l3.persistEffects .flushAndFsync)
  | .append q pos? payloads =>
    match l.queues.get? q with
    | none => (l, .missingQueue, [])
    | some mq =>
      let next := mq.nextPosition
      let noop : Log × Outcome × List Effect := (l, .appended none 0, [])
      match (match pos? with
             | some p => if p + 1 = next then some none else if p < next then none else some (some p)
             | none => some (some next)) with
      | none => (l, .past, [])
      | some none => noop
      | some (some pos) =>
        if payloads.isEmpty then noop
        else
          let recs := numberFrom pos payloads
          let file := l.cur
          let (l1, e1, n) := l.writeEntry g (.append q pos recs)
          let e2 := l1.policyEffects tick
          match appendAll mq file recs with
          | none => (l1, .past, e1 ++ e2)   -- unreachable: `pos ≥ next`
          | some mq' =>
            ({ l1 with queues := l1.queues.set q mq' },
             .appended (some (pos + payloads.length - 1)) n, e1 ++ e2)
  | .truncate q p =>
    match l.queues.get? q with
    | none => (l, .missingQueue, [])
    | some mq =>
      let (l1, e1, n1) := l.writeEntry g (.truncate q p)
      let (mq', evicted) := mq.truncateHead p
      let l2 := { l1 with queues := l1.queues.set q mq' }
      let (l3, e3, n3) := l2.runGc g order
      (l3, .truncated evicted (n1 + n3), e1 ++ e3 ++ l3.policyEffects tick)
  | .persist a => (l, .persisted, l.persistEffects a)

/-- `resource_usage().disk_used_bytes` -/
def diskUsed (g : Geom) (l : Log) : Nat := l.files.length * g.fileBytes

end Log
end MRL
