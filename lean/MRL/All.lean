-- every property module, so that setup builds all proofs once
import MRL.Props.C01
import MRL.Props.C01Journal
import MRL.Props.C03
import MRL.Props.C04
import MRL.Props.C05
import MRL.Props.C06
import MRL.Props.C07
import MRL.Props.C08
import MRL.Props.C11
import MRL.Props.C12
import MRL.Props.C13
import MRL.Props.C14
import MRL.Props.C15
import MRL.Props.C16
import MRL.Props.C17
import MRL.Props.C18
