/-
One call of the real log seen on the disk that still holds collected files (`PDC.virt_call`), for the
invariant `CInvA` (journal tied to the queues up to the file handles). Generated from
MRL/Proofs/PDCVirt.lean: the same proof over `PDA.write_phaseA` / `PDA.cinva_write`.
-/
import MRL.Proofs.PDAInv
import MRL.Proofs.PDCVirt

namespace MRL.PDA
open MRL Codec Consts G H Torn Log Buf C05 C01J L PX PD PDC

/-- **one call of the real log, seen on the disk that still holds the older files** -/
theorem virt_callA (g : Geom) (hB : g.B ≤ 65542) (lo : List Nat) {l : Log} {Jv : List JE} {Dv : Image}
    (hv : CInvA g (virt lo l) Jv Dv) (hwv : ∀ j ∈ Jv, C07.WF j.e) (hlo : ∀ f ∈ lo, f ≤ l.cur)
    (c : Call) (tick : Bool) (order : List Bytes) (hwe : ∀ j ∈ l.stepJ g c order, C07.WF j.e)
    (htorn : TornEffs (l.step g c tick order).2.2) :
    (∀ p, hasDS ((l.step g c tick order).2.2.take p) = false →
      XRes g l.queues (l.step g c tick order).1.queues
        (applyOsOps Dv (directOps ((l.step g c tick order).2.2.take p)))) ∧
    (hasDS (l.step g c tick order).2.2 = false →
      ∃ Jv', CInvA g (virt lo (l.step g c tick order).1) Jv'
          (applyOsOps Dv (directOps (l.step g c tick order).2.2)) ∧
        (∀ j ∈ Jv', C07.WF j.e) ∧ ∀ f ∈ lo, f ≤ (l.step g c tick order).1.cur) := by
  have hI : Inv l := Inv.of_queues (l := virt lo l) (l' := l) rfl hv.inv
  have hInv' : Inv (l.step g c tick order).1 := (C05_refines g l hI c tick order).2.2
  have hres0 : XRes g l.queues l.queues Dv := cinva_xres g hB (l := virt lo l) hv hwv
  rcases step_full2 g l hI c tick order with
    ⟨hj, hl, hsy⟩ | ⟨e, qs', sy, hewf, hre, hsy, (⟨hj, hl, heff⟩ | ⟨hj, hl, heff⟩)⟩
  · -- nothing written
    refine ⟨?_, ?_⟩
    · intro p _
      rw [syncL_apply (syncL_take hsy p), hl]
      exact hres0
    · intro _
      refine ⟨Jv, ?_, hwv, ?_⟩
      · rw [syncL_apply hsy, hl]; exact hv
      · rw [hl]; exact hlo
  · -- one entry, no GC pass
    rw [hl] at hInv'
    obtain ⟨hwv1, hcur1⟩ := writeEntry_virt g lo l e hlo
    have hinv2 : Inv ({ (Log.writeEntry g (virt lo l) e).1 with queues := qs' } : Log) :=
      Inv.of_queues (l := ({ (Log.writeEntry g l e).1 with queues := qs' } : Log)) rfl hInv'
    have heffv : (Log.writeEntry g (virt lo l) e).2.1 = (Log.writeEntry g l e).2.1 := by rw [hwv1]
    have hwf' : ∀ j ∈ Jv ++ (virt lo l).je g e ::
        touchesJ g { (Log.writeEntry g (virt lo l) e).1 with queues := qs' } [], C07.WF j.e := by
      intro j hj'
      simp only [touchesJ, List.mem_append, List.mem_singleton] at hj'
      rcases hj' with hj' | hj'
      · exact hwv j hj'
      · rw [hj']
        exact hwe (l.je g e) (by rw [hj]; exact List.mem_singleton.mpr rfl)
    have htorn1 : TornEffs (Log.writeEntry g l e).2.1 :=
      fun t p f off hm => htorn t p f off (by rw [heff]; exact List.mem_append_left _ hm)
    have hphase : ∀ (w : Bool) X, CutW w Dv (Log.writeEntry g l e).2.1 X → XRes g l.queues qs' X := by
      intro w X hX
      exact write_phaseA g hB hv e qs' hewf hre hinv2 [] (fun n hn => by cases hn) hwf'
        (by simp only [writeTouches, List.append_nil]; rw [heffv]; exact htorn1) w X
        (by simp only [writeTouches, List.append_nil]; rw [heffv]; exact hX)
    have hq1 : (l.step g c tick order).1.queues = qs' := by rw [hl]
    refine ⟨?_, ?_⟩
    · intro p _
      rw [hq1, heff]
      rcases CutW.of_append _ (CutW.of_take true ((Log.writeEntry g l e).2.1 ++ sy) p Dv) with hX | hX
      · exact hphase true _ hX
      · rw [cutW_syncL hsy hX]
        exact hphase true _ (CutW.full true _ _)
    · intro _
      refine ⟨Jv ++ [(virt lo l).je g e], ?_, ?_, ?_⟩
      · have := cinva_write g hv e qs' hewf hre hinv2
        rw [heffv, hwv1] at this
        rw [heff, directOps_append, applyOsOps_append, syncL_apply hsy, hl]
        exact this
      · intro j hj'
        rcases List.mem_append.mp hj' with hj' | hj'
        · exact hwv j hj'
        · rw [List.mem_singleton] at hj'
          rw [hj']
          exact hwe (l.je g e) (by rw [hj]; exact List.mem_singleton.mpr rfl)
      · intro f hf
        rw [hl]
        exact Nat.le_trans (hlo f hf) hcur1
  · -- one entry, then a GC pass of the real log
    have hq' : (runGc g { (Log.writeEntry g l e).1 with queues := qs' } order).1.queues = qs' :=
      runGc_queues g _ order
    have hq1 : (l.step g c tick order).1.queues = qs' := by rw [hl]; exact hq'
    rw [hl] at hInv'
    have hInv2 : Inv ({ (Log.writeEntry g l e).1 with queues := qs' } : Log) :=
      Inv.of_queues (l := (runGc g { (Log.writeEntry g l e).1 with queues := qs' } order).1) hq'.symm hInv'
    obtain ⟨hwv1, hcur1⟩ := writeEntry_virt g lo l e hlo
    have hinv2 : Inv ({ (Log.writeEntry g (virt lo l) e).1 with queues := qs' } : Log) :=
      Inv.of_queues (l := ({ (Log.writeEntry g l e).1 with queues := qs' } : Log)) rfl hInv2
    have heffv : (Log.writeEntry g (virt lo l) e).2.1 = (Log.writeEntry g l e).2.1 := by rw [hwv1]
    have hl2v : ({ (Log.writeEntry g (virt lo l) e).1 with queues := qs' } : Log) =
        virt lo { (Log.writeEntry g l e).1 with queues := qs' } := by rw [hwv1]; rfl
    have hlo2 : ∀ f ∈ lo, f ≤ ({ (Log.writeEntry g l e).1 with queues := qs' } : Log).cur :=
      fun f hf => Nat.le_trans (hlo f hf) hcur1
    rcases runGc_full g { (Log.writeEntry g l e).1 with queues := qs' } order with ⟨hr1, hr2⟩ | ⟨names, hr1, hr2⟩
    · -- the GC pass does nothing
      rw [hr1] at heff hl
      rw [hr2] at hj
      simp only [List.append_nil] at heff
      have hwf' : ∀ j ∈ Jv ++ (virt lo l).je g e ::
          touchesJ g { (Log.writeEntry g (virt lo l) e).1 with queues := qs' } [], C07.WF j.e := by
        intro j hj'
        simp only [touchesJ, List.mem_append, List.mem_singleton] at hj'
        rcases hj' with hj' | hj'
        · exact hwv j hj'
        · rw [hj']
          exact hwe (l.je g e) (by rw [hj]; exact List.mem_singleton.mpr rfl)
      have htorn1 : TornEffs (Log.writeEntry g l e).2.1 :=
        fun t p f off hm => htorn t p f off (by rw [heff]; exact List.mem_append_left _ hm)
      have hphase : ∀ (w : Bool) X, CutW w Dv (Log.writeEntry g l e).2.1 X → XRes g l.queues qs' X := by
        intro w X hX
        exact write_phaseA g hB hv e qs' hewf hre hinv2 [] (fun n hn => by cases hn) hwf'
          (by simp only [writeTouches, List.append_nil]; rw [heffv]; exact htorn1) w X
          (by simp only [writeTouches, List.append_nil]; rw [heffv]; exact hX)
      refine ⟨?_, ?_⟩
      · intro p _
        rw [hq1, heff]
        rcases CutW.of_append _ (CutW.of_take true ((Log.writeEntry g l e).2.1 ++ sy) p Dv) with hX | hX
        · exact hphase true _ hX
        · rw [cutW_syncL hsy hX]
          exact hphase true _ (CutW.full true _ _)
      · intro _
        refine ⟨Jv ++ [(virt lo l).je g e], ?_, ?_, ?_⟩
        · have := cinva_write g hv e qs' hewf hre hinv2
          rw [heffv, hwv1] at this
          rw [heff, directOps_append, applyOsOps_append, syncL_apply hsy, hl]
          exact this
        · intro j hj'
          rcases List.mem_append.mp hj' with hj' | hj'
          · exact hwv j hj'
          · rw [List.mem_singleton] at hj'
            rw [hj']
            exact hwe (l.je g e) (by rw [hj]; exact List.mem_singleton.mpr rfl)
        · intro f hf
          rw [hl]
          exact hlo2 f hf
    · -- the GC pass runs: its `fsync(dir)` closes the window
      have hnames : ∀ n ∈ names, n ∈ qs'.emptyNames := by
        rcases runGc_shape g { (Log.writeEntry g l e).1 with queues := qs' } order hInv2.1 with
          ⟨hs1, _⟩ | ⟨names', _, _, hs1, _, _, hs5⟩
        · rw [hr1] at hs1
          cases names with
          | nil => intro n hn; cases hn
          | cons n ns => rw [touchesJ_cons] at hs1; cases hs1
        · rw [hr1] at hs1
          have := touchesJ_inj g _ _ _ hs1
          subst this
          intro n hn
          exact (hs5 n).mp hn
      rw [hr1] at hj
      obtain ⟨htv, _⟩ := writeTouches_virt g lo names { (Log.writeEntry g l e).1 with queues := qs' } hlo2
      have heffW : (Log.writeEntry g (virt lo l) e).2.1 ++
          (writeTouches g { (Log.writeEntry g (virt lo l) e).1 with queues := qs' } names).2.1 =
          (Log.writeEntry g l e).2.1 ++
          (writeTouches g { (Log.writeEntry g l e).1 with queues := qs' } names).2.1 := by
        rw [heffv, hl2v, htv]
      have hwf' : ∀ j ∈ Jv ++ (virt lo l).je g e ::
          touchesJ g { (Log.writeEntry g (virt lo l) e).1 with queues := qs' } names, C07.WF j.e := by
        intro j hj'
        rcases List.mem_append.mp hj' with hj' | hj'
        · exact hwv j hj'
        · rw [hl2v, touchesJ_virt g lo names _ hlo2, je_virt g lo l e hlo] at hj'
          exact hwe j (by rw [hj]; exact hj')
      have heff' : (l.step g c tick order).2.2 =
          ((Log.writeEntry g l e).2.1 ++ (writeTouches g { (Log.writeEntry g l e).1 with queues := qs' } names).2.1) ++
          ((writeTouches g { (Log.writeEntry g l e).1 with queues := qs' } names).1.persistEffects .flushAndFsync ++
            ((gcFiles ((writeTouches g { (Log.writeEntry g l e).1 with queues := qs' } names).1.canDelete
              ({ (Log.writeEntry g l e).1 with queues := qs' } : Log).cur)
              (writeTouches g { (Log.writeEntry g l e).1 with queues := qs' } names).1.files).2.map Effect.unlink ++ sy)) := by
        rw [heff, hr2]; simp only [List.append_assoc]
      have htornW : TornEffs ((Log.writeEntry g l e).2.1 ++
          (writeTouches g { (Log.writeEntry g l e).1 with queues := qs' } names).2.1) :=
        fun t p f off hm => htorn t p f off (by rw [heff']; exact List.mem_append_left _ hm)
      have hphase : ∀ (w : Bool) X, CutW w Dv ((Log.writeEntry g l e).2.1 ++
          (writeTouches g { (Log.writeEntry g l e).1 with queues := qs' } names).2.1) X → XRes g l.queues qs' X := by
        intro w X hX
        exact write_phaseA g hB hv e qs' hewf hre hinv2 names hnames hwf'
          (by rw [heffW]; exact htornW) w X (by rw [heffW]; exact hX)
      refine ⟨?_, ?_⟩
      · intro p hp
        rw [hq1]
        rw [heff'] at hp ⊢
        generalize hWd : (Log.writeEntry g l e).2.1 ++
          (writeTouches g { (Log.writeEntry g l e).1 with queues := qs' } names).2.1 = W at *
        by_cases hpl : p ≤ W.length
        · rw [List.take_append_of_le_length hpl]
          exact hphase true _ (CutW.of_take true W p Dv)
        · rw [List.take_append, List.take_of_length_le (by omega)] at hp ⊢
          -- the rest starts with `flush, fsync(file), fsync(dir)`
          have hk : p - W.length ≤ 2 := by
            apply Classical.byContradiction
            intro hn
            have h3 : ∃ m, p - W.length = m + 3 := ⟨p - W.length - 3, by omega⟩
            obtain ⟨m, hm⟩ := h3
            rw [hm, hasDS_append] at hp
            simp [persistEffects, hasDS, isDS] at hp
          have hsync : IsSyncL (((writeTouches g { (Log.writeEntry g l e).1 with queues := qs' } names).1.persistEffects
              .flushAndFsync ++ ((gcFiles ((writeTouches g { (Log.writeEntry g l e).1 with queues := qs' } names).1.canDelete
              ({ (Log.writeEntry g l e).1 with queues := qs' } : Log).cur)
              (writeTouches g { (Log.writeEntry g l e).1 with queues := qs' } names).1.files).2.map Effect.unlink ++
              sy)).take (p - W.length)) := by
            intro v hv'
            have h1 : p - W.length = 0 ∨ p - W.length = 1 ∨ p - W.length = 2 := by omega
            rcases h1 with h1 | h1 | h1 <;> rw [h1] at hv' <;> simp [persistEffects] at hv'
            · exact Or.inl hv'
            · rcases hv' with hv' | hv'
              · exact Or.inl hv'
              · exact Or.inr (Or.inl ⟨_, hv'⟩)
          rw [directOps_append, applyOsOps_append, syncL_apply hsync]
          exact hphase true _ (CutW.full true W Dv)
      · intro hno
        exfalso
        rw [heff'] at hno
        have : hasDS (((Log.writeEntry g l e).2.1 ++
          (writeTouches g { (Log.writeEntry g l e).1 with queues := qs' } names).2.1) ++
          ((writeTouches g { (Log.writeEntry g l e).1 with queues := qs' } names).1.persistEffects .flushAndFsync ++
            ((gcFiles ((writeTouches g { (Log.writeEntry g l e).1 with queues := qs' } names).1.canDelete
              ({ (Log.writeEntry g l e).1 with queues := qs' } : Log).cur)
              (writeTouches g { (Log.writeEntry g l e).1 with queues := qs' } names).1.files).2.map Effect.unlink ++ sy))) = true := by
          apply hasDS_of_mem
          simp [persistEffects]
        rw [this] at hno
        cases hno


end MRL.PDA
