/-
One damaged frame on the tape of an image (C09 about `recover`): replay does not depend on the
files the entries are attributed to (positions, payloads, success); the segment a tape frame
belongs to; what `assemble` delivers when that frame is reported corrupt.
-/
import MRL.Proofs.ImgDrop
import MRL.Proofs.ImgRead

namespace MRL.Img
open MRL Log C05 Rec Drop Codec Torn G

/-! ### replay up to file attribution -/

/-- same records (positions, payloads) and same next position, or both absent -/
def PEqO : Option MemQueue → Option MemQueue → Prop
  | none, none => True
  | some a, some b => plain a = plain b ∧ a.nextPosition = b.nextPosition
  | _, _ => False

def PEq (a b : MemQueues) : Prop := ∀ n, PEqO (a.get? n) (b.get? n)

theorem PEq.refl (a : MemQueues) : PEq a a := by
  intro n; cases a.get? n <;> simp [PEqO]

theorem appendRecord_next {x x' : MemQueue} {f pos : Nat} {pl : Bytes}
    (h : x.appendRecord f pos pl = some x') : x'.nextPosition = pos + 1 := by
  unfold MemQueue.appendRecord at h
  split at h
  · cases h
  · simp only [Option.some.injEq] at h
    subst h
    exact MemQueue.nextPosition_append _ _ _

theorem appendRecord_peq {x x' y : MemQueue} {f f' pos : Nat} {pl : Bytes}
    (h : x.appendRecord f pos pl = some x') (hp : plain x = plain y) (hn : x.nextPosition = y.nextPosition) :
    ∃ y', y.appendRecord f' pos pl = some y' ∧ plain x' = plain y' ∧ x'.nextPosition = y'.nextPosition := by
  have hle := appendRecord_some_le h
  have hy : ∃ y', y.appendRecord f' pos pl = some y' := by
    unfold MemQueue.appendRecord
    rw [if_neg (by omega)]
    exact ⟨_, rfl⟩
  obtain ⟨y', hy'⟩ := hy
  refine ⟨y', hy', ?_, ?_⟩
  · rw [plain_appendRecord h, plain_appendRecord hy', hp]
  · rw [appendRecord_next h, appendRecord_next hy']

theorem appendAll_peq (f f' : Nat) (recs : List (Nat × Bytes)) : ∀ {x x' y : MemQueue},
    appendAll x f recs = some x' → plain x = plain y → x.nextPosition = y.nextPosition →
    ∃ y', appendAll y f' recs = some y' ∧ plain x' = plain y' ∧ x'.nextPosition = y'.nextPosition := by
  induction recs with
  | nil => intro x x' y h hp hn; cases h; exact ⟨y, rfl, hp, hn⟩
  | cons r recs ih =>
    intro x x' y h hp hn
    obtain ⟨p, pl⟩ := r
    simp only [appendAll] at h ⊢
    cases h1 : x.appendRecord f p pl with
    | none => rw [h1] at h; cases h
    | some x1 =>
      rw [h1] at h
      obtain ⟨y1, hy1, hp1, hn1⟩ := appendRecord_peq (f' := f') h1 hp hn
      rw [hy1]
      exact ih h hp1 hn1

theorem peq_q (e : Entry) (f f' : Nat) (x y x' : Option MemQueue) (h : opQ x f e = some x') (hxy : PEqO x y)
    (hwx : ∀ z, x = some z → QInv z) (hwy : ∀ z, y = some z → QInv z) :
    ∃ y', opQ y f' e = some y' ∧ PEqO x' y' := by
  cases e with
  | touch q p =>
    simp only [opQ, Option.some.injEq] at h; subst h
    exact ⟨_, rfl, rfl, rfl⟩
  | delete q p =>
    simp only [opQ, Option.some.injEq] at h; subst h
    exact ⟨_, rfl, trivial⟩
  | truncate q p =>
    simp only [opQ, Option.some.injEq] at h; subst h
    cases x with
    | none =>
      cases y with
      | none => exact ⟨_, rfl, trivial⟩
      | some b => exact hxy.elim
    | some a =>
      cases y with
      | none => exact hxy.elim
      | some b =>
        have ha := truncate_plain a p (hwx a rfl)
        have hb := truncate_plain b p (hwy b rfl)
        refine ⟨_, rfl, ?_, ?_⟩
        · rw [ha.1, hb.1, hxy.1]
        · rw [ha.2, hb.2, hxy.2]
  | append q pos recs =>
    simp only [opQ] at h ⊢
    have hstart : plain (x.getD (MemQueue.withNextPosition pos)) = plain (y.getD (MemQueue.withNextPosition pos)) ∧
        (x.getD (MemQueue.withNextPosition pos)).nextPosition =
          (y.getD (MemQueue.withNextPosition pos)).nextPosition := by
      cases x with
      | none =>
        cases y with
        | none => exact ⟨rfl, rfl⟩
        | some b => exact hxy.elim
      | some a =>
        cases y with
        | none => exact hxy.elim
        | some b => exact hxy
    cases ha : appendAll (x.getD (MemQueue.withNextPosition pos)) f recs with
    | none => rw [ha] at h; cases h
    | some a' =>
      rw [ha] at h
      simp only [Option.map_some, Option.some.injEq] at h; subst h
      obtain ⟨b', hb', hp, hn⟩ := appendAll_peq f f' recs ha hstart.1 hstart.2
      exact ⟨some b', by rw [hb']; rfl, hp, hn⟩

theorem peq_entry {a b a' : MemQueues} {f f' : Nat} {e : Entry} (h : replayEntry a f e = some a')
    (hab : PEq a b) (hwa : QsWF a) (hwb : QsWF b) :
    ∃ b', replayEntry b f' e = some b' ∧ PEq a' b' := by
  obtain ⟨h1, h2⟩ := replayEntry_opQ h
  obtain ⟨y', hy', hp⟩ := peq_q e f f' _ _ _ h1 (hab e.queue) (fun z hz => hwa _ z hz) (fun z hz => hwb _ z hz)
  obtain ⟨b', hb', hb1, hb2⟩ := opQ_replayEntry hy'
  refine ⟨b', hb', ?_⟩
  intro n
  by_cases hn : n = e.queue
  · subst hn; rw [hb1]; exact hp
  · rw [h2 n hn, hb2 n hn]; exact hab n

/-- two lists of attributed entries with the same entries: the replays succeed together and
    agree on positions, payloads and next positions -/
theorem peq_entries : ∀ (L L' : List (Nat × Entry)), L.map (·.2) = L'.map (·.2) →
    ∀ {a b a' : MemQueues}, replayEntries a L = some a' → PEq a b → QsWF a → QsWF b →
    ∃ b', replayEntries b L' = some b' ∧ PEq a' b' ∧ QsWF b' := by
  intro L
  induction L with
  | nil =>
    intro L' hm a b a' h hab _ hwb
    have : L' = [] := by simpa using hm.symm
    subst this
    simp only [replayEntries, Option.some.injEq] at h; subst h
    exact ⟨b, rfl, hab, hwb⟩
  | cons fe L ih =>
    intro L' hm a b a' h hab hwa hwb
    cases L' with
    | nil => simp at hm
    | cons fe' L' =>
      obtain ⟨f, e⟩ := fe
      obtain ⟨f', e'⟩ := fe'
      simp only [List.map_cons, List.cons.injEq] at hm
      obtain ⟨he, hm'⟩ := hm
      subst he
      simp only [replayEntries] at h ⊢
      cases h1 : replayEntry a f e with
      | none => rw [h1] at h; cases h
      | some a1 =>
        rw [h1] at h
        obtain ⟨b1, hb1, hp1⟩ := peq_entry (f' := f') h1 hab hwa hwb
        rw [hb1]
        exact ih L' hm' h hp1 (replayEntry_wf hwa h1) (replayEntry_wf hwb hb1)

/-- `replayJ` over entries all located in tracked files, as a fold over attributed entries -/
theorem replayJ_ge (F : Nat) : ∀ (js : List JE) (qs : MemQueues), (∀ j ∈ js, F ≤ j.loc) →
    replayJ F qs js = replayEntries qs (js.map fun j => (max j.attr F, j.e)) := by
  intro js
  induction js with
  | nil => intro qs _; rfl
  | cons j js ih =>
    intro qs h
    rw [replayJ_cons_ge F qs j js (h j List.mem_cons_self)]
    simp only [List.map_cons, replayEntries]
    cases replayEntry qs (max j.attr F) j.e with
    | none => rfl
    | some qs' => exact ih qs' fun j' hj' => h j' (List.mem_cons_of_mem _ hj')

/-! ### the segment of a tape frame -/

theorem seg_split : ∀ (segs : List Seg) (g1 : List Frm) (x : Frm) (g2 : List Frm),
    untag (segs.flatMap (·.2)) = g1 ++ x :: g2 →
    ∃ s1 sa s2 gp gs', segs = s1 ++ sa :: s2 ∧ g1 = untag (s1.flatMap (·.2)) ++ gp ∧
      g2 = gs' ++ untag (s2.flatMap (·.2)) ∧ untag sa.2 = gp ++ x :: gs' := by
  intro segs
  induction segs with
  | nil => intro g1 x g2 h; simp [untag] at h
  | cons s segs ih =>
    intro g1 x g2 h
    rw [List.flatMap_cons, untag_append] at h
    rcases List.append_eq_append_iff.mp h with ⟨a', h1, h2⟩ | ⟨c', h1, h2⟩
    · obtain ⟨s1, sa, s2, gp, gs', e1, e2, e3, e4⟩ := ih a' x g2 h2
      refine ⟨s :: s1, sa, s2, gp, gs', by rw [e1]; rfl, ?_, e3, e4⟩
      rw [h1, e2, List.flatMap_cons, untag_append, List.append_assoc]
    · cases c' with
      | nil =>
        simp only [List.append_nil, List.nil_append] at h1 h2
        obtain ⟨s1, sa, s2, gp, gs', e1, e2, e3, e4⟩ := ih [] x g2 h2.symm
        refine ⟨s :: s1, sa, s2, gp, gs', by rw [e1]; rfl, ?_, e3, e4⟩
        have : untag (s1.flatMap (·.2)) = [] ∧ gp = [] := by
          have := e2.symm; simpa using this
        rw [List.flatMap_cons, untag_append, this.1, this.2, h1]; simp
      | cons y gs' =>
        simp only [List.cons_append, List.cons.injEq] at h2
        obtain ⟨rfl, rfl⟩ := h2
        exact ⟨[], s, segs, g1, gs', rfl, by simp [untag], rfl, h1⟩

/-! ### reassembly with one frame reported corrupt -/

theorem asm_skip_nonfirst (f : Nat) (l : List Frm) : ∀ (st : AsmSt) (evs : List RdEv),
    (∀ a ∈ l, a.1.isFirst = false) → st.within = false → assemble st (tagF f l ++ evs) = assemble st evs := by
  induction l with
  | nil => intro st evs _ _; simp [tagF]
  | cons fr l ih =>
    intro st evs h hw
    obtain ⟨t, p⟩ := fr
    have hfirst : t.isFirst = false := h (t, p) List.mem_cons_self
    have hstep : assemble st (tagF f ((t, p) :: l) ++ evs) = assemble st (tagF f l ++ evs) := by
      show assemble st (RdEv.frame f t p :: (tagF f l ++ evs)) = _
      simp only [assemble, hw, hfirst, Bool.or_false, Bool.false_eq_true, if_false]
    rw [hstep]
    exact ih st evs (fun a ha => h a (List.mem_cons_of_mem _ ha)) hw

/-- what is delivered when the frame `x` of the tape `untag lead ++ frames of segs` is reported
    corrupt: all entries (`x` among the lead frames) or all but the one `x` belongs to -/
theorem asm_tape_damaged (f : Nat) (lead : List TFrm) (segs : List Seg)
    (hlead : ∀ a ∈ lead, a.2.1.isFirst = false) (hsok : ∀ s ∈ segs, SegOK s)
    (fs1 : List Frm) (x : Frm) (fs2 : List Frm)
    (hfs : untag lead ++ untag (segs.flatMap (·.2)) = fs1 ++ x :: fs2) :
    (bytesOf (assemble (st0 f) (tagF f fs1 ++ RdEv.corrupt f :: tagF f fs2)) = segs.map fun s => s.1.e.encode) ∨
    (∃ s1 sa s2, segs = s1 ++ sa :: s2 ∧
      bytesOf (assemble (st0 f) (tagF f fs1 ++ RdEv.corrupt f :: tagF f fs2)) =
        (s1 ++ s2).map fun s => s.1.e.encode) := by
  have hnf : ∀ a ∈ untag lead, a.1.isFirst = false := by
    intro a ha
    obtain ⟨y, hy, rfl⟩ := List.mem_map.mp ha
    exact hlead y hy
  have hcorr : ∀ (st : AsmSt) (evs : List RdEv), assemble st (RdEv.corrupt f :: evs) =
      RecEv.corrupt :: assemble { within := false, buf := st.buf, attr := f } evs := fun _ _ => rfl
  rcases List.append_eq_append_iff.mp hfs with ⟨a', h1, h2⟩ | ⟨c', h1, h2⟩
  · -- `x` is a frame of a segment
    right
    obtain ⟨s1, sa, s2, gp, gs', e1, e2, e3, e4⟩ := seg_split segs a' x fs2 h2
    refine ⟨s1, sa, s2, e1, ?_⟩
    have hsa := hsok sa (by rw [e1]; simp)
    have hE : EntryFrames true (gp ++ x :: gs') := by rw [← e4]; exact hsa.frames
    have hG1 := segs_entriesFrames s1 (fun s hs => hsok s (by rw [e1]; simp [hs]))
    have hG2 := segs_entriesFrames s2 (fun s hs => hsok s (by rw [e1]; simp [hs]))
    rw [h1, e2, e3, tagF_append, List.append_assoc, asm_skip_nonfirst f (untag lead) (st0 f) _ hnf rfl]
    have := asm_damaged f _ _ gp gs' _ x _ hG1 hE hG2
    rw [← bytesOf_entriesOf, this, bytesOf_entries, List.map_append]
  · cases c' with
    | nil =>
      -- boundary: `x` is the first frame of the segments
      right
      simp only [List.append_nil, List.nil_append] at h1 h2
      obtain ⟨s1, sa, s2, gp, gs', e1, e2, e3, e4⟩ := seg_split segs [] x fs2 h2.symm
      refine ⟨s1, sa, s2, e1, ?_⟩
      have hsa := hsok sa (by rw [e1]; simp)
      have hE : EntryFrames true (gp ++ x :: gs') := by rw [← e4]; exact hsa.frames
      have hG1 := segs_entriesFrames s1 (fun s hs => hsok s (by rw [e1]; simp [hs]))
      have hG2 := segs_entriesFrames s2 (fun s hs => hsok s (by rw [e1]; simp [hs]))
      have hfs1 : fs1 = untag lead ++ (untag (s1.flatMap (·.2)) ++ gp) := by rw [← h1, ← e2]; simp
      rw [hfs1, e3, tagF_append, List.append_assoc, asm_skip_nonfirst f (untag lead) (st0 f) _ hnf rfl]
      have := asm_damaged f _ _ gp gs' _ x _ hG1 hE hG2
      rw [← bytesOf_entriesOf, this, bytesOf_entries, List.map_append]
    | cons y l2 =>
      -- `x` is a lead frame: nothing is lost
      left
      simp only [List.cons_append, List.cons.injEq] at h2
      obtain ⟨rfl, rfl⟩ := h2
      have hnf1 : ∀ a ∈ fs1, a.1.isFirst = false := fun a ha => hnf a (by rw [h1]; simp [ha])
      have hnf2 : ∀ a ∈ l2, a.1.isFirst = false := fun a ha => hnf a (by rw [h1]; simp [ha])
      have hG := segs_entriesFrames segs hsok
      rw [asm_skip_nonfirst f fs1 (st0 f) _ hnf1 rfl, hcorr, bytesOf_cons_corrupt, tagF_append,
        asm_skip_nonfirst f l2 _ _ hnf2 rfl]
      obtain ⟨st', _, he⟩ := asm_groups f hG { within := false, buf := (st0 f).buf, attr := f } [] rfl
      rw [List.append_nil] at he
      rw [he]
      simp only [assemble, List.append_nil]
      exact bytesOf_entries f _

end MRL.Img
