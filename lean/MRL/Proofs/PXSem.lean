/-
Power loss, generically, second version of the discipline of `PSem.lean` (`PX.pd`): it also allows
* `ensureLen f n` (with `n` the file size `fb`) on a file that is not beyond the current one and is
  known to be non-empty — hence full-size: a no-op (what `open` issues on the first file);
* ONE file `nxt` beyond the current one, whose name and (empty or not) content are durable — the
  file pre-created by a roll-over that was interrupted: when everything is durable, `ensureLen nxt fb`
  makes it the current file (the roll-over into an existing file). No file is created while it
  exists.
Same conclusion (`PX.power_prefix`): the image left by a power loss after `n` effects is the
volatile image after some `p ≤ n` of them.
-/
import MRL.Proofs.PSem

namespace MRL.PX
open MRL Buf H L P

/-- current file; written since its last `fsync`; its name is durable; it is known non-empty; the
    `BufWriter` is empty; the file beyond the current one, if any -/
structure PDX where
  wf : Nat
  dirty : Bool
  named : Bool
  wrt : Bool
  clean : Bool
  nxt : Option Nat
  deriving Repr

def pd1 (fb : Nat) (σ : PDX) : Effect → Option PDX
  | .write f _ d => if f = σ.wf ∧ d ≠ [] then some { σ with dirty := true, wrt := true, clean := false } else none
  | .flush => some { σ with clean := true }
  | .fsyncFile f => if f = σ.wf ∧ σ.clean = true then some { σ with dirty := false } else none
  | .fsyncDir => if σ.dirty = false ∧ σ.wrt = true ∧ σ.clean = true then some { σ with named := true } else none
  | .create f =>
    if σ.dirty = false ∧ σ.named = true ∧ σ.clean = true ∧ σ.wf < f ∧ σ.nxt = none then
      some { σ with wf := f, dirty := true, named := false, wrt := false }
    else none
  | .setLen f _ => if f = σ.wf ∧ σ.named = false ∧ σ.clean = true then some { σ with dirty := true, wrt := false } else none
  | .ensureLen f n =>
    if f ≤ σ.wf then (if σ.wrt = true ∧ σ.clean = true ∧ n = fb then some σ else none)
    else if σ.nxt = some f ∧ σ.dirty = false ∧ σ.named = true ∧ σ.clean = true ∧ n = fb then
      some { σ with wf := f, nxt := none, dirty := true, wrt := true }
    else none
  | .unlink f => if f < σ.wf ∧ σ.dirty = false ∧ σ.named = true ∧ σ.clean = true then some σ else none
  | .listDir | .openFile _ | .readBlock _ => some σ

def pd (fb : Nat) : PDX → List Effect → Option PDX
  | σ, [] => some σ
  | σ, e :: es => (pd1 fb σ e).bind fun σ' => pd fb σ' es

theorem pd_append (fb : Nat) (a b : List Effect) : ∀ σ, pd fb σ (a ++ b) = (pd fb σ a).bind fun σ' => pd fb σ' b := by
  induction a with
  | nil => intro σ; rfl
  | cons e es ih =>
    intro σ
    simp only [List.cons_append, pd]
    cases pd1 fb σ e with
    | none => rfl
    | some σ' => simp [ih]

/-- the discipline makes every `fsync` come with an empty buffer -/
theorem runS_of_pd (fb : Nat) (es : List Effect) : ∀ (st st' : St) (σ σ' : PDX), run st es = some st' →
    pd fb σ es = some σ' → (σ.clean = true → st = none) → runS st es = some st' ∧ (σ'.clean = true → st' = none) := by
  induction es with
  | nil =>
    intro st st' σ σ' hr hp hc
    injection hr with hr; injection hp with hp
    subst hr; subst hp
    exact ⟨rfl, hc⟩
  | cons e es ih =>
    intro st st' σ σ' hr hp hc
    simp only [run] at hr
    simp only [pd] at hp
    cases h1 : run1 st e with
    | none => rw [h1] at hr; cases hr
    | some st1 =>
      cases h2 : pd1 fb σ e with
      | none => rw [h2] at hp; cases hp
      | some σ1 =>
        rw [h1] at hr; rw [h2] at hp
        simp only [Option.bind_some] at hr hp
        have hnone : ∀ {e : Effect}, (run1 st e = if st = none then some none else none) → run1 st e = some st1 →
            st1 = none := by
          intro e he h1
          rw [he] at h1
          split at h1
          · injection h1 with h1; exact h1.symm
          · cases h1
        have key : run1S st e = some st1 ∧ (σ1.clean = true → st1 = none) := by
          cases e with
          | write f off d =>
            simp only [pd1] at h2
            split at h2
            · injection h2 with h2
              refine ⟨h1, fun hcl => ?_⟩
              rw [← h2] at hcl; cases hcl
            · cases h2
          | flush =>
            injection h1 with h1
            exact ⟨by simp [run1S, isSyncE, run1]; exact h1, fun _ => h1.symm⟩
          | fsyncFile f =>
            simp only [pd1] at h2
            split at h2
            · rename_i hcond
              injection h2 with h2
              have hst := hc hcond.2
              injection h1 with h1
              subst hst
              refine ⟨by simp [run1S, isSyncE, h1.symm], fun _ => h1.symm⟩
            · cases h2
          | fsyncDir =>
            simp only [pd1] at h2
            split at h2
            · rename_i hcond
              injection h2 with h2
              have hst := hc hcond.2.2
              injection h1 with h1
              subst hst
              refine ⟨by simp [run1S, isSyncE, h1.symm], fun _ => h1.symm⟩
            · cases h2
          | create f => exact ⟨h1, fun _ => hnone rfl h1⟩
          | setLen f n => exact ⟨h1, fun _ => hnone rfl h1⟩
          | ensureLen f n => exact ⟨h1, fun _ => hnone rfl h1⟩
          | unlink f => exact ⟨h1, fun _ => hnone rfl h1⟩
          | listDir =>
            injection h1 with h1; injection h2 with h2
            subst h1; subst h2
            exact ⟨rfl, hc⟩
          | openFile f =>
            injection h1 with h1; injection h2 with h2
            subst h1; subst h2
            exact ⟨rfl, hc⟩
          | readBlock f =>
            injection h1 with h1; injection h2 with h2
            subst h1; subst h2
            exact ⟨rfl, hc⟩
        obtain ⟨k1, k2⟩ := key
        obtain ⟨r1, r2⟩ := ih st1 st' σ1 σ' hr hp k2
        refine ⟨?_, r2⟩
        simp only [runS, k1, Option.bind_some]
        exact r1

/-! ### the invariant -/

structure PInvX (σ : PDX) (S : PState) : Prop where
  nodup : (S.vol.map (·.1)).Nodup
  wf_mem : σ.wf ∈ S.vol.map (·.1)
  le_wf : ∀ kv ∈ S.vol, kv.1 ≤ σ.wf ∨ σ.nxt = some kv.1
  dirs_le : ∀ k ∈ S.dirs, k ≤ σ.wf ∨ σ.nxt = some k
  nxt_gt : ∀ nf, σ.nxt = some nf → σ.wf < nf
  nxt_mem : ∀ nf, σ.nxt = some nf → nf ∈ S.vol.map (·.1)
  old : ∀ kv ∈ S.vol, kv.1 ≠ σ.wf → S.dirs.contains kv.1 = true ∧ lookupF S.dur kv.1 = some kv.2
  named : σ.named = true → S.dirs.contains σ.wf = true
  unnamed : σ.named = false → S.dirs.contains σ.wf = false
  cleanF : σ.dirty = false → ∀ kv ∈ S.vol, kv.1 = σ.wf → lookupF S.dur σ.wf = some kv.2
  wrt : σ.wrt = true → ∀ kv ∈ S.vol, kv.1 = σ.wf → kv.2 ≠ []
  nw : σ.named = true → σ.wrt = true
  oldne : ∀ kv ∈ S.vol, kv.1 < σ.wf → kv.2 ≠ []

/-- every file is named and its durable content, fitted to its length, is its content -/
theorem image_eq_vol {S : PState}
    (h : ∀ kv ∈ S.vol, S.dirs.contains kv.1 = true ∧
      ∃ c, lookupF S.dur kv.1 = some c ∧ fitLen c kv.2.length = kv.2) : S.image = S.vol := by
  unfold PState.image
  have : ∀ kv ∈ S.vol, (if S.dirs.contains kv.1 then
      some (kv.1, fitLen ((lookupF S.dur kv.1).getD []) kv.2.length) else none) = some kv := by
    intro kv hkv
    obtain ⟨h1, c, h2, h3⟩ := h kv hkv
    rw [h1, if_pos rfl, h2, Option.getD_some, h3]
  rw [filterMap_congr' this]
  exact List.filterMap_some

/-- everything is durable: the power-loss image is the volatile image -/
theorem image_alldur {σ : PDX} {S : PState} (h : PInvX σ S) (hd : σ.dirty = false) (hn : σ.named = true) :
    S.image = S.vol := by
  apply image_eq_vol
  intro kv hkv
  by_cases hw : kv.1 = σ.wf
  · exact ⟨by rw [hw]; exact h.named hn, kv.2, by rw [hw]; exact h.cleanF hd kv hkv hw, fitLen_self _⟩
  · obtain ⟨h1, h2⟩ := h.old kv hkv hw
    exact ⟨h1, kv.2, h2, fitLen_self _⟩

/-- changing the content of the current file, keeping its name: the power-loss image only sees the
    length -/
theorem image_mapFile {σ : PDX} {S : PState} (h : PInvX σ S) (fn : Bytes → Bytes)
    (hlen : σ.named = true → ∀ kv ∈ S.vol, kv.1 = σ.wf → (fn kv.2).length = kv.2.length) :
    ({ S with vol := mapFile S.vol σ.wf fn } : PState).image = S.image := by
  unfold PState.image mapFile
  simp only
  rw [List.filterMap_map]
  apply filterMap_congr'
  intro kv hkv
  simp only [Function.comp]
  by_cases hw : kv.1 = σ.wf
  · simp only [hw, if_true]
    cases hn : σ.named with
    | false => rw [h.unnamed hn]; rfl
    | true =>
      rw [hlen hn kv hkv hw]
  · simp only [hw, if_false]

def ens (n : Nat) (c : Bytes) : Bytes := if c.length < n then setLenBytes c n else c

theorem ens_length_ge (n : Nat) (c : Bytes) : n ≤ (ens n c).length := by
  unfold ens setLenBytes
  by_cases h : c.length < n
  · simp only [h, if_true, List.length_append, zeros, List.length_replicate]; omega
  · simp only [h, if_false]; omega

theorem fitLen_ens (n : Nat) (c : Bytes) : fitLen c (ens n c).length = ens n c := by
  unfold ens setLenBytes fitLen
  by_cases h : c.length < n
  · simp only [h, if_true, List.length_append, zeros, List.length_replicate]
    rw [List.take_of_length_le (by omega)]
    congr 2
    omega
  · simp only [h, if_false]
    simp [zeros]

theorem ens_full (n : Nat) (c : Bytes) (h : c.length = n) : ens n c = c := by
  unfold ens; rw [if_neg (by omega)]

theorem mapFile_id (img : Image) (f : Nat) (fn : Bytes → Bytes) (h : ∀ kv ∈ img, kv.1 = f → fn kv.2 = kv.2) :
    mapFile img f fn = img := by
  unfold mapFile
  conv => rhs; rw [← List.map_id img]
  apply List.map_congr_left
  intro kv hkv
  by_cases hf : kv.1 = f
  · simp only [hf, if_true, id]
    rw [h kv hkv hf, ← hf]
  · simp only [hf, if_false, id]

theorem applyOs_ensureLen (img : Image) (f n : Nat) : applyOs img (.ensureLen f n) = mapFile img f (ens n) := rfl

/-- one effect of the discipline: the invariant is kept, and the power-loss image either is the
    volatile image or did not change -/
theorem pinv_step (fb : Nat) (hfb : 0 < fb) {σ σ' : PDX} {S : PState} {e : Effect} (h : PInvX σ S)
    (hp : pd1 fb σ e = some σ')
    (hf0 : FullOrEmpty fb S.vol) (hf1 : FullOrEmpty fb (prun S (directP e)).vol) :
    PInvX σ' (prun S (directP e)) ∧
    ((prun S (directP e)).image = (prun S (directP e)).vol ∨ (prun S (directP e)).image = S.image) := by
  cases e with
  | write f off d =>
    simp only [pd1] at hp
    split at hp
    · rename_i hc
      obtain ⟨rfl, hd⟩ := hc
      injection hp with hp
      subst hp
      rw [prun_directP_vol S _ rfl] at hf1 ⊢
      simp only [direct, applyOsOps, List.foldl_cons, List.foldl_nil, applyOs] at hf1 ⊢
      refine ⟨⟨by rw [mapFile_keys]; exact h.nodup, by rw [mapFile_keys]; exact h.wf_mem, ?_, h.dirs_le, h.nxt_gt,
        by rw [mapFile_keys]; exact h.nxt_mem, ?_, h.named,
        h.unnamed, (fun hx => by cases hx), ?_, fun _ => rfl, ?_⟩, Or.inr ?_⟩
      · intro kv hkv
        rcases mem_mapFile (img := S.vol) (f := σ.wf) (fn := fun c => overwrite c off d) hkv with ⟨_, hm⟩ | ⟨hk, _⟩
        · exact h.le_wf kv hm
        · left; rw [hk]; exact Nat.le_refl _
      · intro kv hkv hne
        rcases mem_mapFile (img := S.vol) (f := σ.wf) (fn := fun c => overwrite c off d) hkv with ⟨_, hm⟩ | ⟨hk, _⟩
        · exact h.old kv hm hne
        · exact absurd hk hne
      · intro _ kv hkv hw
        rcases mem_mapFile (img := S.vol) (f := σ.wf) (fn := fun c => overwrite c off d) hkv with ⟨hk, _⟩ | ⟨_, c, _, hc⟩
        · exact absurd hw hk
        · rw [hc]; exact overwrite_ne_nil c off d hd
      · intro kv hkv hlt
        rcases mem_mapFile (img := S.vol) (f := σ.wf) (fn := fun c => overwrite c off d) hkv with ⟨_, hm⟩ | ⟨hk, _⟩
        · exact h.oldne kv hm hlt
        · exact absurd hk (Nat.ne_of_lt hlt)
      · apply image_mapFile h
        intro hn kv hkv hw
        have hne : kv.2 ≠ [] := h.wrt (h.nw hn) kv hkv hw
        have h0 : kv.2.length = fb := by
          rcases hf0 kv hkv with h0 | h0
          · exact h0
          · exact absurd h0 hne
        have hm : (kv.1, overwrite kv.2 off d) ∈ mapFile S.vol σ.wf (fun c => overwrite c off d) := by
          unfold mapFile
          exact List.mem_map.mpr ⟨kv, hkv, by simp [hw]⟩
        rcases hf1 _ hm with h1 | h1
        · rw [h0]; exact h1
        · exact absurd h1 (overwrite_ne_nil _ off d hd)
    · cases hp
  | flush =>
    injection hp with hp
    subst hp
    exact ⟨⟨h.nodup, h.wf_mem, h.le_wf, h.dirs_le, h.nxt_gt, h.nxt_mem, h.old, h.named, h.unnamed, h.cleanF, h.wrt,
      h.nw, h.oldne⟩, Or.inr rfl⟩
  | listDir =>
    injection hp with hp
    subst hp
    exact ⟨h, Or.inr rfl⟩
  | openFile f =>
    injection hp with hp
    subst hp
    exact ⟨h, Or.inr rfl⟩
  | readBlock f =>
    injection hp with hp
    subst hp
    exact ⟨h, Or.inr rfl⟩
  | ensureLen f n =>
    simp only [pd1] at hp
    rw [prun_directP_vol S _ rfl] at hf1 ⊢
    simp only [direct, applyOsOps, List.foldl_cons, List.foldl_nil, applyOs_ensureLen] at hf1 ⊢
    split at hp
    · rename_i hle
      split at hp
      · rename_i hc
        obtain ⟨hw, _, rfl⟩ := hc
        injection hp with hp
        subst hp
        -- a no-op: the file is full
        have hid : mapFile S.vol f (ens n) = S.vol := by
          apply mapFile_id
          intro kv hkv hk
          have hne : kv.2 ≠ [] := by
            rcases Nat.lt_or_ge kv.1 σ.wf with h1 | h1
            · exact h.oldne kv hkv h1
            · exact h.wrt hw kv hkv (by omega)
          rcases hf0 kv hkv with h0 | h0
          · exact ens_full _ _ h0
          · exact absurd h0 hne
        rw [hid]
        exact ⟨h, Or.inr rfl⟩
      · cases hp
    · rename_i hnle
      split at hp
      · rename_i hc
        obtain ⟨hnx, hd, hn, _, rfl⟩ := hc
        injection hp with hp
        subst hp
        have hlt : σ.wf < f := h.nxt_gt f hnx
        obtain ⟨kf, hkf, hkf1⟩ := List.mem_map.mp (h.nxt_mem f hnx)
        have hkfo := h.old kf hkf (by rw [hkf1]; omega)
        rw [hkf1] at hkfo
        have hI : PInvX { σ with wf := f, nxt := none, dirty := true, wrt := true }
            { S with vol := mapFile S.vol f (ens n) } := by
          refine ⟨by rw [mapFile_keys]; exact h.nodup, by rw [mapFile_keys]; exact h.nxt_mem f hnx, ?_, ?_,
            (fun nf hx => by cases hx), (fun nf hx => by cases hx), ?_, fun _ => hkfo.1,
            (fun hx => by rw [hn] at hx; cases hx), (fun hx => by cases hx), ?_, fun _ => rfl, ?_⟩
          · intro kv hkv
            left
            rcases mem_mapFile (img := S.vol) (f := f) (fn := ens n) hkv with ⟨_, hm⟩ | ⟨hk, _⟩
            · rcases h.le_wf kv hm with h1 | h1
              · exact Nat.le_of_lt (Nat.lt_of_le_of_lt h1 hlt)
              · rw [hnx] at h1; injection h1 with h1; exact Nat.le_of_eq h1.symm
            · exact Nat.le_of_eq hk
          · intro k hk
            left
            rcases h.dirs_le k hk with h1 | h1
            · exact Nat.le_of_lt (Nat.lt_of_le_of_lt h1 hlt)
            · rw [hnx] at h1; injection h1 with h1; exact Nat.le_of_eq h1.symm
          · intro kv hkv hne
            rcases mem_mapFile (img := S.vol) (f := f) (fn := ens n) hkv with ⟨_, hm⟩ | ⟨hk, _⟩
            · by_cases hw : kv.1 = σ.wf
              · refine ⟨by rw [hw]; exact h.named hn, ?_⟩
                rw [hw]; exact h.cleanF hd kv hm hw
              · exact h.old kv hm hw
            · exact absurd hk hne
          · intro _ kv hkv hw
            rcases mem_mapFile (img := S.vol) (f := f) (fn := ens n) hkv with ⟨hk, _⟩ | ⟨_, c, _, hc⟩
            · exact absurd hw hk
            · rw [hc]
              intro he
              have := ens_length_ge n c
              rw [he] at this
              simp at this
              omega
          · intro kv hkv hlt'
            rcases mem_mapFile (img := S.vol) (f := f) (fn := ens n) hkv with ⟨_, hm⟩ | ⟨hk, _⟩
            · rcases h.le_wf kv hm with h1 | h1
              · rcases Nat.lt_or_ge kv.1 σ.wf with h2 | h2
                · exact h.oldne kv hm h2
                · exact h.wrt (h.nw hn) kv hm (by omega)
              · rw [hnx] at h1; injection h1 with h1
                exact absurd h1.symm (Nat.ne_of_lt hlt')
            · exact absurd hk (Nat.ne_of_lt hlt')
        refine ⟨hI, Or.inl ?_⟩
        apply image_eq_vol
        intro kv hkv
        rcases mem_mapFile (img := S.vol) (f := f) (fn := ens n) hkv with ⟨hk, hm⟩ | ⟨hk, c, hc, hc2⟩
        · by_cases hw : kv.1 = σ.wf
          · exact ⟨by rw [hw]; exact h.named hn, kv.2, by rw [hw]; exact h.cleanF hd kv hm hw, fitLen_self _⟩
          · obtain ⟨h1, h2⟩ := h.old kv hm hw
            exact ⟨h1, kv.2, h2, fitLen_self _⟩
        · have := h.old (f, c) hc (by show f ≠ σ.wf; omega)
          refine ⟨by rw [hk]; exact this.1, c, by rw [hk]; exact this.2, ?_⟩
          rw [hc2]; exact fitLen_ens n c
      · cases hp
  | fsyncFile f =>
    simp only [pd1] at hp
    split at hp
    · rename_i hc
      obtain ⟨rfl, _⟩ := hc
      injection hp with hp
      subst hp
      have hrun : prun S (directP (Effect.fsyncFile σ.wf)) = pstep S (.syncFile σ.wf) := rfl
      rw [hrun]
      cases hl : lookupF S.vol σ.wf with
      | none =>
        have hS : pstep S (.syncFile σ.wf) = S := by simp only [pstep, hl]
        rw [hS]
        have hnot : ∀ kv ∈ S.vol, kv.1 ≠ σ.wf := by
          intro kv hkv hw
          have := lookupF_of_mem h.nodup hkv
          rw [hw, hl] at this; cases this
        exact ⟨⟨h.nodup, h.wf_mem, h.le_wf, h.dirs_le, h.nxt_gt, h.nxt_mem, h.old, h.named, h.unnamed,
          fun _ kv hkv hw => absurd hw (hnot kv hkv), h.wrt, h.nw, h.oldne⟩, Or.inr rfl⟩
      | some c =>
        have hS : pstep S (.syncFile σ.wf) = { S with dur := (σ.wf, c) :: S.dur } := by simp only [pstep, hl]
        rw [hS]
        have hI : PInvX { σ with dirty := false } { S with dur := (σ.wf, c) :: S.dur } := by
          refine ⟨h.nodup, h.wf_mem, h.le_wf, h.dirs_le, h.nxt_gt, h.nxt_mem, ?_, h.named, h.unnamed, ?_, h.wrt, h.nw,
            h.oldne⟩
          · intro kv hkv hne
            obtain ⟨h1, h2⟩ := h.old kv hkv hne
            refine ⟨h1, ?_⟩
            show lookupF ((σ.wf, c) :: S.dur) kv.1 = _
            rw [lookupF_cons, if_neg (fun e => hne e.symm)]; exact h2
          · intro _ kv hkv hw
            show lookupF ((σ.wf, c) :: S.dur) σ.wf = _
            rw [lookupF_cons, if_pos rfl]
            have := lookupF_of_mem h.nodup hkv
            rw [hw, hl] at this
            exact this
        refine ⟨hI, ?_⟩
        cases hn : σ.named with
        | true => exact Or.inl (image_alldur hI rfl hn)
        | false =>
          right
          unfold PState.image
          simp only
          apply filterMap_congr'
          intro kv hkv
          by_cases hw : kv.1 = σ.wf
          · rw [hw, h.unnamed hn]; rfl
          · have hlk : lookupF ((σ.wf, c) :: S.dur) kv.1 = lookupF S.dur kv.1 := by
              rw [lookupF_cons]; exact if_neg (fun e => hw e.symm)
            simp only [hlk]
    · cases hp
  | fsyncDir =>
    simp only [pd1] at hp
    split at hp
    · rename_i hc
      obtain ⟨hd, hw, _⟩ := hc
      injection hp with hp
      subst hp
      have hrun : prun S (directP Effect.fsyncDir) = { S with dirs := S.vol.map (·.1) } := rfl
      rw [hrun]
      have hcont : ∀ k, k ∈ S.vol.map (·.1) → (S.vol.map (·.1)).contains k = true := by
        intro k hk; simpa using hk
      have hI : PInvX { σ with named := true } { S with dirs := S.vol.map (·.1) } := by
        refine ⟨h.nodup, h.wf_mem, h.le_wf, ?_, h.nxt_gt, h.nxt_mem, ?_, fun _ => hcont _ h.wf_mem,
          (fun hx => by cases hx), h.cleanF, h.wrt, fun _ => hw, h.oldne⟩
        · intro k hk
          obtain ⟨kv, hkv, rfl⟩ := List.mem_map.mp hk
          exact h.le_wf kv hkv
        · intro kv hkv hne
          exact ⟨hcont _ (mem_keys hkv), (h.old kv hkv hne).2⟩
      exact ⟨hI, Or.inl (image_alldur hI hd rfl)⟩
    · cases hp
  | create f =>
    simp only [pd1] at hp
    split at hp
    · rename_i hc
      obtain ⟨hd, hn, _, hlt, hnx⟩ := hc
      injection hp with hp
      subst hp
      rw [prun_directP_vol S _ rfl] at hf1 ⊢
      simp only [direct, applyOsOps, List.foldl_cons, List.foldl_nil, applyOs] at hf1 ⊢
      have hle : ∀ kv ∈ S.vol, kv.1 ≤ σ.wf := by
        intro kv hkv
        rcases h.le_wf kv hkv with h1 | h1
        · exact h1
        · rw [hnx] at h1; cases h1
      have hfresh : f ∉ S.vol.map (·.1) := by
        intro hm
        obtain ⟨kv, hkv, rfl⟩ := List.mem_map.mp hm
        have := hle kv hkv
        omega
      have hnd : S.dirs.contains f = false := by
        cases hx : S.dirs.contains f with
        | false => rfl
        | true =>
          have : f ∈ S.dirs := by simpa using hx
          rcases h.dirs_le f this with h1 | h1
          · omega
          · rw [hnx] at h1; cases h1
      refine ⟨⟨insertFile_nodup _ _ _ hfresh h.nodup, ?_, ?_, ?_, (fun nf hx => by rw [hnx] at hx; cases hx),
        (fun nf hx => by rw [hnx] at hx; cases hx), ?_, (fun hx => by cases hx), fun _ => hnd,
        (fun hx => by cases hx), (fun hx => by cases hx), (fun hx => by cases hx), ?_⟩, Or.inr ?_⟩
      · rw [insertFile_keys_fresh _ _ _ hfresh]; exact Or.inl rfl
      · intro kv hkv
        left
        rcases (mem_insertFile_fresh _ _ _ hfresh kv).mp hkv with rfl | hm
        · exact Nat.le_refl _
        · have := hle kv hm
          simp only; omega
      · intro k hk
        left
        rcases h.dirs_le k hk with h1 | h1
        · simp only; omega
        · rw [hnx] at h1; cases h1
      · intro kv hkv hne
        rcases (mem_insertFile_fresh _ _ _ hfresh kv).mp hkv with rfl | hm
        · exact absurd rfl hne
        · by_cases hw : kv.1 = σ.wf
          · refine ⟨by rw [hw]; exact h.named hn, ?_⟩
            rw [hw]; exact h.cleanF hd kv hm hw
          · exact h.old kv hm hw
      · intro kv hkv hlt'
        rcases (mem_insertFile_fresh _ _ _ hfresh kv).mp hkv with rfl | hm
        · exact absurd rfl (Nat.ne_of_lt hlt')
        · rcases Nat.lt_or_ge kv.1 σ.wf with h2 | h2
          · exact h.oldne kv hm h2
          · exact h.wrt (h.nw hn) kv hm (by have := hle kv hm; omega)
      · unfold PState.image
        simp only
        apply filterMap_insertFile _ _ _ _ hfresh
        simp only [hnd]
        rfl
    · cases hp
  | setLen f n =>
    simp only [pd1] at hp
    split at hp
    · rename_i hc
      obtain ⟨rfl, hn, _⟩ := hc
      injection hp with hp
      subst hp
      rw [prun_directP_vol S _ rfl] at hf1 ⊢
      simp only [direct, applyOsOps, List.foldl_cons, List.foldl_nil, applyOs] at hf1 ⊢
      refine ⟨⟨by rw [mapFile_keys]; exact h.nodup, by rw [mapFile_keys]; exact h.wf_mem, ?_, h.dirs_le, h.nxt_gt,
        by rw [mapFile_keys]; exact h.nxt_mem, ?_, h.named,
        h.unnamed, (fun hx => by cases hx), (fun hx => by cases hx), (fun hx => by rw [hn] at hx; cases hx), ?_⟩,
        Or.inr ?_⟩
      · intro kv hkv
        rcases mem_mapFile (img := S.vol) (f := σ.wf) (fn := fun c => setLenBytes c n) hkv with ⟨_, hm⟩ | ⟨hk, _⟩
        · exact h.le_wf kv hm
        · left; rw [hk]; exact Nat.le_refl _
      · intro kv hkv hne
        rcases mem_mapFile (img := S.vol) (f := σ.wf) (fn := fun c => setLenBytes c n) hkv with ⟨_, hm⟩ | ⟨hk, _⟩
        · exact h.old kv hm hne
        · exact absurd hk hne
      · intro kv hkv hlt
        rcases mem_mapFile (img := S.vol) (f := σ.wf) (fn := fun c => setLenBytes c n) hkv with ⟨_, hm⟩ | ⟨hk, _⟩
        · exact h.oldne kv hm hlt
        · exact absurd hk (Nat.ne_of_lt hlt)
      · apply image_mapFile h
        intro hx; rw [hn] at hx; cases hx
    · cases hp
  | unlink f =>
    simp only [pd1] at hp
    split at hp
    · rename_i hc
      obtain ⟨hlt, hd, hn, _⟩ := hc
      injection hp with hp
      subst hp
      rw [prun_directP_vol S _ rfl] at hf1 ⊢
      simp only [direct, applyOsOps, List.foldl_cons, List.foldl_nil, applyOs] at hf1 ⊢
      have hsub : ∀ kv, kv ∈ S.vol.filter (fun x => x.1 != f) → kv ∈ S.vol := fun kv hkv => (List.mem_filter.mp hkv).1
      have hkeep : ∀ k, k ∈ S.vol.map (·.1) → k ≠ f → k ∈ (S.vol.filter (fun x => x.1 != f)).map (·.1) := by
        intro k hk hne
        obtain ⟨kv, hkv, hk⟩ := List.mem_map.mp hk
        refine List.mem_map.mpr ⟨kv, List.mem_filter.mpr ⟨hkv, ?_⟩, hk⟩
        simp only [bne_iff_ne, ne_eq]
        rw [hk]; exact hne
      have hI : PInvX σ { S with vol := S.vol.filter (fun x => x.1 != f) } := by
        refine ⟨?_, hkeep _ h.wf_mem (by omega), fun kv hkv => h.le_wf kv (hsub kv hkv), h.dirs_le, h.nxt_gt, ?_,
          fun kv hkv => h.old kv (hsub kv hkv),
          h.named, h.unnamed, fun hx kv hkv => h.cleanF hx kv (hsub kv hkv), fun hx kv hkv => h.wrt hx kv (hsub kv hkv),
          h.nw, fun kv hkv => h.oldne kv (hsub kv hkv)⟩
        · exact h.nodup.sublist (List.Sublist.map _ List.filter_sublist)
        · intro nf hx
          have := h.nxt_gt nf hx
          exact hkeep _ (h.nxt_mem nf hx) (by omega)
      exact ⟨hI, Or.inl (image_alldur hI hd hn)⟩
    · cases hp

/-! ### the theorem -/

/-- **power loss after `n` effects = volatile image after `p ≤ n` effects** -/
theorem power_prefix (fb : Nat) (hfb : 0 < fb) (es : List Effect) (σ : PDX) (S : PState) (hI : PInvX σ S)
    (hd : σ.dirty = false) (hn : σ.named = true) (σe : PDX) (hpd : pd fb σ es = some σe)
    (hfoe : ∀ i, i ≤ es.length → FullOrEmpty fb (applyOsOps S.vol (directOps (es.take i)))) :
    ∀ n, n ≤ es.length → ∃ p σn, p ≤ n ∧ pd fb σ (es.take n) = some σn ∧
      PInvX σn (prun S (directOpsP (es.take n))) ∧
      (prun S (directOpsP (es.take n))).image = applyOsOps S.vol (directOps (es.take p)) := by
  intro n
  induction n with
  | zero =>
    intro _
    refine ⟨0, σ, Nat.le_refl _, rfl, hI, ?_⟩
    simp only [List.take_zero, directOpsP, directOps, List.flatMap_nil, prun, List.foldl_nil, applyOsOps]
    exact image_alldur hI hd hn
  | succ n ih =>
    intro hle
    obtain ⟨p, σn, hp, hpdn, hIn, himg⟩ := ih (by omega)
    obtain ⟨e, he⟩ : ∃ e, es[n]? = some e := ⟨es[n], by simp [List.getElem?_eq_getElem (by omega : n < es.length)]⟩
    have htk := take_succ_get' he
    have hsplit : es = es.take n ++ e :: es.drop (n + 1) := split_at' he
    have hpd1 : ∃ σ1, pd1 fb σn e = some σ1 := by
      rw [hsplit, pd_append, hpdn] at hpd
      simp only [Option.bind_some, pd] at hpd
      cases h1 : pd1 fb σn e with
      | none => rw [h1] at hpd; cases hpd
      | some σ1 => exact ⟨σ1, rfl⟩
    obtain ⟨σ1, hσ1⟩ := hpd1
    have hpdn1 : pd fb σ (es.take (n + 1)) = some σ1 := by
      rw [htk, pd_append, hpdn]
      simp only [Option.bind_some, pd, hσ1]
    have hrun : prun S (directOpsP (es.take (n + 1))) = prun (prun S (directOpsP (es.take n))) (directP e) := by
      rw [htk, directOpsP_append, prun_append]
      simp [directOpsP]
    have hf0 : FullOrEmpty fb (prun S (directOpsP (es.take n))).vol := by
      rw [prun_vol_direct]; exact hfoe n (by omega)
    have hf1 : FullOrEmpty fb (prun (prun S (directOpsP (es.take n))) (directP e)).vol := by
      rw [← hrun, prun_vol_direct]; exact hfoe (n + 1) hle
    obtain ⟨hI1, hsame⟩ := pinv_step fb hfb hIn hσ1 hf0 hf1
    rw [← hrun] at hI1 hsame
    rcases hsame with hsame | hsame
    · exact ⟨n + 1, σ1, Nat.le_refl _, hpdn1, hI1, by rw [hsame, prun_vol_direct]⟩
    · exact ⟨p, σ1, by omega, hpdn1, hI1, by rw [hsame]; exact himg⟩

end MRL.PX
