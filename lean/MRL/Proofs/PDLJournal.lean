/-
Re-adding a GC-collected prefix of files changes nothing — at the journal level.

`Collected Fo F Jold J q`: `J` is a journal whose entries lie in files `≥ F` and replays from `F` to
the abstract state of `q`; `Jold` are entries lying in older files (`< F`: files that a GC pass
collected); replaying the WHOLE journal `Jold ++ J` from the older file `Fo ≤ F` — what a reader finds
when files `Fo … F-1` reappear in front of the tracked ones — succeeds too and gives the same
abstract state. This is the GC suffix lemma (`suffix_lemma`, `H.rep_at`) read backwards.
* `collected_gc`: it holds right after every GC pass, for every intermediate first file `Fo`
  between the old and the new first tracked file (every prefix of its unlinks undone).
* `Collected.extend`: it is kept when the log appends further entries (calls, GC touches).
* `Collected.reattr`: it is kept by a restart (the retained entries re-attributed by the reader).
-/
import MRL.Proofs.LRunOK
import MRL.Proofs.HUnlink

namespace MRL.PDL
open MRL Log C05 C01J H L

/-- the same entries (possibly re-attributed), replayed from two starts with the same abstract
    state, with two first files below all of them -/
theorem replayJ_abs3 (F1 F2 : Nat) : ∀ (J1 J2 : List JE) (q1 q2 r2 : MemQueues),
    All2 (fun a b : JE => a.e = b.e) J1 J2 → (∀ j ∈ J1, F1 ≤ j.loc) → (∀ j ∈ J2, F2 ≤ j.loc) →
    AbsEq q2 q1 → QsWF q1 → QsWF q2 → replayJ F2 q2 J2 = some r2 →
    ∃ r1, replayJ F1 q1 J1 = some r1 ∧ AbsEq r2 r1 := by
  intro J1 J2 q1 q2 r2 hrel
  induction hrel generalizing q1 q2 with
  | nil => intro _ _ h _ _ hr; cases hr; exact ⟨q1, rfl, h⟩
  | @cons a b J1 J2 hab _ ih =>
    intro h1 h2 h hw1 hw2 hr
    have hn1 : ¬ a.loc < F1 := by have := h1 a List.mem_cons_self; omega
    have hn2 : ¬ b.loc < F2 := by have := h2 b List.mem_cons_self; omega
    simp only [replayJ, hn1, hn2, if_false] at hr ⊢
    cases he : replayEntry q2 (max b.attr F2) b.e with
    | none => rw [he] at hr; cases hr
    | some q2' =>
      rw [he] at hr
      simp only [Option.bind_some] at hr
      rw [← hab] at he
      obtain ⟨q1', hq1', heq'⟩ := replayEntry_abs (f' := max a.attr F1) h hw2 hw1 he
      rw [hq1']
      simp only [Option.bind_some]
      exact ih q1' q2' (fun j hj => h1 j (List.mem_cons_of_mem _ hj))
        (fun j hj => h2 j (List.mem_cons_of_mem _ hj)) heq' (replayEntry_wf hw1 hq1')
        (replayEntry_wf hw2 he) hr

/-- re-adding the collected entries `Jold` (files `Fo … F-1`) in front of `J` changes nothing -/
structure Collected (Fo F : Nat) (Jold J : List JE) (q : MemQueues) : Prop where
  le : Fo ≤ F
  old : ∀ j ∈ Jold, j.loc < F
  new : ∀ j ∈ J, F ≤ j.loc
  full : ∃ qo, replayJ Fo [] (Jold ++ J) = some qo ∧ AbsEq qo q
  ret : ∃ qr, replayJ F [] J = some qr ∧ AbsEq qr q

/-- the two replays succeed and agree up to the file handles -/
theorem Collected.readd {Fo F : Nat} {Jold J : List JE} {q : MemQueues} (h : Collected Fo F Jold J q) :
    ∃ qo qr, replayJ Fo [] (Jold ++ J) = some qo ∧ replayJ F [] J = some qr ∧ AbsEq qo qr := by
  obtain ⟨qo, h1, h2⟩ := h.full
  obtain ⟨qr, h3, h4⟩ := h.ret
  exact ⟨qo, qr, h1, h3, h2.trans h4.symm⟩

/-- further entries appended by the log -/
theorem Collected.extend {Fo F : Nat} {Jold J : List JE} {q : MemQueues} (h : Collected Fo F Jold J q)
    (Jn : List JE) (q' : MemQueues) (hn : ∀ j ∈ Jn, F ≤ j.loc)
    (hret : ∃ qr', replayJ F [] (J ++ Jn) = some qr' ∧ AbsEq qr' q') : Collected Fo F Jold (J ++ Jn) q' := by
  obtain ⟨qo, h1, h2⟩ := h.full
  obtain ⟨qr, h3, h4⟩ := h.ret
  obtain ⟨qr', h5, h6⟩ := hret
  refine ⟨h.le, h.old, ?_, ?_, ⟨qr', h5, h6⟩⟩
  · intro j hj
    rcases List.mem_append.mp hj with hj | hj
    · exact h.new j hj
    · exact hn j hj
  · rw [replayJ_append, h3] at h5
    simp only [Option.bind_some] at h5
    obtain ⟨qo', h7, h8⟩ := replayJ_abs3 Fo F Jn Jn qo qr qr' (LR.all2_refl (R := fun a b : JE => a.e = b.e) (fun _ => rfl) Jn)
      (fun j hj => Nat.le_trans h.le (hn j hj)) hn (h4.trans h2.symm)
      (replayJ_wf Fo _ QsWF.nil h1) (replayJ_wf F _ QsWF.nil h3) h5
    refine ⟨qo', ?_, h8.symm.trans h6⟩
    rw [← List.append_assoc, replayJ_append, h1]
    exact h7

/-- a restart: the retained entries, re-attributed by the reader -/
theorem Collected.reattr {Fo F : Nat} {Jold J J' : List JE} {q : MemQueues} (h : Collected Fo F Jold J q)
    (hrel : All2 (fun a b : JE => a.e = b.e) J' J) (hn : ∀ j ∈ J', F ≤ j.loc) : Collected Fo F Jold J' q := by
  obtain ⟨qo, h1, h2⟩ := h.full
  obtain ⟨qr, h3, h4⟩ := h.ret
  refine ⟨h.le, h.old, hn, ?_, ?_⟩
  · rw [replayJ_append] at h1
    cases hm : replayJ Fo [] Jold with
    | none => rw [hm] at h1; cases h1
    | some qm =>
      rw [hm] at h1
      simp only [Option.bind_some] at h1
      have hwm := replayJ_wf Fo _ QsWF.nil hm
      obtain ⟨qo', h5, h6⟩ := replayJ_abs3 Fo Fo J' J qm qm qo hrel
        (fun j hj => Nat.le_trans h.le (hn j hj)) (fun j hj => Nat.le_trans h.le (h.new j hj))
        (AbsEq.refl _) hwm hwm h1
      refine ⟨qo', ?_, h6.symm.trans h2⟩
      rw [replayJ_append, hm]
      exact h5
  · obtain ⟨qr', h5, h6⟩ := replayJ_abs3 F F J' J [] [] qr hrel hn h.new (AbsEq.refl _) QsWF.nil QsWF.nil h3
    exact ⟨qr', h5, h6.symm.trans h4⟩

/-- **after a GC pass**: for every first file `Fo` between the old and the new first tracked file
    (the files `Fo … ` reappearing: a prefix of the unlinks undone), re-adding the collected entries
    changes nothing -/
theorem collected_gc (g : Geom) {l2 : Log} {J2 : List JE} (order : List Bytes) (hJ : JInv l2 J2) (Fo : Nat)
    (h1 : l2.files.headD 0 ≤ Fo) (h2 : Fo ≤ (runGc g l2 order).1.files.headD 0) :
    ∃ Jold J, J2 ++ gcJ g l2 order = Jold ++ J ∧
      Collected Fo ((runGc g l2 order).1.files.headD 0) (Jold.filter fun j => decide (Fo ≤ j.loc)) J l2.queues := by
  have hJ' := G.jinv_gc g order hJ
  obtain ⟨Jold, J, hsplit, ho, hn⟩ := C09R.split_loc ((runGc g l2 order).1.files.headD 0) _ hJ'.chunk.mono
  have hq : (runGc g l2 order).1.queues = l2.queues := runGc_queues g l2 order
  -- the replay from the new first file
  obtain ⟨qr, hr1, hr2, _⟩ := hJ'.rep
  rw [hq] at hr2
  -- the replay from `Fo`
  have hfull : ∃ qo, replayJ Fo [] (J2 ++ gcJ g l2 order) = some qo ∧ QsEquiv qo l2.queues := by
    rcases Nat.lt_or_ge (l2.files.headD 0) Fo with hlt | hge
    · exact rep_at g order hJ Fo hlt h2
    · have hFo : Fo = l2.files.headD 0 := by omega
      subst hFo
      obtain ⟨hH, chunk, qs, hrep, heq, hwf⟩ := hJ
      have hF2 : l2.files.headD 0 ≤ l2.cur := head_le_of_mem hH.files.sorted hH.files.cur_mem
      obtain ⟨_, _, _, hreplay, _⟩ := gc_facts g l2 order hH (l2.files.headD 0) hF2
      obtain ⟨qs1, r1, r2, _⟩ := extend_rep hH.inv hrep heq hwf hreplay
      exact ⟨qs1, r1, r2⟩
  obtain ⟨qo, hf1, hf2⟩ := hfull
  refine ⟨Jold, J, hsplit, h2, ?_, hn, ⟨qo, ?_, AbsEq.of_qsEquiv hf2⟩, ⟨qr, ?_, AbsEq.of_qsEquiv hr2⟩⟩
  · intro j hj; exact ho j (List.mem_filter.mp hj).1
  · rw [hsplit, G.replayJ_filter] at hf1
    rw [G.replayJ_filter, List.filter_append]
    rw [List.filter_append] at hf1
    have : (List.filter (fun j => decide (Fo ≤ j.loc)) (Jold.filter fun j => decide (Fo ≤ j.loc))) =
        Jold.filter fun j => decide (Fo ≤ j.loc) := by
      rw [List.filter_filter]; simp
    rw [this]; exact hf1
  · rw [hsplit, replayJ_append, Drop.replayJ_skip _ [] Jold ho] at hr1
    exact hr1

/-- **one more call** of the log (no GC cut: the first tracked file stays): still collected -/
theorem collected_step (g : Geom) {l : Log} {Jo Jr Jold : List JE} {Fo : Nat} (hJ : JInv l (Jo ++ Jr))
    (ho : ∀ j ∈ Jo, j.loc < l.files.headD 0)
    (h : Collected Fo (l.files.headD 0) Jold Jr l.queues) (c : Call) (tick : Bool) (order : List Bytes)
    (hhead : (l.step g c tick order).1.files.headD 0 = l.files.headD 0) :
    Collected Fo (l.files.headD 0) Jold (Jr ++ l.stepJ g c order) (l.step g c tick order).1.queues := by
  have hJ' := jinv_step g c tick order hJ
  obtain ⟨qs, hrep, heq, _⟩ := hJ'.rep
  rw [hhead, List.append_assoc, replayJ_append, Drop.replayJ_skip _ [] Jo ho] at hrep
  have hF : l.files.headD 0 ≤ l.cur := head_le_of_mem hJ.h.files.sorted hJ.h.files.cur_mem
  apply h.extend _ _ _ ⟨qs, hrep, AbsEq.of_qsEquiv heq⟩
  intro j hj
  have := ((G.stepJ_chunk g l hJ.h c tick order).1.bounds j hj)
  omega

end MRL.PDL
