/-
Every boundary between two OS operations of the `BufWriter` is a boundary between two effects: the
image after the first `k` OS operations is the image after a whole number of the effects (the
pending bytes first). So the crash points "after `k` operations" are covered by the theorems
stated for effect boundaries.
-/
import MRL.Proofs.LTape

namespace MRL.L
open MRL Buf H

theorem directOps_pendW (b : BufSt) : directOps (pendW b) = b.flushOps := by
  by_cases hp : b.pend = []
  · rw [pendW_nil b hp, flushOps_nil b hp]; rfl
  · rw [pendW_ne b hp, flushOps_ne b hp]; rfl

theorem pendW_length_le (b : BufSt) : (pendW b).length ≤ 1 := by
  by_cases hp : b.pend = []
  · rw [pendW_nil b hp]; simp
  · rw [pendW_ne b hp]; simp

/-- the operations emitted for one effect: a strict prefix of them leaves the image unchanged or
    flushes the pending bytes -/
theorem bufStep_prefix (cap : Nat) (b : BufSt) (e : Effect) (img : Image) (k : Nat)
    (hk : k < (bufStep cap b e).2.length) :
    applyOsOps img ((bufStep cap b e).2.take k) = img ∨
    applyOsOps img ((bufStep cap b e).2.take k) = applyOsOps img b.flushOps := by
  have small : ∀ ops : List OsOp, ops.length ≤ 1 → k < ops.length → applyOsOps img (ops.take k) = img := by
    intro ops h1 h2
    have : k = 0 := by omega
    subst this; rfl
  cases e with
  | write f off data =>
    rw [bufStep_write] at hk ⊢
    by_cases h1 : data.length < cap - b.pend.length
    · rw [if_pos h1] at hk; simp at hk
    · rw [if_neg h1] at hk ⊢
      by_cases h2 : data.length > cap - b.pend.length
      · rw [if_pos h2] at hk ⊢
        by_cases h3 : data.length ≥ cap
        · rw [if_pos h3] at hk ⊢
          simp only at hk ⊢
          by_cases hp : b.pend = []
          · left; exact small _ (by rw [flushOps_nil b hp]; simp) hk
          · rw [flushOps_ne b hp] at hk ⊢
            simp only [List.cons_append, List.nil_append, List.length_cons, List.length_nil] at hk
            have : k = 0 ∨ k = 1 := by omega
            rcases this with rfl | rfl
            · left; rfl
            · right; rfl
        · rw [if_neg h3] at hk ⊢
          left
          simp only at hk ⊢
          by_cases hp : b.pend = []
          · rw [flushOps_nil b hp] at hk; simp at hk
          · exact small _ (by rw [flushOps_ne b hp]; simp) hk
      · rw [if_neg h2] at hk ⊢
        by_cases h3 : data.length ≥ cap
        · rw [if_pos h3] at hk ⊢
          left; exact small _ (by simp) hk
        · rw [if_neg h3] at hk; simp at hk
  | flush =>
    left
    have hbs : bufStep cap b .flush = ({}, b.flushOps) := rfl
    rw [hbs] at hk ⊢
    by_cases hp : b.pend = []
    · rw [flushOps_nil b hp] at hk; simp at hk
    · exact small _ (by rw [flushOps_ne b hp]; simp) hk
  | fsyncFile f => left; exact small _ (by simp [bufStep]) hk
  | fsyncDir => left; exact small _ (by simp [bufStep]) hk
  | listDir => simp [bufStep] at hk
  | openFile f => simp [bufStep] at hk
  | readBlock f => simp [bufStep] at hk
  | create f => left; exact small _ (by simp [bufStep]) hk
  | setLen f n => left; exact small _ (by simp [bufStep]) hk
  | ensureLen f n => left; exact small _ (by simp [bufStep]) hk
  | unlink f => left; exact small _ (by simp [bufStep]) hk

/-- all the operations emitted for one effect -/
theorem bufStep_all (cap : Nat) (b : BufSt) (st st1 : St) (e : Effect) (hinv : Inv cap b st)
    (hr : run1 st e = some st1) (img : Image) :
    applyOsOps img (bufStep cap b e).2 = img ∨
    applyOsOps img (bufStep cap b e).2 = applyOsOps img b.flushOps ∨
    applyOsOps img (bufStep cap b e).2 = applyOsOps (applyOsOps img b.flushOps) (direct e) := by
  have clean : (if st = none then some (none : St) else none) = some st1 → b.flushOps = [] := by
    intro h
    split at h
    · rename_i hst
      rcases hinv.1 with h1 | h1
      · exact flushOps_nil b h1
      · rw [hst] at h1; cases h1
    · cases h
  cases e with
  | write f off data =>
    rw [bufStep_write]
    by_cases h1 : data.length < cap - b.pend.length
    · rw [if_pos h1]; left; rfl
    · rw [if_neg h1]
      by_cases h2 : data.length > cap - b.pend.length
      · rw [if_pos h2]
        by_cases h3 : data.length ≥ cap
        · rw [if_pos h3]; right; right
          simp only [applyOsOps_append]; rfl
        · rw [if_neg h3]; right; left; rfl
      · rw [if_neg h2]
        by_cases h3 : data.length ≥ cap
        · rw [if_pos h3]; right; right
          have : b.pend.length = 0 := by have := hinv.2; omega
          rw [flushOps_nil b (List.eq_nil_of_length_eq_zero this)]; rfl
        · rw [if_neg h3]; left; rfl
  | flush => right; left; rfl
  | fsyncFile f => left; rfl
  | fsyncDir => left; rfl
  | listDir => left; rfl
  | openFile f => left; rfl
  | readBlock f => left; rfl
  | create f => right; right; rw [clean hr]; rfl
  | setLen f n => right; right; rw [clean hr]; rfl
  | ensureLen f n => right; right; rw [clean hr]; rfl
  | unlink f => right; right; rw [clean hr]; rfl

/-- **operation boundaries are effect boundaries** -/
theorem op_boundary (cap : Nat) (es : List Effect) : ∀ (b : BufSt) (st st' : St) (img : Image),
    Inv cap b st → run st es = some st' → ∀ k,
    ∃ n, applyOsOps img ((toOsOps cap b es).2.take k) = applyOsOps img (directOps ((pendW b ++ es).take n)) := by
  induction es with
  | nil =>
    intro b st st' img _ _ k
    exact ⟨0, by simp [toOsOps, applyOsOps, directOps]⟩
  | cons e es ih =>
    intro b st st' img hinv hr k
    simp only [run] at hr
    cases h1 : run1 st e with
    | none => rw [h1] at hr; cases hr
    | some st1 =>
      rw [h1] at hr
      simp only [Option.bind_some] at hr
      obtain ⟨hinv1, hok⟩ := bufStep_ok cap b st st1 e hinv h1
      rw [toOsOps_cons]
      simp only
      -- the three kinds of effect boundaries around `e`
      have hb0 : img = applyOsOps img (directOps ((pendW b ++ e :: es).take 0)) := by
        simp [directOps, applyOsOps]
      have hb1 : applyOsOps img b.flushOps =
          applyOsOps img (directOps ((pendW b ++ e :: es).take (pendW b).length)) := by
        rw [List.take_left' rfl, directOps_pendW]
      have htk : ∀ m, (pendW b ++ e :: es).take ((pendW b).length + 1 + m) = pendW b ++ ([e] ++ es.take m) := by
        intro m
        rw [List.take_append, List.take_of_length_le (by omega)]
        have : (pendW b).length + 1 + m - (pendW b).length = m + 1 := by omega
        rw [this, List.take_succ_cons]
        rfl
      have hb2 : ∀ m, applyOsOps (applyOsOps (applyOsOps img b.flushOps) (direct e)) (directOps (es.take m)) =
          applyOsOps img (directOps ((pendW b ++ e :: es).take ((pendW b).length + 1 + m))) := by
        intro m
        rw [htk, directOps_append, directOps_append, applyOsOps_append, applyOsOps_append, directOps_pendW]
        simp [directOps]
      by_cases hk : k < (bufStep cap b e).2.length
      · rw [List.take_append_of_le_length (Nat.le_of_lt hk)]
        rcases bufStep_prefix cap b e img k hk with h | h
        · exact ⟨0, by rw [h]; exact hb0⟩
        · exact ⟨(pendW b).length, by rw [h]; exact hb1⟩
      · have hge : (bufStep cap b e).2.length ≤ k := by omega
        rw [List.take_append, List.take_of_length_le hge, applyOsOps_append]
        obtain ⟨n', hn'⟩ := ih (bufStep cap b e).1 st1 st' (applyOsOps img (bufStep cap b e).2) hinv1 hr
          (k - (bufStep cap b e).2.length)
        rw [hn']
        cases n' with
        | zero =>
          show ∃ n, applyOsOps img (bufStep cap b e).2 =
            applyOsOps img (directOps ((pendW b ++ e :: es).take n))
          rcases bufStep_all cap b st st1 e hinv h1 img with h | h | h
          · exact ⟨0, by rw [h]; exact hb0⟩
          · exact ⟨(pendW b).length, by rw [h]; exact hb1⟩
          · refine ⟨(pendW b).length + 1 + 0, ?_⟩
            rw [h, ← hb2 0]
            simp [directOps, applyOsOps]
        | succ m =>
          by_cases hp1 : (bufStep cap b e).1.pend = []
          · refine ⟨(pendW b).length + 1 + (m + 1), ?_⟩
            rw [pendW_nil _ hp1, List.nil_append, ← hb2 (m + 1)]
            have := hok img
            rw [flushOps_nil _ hp1] at this
            have hs : applyOsOps img (bufStep cap b e).2 = applyOsOps (applyOsOps img b.flushOps) (direct e) := this
            rw [hs]
          · refine ⟨(pendW b).length + 1 + m, ?_⟩
            rw [pendW_ne _ hp1, List.cons_append, List.take_succ_cons, directOps_cons, applyOsOps_append,
              ← hb2 m]
            have := hok img
            rw [flushOps_ne _ hp1] at this
            have hd : direct (Effect.write (bufStep cap b e).1.file (bufStep cap b e).1.off (bufStep cap b e).1.pend) =
                [OsOp.write (bufStep cap b e).1.file (bufStep cap b e).1.off (bufStep cap b e).1.pend] := rfl
            rw [hd, this, List.nil_append]

end MRL.L
