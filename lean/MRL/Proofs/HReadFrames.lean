/-
The reader over a multi-file stream, compositionally: over the layout of complete frames it
emits them (tagged with their files) and goes on where the layout ends; what it does on a tail of
zeros, on a torn header and on a frame with a torn payload.
-/
import MRL.Proofs.GRead
import MRL.Proofs.TornMaster

namespace MRL.H
open MRL Codec Consts G Torn

/-- the reader standing at cursor `c` of block `k` of the stream `S` (`N` blocks) -/
def scanAt (g : Geom) (F : Nat) (S : Bytes) (N k c : Nat) : List RdEv × EndPos :=
  scanB g (blkAt g F S k) c (blksFrom g F S (k + 1) (N - (k + 1)))

theorem scanAt_skip (g : Geom) (F : Nat) (S : Bytes) (N k c : Nat) (h : g.B - c < 7) (hk : k + 1 < N) :
    scanAt g F S N k c = scanAt g F S N (k + 1) 0 := by
  unfold scanAt
  obtain ⟨m, hm⟩ : ∃ m, N - (k + 1) = m + 1 := ⟨N - (k + 1) - 1, by omega⟩
  rw [hm, blksFrom_succ, scanB_skip g _ _ c _ h]
  have : m = N - (k + 1 + 1) := by omega
  rw [this]

theorem drop_len_lt (S : Bytes) (n : Nat) (X : Bytes) (h : S.drop n = X) (hX : 0 < X.length) : n < S.length := by
  have := congrArg List.length h
  rw [List.length_drop] at this
  omega

/-- complete frames, then anything -/
theorem readS_frames (g : Geom) (hB : g.B ≤ 65542) (F : Nat) (S : Bytes) (N : Nat)
    (hS : S.length = N * g.B) (fs : List Frm) :
    ∀ (k c : Nat) (R : Bytes), k < N → c < g.B → Fits g c fs →
      S.drop (k * g.B + c) = (layoutBufs g c fs).flatten ++ R →
      ∃ k' c', k' < N ∧ c' ≤ g.B ∧ k' * g.B + c' = k * g.B + c + totalLen (layoutBufs g c fs) ∧
        scanAt g F S N k c =
          (evsOf (tagFrom g F (k * g.B + c) fs) ++ (scanAt g F S N k' c').1, (scanAt g F S N k' c').2) := by
  have hB7 := G.Bpos g
  induction fs with
  | nil =>
    intro k c R hk hc _ _
    exact ⟨k, c, hk, Nat.le_of_lt hc, by simp [layoutBufs], by simp [tagFrom, evsOf]⟩
  | cons fr fs ih =>
    obtain ⟨t, p⟩ := fr
    have good : ∀ (k c : Nat) (R : Bytes), k < N → c < g.B → 7 ≤ g.B - c → Fits g c ((t, p) :: fs) →
        S.drop (k * g.B + c) = (layoutBufs g c ((t, p) :: fs)).flatten ++ R →
        ∃ k' c', k' < N ∧ c' ≤ g.B ∧
          k' * g.B + c' = k * g.B + c + totalLen (layoutBufs g c ((t, p) :: fs)) ∧
          scanAt g F S N k c =
            (evsOf (tagFrom g F (k * g.B + c) ((t, p) :: fs)) ++ (scanAt g F S N k' c').1,
              (scanAt g F S N k' c').2) := by
      intro k c R hk hc h7 hf hT
      have hf1 : p.length ≤ g.B - c - 7 := by
        have := hf.1; simpa [maxFrameLen, HEADER_LEN, h7] using this
      have hfw : frameWrites g c t p = [encodeFrame t p] := by
        simp [frameWrites, HEADER_LEN]; omega
      have hfe : frameEndCursor g c p.length = adv g c (7 + p.length) := by
        simp [frameEndCursor, HEADER_LEN]; omega
      have hf2 : Fits g (adv g c (7 + p.length)) fs := by have := hf.2; rwa [hfe] at this
      simp only [layoutBufs, hfw, hfe, List.cons_append, List.nil_append, List.flatten_cons,
        totalLen_cons, length_encodeFrame, List.append_assoc] at hT ⊢
      have htag : tagFrom g F (k * g.B + c) ((t, p) :: fs) =
          (F + k / g.K, (t, p)) :: tagFrom g F (k * g.B + (c + 7 + p.length)) fs := by
        simp only [tagFrom, nextPos, hdrPos_good g k c hc h7, pos_file g k c hc]
        congr 2; omega
      rw [htag]
      have hev : ∀ rest : List TFrm, evsOf ((F + k / g.K, (t, p)) :: rest) =
          RdEv.frame (F + k / g.K) t p :: evsOf rest := fun _ => rfl
      rw [hev]
      have hstep : scanAt g F S N k c =
          (RdEv.frame (F + k / g.K) t p :: (scanAt g F S N k (c + 7 + p.length)).1,
            (scanAt g F S N k (c + 7 + p.length)).2) := by
        have hd : (blkAt g F S k).data.drop c = encodeFrame t p ++
            (((layoutBufs g (adv g c (7 + p.length)) fs).flatten ++ R).take (g.B - c - (7 + p.length))) := by
          rw [blkAt_data_drop, hT, List.take_append,
            List.take_of_length_le (by rw [length_encodeFrame]; omega), length_encodeFrame]
        exact scanB_frame g (blkAt g F S k) c _ t p _ hd (by omega) (by omega)
      have hTd : S.drop (k * g.B + (c + 7 + p.length)) =
          (layoutBufs g (adv g c (7 + p.length)) fs).flatten ++ R := by
        have : k * g.B + (c + 7 + p.length) = (k * g.B + c) + (7 + p.length) := by omega
        rw [this, ← List.drop_drop, hT, List.drop_left' (length_encodeFrame t p)]
      by_cases hend : c + (7 + p.length) = g.B
      · have hadv : adv g c (7 + p.length) = 0 := by simp [adv, hend]
        rw [hadv] at hTd hf2 ⊢
        have hpos : k * g.B + (c + 7 + p.length) = (k + 1) * g.B + 0 := by
          rw [Nat.add_mul, Nat.one_mul]; omega
        cases fs with
        | nil =>
          refine ⟨k, c + 7 + p.length, hk, by omega, by simp [layoutBufs]; omega, ?_⟩
          rw [hstep]; simp [tagFrom, evsOf]
        | cons f2 fs2 =>
          have hk1 : k + 1 < N := by
            have hlt := drop_len_lt S _ _ hTd (by
              rw [List.length_append]
              have := layout_ne_nil g 0 f2 fs2; omega)
            rw [hS, hpos, Nat.add_zero] at hlt
            exact Nat.lt_of_mul_lt_mul_right hlt
          rw [hpos] at hTd
          obtain ⟨k', c', h1, h2, h3, h4⟩ := ih (k + 1) 0 R hk1 (by omega) hf2 hTd
          refine ⟨k', c', h1, h2, ?_, ?_⟩
          · rw [h3, Nat.add_mul, Nat.one_mul]; omega
          · rw [hstep, scanAt_skip g F S N k _ (by omega) hk1, h4, hpos]
            rfl
      · have hadv : adv g c (7 + p.length) = c + 7 + p.length := by simp [adv, hend]; omega
        rw [hadv] at hTd hf2 ⊢
        obtain ⟨k', c', h1, h2, h3, h4⟩ := ih k (c + 7 + p.length) R hk (by omega) hf2 hTd
        refine ⟨k', c', h1, h2, by rw [h3]; omega, ?_⟩
        rw [hstep, h4]; rfl
    intro k c R hk hc hf hT
    by_cases h7 : 7 ≤ g.B - c
    · exact good k c R hk hc h7 hf hT
    · have hbad : g.B - c < 7 := by omega
      rw [layoutBufs_bad g c _ _ hbad] at hT ⊢
      simp only [List.flatten_cons, List.append_assoc, totalLen_cons, length_zeros] at hT ⊢
      have hf0 : Fits g 0 ((t, p) :: fs) := by
        have h1 := hf.1
        have h2 := hf.2
        have hm : maxFrameLen g c = maxFrameLen g 0 := by
          unfold maxFrameLen; simp only [HEADER_LEN, Nat.sub_zero]
          rw [if_neg (by omega), if_pos (by omega)]
        have hfe : frameEndCursor g c p.length = frameEndCursor g 0 p.length := by
          unfold frameEndCursor; simp only [HEADER_LEN, Nat.sub_zero]
          rw [if_pos hbad, if_neg (by omega)]
        rw [hm] at h1; rw [hfe] at h2
        exact ⟨h1, h2⟩
      have hpos : (k + 1) * g.B + 0 = (k * g.B + c) + (g.B - c) := by
        rw [Nat.add_mul, Nat.one_mul]; omega
      have hT2 : S.drop ((k + 1) * g.B + 0) = (layoutBufs g 0 ((t, p) :: fs)).flatten ++ R := by
        rw [hpos, ← List.drop_drop, hT, List.drop_left' (length_zeros _)]
      have hk1 : k + 1 < N := by
        have hlt := drop_len_lt S _ _ hT2 (by
          rw [List.length_append]
          have := layout_ne_nil g 0 (t, p) fs; omega)
        rw [hS, Nat.add_zero] at hlt
        exact Nat.lt_of_mul_lt_mul_right hlt
      obtain ⟨k', c', h1, h2, h3, h4⟩ := good (k + 1) 0 R hk1 (by omega) (by omega) hf0 hT2
      refine ⟨k', c', h1, h2, by rw [h3, hpos]; omega, ?_⟩
      rw [scanAt_skip g F S N k c hbad hk1, h4]
      congr 3
      rw [← hdrPos_pad g k c hc hbad, tagFrom_hdrPos g F _ _ (by simp)]

/-! ### tails -/

theorem scanB_needNext_nil (g : Geom) (cur : Blk) (c : Nat) (evs : List FrameEv) (c' : Nat)
    (h : scanBlock g cur.data c = (evs, .needNext c')) :
    scanB g cur c [] = (tagEvs cur.file evs, ⟨cur.file, cur.idx, c'⟩) := by
  unfold scanB; rw [h]

/-- zeros to the end of the stream -/
theorem tail_zeros (g : Geom) (F : Nat) (S : Bytes) (N : Nat) (hS : S.length = N * g.B) (k c : Nat)
    (hk : k < N) (hc : c ≤ g.B) (hz : S.drop (k * g.B + c) = zeros (N * g.B - (k * g.B + c))) :
    ∃ e, scanAt g F S N k c = ([], e) := by
  have hB7 := G.Bpos g
  have hkB : (k + 1) * g.B ≤ N * g.B := Nat.mul_le_mul_right _ hk
  rw [Nat.add_mul, Nat.one_mul] at hkB
  by_cases h7 : 7 ≤ g.B - c
  · have hd : (blkAt g F S k).data.drop c = zeros (g.B - c) := by
      rw [blkAt_data_drop, hz, take_zeros]
      congr 1; omega
    exact ⟨_, scanB_zeros' g _ c _ (g.B - c) hd h7⟩
  · by_cases hk1 : k + 1 < N
    · rw [scanAt_skip g F S N k c (by omega) hk1]
      have hd : (blkAt g F S (k + 1)).data.drop 0 = zeros g.B := by
        rw [blkAt_data_drop]
        have hk2 : (k + 2) * g.B ≤ N * g.B := Nat.mul_le_mul_right _ hk1
        have e2 : (k + 2) * g.B = k * g.B + g.B + g.B := by rw [Nat.add_mul]; omega
        have e1 : (k + 1) * g.B + 0 = (k * g.B + c) + (g.B - c) := by
          rw [Nat.add_mul, Nat.one_mul]; omega
        rw [e1, ← List.drop_drop, hz, drop_zeros, take_zeros]
        congr 1; omega
      exact ⟨_, scanB_zeros' g _ 0 _ g.B hd (by omega)⟩
    · have hN : N - (k + 1) = 0 := by omega
      have h1 : scanAt g F S N k c = scanB g (blkAt g F S k) c [] := by
        unfold scanAt; rw [hN]; simp [blksFrom]
      exact ⟨_, by rw [h1]; exact scanB_short_nil g _ c (by omega)⟩

/-- a torn header (1 to 6 bytes of it, not all zero, then zeros) -/
theorem tail_hdr (g : Geom) (F : Nat) (S : Bytes) (N : Nat) (hS : S.length = N * g.B) (k c : Nat)
    (hk : k < N) (h7 : 7 ≤ g.B - c) (hd : Bytes) (hl : hd.length ≤ 6) (hnz : isAllZero hd = false)
    (hz : S.drop (k * g.B + c) = hd ++ zeros (N * g.B - (k * g.B + c) - hd.length)) :
    ∃ e, scanAt g F S N k c = ([RdEv.corrupt (F + k / g.K)], e) := by
  have hB7 := G.Bpos g
  have hkB : (k + 1) * g.B ≤ N * g.B := Nat.mul_le_mul_right _ hk
  rw [Nat.add_mul, Nat.one_mul] at hkB
  have hdata : (blkAt g F S k).data.drop c = hd ++ zeros (g.B - c - hd.length) ++ [] := by
    rw [blkAt_data_drop, hz, List.take_append, List.take_of_length_le (by omega), take_zeros,
      List.append_nil]
    congr 2; omega
  have hs : scanBlock g (blkAt g F S k).data c = ([.corrupt], .needNext c) := by
    unfold scanBlock; rw [hdata]
    exact scanBlockFrom_torn g hd _ [] c h7 hl (by omega) hnz
  by_cases hk1 : k + 1 < N
  · obtain ⟨m, hm⟩ : ∃ m, N - (k + 1) = m + 1 := ⟨N - (k + 1) - 1, by omega⟩
    have hnext : ∃ e, scanAt g F S N (k + 1) 0 = ([], e) := by
      apply tail_zeros g F S N hS (k + 1) 0 hk1 (by omega)
      have e1 : (k + 1) * g.B + 0 = (k * g.B + c) + (g.B - c) := by
        rw [Nat.add_mul, Nat.one_mul]; omega
      have hk2 : (k + 2) * g.B ≤ N * g.B := Nat.mul_le_mul_right _ hk1
      have e2 : (k + 2) * g.B = k * g.B + g.B + g.B := by rw [Nat.add_mul]; omega
      rw [e1, ← List.drop_drop, hz, List.drop_append, List.drop_of_length_le (by omega), drop_zeros,
        List.nil_append]
      congr 1; omega
    obtain ⟨e, he⟩ := hnext
    refine ⟨e, ?_⟩
    unfold scanAt at he ⊢
    rw [hm, blksFrom_succ]
    conv => lhs; unfold scanB
    rw [hs]
    have hm2 : m = N - (k + 1 + 1) := by omega
    simp only
    rw [hm2, he]
    simp [tagEvs, blkAt]
  · have hN : N - (k + 1) = 0 := by omega
    have h1 : scanAt g F S N k c = scanB g (blkAt g F S k) c [] := by
      unfold scanAt; rw [hN]; simp [blksFrom]
    refine ⟨⟨(blkAt g F S k).file, (blkAt g F S k).idx, c⟩, ?_⟩
    rw [h1, scanB_needNext_nil g _ c _ _ hs]
    simp [tagEvs, blkAt]

/-- a frame whose payload was cut (the rest of it reads as zeros) and whose checksum fails -/
theorem tail_payload (g : Geom) (hB : g.B ≤ 65542) (F : Nat) (S : Bytes) (N : Nat)
    (hS : S.length = N * g.B) (k c : Nat) (hk : k < N) (t : FrameType) (p : Bytes) (i : Nat)
    (hi : i < p.length) (hfit : c + 7 + p.length ≤ g.B)
    (hcrc : frameCrc t (p.take i ++ zeros (p.length - i)) ≠ frameCrc t p)
    (hz : S.drop (k * g.B + c) =
      encodeHeader t p ++ p.take i ++ zeros (N * g.B - (k * g.B + c) - 7 - i)) :
    ∃ e, scanAt g F S N k c = ([RdEv.corrupt (F + k / g.K)], e) := by
  have hB7 := G.Bpos g
  have hkB : (k + 1) * g.B ≤ N * g.B := Nat.mul_le_mul_right _ hk
  rw [Nat.add_mul, Nat.one_mul] at hkB
  have hil : (p.take i).length = i := by simp; omega
  have hz' : S.drop (k * g.B + c) = (tornFrame t p i).bytes ++
      zeros (N * g.B - (k * g.B + c) - 7 - p.length) := by
    rw [hz, tornFrame_bytes t p i hi, List.append_assoc, List.append_assoc, List.append_assoc, ← zeros_add]
    congr 3; omega
  have hbl : (tornFrame t p i).bytes.length = 7 + p.length := by
    rw [length_raw_bytes _ (by simp [tornFrame, length_leBytes])]
    simp [tornFrame]; omega
  have hdata : (blkAt g F S k).data.drop c = (tornFrame t p i).bytes ++ zeros (g.B - c - 7 - p.length) := by
    rw [blkAt_data_drop, hz', List.take_append, List.take_of_length_le (by rw [hbl]; omega), hbl, take_zeros]
    congr 2; omega
  have hplen : (tornFrame t p i).2.2.length = p.length := tornFrame_len t p i hi
  have hraw := scanB_raw g (blkAt g F S k) c (blksFrom g F S (k + 1) (N - (k + 1))) (tornFrame t p i) _ hdata
    (by simp [tornFrame, length_leBytes]) (by rw [hplen]; exact hfit) (by rw [hplen]; omega)
  rw [hplen] at hraw
  have hev : (tornFrame t p i).ev = FrameEv.corrupt := by rw [tornFrame_ev, if_neg hcrc]
  have htail : ∃ e, scanAt g F S N k (c + 7 + p.length) = ([], e) := by
    apply tail_zeros g F S N hS k _ hk hfit
    have : k * g.B + (c + 7 + p.length) = (k * g.B + c) + (7 + p.length) := by omega
    rw [this, ← List.drop_drop, hz', List.drop_left' hbl]
    congr 1; omega
  obtain ⟨e, he⟩ := htail
  refine ⟨e, ?_⟩
  unfold scanAt at he ⊢
  rw [hraw, hev, he]
  simp [tagEvs, blkAt]

end MRL.H
