/-
`Spec.step` only touches the queue named by the call.
-/
import MRL.Proofs.QSpecLemmas

namespace MRL

/-- the queue a call is addressed to (`persist` addresses none) -/
def Call.queue? : Call → Option Bytes
  | .create q | .delete q | .append q _ _ | .truncate q _ => some q
  | .persist _ => none

namespace Spec

theorem step_get?_other (s : Spec) (c : Call) (q : Bytes) (h : c.queue? ≠ some q) :
    (step s c).1.get? q = s.get? q := by
  cases c with
  | persist a => rfl
  | create q' =>
    have hne : q ≠ q' := fun e => h (by rw [e]; rfl)
    simp only [step]
    split
    · rfl
    · exact get?_set_other _ _ _ _ hne
  | delete q' =>
    have hne : q ≠ q' := fun e => h (by rw [e]; rfl)
    simp only [step]
    split
    · rfl
    · exact get?_remove_other _ _ _ hne
  | truncate q' p =>
    have hne : q ≠ q' := fun e => h (by rw [e]; rfl)
    simp only [step]
    split
    · rfl
    · exact get?_set_other _ _ _ _ hne
  | append q' pos? pls =>
    have hne : q ≠ q' := fun e => h (by rw [e]; rfl)
    simp only [step]
    split
    · rfl
    · split
      · split
        · rfl
        · split
          · rfl
          · split
            · rfl
            · exact get?_set_other _ _ _ _ hne
      · split
        · rfl
        · exact get?_set_other _ _ _ _ hne

end Spec
end MRL
