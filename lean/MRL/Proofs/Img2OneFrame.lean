/-
`Img.one_frame_core` without the hypothesis `7 ≤ z`: the tape may end anywhere, including within
the last 6 bytes of the last block of the last file or exactly at its end. The scan of the damaged
stream is taken from the reader over tapes of items (`L.readS_layoutJ`: a damaged frame is a junk
item whose checksum fails), which handles the un-normalised stop at the very end.
-/
import MRL.Proofs.ImgOneFrame
import MRL.Proofs.LScanJ

namespace MRL.Img
open MRL Log C05 Rec Drop Codec Torn G

theorem Fits_len_congr (g : Geom) (fs1 : List Frm) (t : FrameType) (p p' : Bytes) (fs2 : List Frm)
    (hp : p'.length = p.length) (c : Nat) (h : Fits g c (fs1 ++ (t, p) :: fs2)) :
    Fits g c (fs1 ++ (t, p') :: fs2) := by
  rw [Fits_append] at h ⊢
  refine ⟨h.1, ?_⟩
  have h2 := h.2
  simp only [Fits] at h2 ⊢
  rw [hp]; exact h2

theorem retag_evsOf (f F : Nat) (fs : List Frm) : ∀ pos,
    (evsOf (tagFrom g F pos fs)).map (retag f) = tagF f fs := by
  induction fs with
  | nil => intro pos; rfl
  | cons fr fs ih =>
    intro pos
    simp only [tagFrom, evsOf_cons, List.map_cons, retag, ih]
    rfl

/-- the scan of the damaged stream (multi-file blocks), up to tags — no assumption on the number
    of zeros after the tape -/
theorem damaged_scan_all (g : Geom) (hB : g.B ≤ 65542) (F : Nat) (fs1 : List Frm) (t : FrameType) (p : Bytes)
    (fs2 : List Frm) (crc' p' : Bytes) (h4 : crc'.length = 4) (hp : p'.length = p.length)
    (hdet : frameCrc t p' ≠ leNat crc') (hfits : Fits g 0 (fs1 ++ (t, p) :: fs2))
    (S : Bytes) (m z : Nat) (hS : S.length = (m + 1) * g.B)
    (hT : S = (C09.damagedBufs g 0 fs1 t fs2 crc' p').flatten ++ zeros z) :
    (scanB g (blkAt g F S 0) 0 (blksFrom g F S 1 m)).1.map (retag F) =
      tagF F fs1 ++ RdEv.corrupt F :: tagF F fs2 := by
  have hfits' := Fits_len_congr g fs1 t p p' fs2 hp 0 hfits
  -- the tape as items
  have htag : tagFrom g F 0 (fs1 ++ (t, p') :: fs2) =
      tagFrom g F 0 fs1 ++ (F + hdrPos g (endPos g 0 fs1) / g.fileBytes, (t, p')) ::
        tagFrom g F (nextPos g (endPos g 0 fs1) p'.length) fs2 := by
    rw [tagFrom_append]; rfl
  generalize hA1 : tagFrom g F 0 fs1 = A1 at htag
  generalize hA2 : tagFrom g F (nextPos g (endPos g 0 fs1) p'.length) fs2 = A2 at htag
  generalize hf : F + hdrPos g (endPos g 0 fs1) / g.fileBytes = f at htag
  have hu1 : untag A1 = fs1 := by rw [← hA1]; exact untag_tagFrom g F fs1 0
  have hu2 : untag A2 = fs2 := by rw [← hA2]; exact untag_tagFrom g F fs2 _
  have htfs : L.tfs (L.plain A1 ++ ((f, (t, p')), some (Raw.bytes (crc', t, p'))) :: L.plain A2) =
      tagFrom g F 0 (fs1 ++ (t, p') :: fs2) := by
    rw [htag, L.tfs_append, L.tfs_plain]; simp [L.tfs_plain]
  have hfrs : L.frs (L.plain A1 ++ ((f, (t, p')), some (Raw.bytes (crc', t, p'))) :: L.plain A2) =
      fs1 ++ (t, p') :: fs2 := by
    unfold L.frs; rw [htfs, untag_tagFrom]
  have hx : Raw.ev (crc', t, p') = FrameEv.corrupt := by simp [Raw.ev, hdet]
  have hj : L.JOK g ((m + 1) * g.B) 0
      (L.plain A1 ++ ((f, (t, p')), some (Raw.bytes (crc', t, p'))) :: L.plain A2) := by
    rw [L.JOK_append]
    refine ⟨L.JOK_plain g _ A1 0, ?_, L.JOK_plain g _ A2 _⟩
    intro r hr
    simp only [Option.some.injEq] at hr
    exact Or.inl ⟨crc', h4, hr.symm, hx⟩
  have hflat : S = L.flatJ g 0 (L.plain A1 ++ ((f, (t, p')), some (Raw.bytes (crc', t, p'))) :: L.plain A2) ++
      zeros z := by
    rw [hT, L.flatJ_append, L.flatJ_plain, hu1]
    unfold C09.damagedBufs
    rw [rawLayout_damaged g 0 fs1 p fs2 (crc', t, p') hp]
    simp only [List.flatten_append, rawWrites_flatten, L.flatJ, L.slot, Option.getD_some, L.flatJ_plain, hu2,
      L.frs_plain, hu1, hp, List.append_assoc]
  obtain ⟨e, he, _⟩ := L.readS_layoutJ g hB F S (m + 1) hS (Nat.succ_pos _) _ (by rw [hfrs]; exact hfits') hj
    (by rw [htfs]; exact Tagged_tagFrom g F _ 0) z hflat
  have hsc : H.scanAt g F S (m + 1) 0 0 = scanB g (blkAt g F S 0) 0 (blksFrom g F S 1 m) := by
    unfold H.scanAt; simp
  rw [← hsc, he]
  simp only [L.evsJ_append, L.evsJ_cons, L.evsJ_plain, List.map_append, List.map_cons, L.evJ, retag]
  rw [← hA1, ← hA2, retag_evsOf, retag_evsOf]

/-- **one damaged frame on the tape of a reachable state** -/
theorem one_frame_core_all (g : Geom) (hB : g.B ≤ 65542) (cap : Nat) (l : Log) (J : List JE) (img : Image)
    (b : BufSt) (h : C01R.ReachD g cap l J img b) (hwf : ∀ j ∈ J, C07.WF j.e) :
    ∃ fs z, streamOf (C01R.flushDisk img b) = (layoutBufs g 0 fs).flatten ++ zeros z ∧ Fits g 0 fs ∧
      ∀ fs1 t p fs2, fs = fs1 ++ (t, p) :: fs2 →
      ∀ crc' p' : Bytes, crc'.length = 4 → p'.length = p.length → frameCrc t p' ≠ leNat crc' →
      ∀ W', SameShape (C01R.flushDisk img b) W' →
        streamOf W' = (C09.damagedBufs g 0 fs1 t fs2 crc' p').flatten ++ zeros z →
      ∀ (policy : Policy) (order : List Bytes),
        ∃ r a, recover g W' policy order none = .ok r ∧
          ∀ name q, l.queues.get? name = some q → ∀ rc ∈ q.recs,
            (∀ ha : a < J.length, ¬ C09R.RecordOf (J[a]) name rc) →
            ∃ q', r.log.queues.get? name = some q' ∧ ∃ r' ∈ q'.recs, r'.pos = rc.pos ∧ r'.payload = rc.payload := by
  have hrinv := C01R.reach_rinv g hB cap h hwf
  have hdisk := hrinv.c.disk
  have hjinv := hrinv.c.jinv
  obtain ⟨cs, afs, lead, segs, hD, hne, hfull, ⟨hfits, z, hstream⟩, hafs, hlead, hmap, hsok⟩ := tape_of_dinv hdisk
  refine ⟨untag afs, z, hstream, hfits, ?_⟩
  intro fs1 t p fs2 hfs crc' p' h4 hp hdet W' hshape hS' policy order
  -- the damaged image
  have hshape' : SameShape (imgOf (l.files.headD 0) cs) W' := by
    have : C01R.flushDisk img b = imgOf (l.files.headD 0) cs := hD
    rw [← this]; exact hshape
  obtain ⟨hW', hlens⟩ := sameShape_imgOf cs _ W' hshape'
  generalize hcs' : W'.map (·.2) = cs' at hW' hlens
  have hfull' : ∀ c ∈ cs', c.length = g.fileBytes := by
    intro c hc
    have : c.length ∈ cs'.map List.length := List.mem_map_of_mem hc
    rw [hlens] at this
    obtain ⟨c0, hc0, he⟩ := List.mem_map.mp this
    rw [← he]; exact hfull c0 hc0
  have hne' : cs' ≠ [] := by
    intro hn
    rw [hn] at hlens
    simp only [List.map_nil] at hlens
    exact hne (List.map_eq_nil_iff.mp hlens.symm)
  have hstream' : cs'.flatten = (C09.damagedBufs g 0 fs1 t fs2 crc' p').flatten ++ zeros z := by
    rw [← hS']; unfold streamOf; rw [hcs']
  generalize hF : l.files.headD 0 = F at *
  -- what is scanned
  obtain ⟨m, trail, hlen, hb⟩ := blocks_of_full g F cs' hne' hfull'
  rw [← hW'] at hb
  have hfits' : Fits g 0 (fs1 ++ (t, p) :: fs2) := by rw [← hfs]; exact hfits
  have hre := damaged_scan_all g hB F fs1 t p fs2 crc' p' h4 hp hdet hfits' cs'.flatten m z hlen.symm hstream'
  -- what is delivered, as bytes
  have hbytes : bytesOf (assemble { within := false, buf := [], attr := (blkAt g F cs'.flatten 0).file }
      (scanB g (blkAt g F cs'.flatten 0) 0 (blksFrom g F cs'.flatten 1 m)).1) =
      bytesOf (assemble (st0 F) (tagF F fs1 ++ RdEv.corrupt F :: tagF F fs2)) := by
    have := assemble_retag F (scanB g (blkAt g F cs'.flatten 0) 0 (blksFrom g F cs'.flatten 1 m)).1
      { within := false, buf := [], attr := (blkAt g F cs'.flatten 0).file } (st0 F) rfl rfl
    rw [hre] at this
    exact this
  have htape : untag lead ++ untag (segs.flatMap (·.2)) = fs1 ++ (t, p) :: fs2 := by
    rw [← untag_append, ← hafs, hfs]
  -- the journal
  have hmono := hjinv.chunk.mono
  obtain ⟨qsA, hA, hEq, hwA⟩ := hjinv.rep
  rw [hF] at hA
  obtain ⟨Lf, hrun, _, _⟩ := reachD_run g hB cap h hwf
  obtain ⟨J1, J2, hJ, h1, h2⟩ := C09R.split_loc F J hmono
  subst hJ
  have hJ2 : segs.map (·.1) = J2 := by rw [hmap, filter_split F J1 J2 h1 h2]
  have hskip : ∀ js', replayJ F [] (J1 ++ js') = replayJ F [] js' := by
    intro js'
    rw [replayJ_append, replayJ_skip F [] J1 h1]; rfl
  have hsegwf : ∀ s ∈ segs, Entry.decode s.1.e.encode = some s.1.e := by
    intro s hs
    have : s.1 ∈ J2 := by rw [← hJ2]; exact List.mem_map_of_mem (f := (·.1)) hs
    exact C07.decode_encode _ (hwf _ (List.mem_append_right _ this))
  -- the two cases
  rcases asm_tape_damaged F lead segs hlead hsok fs1 (t, p) fs2 htape with hall | ⟨s1, sa, s2, hsegs, hsome⟩
  · -- a lead frame: every entry is delivered
    have hLsnd : (decoded (assemble { within := false, buf := [], attr := (blkAt g F cs'.flatten 0).file }
        (scanB g (blkAt g F cs'.flatten 0) 0 (blksFrom g F cs'.flatten 1 m)).1)).map (·.2) =
        (J2.map fun j => (max j.attr F, j.e)).map (·.2) := by
      rw [decoded_snd, hbytes, hall]
      have := decodedE_encoded (segs.map fun s => s.1.e) (by
        intro en hen
        obtain ⟨s, hs, rfl⟩ := List.mem_map.mp hen
        exact hsegwf s hs)
      rw [List.map_map] at this
      rw [show (fun s : Seg => s.1.e.encode) = (Entry.encode ∘ fun s : Seg => s.1.e) from rfl, this, ← hJ2]
      simp [List.map_map, Function.comp_def]
    have hA' : replayEntries [] (J2.map fun j => (max j.attr F, j.e)) = some qsA := by
      rw [← replayJ_ge F J2 [] h2, ← hskip]; exact hA
    obtain ⟨qs, hqs, hpeq, _⟩ := peq_entries _ _ hLsnd.symm hA' (PEq.refl _) QsWF.nil QsWF.nil
    rw [← replay_eq] at hqs
    obtain ⟨r, hr, hrq⟩ := recover_of_replay g W' policy order _ _ trail hb qs hqs
    refine ⟨r, (J1 ++ J2).length, hr, ?_⟩
    intro name q hq rc hrc _
    obtain ⟨xq, hxq, hxe⟩ := hEq.symm.get_some hq
    have hmem : (rc.pos, rc.payload) ∈ plain xq := by
      unfold plain; rw [← hxe.1]
      exact List.mem_map_of_mem (f := fun r : MRL.Rec => (r.pos, r.payload)) hrc
    rw [hrq]
    exact peq_records hpeq hxq hmem
  · -- a frame of the segment `sa`: all entries but that one are delivered
    have hJ2' : J2 = s1.map (·.1) ++ sa.1 :: s2.map (·.1) := by rw [← hJ2, hsegs]; simp
    have ha : J1.length + s1.length < (J1 ++ J2).length := by rw [hJ2']; simp
    have hers : (J1 ++ J2).eraseIdx (J1.length + s1.length) = J1 ++ (s1.map (·.1) ++ s2.map (·.1)) := by
      rw [List.eraseIdx_append_of_length_le (by omega), hJ2']
      have : J1.length + s1.length - J1.length = (s1.map (·.1)).length := by simp
      rw [this, List.eraseIdx_append_of_length_le (Nat.le_refl _), Nat.sub_self]
      rfl
    have hget : (J1 ++ J2)[J1.length + s1.length] = sa.1 := by
      rw [List.getElem_append_right (by omega)]
      simp [hJ2']
    obtain ⟨qsJ, hqsJ, hwJ, hii⟩ := drop_core F (J1 ++ J2) Lf qsA l.queues hrun hmono hA hEq _ ha
    rw [hers, hskip] at hqsJ
    have h2R : ∀ j ∈ s1.map (·.1) ++ s2.map (·.1), F ≤ j.loc := by
      intro j hj
      apply h2 j
      rw [hJ2']
      rcases List.mem_append.mp hj with hj | hj
      · exact List.mem_append_left _ hj
      · exact List.mem_append_right _ (List.mem_cons_of_mem _ hj)
    rw [replayJ_ge F _ [] h2R] at hqsJ
    have hLsnd : (decoded (assemble { within := false, buf := [], attr := (blkAt g F cs'.flatten 0).file }
        (scanB g (blkAt g F cs'.flatten 0) 0 (blksFrom g F cs'.flatten 1 m)).1)).map (·.2) =
        ((s1.map (·.1) ++ s2.map (·.1)).map fun j => (max j.attr F, j.e)).map (·.2) := by
      rw [decoded_snd, hbytes, hsome]
      have := decodedE_encoded ((s1 ++ s2).map fun s => s.1.e) (by
        intro en hen
        obtain ⟨s, hs, rfl⟩ := List.mem_map.mp hen
        exact hsegwf s (by
          rw [hsegs]
          rcases List.mem_append.mp hs with hs | hs
          · exact List.mem_append_left _ hs
          · exact List.mem_append_right _ (List.mem_cons_of_mem _ hs)))
      rw [List.map_map] at this
      rw [show (fun s : Seg => s.1.e.encode) = (Entry.encode ∘ fun s : Seg => s.1.e) from rfl, this]
      simp [List.map_map, Function.comp_def]
    obtain ⟨qs, hqs, hpeq, _⟩ := peq_entries _ _ hLsnd.symm hqsJ (PEq.refl _) QsWF.nil QsWF.nil
    rw [← replay_eq] at hqs
    obtain ⟨r, hr, hrq⟩ := recover_of_replay g W' policy order _ _ trail hb qs hqs
    refine ⟨r, J1.length + s1.length, hr, ?_⟩
    intro name q hq rc hrc hnot
    obtain ⟨q', hq', hm'⟩ := hii name q hq rc hrc (hnot ha)
    rw [hrq]
    exact peq_records hpeq hq' hm'

end MRL.Img
