/-
Equivalence of queue maps up to the file handles (`AbsEq`: same names, same positions and
payloads, same next positions — the abstraction of C05). Replay is a congruence for it even when
the two replays attribute the entries to different files.
-/
import MRL.Proofs.JCongr
import MRL.Proofs.GAssemble

namespace MRL.H
open MRL C05 Log G

def AbsEq (a b : MemQueues) : Prop := ∀ n, (a.get? n).map MemQueue.abs = (b.get? n).map MemQueue.abs

theorem AbsEq.refl (a : MemQueues) : AbsEq a a := fun _ => rfl
theorem AbsEq.symm {a b : MemQueues} (h : AbsEq a b) : AbsEq b a := fun n => (h n).symm
theorem AbsEq.trans {a b c : MemQueues} (h1 : AbsEq a b) (h2 : AbsEq b c) : AbsEq a c :=
  fun n => (h1 n).trans (h2 n)

theorem abs_of_QEquiv {x y : MemQueue} (h : QEquiv x y) : x.abs = y.abs := by
  unfold MemQueue.abs; rw [h.1, h.2]

theorem AbsEq.of_qsEquiv {a b : MemQueues} (h : QsEquiv a b) : AbsEq a b := by
  intro n
  have := qsEquiv_iff.mp h n
  cases ha : a.get? n with
  | none =>
    rw [ha] at this
    cases hb : b.get? n with
    | none => rfl
    | some y => rw [hb] at this; exact this.elim
  | some x =>
    rw [ha] at this
    cases hb : b.get? n with
    | none => rw [hb] at this; exact this.elim
    | some y =>
      rw [hb] at this
      simp only [Option.map_some, Option.some.injEq]; exact abs_of_QEquiv this

theorem AbsEq.get_some {a b : MemQueues} (h : AbsEq a b) {n : Bytes} {x : MemQueue}
    (hx : a.get? n = some x) : ∃ y, b.get? n = some y ∧ x.abs = y.abs := by
  have := h n
  rw [hx] at this
  cases hb : b.get? n with
  | none => rw [hb] at this; cases this
  | some y => rw [hb] at this; exact ⟨y, rfl, by simpa using this⟩

theorem AbsEq.get_none {a b : MemQueues} (h : AbsEq a b) {n : Bytes} (hx : a.get? n = none) :
    b.get? n = none := by
  have := h n
  rw [hx] at this
  cases hb : b.get? n with
  | none => rfl
  | some y => rw [hb] at this; cases this

theorem AbsEq.contains {a b : MemQueues} (h : AbsEq a b) (n : Bytes) : a.contains n = b.contains n := by
  rw [MemQueues.contains_isSome, MemQueues.contains_isSome]
  cases ha : a.get? n with
  | none => rw [h.get_none ha]
  | some x => obtain ⟨y, hy, _⟩ := h.get_some ha; rw [hy]; rfl

theorem AbsEq.set {a b : MemQueues} (h : AbsEq a b) (n : Bytes) {x y : MemQueue} (hxy : x.abs = y.abs) :
    AbsEq (a.set n x) (b.set n y) := by
  intro m
  by_cases hm : m = n
  · subst hm; rw [MemQueues.get?_set_same, MemQueues.get?_set_same]; simp [hxy]
  · rw [MemQueues.get?_set_other _ _ _ _ hm, MemQueues.get?_set_other _ _ _ _ hm]; exact h m

theorem AbsEq.remove {a b : MemQueues} (h : AbsEq a b) (n : Bytes) : AbsEq (a.remove n) (b.remove n) := by
  intro m
  by_cases hm : m = n
  · subst hm; rw [MemQueues.get?_remove_same, MemQueues.get?_remove_same]
  · rw [MemQueues.get?_remove_other _ _ _ hm, MemQueues.get?_remove_other _ _ _ hm]; exact h m

theorem AbsEq.ackPosition {a b : MemQueues} (h : AbsEq a b) (n : Bytes) (p : Nat) :
    AbsEq (a.ackPosition n p) (b.ackPosition n p) := by
  intro m
  by_cases hm : m = n
  · subst hm; rw [MemQueues.get?_ackPosition_same, MemQueues.get?_ackPosition_same]
  · rw [MemQueues.get?_ackPosition_other _ _ _ _ hm, MemQueues.get?_ackPosition_other _ _ _ _ hm]
    exact h m

/-! ### queue operations -/

theorem abs_next {x y : MemQueue} (h : x.abs = y.abs) : x.nextPosition = y.nextPosition := by
  have := congrArg SQueue.next h; exact this

theorem abs_recs {x y : MemQueue} (h : x.abs = y.abs) :
    x.recs.map (fun r => (r.pos, r.payload)) = y.recs.map (fun r => (r.pos, r.payload)) := by
  have := congrArg SQueue.recs h; exact this

theorem abs_appendRecord {a b a' : MemQueue} (h : a.abs = b.abs) {f f' p : Nat} {pl : Bytes}
    (ha : a.appendRecord f p pl = some a') :
    ∃ b', b.appendRecord f' p pl = some b' ∧ a'.abs = b'.abs := by
  have hle := appendRecord_some_le ha
  unfold MemQueue.appendRecord at ha ⊢
  have h1 : ¬ p < a.nextPosition := by omega
  have h2 : ¬ p < b.nextPosition := by rw [← abs_next h]; exact h1
  simp only [h1, if_false, Option.some.injEq] at ha
  simp only [h2, if_false]
  refine ⟨_, rfl, ?_⟩
  subst ha
  unfold MemQueue.abs
  rw [MemQueue.nextPosition_append, MemQueue.nextPosition_append]
  simp only [List.map_append, MemQueue.dropLastHandle_map, abs_recs h]
  rfl

theorem abs_appendAll (f f' : Nat) (rs : List (Nat × Bytes)) : ∀ {a b a' : MemQueue}, a.abs = b.abs →
    appendAll a f rs = some a' → ∃ b', appendAll b f' rs = some b' ∧ a'.abs = b'.abs := by
  induction rs with
  | nil => intro a b a' h ha; cases ha; exact ⟨b, rfl, h⟩
  | cons r rs ih =>
    intro a b a' h ha
    obtain ⟨p, pl⟩ := r
    simp only [appendAll] at ha ⊢
    cases h1 : a.appendRecord f p pl with
    | none => rw [h1] at ha; cases ha
    | some a1 =>
      rw [h1] at ha
      obtain ⟨b1, hb1, he1⟩ := abs_appendRecord (f' := f') h h1
      rw [hb1]
      exact ih he1 ha

theorem abs_truncateHead {a b : MemQueue} (h : a.abs = b.abs) (ha : QInv a) (hb : QInv b) (p : Nat) :
    (a.truncateHead p).1.abs = (b.truncateHead p).1.abs := by
  obtain ⟨a1, a2, _, _, _⟩ := MemQueue.truncateHead_spec a p ha.1 ha.2
  obtain ⟨b1, b2, _, _, _⟩ := MemQueue.truncateHead_spec b p hb.1 hb.2
  unfold MemQueue.abs
  rw [a1, a2, b1, b2, abs_next h]
  have hf : ∀ rs : List Rec, (rs.filter (fun r => decide (p < r.pos))).map (fun r => (r.pos, r.payload)) =
      (rs.map (fun r => (r.pos, r.payload))).filter (fun x => decide (p < x.1)) := by
    intro rs; rw [List.filter_map]; rfl
  rw [hf, hf, abs_recs h]

theorem replayEntry_abs {a b a' : MemQueues} {f f' : Nat} {e : Entry} (h : AbsEq a b)
    (ha : QsWF a) (hb : QsWF b) (hr : replayEntry a f e = some a') :
    ∃ b', replayEntry b f' e = some b' ∧ AbsEq a' b' := by
  cases e with
  | touch q p =>
    simp only [replayEntry, Option.some.injEq] at hr ⊢; subst hr
    exact ⟨_, rfl, h.ackPosition q p⟩
  | delete q p =>
    simp only [replayEntry, Option.some.injEq] at hr ⊢; subst hr
    exact ⟨_, rfl, h.remove q⟩
  | truncate q p =>
    simp only [replayEntry] at hr ⊢
    cases hg : a.get? q with
    | none =>
      rw [hg] at hr; cases hr
      rw [h.get_none hg]
      exact ⟨_, rfl, h⟩
    | some x =>
      rw [hg] at hr; cases hr
      obtain ⟨y, hy, hxy⟩ := h.get_some hg
      rw [hy]
      exact ⟨_, rfl, h.set q (abs_truncateHead hxy (ha q x hg) (hb q y hy) p)⟩
  | append q pos recs =>
    simp only [replayEntry] at hr ⊢
    have h1 : AbsEq (if a.contains q then a else a.ackPosition q pos)
        (if b.contains q then b else b.ackPosition q pos) := by
      rw [← h.contains q]
      split
      · exact h
      · exact h.ackPosition q pos
    cases hg : (if a.contains q then a else a.ackPosition q pos).get? q with
    | none => rw [hg] at hr; cases hr
    | some x =>
      simp only [hg] at hr
      cases hx : appendAll x f recs with
      | none => rw [hx] at hr; cases hr
      | some x' =>
        rw [hx] at hr; cases hr
        obtain ⟨y, hy, hxy⟩ := h1.get_some hg
        obtain ⟨y', hy', hxy'⟩ := abs_appendAll f f' recs hxy hx
        simp only [hy, hy', Option.map_some]
        exact ⟨_, rfl, h1.set q hxy'⟩

/-- the reader's replay (whatever its attributions) against the journal's -/
theorem replay_abs (F : Nat) : ∀ (segs : List Seg) (a : Nat) (q1 q2 r2 : MemQueues),
    (∀ s ∈ segs, C07.WF s.1.e ∧ F ≤ s.1.loc) → AbsEq q2 q1 → QsWF q1 → QsWF q2 →
    replayJ F q2 (segs.map (·.1)) = some r2 →
    ∃ r1, replay q1 (readerOut a segs) = some r1 ∧ AbsEq r2 r1 := by
  intro segs
  induction segs with
  | nil => intro a q1 q2 r2 _ h _ _ hr; cases hr; exact ⟨q1, rfl, h⟩
  | cons s segs ih =>
    intro a q1 q2 r2 hw h hw1 hw2 hr
    obtain ⟨h1, h2⟩ := hw s List.mem_cons_self
    have hn : ¬ s.1.loc < F := by omega
    simp only [List.map_cons, replayJ, hn, if_false] at hr
    cases he : replayEntry q2 (max s.1.attr F) s.1.e with
    | none => rw [he] at hr; cases hr
    | some q2' =>
      rw [he] at hr
      simp only [Option.bind_some] at hr
      obtain ⟨q1', hq1', heq'⟩ := replayEntry_abs (f' := a) h hw2 hw1 he
      obtain ⟨r1, hr1, hfin⟩ := ih (lastTag s.2 0) q1' q2' r2
        (fun s' hs' => hw s' (List.mem_cons_of_mem _ hs')) heq' (replayEntry_wf hw1 hq1')
        (replayEntry_wf hw2 he) hr
      refine ⟨r1, ?_, hfin⟩
      simp only [readerOut, replay, C07.decode_encode _ h1, hq1', Option.bind_some]
      exact hr1

end MRL.H
