/-
Operation boundaries are effect boundaries, for the power-loss state with pending unlinks
(`prunD`, MRL/Model/PowerLossDir.lean): `P.op_boundaryP` once more. Operations that are neither an
`fsync` nor an `unlink` only change the volatile image, so the buffer lemmas lift; an `unlink`,
like an `fsync`, is issued with an empty `BufWriter` and is its own operation.
-/
import MRL.Model.PowerLossDir
import MRL.Proofs.PBuf

namespace MRL.PD
open MRL Buf H L P

def isUnl : Effect → Bool
  | .unlink _ => true
  | _ => false

/-- neither an `fsync` nor an `unlink` -/
def Quiet (ops : List OsOp) : Prop := ∀ o ∈ ops, o ≠ OsOp.sync ∧ ∀ f, o ≠ OsOp.unlink f

theorem Quiet.noSync {ops : List OsOp} (h : Quiet ops) : NoSync ops := fun o ho => (h o ho).1

theorem quiet_take {ops : List OsOp} (h : Quiet ops) (k : Nat) : Quiet (ops.take k) :=
  fun o ho => h o (List.mem_of_mem_take ho)

theorem prunD_append (d : DState) (a b : List OsOpP) : prunD d (a ++ b) = prunD (prunD d a) b := by
  simp [prunD, List.foldl_append]

theorem pstepD_s (d : DState) (op : OsOpP) : (pstepD d op).s = pstep d.s op := by
  cases op with
  | unlink f =>
    simp only [pstepD]
    split
    · split <;> rfl
    · rfl
  | syncDir => rfl
  | syncFile f => rfl
  | write f off data => rfl
  | create f => rfl
  | setLen f n => rfl
  | ensureLen f n => rfl

theorem prunD_s (ops : List OsOpP) : ∀ d : DState, (prunD d ops).s = prun d.s ops := by
  induction ops with
  | nil => intro d; rfl
  | cons o ops ih =>
    intro d
    simp only [prunD, prun, List.foldl_cons]
    have := ih (pstepD d o)
    simp only [prunD, prun] at this
    rw [this, pstepD_s]

theorem dstate_eta (d : DState) : ({ d with s := d.s } : DState) = d := by cases d; rfl

/-- quiet operations only change the volatile image -/
theorem prunD_quiet (ops : List OsOp) (h : Quiet ops) : ∀ d : DState,
    prunD d (ops.map OsOpP.lift) = { d with s := prun d.s (ops.map OsOpP.lift) } := by
  induction ops with
  | nil => intro d; exact (dstate_eta d).symm
  | cons o ops ih =>
    intro d
    obtain ⟨h1, h2⟩ := h o List.mem_cons_self
    have hs : pstepD d (OsOpP.lift o) = { d with s := pstep d.s (OsOpP.lift o) } := by
      cases o with
      | sync => exact absurd rfl h1
      | unlink f => exact absurd rfl (h2 f)
      | write f off data => rfl
      | create f => rfl
      | setLen f n => rfl
      | ensureLen f n => rfl
    simp only [List.map_cons, prunD, prun, List.foldl_cons, hs]
    have := ih (fun o' ho' => h o' (List.mem_cons_of_mem _ ho')) { d with s := pstep d.s (OsOpP.lift o) }
    simp only [prunD, prun] at this
    rw [this]

theorem flushOps_quiet (b : BufSt) : Quiet b.flushOps := by
  intro o ho
  unfold BufSt.flushOps at ho
  split at ho
  · cases ho
  · simp only [List.mem_singleton] at ho; rw [ho]
    exact ⟨(fun h => by cases h), (fun f h => by cases h)⟩

theorem bufStep_quiet (cap : Nat) (b : BufSt) (e : Effect) (he : isSyncE e = false) (hu : isUnl e = false) :
    Quiet (bufStep cap b e).2 := by
  intro o ho
  have hw : ∀ f off d, o = OsOp.write f off d → o ≠ OsOp.sync ∧ ∀ f', o ≠ OsOp.unlink f' := by
    intro f off d h; rw [h]; exact ⟨(fun h => by cases h), (fun f h => by cases h)⟩
  cases e with
  | write f off data =>
    rw [bufStep_write] at ho
    have hf := flushOps_quiet b
    split at ho
    · cases ho
    · split at ho
      · split at ho
        · rcases List.mem_append.mp ho with h | h
          · exact hf o h
          · simp only [List.mem_singleton] at h; exact hw _ _ _ h
        · exact hf o ho
      · split at ho
        · simp only [List.mem_singleton] at ho; exact hw _ _ _ ho
        · cases ho
  | flush => exact flushOps_quiet b o ho
  | fsyncFile f => cases he
  | fsyncDir => cases he
  | listDir => cases ho
  | openFile f => cases ho
  | readBlock f => cases ho
  | create f =>
    simp only [bufStep, List.mem_singleton] at ho; rw [ho]
    exact ⟨(fun h => by cases h), (fun f h => by cases h)⟩
  | setLen f n =>
    simp only [bufStep, List.mem_singleton] at ho; rw [ho]
    exact ⟨(fun h => by cases h), (fun f h => by cases h)⟩
  | ensureLen f n =>
    simp only [bufStep, List.mem_singleton] at ho; rw [ho]
    exact ⟨(fun h => by cases h), (fun f h => by cases h)⟩
  | unlink f => cases hu

theorem direct_quiet (e : Effect) (he : isSyncE e = false) (hu : isUnl e = false) : Quiet (direct e) := by
  intro o ho
  cases e with
  | fsyncFile f => cases he
  | fsyncDir => cases he
  | unlink f => cases hu
  | write f off d =>
    simp only [direct, List.mem_singleton] at ho; rw [ho]; exact ⟨(fun h => by cases h), (fun f h => by cases h)⟩
  | create f =>
    simp only [direct, List.mem_singleton] at ho; rw [ho]; exact ⟨(fun h => by cases h), (fun f h => by cases h)⟩
  | setLen f n =>
    simp only [direct, List.mem_singleton] at ho; rw [ho]; exact ⟨(fun h => by cases h), (fun f h => by cases h)⟩
  | ensureLen f n =>
    simp only [direct, List.mem_singleton] at ho; rw [ho]; exact ⟨(fun h => by cases h), (fun f h => by cases h)⟩
  | flush => cases ho
  | listDir => cases ho
  | openFile f => cases ho
  | readBlock f => cases ho

/-- an `fsync` or an `unlink` is issued with an empty buffer and is its own operation -/
theorem single_op (cap : Nat) (b : BufSt) (st st1 : St) (e : Effect) (hinv : Inv cap b st)
    (hr : run1S st e = some st1) (h : isSyncE e = true ∨ isUnl e = true) :
    b.pend = [] ∧ (bufStepP cap b e).1 = b ∧ (bufStepP cap b e).2 = directP e ∧ (directP e).length = 1 := by
  have hst : st = none := by
    rcases h with h | h
    · unfold run1S at hr
      rw [if_pos h] at hr
      split at hr
      · assumption
      · cases hr
    · cases e with
      | unlink f =>
        have := run1S_run1 hr
        simp only [run1] at this
        split at this
        · assumption
        · cases this
      | _ => cases h
  have hp : b.pend = [] := by
    rcases hinv.1 with h1 | h1
    · exact h1
    · rw [hst] at h1; cases h1
  refine ⟨hp, ?_⟩
  rcases h with h | h
  · cases e <;> first | exact ⟨rfl, rfl, rfl⟩ | cases h
  · cases e <;> first | exact ⟨rfl, rfl, rfl⟩ | cases h

theorem bufStepD_prefix (cap : Nat) (b : BufSt) (st st1 : St) (e : Effect) (hinv : Inv cap b st)
    (hr : run1S st e = some st1) (S : DState) (k : Nat) (hk : k < (bufStepP cap b e).2.length) :
    prunD S ((bufStepP cap b e).2.take k) = S ∨
    prunD S ((bufStepP cap b e).2.take k) = prunD S (b.flushOps.map OsOpP.lift) := by
  by_cases hq : isSyncE e = true ∨ isUnl e = true
  · left
    obtain ⟨_, _, h2, h3⟩ := single_op cap b st st1 e hinv hr hq
    rw [h2, h3] at hk
    have : k = 0 := by omega
    subst this; rfl
  · have he' : isSyncE e = false := by
      cases h : isSyncE e with
      | false => rfl
      | true => exact absurd (Or.inl h) hq
    have hu' : isUnl e = false := by
      cases h : isUnl e with
      | false => rfl
      | true => exact absurd (Or.inr h) hq
    have hP := bufStepP_prefix cap b e S.s k hk
    rw [bufStepP_nonsync cap b e he'] at hk hP ⊢
    simp only [List.length_map] at hk
    simp only at hP ⊢
    rw [← List.map_take] at hP ⊢
    rw [prunD_quiet _ (quiet_take (bufStep_quiet cap b e he' hu') k), prunD_quiet _ (flushOps_quiet b)]
    rcases hP with h | h
    · left; rw [h]
    · right; rw [h]

theorem bufStepD_all (cap : Nat) (b : BufSt) (st st1 : St) (e : Effect) (hinv : Inv cap b st)
    (hr : run1S st e = some st1) (S : DState) :
    prunD S (bufStepP cap b e).2 = S ∨
    prunD S (bufStepP cap b e).2 = prunD S (b.flushOps.map OsOpP.lift) ∨
    prunD S (bufStepP cap b e).2 = prunD (prunD S (b.flushOps.map OsOpP.lift)) (directP e) := by
  by_cases hq : isSyncE e = true ∨ isUnl e = true
  · right; right
    obtain ⟨hp, _, h2, _⟩ := single_op cap b st st1 e hinv hr hq
    rw [h2, flushOps_nil b hp]; rfl
  · have he' : isSyncE e = false := by
      cases h : isSyncE e with
      | false => rfl
      | true => exact absurd (Or.inl h) hq
    have hu' : isUnl e = false := by
      cases h : isUnl e with
      | false => rfl
      | true => exact absurd (Or.inr h) hq
    have hP := bufStepP_all cap b st st1 e hinv hr S.s
    rw [bufStepP_nonsync cap b e he', directP_nonsync e he'] at hP ⊢
    simp only at hP ⊢
    rw [prunD_quiet _ (bufStep_quiet cap b e he' hu'), prunD_quiet _ (flushOps_quiet b),
      prunD_quiet _ (direct_quiet e he' hu')]
    rcases hP with h | h | h
    · left; rw [h]
    · right; left; rw [h]
    · right; right; rw [h]

theorem bufStepD_ok (cap : Nat) (b : BufSt) (st st1 : St) (e : Effect) (hinv : Inv cap b st)
    (hr : run1S st e = some st1) :
    Inv cap (bufStepP cap b e).1 st1 ∧
    ∀ S : DState, prunD (prunD S (bufStepP cap b e).2) ((bufStepP cap b e).1.flushOps.map OsOpP.lift) =
      prunD (prunD S (b.flushOps.map OsOpP.lift)) (directP e) := by
  obtain ⟨h1, h2⟩ := bufStepP_ok cap b st st1 e hinv hr
  refine ⟨h1, fun S => ?_⟩
  by_cases hq : isSyncE e = true ∨ isUnl e = true
  · obtain ⟨hp, hb, h3, _⟩ := single_op cap b st st1 e hinv hr hq
    rw [hb, h3, flushOps_nil b hp]; rfl
  · have he' : isSyncE e = false := by
      cases h : isSyncE e with
      | false => rfl
      | true => exact absurd (Or.inl h) hq
    have hu' : isUnl e = false := by
      cases h : isUnl e with
      | false => rfl
      | true => exact absurd (Or.inr h) hq
    have hP := h2 S.s
    rw [bufStepP_nonsync cap b e he', directP_nonsync e he'] at hP ⊢
    simp only at hP ⊢
    rw [prunD_quiet _ (bufStep_quiet cap b e he' hu'), prunD_quiet _ (flushOps_quiet _),
      prunD_quiet _ (flushOps_quiet b), prunD_quiet _ (direct_quiet e he' hu')]
    simp only
    rw [hP]

/-- **operation boundaries are effect boundaries**, for the power-loss state with pending unlinks -/
theorem op_boundaryD (cap : Nat) (es : List Effect) : ∀ (b : BufSt) (st st' : St) (S : DState),
    Inv cap b st → runS st es = some st' → ∀ k,
    ∃ n, prunD S ((toOsOpsP cap b es).2.take k) = prunD S (directOpsP ((pendW b ++ es).take n)) := by
  induction es with
  | nil =>
    intro b st st' S _ _ k
    exact ⟨0, by simp [toOsOpsP, prunD, directOpsP]⟩
  | cons e es ih =>
    intro b st st' S hinv hr k
    simp only [runS] at hr
    cases h1 : run1S st e with
    | none => rw [h1] at hr; cases hr
    | some st1 =>
      rw [h1] at hr
      simp only [Option.bind_some] at hr
      obtain ⟨hinv1, hok⟩ := bufStepD_ok cap b st st1 e hinv h1
      rw [toOsOpsP_cons]
      simp only
      have hb0 : S = prunD S (directOpsP ((pendW b ++ e :: es).take 0)) := by
        simp [directOpsP, prunD]
      have hb1 : prunD S (b.flushOps.map OsOpP.lift) =
          prunD S (directOpsP ((pendW b ++ e :: es).take (pendW b).length)) := by
        rw [List.take_left' rfl, pendW_lift]
      have htk : ∀ m, (pendW b ++ e :: es).take ((pendW b).length + 1 + m) = pendW b ++ ([e] ++ es.take m) := by
        intro m
        rw [List.take_append, List.take_of_length_le (by omega)]
        have : (pendW b).length + 1 + m - (pendW b).length = m + 1 := by omega
        rw [this, List.take_succ_cons]
        rfl
      have hb2 : ∀ m, prunD (prunD (prunD S (b.flushOps.map OsOpP.lift)) (directP e)) (directOpsP (es.take m)) =
          prunD S (directOpsP ((pendW b ++ e :: es).take ((pendW b).length + 1 + m))) := by
        intro m
        rw [htk, directOpsP_append, directOpsP_append, prunD_append, prunD_append, pendW_lift]
        simp [directOpsP]
      by_cases hk : k < (bufStepP cap b e).2.length
      · rw [List.take_append_of_le_length (Nat.le_of_lt hk)]
        rcases bufStepD_prefix cap b st st1 e hinv h1 S k hk with h | h
        · exact ⟨0, by rw [h]; exact hb0⟩
        · exact ⟨(pendW b).length, by rw [h]; exact hb1⟩
      · have hge : (bufStepP cap b e).2.length ≤ k := by omega
        rw [List.take_append, List.take_of_length_le hge, prunD_append]
        obtain ⟨n', hn'⟩ := ih (bufStepP cap b e).1 st1 st' (prunD S (bufStepP cap b e).2) hinv1 hr
          (k - (bufStepP cap b e).2.length)
        rw [hn']
        cases n' with
        | zero =>
          show ∃ n, prunD S (bufStepP cap b e).2 = prunD S (directOpsP ((pendW b ++ e :: es).take n))
          rcases bufStepD_all cap b st st1 e hinv h1 S with h | h | h
          · exact ⟨0, by rw [h]; exact hb0⟩
          · exact ⟨(pendW b).length, by rw [h]; exact hb1⟩
          · refine ⟨(pendW b).length + 1 + 0, ?_⟩
            rw [h, ← hb2 0]
            simp [directOpsP, prunD]
        | succ m =>
          by_cases hp1 : (bufStepP cap b e).1.pend = []
          · refine ⟨(pendW b).length + 1 + (m + 1), ?_⟩
            rw [pendW_nil _ hp1, List.nil_append, ← hb2 (m + 1)]
            have := hok S
            rw [flushOps_nil _ hp1] at this
            have hs : prunD S (bufStepP cap b e).2 = prunD (prunD S (b.flushOps.map OsOpP.lift)) (directP e) := this
            rw [hs]
          · refine ⟨(pendW b).length + 1 + m, ?_⟩
            rw [pendW_ne _ hp1, List.cons_append, List.take_succ_cons, directOpsP_cons, prunD_append,
              ← hb2 m]
            have := hok S
            rw [flushOps_ne _ hp1] at this
            have hd : directP (Effect.write (bufStepP cap b e).1.file (bufStepP cap b e).1.off (bufStepP cap b e).1.pend) =
                [OsOpP.lift (OsOp.write (bufStepP cap b e).1.file (bufStepP cap b e).1.off (bufStepP cap b e).1.pend)] := rfl
            rw [hd]
            have hm : [OsOp.write (bufStepP cap b e).1.file (bufStepP cap b e).1.off (bufStepP cap b e).1.pend].map OsOpP.lift =
                [OsOpP.lift (OsOp.write (bufStepP cap b e).1.file (bufStepP cap b e).1.off (bufStepP cap b e).1.pend)] := rfl
            rw [hm] at this
            rw [this, List.nil_append]


end MRL.PD
