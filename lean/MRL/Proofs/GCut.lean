/-
Cutting a layout at a file boundary: the stream left after deleting whole files is again the
layout (from cursor 0) of a suffix of the frames; positions shift by the bytes deleted.
-/
import MRL.Proofs.GInv

namespace MRL.G
open MRL Codec Consts

/-! ### shifting positions by a multiple of the block size -/

theorem hdrPos_shift (g : Geom) (p m : Nat) (hm : m % g.B = 0) : hdrPos g (p + m) = hdrPos g p + m := by
  have e : (p + m) % g.B = p % g.B := by rw [Nat.add_mod, hm, Nat.add_zero, Nat.mod_mod]
  unfold hdrPos
  rw [e]
  split <;> omega

theorem nextPos_shift (g : Geom) (p m len : Nat) (hm : m % g.B = 0) :
    nextPos g (p + m) len = nextPos g p len + m := by
  unfold nextPos; rw [hdrPos_shift g p m hm]; omega

theorem endPos_shift (g : Geom) (m : Nat) (hm : m % g.B = 0) (fs : List Frm) : ∀ p,
    endPos g (p + m) fs = endPos g p fs + m := by
  induction fs with
  | nil => intro p; rfl
  | cons fr fs ih => intro p; simp only [endPos, nextPos_shift g p m _ hm, ih]

theorem mul_fileBytes_mod (g : Geom) (k : Nat) : (k * g.fileBytes) % g.B = 0 := by
  unfold Geom.fileBytes
  rw [Nat.mul_comm g.B g.K, ← Nat.mul_assoc, Nat.mul_mod_left]

theorem Tagged_shift (g : Geom) (F k : Nat) (fs : List TFrm) : ∀ p,
    Tagged g F (p + k * g.fileBytes) fs ↔ Tagged g (F + k) p fs := by
  have hm := mul_fileBytes_mod g k
  induction fs with
  | nil => intro p; exact Iff.rfl
  | cons a fs ih =>
    intro p
    simp only [Tagged, hdrPos_shift g p _ hm, nextPos_shift g p _ _ hm, ih,
      Nat.add_mul_div_right _ _ (fileBytes_pos g)]
    constructor
    · rintro ⟨h1, h2⟩; exact ⟨by omega, h2⟩
    · rintro ⟨h1, h2⟩; exact ⟨by omega, h2⟩

/-! ### where the frames are -/

theorem tag_pos (g : Geom) (F : Nat) (fs : List TFrm) : ∀ p, Tagged g F p fs → ∀ a ∈ fs,
    ∃ h, p ≤ h ∧ h + 7 ≤ endPos g p (untag fs) ∧ a.1 = F + h / g.fileBytes := by
  induction fs with
  | nil => intro p _ a ha; cases ha
  | cons x fs ih =>
    intro p ht a ha
    have hle := le_endPos g (untag fs) (nextPos g p x.2.2.length)
    rcases List.mem_cons.mp ha with rfl | ha
    · refine ⟨hdrPos g p, le_hdrPos g p, ?_, ht.1⟩
      simp only [untag, List.map_cons, endPos] at hle ⊢
      unfold nextPos at hle ⊢
      omega
    · obtain ⟨h, h1, h2, h3⟩ := ih _ ht.2 a ha
      refine ⟨h, ?_, ?_, h3⟩
      · have := le_hdrPos g p; unfold nextPos at h1; omega
      · simpa [untag, endPos] using h2

theorem tags_mono (g : Geom) (F : Nat) (fs : List TFrm) : ∀ p, Tagged g F p fs →
    fs.Pairwise (fun a b => a.1 ≤ b.1) := by
  induction fs with
  | nil => intro p _; exact List.Pairwise.nil
  | cons x fs ih =>
    intro p ht
    refine List.Pairwise.cons ?_ (ih _ ht.2)
    intro b hb
    obtain ⟨h, h1, _, h3⟩ := tag_pos g F fs _ ht.2 b hb
    rw [ht.1, h3]
    have : hdrPos g p ≤ h := by unfold nextPos at h1; omega
    exact Nat.add_le_add_left (Nat.div_le_div_right this) F

/-! ### the cut -/

theorem block_le {B h m : Nat} (hB : 0 < B) (hm : m % B = 0) (hlt : h < m) : (h / B + 1) * B ≤ m := by
  have hd := Nat.div_add_mod m B
  rw [hm, Nat.add_zero] at hd
  have : h / B < m / B := by
    rw [Nat.div_lt_iff_lt_mul hB, Nat.mul_comm]; omega
  have := Nat.mul_le_mul_right B this
  rw [Nat.mul_comm (m / B) B, hd] at this
  exact this

theorem hdrPos_le_block (g : Geom) (p m : Nat) (hm : m % g.B = 0) (hlt : p < m) : hdrPos g p ≤ m := by
  have hB : 0 < g.B := by have := Bpos g; omega
  have h1 := block_le hB hm hlt
  have hd := Nat.div_add_mod p g.B
  rw [Nat.add_mul, Nat.one_mul, Nat.mul_comm] at h1
  have hmod : p % g.B < g.B := Nat.mod_lt _ hB
  unfold hdrPos
  split <;> omega

theorem layout_cut (g : Geom) (F k : Nat) (fs : List TFrm) : ∀ p, p ≤ k * g.fileBytes →
    k * g.fileBytes ≤ endPos g p (untag fs) → Fits g (p % g.B) (untag fs) → Tagged g F p fs →
    ∃ fa fb, fs = fa ++ fb ∧
      ((layoutBufs g (p % g.B) (untag fs)).flatten).drop (k * g.fileBytes - p) =
        (layoutBufs g 0 (untag fb)).flatten ∧
      Fits g 0 (untag fb) ∧ Tagged g F (k * g.fileBytes) fb ∧
      endPos g (k * g.fileBytes) (untag fb) = endPos g p (untag fs) ∧ (∀ a ∈ fa, a.1 < F + k) := by
  have hB : 0 < g.B := by have := Bpos g; omega
  have hm := mul_fileBytes_mod g k
  induction fs with
  | nil =>
    intro p h1 h2 _ _
    simp only [untag, List.map_nil, endPos] at h2
    have : p = k * g.fileBytes := by omega
    subst this
    exact ⟨[], [], rfl, by simp [untag, layoutBufs], trivial, trivial, rfl, fun _ h => by cases h⟩
  | cons x fs ih =>
    intro p h1 h2 hf ht
    by_cases hpm : k * g.fileBytes ≤ p
    · have hp : p = k * g.fileBytes := by omega
      subst hp
      refine ⟨[], x :: fs, rfl, ?_, ?_, ht, rfl, fun _ h => by cases h⟩
      · rw [Nat.sub_self, List.drop_zero, hm]
      · rw [hm] at hf; exact hf
    · have hlt : p < k * g.fileBytes := by omega
      have hhdr := hdrPos_le_block g p _ hm hlt
      by_cases hh : hdrPos g p = k * g.fileBytes
      · -- the cut falls between the padding and the frame
        refine ⟨[], x :: fs, rfl, ?_, ?_, ?_, ?_, fun _ h => by cases h⟩
        · rw [layout_hdrPos g p _ (by simp [untag]), hh, hm, List.drop_left' (length_zeros _)]
        · have := hf
          simp only [untag, List.map_cons] at this ⊢
          rw [Fits_pos_cons] at this
          have h0 : Fits g (hdrPos g p % g.B) (x.2 :: List.map (fun a : TFrm => a.2) fs) := by
            rw [Fits_pos_cons, nextPos_hdrPos]
            refine ⟨?_, this.2⟩
            have hroom := maxFrameLen_pos g p _ this.1
            have hr := hdrPos_room g p
            unfold maxFrameLen
            simp only [HEADER_LEN]
            rw [if_pos (by omega)]
            omega
          rw [hh, hm] at h0; exact h0
        · rw [← hh, Tagged_hdrPos g F p _ (by simp)]; exact ht
        · rw [← hh, endPos_hdrPos g p _ (by simp [untag])]
      · have hhlt : hdrPos g p < k * g.fileBytes := by omega
        simp only [untag, List.map_cons] at hf h2 ⊢
        rw [Fits_pos_cons] at hf
        have hroom := maxFrameLen_pos g p _ hf.1
        have hq : nextPos g p x.2.2.length ≤ k * g.fileBytes := by
          have hb := block_le hB hm hhlt
          have hd := Nat.div_add_mod (hdrPos g p) g.B
          rw [Nat.add_mul, Nat.one_mul, Nat.mul_comm] at hb
          unfold nextPos; omega
        obtain ⟨fa, fb, e1, e2, e3, e4, e5, e6⟩ := ih _ hq h2 hf.2 ht.2
        refine ⟨x :: fa, fb, by rw [e1]; rfl, ?_, e3, e4, ?_, ?_⟩
        · rw [layoutBufs_pos_cons g p x.2 _ hf.1, List.flatten_append]
          have hl : (frameWrites g (p % g.B) x.2.1 x.2.2).flatten.length = nextPos g p x.2.2.length - p := by
            have := totalLen_frameWrites g p x.2.1 x.2.2
            rw [← totalLen_eq]; omega
          have hsub : k * g.fileBytes - p =
              (frameWrites g (p % g.B) x.2.1 x.2.2).flatten.length + (k * g.fileBytes - nextPos g p x.2.2.length) := by
            have := le_hdrPos g p
            rw [hl]; unfold nextPos at hq ⊢; omega
          rw [hsub, ← List.drop_drop, List.drop_left' rfl]
          exact e2
        · exact e5
        · intro a ha
          rcases List.mem_cons.mp ha with rfl | ha
          · rw [ht.1]
            have : hdrPos g p / g.fileBytes < k := by
              rw [Nat.div_lt_iff_lt_mul (fileBytes_pos g)]; exact hhlt
            omega
          · exact e6 a ha

end MRL.G
