/-
C08 (genuineness): `locs` are where the frames are in the clean stream; a computable form of the
acceptance test and a finite check of `NoAcc` (for examples); decoding a sub-sequence of encoded
entries.
-/
import MRL.Proofs.GenRead
import MRL.Proofs.CodecEntry
import MRL.Proofs.RecReplay

namespace MRL.Gen
open MRL Consts Codec Torn

theorem hdrPos_eq_pad (g : Geom) (P : Nat) : G.hdrPos g P = P + padLen g (P % g.B) := by
  unfold G.hdrPos padLen; simp only [HEADER_LEN]; split <;> rfl

/-- in a stream `pre ++ layout ++ tail` with the layout written from position `pre.length`, the
    frame located at `q` by `locs` is there: `encodeFrame t p` starts at offset `q` -/
theorem locs_in_stream (g : Geom) (fs : List Frm) : ∀ (P : Nat) (pre tail : Bytes), pre.length = P →
    Fits g (P % g.B) fs → ∀ x ∈ locs g P fs,
      ((pre ++ (layoutBufs g (P % g.B) fs).flatten ++ tail).drop x.1).take (7 + x.2.2.length) =
        encodeFrame x.2.1 x.2.2 := by
  induction fs with
  | nil => intro P pre tail _ _ x hx; cases hx
  | cons fr fs ih =>
    intro P pre tail hpre hF x hx
    obtain ⟨t, p⟩ := fr
    rw [G.Fits_pos_cons] at hF
    rw [G.layoutBufs_pos_cons g P (t, p) fs hF.1, List.flatten_append, frameWrites_flatten]
    simp only [locs, List.mem_cons] at hx
    have hshape : pre ++ (zeros (padLen g (P % g.B)) ++ encodeFrame t p ++
          (layoutBufs g (G.nextPos g P p.length % g.B) fs).flatten) ++ tail =
        (pre ++ zeros (padLen g (P % g.B)) ++ encodeFrame t p) ++
          (layoutBufs g (G.nextPos g P p.length % g.B) fs).flatten ++ tail := by
      simp only [List.append_assoc]
    rcases hx with rfl | hx
    · simp only
      have : pre ++ (zeros (padLen g (P % g.B)) ++ encodeFrame t p ++
          (layoutBufs g (G.nextPos g P p.length % g.B) fs).flatten) ++ tail =
          (pre ++ zeros (padLen g (P % g.B))) ++ (encodeFrame t p ++
            ((layoutBufs g (G.nextPos g P p.length % g.B) fs).flatten ++ tail)) := by
        simp only [List.append_assoc]
      rw [this, List.drop_left' (by simp [hpre, hdrPos_eq_pad]), List.take_left' (by simp [length_encodeFrame])]
    · rw [hshape]
      exact ih (G.nextPos g P p.length) _ tail
        (by simp [G.nextPos, hdrPos_eq_pad, length_encodeFrame, hpre]; omega) hF.2 x hx

/-! ### a computable acceptance test, for concrete checks -/

/-- what the reader accepts at cursor `x` of block `k`, if anything -/
def acceptB (g : Geom) (S : Bytes) (k x : Nat) : Option (FrameType × Bytes) :=
  let r := ((S.drop (k * g.B)).take g.B).drop x
  let hdr := r.take 7
  if 7 ≤ g.B - x ∧ isAllZero hdr = false then
    match FrameType.ofCode (hdr.getD 6 0).toNat with
    | none => none
    | some t =>
      let len := leNat ((hdr.drop 4).take 2)
      let p := (r.drop 7).take len
      if x + 7 + len ≤ g.B ∧ frameCrc t p = leNat (hdr.take 4) then some (t, p) else none
  else none

theorem accepts_acceptB (g : Geom) (S : Bytes) (k x : Nat) (t : FrameType) (p : Bytes)
    (h : Accepts g S k x t p) : acceptB g S k x = some (t, p) := by
  obtain ⟨h1, h2, h3, h4, h5, h6⟩ := h
  unfold acceptB
  simp only [h1, h2, and_self, if_true, h3]
  rw [← h5]
  simp [h4, h6]

/-- finite check of `NoAcc`: all blocks `k < N`, all cursors `x < g.B - 6` -/
def checkAll (g : Geom) (LL : List (Nat × Frm)) (S : Bytes) (N : Nat) : Bool :=
  (List.range N).all fun k => (List.range (g.B - 6)).all fun x =>
    match acceptB g S k x with
    | some tp => decide ((k * g.B + x, tp) ∈ LL)
    | none => true

theorem noAcc_of_check (g : Geom) (LL : List (Nat × Frm)) (S : Bytes) (N : Nat) (hlen : S.length ≤ N * g.B)
    (h : checkAll g LL S N = true) : NoAcc g LL S := by
  intro k x t p hacc
  have hB := g.hB
  simp only [HEADER_LEN] at hB
  have hacc' := accepts_acceptB g S k x t p hacc
  have hx : x < g.B - 6 := by have := hacc.1; omega
  have hk : k < N := by
    rcases Nat.lt_or_ge k N with h1 | h1
    · exact h1
    · exfalso
      have hz := hacc.2.1
      have hle : N * g.B ≤ k * g.B := Nat.mul_le_mul_right _ h1
      have : S.drop (k * g.B) = [] := List.drop_of_length_le (by omega)
      rw [this] at hz
      simp [isAllZero] at hz
  unfold checkAll at h
  rw [List.all_eq_true] at h
  have h1 := h k (List.mem_range.mpr hk)
  rw [List.all_eq_true] at h1
  have h2 := h1 x (List.mem_range.mpr hx)
  rw [hacc'] at h2
  simpa using h2

/-! ### decoding a sub-sequence of encoded entries -/

theorem entriesOf_sublist (l : List RecEv) : List.Sublist (entriesOf l) l := List.filter_sublist

theorem decoded_entriesOf (l : List RecEv) : Rec.decoded (entriesOf l) = Rec.decoded l := by
  induction l with
  | nil => rfl
  | cons ev l ih =>
    cases ev with
    | corrupt => simp [entriesOf, Rec.decoded] at ih ⊢; exact ih
    | entry a b =>
      have : entriesOf (RecEv.entry a b :: l) = RecEv.entry a b :: entriesOf l := rfl
      rw [this]
      simp only [Rec.decoded, ih]

theorem decoded_encoded (file : Nat) (l : List Entry) (hwf : ∀ e ∈ l, Entry.decode e.encode = some e) :
    Rec.decoded (l.map fun e => RecEv.entry file e.encode) = l.map fun e => (file, e) := by
  induction l with
  | nil => rfl
  | cons e l ih =>
    simp only [List.map_cons, Rec.decoded, hwf e (by simp)]
    rw [ih (fun e' he' => hwf e' (by simp [he']))]

theorem recordsOf_sublist {l' l : List (Nat × Entry)} (h : List.Sublist l' l) :
    ∀ x ∈ Rec.recordsOf l', x ∈ Rec.recordsOf l := by
  induction h with
  | slnil => intro x hx; exact hx
  | @cons l1 l2 a _ ih =>
    intro x hx
    have := ih x hx
    have hsplit : Rec.recordsOf (a :: l2) = Rec.recordsOf [a] ++ Rec.recordsOf l2 := Rec.recordsOf_append [a] l2
    rw [hsplit]; exact List.mem_append_right _ this
  | @cons_cons l1 l2 a _ ih =>
    intro x hx
    have h1 : Rec.recordsOf (a :: l1) = Rec.recordsOf [a] ++ Rec.recordsOf l1 := Rec.recordsOf_append [a] l1
    have h2 : Rec.recordsOf (a :: l2) = Rec.recordsOf [a] ++ Rec.recordsOf l2 := Rec.recordsOf_append [a] l2
    rw [h1] at hx; rw [h2]
    rcases List.mem_append.mp hx with h | h
    · exact List.mem_append_left _ h
    · exact List.mem_append_right _ (ih x h)

end MRL.Gen
