/-
Unfolding equations for the write path of the log model (`writeBuf` … `step`) in projection form,
shared by the property files C14, C15, C17.
-/
import MRL.Model.Log

namespace MRL.Step
open MRL MRL.Log

variable (g : Geom) (l : Log)

theorem writeBufs_nil : writeBufs g l [] = (l, []) := rfl

theorem writeBufs_cons (b : Bytes) (bs : List Bytes) :
    writeBufs g l (b :: bs) =
      ((writeBufs g (writeBuf g l b).1 bs).1, (writeBuf g l b).2 ++ (writeBufs g (writeBuf g l b).1 bs).2) := rfl

/-- the buffers `Log.writeEntry` hands to the rolling writer -/
def entryBufs (e : Entry) : List Bytes :=
  MRL.writeEntry g (l.off % g.B) e.encode (Nat.mod_lt _ (Nat.lt_trans (Nat.succ_pos _) g.hB))

theorem writeEntry_eq (e : Entry) :
    l.writeEntry g e =
      ((writeBufs g l (entryBufs g l e)).1, (writeBufs g l (entryBufs g l e)).2, totalLen (entryBufs g l e)) := rfl

theorem writeTouches_nil : writeTouches g l [] = (l, [], 0) := rfl

/-- the entry written for an empty queue `name` by `record_empty_queues_position` -/
def touchEntry (name : Bytes) : Entry :=
  .touch name (match l.queues.get? name with | some q => q.nextPosition | none => 0)

theorem writeTouches_cons (name : Bytes) (rest : List Bytes) :
    writeTouches g l (name :: rest) =
      ((writeTouches g (l.writeEntry g (touchEntry l name)).1 rest).1,
       (l.writeEntry g (touchEntry l name)).2.1 ++ (writeTouches g (l.writeEntry g (touchEntry l name)).1 rest).2.1,
       (l.writeEntry g (touchEntry l name)).2.2 + (writeTouches g (l.writeEntry g (touchEntry l name)).1 rest).2.2) := rfl

/-- the names visited by `run_gc_if_necessary` -/
def gcNames (order : List Bytes) : List Bytes :=
  if isPermOf order l.queues.emptyNames then order else l.queues.emptyNames

/-- `runGc` either does nothing or writes the touches, persists and unlinks -/
theorem runGc_cases (order : List Bytes) :
    runGc g l order = (l, [], 0) ∨
    runGc g l order =
      let r := writeTouches g l (gcNames l order)
      let gc := gcFiles (r.1.canDelete l.cur) r.1.files
      ({ r.1 with files := gc.1 },
       r.2.1 ++ r.1.persistEffects .flushAndFsync ++ gc.2.map Effect.unlink, r.2.2) := by
  unfold runGc
  split
  · split
    · right; rfl
    · left; rfl
  · left; rfl


/-! ### Frame lengths -/

theorem leBytes_length (n k : Nat) : (leBytes n k).length = k := by
  induction k generalizing n with
  | zero => rfl
  | succ k ih => simp [leBytes, ih]

/-- a frame is its 7-byte header plus the payload -/
theorem encodeFrame_length (t : FrameType) (p : Bytes) :
    (encodeFrame t p).length = Consts.HEADER_LEN + p.length := by
  simp only [encodeFrame, encodeHeader, List.length_append, leBytes_length, List.length_cons,
    List.length_nil, Consts.HEADER_LEN]

theorem encodeFrame_ne_nil (t : FrameType) (p : Bytes) : encodeFrame t p ≠ [] := by
  intro h
  have := encodeFrame_length t p
  rw [h] at this
  simp [Consts.HEADER_LEN] at this
  omega

/-! ### `appendAll` never fails at or after `nextPosition` -/

theorem nextPosition_appendRecord (q q' : MemQueue) (file pos : Nat) (pl : Bytes)
    (h : q.appendRecord file pos pl = some q') : q'.nextPosition = pos + 1 := by
  unfold MemQueue.appendRecord at h
  split at h
  · cases h
  · injection h with h
    subst h
    simp [MemQueue.nextPosition]

theorem appendRecord_isSome (q : MemQueue) (file pos : Nat) (pl : Bytes) (h : q.nextPosition ≤ pos) :
    ∃ q', q.appendRecord file pos pl = some q' := by
  unfold MemQueue.appendRecord
  rw [if_neg (by omega)]
  exact ⟨_, rfl⟩

theorem appendAll_isSome (file : Nat) (pls : List Bytes) :
    ∀ (q : MemQueue) (pos : Nat), q.nextPosition ≤ pos → ∃ q', appendAll q file (numberFrom pos pls) = some q' := by
  induction pls with
  | nil => intro q pos _; exact ⟨q, rfl⟩
  | cons p ps ih =>
    intro q pos h
    obtain ⟨q1, h1⟩ := appendRecord_isSome q file pos p h
    have hn := nextPosition_appendRecord q q1 file pos p h1
    obtain ⟨q2, h2⟩ := ih q1 (pos + 1) (by omega)
    refine ⟨q2, ?_⟩
    simp only [numberFrom, appendAll, h1, Option.bind_some, h2]

/-- reported `wal_bytes_written` of an outcome -/
def outBytes : Outcome → Nat
  | .created n | .deleted n | .appended _ n | .truncated _ n => n
  | _ => 0

/-- a list of `flush`/`fsync` effects of the current file: `[]` or `persistEffects a` -/
def IsSync (l : Log) (sy : List Effect) : Prop := sy = [] ∨ ∃ a, sy = l.persistEffects a

theorem policyEffects_isSync (tick : Bool) : IsSync l (l.policyEffects tick) := by
  unfold policyEffects IsSync
  split
  · exact .inr ⟨_, rfl⟩
  · split
    · exact .inr ⟨_, rfl⟩
    · exact .inl rfl
  · exact .inl rfl

/-- **Shape of one API call.** Either nothing happens (rejections, no-ops), or it is a bare
    `persist`, or: one entry is written, the queues are updated, GC possibly runs, and a list of
    sync effects follows. The outcome carries the sum of the two byte counts. -/
theorem step_shape (c : Call) (tick : Bool) (order : List Bytes) :
    (∃ out, step g l c tick order = (l, out, []) ∧ outBytes out = 0) ∨
    (∃ a, step g l c tick order = (l, .persisted, l.persistEffects a)) ∨
    (∃ (e : Entry) (qs' : MemQueues) (gc : Bool) (sy : List Effect) (out : Outcome),
      let r1 := l.writeEntry g e
      let l2 : Log := { r1.1 with queues := qs' }
      let r3 := if gc then l2.runGc g order else (l2, [], 0)
      step g l c tick order = (r3.1, out, r1.2.1 ++ r3.2.1 ++ sy) ∧
      outBytes out = r1.2.2 + r3.2.2 ∧ IsSync r3.1 sy) := by
  cases c with
  | create q =>
    by_cases hc : l.queues.contains q = true
    · left; exact ⟨.alreadyExists, by simp [step, hc], rfl⟩
    · right; right
      refine ⟨.touch q 0, (l.writeEntry g (.touch q 0)).1.queues.set q {}, false,
        (l.writeEntry g (.touch q 0)).1.persistEffects .flushAndFsync,
        .created (l.writeEntry g (.touch q 0)).2.2, ?_, ?_, ?_⟩
      · simp [step, hc]
      · rfl
      · exact .inr ⟨.flushAndFsync, rfl⟩
  | persist a => right; left; exact ⟨a, rfl⟩
  | delete q =>
    cases hq : l.queues.get? q with
    | none => left; exact ⟨.missingQueue, by simp [step, hq], rfl⟩
    | some mq =>
      right; right
      exact ⟨.delete q mq.nextPosition, (l.writeEntry g (.delete q mq.nextPosition)).1.queues.remove q, true,
        _, _, by simp only [step, hq]; rfl, rfl, .inr ⟨.flushAndFsync, rfl⟩⟩
  | truncate q p =>
    cases hq : l.queues.get? q with
    | none => left; exact ⟨.missingQueue, by simp [step, hq], rfl⟩
    | some mq =>
      right; right
      exact ⟨.truncate q p, (l.writeEntry g (.truncate q p)).1.queues.set q (mq.truncateHead p).1, true,
        _, _, by simp only [step, hq]; rfl, rfl, policyEffects_isSync _ tick⟩
  | append q pos? pls =>
    cases hq : l.queues.get? q with
    | none => left; exact ⟨.missingQueue, by simp [step, hq], rfl⟩
    | some mq =>
      have noop : step g l (.append q pos? pls) tick order = (l, .appended none 0, []) →
          ∃ out, step g l (.append q pos? pls) tick order = (l, out, []) ∧ outBytes out = 0 :=
        fun h => ⟨_, h, rfl⟩
      have main : ∀ pos : Nat, mq.nextPosition ≤ pos →
          (∀ mq', appendAll mq l.cur (numberFrom pos pls) = some mq' →
            step g l (.append q pos? pls) tick order =
              ({ (l.writeEntry g (.append q pos (numberFrom pos pls))).1 with
                  queues := (l.writeEntry g (.append q pos (numberFrom pos pls))).1.queues.set q mq' },
               .appended (some (pos + pls.length - 1)) (l.writeEntry g (.append q pos (numberFrom pos pls))).2.2,
               (l.writeEntry g (.append q pos (numberFrom pos pls))).2.1 ++
                 (l.writeEntry g (.append q pos (numberFrom pos pls))).1.policyEffects tick)) →
          ∃ (e : Entry) (qs' : MemQueues) (gc : Bool) (sy : List Effect) (out : Outcome),
                let r1 := l.writeEntry g e
                let l2 : Log := { r1.1 with queues := qs' }
                let r3 := if gc then l2.runGc g order else (l2, [], 0)
                step g l (.append q pos? pls) tick order = (r3.1, out, r1.2.1 ++ r3.2.1 ++ sy) ∧
                outBytes out = r1.2.2 + r3.2.2 ∧ IsSync r3.1 sy := by
        intro pos hpos hstep
        obtain ⟨mq', hmq'⟩ := appendAll_isSome l.cur pls mq pos hpos
        refine ⟨.append q pos (numberFrom pos pls),
          (l.writeEntry g (.append q pos (numberFrom pos pls))).1.queues.set q mq', false,
          (l.writeEntry g (.append q pos (numberFrom pos pls))).1.policyEffects tick,
          .appended (some (pos + pls.length - 1)) (l.writeEntry g (.append q pos (numberFrom pos pls))).2.2,
          ?_, rfl, policyEffects_isSync _ tick⟩
        rw [hstep mq' hmq']
        simp
      cases pos? with
      | none =>
        by_cases hne : pls.isEmpty = true
        · left; exact noop (by simp [step, hq, hne])
        · right; right; exact main mq.nextPosition (Nat.le_refl _) (fun mq' h => by simp [step, hq, hne, h])
      | some p =>
        by_cases h1 : p + 1 = mq.nextPosition
        · left; exact noop (by simp [step, hq, h1])
        · by_cases h2 : p < mq.nextPosition
          · left; exact ⟨.past, by simp [step, hq, h1, h2], rfl⟩
          · by_cases hne : pls.isEmpty = true
            · left; exact noop (by simp [step, hq, h1, h2, hne])
            · right; right
              exact main p (by omega) (fun mq' h => by simp [step, hq, h1, h2, hne, h])

end MRL.Step
