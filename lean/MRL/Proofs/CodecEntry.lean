/-
Entry (de)serialisation round trip (C07): `Entry.decode (Entry.encode e) = some e`.
-/
import MRL.Proofs.CodecBytes
import MRL.Model.Entry

namespace MRL.Codec
open MRL Consts Entry

theorem drop1 (a : UInt8) (l : Bytes) : (a :: l).drop 1 = l := rfl

theorem decodeRecs_nil : decodeRecs [] = some [] := by
  rw [decodeRecs]; simp

theorem decodeRecs_cons (p : Nat) (pl rest : Bytes) (hp : p < 2 ^ 64) (hl : pl.length < 2 ^ 32) :
    decodeRecs (leBytes p 8 ++ (leBytes pl.length 4 ++ (pl ++ rest))) =
      (decodeRecs rest).map fun rs => (p, pl) :: rs := by
  rw [decodeRecs]
  have h8 := length_leBytes p 8
  have h4 := length_leBytes pl.length 4
  have hne : (leBytes p 8 ++ (leBytes pl.length 4 ++ (pl ++ rest))).isEmpty = false := by
    cases h : leBytes p 8 with
    | nil => rw [h] at h8; simp at h8
    | cons a b => rfl
  have hlen : ¬ ((leBytes p 8 ++ (leBytes pl.length 4 ++ (pl ++ rest))).length < REC_HEADER_LEN) := by
    simp [REC_HEADER_LEN, h8, h4]; omega
  have hdrop : (leBytes p 8 ++ (leBytes pl.length 4 ++ (pl ++ rest))).drop REC_HEADER_LEN = pl ++ rest := by
    have : REC_HEADER_LEN = 8 + 4 := rfl
    rw [this, ← List.drop_drop, List.drop_left' h8, List.drop_left' h4]
  have hl2 : ¬ ((pl ++ rest).length < pl.length) := by simp
  simp only [hne, hlen, hdrop, hl2, Bool.false_eq_true, if_false, List.take_left' h8, List.drop_left' h8, List.take_left' h4,
    leNat_leBytes8 _ hp, leNat_leBytes4 _ hl, List.take_left' rfl, List.drop_left' rfl]

theorem decodeRecs_encodeRecs (recs : List (Nat × Bytes))
    (h : ∀ r ∈ recs, r.1 < 2 ^ 64 ∧ r.2.length < 2 ^ 32) :
    decodeRecs (encodeRecs recs) = some recs := by
  induction recs with
  | nil => exact decodeRecs_nil
  | cons r rs ih =>
    obtain ⟨p, pl⟩ := r
    have h1 := h (p, pl) (by simp)
    have ih' := ih (fun r hr => h r (by simp [hr]))
    simp only [encodeRecs, List.append_assoc]
    rw [decodeRecs_cons p pl _ h1.1 h1.2, ih']
    rfl

theorem decode_encodeRaw (tag pos : Nat) (q body : Bytes)
    (ht : tag = TAG_TRUNCATE ∨ tag = TAG_TOUCH ∨ tag = TAG_DELETE ∨ tag = TAG_APPEND)
    (hpos : pos < 2 ^ 64) (hq : q.length < 65536) (hu : utf8Valid q = true) :
    Entry.decode (encodeRaw tag pos q body) =
      if tag = TAG_APPEND then (decodeRecs body).map fun recs => Entry.append q pos recs
      else if tag = TAG_TRUNCATE then some (Entry.truncate q pos)
      else if tag = TAG_TOUCH then some (Entry.touch q pos)
      else some (Entry.delete q pos) := by
  have h8 := length_leBytes pos 8
  have h2 := length_leBytes q.length 2
  have htag : ((encodeRaw tag pos q body).getD 0 0).toNat = tag := by
    rcases ht with h | h | h | h <;> subst h <;> rfl
  have hshape : encodeRaw tag pos q body =
      tag.toUInt8 :: (leBytes pos 8 ++ (leBytes q.length 2 ++ (q ++ body))) := by
    simp [encodeRaw, List.append_assoc]
  have h1 : ((encodeRaw tag pos q body).drop 1).take 8 = leBytes pos 8 := by
    rw [hshape, drop1, List.take_left' h8]
  have h9 : ((encodeRaw tag pos q body).drop 9).take 2 = leBytes q.length 2 := by
    have : 9 = 1 + 8 := rfl
    rw [hshape, this, ← List.drop_drop, drop1, List.drop_left' h8,
      List.take_left' h2]
  have h11 : (encodeRaw tag pos q body).drop ENTRY_HEADER_LEN = q ++ body := by
    have : ENTRY_HEADER_LEN = 1 + (8 + 2) := rfl
    rw [hshape, this, ← List.drop_drop, drop1, ← List.drop_drop,
      List.drop_left' h8,
      List.drop_left' h2]
  have hlen : ¬ ((encodeRaw tag pos q body).length < ENTRY_HEADER_LEN) := by
    rw [hshape]; simp [ENTRY_HEADER_LEN, h8, h2]; omega
  have htags : ¬ (tag ≠ TAG_TRUNCATE ∧ tag ≠ TAG_TOUCH ∧ tag ≠ TAG_DELETE ∧ tag ≠ TAG_APPEND) := by
    rcases ht with h | h | h | h <;> subst h <;> decide
  have hl2 : ¬ ((q ++ body).length < q.length) := by simp
  unfold Entry.decode
  simp only [hl2, hlen, if_false, htag, h1, h9, h11, htags, leNat_leBytes8 _ hpos, leNat_leBytes2 _ hq,
    List.take_left' rfl, List.drop_left' rfl, hu]
  simp

end MRL.Codec
