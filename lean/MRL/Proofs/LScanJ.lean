/-
The reader over a tape of items: good frames are delivered, a junk slot gives one `corrupt` event;
after a torn header the reader goes on at the next block, otherwise right after the slot.
-/
import MRL.Proofs.LItems

namespace MRL.L
open MRL Codec Consts G H Torn

theorem flatJ_bad (g : Geom) (c : Nat) (a : AItm) (ais : List AItm) (h : g.B - c < 7) :
    flatJ g c (a :: ais) = zeros (g.B - c) ++ flatJ g 0 (a :: ais) := by
  have hB := G.Bpos g
  simp only [flatJ, padLen, HEADER_LEN, h, if_true, Nat.sub_zero, frameEndCursor]
  rw [if_neg (by omega), if_neg (by omega)]
  simp [zeros]

theorem flatJ_cons_pos (g : Geom) (c : Nat) (a : AItm) (ais : List AItm) (ha : RawLen a) :
    0 < (flatJ g c (a :: ais)).length := by
  simp only [flatJ, List.length_append, slot_length ha]; omega

/-- the items, then anything -/
theorem readS_itemsJ (g : Geom) (hB : g.B ≤ 65542) (F : Nat) (S : Bytes) (N : Nat)
    (hS : S.length = N * g.B) (ais : List AItm) :
    ∀ (k c : Nat) (R : Bytes), k < N → c < g.B → Fits g c (frs ais) → JOK g (N * g.B) (k * g.B + c) ais →
      Tagged g F (k * g.B + c) (tfs ais) →
      S.drop (k * g.B + c) = flatJ g c ais ++ R →
      ∃ k' c', k' < N ∧ c' ≤ g.B ∧ k' * g.B + c' = k * g.B + c + (flatJ g c ais).length ∧
        scanAt g F S N k c = (evsJ ais ++ (scanAt g F S N k' c').1, (scanAt g F S N k' c').2) := by
  have hB7 := G.Bpos g
  induction ais with
  | nil =>
    intro k c R hk hc _ _ _ _
    exact ⟨k, c, hk, Nat.le_of_lt hc, by simp [flatJ], by simp [evsJ]⟩
  | cons a ais ih =>
    obtain ⟨⟨f, t, p⟩, raw⟩ := a
    have good : ∀ (k c : Nat) (R : Bytes), k < N → c < g.B → 7 ≤ g.B - c → Fits g c (frs (((f, t, p), raw) :: ais)) →
        JOK g (N * g.B) (k * g.B + c) (((f, t, p), raw) :: ais) →
        Tagged g F (k * g.B + c) (tfs (((f, t, p), raw) :: ais)) →
        S.drop (k * g.B + c) = flatJ g c (((f, t, p), raw) :: ais) ++ R →
        ∃ k' c', k' < N ∧ c' ≤ g.B ∧
          k' * g.B + c' = k * g.B + c + (flatJ g c (((f, t, p), raw) :: ais)).length ∧
          scanAt g F S N k c =
            (evsJ (((f, t, p), raw) :: ais) ++ (scanAt g F S N k' c').1, (scanAt g F S N k' c').2) := by
      intro k c R hk hc h7 hf hj ht hT
      have hrl : RawLen ((f, t, p), raw) := hj.1.rawLen
      have hrls : ∀ a ∈ ais, RawLen a := hj.2.rawLen
      have hsl : (slot ((f, t, p), raw)).length = 7 + p.length := slot_length hrl
      have hf1 : p.length ≤ g.B - c - 7 := by
        have := hf.1; simpa [maxFrameLen, HEADER_LEN, h7] using this
      have hpad : padLen g c = 0 := by unfold padLen; simp only [HEADER_LEN]; rw [if_neg (by omega)]
      have hfe : frameEndCursor g c p.length = adv g c (7 + p.length) := by
        simp [frameEndCursor, HEADER_LEN]; omega
      have hf2 : Fits g (adv g c (7 + p.length)) (frs ais) := by have := hf.2; rwa [hfe] at this
      have hhp : hdrPos g (k * g.B + c) = k * g.B + c := hdrPos_good g k c hc h7
      have hnp : nextPos g (k * g.B + c) p.length = k * g.B + (c + 7 + p.length) := by
        unfold nextPos; rw [hhp]; omega
      have hfile : f = F + k / g.K := by
        have := ht.1; simp only at this; rw [this, hhp, pos_file g k c hc]
      have hj2 : JOK g (N * g.B) (k * g.B + (c + 7 + p.length)) ais := by
        have := hj.2; simp only at this; rwa [hnp] at this
      have ht2 : Tagged g F (k * g.B + (c + 7 + p.length)) (tfs ais) := by
        have := ht.2; simp only at this; rwa [hnp] at this
      have hflat : flatJ g c (((f, t, p), raw) :: ais) =
          slot ((f, t, p), raw) ++ flatJ g (adv g c (7 + p.length)) ais := by
        simp only [flatJ, hpad, hfe, zeros, List.replicate_zero, List.nil_append]
      rw [hflat, List.append_assoc] at hT
      rw [hflat, List.length_append, hsl]
      have hTd : S.drop (k * g.B + (c + 7 + p.length)) = flatJ g (adv g c (7 + p.length)) ais ++ R := by
        have : k * g.B + (c + 7 + p.length) = (k * g.B + c) + (7 + p.length) := by omega
        rw [this, ← List.drop_drop, hT, List.drop_left' hsl]
      have hcur : (blkAt g F S k).file = F + k / g.K := by simp [blkAt]
      have hp : p.length < 65536 := by omega
      -- the step over the slot
      have hstep : (scanAt g F S N k c =
            (evJ ((f, t, p), raw) :: (scanAt g F S N k (c + 7 + p.length)).1,
              (scanAt g F S N k (c + 7 + p.length)).2)) ∨
          (c + 7 + p.length = g.B ∧ k + 1 < N ∧ scanAt g F S N k c =
            (evJ ((f, t, p), raw) :: (scanAt g F S N (k + 1) 0).1, (scanAt g F S N (k + 1) 0).2)) := by
        have hd0 : (blkAt g F S k).data.drop c = slot ((f, t, p), raw) ++
            ((flatJ g (adv g c (7 + p.length)) ais ++ R).take (g.B - c - (7 + p.length))) := by
          rw [blkAt_data_drop, hT, List.take_append, List.take_of_length_le (by rw [hsl]; omega), hsl]
        cases raw with
        | none =>
          left
          have := scanB_frame g (blkAt g F S k) c (blksFrom g F S (k + 1) (N - (k + 1))) t p _ hd0
            (by omega) hp
          rw [hcur, ← hfile] at this
          exact this
        | some r =>
          have hcm : hdrPos g (k * g.B + c) % g.B = c := by rw [hhp, pos_mod g k c hc]
          have hj1 := hj.1
          simp only at hj1
          rw [hcm, hnp] at hj1
          rcases hj1 r rfl with ⟨crc, h4, hr, hev⟩ | ⟨hd, hl, hnz, hr, hend, he⟩
          · left
            simp only at hr hev
            have hd1 : (blkAt g F S k).data.drop c = Raw.bytes (crc, t, p) ++
                ((flatJ g (adv g c (7 + p.length)) ais ++ R).take (g.B - c - (7 + p.length))) := by
              rw [hd0]; simp only [slot, Option.getD_some, hr]
            have := scanB_raw g (blkAt g F S k) c (blksFrom g F S (k + 1) (N - (k + 1))) (crc, t, p) _ hd1 h4
              (by simp only; omega) hp
            simp only [hev, tagEvs, hcur, List.cons_append, List.nil_append] at this
            rw [← hfile] at this
            exact this
          · right
            simp only at hr hend he
            have hk1 : k + 1 < N := by
              have : k * g.B + (c + 7 + p.length) = (k + 1) * g.B := by rw [Nat.add_mul, Nat.one_mul]; omega
              rw [this] at he
              exact Nat.lt_of_mul_lt_mul_right he
            refine ⟨hend, hk1, ?_⟩
            obtain ⟨m, hm⟩ : ∃ m, N - (k + 1) = m + 1 := ⟨N - (k + 1) - 1, by omega⟩
            have hd1 : (blkAt g F S k).data.drop c = hd ++ zeros (7 + p.length - hd.length) ++ [] := by
              rw [hd0]
              have : g.B - c - (7 + p.length) = 0 := by omega
              rw [this, List.take_zero]
              simp only [slot, Option.getD_some, hr]
            unfold scanAt
            rw [hm, blksFrom_succ, scanB_torn g _ _ c _ hd _ [] hd1 h7 hl (by omega) hnz]
            have hm2 : m = N - (k + 1 + 1) := by omega
            rw [hcur, ← hfile, hm2]
            rfl
      by_cases hend : c + (7 + p.length) = g.B
      · have hadv : adv g c (7 + p.length) = 0 := by simp [adv, hend]
        rw [hadv] at hTd hf2 ⊢
        have hpos : k * g.B + (c + 7 + p.length) = (k + 1) * g.B + 0 := by
          rw [Nat.add_mul, Nat.one_mul]; omega
        cases ais with
        | nil =>
          rcases hstep with hstep | ⟨_, hk1, hstep⟩
          · refine ⟨k, c + 7 + p.length, hk, by omega, by simp [flatJ]; omega, ?_⟩
            rw [hstep]; simp [evsJ]
          · refine ⟨k + 1, 0, hk1, by omega, by simp [flatJ]; rw [Nat.add_mul, Nat.one_mul]; omega, ?_⟩
            rw [hstep]; simp [evsJ]
        | cons a2 ais2 =>
          have hk1 : k + 1 < N := by
            have hlt := drop_len_lt S _ _ hTd (by
              rw [List.length_append]
              have := flatJ_cons_pos g 0 a2 ais2 (hrls a2 List.mem_cons_self); omega)
            rw [hS, hpos, Nat.add_zero] at hlt
            exact Nat.lt_of_mul_lt_mul_right hlt
          rw [hpos] at hTd hj2 ht2
          obtain ⟨k', c', h1, h2, h3, h4⟩ := ih (k + 1) 0 R hk1 (by omega) hf2 hj2 ht2 hTd
          refine ⟨k', c', h1, h2, ?_, ?_⟩
          · rw [h3, Nat.add_mul, Nat.one_mul]; omega
          · rcases hstep with hstep | ⟨_, _, hstep⟩
            · rw [hstep, scanAt_skip g F S N k _ (by omega) hk1, h4]
              rfl
            · rw [hstep, h4]; rfl
      · have hadv : adv g c (7 + p.length) = c + 7 + p.length := by simp [adv, hend]; omega
        rw [hadv] at hTd hf2 ⊢
        obtain ⟨k', c', h1, h2, h3, h4⟩ := ih k (c + 7 + p.length) R hk (by omega) hf2 hj2 ht2 hTd
        refine ⟨k', c', h1, h2, by rw [h3]; omega, ?_⟩
        rcases hstep with hstep | ⟨he, _, _⟩
        · rw [hstep, h4]; rfl
        · omega
    intro k c R hk hc hf hj ht hT
    by_cases h7 : 7 ≤ g.B - c
    · exact good k c R hk hc h7 hf hj ht hT
    · have hbad : g.B - c < 7 := by omega
      rw [flatJ_bad g c _ _ hbad] at hT ⊢
      simp only [List.append_assoc, List.length_append, length_zeros] at hT ⊢
      have hf0 : Fits g 0 (frs (((f, t, p), raw) :: ais)) := by
        have h1 := hf.1
        have h2 := hf.2
        have hm : maxFrameLen g c = maxFrameLen g 0 := by
          unfold maxFrameLen; simp only [HEADER_LEN, Nat.sub_zero]
          rw [if_neg (by omega), if_pos (by omega)]
        have hfe : frameEndCursor g c p.length = frameEndCursor g 0 p.length := by
          unfold frameEndCursor; simp only [HEADER_LEN, Nat.sub_zero]
          rw [if_pos hbad, if_neg (by omega)]
        simp only at h1 h2
        rw [hm] at h1; rw [hfe] at h2
        exact ⟨h1, h2⟩
      have hpos : (k + 1) * g.B + 0 = (k * g.B + c) + (g.B - c) := by
        rw [Nat.add_mul, Nat.one_mul]; omega
      have hT2 : S.drop ((k + 1) * g.B + 0) = flatJ g 0 (((f, t, p), raw) :: ais) ++ R := by
        rw [hpos, ← List.drop_drop, hT, List.drop_left' (length_zeros _)]
      have hk1 : k + 1 < N := by
        have hlt := drop_len_lt S _ _ hT2 (by
          rw [List.length_append]
          have := flatJ_cons_pos g 0 ((f, t, p), raw) ais hj.1.rawLen; omega)
        rw [hS, Nat.add_zero] at hlt
        exact Nat.lt_of_mul_lt_mul_right hlt
      have hhp := hdrPos_pad g k c hc hbad
      obtain ⟨k', c', h1, h2, h3, h4⟩ := good (k + 1) 0 R hk1 (by omega) (by omega) hf0
        (by rw [← hhp, JOK_hdrPos g _ _ _ (by simp)]; exact hj)
        (by rw [← hhp, Tagged_hdrPos g F _ _ (by simp)]; exact ht) hT2
      refine ⟨k', c', h1, h2, by rw [h3, hpos]; omega, ?_⟩
      rw [scanAt_skip g F S N k c hbad hk1, h4]

/-- **reading a tape of items followed by zeros** -/
theorem readS_layoutJ (g : Geom) (hB : g.B ≤ 65542) (F : Nat) (S : Bytes) (N : Nat)
    (hS : S.length = N * g.B) (hN : 0 < N) (ais : List AItm) (hf : Fits g 0 (frs ais))
    (hj : JOK g (N * g.B) 0 ais) (ht : Tagged g F 0 (tfs ais)) (z : Nat)
    (hT : S = flatJ g 0 ais ++ zeros z) :
    ∃ e, scanAt g F S N 0 0 = (evsJ ais, e) ∧ EndOK g F N (endPos g 0 (frs ais)) e := by
  have hB7 := G.Bpos g
  obtain ⟨k', c', h1, h2, h3, h4⟩ := readS_itemsJ g hB F S N hS ais 0 0 (zeros z) hN (by omega) hf
    (by simpa using hj) (by simpa using ht) (by simpa using hT)
  simp only [Nat.zero_mul, Nat.zero_add] at h3
  rw [flatJ0_len g ais hj.rawLen hf] at h3
  have hdrop : S.drop (k' * g.B + c') = zeros z := by
    rw [h3, hT, ← flatJ0_len g ais hj.rawLen hf, List.drop_left' rfl]
  rw [h4]
  by_cases hc : c' < g.B
  · obtain ⟨e, he, hend⟩ := readS_layout g hB F S N hS [] k' c' z h1 hc trivial (by simpa [layoutBufs] using hdrop)
    simp only [layoutBufs, totalLen_nil, Nat.add_zero, tagFrom, evsOf, List.map_nil] at he hend
    have he' : scanAt g F S N k' c' = ([], e) := he
    rw [he', ← h3]
    exact ⟨e, by simp, hend⟩
  · have hcB : c' = g.B := by omega
    subst hcB
    by_cases hk1 : k' + 1 < N
    · have hdrop2 : S.drop ((k' + 1) * g.B + 0) = zeros z := by
        rw [← hdrop]; congr 1; rw [Nat.add_mul, Nat.one_mul]; rfl
      obtain ⟨e, he, hend⟩ := readS_layout g hB F S N hS [] (k' + 1) 0 z hk1 (by omega) trivial
        (by simpa [layoutBufs] using hdrop2)
      simp only [layoutBufs, totalLen_nil, Nat.add_zero, tagFrom, evsOf, List.map_nil] at he hend
      have he' : scanAt g F S N (k' + 1) 0 = ([], e) := he
      rw [scanAt_skip g F S N k' g.B (by omega) hk1, he']
      refine ⟨e, by simp, ?_⟩
      have : (k' + 1) * g.B = endPos g 0 (frs ais) := by rw [← h3, Nat.add_mul, Nat.one_mul]
      rw [← this]; exact hend
    · have hN' : N - (k' + 1) = 0 := by omega
      have hsc : scanAt g F S N k' g.B = ([], ⟨(blkAt g F S k').file, (blkAt g F S k').idx, g.B⟩) := by
        unfold scanAt; rw [hN']; simp only [blksFrom]
        exact scanB_short_nil g _ g.B (by omega)
      rw [hsc]
      refine ⟨⟨F + k' / g.K, k' % g.K, g.B⟩, by simp [blkAt], k', g.B, rfl, h1, Or.inr ⟨rfl, by omega⟩, ?_⟩
      rw [← h3]
      have hm : (k' * g.B + g.B) % g.B = 0 := by
        rw [show k' * g.B + g.B = (k' + 1) * g.B by rw [Nat.add_mul, Nat.one_mul]]
        exact Nat.mul_mod_left _ _
      rw [hm, if_neg (by omega)]

/-- a torn header in the last block: one `corrupt` event, the reader stays there -/
theorem tail_hdr_last (g : Geom) (F : Nat) (S : Bytes) (N : Nat) (hS : S.length = N * g.B) (k c : Nat)
    (hk : k + 1 = N) (h7 : 7 ≤ g.B - c) (hd : Bytes) (hl : hd.length ≤ 6) (hnz : isAllZero hd = false)
    (z : Nat) (hz : S.drop (k * g.B + c) = hd ++ zeros z) :
    scanAt g F S N k c = ([RdEv.corrupt (F + k / g.K)], ⟨F + k / g.K, k % g.K, c⟩) := by
  have hB7 := G.Bpos g
  have hzl : z = g.B - c - hd.length := by
    have := congrArg List.length hz
    rw [List.length_drop, hS, ← hk, Nat.add_mul, Nat.one_mul, List.length_append, length_zeros] at this
    omega
  have hdata : (blkAt g F S k).data.drop c = hd ++ zeros (g.B - c - hd.length) ++ [] := by
    rw [blkAt_data_drop, hz, List.take_append, List.take_of_length_le (by omega), take_zeros, List.append_nil]
    congr 2; omega
  have hs : scanBlock g (blkAt g F S k).data c = ([.corrupt], .needNext c) := by
    unfold scanBlock; rw [hdata]
    exact scanBlockFrom_torn g hd _ [] c h7 hl (by omega) hnz
  have hN : N - (k + 1) = 0 := by omega
  have h1 : scanAt g F S N k c = scanB g (blkAt g F S k) c [] := by
    unfold scanAt; rw [hN]; simp [blksFrom]
  rw [h1, scanB_needNext_nil g _ c _ _ hs]
  simp [tagEvs, blkAt]

/-- **reading a tape of items followed by a torn header in the last block** -/
theorem readS_layoutJ_res (g : Geom) (hB : g.B ≤ 65542) (F : Nat) (S : Bytes) (N : Nat)
    (hS : S.length = N * g.B) (hN : 0 < N) (ais : List AItm) (hf : Fits g 0 (frs ais))
    (hj : JOK g (N * g.B) 0 ais) (ht : Tagged g F 0 (tfs ais)) (res : Bytes) (hrl : res.length ≤ 6)
    (hnz : isAllZero res = false) (z : Nat)
    (hT : S = flatJ g 0 ais ++ zeros (hdrPos g (endPos g 0 (frs ais)) - endPos g 0 (frs ais)) ++ res ++ zeros z)
    (hlast : N * g.B ≤ (hdrPos g (endPos g 0 (frs ais)) / g.B + 1) * g.B) :
    ∃ ke ce, ke * g.B + ce = hdrPos g (endPos g 0 (frs ais)) ∧ ke < N ∧ ce < g.B ∧
      scanAt g F S N 0 0 =
        (evsJ ais ++ [RdEv.corrupt (F + ke / g.K)], ⟨F + ke / g.K, ke % g.K, ce⟩) := by
  have hB7 := G.Bpos g
  have hE := flatJ0_len g ais hj.rawLen hf
  have hhle := le_hdrPos g (endPos g 0 (frs ais))
  have hrne : 0 < res.length := by
    cases res with
    | nil => simp [isAllZero] at hnz
    | cons x xs => simp
  obtain ⟨k', c', h1, h2, h3, h4⟩ := readS_itemsJ g hB F S N hS ais 0 0
    (zeros (hdrPos g (endPos g 0 (frs ais)) - endPos g 0 (frs ais)) ++ res ++ zeros z) hN (by omega) hf
    (by simpa using hj) (by simpa using ht) (by simpa [List.append_assoc] using hT)
  simp only [Nat.zero_mul, Nat.zero_add] at h3
  rw [hE] at h3
  -- the stream is longer than the position of the residue
  have hlt : hdrPos g (endPos g 0 (frs ais)) + res.length ≤ N * g.B := by
    have := congrArg List.length hT
    rw [hS] at this
    simp only [List.length_append, length_zeros, hE] at this
    omega
  have hdropR : S.drop (hdrPos g (endPos g 0 (frs ais))) = res ++ zeros z := by
    have hlen : (flatJ g 0 ais ++ zeros (hdrPos g (endPos g 0 (frs ais)) - endPos g 0 (frs ais))).length =
        hdrPos g (endPos g 0 (frs ais)) := by
      rw [List.length_append, length_zeros, hE]; omega
    rw [hT, List.append_assoc (flatJ g 0 ais ++ _)]
    exact List.drop_left' hlen
  -- from the end of the items to the header position
  have hto : ∃ kh ch, kh < N ∧ 7 ≤ g.B - ch ∧ ch < g.B ∧ kh * g.B + ch = hdrPos g (endPos g 0 (frs ais)) ∧
      scanAt g F S N k' c' = scanAt g F S N kh ch := by
    by_cases hc7 : 7 ≤ g.B - c'
    · have hc'lt : c' < g.B := by omega
      exact ⟨k', c', h1, hc7, hc'lt, by rw [← h3, hdrPos_good g k' c' hc'lt hc7], rfl⟩
    · have hh : hdrPos g (endPos g 0 (frs ais)) = (k' + 1) * g.B + 0 := by
        by_cases hcB : c' = g.B
        · rw [← h3, hcB]
          have : k' * g.B + g.B = (k' + 1) * g.B + 0 := by rw [Nat.add_mul, Nat.one_mul]; rfl
          rw [this, hdrPos_good g (k' + 1) 0 (by omega) (by omega)]
        · rw [← h3]; exact hdrPos_pad g k' c' (by omega) (by omega)
      have hk1 : k' + 1 < N := by
        have : (k' + 1) * g.B < N * g.B := by omega
        exact Nat.lt_of_mul_lt_mul_right this
      exact ⟨k' + 1, 0, hk1, by omega, by omega, hh.symm, scanAt_skip g F S N k' c' (by omega) hk1⟩
  obtain ⟨kh, ch, hkh, h7, hch, hpos, hsk⟩ := hto
  have hkN : kh + 1 = N := by
    rw [← hpos, pos_div g kh ch hch] at hlast
    have := Nat.le_of_mul_le_mul_right hlast (by omega : 0 < g.B)
    omega
  have htl := tail_hdr_last g F S N hS kh ch hkN h7 res hrl hnz z (by rw [hpos]; exact hdropR)
  refine ⟨kh, ch, hpos, hkh, hch, ?_⟩
  rw [h4, hsk, htl]

end MRL.L
