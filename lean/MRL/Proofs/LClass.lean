/-
Classification of the crash states of an entry write: whatever the byte at which the write was
cut, the tape is again a tape of items. The frames written entirely are kept (those of an
unfinished entry as a dead group); the frame that was cut leaves nothing (only zeros reached the
disk, or it is complete), a junk slot (torn payload; torn header not in the last block) or a
residue (torn header in the last block).
-/
import MRL.Proofs.LDisk

namespace MRL.L
open MRL Codec Consts G H Torn Log Buf

/-- where a byte position falls among frames laid out from `p` -/
theorem cut_pos (g : Geom) : ∀ (fs : List Frm) (p m : Nat), p ≤ m → m ≤ endPos g p fs →
    ∃ i, i ≤ fs.length ∧
      ((endPos g p (fs.take i) ≤ m ∧ m ≤ hdrPos g (endPos g p (fs.take i))) ∨
       (∃ fr, fs[i]? = some fr ∧ hdrPos g (endPos g p (fs.take i)) < m ∧
          m < hdrPos g (endPos g p (fs.take i)) + 7 + fr.2.length)) := by
  intro fs
  induction fs with
  | nil =>
    intro p m h1 h2
    simp only [endPos] at h2
    exact ⟨0, Nat.le_refl _, Or.inl ⟨by simpa [endPos] using h1, by simp only [List.take_nil, endPos]; have := le_hdrPos g p; omega⟩⟩
  | cons fr fs ih =>
    intro p m h1 h2
    by_cases ha : m ≤ hdrPos g p
    · exact ⟨0, Nat.zero_le _, Or.inl ⟨by simpa [endPos] using h1, by simpa [endPos] using ha⟩⟩
    · by_cases hb : m < nextPos g p fr.2.length
      · refine ⟨0, Nat.zero_le _, Or.inr ⟨fr, rfl, by simp only [List.take_zero, endPos]; omega, ?_⟩⟩
        simp only [List.take_zero, endPos]
        unfold nextPos at hb; exact hb
      · simp only [endPos] at h2
        obtain ⟨i, hi, h⟩ := ih (nextPos g p fr.2.length) m (by omega) h2
        refine ⟨i + 1, by simpa using hi, ?_⟩
        simpa [endPos] using h

theorem align_le {B a h c : Nat} (hB : 0 < B) (ha : a % B = 0) (hroom : h % B + 7 ≤ B) (hle : a ≤ h + c)
    (hc : c < 7) : a ≤ h := by
  apply Classical.byContradiction
  intro hn
  have h1 := block_le hB ha (by omega : h < a)
  have hd := Nat.div_add_mod h B
  rw [Nat.add_mul, Nat.one_mul, Nat.mul_comm] at h1
  omega

theorem maxFrameLen_hdr (g : Geom) (p : Nat) : maxFrameLen g (p % g.B) = g.B - hdrPos g p % g.B - 7 := by
  have hB := G.Bpos g
  rw [hdrPos_mod]
  unfold maxFrameLen
  simp only [HEADER_LEN]
  split
  · rename_i h; rw [if_neg (by omega)]
  · rename_i h; rw [if_pos (by omega)]; omega

/-- the context of a cut: old items `A` (tape of length `L`, writer at `W`, residue `res`), new
    frames `fs`, and a crash tape `X` of `n` files holding the first `Pm.length` bytes -/
structure CutCtx (g : Geom) (F : Nat) (A : List AItm) (fs : List Frm) (L W : Nat) (res : Bytes) (n : Nat)
    (Pm res' : Bytes) (X : Image) (J Jfull : List JE) : Prop where
  hfit : Fits g 0 (frs A ++ fs)
  htagA : Tagged g F 0 (tfs A)
  hjok : JOK g L 0 A
  hW : W = endPos g 0 (frs A) ∨ W = hdrPos g (endPos g 0 (frs A))
  hres : ResOK g L W (endPos g 0 (frs A)) res
  htorn : ∀ fr ∈ fs, TornFrame fr.1 fr.2
  hrt : RTapeR g F n Pm res' X
  hLn : L ≤ n * g.fileBytes
  hresn : res' ≠ [] → n * g.fileBytes = L
  hm1 : W ≤ Pm.length
  hm2 : Pm.length ≤ endPos g 0 (frs A ++ fs)
  hPm : Pm = (flatJ g 0 (A ++ plain (tagFrom g F (endPos g 0 (frs A)) fs))).take Pm.length
  hresd : res' = res.drop (Pm.length - W)
  hseg1 : ∀ i, i < fs.length → ∀ jk : List AItm, (jk = [] ∨ ∃ a r, jk = [a] ∧ a.2 = some r) →
    SegsX F J (A ++ plain ((tagFrom g F (endPos g 0 (frs A)) fs).take i) ++ jk)
  hseg2 : SegsX F Jfull (A ++ plain (tagFrom g F (endPos g 0 (frs A)) fs))

section
variable {g : Geom} {F : Nat} {A : List AItm} {fs : List Frm} {L W : Nat} {res : Bytes} {n : Nat}
  {Pm res' : Bytes} {X : Image} {J Jfull : List JE}

theorem frs_prefix (g : Geom) (F : Nat) (A : List AItm) (fs : List Frm) (p i : Nat) :
    frs (A ++ plain ((tagFrom g F p fs).take i)) = frs A ++ fs.take i := by
  rw [frs_append, frs_plain]
  congr 1
  have := untag_tagFrom g F fs p
  unfold untag at this ⊢
  rw [List.map_take, this]

/-- facts about the prefix `A ++ first i new frames` -/
theorem CutCtx.pre (c : CutCtx g F A fs L W res n Pm res' X J Jfull) (i : Nat) :
    Fits g 0 (frs A ++ fs.take i) ∧
    Tagged g F 0 (tfs (A ++ plain ((tagFrom g F (endPos g 0 (frs A)) fs).take i))) ∧
    JOK g (n * g.fileBytes) 0 (A ++ plain ((tagFrom g F (endPos g 0 (frs A)) fs).take i)) ∧
    Fits g (endPos g 0 (frs A ++ fs.take i) % g.B) (fs.drop i) := by
  have hsplit : frs A ++ fs = (frs A ++ fs.take i) ++ fs.drop i := by
    rw [List.append_assoc, List.take_append_drop]
  have hf := c.hfit
  rw [hsplit, Fits_append] at hf
  have hcur : endCursor g 0 (frs A ++ fs.take i) = endPos g 0 (frs A ++ fs.take i) % g.B := by
    have := endCursor_pos g (frs A ++ fs.take i) 0 (by rw [zero_mod]; exact hf.1)
    rwa [zero_mod] at this
  refine ⟨hf.1, ?_, ?_, by rw [← hcur]; exact hf.2⟩
  · rw [tfs_append, tfs_plain, Tagged_append]
    refine ⟨c.htagA, ?_⟩
    have ht := Tagged_tagFrom g F fs (endPos g 0 (untag (tfs A)))
    have hs : tagFrom g F (endPos g 0 (untag (tfs A))) fs =
        (tagFrom g F (endPos g 0 (untag (tfs A))) fs).take i ++ (tagFrom g F (endPos g 0 (untag (tfs A))) fs).drop i :=
      (List.take_append_drop i _).symm
    rw [hs, Tagged_append] at ht
    exact ht.1
  · rw [JOK_append]
    exact ⟨c.hjok.mono c.hLn, JOK_plain g _ _ _⟩

theorem endPos_take_pos (g : Geom) (p : Nat) (fs : List Frm) (i : Nat) (hi : 0 < i) (hfs : fs ≠ []) :
    hdrPos g p + 7 ≤ endPos g p (fs.take i) := by
  cases fs with
  | nil => exact absurd rfl hfs
  | cons fr fs =>
    obtain ⟨j, rfl⟩ : ∃ j, i = j + 1 := ⟨i - 1, by omega⟩
    simp only [List.take_succ_cons, endPos]
    have := le_endPos g (fs.take j) (nextPos g p fr.2.length)
    unfold nextPos at this ⊢
    omega

/-- the residue that is left when nothing, or only padding, was written after the frames -/
theorem CutCtx.res_pad (c : CutCtx g F A fs L W res n Pm res' X J Jfull) (hfs : fs ≠ []) (i : Nat)
    (h1 : endPos g 0 (frs A ++ fs.take i) ≤ Pm.length)
    (h2 : Pm.length ≤ hdrPos g (endPos g 0 (frs A ++ fs.take i))) :
    ResOK g (n * g.fileBytes) (endPos g 0 (frs A ++ fs.take i) + (Pm.length - endPos g 0 (frs A ++ fs.take i)))
      (endPos g 0 (frs A ++ fs.take i)) res' := by
  by_cases hr : res' = []
  · exact Or.inl hr
  · right
    have hrne : res ≠ [] := by
      intro e; apply hr; rw [c.hresd, e]; simp
    rcases c.hres with he | ⟨r1, r2, r3, r4⟩
    · exact absurd he hrne
    · have hlt : Pm.length - W < res.length := by
        apply Classical.byContradiction
        intro hn
        apply hr
        rw [c.hresd]; exact List.drop_of_length_le (by omega)
      have hi0 : i = 0 := by
        apply Classical.byContradiction
        intro hn
        have := endPos_take_pos g (endPos g 0 (frs A)) fs i (by omega) hfs
        rw [endPos_append] at h1
        omega
      subst hi0
      simp only [List.take_zero, List.append_nil] at h1 h2 ⊢
      have hmW : Pm.length = W := by have := c.hm1; omega
      have hrr : res' = res := by rw [c.hresd, hmW, Nat.sub_self]; rfl
      rw [hrr, c.hresn hr]
      have : endPos g 0 (frs A) + (Pm.length - endPos g 0 (frs A)) = W := by omega
      rw [this]
      exact ⟨r1, r2, r3, r4⟩

/-- **the cut falls between two frames** (or in the padding) -/
theorem CutCtx.class_pad (c : CutCtx g F A fs L W res n Pm res' X J Jfull) (hfs : fs ≠ []) (i : Nat)
    (hi : i ≤ fs.length)
    (h1 : endPos g 0 (frs A ++ fs.take i) ≤ Pm.length)
    (h2 : Pm.length ≤ hdrPos g (endPos g 0 (frs A ++ fs.take i))) :
    DiskX g X F J ∨ DiskX g X F Jfull := by
  obtain ⟨p1, p2, p3, _⟩ := c.pre i
  have hsplit : A ++ plain (tagFrom g F (endPos g 0 (frs A)) fs) =
      (A ++ plain ((tagFrom g F (endPos g 0 (frs A)) fs).take i)) ++
        plain ((tagFrom g F (endPos g 0 (frs A)) fs).drop i) := by
    rw [List.append_assoc, ← plain_append, List.take_append_drop]
  have hfrsall : frs (A ++ plain (tagFrom g F (endPos g 0 (frs A)) fs)) = frs A ++ fs := by
    rw [frs_append, frs_plain, untag_tagFrom]
  have hjall : JOK g (n * g.fileBytes) 0 (A ++ plain (tagFrom g F (endPos g 0 (frs A)) fs)) := by
    rw [JOK_append]; exact ⟨c.hjok.mono c.hLn, JOK_plain g _ _ _⟩
  have hfrs := frs_prefix g F A fs (endPos g 0 (frs A)) i
  have hPm := c.hPm
  rw [hsplit, flatJ_take_pad g _ _ (by rw [← hsplit]; exact hjall.rawLen)
    (by rw [← hsplit, hfrsall]; exact c.hfit) _ (by rw [hfrs]; exact h1) (by rw [hfrs]; exact h2)
    (by rw [← hsplit, hfrsall]; exact c.hm2), hfrs] at hPm
  obtain ⟨cs, x, hn, hpos, hfull, ⟨z, hflat⟩, hX, hlast⟩ := c.hrt
  have hne : cs ≠ [] := by intro e; rw [e] at hn; simp at hn; omega
  have hsegs : SegsX F J (A ++ plain ((tagFrom g F (endPos g 0 (frs A)) fs).take i)) ∨
      SegsX F Jfull (A ++ plain ((tagFrom g F (endPos g 0 (frs A)) fs).take i)) := by
    by_cases hlt : i < fs.length
    · left; simpa using c.hseg1 i hlt [] (Or.inl rfl)
    · right
      rw [List.take_of_length_le (by rw [tagFrom_length]; omega)]
      exact c.hseg2
  have hd : ∀ J0, SegsX F J0 (A ++ plain ((tagFrom g F (endPos g 0 (frs A)) fs).take i)) → DiskX g X F J0 := by
    intro J0 hs
    refine ⟨cs, x, _, res', Pm.length - endPos g 0 (frs A ++ fs.take i), hne, hfull, ⟨z, ?_⟩,
      by rw [hX, hn], ?_, by rw [hfrs]; exact p1, p2, by rw [hn]; exact p3, ?_, hs⟩
    · rw [hflat]
      conv => lhs; rw [hPm]
    · rw [hn, hfrs]; exact Nat.le_trans hlast h2
    · rw [hn, hfrs]; exact c.res_pad hfs i h1 h2
  rcases hsegs with hs | hs
  · exact Or.inl (hd J hs)
  · exact Or.inr (hd Jfull hs)

theorem split_at {α : Type} : ∀ {l : List α} {i : Nat} {x : α}, l[i]? = some x → l = l.take i ++ x :: l.drop (i + 1)
  | [], i, x, h => by simp at h
  | a :: l, 0, x, h => by simp at h; simp [h]
  | a :: l, i + 1, x, h => by
    simp only [List.getElem?_cons_succ] at h
    have := split_at h
    simp only [List.take_succ_cons, List.drop_succ_cons, List.cons_append]
    rw [← this]

/-- the frame being cut, among the tagged new frames -/
theorem tagged_at (g : Geom) (F : Nat) (fs : List Frm) (p i : Nat) (fr : Frm) (h : fs[i]? = some fr) :
    ∃ x, (tagFrom g F p fs)[i]? = some x ∧ x.2 = fr := by
  have hu := untag_tagFrom g F fs p
  unfold untag at hu
  have : ((tagFrom g F p fs).map (·.2))[i]? = some fr := by rw [hu]; exact h
  rw [List.getElem?_map] at this
  cases hx : (tagFrom g F p fs)[i]? with
  | none => rw [hx] at this; cases this
  | some x =>
    rw [hx] at this
    simp only [Option.map_some, Option.some.injEq] at this
    exact ⟨x, rfl, this⟩

/-- the bytes on the tape when the cut falls in the slot of new frame `i` -/
theorem CutCtx.cut_bytes (c : CutCtx g F A fs L W res n Pm res' X J Jfull) (i : Nat) (fr : Frm)
    (hfr : fs[i]? = some fr) (h1 : hdrPos g (endPos g 0 (frs A ++ fs.take i)) < Pm.length)
    (h2 : Pm.length ≤ hdrPos g (endPos g 0 (frs A ++ fs.take i)) + 7 + fr.2.length) :
    Pm = flatJ g 0 (A ++ plain ((tagFrom g F (endPos g 0 (frs A)) fs).take i)) ++
      zeros (hdrPos g (endPos g 0 (frs A ++ fs.take i)) - endPos g 0 (frs A ++ fs.take i)) ++
      (encodeFrame fr.1 fr.2).take (Pm.length - hdrPos g (endPos g 0 (frs A ++ fs.take i))) := by
  obtain ⟨p1, p2, p3, _⟩ := c.pre i
  obtain ⟨x, hx, hxf⟩ := tagged_at g F fs (endPos g 0 (frs A)) i fr hfr
  have hsplit : A ++ plain (tagFrom g F (endPos g 0 (frs A)) fs) =
      (A ++ plain ((tagFrom g F (endPos g 0 (frs A)) fs).take i)) ++
        (x, none) :: plain ((tagFrom g F (endPos g 0 (frs A)) fs).drop (i + 1)) := by
    conv => lhs; rw [split_at hx]
    rw [plain_append, List.append_assoc]
    rfl
  have hfrs := frs_prefix g F A fs (endPos g 0 (frs A)) i
  have hPm := c.hPm
  have hm : Pm.length = hdrPos g (endPos g 0 (frs (A ++ plain ((tagFrom g F (endPos g 0 (frs A)) fs).take i)))) +
      (Pm.length - hdrPos g (endPos g 0 (frs A ++ fs.take i))) := by rw [hfrs]; omega
  have hslot : slot ((x, none) : AItm) = encodeFrame fr.1 fr.2 := by
    simp only [slot, Option.getD_none, hxf]
  rw [hsplit] at hPm
  conv at hPm => rhs; rw [hm]
  rw [flatJ_take_slot g _ _ _ p3.rawLen (by rw [hfrs]; exact p1) _
    (by rw [hslot, length_encodeFrame]; omega), hslot, hfrs] at hPm
  exact hPm

/-- the position of the header of new frame `i` is not before the writer's old position -/
theorem CutCtx.hdr_ge (c : CutCtx g F A fs L W res n Pm res' X J Jfull) (hfs : fs ≠ []) (i : Nat) :
    W ≤ hdrPos g (endPos g 0 (frs A ++ fs.take i)) := by
  by_cases hi : i = 0
  · subst hi
    simp only [List.take_zero, List.append_nil]
    have := le_hdrPos g (endPos g 0 (frs A))
    rcases c.hW with h | h <;> omega
  · have := endPos_take_pos g (endPos g 0 (frs A)) fs i (by omega) hfs
    rw [endPos_append]
    have h2 := le_hdrPos g (endPos g (endPos g 0 (frs A)) (fs.take i))
    have h3 := le_hdrPos g (endPos g 0 (frs A))
    rcases c.hW with h | h <;> omega

/-- **the cut falls in the header of new frame `i`** -/
theorem CutCtx.class_hdr (c : CutCtx g F A fs L W res n Pm res' X J Jfull) (hfs : fs ≠ []) (i : Nat) (fr : Frm)
    (hfr : fs[i]? = some fr) (h1 : hdrPos g (endPos g 0 (frs A ++ fs.take i)) < Pm.length)
    (h2 : Pm.length ≤ hdrPos g (endPos g 0 (frs A ++ fs.take i)) + 6) :
    DiskX g X F J := by
  have hB7 := G.Bpos g
  have hfb := fileBytes_pos g
  have hilt : i < fs.length := by
    rcases Nat.lt_or_ge i fs.length with h | h
    · exact h
    · rw [List.getElem?_eq_none h] at hfr; cases hfr
  obtain ⟨p1, p2, p3, p4⟩ := c.pre i
  have hfrs := frs_prefix g F A fs (endPos g 0 (frs A)) i
  have hbytes := c.cut_bytes i fr hfr h1 (by omega)
  have hroom := hdrPos_room g (endPos g 0 (frs A ++ fs.take i))
  have hhle := le_hdrPos g (endPos g 0 (frs A ++ fs.take i))
  have hge := c.hdr_ge hfs i
  have hEi := flatJ0_len g _ p3.rawLen (by rw [hfrs]; exact p1)
  rw [hfrs] at hEi
  obtain ⟨cs, x, hn, hpos, hfull, ⟨z, hflat⟩, hX, hlast⟩ := c.hrt
  have hne : cs ≠ [] := by intro e; rw [e] at hn; simp at hn; omega
  -- the junk: the bytes of the header that reached the disk, over what was left of the old residue
  have htl : ((encodeFrame fr.1 fr.2).take (Pm.length - hdrPos g (endPos g 0 (frs A ++ fs.take i)))).length =
      Pm.length - hdrPos g (endPos g 0 (frs A ++ fs.take i)) := by
    rw [List.length_take, length_encodeFrame]; omega
  have hrl : res'.length + (Pm.length - hdrPos g (endPos g 0 (frs A ++ fs.take i))) ≤ 6 := by
    rw [c.hresd, List.length_drop]
    rcases c.hres with he | ⟨r1, _, _, _⟩
    · rw [he]; simp; omega
    · omega
  have hjl : ((encodeFrame fr.1 fr.2).take (Pm.length - hdrPos g (endPos g 0 (frs A ++ fs.take i))) ++ res').length ≤ 6 := by
    rw [List.length_append, htl]; omega
  have hstream : cs.flatten = flatJ g 0 (A ++ plain ((tagFrom g F (endPos g 0 (frs A)) fs).take i)) ++
      zeros (hdrPos g (endPos g 0 (frs A ++ fs.take i)) - endPos g 0 (frs A ++ fs.take i)) ++
      ((encodeFrame fr.1 fr.2).take (Pm.length - hdrPos g (endPos g 0 (frs A ++ fs.take i))) ++ res') ++ zeros z := by
    rw [hflat]
    conv => lhs; rw [hbytes]
    simp only [List.append_assoc]
  have hlasth : (n - 1) * g.fileBytes ≤ hdrPos g (endPos g 0 (frs A ++ fs.take i)) :=
    align_le (by omega) (mul_fileBytes_mod g (n - 1)) (by omega)
      (show (n - 1) * g.fileBytes ≤ hdrPos g (endPos g 0 (frs A ++ fs.take i)) +
        (Pm.length - hdrPos g (endPos g 0 (frs A ++ fs.take i))) by omega) (by omega)
  have hseg0 := c.hseg1 i hilt [] (Or.inl rfl)
  rw [List.append_nil] at hseg0
  generalize hjk : (encodeFrame fr.1 fr.2).take (Pm.length - hdrPos g (endPos g 0 (frs A ++ fs.take i))) ++ res' = junk
    at hjl hstream
  by_cases hz : isAllZero junk = true
  · -- only zeros reached the disk
    refine ⟨cs, x, _, [], hdrPos g (endPos g 0 (frs A ++ fs.take i)) - endPos g 0 (frs A ++ fs.take i), hne, hfull,
      ⟨junk.length + z, ?_⟩, by rw [hX, hn], by rw [hn, hfrs]; simpa using hlasth, by rw [hfrs]; exact p1, p2,
      by rw [hn]; exact p3, Or.inl rfl, hseg0⟩
    rw [hstream, isAllZero_eq_zeros junk hz, length_zeros, zeros_add]
    simp [List.append_assoc]
  · have hnz : isAllZero junk = false := by simpa using hz
    by_cases hlastb : n * g.fileBytes ≤ (hdrPos g (endPos g 0 (frs A ++ fs.take i)) / g.B + 1) * g.B
    · -- the last block: a residue
      refine ⟨cs, x, _, junk, hdrPos g (endPos g 0 (frs A ++ fs.take i)) - endPos g 0 (frs A ++ fs.take i), hne, hfull,
        ⟨z, hstream⟩, by rw [hX, hn], by rw [hn, hfrs]; simpa using hlasth, by rw [hfrs]; exact p1, p2,
        by rw [hn]; exact p3, ?_, hseg0⟩
      rw [hfrs, hn]
      have : endPos g 0 (frs A ++ fs.take i) + (hdrPos g (endPos g 0 (frs A ++ fs.take i)) -
          endPos g 0 (frs A ++ fs.take i)) = hdrPos g (endPos g 0 (frs A ++ fs.take i)) := by omega
      rw [this]
      exact Or.inr ⟨hjl, hnz, rfl, hlastb⟩
    · -- not the last block: the rest of the block is given up
      have hnl : (hdrPos g (endPos g 0 (frs A ++ fs.take i)) / g.B + 1) * g.B < n * g.fileBytes := by omega
      have hd := Nat.div_add_mod (hdrPos g (endPos g 0 (frs A ++ fs.take i))) g.B
      rw [Nat.add_mul, Nat.one_mul, Nat.mul_comm] at hnl
      let pH : Bytes := zeros (g.B - hdrPos g (endPos g 0 (frs A ++ fs.take i)) % g.B - 7)
      let aH : AItm := ((F + hdrPos g (endPos g 0 (frs A ++ fs.take i)) / g.fileBytes, (fr.1, pH)),
        some (junk ++ zeros (7 + pH.length - junk.length)))
      have hpl : pH.length = g.B - hdrPos g (endPos g 0 (frs A ++ fs.take i)) % g.B - 7 := length_zeros _
      have hslotH : slot aH = junk ++ zeros (7 + pH.length - junk.length) := rfl
      have hfrsH : frs (A ++ plain ((tagFrom g F (endPos g 0 (frs A)) fs).take i) ++ [aH]) =
          (frs A ++ fs.take i) ++ [(fr.1, pH)] := by rw [frs_append, hfrs]; rfl
      have hcur : endCursor g 0 (frs A ++ fs.take i) = endPos g 0 (frs A ++ fs.take i) % g.B := by
        have := endCursor_pos g (frs A ++ fs.take i) 0 (by rw [zero_mod]; exact p1)
        rwa [zero_mod] at this
      have hEH : endPos g 0 ((frs A ++ fs.take i) ++ [(fr.1, pH)]) =
          hdrPos g (endPos g 0 (frs A ++ fs.take i)) + 7 + pH.length := by
        rw [endPos_append]; rfl
      have hflatH : flatJ g 0 (A ++ plain ((tagFrom g F (endPos g 0 (frs A)) fs).take i) ++ [aH]) =
          flatJ g 0 (A ++ plain ((tagFrom g F (endPos g 0 (frs A)) fs).take i)) ++
          zeros (hdrPos g (endPos g 0 (frs A ++ fs.take i)) - endPos g 0 (frs A ++ fs.take i)) ++
          (junk ++ zeros (7 + pH.length - junk.length)) := by
        rw [flatJ_append, hfrs, hcur, flatJ_hdrPos g _ [aH] (by simp), List.append_assoc]
        congr 2
        simp only [flatJ, padLen_hdrPos, zeros, List.replicate_zero, List.nil_append, List.append_nil]
        rfl
      have hzlen : hdrPos g (endPos g 0 (frs A ++ fs.take i)) + junk.length + z = n * g.fileBytes := by
        have := congrArg List.length hstream
        rw [flatten_length_full _ _ hfull, hn] at this
        simp only [List.length_append, length_zeros, hEi] at this
        omega
      have hseg := c.hseg1 i hilt [aH] (Or.inr ⟨aH, _, rfl, rfl⟩)
      refine ⟨cs, x, _, [], 0, hne, hfull,
        ⟨z - (7 + pH.length - junk.length), ?_⟩, by rw [hX, hn], ?_, ?_, ?_, ?_, Or.inl rfl, hseg⟩
      · rw [hstream, hflatH]
        simp only [zeros, List.replicate_zero, List.append_nil, List.append_assoc]
        congr 3
        rw [← zeros, ← zeros, ← zeros, ← zeros_add]
        congr 1
        omega
      · rw [hn, hfrsH, hEH]
        have := le_hdrPos g (hdrPos g (endPos g 0 (frs A ++ fs.take i)) + 7 + pH.length)
        omega
      · rw [hfrsH, Fits_append, hcur]
        refine ⟨p1, ?_, trivial⟩
        show pH.length ≤ maxFrameLen g (endPos g 0 (frs A ++ fs.take i) % g.B)
        rw [maxFrameLen_hdr, hpl]; exact Nat.le_refl _
      · rw [tfs_append, Tagged_append]
        refine ⟨p2, ?_, trivial⟩
        show F + hdrPos g (endPos g 0 (frs A ++ fs.take i)) / g.fileBytes = _
        rw [← frs, hfrs]
      · rw [hn, JOK_append]
        refine ⟨p3, ?_, trivial⟩
        rw [hfrs]
        intro r hr
        right
        simp only [aH, Option.some.injEq] at hr
        refine ⟨junk, hjl, hnz, hr.symm, ?_, ?_⟩
        · show hdrPos g (endPos g 0 (frs A ++ fs.take i)) % g.B + 7 + pH.length = g.B
          rw [hpl]; omega
        · show nextPos g (endPos g 0 (frs A ++ fs.take i)) pH.length < n * g.fileBytes
          unfold nextPos; rw [hpl]; omega

theorem take_succ_get {α : Type} {l : List α} {i : Nat} {x : α} (h : l[i]? = some x) :
    l.take (i + 1) = l.take i ++ [x] := by
  rw [List.take_succ, h]; rfl

/-- **the cut falls in the payload of new frame `i`** -/
theorem CutCtx.class_pay (c : CutCtx g F A fs L W res n Pm res' X J Jfull) (hfs : fs ≠ []) (i : Nat) (fr : Frm)
    (hfr : fs[i]? = some fr) (h1 : hdrPos g (endPos g 0 (frs A ++ fs.take i)) + 7 ≤ Pm.length)
    (h2 : Pm.length < hdrPos g (endPos g 0 (frs A ++ fs.take i)) + 7 + fr.2.length) :
    DiskX g X F J ∨ DiskX g X F Jfull := by
  have hB7 := G.Bpos g
  have hfb := fileBytes_pos g
  obtain ⟨t, p⟩ := fr
  simp only at h2
  have hilt : i < fs.length := by
    rcases Nat.lt_or_ge i fs.length with h | h
    · exact h
    · rw [List.getElem?_eq_none h] at hfr; cases hfr
  obtain ⟨p1, p2, p3, p4⟩ := c.pre i
  have hfrs := frs_prefix g F A fs (endPos g 0 (frs A)) i
  have hbytes := c.cut_bytes i (t, p) hfr (by omega) (by simp only; omega)
  simp only at hbytes
  have hroom := hdrPos_room g (endPos g 0 (frs A ++ fs.take i))
  have hhle := le_hdrPos g (endPos g 0 (frs A ++ fs.take i))
  have hge := c.hdr_ge hfs i
  have hEi := flatJ0_len g _ p3.rawLen (by rw [hfrs]; exact p1)
  rw [hfrs] at hEi
  obtain ⟨cs, x, hn, hpos, hfull, ⟨z, hflat⟩, hX, hlast⟩ := c.hrt
  have hne : cs ≠ [] := by intro e; rw [e] at hn; simp at hn; omega
  -- the frame fits its block
  have hdrop : fs.drop i = (t, p) :: fs.drop (i + 1) := by
    have := split_at hfr
    conv => lhs; rw [this]
    rw [List.drop_left' (by simp [List.length_take]; omega)]
  have hfitp : hdrPos g (endPos g 0 (frs A ++ fs.take i)) % g.B + 7 + p.length ≤ g.B := by
    rw [hdrop] at p4
    exact maxFrameLen_pos g _ _ p4.1
  -- nothing is left of an old residue
  have hres0 : res' = [] := by
    rw [c.hresd]
    apply List.drop_of_length_le
    rcases c.hres with he | ⟨r1, _, _, _⟩
    · rw [he]; simp
    · omega
  -- the bytes of the frame that reached the disk
  have hc7 : Pm.length - hdrPos g (endPos g 0 (frs A ++ fs.take i)) =
      7 + (Pm.length - hdrPos g (endPos g 0 (frs A ++ fs.take i)) - 7) := by omega
  have henc : (encodeFrame t p).take (Pm.length - hdrPos g (endPos g 0 (frs A ++ fs.take i))) =
      encodeHeader t p ++ p.take (Pm.length - hdrPos g (endPos g 0 (frs A ++ fs.take i)) - 7) := by
    rw [hc7]
    unfold encodeFrame
    rw [List.take_append, List.take_of_length_le (by rw [length_encodeHeader]; omega), length_encodeHeader,
      Nat.add_sub_cancel_left]
  generalize hi' : Pm.length - hdrPos g (endPos g 0 (frs A ++ fs.take i)) - 7 = i' at henc
  have hi'lt : i' < p.length := by omega
  have hstream : cs.flatten = flatJ g 0 (A ++ plain ((tagFrom g F (endPos g 0 (frs A)) fs).take i)) ++
      zeros (hdrPos g (endPos g 0 (frs A ++ fs.take i)) - endPos g 0 (frs A ++ fs.take i)) ++
      (encodeHeader t p ++ p.take i') ++ zeros z := by
    rw [hflat, hres0]
    conv => lhs; rw [hbytes, henc]
    simp only [List.append_assoc, List.append_nil]
  have hzlen : hdrPos g (endPos g 0 (frs A ++ fs.take i)) + 7 + i' + z = n * g.fileBytes := by
    have := congrArg List.length hstream
    rw [flatten_length_full _ _ hfull, hn] at this
    simp only [List.length_append, length_zeros, hEi, length_encodeHeader, List.length_take] at this
    omega
  have hblk : hdrPos g (endPos g 0 (frs A ++ fs.take i)) + 7 + p.length ≤ n * g.fileBytes := by
    have hb := block_le (by omega : 0 < g.B) (mul_fileBytes_mod g n)
      (show hdrPos g (endPos g 0 (frs A ++ fs.take i)) < n * g.fileBytes by omega)
    have hd := Nat.div_add_mod (hdrPos g (endPos g 0 (frs A ++ fs.take i))) g.B
    rw [Nat.add_mul, Nat.one_mul, Nat.mul_comm] at hb
    omega
  have hcur : endCursor g 0 (frs A ++ fs.take i) = endPos g 0 (frs A ++ fs.take i) % g.B := by
    have := endCursor_pos g (frs A ++ fs.take i) 0 (by rw [zero_mod]; exact p1)
    rwa [zero_mod] at this
  have hp'len : (p.take i' ++ zeros (p.length - i')).length = p.length := tornFrame_len t p i' hi'lt
  -- the slot as an item with bytes `sb`, whose placeholder has a payload of the size of `p`
  have hflatS : ∀ (a : AItm), a.1.2.2.length = p.length →
      flatJ g 0 (A ++ plain ((tagFrom g F (endPos g 0 (frs A)) fs).take i) ++ [a]) =
        flatJ g 0 (A ++ plain ((tagFrom g F (endPos g 0 (frs A)) fs).take i)) ++
        zeros (hdrPos g (endPos g 0 (frs A ++ fs.take i)) - endPos g 0 (frs A ++ fs.take i)) ++ slot a := by
    intro a _
    rw [flatJ_append, hfrs, hcur, flatJ_hdrPos g _ [a] (by simp), List.append_assoc]
    congr 2
    simp only [flatJ, padLen_hdrPos, zeros, List.replicate_zero, List.nil_append, List.append_nil]
  by_cases hpp : p.take i' ++ zeros (p.length - i') = p
  · -- the lost bytes were zeros: the frame is complete
    obtain ⟨q1, q2, q3, _⟩ := c.pre (i + 1)
    obtain ⟨xx, hx, hxf⟩ := tagged_at g F fs (endPos g 0 (frs A)) i (t, p) hfr
    have hfrs1 := frs_prefix g F A fs (endPos g 0 (frs A)) (i + 1)
    have htk : A ++ plain ((tagFrom g F (endPos g 0 (frs A)) fs).take (i + 1)) =
        A ++ plain ((tagFrom g F (endPos g 0 (frs A)) fs).take i) ++ [(xx, none)] := by
      rw [take_succ_get hx, plain_append, List.append_assoc]; rfl
    have hE1 : endPos g 0 (frs A ++ fs.take (i + 1)) =
        hdrPos g (endPos g 0 (frs A ++ fs.take i)) + 7 + p.length := by
      rw [take_succ_get hfr, ← List.append_assoc, endPos_append]; rfl
    have hsl : slot ((xx, none) : AItm) = encodeHeader t p ++ (p.take i' ++ zeros (p.length - i')) := by
      simp only [slot, Option.getD_none, hxf, encodeFrame, hpp]
    have hsegs : SegsX F J (A ++ plain ((tagFrom g F (endPos g 0 (frs A)) fs).take (i + 1))) ∨
        SegsX F Jfull (A ++ plain ((tagFrom g F (endPos g 0 (frs A)) fs).take (i + 1))) := by
      by_cases hlt : i + 1 < fs.length
      · left; simpa using c.hseg1 (i + 1) hlt [] (Or.inl rfl)
      · right
        rw [List.take_of_length_le (by rw [tagFrom_length]; omega)]
        exact c.hseg2
    have hd : ∀ J0, SegsX F J0 (A ++ plain ((tagFrom g F (endPos g 0 (frs A)) fs).take (i + 1))) → DiskX g X F J0 := by
      intro J0 hs
      refine ⟨cs, x, _, [], 0, hne, hfull, ⟨z - (p.length - i'), ?_⟩, by rw [hX, hn], ?_,
        by rw [hfrs1]; exact q1, q2, by rw [hn]; exact q3, Or.inl rfl, hs⟩
      · rw [hstream, htk, hflatS _ (by simp only [hxf]), hsl]
        simp only [zeros, List.replicate_zero, List.append_nil, List.append_assoc]
        congr 4
        rw [← zeros, ← zeros, ← zeros, ← zeros_add]
        congr 1
        omega
      · rw [hn, hfrs1, hE1]
        have := le_hdrPos g (hdrPos g (endPos g 0 (frs A ++ fs.take i)) + 7 + p.length)
        omega
    rcases hsegs with hs | hs
    · exact Or.inl (hd J hs)
    · exact Or.inr (hd Jfull hs)
  · -- the checksum fails: a junk slot
    left
    have hcrc := c.htorn (t, p) (List.mem_of_getElem? hfr) i' hi'lt hpp
    simp only at hcrc
    let aP : AItm := ((F + hdrPos g (endPos g 0 (frs A ++ fs.take i)) / g.fileBytes,
      (t, p.take i' ++ zeros (p.length - i'))), some (tornFrame t p i').bytes)
    have hslP : slot aP = encodeHeader t p ++ (p.take i' ++ zeros (p.length - i')) := by
      show (tornFrame t p i').bytes = _
      exact tornFrame_bytes t p i' hi'lt
    have hfrsP : frs (A ++ plain ((tagFrom g F (endPos g 0 (frs A)) fs).take i) ++ [aP]) =
        (frs A ++ fs.take i) ++ [(t, p.take i' ++ zeros (p.length - i'))] := by rw [frs_append, hfrs]; rfl
    have hEP : endPos g 0 ((frs A ++ fs.take i) ++ [(t, p.take i' ++ zeros (p.length - i'))]) =
        hdrPos g (endPos g 0 (frs A ++ fs.take i)) + 7 + p.length := by
      rw [endPos_append]
      show nextPos g _ (p.take i' ++ zeros (p.length - i')).length = _
      rw [hp'len]; rfl
    have hseg := c.hseg1 i hilt [aP] (Or.inr ⟨aP, _, rfl, rfl⟩)
    refine ⟨cs, x, _, [], 0, hne, hfull, ⟨z - (p.length - i'), ?_⟩, by rw [hX, hn], ?_, ?_, ?_, ?_, Or.inl rfl, hseg⟩
    · rw [hstream, hflatS aP hp'len, hslP]
      simp only [zeros, List.replicate_zero, List.append_nil, List.append_assoc]
      congr 4
      rw [← zeros, ← zeros, ← zeros, ← zeros_add]
      congr 1
      omega
    · rw [hn, hfrsP, hEP]
      have := le_hdrPos g (hdrPos g (endPos g 0 (frs A ++ fs.take i)) + 7 + p.length)
      omega
    · rw [hfrsP, Fits_append, hcur]
      refine ⟨p1, ?_, trivial⟩
      show (p.take i' ++ zeros (p.length - i')).length ≤ maxFrameLen g (endPos g 0 (frs A ++ fs.take i) % g.B)
      rw [hp'len]
      rw [hdrop] at p4
      exact p4.1
    · rw [tfs_append, Tagged_append]
      refine ⟨p2, ?_, trivial⟩
      show F + hdrPos g (endPos g 0 (frs A ++ fs.take i)) / g.fileBytes = _
      rw [← frs, hfrs]
    · rw [hn, JOK_append]
      refine ⟨p3, ?_, trivial⟩
      intro r hr
      left
      simp only [aP, Option.some.injEq] at hr
      refine ⟨leBytes (frameCrc t p) 4, length_leBytes _ _, hr.symm, ?_⟩
      have hev := tornFrame_ev t p i'
      rw [if_neg hcrc] at hev
      exact hev

/-- **every crash state of the write of the frames is a tape of items again** -/
theorem CutCtx.classify (c : CutCtx g F A fs L W res n Pm res' X J Jfull) (hfs : fs ≠ []) :
    DiskX g X F J ∨ DiskX g X F Jfull := by
  have hEW : endPos g 0 (frs A) ≤ Pm.length := by
    have := le_hdrPos g (endPos g 0 (frs A))
    have := c.hm1
    rcases c.hW with h | h <;> omega
  have hm2 := c.hm2
  rw [endPos_append] at hm2
  obtain ⟨i, hi, h⟩ := cut_pos g fs (endPos g 0 (frs A)) Pm.length hEW hm2
  have he : endPos g 0 (frs A ++ fs.take i) = endPos g (endPos g 0 (frs A)) (fs.take i) := endPos_append g _ _ _
  rcases h with ⟨h1, h2⟩ | ⟨fr, hfr, h1, h2⟩
  · exact c.class_pad hfs i hi (by rw [he]; exact h1) (by rw [he]; exact h2)
  · by_cases h6 : Pm.length ≤ hdrPos g (endPos g 0 (frs A ++ fs.take i)) + 6
    · exact Or.inl (c.class_hdr hfs i fr hfr (by rw [he]; exact h1) h6)
    · exact c.class_pay hfs i fr hfr (by omega) (by rw [he]; exact h2)

end

end MRL.L
