/-
Structural invariant of reachable logs used by the journal theorem (tracked files ascending and
containing the current file, every handle on a tracked file, queue invariant) and what one entry
write and one GC pass do to it.
-/
import MRL.Proofs.JStep

namespace MRL
open C05
namespace Log

/-- every handle held by a queue satisfies `P` -/
def HandlesIn (P : Nat → Prop) (qs : MemQueues) : Prop :=
  ∀ kv ∈ qs, ∀ r ∈ kv.2.recs, ∀ f, r.file = some f → P f

structure HInv (l : Log) : Prop where
  files : FilesWF l
  inv : Inv l
  handles : HandlesIn (· ∈ l.files) l.queues

theorem head_le_of_mem {fs : List Nat} (hs : fs.Pairwise (· < ·)) {x : Nat} (hx : x ∈ fs) :
    fs.headD 0 ≤ x := by
  cases fs with
  | nil => cases hx
  | cons a as =>
    simp only [List.headD_cons]
    rcases List.mem_cons.mp hx with rfl | h
    · exact Nat.le_refl _
    · exact Nat.le_of_lt ((List.pairwise_cons.mp hs).1 x h)

theorem headD_append {fs : List Nat} (h : fs ≠ []) (e : List Nat) : (fs ++ e).headD 0 = fs.headD 0 := by
  cases fs with
  | nil => exact absurd rfl h
  | cons a as => rfl

theorem FilesWF.ne_nil {l : Log} (h : FilesWF l) : l.files ≠ [] := by
  intro e; have := h.cur_mem; rw [e] at this; cases this

theorem Grow.head {l l' : Log} (hl : FilesWF l) (h : Grow l l') : l'.files.headD 0 = l.files.headD 0 := by
  obtain ⟨e, he⟩ := h.ext
  rw [he, headD_append hl.ne_nil]

theorem Grow.mem {l l' : Log} (h : Grow l l') {f : Nat} (hf : f ∈ l.files) : f ∈ l'.files := by
  obtain ⟨e, he⟩ := h.ext
  rw [he]; exact List.mem_append_left _ hf

/-! ### handles through the queue operations -/

theorem dropLastHandle_mem {rs : List Rec} {file : Nat} {r : Rec}
    (h : r ∈ MemQueue.dropLastHandle rs file) : r.file = none ∨ r ∈ rs := by
  unfold MemQueue.dropLastHandle at h
  split at h
  · rename_i last hl
    split at h
    · rcases List.mem_append.mp h with h | h
      · right; exact List.dropLast_subset _ h
      · simp only [List.mem_singleton] at h; left; rw [h]
    · right; exact h
  · right; exact h

theorem appendRecord_handles {P : Nat → Prop} {q q' : MemQueue} {file pos : Nat} {pl : Bytes}
    (hq : ∀ r ∈ q.recs, ∀ f, r.file = some f → P f) (hf : P file)
    (h : q.appendRecord file pos pl = some q') : ∀ r ∈ q'.recs, ∀ f, r.file = some f → P f := by
  unfold MemQueue.appendRecord at h
  split at h
  · cases h
  · cases h
    intro r hr f hrf
    rcases List.mem_append.mp hr with h1 | h1
    · rcases dropLastHandle_mem h1 with h2 | h2
      · rw [h2] at hrf; cases hrf
      · exact hq r h2 f hrf
    · simp only [List.mem_singleton] at h1
      rw [h1] at hrf
      simp only [Option.some.injEq] at hrf
      rw [← hrf]; exact hf

theorem appendAll_handles {P : Nat → Prop} (file : Nat) (hf : P file) (rs : List (Nat × Bytes)) :
    ∀ {q q' : MemQueue}, (∀ r ∈ q.recs, ∀ f, r.file = some f → P f) →
    appendAll q file rs = some q' → ∀ r ∈ q'.recs, ∀ f, r.file = some f → P f := by
  induction rs with
  | nil => intro q q' hq h; cases h; exact hq
  | cons x xs ih =>
    intro q q' hq h
    obtain ⟨p, pl⟩ := x
    simp only [appendAll] at h
    cases h1 : q.appendRecord file p pl with
    | none => rw [h1] at h; cases h
    | some q1 => rw [h1] at h; exact ih (appendRecord_handles hq hf h1) h

theorem truncateHead_subset (q : MemQueue) (p : Nat) : ∀ r ∈ (q.truncateHead p).1.recs, r ∈ q.recs := by
  unfold MemQueue.truncateHead
  split
  · intro r h; exact h
  · split
    · intro r h; cases h
    · intro r h; exact List.mem_of_mem_drop h

theorem HandlesIn.set {P : Nat → Prop} {qs : MemQueues} (h : HandlesIn P qs) (n : Bytes)
    {q : MemQueue} (hq : ∀ r ∈ q.recs, ∀ f, r.file = some f → P f) : HandlesIn P (qs.set n q) := by
  intro kv hkv
  rcases mem_set hkv with h1 | h1
  · exact h kv h1
  · subst h1; exact hq

theorem HandlesIn.remove {P : Nat → Prop} {qs : MemQueues} (h : HandlesIn P qs) (n : Bytes) :
    HandlesIn P (qs.remove n) := fun kv hkv => h kv (mem_remove hkv)

theorem HandlesIn.ackPosition {P : Nat → Prop} {qs : MemQueues} (h : HandlesIn P qs) (n : Bytes)
    (p : Nat) : HandlesIn P (qs.ackPosition n p) := by
  have hw : ∀ r ∈ (MemQueue.withNextPosition p).recs, ∀ f, r.file = some f → P f := by
    intro r hr; cases hr
  unfold MemQueues.ackPosition
  split
  · split
    · exact h.set n hw
    · exact h
  · exact h.set n hw

theorem HandlesIn.get {P : Nat → Prop} {qs : MemQueues} (h : HandlesIn P qs) {n : Bytes}
    {q : MemQueue} (hg : qs.get? n = some q) : ∀ r ∈ q.recs, ∀ f, r.file = some f → P f :=
  h (n, q) (get_mem hg)

theorem replayEntry_handles {P : Nat → Prop} {qs qs' : MemQueues} {file : Nat} {e : Entry}
    (h : HandlesIn P qs) (hf : P file) (hr : replayEntry qs file e = some qs') : HandlesIn P qs' := by
  cases e with
  | touch q p => simp only [replayEntry, Option.some.injEq] at hr; subst hr; exact h.ackPosition q p
  | delete q p => simp only [replayEntry, Option.some.injEq] at hr; subst hr; exact h.remove q
  | truncate q p =>
    simp only [replayEntry] at hr
    cases hg : qs.get? q with
    | none => rw [hg] at hr; cases hr; exact h
    | some mq =>
      rw [hg] at hr; cases hr
      exact h.set q fun r hr f hrf => h.get hg r (truncateHead_subset mq p r hr) f hrf
  | append q pos recs =>
    simp only [replayEntry] at hr
    have h1 : HandlesIn P (if qs.contains q then qs else qs.ackPosition q pos) := by
      split
      · exact h
      · exact h.ackPosition q pos
    cases hg : (if qs.contains q then qs else qs.ackPosition q pos).get? q with
    | none => rw [hg] at hr; cases hr
    | some mq =>
      simp only [hg] at hr
      cases ha : appendAll mq file recs with
      | none => rw [ha] at hr; cases hr
      | some mq' =>
        rw [ha] at hr; cases hr
        exact h1.set q (appendAll_handles file hf recs (h1.get hg) ha)

/-! ### one entry write -/

/-- the log after writing entry `e` and installing the queues `qs'` -/
theorem write_hinv (g : Geom) (l : Log) (e : Entry) (qs' : MemQueues) (h : HInv l)
    (hr : replayEntry l.queues l.cur e = some qs')
    (hinv : Inv { (writeEntry g l e).1 with queues := qs' }) :
    HInv { (writeEntry g l e).1 with queues := qs' } := by
  have hg := writeEntry_grow g l e h.files
  refine ⟨⟨hg.wf.sorted, hg.wf.cur_mem⟩, hinv, ?_⟩
  show HandlesIn (· ∈ (writeEntry g l e).1.files) qs'
  have h0 : HandlesIn (· ∈ (writeEntry g l e).1.files) l.queues :=
    fun kv hkv r hr f hf => hg.mem (h.handles kv hkv r hr f hf)
  exact replayEntry_handles h0 (hg.mem h.files.cur_mem) hr

/-! ### one GC pass -/

theorem refsFile_of_handle {qs : MemQueues} {kv : Bytes × MemQueue} (hkv : kv ∈ qs) {r : Rec}
    (hr : r ∈ kv.2.recs) {f : Nat} (hf : r.file = some f) : qs.refsFile f = true := by
  unfold MemQueues.refsFile MemQueue.refsFile
  simp only [List.any_eq_true]
  exact ⟨kv, hkv, r, hr, by simp [hf]⟩

theorem gc_facts (g : Geom) (l2 : Log) (order : List Bytes) (h : HInv l2) (F : Nat) (hF : F ≤ l2.cur) :
    HInv (runGc g l2 order).1 ∧
    (runGc g l2 order).1.queues = l2.queues ∧
    Chunk l2.cur (gcJ g l2 order) (runGc g l2 order).1.cur ∧
    replayJ F l2.queues (gcJ g l2 order) = some l2.queues ∧
    ((runGc g l2 order).1.files.headD 0 = l2.files.headD 0 ∨
      (l2.files.headD 0 ≤ (runGc g l2 order).1.files.headD 0 ∧
       (∀ j ∈ gcJ g l2 order, (runGc g l2 order).1.files.headD 0 ≤ j.loc ∧ ∃ n p, j.e = .touch n p) ∧
       (∀ n ∈ l2.queues.emptyNames, ∃ j ∈ gcJ g l2 order, j.e.queue = n))) := by
  rcases runGc_shape g l2 order h.inv.1 with ⟨hj, hl⟩ | ⟨names, rem, del, hj, hl, hgc, hnames⟩
  · rw [hj, hl]
    exact ⟨h, rfl, Chunk.nil (Nat.le_refl _), rfl, Or.inl rfl⟩
  · have hgrow := writeTouches_grow g names l2 h.files
    obtain ⟨hsplit, hdel, hne⟩ := gcFiles_spec _ _ _ _ hgc
    have hsorted3 := hgrow.wf.sorted
    rw [hsplit] at hsorted3
    have hrem_sorted : rem.Pairwise (· < ·) := (List.pairwise_append.mp hsorted3).2.1
    -- a file that is the writer's, pinned, or referenced is not deleted
    have hkeep : ∀ f ∈ (writeTouches g l2 names).1.files,
        (f = (writeTouches g l2 names).1.cur ∨ f = l2.cur ∨
          (writeTouches g l2 names).1.queues.refsFile f = true) → f ∈ rem := by
      intro f hf hc
      rw [hsplit] at hf
      rcases List.mem_append.mp hf with hd | hr
      · have := hdel f hd
        unfold canDelete at this
        simp only [Bool.and_eq_true, bne_iff_ne, ne_eq, Bool.not_eq_eq_eq_not, Bool.not_true] at this
        rcases hc with hc | hc | hc
        · exact absurd hc this.1.1
        · exact absurd hc this.1.2
        · rw [hc] at this; exact absurd this.2 (by simp)
      · exact hr
    have hcur_rem : (writeTouches g l2 names).1.cur ∈ rem := hkeep _ hgrow.wf.cur_mem (Or.inl rfl)
    have hpin_rem : l2.cur ∈ rem := hkeep _ (hgrow.mem h.files.cur_mem) (Or.inr (Or.inl rfl))
    have hq3 : (writeTouches g l2 names).1.queues = l2.queues := hgrow.queues
    rw [hl, hj]
    refine ⟨⟨⟨hrem_sorted, hcur_rem⟩, Inv.of_queues hq3 h.inv, ?_⟩, hq3,
      touchesJ_chunk g names l2 h.files, ?_, Or.inr ⟨?_, ?_, ?_⟩⟩
    · show HandlesIn (· ∈ rem) (writeTouches g l2 names).1.queues
      intro kv hkv r hr f hf
      have hkv2 : kv ∈ l2.queues := by rw [← hq3]; exact hkv
      exact hkeep f (hgrow.mem (h.handles kv hkv2 r hr f hf))
        (Or.inr (Or.inr (refsFile_of_handle hkv hr hf)))
    · exact touches_replay g F names l2 h.files hF h.inv.1 (fun n hn => (hnames n).mp hn)
    · show l2.files.headD 0 ≤ rem.headD 0
      have hmem : rem.headD 0 ∈ (writeTouches g l2 names).1.files := by
        rw [hsplit]
        apply List.mem_append_right
        cases rem with
        | nil => cases hcur_rem
        | cons a as => simp
      rw [← hgrow.head h.files]
      exact head_le_of_mem hgrow.wf.sorted hmem
    · intro j hjm
      have hb := (touchesJ_chunk g names l2 h.files).bounds j hjm
      have hle : rem.headD 0 ≤ l2.cur := head_le_of_mem hrem_sorted hpin_rem
      refine ⟨?_, (touchesJ_entries g names l2).2 j hjm⟩
      show rem.headD 0 ≤ j.loc
      omega
    · intro n hn
      have hn' : n ∈ names := (hnames n).mpr hn
      rw [← (touchesJ_entries g names l2).1] at hn'
      obtain ⟨j, hjm, hjq⟩ := List.mem_map.mp hn'
      exact ⟨j, hjm, hjq⟩

end Log
end MRL
