/-
The *journal*: the sequence of WAL entries a history writes, each with the file it is located in
(where its first frame header lies) and the file it is attributed to (the writer's current file
before the entry is written = the reader's current file before it is read). Layer B of the
restart proof reasons about replaying (suffixes of) the journal, without bytes.
-/
import MRL.Model.Recovery

namespace MRL
open Consts

structure JE where
  /-- file containing the first frame header of the entry -/
  loc : Nat
  /-- `current_file()` of the writer before the entry is written -/
  attr : Nat
  e : Entry
  deriving Repr

namespace Log

/-- the file the writer will be in after a roll-over -/
def rollTarget (l : Log) : Nat :=
  match nextFile l.files l.cur with
  | some nf => nf
  | none => l.cur + 1

/-- where the first frame header of the next entry will be written: after the padding if fewer
    than `HEADER_LEN` bytes remain in the block, in the next file if that is the end of the file -/
def nextLoc (g : Geom) (l : Log) : Nat :=
  let off1 := if g.B - l.off % g.B < HEADER_LEN then l.off + (g.B - l.off % g.B) else l.off
  if off1 ≥ g.fileBytes then l.rollTarget else l.cur

def je (g : Geom) (l : Log) (e : Entry) : JE := { loc := l.nextLoc g, attr := l.cur, e := e }

/-- journal entries of `writeTouches` -/
def touchesJ (g : Geom) (l : Log) : List Bytes → List JE
  | [] => []
  | name :: rest =>
    let next := match l.queues.get? name with
      | some q => q.nextPosition
      | none => 0
    let e := Entry.touch name next
    l.je g e :: touchesJ g (l.writeEntry g e).1 rest

/-- journal entries of `runGc` -/
def gcJ (g : Geom) (l : Log) (order : List Bytes) : List JE :=
  match l.files with
  | f :: _ :: _ =>
    if l.canDelete l.cur f then
      let names := if isPermOf order l.queues.emptyNames then order else l.queues.emptyNames
      touchesJ g l names
    else []
  | _ => []

/-- journal entries written by one API call, in order (mirrors `step`) -/
def stepJ (g : Geom) (l : Log) (c : Call) (order : List Bytes) : List JE :=
  match c with
  | .create q => if l.queues.contains q then [] else [l.je g (.touch q 0)]
  | .delete q =>
    match l.queues.get? q with
    | none => []
    | some mq =>
      let e := Entry.delete q mq.nextPosition
      let l1 := (l.writeEntry g e).1
      let l2 := { l1 with queues := l1.queues.remove q }
      l.je g e :: gcJ g l2 order
  | .append q pos? payloads =>
    match l.queues.get? q with
    | none => []
    | some mq =>
      let next := mq.nextPosition
      match (match pos? with
             | some p => if p + 1 = next then some none else if p < next then none else some (some p)
             | none => some (some next)) with
      | none => []
      | some none => []
      | some (some pos) =>
        if payloads.isEmpty then [] else [l.je g (.append q pos (numberFrom pos payloads))]
  | .truncate q p =>
    match l.queues.get? q with
    | none => []
    | some mq =>
      let e := Entry.truncate q p
      let l1 := (l.writeEntry g e).1
      let l2 := { l1 with queues := l1.queues.set q (mq.truncateHead p).1 }
      l.je g e :: gcJ g l2 order
  | .persist _ => []

end Log

/-- replay of the journal entries located in files `≥ F`, attributed as the reader attributes
    them when `F` is the first file: `max attr F` -/
def replayJ (F : Nat) (qs : MemQueues) : List JE → Option MemQueues
  | [] => some qs
  | j :: js =>
    if j.loc < F then replayJ F qs js
    else (replayEntry qs (max j.attr F) j.e).bind fun qs' => replayJ F qs' js

/-- Observational equivalence of two in-memory queue maps: same names, and for each name the
    same records (positions, payloads, file handles) and the same next position. `start` of a
    non-empty queue is not compared: it only shows in `summary().start`. -/
def QEquiv (a b : MemQueue) : Prop := a.recs = b.recs ∧ a.nextPosition = b.nextPosition

def QsEquiv (a b : MemQueues) : Prop :=
  ∀ name, match a.get? name, b.get? name with
    | some x, some y => QEquiv x y
    | none, none => True
    | _, _ => False

/-- decidable version of `QsEquiv` over the names of both maps (used by the driver to test the
    journal invariant on every real history before it is proved) -/
def qsEquivB (a b : MemQueues) : Bool :=
  (a.map (·.1) ++ b.map (·.1)).all fun name =>
    match a.get? name, b.get? name with
    | some x, some y => x.recs == y.recs && x.nextPosition == y.nextPosition
    | none, none => true
    | _, _ => false

end MRL
