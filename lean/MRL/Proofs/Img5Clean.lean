/-
The `ReachD`-level collision clause `Img.NoAccidentalFrameImg g W W'` (all frame layouts `fs` of the
tape of `W`: `TapeLayout`, the stream is the layout of `fs` then ZEROS) is NOT vacuous: unlike
`ItemTape`, a `TapeLayout` pins the frames down. On an image whose stream is a whole number of
blocks:
* `locs_eq_accepted`: if the positions passing the acceptance test on `W` are as many as the frames
  the reader reads (`W` is clean) and are listed in increasing order, then for EVERY layout `fs` of
  the tape, `locs g 0 fs` IS that list — the layout is unique (`tapeLayout_unique`);
* `noAccImg_of_clean`: `Img.CleanDamage g W W'` implies `Img.NoAccidentalFrameImg g W W'`.
So the clause can be checked on concrete images by evaluation, and the existential layout of
`C09V.C09_recover_one_frame_all` can be instantiated.
-/
import MRL.Proofs.Img4Clean
import MRL.Proofs.ImgRead

namespace MRL.Img
open MRL Consts Codec Torn G H L Gen

theorem locs_fit (g : Geom) (fs : List Frm) : ∀ (P : Nat), Fits g (P % g.B) fs →
    ∀ x ∈ locs g P fs, x.1 % g.B + 7 + x.2.2.length ≤ g.B := by
  induction fs with
  | nil => intro P _ x hx; cases hx
  | cons fr fs ih =>
    intro P hF x hx
    rw [G.Fits_pos_cons] at hF
    simp only [locs, List.mem_cons] at hx
    rcases hx with rfl | hx
    · exact G.maxFrameLen_pos g P _ hF.1
    · exact ih _ hF.2 x hx

theorem filter_isFrame_evsOf (afs : List TFrm) : ((evsOf afs).filter isFrameEv).length = afs.length := by
  induction afs with
  | nil => rfl
  | cons a afs ih => simp only [evsOf, List.map_cons, List.filter_cons, isFrameEv, if_true, List.length_cons] at ih ⊢; omega

/-- two lists sorted strictly by their first component with the same members are equal -/
theorem eq_of_sorted_of_mem {α : Type} : ∀ (l₁ l₂ : List (Nat × α)),
    l₁.Pairwise (fun a b => a.1 < b.1) → l₂.Pairwise (fun a b => a.1 < b.1) →
    (∀ x, x ∈ l₁ ↔ x ∈ l₂) → l₁ = l₂ := by
  intro l₁
  induction l₁ with
  | nil =>
    intro l₂ _ _ h
    cases l₂ with
    | nil => rfl
    | cons b u => exact absurd ((h b).mpr List.mem_cons_self) (by simp)
  | cons a t ih =>
    intro l₂ h1 h2 h
    cases l₂ with
    | nil => exact absurd ((h a).mp List.mem_cons_self) (by simp)
    | cons b u =>
      rw [List.pairwise_cons] at h1 h2
      have hab : a = b := by
        rcases List.mem_cons.mp ((h a).mp List.mem_cons_self) with e | ha
        · exact e
        · rcases List.mem_cons.mp ((h b).mpr List.mem_cons_self) with e | hb
          · exact e.symm
          · have := h1.1 b hb
            have := h2.1 a ha
            omega
      subst hab
      congr 1
      apply ih u h1.2 h2.2
      intro x
      constructor
      · intro hx
        rcases List.mem_cons.mp ((h x).mp (List.mem_cons_of_mem _ hx)) with e | hu
        · subst e; exact absurd (h1.1 x hx) (Nat.lt_irrefl _)
        · exact hu
      · intro hx
        rcases List.mem_cons.mp ((h x).mpr (List.mem_cons_of_mem _ hx)) with e | ht
        · subst e; exact absurd (h2.1 x hx) (Nat.lt_irrefl _)
        · exact ht

/-- on a clean image every frame layout of the tape is located exactly at the positions passing
    the acceptance test -/
theorem locs_mem_accepted (g : Geom) (hB : g.B ≤ 65542) (W : Image) (N : Nat)
    (hlen : (streamOf W).length = N * g.B) (hN : 0 < N)
    (hclean : (accepted g (streamOf W) N).length ≤ frameCount g ((W.map (·.1)).headD 0) (streamOf W) N)
    (fs : List Frm) (ht : TapeLayout g W fs) :
    (∀ y ∈ locs g 0 fs, y ∈ accepted g (streamOf W) N) ∧ (∀ y ∈ accepted g (streamOf W) N, y ∈ locs g 0 fs) := by
  have hB7 := G.Bpos g
  obtain ⟨hfits, z, hst⟩ := ht
  -- the frames read are those of the layout
  obtain ⟨e, hscan, _⟩ := readS_layout g hB ((W.map (·.1)).headD 0) (streamOf W) N hlen fs 0 0 z hN (by omega)
    hfits (by simpa using hst)
  have hfc : frameCount g ((W.map (·.1)).headD 0) (streamOf W) N = (locs g 0 fs).length := by
    unfold frameCount scanAt
    have : N - (0 + 1) = N - (0 + 1) := rfl
    rw [hscan]
    simp only [filter_isFrame_evsOf]
    have h1 := congrArg List.length (G.untag_tagFrom g ((W.map (·.1)).headD 0) fs (0 * g.B + 0))
    have h2 := congrArg List.length (locs_snd g fs 0)
    simp only [untag, List.length_map] at h1 h2
    omega
  rw [hfc] at hclean
  have hsub : ∀ y ∈ locs g 0 fs, y ∈ accepted g (streamOf W) N := by
    intro y hy
    have hbytes := locs_in_stream g fs 0 [] (zeros z) rfl (by rw [G.zero_mod]; exact hfits) y hy
    rw [G.zero_mod] at hbytes
    have hst' : [] ++ (layoutBufs g 0 fs).flatten ++ zeros z = streamOf W := by rw [hst]; simp
    rw [hst'] at hbytes
    have hfit := locs_fit g fs 0 (by rw [G.zero_mod]; exact hfits) y hy
    have hl := congrArg List.length hbytes
    rw [length_encodeFrame, List.length_take, List.length_drop] at hl
    have hdm : y.1 / g.B * g.B + y.1 % g.B = y.1 := by
      rw [Nat.mul_comm]; exact Nat.div_add_mod y.1 g.B
    have hk : y.1 / g.B < N := by
      have h1 : y.1 < N * g.B := by omega
      exact Nat.div_lt_of_lt_mul (by rw [Nat.mul_comm]; exact h1)
    have hacc := accepts_of_frame g (streamOf W) (y.1 / g.B) (y.1 % g.B) y.2.1 y.2.2 hfit (by omega)
      (by rw [hdm]; exact hbytes)
    have := mem_accepted g (streamOf W) N _ _ _ _ hk hacc
    rw [hdm] at this
    exact this
  have hnd : (locs g 0 fs).Nodup := by
    have := (located_locs g fs 0).sorted
    exact this.imp (fun hab he => by rw [he] at hab; exact Nat.lt_irrefl _ hab)
  exact ⟨hsub, subset_of_length_le _ _ hnd hsub hclean⟩

theorem locs_eq_accepted (g : Geom) (hB : g.B ≤ 65542) (W : Image) (N : Nat)
    (hlen : (streamOf W).length = N * g.B) (hN : 0 < N)
    (hclean : (accepted g (streamOf W) N).length ≤ frameCount g ((W.map (·.1)).headD 0) (streamOf W) N)
    (hsorted : (accepted g (streamOf W) N).Pairwise (fun a b => a.1 < b.1))
    (fs : List Frm) (ht : TapeLayout g W fs) : locs g 0 fs = accepted g (streamOf W) N := by
  obtain ⟨h1, h2⟩ := locs_mem_accepted g hB W N hlen hN hclean fs ht
  exact eq_of_sorted_of_mem _ _ (located_locs g fs 0).sorted hsorted (fun x => ⟨h1 x, h2 x⟩)

/-- **the frame layout of a clean tape is unique** -/
theorem tapeLayout_unique (g : Geom) (hB : g.B ≤ 65542) (W : Image) (N : Nat)
    (hlen : (streamOf W).length = N * g.B) (hN : 0 < N)
    (hclean : (accepted g (streamOf W) N).length ≤ frameCount g ((W.map (·.1)).headD 0) (streamOf W) N)
    (hsorted : (accepted g (streamOf W) N).Pairwise (fun a b => a.1 < b.1))
    (fs : List Frm) (ht : TapeLayout g W fs) : fs = (accepted g (streamOf W) N).map (·.2) := by
  rw [← locs_eq_accepted g hB W N hlen hN hclean hsorted fs ht, locs_snd]

/-- **the byte-level clause implies the `ReachD`-level one** -/
theorem noAccImg_of_clean (g : Geom) (hB : g.B ≤ 65542) (W W' : Image) (N : Nat)
    (hlen : (streamOf W).length = N * g.B) (hN : 0 < N) (hc : CleanDamage g W W') :
    NoAccidentalFrameImg g W W' := by
  have hB7 := G.Bpos g
  have hNd : (streamOf W).length / g.B = N := by rw [hlen, Nat.mul_div_cancel _ (by omega)]
  obtain ⟨hclean, hno⟩ := hc
  rw [hNd] at hclean hno
  intro fs ht
  obtain ⟨_, h2⟩ := locs_mem_accepted g hB W N hlen hN hclean fs ht
  intro k x t p hacc
  exact h2 _ (hno k x t p hacc)

end MRL.Img
