/-
Opening a crash tape: the files hold the first `m` bytes of the layout of the tagged frames of
the journal (lead frames, then one segment per retained entry), then zeros. `recoverPre` succeeds
and returns the replay of a prefix of the retained entries that contains every entry whose frames
were entirely written.
-/
import MRL.Proofs.HTornScan
import MRL.Proofs.HCrashTape
import MRL.Proofs.GReadLog

namespace MRL.H
open MRL Codec Consts G Torn Log

/-! ### blocks of a crash disk -/

theorem blocksOf_snoc_empty (g : Geom) (f : Nat) : ∀ (img : Image) (p : Nat),
    (blocksOf g (img ++ [(f, [])]) p).1 = (blocksOf g img p).1 := by
  intro img
  induction img with
  | nil => intro p; simp [blocksOf]
  | cons fc img ih =>
    intro p
    obtain ⟨f', c⟩ := fc
    simp only [List.cons_append, blocksOf]
    split
    · exact ih _
    · rcases h1 : blocksOf g (img ++ [(f, [])]) 1 with ⟨bs, tr⟩
      rcases h2 : blocksOf g img 1 with ⟨bs', tr'⟩
      have := ih 1
      rw [h1, h2] at this
      simp only at this ⊢
      rw [this]

/-- from the scan of the stream to `recoverPre` on the disk -/
theorem recoverPre_of_scan (g : Geom) (F : Nat) (cs : List Bytes) (hne : cs ≠ [])
    (hfull : ∀ c ∈ cs, c.length = g.fileBytes) (X : Image)
    (hX : X = imgOf F cs ∨ X = imgOf F cs ++ [(F + cs.length, [])]) (policy : Policy)
    (evs : List RdEv) (e : EndPos) (qs : MemQueues)
    (hscan : scanAt g F cs.flatten (cs.length * g.K) 0 0 = (evs, e))
    (hreplay : replay [] (assemble { within := false, buf := [], attr := F } evs) = some qs) :
    ∃ lp e0 io, recoverPre g X policy none = .ok (lp, e0, io) ∧ lp.queues = qs := by
  obtain ⟨c0, cs', hcs⟩ : ∃ c0 cs', cs = c0 :: cs' := by
    cases cs with
    | nil => exact absurd rfl hne
    | cons c0 cs' => exact ⟨c0, cs', rfl⟩
  have hc0 : c0.length = g.fileBytes := hfull c0 (by rw [hcs]; exact List.mem_cons_self)
  have hBle := B_le_fileBytes g
  -- the prepared image is the disk itself
  have hprep : (prepareImage g X).1 = X := by
    rcases hX with h | h <;> rw [h, hcs] <;> simp only [imgOf, List.cons_append, prepareImage] <;>
      rw [if_neg (by omega)]
  -- its blocks
  have hblocks : (blocksOf g X 1).1 = blksFrom g F cs.flatten 0 (cs.length * g.K) := by
    have h0 := blocksOf_imgOf g F cs 0 [] hfull (by simp)
    simp only [Nat.add_zero, List.nil_append, Nat.zero_mul] at h0
    rcases hX with h | h
    · rw [h]; exact h0
    · rw [h, blocksOf_snoc_empty]; exact h0
  have hNpos : 0 < cs.length * g.K := by
    rw [hcs]; exact Nat.mul_pos (Nat.succ_pos _) g.hK
  obtain ⟨m, hm⟩ : ∃ m, cs.length * g.K = m + 1 := ⟨cs.length * g.K - 1, by omega⟩
  rcases hbo : blocksOf g X 1 with ⟨bs, trail⟩
  rw [hbo] at hblocks
  simp only at hblocks
  rw [hm, blksFrom_succ] at hblocks
  have hbo' : blocksOf g (prepareImage g X).1 1 =
      (blkAt g F cs.flatten 0 :: blksFrom g F cs.flatten 1 m, trail) := by
    rw [hprep, hbo, hblocks]
  unfold scanAt at hscan
  have hm1 : cs.length * g.K - (0 + 1) = m := by omega
  rw [hm1] at hscan
  obtain ⟨io', hio⟩ := scanBlocks_eq_scanB g trail (blkAt g F cs.flatten 0).cost (blkAt g F cs.flatten 0) 0
    (blksFrom g F cs.flatten 1 m)
  rw [hscan] at hio
  have hb0 : (blkAt g F cs.flatten 0).file = F := by simp [blkAt]
  refine ⟨(⟨(prepareImage g X).1.map (fun x => x.1), e.file, e.idx * g.B + e.cursor, qs, policy⟩ : Log),
    (prepareImage g X).2, io', ?_, rfl⟩
  rw [Rec.recoverPre_cons g X policy none _ _ trail hbo', hio]
  simp only [ioFails, Bool.false_eq_true, if_false, Rec.finishPre, hb0, hreplay]

/-! ### a prefix of the frames of the segments -/

theorem take_flatMap_groups {α β : Type} (f : α → List β) : ∀ (l : List α) (n : Nat),
    ∃ j part, j ≤ l.length ∧ (l.flatMap f).take n = (l.take j).flatMap f ++ part ∧
      (part = [] ∨ ∃ x gs, l[j]? = some x ∧ gs ≠ [] ∧ f x = part ++ gs) ∧
      (∀ j0, j0 ≤ l.length → ((l.take j0).flatMap f).length ≤ n → j0 ≤ j) := by
  intro l
  induction l with
  | nil =>
    intro n
    exact ⟨0, [], Nat.le_refl _, by simp, Or.inl rfl, fun j0 h0 _ => by simpa using h0⟩
  | cons x l ih =>
    intro n
    by_cases hn : (f x).length ≤ n
    · obtain ⟨j, part, h1, h2, h3, h4⟩ := ih (n - (f x).length)
      refine ⟨j + 1, part, by simpa using h1, ?_, ?_, ?_⟩
      · rw [List.flatMap_cons, List.take_append, List.take_of_length_le hn, h2, List.take_succ_cons,
          List.flatMap_cons, List.append_assoc]
      · rcases h3 with h | ⟨y, gs, hy, hgs, hf⟩
        · exact Or.inl h
        · exact Or.inr ⟨y, gs, by simpa using hy, hgs, hf⟩
      · intro j0 h0 hl
        cases j0 with
        | zero => omega
        | succ j0 =>
          have := h4 j0 (by simpa using h0) (by
            rw [List.take_succ_cons, List.flatMap_cons, List.length_append] at hl; omega)
          omega
    · refine ⟨0, (f x).take n, Nat.zero_le _, ?_, Or.inr ⟨x, (f x).drop n, rfl, ?_, ?_⟩, ?_⟩
      · rw [List.flatMap_cons, List.take_append_of_le_length (by omega)]; simp
      · intro h
        have := congrArg List.length h
        simp at this; omega
      · exact (List.take_append_drop n (f x)).symm
      · intro j0 h0 hl
        cases j0 with
        | zero => exact Nat.le_refl _
        | succ j0 =>
          rw [List.take_succ_cons, List.flatMap_cons, List.length_append] at hl; omega

/-! ### reassembly of a prefix -/

theorem assemble_segs_tail : ∀ (segs : List Seg) (a : Nat) (buf : Bytes) (evs : List RdEv),
    (∀ s ∈ segs, SegOK s) →
    ∃ buf' a', assemble { within := false, buf := buf, attr := a } (evsOf (segs.flatMap (·.2)) ++ evs) =
      readerOut a segs ++ assemble { within := false, buf := buf', attr := a' } evs := by
  intro segs
  induction segs with
  | nil => intro a buf evs _; exact ⟨buf, a, by simp [evsOf, readerOut]⟩
  | cons s segs ih =>
    intro a buf evs h
    have hs := h s List.mem_cons_self
    rw [List.flatMap_cons, evsOf_append, List.append_assoc,
      assemble_tagged s.2 true _ _ hs.frames (Or.inl rfl)]
    obtain ⟨buf', a', he⟩ := ih (lastTag s.2 0) _ evs fun s' hs' => h s' (List.mem_cons_of_mem _ hs')
    refine ⟨buf', a', ?_⟩
    simp only [if_true, List.nil_append, hs.payload, readerOut, List.cons_append]
    rw [he]

/-- a proper prefix of the frames of an entry delivers nothing -/
theorem assemble_part (part : List TFrm) : ∀ (b : Bool) (gs : List TFrm) (st : AsmSt) (evs : List RdEv),
    gs ≠ [] → EntryFrames b (untag (part ++ gs)) → (b = true ∨ st.within = true) →
    ∃ st', assemble st (evsOf part ++ evs) = assemble st' evs := by
  induction part with
  | nil => intro b gs st evs _ _ _; exact ⟨st, by simp [evsOf]⟩
  | cons a part ih =>
    intro b gs st evs hgs hE hw
    obtain ⟨f, t, p⟩ := a
    simp only [List.cons_append, untag, List.map_cons] at hE
    obtain ⟨ht, htail⟩ := hE
    have hne : List.map (fun x : TFrm => x.2) (part ++ gs) ≠ [] := by simp [hgs]
    have hemp : (List.map (fun x : TFrm => x.2) (part ++ gs)).isEmpty = false := by simpa using hne
    simp only [hemp] at ht
    have hlast : t.isLast = false := by rw [ht]; cases b <;> rfl
    have hfirst : t.isFirst = b := by rw [ht]; cases b <;> rfl
    have hw2 : (st.within || t.isFirst) = true := by
      rw [hfirst]; rcases hw with h | h <;> simp [h]
    rw [evsOf_cons, List.cons_append, assemble_more st f t p _ hlast hw2]
    exact ih false gs _ evs hgs (htail hne) (Or.inr rfl)

theorem replay_snoc_corrupt (evs : List RecEv) : ∀ qs, replay qs (evs ++ [.corrupt]) = replay qs evs := by
  induction evs with
  | nil => intro qs; rfl
  | cons ev evs ih =>
    intro qs
    cases ev with
    | corrupt => simp only [List.cons_append, replay]; exact ih qs
    | entry f b =>
      simp only [List.cons_append, replay]
      cases Entry.decode b with
      | none => exact ih qs
      | some e =>
        simp only
        cases replayEntry qs f e with
        | none => rfl
        | some qs' => simp only [Option.bind_some]; exact ih qs'

theorem AttrOK_take (F : Nat) : ∀ (segs : List Seg) (a j : Nat), AttrOK F a segs → AttrOK F a (segs.take j) := by
  intro segs
  induction segs with
  | nil => intro a j _; simp [AttrOK]
  | cons s segs ih =>
    intro a j h
    cases j with
    | zero => trivial
    | succ j => exact ⟨h.1, ih _ j h.2⟩

theorem replayJ_prefix (F : Nat) (a b : List JE) (qs qf : MemQueues) (h : replayJ F qs (a ++ b) = some qf) :
    ∃ q1, replayJ F qs a = some q1 := by
  rw [replayJ_append] at h
  cases h1 : replayJ F qs a with
  | none => rw [h1] at h; cases h
  | some q1 => exact ⟨q1, rfl⟩

/-- **scanning a crash tape**: the record events delivered -/
theorem crash_scan (g : Geom) (hB : g.B ≤ 65542) (F : Nat) (cs : List Bytes) (hne : cs ≠ [])
    (hfull : ∀ c ∈ cs, c.length = g.fileBytes)
    (afs : List TFrm) (hfits : Fits g 0 (untag afs)) (htag : Tagged g F 0 afs)
    (lead : List TFrm) (segs : List Seg) (hafs : afs = lead ++ segs.flatMap (·.2))
    (hlead : ∀ a ∈ lead, a.2.1.isFirst = false) (hsok : ∀ s ∈ segs, SegOK s)
    (m z : Nat) (hm : m ≤ endPos g 0 (untag afs))
    (hflat : cs.flatten = (layoutBufs g 0 (untag afs)).flatten.take m ++ zeros z)
    (jold : Nat) (hjold : jold ≤ segs.length)
    (hold : endPos g 0 (untag (lead ++ (segs.take jold).flatMap (·.2))) ≤ m)
    (htorn : ∀ fs1 t p fs2, untag afs = fs1 ++ (t, p) :: fs2 → m < endPos g 0 (fs1 ++ [(t, p)]) → TornFrame t p) :
    ∃ j1 tailEvs evs e, jold ≤ j1 ∧ j1 ≤ segs.length ∧
      scanAt g F cs.flatten (cs.length * g.K) 0 0 = (evs, e) ∧
      (tailEvs = [] ∨ tailEvs = [RecEv.corrupt]) ∧
      assemble { within := false, buf := [], attr := F } evs = readerOut F (segs.take j1) ++ tailEvs := by
  have hB7 := G.Bpos g
  have hNpos : 0 < cs.length * g.K := by
    cases cs with
    | nil => exact absurd rfl hne
    | cons c0 cs' => exact Nat.mul_pos (Nat.succ_pos _) g.hK
  have hSlen : cs.flatten.length = cs.length * g.K * g.B := by
    rw [flatten_length_full _ _ hfull, mul_fb]
  have hL : (layoutBufs g 0 (untag afs)).flatten.length = endPos g 0 (untag afs) := layout0_len g _ hfits
  have hz : z = cs.length * g.K * g.B - m := by
    have := congrArg List.length hflat
    rw [hSlen] at this
    simp only [List.length_append, List.length_take, length_zeros, hL] at this
    omega
  have hmN : m ≤ cs.length * g.K * g.B := by
    have := congrArg List.length hflat
    rw [hSlen] at this
    simp only [List.length_append, List.length_take, length_zeros, hL] at this
    omega
  obtain ⟨n1, C, e, hn1, hscan, hC, hmono⟩ := torn_scan g hB F (cs.length * g.K) hNpos (untag afs) hfits m hm hmN
    htorn cs.flatten (by rw [hflat, hz])
  rw [tagFrom_of_Tagged g F afs 0 htag] at hscan
  have hleadlen : lead.length ≤ n1 := by
    have h0 := hmono lead.length (by rw [hafs]; simp [untag]) (by
      have h1 : (untag afs).take lead.length = untag lead := by
        rw [hafs, untag_append]; simp [untag]
      rw [h1]
      have := endPos_mono g 0 (untag lead) (untag ((segs.take jold).flatMap (·.2)))
      rw [← untag_append] at this
      omega)
    exact h0
  obtain ⟨j, part, hj, htake, hpart, hjmono⟩ := take_flatMap_groups (fun s : Seg => s.2) segs (n1 - lead.length)
  have hafstake : afs.take n1 = lead ++ ((segs.take j).flatMap (·.2) ++ part) := by
    rw [hafs, List.take_append, List.take_of_length_le hleadlen, htake]
  have hjold1 : jold ≤ j := by
    apply hjmono jold hjold
    have h0 := hmono (lead.length + ((segs.take jold).flatMap (·.2)).length) (by
      rw [hafs]
      simp only [untag, List.length_map, List.length_append]
      have : ((segs.take jold).flatMap (·.2)).length ≤ (segs.flatMap (·.2)).length := by
        conv => rhs; rw [← List.take_append_drop jold segs, List.flatMap_append, List.length_append]
        omega
      omega) (by
      have h1 : (untag afs).take (lead.length + ((segs.take jold).flatMap (·.2)).length) =
          untag (lead ++ (segs.take jold).flatMap (·.2)) := by
        rw [hafs]
        conv => lhs; rw [← List.take_append_drop jold segs, List.flatMap_append, ← List.append_assoc,
          untag_append]
        rw [List.take_left']
        simp [untag]
      rw [h1]; exact hold)
    omega
  have hsokj : ∀ s ∈ segs.take j, SegOK s := fun s hs => hsok s (List.mem_of_mem_take hs)
  have hasm : ∃ tailEvs, (tailEvs = [] ∨ tailEvs = [RecEv.corrupt]) ∧
      assemble { within := false, buf := [], attr := F } (evsOf (afs.take n1) ++ C) =
        readerOut F (segs.take j) ++ tailEvs := by
    rw [hafstake, evsOf_append, List.append_assoc, assemble_lead _ rfl lead _ hlead, evsOf_append,
      List.append_assoc]
    obtain ⟨buf', a', he⟩ := assemble_segs_tail (segs.take j) F [] (evsOf part ++ C) hsokj
    rw [he]
    have hp : ∃ st', assemble { within := false, buf := buf', attr := a' } (evsOf part ++ C) = assemble st' C := by
      rcases hpart with h | ⟨x, gs, hx, hgs, hf⟩
      · subst h; exact ⟨{ within := false, buf := buf', attr := a' }, by simp [evsOf]⟩
      · have hxm : x ∈ segs := List.mem_of_getElem? hx
        have hfr := (hsok x hxm).frames
        rw [hf] at hfr
        exact assemble_part part true gs _ C hgs hfr (Or.inl rfl)
    obtain ⟨st', hst'⟩ := hp
    rw [hst']
    rcases hC with h | ⟨f, h⟩
    · subst h; exact ⟨[], Or.inl rfl, by simp [assemble]⟩
    · subst h; exact ⟨[RecEv.corrupt], Or.inr rfl, by simp [assemble]⟩
  obtain ⟨tailEvs, htail, hasm⟩ := hasm
  exact ⟨j, tailEvs, _, e, hjold1, hj, hscan, htail, hasm⟩

theorem attrOK_of (g : Geom) (F : Nat) (afs : List TFrm) (htag : Tagged g F 0 afs) (lead : List TFrm)
    (segs : List Seg) (hafs : afs = lead ++ segs.flatMap (·.2)) (hsok : ∀ s ∈ segs, SegOK s)
    (hchain : Chain segs) (hfirst : ∀ s, segs.head? = some s → s.1.attr ≤ F) : AttrOK F F segs := by
  apply AttrOK_of_chain F segs F _ hchain
  · intro s hs
    have := hfirst s hs
    omega
  · intro s hs
    have hso := hsok s hs
    refine ⟨?_, ?_⟩
    · intro hnil
      have := hso.frames.ne_nil
      rw [hnil] at this; exact this rfl
    · intro x hx
      have hxa : x ∈ afs := by
        rw [hafs]
        exact List.mem_append_right _ (List.mem_flatMap.mpr ⟨s, hs, hx⟩)
      obtain ⟨hh, _, _, h3⟩ := tag_pos g F afs 0 htag x hxa
      rw [h3]; exact Nat.le_add_right _ _

/-- **reading a crash tape** -/
theorem crash_read (g : Geom) (hB : g.B ≤ 65542) (F : Nat) (cs : List Bytes) (hne : cs ≠ [])
    (hfull : ∀ c ∈ cs, c.length = g.fileBytes) (X : Image)
    (hX : X = imgOf F cs ∨ X = imgOf F cs ++ [(F + cs.length, [])])
    (afs : List TFrm) (hfits : Fits g 0 (untag afs)) (htag : Tagged g F 0 afs)
    (lead : List TFrm) (segs : List Seg) (hafs : afs = lead ++ segs.flatMap (·.2))
    (hlead : ∀ a ∈ lead, a.2.1.isFirst = false) (hsok : ∀ s ∈ segs, SegOK s) (hchain : Chain segs)
    (hloc : ∀ s ∈ segs, C07.WF s.1.e ∧ F ≤ s.1.loc)
    (hfirst : ∀ s, segs.head? = some s → s.1.attr ≤ F)
    (qf : MemQueues) (hrep : replayJ F [] (segs.map (·.1)) = some qf)
    (m z : Nat) (hm : m ≤ endPos g 0 (untag afs))
    (hflat : cs.flatten = (layoutBufs g 0 (untag afs)).flatten.take m ++ zeros z)
    (jold : Nat) (hjold : jold ≤ segs.length)
    (hold : endPos g 0 (untag (lead ++ (segs.take jold).flatMap (·.2))) ≤ m)
    (htorn : ∀ fs1 t p fs2, untag afs = fs1 ++ (t, p) :: fs2 → m < endPos g 0 (fs1 ++ [(t, p)]) → TornFrame t p)
    (policy : Policy) :
    ∃ j1 qs lp e0 io, jold ≤ j1 ∧ j1 ≤ segs.length ∧
      replayJ F [] ((segs.take j1).map (·.1)) = some qs ∧
      recoverPre g X policy none = .ok (lp, e0, io) ∧ lp.queues = qs := by
  obtain ⟨j, tailEvs, evs, e, hjold1, hj, hscan, htail, hasm⟩ := crash_scan g hB F cs hne hfull afs hfits htag
    lead segs hafs hlead hsok m z hm hflat jold hjold hold htorn
  have hattr := attrOK_of g F afs htag lead segs hafs hsok hchain hfirst
  obtain ⟨qs, hqs⟩ := replayJ_prefix F ((segs.take j).map (·.1)) ((segs.drop j).map (·.1)) [] qf (by
    rw [← List.map_append, List.take_append_drop]; exact hrep)
  have hreplay : replay [] (assemble { within := false, buf := [], attr := F } evs) = some qs := by
    rw [hasm]
    have hr := replay_readerOut F (segs.take j) F [] (fun s hs => hloc s (List.mem_of_mem_take hs))
      (AttrOK_take F segs F j hattr)
    rcases htail with h | h
    · subst h; rw [List.append_nil, hr, hqs]
    · subst h; rw [replay_snoc_corrupt, hr, hqs]
  obtain ⟨lp, e0, io, hrec, hq⟩ := recoverPre_of_scan g F cs hne hfull X hX policy _ e qs hscan hreplay
  exact ⟨j, qs, lp, e0, io, hjold1, hj, hqs, hrec, hq⟩

end MRL.H
