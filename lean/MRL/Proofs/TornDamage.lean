/-
Damage confined to the checksum and payload bytes of one frame (C09): the reader emits a corrupt
event for that frame and resynchronises on the next one; reassembly loses exactly the entry the
frame belongs to.
-/
import MRL.Proofs.TornMaster

namespace MRL.Torn
open MRL Consts Codec

/-- the frames of `es` are those of the first `j` entries then those of the others -/
theorem framesOf_split (g : Geom) (es : List Bytes) : ∀ (c : Nat) (hc : c < g.B) (j : Nat),
    ∃ rest, framesOf g c hc es = framesOf g c hc (es.take j) ++ rest ∧ EntriesFrames (es.drop j) rest := by
  induction es with
  | nil => intro c hc j; exact ⟨[], by simp [framesOf], by simpa using EntriesFrames.nil⟩
  | cons e es ih =>
    intro c hc j
    cases j with
    | zero => exact ⟨framesOf g c hc (e :: es), by simp [framesOf], (framesOf_spec g (e :: es) c hc).2.1⟩
    | succ j =>
      obtain ⟨rest, h, hE⟩ := ih _ (C07.cursorAfter_lt g c (totalLen (writeEntry g c e hc))) j
      refine ⟨rest, ?_, by simpa using hE⟩
      simp only [List.take_succ_cons, framesOf]
      rw [List.append_assoc, ← h]

/-- the frames after a given frame of a group are Middle/Last frames -/
theorem entryFrames_tail (l : List Frm) : ∀ (b : Bool) (x : Frm) (gs' : List Frm),
    EntryFrames b (l ++ x :: gs') → gs' ≠ [] → EntryFrames false gs' := by
  induction l with
  | nil =>
    intro b x gs' h hne
    have h' : x.1 = FrameType.ofFlags b gs'.isEmpty ∧ (gs' ≠ [] → EntryFrames false gs') := h
    exact h'.2 hne
  | cons y l ih =>
    intro b x gs' h hne
    have h' : y.1 = FrameType.ofFlags b (l ++ x :: gs').isEmpty ∧
        (l ++ x :: gs' ≠ [] → EntryFrames false (l ++ x :: gs')) := h
    exact ih false x gs' (h'.2 (by simp)) hne

/-- outside an entry, Middle/Last frames are ignored -/
theorem asm_skip_tail (f : Nat) (gs : List Frm) : ∀ (st : AsmSt) (evs : List RdEv),
    (gs = [] ∨ EntryFrames false gs) → st.within = false →
    assemble st (tagF f gs ++ evs) = assemble st evs := by
  induction gs with
  | nil => intro st evs _ _; simp [tagF]
  | cons fr gs ih =>
    intro st evs h hw
    obtain ⟨t, p⟩ := fr
    rcases h with h | h
    · cases h
    · have h' : t = FrameType.ofFlags false gs.isEmpty ∧ (gs ≠ [] → EntryFrames false gs) := h
      have hfirst : t.isFirst = false := by rw [h'.1]; cases gs.isEmpty <;> rfl
      have hstep : assemble st (tagF f ((t, p) :: gs) ++ evs) = assemble st (tagF f gs ++ evs) := by
        show assemble st (RdEv.frame f t p :: (tagF f gs ++ evs)) = _
        simp only [assemble, hw, hfirst, Bool.or_false, Bool.false_eq_true, if_false]
      rw [hstep]
      apply ih st evs _ hw
      by_cases hg : gs = []
      · exact Or.inl hg
      · exact Or.inr (h'.2 hg)

/-- reassembly when one frame of entry `a` is reported corrupt -/
theorem asm_damaged (f : Nat) (esa : List Bytes) (G gp1 gs' rest : List Frm) (x : Frm) (esr : List Bytes)
    (hG : EntriesFrames esa G) (hE : EntryFrames true (gp1 ++ x :: gs')) (hR : EntriesFrames esr rest) :
    entriesOf (assemble (st0 f) (tagF f (G ++ gp1) ++ RdEv.corrupt f :: tagF f (gs' ++ rest))) =
      (esa ++ esr).map (RecEv.entry f) := by
  rw [tagF_append, List.append_assoc]
  obtain ⟨st1, hs1, he1⟩ := asm_groups f hG (st0 f) (tagF f gp1 ++ RdEv.corrupt f :: tagF f (gs' ++ rest)) rfl
  rw [he1]
  obtain ⟨st2, hs2, he2⟩ := asm_partial f gp1 true (x :: gs') st1 (RdEv.corrupt f :: tagF f (gs' ++ rest))
    (by simp) hE (Or.inl rfl) hs1
  rw [he2]
  have hc : assemble st2 (RdEv.corrupt f :: tagF f (gs' ++ rest)) =
      RecEv.corrupt :: assemble { within := false, buf := st2.buf, attr := f } (tagF f (gs' ++ rest)) := rfl
  rw [hc, tagF_append]
  have htail : gs' = [] ∨ EntryFrames false gs' := by
    by_cases hg : gs' = []
    · exact Or.inl hg
    · exact Or.inr (entryFrames_tail gp1 true x gs' hE hg)
  rw [asm_skip_tail f gs' _ _ htail rfl]
  obtain ⟨st3, _, he3⟩ := asm_groups f hR { within := false, buf := st2.buf, attr := f } [] rfl
  rw [List.append_nil] at he3
  rw [he3]
  have hdrop : ∀ l : List RecEv, entriesOf (RecEv.corrupt :: l) = entriesOf l := fun _ => rfl
  rw [entriesOf_append, hdrop, entriesOf_append, entriesOf_entries, entriesOf_entries, List.map_append]
  simp [assemble, entriesOf]

/-- `FitsRaw` only depends on the payload lengths -/
theorem FitsRaw_damaged (g : Geom) (c : Nat) (fs1 : List Frm) (t : FrameType) (p : Bytes) (fs2 : List Frm)
    (x : Raw) (h4 : x.1.length = 4) (hp : x.2.2.length = p.length) (hF : Fits g c (fs1 ++ (t, p) :: fs2)) :
    FitsRaw g c (fs1.map good ++ x :: fs2.map good) := by
  rw [Fits_append] at hF
  obtain ⟨h1, h2, h3⟩ := hF
  rw [FitsRaw_append, endCursorRaw_good]
  refine ⟨FitsRaw_good g c fs1 h1, h4, by rw [hp]; exact h2, ?_⟩
  rw [hp]; exact FitsRaw_good g _ fs2 h3

/-- the damaged layout: the same buffers, except the one of the damaged frame -/
theorem rawLayout_damaged (g : Geom) (c : Nat) (fs1 : List Frm) (p : Bytes) (fs2 : List Frm)
    (x : Raw) (hp : x.2.2.length = p.length) :
    rawLayout g c (fs1.map good ++ x :: fs2.map good) =
      layoutBufs g c fs1 ++ (rawWrites g (endCursor g c fs1) x ++
        layoutBufs g (frameEndCursor g (endCursor g c fs1) p.length) fs2) := by
  rw [rawLayout_append, endCursorRaw_good, rawLayout_good]
  simp only [rawLayout, hp, rawLayout_good]

theorem layout_split (g : Geom) (c : Nat) (fs1 : List Frm) (t : FrameType) (p : Bytes) (fs2 : List Frm) :
    layoutBufs g c (fs1 ++ (t, p) :: fs2) =
      layoutBufs g c fs1 ++ (frameWrites g (endCursor g c fs1) t p ++
        layoutBufs g (frameEndCursor g (endCursor g c fs1) p.length) fs2) := by
  rw [layoutBufs_append]; rfl

theorem rawWrites_length (g : Geom) (c : Nat) (x : Raw) (t : FrameType) (p : Bytes) (h4 : x.1.length = 4)
    (hp : x.2.2.length = p.length) :
    (rawWrites g c x).flatten.length = (frameWrites g c t p).flatten.length := by
  rw [rawWrites_flatten, frameWrites_flatten]
  simp [length_raw_bytes x h4, length_encodeFrame, hp]

end MRL.Torn
