/-
The relaxed disk invariant with explicit witnesses (`XInvX`) and the disk-only invariant `DiskX`
(what a reader needs), over tapes of ITEMS: frames as written and junk slots left by cut writes;
plus, possibly, a residue of at most 6 junk bytes where the writer stands, in the very last block.
-/
import MRL.Proofs.LGroups
import MRL.Proofs.LLayout
import MRL.Proofs.HCall
import MRL.Proofs.HPhase

namespace MRL.L
open MRL Codec Consts G H Torn Log Buf

/-- the written bytes `P` are the bytes of the items `ais`, possibly followed by the padding up to
    the next block; `L` is the length of the tape -/
structure FLayJ (g : Geom) (F L : Nat) (P : Bytes) (ais : List AItm) : Prop where
  bytes : P = flatJ g 0 ais ++ zeros (P.length - endPos g 0 (frs ais))
  fits : Fits g 0 (frs ais)
  tagged : Tagged g F 0 (tfs ais)
  len : P.length = endPos g 0 (frs ais) ∨ P.length = hdrPos g (endPos g 0 (frs ais))
  jok : JOK g L 0 ais

/-- a residue `res` at position `W` (the items end at `E`) of a tape of length `L`: none, or at most
    6 bytes, not all zero, at a header position of the last block -/
def ResOK (g : Geom) (L W E : Nat) (res : Bytes) : Prop :=
  res = [] ∨ (res.length ≤ 6 ∧ isAllZero res = false ∧ W = hdrPos g E ∧ L ≤ (W / g.B + 1) * g.B)

/-- disk-only invariant: files `F…` full-size (the next one possibly empty), holding the bytes of
    the items `ais`, zeros, a residue, zeros; the items are lead frames and groups, the live ones
    being the retained entries of `J`; a writer resuming after the items stands in the last file -/
def DiskX (g : Geom) (X : Image) (F : Nat) (J : List JE) : Prop :=
  ∃ (cs : List Bytes) (x : Bool) (ais : List AItm) (res : Bytes) (z0 : Nat),
    cs ≠ [] ∧ (∀ c ∈ cs, c.length = g.fileBytes) ∧
    (∃ z1, cs.flatten = flatJ g 0 ais ++ zeros z0 ++ res ++ zeros z1) ∧
    X = imgOf F cs ++ xtra x (F + cs.length) ∧
    (cs.length - 1) * g.fileBytes ≤ hdrPos g (endPos g 0 (frs ais)) ∧
    Fits g 0 (frs ais) ∧ Tagged g F 0 (tfs ais) ∧ JOK g (cs.length * g.fileBytes) 0 ais ∧
    ResOK g (cs.length * g.fileBytes) (endPos g 0 (frs ais) + z0) (endPos g 0 (frs ais)) res ∧
    SegsX F J ais

structure XInvX (g : Geom) (l : Log) (D : Image) (F : Nat) (J : List JE) (init : List Bytes) (t : Bytes)
    (x : Bool) (res : Bytes) (ais lead : List AItm) (gs : List Grp) : Prop where
  tape : TapeR g l D F init t x res
  lay : FLayJ g F ((init.length + 1) * g.fileBytes) (init.flatten ++ t) ais
  resok : ResOK g ((init.length + 1) * g.fileBytes) (init.flatten ++ t).length (endPos g 0 (frs ais)) res
  hais : ais = lead ++ gs.flatMap (·.2)
  hlead : ∀ a ∈ lead, a.2 = none ∧ a.1.2.1.isFirst = false
  hmap : (liveOf gs).map (·.1) = J.filter (fun j => decide (F ≤ j.loc))
  hok : ∀ y ∈ gs, GrpOK y

theorem XInvX.congr {g : Geom} {l l' : Log} {D : Image} {F : Nat} {J : List JE} {init : List Bytes}
    {t : Bytes} {x : Bool} {res : Bytes} {ais lead : List AItm} {gs : List Grp}
    (h : XInvX g l D F J init t x res ais lead gs)
    (hf : l'.files = l.files) (hc : l'.cur = l.cur) (ho : l'.off = l.off) :
    XInvX g l' D F J init t x res ais lead gs :=
  ⟨h.tape.congr hf hc ho, h.lay, h.resok, h.hais, h.hlead, h.hmap, h.hok⟩

theorem XInvX.segs {g : Geom} {l : Log} {D : Image} {F : Nat} {J : List JE} {init : List Bytes}
    {t : Bytes} {x : Bool} {res : Bytes} {ais lead : List AItm} {gs : List Grp}
    (h : XInvX g l D F J init t x res ais lead gs) :
    SegsX F J ais := ⟨lead, gs, h.hais, h.hlead, h.hmap, h.hok⟩

theorem nextLoc_tagR (g : Geom) {l : Log} {D : Image} {F : Nat} {init : List Bytes} {t : Bytes} {x : Bool}
    {res : Bytes} (h : TapeR g l D F init t x res) :
    l.nextLoc g = F + hdrPos g (init.length * g.fileBytes + l.off) / g.fileBytes := by
  have hz := h.zero
  cases x with
  | false => exact nextLoc_tag g hz.to_tape
  | true =>
    have hfiles : l.files = List.range' F (init.length + 1 + 1) := by simpa using h.files
    have h1 : l.rollTarget = l.cur + 1 := by
      unfold rollTarget; rw [hfiles, h.cur, nextFile_rangeX]
    have h2 : (shl l F init.length).rollTarget = l.cur + 1 := by
      unfold rollTarget
      show (match nextFile (List.range' F (init.length + 1)) l.cur with | some nf => nf | none => l.cur + 1) = _
      rw [h.cur, nextFile_range]
    have h3 : l.nextLoc g = (shl l F init.length).nextLoc g := by
      rw [nextLoc_eq, nextLoc_eq, h1, h2]; rfl
    rw [h3]
    exact nextLoc_tag g hz.sh

theorem tagFrom_length (g : Geom) (F : Nat) (fs : List Frm) (p : Nat) : (tagFrom g F p fs).length = fs.length := by
  have := congrArg List.length (untag_tagFrom g F fs p)
  unfold untag at this
  rwa [List.length_map] at this

theorem XInvX.diskX {g : Geom} {l : Log} {D : Image} {F : Nat} {J : List JE} {init : List Bytes}
    {t : Bytes} {x : Bool} {res : Bytes} {ais lead : List AItm} {gs : List Grp}
    (h : XInvX g l D F J init t x res ais lead gs) :
    DiskX g D F J := by
  obtain ⟨cs, x', hn, _, hfull, ⟨z, hflat⟩, hX, hlast⟩ := rtapeR_of_tapeR h.tape
  have hne : cs ≠ [] := by intro e; rw [e] at hn; simp at hn
  have hE : endPos g 0 (frs ais) ≤ (init.flatten ++ t).length := by
    rcases h.lay.len with h1 | h1
    · omega
    · have := le_hdrPos g (endPos g 0 (frs ais)); omega
  refine ⟨cs, x', ais, res, (init.flatten ++ t).length - endPos g 0 (frs ais), hne, hfull, ⟨z, ?_⟩,
    by rw [hX, hn], ?_, h.lay.fits, h.lay.tagged, by rw [hn]; exact h.lay.jok, ?_, h.segs⟩
  · rw [hflat]
    conv => lhs; rw [h.lay.bytes]
  · rw [hn, Nat.add_sub_cancel]
    refine Nat.le_trans hlast ?_
    rcases h.lay.len with h1 | h1
    · rw [h1]; exact le_hdrPos g _
    · rw [h1]; exact Nat.le_refl _
  · rw [hn]
    have : endPos g 0 (frs ais) + ((init.flatten ++ t).length - endPos g 0 (frs ais)) = (init.flatten ++ t).length := by
      omega
    rw [this]; exact h.resok

/-- appending frames as written -/
theorem flay_appendJ (g : Geom) (F L L' : Nat) (P : Bytes) (ais : List AItm) (h : FLayJ g F L P ais) (hL : L ≤ L')
    (fs : List Frm) (hne : fs ≠ []) (hf : Fits g (P.length % g.B) fs) :
    FLayJ g F L' (P ++ (layoutBufs g (P.length % g.B) fs).flatten)
      (ais ++ plain (tagFrom g F (endPos g 0 (frs ais)) fs)) ∧
    (P ++ (layoutBufs g (P.length % g.B) fs).flatten).length = endPos g 0 (frs ais ++ fs) := by
  have hE := flatJ0_len g ais h.jok.rawLen h.fits
  have hbytes : (layoutBufs g (endPos g 0 (frs ais) % g.B) fs).flatten =
      zeros (P.length - endPos g 0 (frs ais)) ++ (layoutBufs g (P.length % g.B) fs).flatten := by
    rcases h.len with h1 | h1
    · rw [h1]; simp [zeros]
    · rw [h1]; exact layout_hdrPos g _ fs hne
  have hfits : Fits g (endPos g 0 (frs ais) % g.B) fs := by
    rcases h.len with h1 | h1
    · rw [← h1]; exact hf
    · rw [h1] at hf; exact Fits_hdrPos g _ fs hne hf
  have hend : endPos g P.length fs = endPos g (endPos g 0 (frs ais)) fs := by
    rcases h.len with h1 | h1
    · rw [h1]
    · rw [h1, endPos_hdrPos g _ fs hne]
  have hlen : (P ++ (layoutBufs g (P.length % g.B) fs).flatten).length = endPos g 0 (frs ais ++ fs) := by
    rw [List.length_append, ← totalLen_eq, totalLen_layout_pos g fs _ hf, hend, endPos_append]
  have hcur : endCursor g 0 (frs ais) = endPos g 0 (frs ais) % g.B := endCursor_frs g ais h.fits
  have hfrs : frs (ais ++ plain (tagFrom g F (endPos g 0 (frs ais)) fs)) = frs ais ++ fs := by
    rw [frs_append, frs_plain, untag_tagFrom]
  refine ⟨⟨?_, ?_, ?_, ?_, ?_⟩, hlen⟩
  · rw [hfrs, hlen, Nat.sub_self]
    simp only [zeros, List.replicate_zero, List.append_nil]
    rw [flatJ_append, hcur, flatJ_plain, untag_tagFrom, hbytes, ← List.append_assoc, ← h.bytes]
  · rw [hfrs, Fits_append, hcur]; exact ⟨h.fits, hfits⟩
  · rw [tfs_append, tfs_plain, Tagged_append]; exact ⟨h.tagged, Tagged_tagFrom g F fs _⟩
  · left; rw [hlen, hfrs]
  · rw [JOK_append]; exact ⟨h.jok.mono hL, JOK_plain g L' _ _⟩

end MRL.L
