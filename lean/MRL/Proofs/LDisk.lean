/-
The relaxed disk invariant with explicit witnesses (`XInvX`), the disk-only invariant `DiskX`
(what a reader needs), and what writing one entry / the GC touches does: new invariant, crash
states at any byte (`RTape` of a prefix cut) and at effect boundaries (`DiskX` again: the frames
of the unfinished entry are a dead group).
-/
import MRL.Proofs.LGroups
import MRL.Proofs.LLayout
import MRL.Proofs.HCall
import MRL.Proofs.HPhase

namespace MRL.L
open MRL Codec Consts G H Torn Log Buf

/-- disk-only invariant: files `F…` full-size (the next one possibly empty), holding the layout of
    tagged frames `afs` and zeros; the frames are lead frames and groups, the live ones being the
    retained entries of `J`; a writer resuming after the frames stands in the last full-size file -/
def DiskX (g : Geom) (X : Image) (F : Nat) (J : List JE) : Prop :=
  ∃ (cs : List Bytes) (x : Bool) (afs : List TFrm), cs ≠ [] ∧ (∀ c ∈ cs, c.length = g.fileBytes) ∧
    (∃ z, cs.flatten = (layoutBufs g 0 (untag afs)).flatten ++ zeros z) ∧
    X = imgOf F cs ++ xtra x (F + cs.length) ∧
    (cs.length - 1) * g.fileBytes ≤ hdrPos g (endPos g 0 (untag afs)) ∧
    Fits g 0 (untag afs) ∧ Tagged g F 0 afs ∧ SegsX F J afs

structure XInvX (g : Geom) (l : Log) (D : Image) (F : Nat) (J : List JE) (init : List Bytes) (t : Bytes)
    (x : Bool) (afs lead : List TFrm) (gs : List Grp) : Prop where
  tape : TapeX g l D F init t x
  lay : FLay g F (init.flatten ++ t) afs
  hafs : afs = lead ++ gs.flatMap (·.2)
  hlead : ∀ a ∈ lead, a.2.1.isFirst = false
  hmap : (liveOf gs).map (·.1) = J.filter (fun j => decide (F ≤ j.loc))
  hok : ∀ y ∈ gs, GrpOK y

theorem XInvX.congr {g : Geom} {l l' : Log} {D : Image} {F : Nat} {J : List JE} {init : List Bytes}
    {t : Bytes} {x : Bool} {afs lead : List TFrm} {gs : List Grp} (h : XInvX g l D F J init t x afs lead gs)
    (hf : l'.files = l.files) (hc : l'.cur = l.cur) (ho : l'.off = l.off) :
    XInvX g l' D F J init t x afs lead gs :=
  ⟨h.tape.congr hf hc ho, h.lay, h.hafs, h.hlead, h.hmap, h.hok⟩

theorem XInvX.segs {g : Geom} {l : Log} {D : Image} {F : Nat} {J : List JE} {init : List Bytes}
    {t : Bytes} {x : Bool} {afs lead : List TFrm} {gs : List Grp} (h : XInvX g l D F J init t x afs lead gs) :
    SegsX F J afs := ⟨lead, gs, h.hafs, h.hlead, h.hmap, h.hok⟩

theorem nextLoc_tagX (g : Geom) {l : Log} {D : Image} {F : Nat} {init : List Bytes} {t : Bytes} {x : Bool}
    (h : TapeX g l D F init t x) :
    l.nextLoc g = F + hdrPos g (init.length * g.fileBytes + l.off) / g.fileBytes := by
  cases x with
  | false => exact nextLoc_tag g h.to_tape
  | true =>
    have hfiles : l.files = List.range' F (init.length + 1 + 1) := by simpa using h.files
    have h1 : l.rollTarget = l.cur + 1 := by
      unfold rollTarget; rw [hfiles, h.cur, nextFile_rangeX]
    have h2 : (shl l F init.length).rollTarget = l.cur + 1 := by
      unfold rollTarget
      show (match nextFile (List.range' F (init.length + 1)) l.cur with | some nf => nf | none => l.cur + 1) = _
      rw [h.cur, nextFile_range]
    have h3 : l.nextLoc g = (shl l F init.length).nextLoc g := by
      rw [nextLoc_eq, nextLoc_eq, h1, h2]; rfl
    rw [h3]
    exact nextLoc_tag g h.sh

theorem tagFrom_length (g : Geom) (F : Nat) (fs : List Frm) (p : Nat) : (tagFrom g F p fs).length = fs.length := by
  have := congrArg List.length (untag_tagFrom g F fs p)
  unfold untag at this
  rwa [List.length_map] at this

/-- a crash state holding whole frames is a `DiskX` -/
theorem diskX_of_prefix (g : Geom) (F : Nat) (afsA rest : List TFrm)
    (hfit : Fits g 0 (untag (afsA ++ rest))) (htag : Tagged g F 0 (afsA ++ rest)) (Pm : Bytes) (X : Image)
    (hrt : RTape g F Pm X)
    (hPm : Pm = (layoutBufs g 0 (untag (afsA ++ rest))).flatten.take Pm.length)
    (h1 : endPos g 0 (untag afsA) ≤ Pm.length) (h2 : Pm.length ≤ hdrPos g (endPos g 0 (untag afsA)))
    (h3 : Pm.length ≤ endPos g 0 (untag (afsA ++ rest))) (J : List JE) (hS : SegsX F J afsA) :
    DiskX g X F J := by
  obtain ⟨cs, x, hne, hfull, ⟨z, hflat⟩, hX, hlast⟩ := hrt
  rw [untag_append] at hfit hPm h3
  have hfA : Fits g 0 (untag afsA) := by rw [Fits_append] at hfit; exact hfit.1
  have htA : Tagged g F 0 afsA := by rw [Tagged_append] at htag; exact htag.1
  refine ⟨cs, x, afsA, hne, hfull, ⟨Pm.length - endPos g 0 (untag afsA) + z, ?_⟩, hX,
    Nat.le_trans hlast h2, hfA, htA, hS⟩
  have e := layout_take_pad g _ _ hfit _ h1 h2 h3
  rw [← hPm] at e
  rw [hflat]
  conv => lhs; rw [e]
  rw [List.append_assoc, ← zeros_add]

/-- writing one entry, with explicit witnesses and crash states -/
theorem entry_extX (g : Geom) {l : Log} {D : Image} {F : Nat} {init : List Bytes} {t : Bytes} {x : Bool}
    {J : List JE} {afs lead : List TFrm} {gs : List Grp}
    (h : XInvX g l D F J init t x afs lead gs) (e : Entry) :
    ∃ init' t' x' ntf B,
      XInvX g (Log.writeEntry g l e).1 (applyOsOps D (directOps (Log.writeEntry g l e).2.1)) F
        (J ++ [l.je g e]) init' t' x' (afs ++ ntf) lead (gs ++ [(some (l.je g e), ntf)]) ∧
      ntf ≠ [] ∧ (init'.flatten ++ t').length = endPos g 0 (untag (afs ++ ntf)) ∧
      init'.flatten ++ t' = init.flatten ++ t ++ B ∧
      (∀ (w : Bool) X, CutW w D (Log.writeEntry g l e).2.1 X →
        ∃ Pm, RTape g F Pm X ∧ PrefixCut (init.flatten ++ t) (init'.flatten ++ t') Pm ∧
          (w = true → DiskX g X F J ∨ DiskX g X F (J ++ [l.je g e]))) ∧
      (∀ a ∈ ntf, ∃ f off, Effect.write f off (encodeFrame a.2.1 a.2.2) ∈ (Log.writeEntry g l e).2.1) := by
  obtain ⟨hT, hL, hafs, hlead, hmap, hok⟩ := h
  have hB := G.Bpos g
  have hc : l.off % g.B < g.B := Nat.mod_lt _ (by omega)
  obtain ⟨fs, hbufs, hef, hpay, hfit⟩ := writeEntryBufs_layout g (l.off % g.B) true e.encode hc
  have hne : fs ≠ [] := hef.ne_nil
  have hPl := hT.P_length
  have hmod : (init.flatten ++ t).length % g.B = l.off % g.B := by rw [hPl, tape_mod]
  have hwe : Log.writeEntry g l e =
      ((writeBufs g l (layoutBufs g (l.off % g.B) fs)).1, (writeBufs g l (layoutBufs g (l.off % g.B) fs)).2,
        totalLen (layoutBufs g (l.off % g.B) fs)) := by
    rw [Step.writeEntry_eq]
    unfold Step.entryBufs MRL.writeEntry
    rw [hbufs]
  rw [hwe]
  have hnc := noCross_layoutBufs g _ fs hc hfit
  obtain ⟨init', t', x', hT', hP', _⟩ := writeBufs_tapeX g (layoutBufs g (l.off % g.B) fs) hT hnc
  have hfit' : Fits g ((init.flatten ++ t).length % g.B) fs := by rw [hmod]; exact hfit
  obtain ⟨hL', hlen'⟩ := flay_append g F _ afs hL fs hne hfit'
  have hLfull := hL'
  rw [hmod] at hL' hlen'
  rw [← hP'] at hL' hlen'
  have hlocF : F ≤ (l.je g e).loc := by
    have := nextLoc_ge g l
    have := hT.cur
    simp only [je]; omega
  have hnonempty : tagFrom g F (endPos g 0 (untag afs)) fs ≠ [] := by
    cases fs with
    | nil => exact absurd rfl hne
    | cons fr fs => simp [tagFrom]
  have hsegnew : SegOK (l.je g e, tagFrom g F (endPos g 0 (untag afs)) fs) := by
    refine ⟨by simpa [untag_tagFrom] using hef, by simpa [untag_tagFrom, je] using hpay, ?_⟩
    intro a ha
    cases fs with
    | nil => exact absurd rfl hne
    | cons fr fs' =>
      simp only [tagFrom, List.head?_cons, Option.some.injEq] at ha
      subst ha
      simp only [je]
      rw [nextLoc_tagX g hT, ← hPl]
      congr 2
      rcases hL.len with h1 | h1
      · rw [h1]
      · rw [h1, hdrPos_idem]
  have hE0 : endPos g 0 (untag afs) ≤ (init.flatten ++ t).length := by
    rcases hL.len with h1 | h1
    · omega
    · have := le_hdrPos g (endPos g 0 (untag afs)); omega
  have hE0' : (init.flatten ++ t).length ≤ hdrPos g (endPos g 0 (untag afs)) := by
    rcases hL.len with h1 | h1
    · have := le_hdrPos g (endPos g 0 (untag afs)); omega
    · omega
  -- the final bytes are exactly the layout
  have hPf : init'.flatten ++ t' = (layoutBufs g 0 (untag (afs ++ tagFrom g F (endPos g 0 (untag afs)) fs))).flatten := by
    have := hL'.bytes
    rw [untag_append, untag_tagFrom, hlen', Nat.sub_self] at this
    rw [untag_append, untag_tagFrom]
    simpa [zeros] using this
  refine ⟨init', t', x', tagFrom g F (endPos g 0 (untag afs)) fs, (layoutBufs g (l.off % g.B) fs).flatten,
    ⟨hT', hL', ?_, hlead, ?_, ?_⟩, hnonempty, by rw [hlen', untag_append, untag_tagFrom], hP', ?_, ?_⟩
  · rw [hafs, List.flatMap_append]; simp [List.append_assoc]
  · rw [liveOf_append, List.map_append, hmap, List.filter_append]
    simp [liveOf, hlocF]
  · intro s hs
    rcases List.mem_append.mp hs with hs | hs
    · exact hok s hs
    · simp only [List.mem_singleton] at hs
      subst hs
      exact hsegnew
  · intro w X hX
    obtain ⟨Pm, h1, h2, h3⟩ := writeBufs_cutW g _ hT hnc hX
    refine ⟨Pm, h1, by rw [hP']; exact h2, ?_⟩
    intro hw
    obtain ⟨j, hj, hPm⟩ := h3 hw
    -- the position after `j` buffers
    have hbp := bufs_prefix g fs (init.flatten ++ t).length j hfit' (by rw [hmod]; exact hj)
    rw [hmod] at hbp
    obtain ⟨i, hi, b1, b2⟩ := hbp
    have hPmlen : Pm.length = (init.flatten ++ t).length + totalLen ((layoutBufs g (l.off % g.B) fs).take j) := by
      rw [hPm, List.length_append, totalLen_eq]
    obtain ⟨m0, _, hm0, hPm0⟩ := h2
    have hPmtake : Pm = (init'.flatten ++ t').take Pm.length := by
      rw [hP']
      conv => lhs; rw [hPm0]
      rw [hPm0, List.length_take, Nat.min_eq_left hm0]
    have hm3 : Pm.length ≤ (init'.flatten ++ t').length := by
      rw [hP', hPm0, List.length_take]; exact Nat.min_le_right _ _
    -- the frames written entirely
    have hsplit : tagFrom g F (endPos g 0 (untag afs)) fs =
        (tagFrom g F (endPos g 0 (untag afs)) fs).take i ++ (tagFrom g F (endPos g 0 (untag afs)) fs).drop i :=
      (List.take_append_drop i _).symm
    have hunt : untag ((tagFrom g F (endPos g 0 (untag afs)) fs).take i) = fs.take i := by
      have := untag_tagFrom g F fs (endPos g 0 (untag afs))
      unfold untag at this ⊢
      rw [List.map_take, this]
    have huntd : untag ((tagFrom g F (endPos g 0 (untag afs)) fs).drop i) = fs.drop i := by
      have := untag_tagFrom g F fs (endPos g 0 (untag afs))
      unfold untag at this ⊢
      rw [List.map_drop, this]
    have hEi : endPos g 0 (untag (afs ++ (tagFrom g F (endPos g 0 (untag afs)) fs).take i)) ≤ Pm.length ∧
        Pm.length ≤ hdrPos g (endPos g 0 (untag (afs ++ (tagFrom g F (endPos g 0 (untag afs)) fs).take i))) := by
      rw [untag_append, hunt, endPos_append, hPmlen]
      by_cases hi0 : fs.take i = []
      · rw [hi0] at b1 b2 ⊢
        simp only [endPos] at b1 b2 ⊢
        refine ⟨by omega, ?_⟩
        rcases hL.len with h1 | h1
        · rw [← h1]; exact b2
        · have hh : hdrPos g (init.flatten ++ t).length = hdrPos g (endPos g 0 (untag afs)) := by
            rw [h1, hdrPos_idem]
          rw [hh] at b2; exact b2
      · have he : endPos g (init.flatten ++ t).length (fs.take i) = endPos g (endPos g 0 (untag afs)) (fs.take i) := by
          rcases hL.len with h1 | h1
          · rw [h1]
          · rw [h1, endPos_hdrPos g _ _ hi0]
        rw [← he]; exact ⟨b1, b2⟩
    have hfull2 : Fits g 0 (untag ((afs ++ (tagFrom g F (endPos g 0 (untag afs)) fs).take i) ++
        (tagFrom g F (endPos g 0 (untag afs)) fs).drop i)) := by
      rw [List.append_assoc, ← hsplit]; exact hL'.fits
    have htag2 : Tagged g F 0 ((afs ++ (tagFrom g F (endPos g 0 (untag afs)) fs).take i) ++
        (tagFrom g F (endPos g 0 (untag afs)) fs).drop i) := by
      rw [List.append_assoc, ← hsplit]; exact hL'.tagged
    have hPm2 : Pm = (layoutBufs g 0 (untag ((afs ++ (tagFrom g F (endPos g 0 (untag afs)) fs).take i) ++
        (tagFrom g F (endPos g 0 (untag afs)) fs).drop i))).flatten.take Pm.length := by
      rw [List.append_assoc, ← hsplit, ← hPf]; exact hPmtake
    have hm32 : Pm.length ≤ endPos g 0 (untag ((afs ++ (tagFrom g F (endPos g 0 (untag afs)) fs).take i) ++
        (tagFrom g F (endPos g 0 (untag afs)) fs).drop i)) := by
      rw [List.append_assoc, ← hsplit, untag_append, untag_tagFrom, ← hlen']; exact hm3
    by_cases hall : i = fs.length
    · -- the whole entry
      right
      have htk : (tagFrom g F (endPos g 0 (untag afs)) fs).take i = tagFrom g F (endPos g 0 (untag afs)) fs := by
        apply List.take_of_length_le
        rw [tagFrom_length]; omega
      apply diskX_of_prefix g F _ _ hfull2 htag2 Pm X h1 hPm2 hEi.1 hEi.2 hm32
      refine ⟨lead, gs ++ [(some (l.je g e), tagFrom g F (endPos g 0 (untag afs)) fs)], ?_, hlead, ?_, ?_⟩
      · rw [htk, hafs, List.flatMap_append]; simp [List.append_assoc]
      · rw [liveOf_append, List.map_append, hmap, List.filter_append]
        simp [liveOf, hlocF]
      · intro s hs
        rcases List.mem_append.mp hs with hs | hs
        · exact hok s hs
        · simp only [List.mem_singleton] at hs
          subst hs
          exact hsegnew
    · -- an unfinished entry: a dead group
      left
      apply diskX_of_prefix g F _ _ hfull2 htag2 Pm X h1 hPm2 hEi.1 hEi.2 hm32
      refine ⟨lead, gs ++ [(none, (tagFrom g F (endPos g 0 (untag afs)) fs).take i)], ?_, hlead, ?_, ?_⟩
      · rw [hafs, List.flatMap_append]; simp [List.append_assoc]
      · rw [liveOf_append, List.map_append, hmap]
        simp [liveOf]
      · intro s hs
        rcases List.mem_append.mp hs with hs | hs
        · exact hok s hs
        · simp only [List.mem_singleton] at hs
          subst hs
          refine ⟨fs.drop i, ?_, ?_⟩
          · intro hd
            have := congrArg List.length hd
            simp only [List.length_drop, List.length_nil] at this
            omega
          · show EntryFrames true (untag ((tagFrom g F (endPos g 0 (untag afs)) fs).take i) ++ fs.drop i)
            rw [hunt, List.take_append_drop]; exact hef
  · intro a ha
    have hmem : a.2 ∈ fs := by
      have : a.2 ∈ untag (tagFrom g F (endPos g 0 (untag afs)) fs) := List.mem_map_of_mem (f := fun x : TFrm => x.2) ha
      rwa [untag_tagFrom] at this
    have hb := mem_layout g a.2.1 a.2.2 fs (l.off % g.B) hmem
    exact writeBufs_mem g _ l _ hb (Step.encodeFrame_ne_nil _ _)

theorem XInvX.diskX {g : Geom} {l : Log} {D : Image} {F : Nat} {J : List JE} {init : List Bytes}
    {t : Bytes} {x : Bool} {afs lead : List TFrm} {gs : List Grp} (h : XInvX g l D F J init t x afs lead gs) :
    DiskX g D F J := by
  obtain ⟨cs, x', hne, hfull, ⟨z, hflat⟩, hX, hlast⟩ := rtape_of_tapeX h.tape
  refine ⟨cs, x', afs, hne, hfull, ⟨(init.flatten ++ t).length - endPos g 0 (untag afs) + z, ?_⟩, hX, ?_,
    h.lay.fits, h.lay.tagged, h.segs⟩
  · rw [hflat]
    conv => lhs; rw [h.lay.bytes]
    rw [List.append_assoc, ← zeros_add]
  · refine Nat.le_trans hlast ?_
    rcases h.lay.len with h1 | h1
    · rw [h1]; exact le_hdrPos g _
    · rw [h1]; exact Nat.le_refl _

/-- the GC touches, with explicit witnesses and crash states -/
theorem touches_extX (g : Geom) (F : Nat) (lead : List TFrm) (names : List Bytes) :
    ∀ (l : Log) (D : Image) (J : List JE) (init : List Bytes) (t : Bytes) (x : Bool) (afs : List TFrm)
      (gs : List Grp),
    XInvX g l D F J init t x afs lead gs →
    ∃ init' t' x' ntf newgs B,
      XInvX g (writeTouches g l names).1 (applyOsOps D (directOps (writeTouches g l names).2.1)) F
        (J ++ touchesJ g l names) init' t' x' (afs ++ ntf) lead (gs ++ newgs) ∧
      (names ≠ [] → ntf ≠ [] ∧ (init'.flatten ++ t').length = endPos g 0 (untag (afs ++ ntf))) ∧
      (names = [] → ntf = [] ∧ newgs = [] ∧ B = []) ∧
      init'.flatten ++ t' = init.flatten ++ t ++ B ∧
      (∀ (w : Bool) X, CutW w D (writeTouches g l names).2.1 X →
        ∃ Pm, RTape g F Pm X ∧ PrefixCut (init.flatten ++ t) (init'.flatten ++ t') Pm ∧
          (w = true → ∃ i, i ≤ names.length ∧ DiskX g X F (J ++ (touchesJ g l names).take i))) ∧
      (∀ a ∈ ntf, ∃ f off, Effect.write f off (encodeFrame a.2.1 a.2.2) ∈ (writeTouches g l names).2.1) := by
  induction names with
  | nil =>
    intro l D J init t x afs gs h
    refine ⟨init, t, x, [], [], [], ?_, fun h => absurd rfl h, fun _ => ⟨rfl, rfl, rfl⟩, by simp, ?_, ?_⟩
    · simpa [writeTouches, touchesJ, directOps, applyOsOps] using h
    · intro w X hX
      have : X = D := by simpa [writeTouches] using hX.nil_inv
      rw [this]
      exact ⟨_, rtape_of_tapeX h.tape, ⟨_, Nat.le_refl _, Nat.le_refl _, (List.take_length).symm⟩,
        fun _ => ⟨0, Nat.le_refl _, by simpa using h.diskX⟩⟩
    · intro a ha; cases ha
  | cons n ns ih =>
    intro l D J init t x afs gs h
    have he : Step.touchEntry l n = .touch n (touchNext l n) := rfl
    obtain ⟨i1, t1, x1, ntf1, B1, y1, hne1, hlen1, hP1, hcut1, hmem1⟩ := entry_extX g h (.touch n (touchNext l n))
    obtain ⟨i2, t2, x2, ntf2, ns2, B2, y2, hlen2, hnil2, hP2, hcut2, hmem2⟩ := ih _ _ _ _ _ _ _ _ y1
    refine ⟨i2, t2, x2, ntf1 ++ ntf2, (some (l.je g (.touch n (touchNext l n))), ntf1) :: ns2, B1 ++ B2, ?_,
      fun _ => ⟨by simp [hne1], ?_⟩, (fun h => by cases h), ?_, ?_, ?_⟩
    · rw [Step.writeTouches_cons, touchesJ_cons, he]
      simp only [directOps_append, applyOsOps_append]
      have : J ++ l.je g (.touch n (touchNext l n)) ::
          touchesJ g (Log.writeEntry g l (.touch n (touchNext l n))).1 ns =
          J ++ [l.je g (.touch n (touchNext l n))] ++
            touchesJ g (Log.writeEntry g l (.touch n (touchNext l n))).1 ns := by simp
      rw [this, ← List.append_assoc afs, show gs ++ (some (l.je g (.touch n (touchNext l n))), ntf1) :: ns2 =
        gs ++ [(some (l.je g (.touch n (touchNext l n))), ntf1)] ++ ns2 by simp]
      exact y2
    · by_cases hns : ns = []
      · obtain ⟨a1, a2, a3⟩ := hnil2 hns
        subst a1
        rw [List.append_nil]
        have : i2.flatten ++ t2 = i1.flatten ++ t1 := by rw [hP2, a3, List.append_nil]
        rw [this]
        exact hlen1
      · rw [← List.append_assoc]; exact (hlen2 hns).2
    · rw [hP2, hP1]; simp [List.append_assoc]
    · intro w X hX
      rw [Step.writeTouches_cons, he] at hX
      rcases CutW.of_append _ hX with hX | hX
      · obtain ⟨Pm, c1, c2, c3⟩ := hcut1 w X hX
        refine ⟨Pm, c1, ?_, ?_⟩
        · rw [hP2]; exact c2.extend B2
        · intro hw
          rcases c3 hw with hd | hd
          · exact ⟨0, Nat.zero_le _, by simpa using hd⟩
          · exact ⟨1, by simp, by rw [touchesJ_cons]; simpa using hd⟩
      · obtain ⟨Pm, c1, c2, c3⟩ := hcut2 w X hX
        refine ⟨Pm, c1, ?_, ?_⟩
        · rw [hP1] at c2; exact c2.shift
        · intro hw
          obtain ⟨i, hi, hd⟩ := c3 hw
          refine ⟨i + 1, by simpa using hi, ?_⟩
          rw [touchesJ_cons, List.take_succ_cons]
          simpa [List.append_assoc] using hd
    · intro a ha
      rw [Step.writeTouches_cons, he]
      rcases List.mem_append.mp ha with ha | ha
      · obtain ⟨f, off, hm⟩ := hmem1 a ha
        exact ⟨f, off, List.mem_append_left _ hm⟩
      · obtain ⟨f, off, hm⟩ := hmem2 a ha
        exact ⟨f, off, List.mem_append_right _ hm⟩

end MRL.L
