/-
The lazy-directory semantics along histories WITH restarts inside a window of pending unlinks.

`PDC.hinvD` (the image left by a power loss = the volatile image with the late unlinks undone) asked
that `create` and `ensureLen` occur only with nothing pending. A restart issues `ensureLen` on the
first tracked file while unlinks may be pending; `hinvD2` allows it when the file is none of the
unlinked ones — true here: the file is on the disk (`ens_ok`) and an unlinked file is not
(`und_absent`). `create` still occurs only right after an `fsync(dir)` (`create_pend`).
-/
import MRL.Proofs.PDAWin

namespace MRL.PDA
open MRL Buf G H L Log K C01J Codec P PX PD PDC

/-! ### an unlinked file is not on the volatile disk -/

theorem mapFile_keys (img : Image) (f : Nat) (fn : Bytes → Bytes) :
    (mapFile img f fn).map (·.1) = img.map (·.1) := by
  unfold mapFile
  rw [List.map_map]
  apply List.map_congr_left
  intro kv _
  simp only [Function.comp]
  split <;> rfl

theorem keys_sub (img : Image) (op : OsOp) (hnc : ∀ f, op ≠ .create f) :
    ∀ k ∈ (applyOs img op).map (·.1), k ∈ img.map (·.1) := by
  intro k hk
  cases op with
  | write f off d => simpa only [applyOs, mapFile_keys] using hk
  | setLen f n => simpa only [applyOs, mapFile_keys] using hk
  | ensureLen f n => simpa only [applyOs, mapFile_keys] using hk
  | sync => exact hk
  | create f => exact absurd rfl (hnc f)
  | unlink f =>
    simp only [applyOs] at hk
    obtain ⟨kv, hkv, rfl⟩ := List.mem_map.mp hk
    exact List.mem_map.mpr ⟨kv, (List.mem_filter.mp hkv).1, rfl⟩

theorem keys_sub_direct (img : Image) (e : Effect) (hnc : ∀ f, e ≠ .create f) :
    ∀ k ∈ (applyOsOps img (direct e)).map (·.1), k ∈ img.map (·.1) := by
  cases e with
  | create f => exact absurd rfl (hnc f)
  | write f off d => exact keys_sub img (.write f off d) (fun _ h => by cases h)
  | setLen f n => exact keys_sub img (.setLen f n) (fun _ h => by cases h)
  | ensureLen f n => exact keys_sub img (.ensureLen f n) (fun _ h => by cases h)
  | unlink f => exact keys_sub img (.unlink f) (fun _ h => by cases h)
  | fsyncFile f => exact keys_sub img .sync (fun _ h => by cases h)
  | fsyncDir => exact keys_sub img .sync (fun _ h => by cases h)
  | flush => exact fun k hk => hk
  | listDir => exact fun k hk => hk
  | openFile f => exact fun k hk => hk
  | readBlock f => exact fun k hk => hk

theorem vol_step (d : DState) (e : Effect) : (prunD d (directP e)).s.vol = applyOsOps d.s.vol (direct e) := by
  rw [prunD_s]
  have := prun_vol_direct d.s [e]
  simpa [directOpsP, directOps] using this

theorem und_step (d : DState) (e : Effect) :
    ∀ kv ∈ (prunD d (directP e)).und, kv ∈ d.und ∨ e = .unlink kv.1 := by
  intro kv hkv
  cases e with
  | fsyncDir => cases hkv
  | fsyncFile f => exact Or.inl hkv
  | flush => exact Or.inl hkv
  | listDir => exact Or.inl hkv
  | openFile f => exact Or.inl hkv
  | readBlock f => exact Or.inl hkv
  | write f off dt => rw [prunD_directP_quiet d _ rfl rfl] at hkv; exact Or.inl hkv
  | create f => rw [prunD_directP_quiet d _ rfl rfl] at hkv; exact Or.inl hkv
  | setLen f n => rw [prunD_directP_quiet d _ rfl rfl] at hkv; exact Or.inl hkv
  | ensureLen f n => rw [prunD_directP_quiet d _ rfl rfl] at hkv; exact Or.inl hkv
  | unlink f =>
    have hstep : prunD d (directP (Effect.unlink f)) = pstepD d (.unlink f) := rfl
    rw [hstep] at hkv
    simp only [pstepD] at hkv
    split at hkv
    · split at hkv
      · simp only [List.mem_append, List.mem_singleton] at hkv
        rcases hkv with hkv | hkv
        · exact Or.inl hkv
        · right; rw [hkv]
      · exact Or.inl hkv
    · exact Or.inl hkv

/-- the files whose unlink is pending are not on the volatile disk -/
theorem und_absent : ∀ (es : List Effect) (d : DState),
    (∀ kv ∈ d.und, kv.1 ∉ d.s.vol.map (·.1)) →
    (∀ i f, es[i]? = some (Effect.create f) → (prunD d (directOpsP (es.take i))).und = []) →
    ∀ kv ∈ (prunD d (directOpsP es)).und, kv.1 ∉ (prunD d (directOpsP es)).s.vol.map (·.1) := by
  intro es
  induction es with
  | nil => intro d h _; exact h
  | cons e es ih =>
    intro d h hce
    rw [directOpsP_cons, prunD_append]
    apply ih (prunD d (directP e))
    · intro kv hkv hm
      rw [vol_step] at hm
      by_cases hcr : ∃ f, e = .create f
      · obtain ⟨f, rfl⟩ := hcr
        have h0 := hce 0 f rfl
        have h0' : d.und = [] := h0
        rw [prunD_directP_quiet d _ rfl rfl] at hkv
        have : kv ∈ d.und := hkv
        rw [h0'] at this; cases this
      · have hnc : ∀ f, e ≠ .create f := fun f hf => hcr ⟨f, hf⟩
        rcases und_step d e kv hkv with hk | hk
        · exact h kv hk (keys_sub_direct _ e hnc _ hm)
        · rw [hk] at hm
          have : applyOsOps d.s.vol (direct (Effect.unlink kv.1)) = d.s.vol.filter (fun x => x.1 != kv.1) := rfl
          rw [this] at hm
          obtain ⟨x, hx, hxk⟩ := List.mem_map.mp hm
          have := (List.mem_filter.mp hx).2
          simp [hxk] at this
    · intro i f hi
      have := hce (i + 1) f (by simpa using hi)
      rw [List.take_succ_cons, directOpsP_cons, prunD_append] at this
      exact this

/-! ### `create` and `ensureLen` along histories with restarts -/

/-- a `create` always follows an `fsync(dir)`: nothing is pending -/
theorem create_pend (g : Geom) (hB : g.B ≤ 65542) (evs : List Ev) : ∀ {l : Log} {J : List JE} {D : Image},
    CInvX g l J D → (∀ j ∈ J, C07.WF j.e) → (∀ j ∈ jourX g l D evs, C07.WF j.e) → TornEffs (effsX g l D evs) →
    ∀ i f, (effsX g l D evs)[i]? = some (Effect.create f) → ∀ p, pendAfter p ((effsX g l D evs).take i) = false := by
  induction evs with
  | nil => intro l J D _ _ _ _ i f hi; simp [effsX] at hi
  | cons ev es ih =>
    intro l J D h hw hwf htorn i f hi p
    simp only [jourX, effsX] at hwf htorn hi ⊢
    obtain ⟨⟨J1, hc1, hw1⟩, _, _, _⟩ := ev_facts g hB h hw ev
      (fun j hj => hwf j (List.mem_append_left _ hj)) (torn_left htorn)
    by_cases hlt : i < (evEffs g l D ev).length
    · rw [List.getElem?_append_left hlt] at hi
      rw [List.take_append_of_le_length (by omega)]
      cases ev with
      | call c tick order => exact cePat_step g l c tick order i _ hi rfl p
      | reopen policy order =>
        obtain ⟨J', lp, io, r, _, _, _, _, _, _, _, e2, _⟩ := reopen_eval g hB h hw policy order
        rw [e2] at hi ⊢
        rcases i with _ | _ | i
        · simp at hi
        · simp at hi
        · simp only [List.cons_append, List.nil_append, List.getElem?_cons_succ] at hi
          have := cePat_runGc g lp order i _ hi rfl
            (pendAfter p [Effect.flush, Effect.ensureLen (lp.files.headD 0) g.fileBytes])
          simp only [List.cons_append, List.nil_append, List.take_succ_cons]
          have hsplit : Effect.flush :: Effect.ensureLen (lp.files.headD 0) g.fileBytes ::
              List.take i (runGc g lp order).2.1 =
              [Effect.flush, Effect.ensureLen (lp.files.headD 0) g.fileBytes] ++ List.take i (runGc g lp order).2.1 := rfl
          rw [hsplit, pendAfter_append]
          exact this
    · rw [List.getElem?_append_right (by omega)] at hi
      rw [List.take_append, List.take_of_length_le (by omega), pendAfter_append]
      exact ih hc1 hw1 (fun j hj => hwf j (List.mem_append_right _ hj)) (torn_right htorn) _ f hi _

/-- an `ensureLen` is issued with nothing pending, or on a file that is on the disk -/
theorem ens_ok (g : Geom) (hB : g.B ≤ 65542) (evs : List Ev) : ∀ {l : Log} {J : List JE} {D : Image},
    CInvX g l J D → (∀ j ∈ J, C07.WF j.e) → (∀ j ∈ jourX g l D evs, C07.WF j.e) → TornEffs (effsX g l D evs) →
    ∀ i f m, (effsX g l D evs)[i]? = some (Effect.ensureLen f m) →
      (∀ p, pendAfter p ((effsX g l D evs).take i) = false) ∨
      f ∈ (applyOsOps D (directOps ((effsX g l D evs).take i))).map (·.1) := by
  induction evs with
  | nil => intro l J D _ _ _ _ i f m hi; simp [effsX] at hi
  | cons ev es ih =>
    intro l J D h hw hwf htorn i f m hi
    simp only [jourX, effsX] at hwf htorn hi ⊢
    obtain ⟨⟨J1, hc1, hw1⟩, _, _, _⟩ := ev_facts g hB h hw ev
      (fun j hj => hwf j (List.mem_append_left _ hj)) (torn_left htorn)
    by_cases hlt : i < (evEffs g l D ev).length
    · rw [List.getElem?_append_left hlt] at hi
      rw [List.take_append_of_le_length (by omega)]
      cases ev with
      | call c tick order => exact Or.inl (fun p => cePat_step g l c tick order i _ hi rfl p)
      | reopen policy order =>
        obtain ⟨J', lp, io, r, _, _, _, hc0, _, _, _, e2, _⟩ := reopen_eval g hB h hw policy order
        rw [e2] at hi ⊢
        rcases i with _ | _ | i
        · simp at hi
        · right
          simp only [List.cons_append, List.nil_append, List.getElem?_cons_succ, List.getElem?_cons_zero,
            Option.some.injEq, Effect.ensureLen.injEq] at hi
          obtain ⟨hf, _⟩ := hi
          have hD : applyOsOps D (directOps (List.take 1 (Effect.flush ::
              ([Effect.ensureLen (lp.files.headD 0) g.fileBytes] ++ (runGc g lp order).2.1)))) = D := rfl
          rw [hD, ← hf, ← (dshape_of_cinvx hc0).files]
          have hne := hc0.jinv.h.files.ne_nil
          cases hfl : lp.files with
          | nil => exact absurd hfl hne
          | cons a as => simp
        · left
          intro p
          simp only [List.cons_append, List.nil_append, List.getElem?_cons_succ] at hi
          have := cePat_runGc g lp order i _ hi rfl
            (pendAfter p [Effect.flush, Effect.ensureLen (lp.files.headD 0) g.fileBytes])
          simp only [List.cons_append, List.nil_append, List.take_succ_cons]
          have hsplit : Effect.flush :: Effect.ensureLen (lp.files.headD 0) g.fileBytes ::
              List.take i (runGc g lp order).2.1 =
              [Effect.flush, Effect.ensureLen (lp.files.headD 0) g.fileBytes] ++ List.take i (runGc g lp order).2.1 := rfl
          rw [hsplit, pendAfter_append]
          exact this
    · rw [List.getElem?_append_right (by omega)] at hi
      rw [List.take_append, List.take_of_length_le (by omega)]
      rcases ih hc1 hw1 (fun j hj => hwf j (List.mem_append_right _ hj)) (torn_right htorn) _ f m hi with h1 | h1
      · left; intro p; rw [pendAfter_append]; exact h1 _
      · right
        rw [directOps_append, applyOsOps_append]
        exact h1

end MRL.PDA
