/-
Power loss, generically. A small syntactic discipline on effect lists (`pd`): writes go to one
file `wf` (the current one), it is `fsync`ed only with an empty `BufWriter`, the directory is
`fsync`ed only after it; a file is created only when everything is durable, with a larger number,
and becomes the current one; a file other than the current one is unlinked only when everything is
durable. For such a list, from a state in which everything is durable, the image left by a power
loss after any number `n` of effects is the VOLATILE image after some number `p ≤ n` of them:
nothing that was made durable is ever lost, nothing is reordered.
-/
import MRL.Proofs.PBuf

namespace MRL.P
open MRL Buf H L

/-! ### images as association lists -/

theorem lookupF_nil (f : Nat) : lookupF [] f = none := rfl

theorem lookupF_cons (kv : Nat × Bytes) (m : List (Nat × Bytes)) (f : Nat) :
    lookupF (kv :: m) f = if kv.1 = f then some kv.2 else lookupF m f := by
  unfold lookupF
  rw [List.find?_cons]
  by_cases h : kv.1 = f
  · simp [h]
  · have : (kv.1 == f) = false := by simpa using h
    simp [this, h]

theorem lookupF_of_mem {m : List (Nat × Bytes)} (hn : (m.map (·.1)).Nodup) {kv : Nat × Bytes} (h : kv ∈ m) :
    lookupF m kv.1 = some kv.2 := by
  induction m with
  | nil => cases h
  | cons a m ih =>
    rw [lookupF_cons]
    simp only [List.map_cons, List.nodup_cons] at hn
    rcases List.mem_cons.mp h with rfl | h
    · simp
    · have : a.1 ≠ kv.1 := by
        intro e; apply hn.1; rw [e]; exact List.mem_map_of_mem (f := (·.1)) h
      rw [if_neg this]; exact ih hn.2 h

theorem lookupF_none_of_not_mem {m : List (Nat × Bytes)} {f : Nat} (h : f ∉ m.map (·.1)) : lookupF m f = none := by
  induction m with
  | nil => rfl
  | cons a m ih =>
    rw [lookupF_cons]
    simp only [List.map_cons, List.mem_cons, not_or] at h
    rw [if_neg (fun e => h.1 e.symm)]; exact ih h.2

theorem mapFile_keys (img : Image) (f : Nat) (fn : Bytes → Bytes) : (mapFile img f fn).map (·.1) = img.map (·.1) := by
  unfold mapFile
  rw [List.map_map]
  apply List.map_congr_left
  intro kv _
  simp only [Function.comp]
  split <;> rfl

theorem mem_mapFile {img : Image} {f : Nat} {fn : Bytes → Bytes} {kv : Nat × Bytes} (h : kv ∈ mapFile img f fn) :
    (kv.1 ≠ f ∧ kv ∈ img) ∨ (kv.1 = f ∧ ∃ c, (f, c) ∈ img ∧ kv.2 = fn c) := by
  unfold mapFile at h
  obtain ⟨a, ha, rfl⟩ := List.mem_map.mp h
  by_cases hf : a.1 = f
  · right; simp only [hf, if_true]; exact ⟨trivial, a.2, by rw [← hf]; exact ha, rfl⟩
  · left; simp only [hf, if_false]; exact ⟨hf, ha⟩

theorem insertFile_keys_fresh : ∀ (img : Image) (f : Nat) (c : Bytes), f ∉ img.map (·.1) →
    ∀ k, k ∈ (insertFile img f c).map (·.1) ↔ k = f ∨ k ∈ img.map (·.1) := by
  intro img
  induction img with
  | nil => intro f c _ k; simp [insertFile]
  | cons a img ih =>
    intro f c hf k
    obtain ⟨f', c'⟩ := a
    simp only [List.map_cons, List.mem_cons, not_or] at hf
    simp only [insertFile]
    split
    · simp
    · rw [if_neg hf.1]
      simp only [List.map_cons, List.mem_cons, ih f c hf.2 k]
      constructor
      · rintro (h | h | h)
        · exact Or.inr (Or.inl h)
        · exact Or.inl h
        · exact Or.inr (Or.inr h)
      · rintro (h | h | h)
        · exact Or.inr (Or.inl h)
        · exact Or.inl h
        · exact Or.inr (Or.inr h)

theorem mem_insertFile_fresh : ∀ (img : Image) (f : Nat) (c : Bytes), f ∉ img.map (·.1) →
    ∀ kv, kv ∈ insertFile img f c ↔ kv = (f, c) ∨ kv ∈ img := by
  intro img
  induction img with
  | nil => intro f c _ kv; simp [insertFile]
  | cons a img ih =>
    intro f c hf kv
    obtain ⟨f', c'⟩ := a
    simp only [List.map_cons, List.mem_cons, not_or] at hf
    simp only [insertFile]
    split
    · simp
    · rw [if_neg hf.1]
      simp only [List.mem_cons, ih f c hf.2 kv]
      constructor
      · rintro (h | h | h)
        · exact Or.inr (Or.inl h)
        · exact Or.inl h
        · exact Or.inr (Or.inr h)
      · rintro (h | h | h)
        · exact Or.inr (Or.inl h)
        · exact Or.inl h
        · exact Or.inr (Or.inr h)

theorem insertFile_nodup : ∀ (img : Image) (f : Nat) (c : Bytes), f ∉ img.map (·.1) →
    (img.map (·.1)).Nodup → ((insertFile img f c).map (·.1)).Nodup := by
  intro img
  induction img with
  | nil => intro f c _ _; simp [insertFile]
  | cons a img ih =>
    intro f c hf hn
    obtain ⟨f', c'⟩ := a
    simp only [List.map_cons, List.mem_cons, not_or, List.nodup_cons] at hf hn
    simp only [insertFile]
    split
    · simp only [List.map_cons, List.nodup_cons, List.mem_cons, not_or]
      exact ⟨⟨hf.1, hf.2⟩, hn.1, hn.2⟩
    · rw [if_neg hf.1]
      simp only [List.map_cons, List.nodup_cons]
      refine ⟨?_, ih f c hf.2 hn.2⟩
      rw [insertFile_keys_fresh img f c hf.2]
      rintro (h | h)
      · exact hf.1 h.symm
      · exact hn.1 h

/-- a file the filter drops can be inserted anywhere -/
theorem filterMap_insertFile {β : Type} (φ : Nat × Bytes → Option β) : ∀ (img : Image) (f : Nat) (c : Bytes),
    f ∉ img.map (·.1) → φ (f, c) = none → (insertFile img f c).filterMap φ = img.filterMap φ := by
  intro img
  induction img with
  | nil => intro f c _ h; simp [insertFile, h]
  | cons a img ih =>
    intro f c hf h
    obtain ⟨f', c'⟩ := a
    simp only [List.map_cons, List.mem_cons, not_or] at hf
    simp only [insertFile]
    split
    · rw [List.filterMap_cons, h]
    · rw [if_neg hf.1, List.filterMap_cons, List.filterMap_cons, ih f c hf.2 h]

theorem filterMap_congr' {α β : Type} {f g : α → Option β} : ∀ {l : List α}, (∀ a ∈ l, f a = g a) →
    l.filterMap f = l.filterMap g
  | [], _ => rfl
  | a :: l, h => by
    rw [List.filterMap_cons, List.filterMap_cons, h a List.mem_cons_self,
      filterMap_congr' (fun b hb => h b (List.mem_cons_of_mem _ hb))]

theorem fitLen_self (c : Bytes) : fitLen c c.length = c := by
  unfold fitLen; simp [zeros]

/-! ### the discipline -/

/-- current file; written since its last `fsync`; its name is durable; it is known non-empty; the
    `BufWriter` is empty -/
structure PD where
  wf : Nat
  dirty : Bool
  named : Bool
  wrt : Bool
  clean : Bool
  deriving Repr

def pd1 (σ : PD) : Effect → Option PD
  | .write f _ d => if f = σ.wf ∧ d ≠ [] then some { σ with dirty := true, wrt := true, clean := false } else none
  | .flush => some { σ with clean := true }
  | .fsyncFile f => if f = σ.wf ∧ σ.clean = true then some { σ with dirty := false } else none
  | .fsyncDir => if σ.dirty = false ∧ σ.wrt = true ∧ σ.clean = true then some { σ with named := true } else none
  | .create f =>
    if σ.dirty = false ∧ σ.named = true ∧ σ.clean = true ∧ σ.wf < f then
      some { σ with wf := f, dirty := true, named := false, wrt := false }
    else none
  | .setLen f _ => if f = σ.wf ∧ σ.named = false ∧ σ.clean = true then some { σ with dirty := true, wrt := false } else none
  | .ensureLen _ _ => none
  | .unlink f => if f ≠ σ.wf ∧ σ.dirty = false ∧ σ.named = true ∧ σ.clean = true then some σ else none
  | .listDir | .openFile _ | .readBlock _ => some σ

def pd : PD → List Effect → Option PD
  | σ, [] => some σ
  | σ, e :: es => (pd1 σ e).bind fun σ' => pd σ' es

theorem pd_append (a b : List Effect) : ∀ σ, pd σ (a ++ b) = (pd σ a).bind fun σ' => pd σ' b := by
  induction a with
  | nil => intro σ; rfl
  | cons e es ih =>
    intro σ
    simp only [List.cons_append, pd]
    cases pd1 σ e with
    | none => rfl
    | some σ' => simp [ih]

/-- the discipline makes every `fsync` come with an empty buffer -/
theorem runS_of_pd (es : List Effect) : ∀ (st st' : St) (σ σ' : PD), run st es = some st' → pd σ es = some σ' →
    (σ.clean = true → st = none) → runS st es = some st' ∧ (σ'.clean = true → st' = none) := by
  induction es with
  | nil =>
    intro st st' σ σ' hr hp hc
    injection hr with hr; injection hp with hp
    subst hr; subst hp
    exact ⟨rfl, hc⟩
  | cons e es ih =>
    intro st st' σ σ' hr hp hc
    simp only [run] at hr
    simp only [pd] at hp
    cases h1 : run1 st e with
    | none => rw [h1] at hr; cases hr
    | some st1 =>
      cases h2 : pd1 σ e with
      | none => rw [h2] at hp; cases hp
      | some σ1 =>
        rw [h1] at hr; rw [h2] at hp
        simp only [Option.bind_some] at hr hp
        have key : run1S st e = some st1 ∧ (σ1.clean = true → st1 = none) := by
          cases e with
          | write f off d =>
            simp only [pd1] at h2
            split at h2
            · injection h2 with h2
              refine ⟨h1, fun hcl => ?_⟩
              rw [← h2] at hcl; cases hcl
            · cases h2
          | flush =>
            injection h1 with h1
            exact ⟨by simp [run1S, isSyncE, run1]; exact h1, fun _ => h1.symm⟩
          | fsyncFile f =>
            simp only [pd1] at h2
            split at h2
            · rename_i hcond
              injection h2 with h2
              have hst := hc hcond.2
              injection h1 with h1
              subst hst
              refine ⟨by simp [run1S, isSyncE, h1.symm], fun _ => h1.symm⟩
            · cases h2
          | fsyncDir =>
            simp only [pd1] at h2
            split at h2
            · rename_i hcond
              injection h2 with h2
              have hst := hc hcond.2.2
              injection h1 with h1
              subst hst
              refine ⟨by simp [run1S, isSyncE, h1.symm], fun _ => h1.symm⟩
            · cases h2
          | create f =>
            refine ⟨h1, fun _ => ?_⟩
            simp only [run1] at h1
            split at h1
            · injection h1 with h1; exact h1.symm
            · cases h1
          | setLen f n =>
            refine ⟨h1, fun _ => ?_⟩
            simp only [run1] at h1
            split at h1
            · injection h1 with h1; exact h1.symm
            · cases h1
          | ensureLen f n => simp [pd1] at h2
          | unlink f =>
            refine ⟨h1, fun _ => ?_⟩
            simp only [run1] at h1
            split at h1
            · injection h1 with h1; exact h1.symm
            · cases h1
          | listDir =>
            injection h1 with h1; injection h2 with h2
            subst h1; subst h2
            exact ⟨rfl, hc⟩
          | openFile f =>
            injection h1 with h1; injection h2 with h2
            subst h1; subst h2
            exact ⟨rfl, hc⟩
          | readBlock f =>
            injection h1 with h1; injection h2 with h2
            subst h1; subst h2
            exact ⟨rfl, hc⟩
        obtain ⟨k1, k2⟩ := key
        obtain ⟨r1, r2⟩ := ih st1 st' σ1 σ' hr hp k2
        refine ⟨?_, r2⟩
        simp only [runS, k1, Option.bind_some]
        exact r1

/-! ### the invariant -/

def FullOrEmpty (fb : Nat) (X : Image) : Prop := ∀ kv ∈ X, kv.2.length = fb ∨ kv.2 = []

structure PInv (σ : PD) (S : PState) : Prop where
  nodup : (S.vol.map (·.1)).Nodup
  wf_mem : σ.wf ∈ S.vol.map (·.1)
  le_wf : ∀ kv ∈ S.vol, kv.1 ≤ σ.wf
  dirs_le : ∀ k ∈ S.dirs, k ≤ σ.wf
  old : ∀ kv ∈ S.vol, kv.1 ≠ σ.wf → S.dirs.contains kv.1 = true ∧ lookupF S.dur kv.1 = some kv.2
  named : σ.named = true → S.dirs.contains σ.wf = true
  unnamed : σ.named = false → S.dirs.contains σ.wf = false
  cleanF : σ.dirty = false → ∀ kv ∈ S.vol, kv.1 = σ.wf → lookupF S.dur σ.wf = some kv.2
  wrt : σ.wrt = true → ∀ kv ∈ S.vol, kv.1 = σ.wf → kv.2 ≠ []
  nw : σ.named = true → σ.wrt = true

/-- everything is durable: the power-loss image is the volatile image -/
theorem image_alldur {σ : PD} {S : PState} (h : PInv σ S) (hd : σ.dirty = false) (hn : σ.named = true) :
    S.image = S.vol := by
  unfold PState.image
  have : ∀ kv ∈ S.vol, (if S.dirs.contains kv.1 then
      some (kv.1, fitLen ((lookupF S.dur kv.1).getD []) kv.2.length) else none) = some kv := by
    intro kv hkv
    by_cases hw : kv.1 = σ.wf
    · rw [hw, h.named hn, if_pos rfl, h.cleanF hd kv hkv hw, Option.getD_some, fitLen_self, ← hw]
    · obtain ⟨h1, h2⟩ := h.old kv hkv hw
      rw [h1, if_pos rfl, h2, Option.getD_some, fitLen_self]
  rw [filterMap_congr' this]
  exact List.filterMap_some

theorem overwrite_ne_nil (c : Bytes) (off : Nat) (d : Bytes) (hd : d ≠ []) : overwrite c off d ≠ [] := by
  intro h
  have := congrArg List.length h
  unfold overwrite at this
  simp only [List.length_append, List.length_nil] at this
  have : 0 < d.length := List.length_pos_iff.mpr hd
  omega

/-- changing the content of the current file, keeping its name: the power-loss image only sees the
    length -/
theorem image_mapFile {σ : PD} {S : PState} (h : PInv σ S) (fn : Bytes → Bytes)
    (hlen : σ.named = true → ∀ kv ∈ S.vol, kv.1 = σ.wf → (fn kv.2).length = kv.2.length) :
    ({ S with vol := mapFile S.vol σ.wf fn } : PState).image = S.image := by
  unfold PState.image mapFile
  simp only
  rw [List.filterMap_map]
  apply filterMap_congr'
  intro kv hkv
  simp only [Function.comp]
  by_cases hw : kv.1 = σ.wf
  · simp only [hw, if_true]
    cases hn : σ.named with
    | false => rw [h.unnamed hn]; rfl
    | true =>
      rw [hlen hn kv hkv hw]
  · simp only [hw, if_false]

theorem prun_directP_vol (S : PState) (e : Effect) (he : isSyncE e = false) :
    prun S (directP e) = { S with vol := applyOsOps S.vol (direct e) } := by
  rw [directP_nonsync e he, prun_lift _ (direct_noSync e he)]

theorem mem_keys {img : Image} {kv : Nat × Bytes} (h : kv ∈ img) : kv.1 ∈ img.map (·.1) :=
  List.mem_map_of_mem (f := (·.1)) h

/-- one effect of the discipline -/
theorem pinv_step (fb : Nat) {σ σ' : PD} {S : PState} {e : Effect} (h : PInv σ S) (hp : pd1 σ e = some σ')
    (hf0 : FullOrEmpty fb S.vol) (hf1 : FullOrEmpty fb (prun S (directP e)).vol) :
    PInv σ' (prun S (directP e)) ∧
    (¬ (σ'.dirty = false ∧ σ'.named = true) → (prun S (directP e)).image = S.image) := by
  cases e with
  | write f off d =>
    simp only [pd1] at hp
    split at hp
    · rename_i hc
      obtain ⟨rfl, hd⟩ := hc
      injection hp with hp
      subst hp
      rw [prun_directP_vol S _ rfl] at hf1 ⊢
      simp only [direct, applyOsOps, List.foldl_cons, List.foldl_nil, applyOs] at hf1 ⊢
      refine ⟨⟨by rw [mapFile_keys]; exact h.nodup, by rw [mapFile_keys]; exact h.wf_mem, ?_, h.dirs_le, ?_, h.named,
        h.unnamed, (fun hx => by cases hx), ?_, fun _ => rfl⟩, fun _ => ?_⟩
      · intro kv hkv
        rcases mem_mapFile (img := S.vol) (f := σ.wf) (fn := fun c => overwrite c off d) hkv with ⟨_, hm⟩ | ⟨hk, _⟩
        · exact h.le_wf kv hm
        · rw [hk]; exact Nat.le_refl _
      · intro kv hkv hne
        rcases mem_mapFile (img := S.vol) (f := σ.wf) (fn := fun c => overwrite c off d) hkv with ⟨_, hm⟩ | ⟨hk, _⟩
        · exact h.old kv hm hne
        · exact absurd hk hne
      · intro _ kv hkv hw
        rcases mem_mapFile (img := S.vol) (f := σ.wf) (fn := fun c => overwrite c off d) hkv with ⟨hk, _⟩ | ⟨_, c, _, hc⟩
        · exact absurd hw hk
        · rw [hc]; exact overwrite_ne_nil c off d hd
      · apply image_mapFile h
        intro hn kv hkv hw
        have hne : kv.2 ≠ [] := h.wrt (h.nw hn) kv hkv hw
        have h0 : kv.2.length = fb := by
          rcases hf0 kv hkv with h0 | h0
          · exact h0
          · exact absurd h0 hne
        have hm : (kv.1, overwrite kv.2 off d) ∈ mapFile S.vol σ.wf (fun c => overwrite c off d) := by
          unfold mapFile
          exact List.mem_map.mpr ⟨kv, hkv, by simp [hw]⟩
        rcases hf1 _ hm with h1 | h1
        · rw [h0]; exact h1
        · exact absurd h1 (overwrite_ne_nil _ off d hd)
    · cases hp
  | flush =>
    injection hp with hp
    subst hp
    exact ⟨⟨h.nodup, h.wf_mem, h.le_wf, h.dirs_le, h.old, h.named, h.unnamed, h.cleanF, h.wrt, h.nw⟩, fun _ => rfl⟩
  | listDir =>
    injection hp with hp
    subst hp
    exact ⟨h, fun _ => rfl⟩
  | openFile f =>
    injection hp with hp
    subst hp
    exact ⟨h, fun _ => rfl⟩
  | readBlock f =>
    injection hp with hp
    subst hp
    exact ⟨h, fun _ => rfl⟩
  | ensureLen f n => simp [pd1] at hp
  | fsyncFile f =>
    simp only [pd1] at hp
    split at hp
    · rename_i hc
      obtain ⟨rfl, _⟩ := hc
      injection hp with hp
      subst hp
      have hrun : prun S (directP (Effect.fsyncFile σ.wf)) = pstep S (.syncFile σ.wf) := rfl
      rw [hrun]
      cases hl : lookupF S.vol σ.wf with
      | none =>
        have hS : pstep S (.syncFile σ.wf) = S := by simp only [pstep, hl]
        rw [hS]
        have hnot : ∀ kv ∈ S.vol, kv.1 ≠ σ.wf := by
          intro kv hkv hw
          have := lookupF_of_mem h.nodup hkv
          rw [hw, hl] at this; cases this
        exact ⟨⟨h.nodup, h.wf_mem, h.le_wf, h.dirs_le, h.old, h.named, h.unnamed,
          fun _ kv hkv hw => absurd hw (hnot kv hkv), h.wrt, h.nw⟩, fun _ => rfl⟩
      | some c =>
        have hS : pstep S (.syncFile σ.wf) = { S with dur := (σ.wf, c) :: S.dur } := by simp only [pstep, hl]
        rw [hS]
        refine ⟨⟨h.nodup, h.wf_mem, h.le_wf, h.dirs_le, ?_, h.named, h.unnamed, ?_, h.wrt, h.nw⟩, fun hnot => ?_⟩
        · intro kv hkv hne
          obtain ⟨h1, h2⟩ := h.old kv hkv hne
          refine ⟨h1, ?_⟩
          show lookupF ((σ.wf, c) :: S.dur) kv.1 = _
          rw [lookupF_cons, if_neg (fun e => hne e.symm)]; exact h2
        · intro _ kv hkv hw
          show lookupF ((σ.wf, c) :: S.dur) σ.wf = _
          rw [lookupF_cons, if_pos rfl]
          have := lookupF_of_mem h.nodup hkv
          rw [hw, hl] at this
          exact this
        · -- the name of the file is not durable: nothing changes
          have hn : σ.named = false := by
            cases hn : σ.named with
            | false => rfl
            | true => exact absurd ⟨rfl, hn⟩ hnot
          unfold PState.image
          simp only
          apply filterMap_congr'
          intro kv hkv
          by_cases hw : kv.1 = σ.wf
          · rw [hw, h.unnamed hn]; rfl
          · have hlk : lookupF ((σ.wf, c) :: S.dur) kv.1 = lookupF S.dur kv.1 := by
              rw [lookupF_cons]; exact if_neg (fun e => hw e.symm)
            simp only [hlk]
    · cases hp
  | fsyncDir =>
    simp only [pd1] at hp
    split at hp
    · rename_i hc
      obtain ⟨hd, hw, _⟩ := hc
      injection hp with hp
      subst hp
      have hrun : prun S (directP Effect.fsyncDir) = { S with dirs := S.vol.map (·.1) } := rfl
      rw [hrun]
      have hcont : ∀ k, k ∈ S.vol.map (·.1) → (S.vol.map (·.1)).contains k = true := by
        intro k hk; simpa using hk
      refine ⟨⟨h.nodup, h.wf_mem, h.le_wf, ?_, ?_, fun _ => hcont _ h.wf_mem, (fun hx => by cases hx), h.cleanF, h.wrt,
        fun _ => hw⟩, fun hnot => absurd ⟨hd, rfl⟩ hnot⟩
      · intro k hk
        obtain ⟨kv, hkv, rfl⟩ := List.mem_map.mp hk
        exact h.le_wf kv hkv
      · intro kv hkv hne
        exact ⟨hcont _ (mem_keys hkv), (h.old kv hkv hne).2⟩
    · cases hp
  | create f =>
    simp only [pd1] at hp
    split at hp
    · rename_i hc
      obtain ⟨hd, hn, _, hlt⟩ := hc
      injection hp with hp
      subst hp
      rw [prun_directP_vol S _ rfl] at hf1 ⊢
      simp only [direct, applyOsOps, List.foldl_cons, List.foldl_nil, applyOs] at hf1 ⊢
      have hfresh : f ∉ S.vol.map (·.1) := by
        intro hm
        obtain ⟨kv, hkv, rfl⟩ := List.mem_map.mp hm
        have := h.le_wf kv hkv
        omega
      have hnd : S.dirs.contains f = false := by
        cases hx : S.dirs.contains f with
        | false => rfl
        | true =>
          have : f ∈ S.dirs := by simpa using hx
          have := h.dirs_le f this
          omega
      refine ⟨⟨insertFile_nodup _ _ _ hfresh h.nodup, ?_, ?_, ?_, ?_, (fun hx => by cases hx), fun _ => hnd,
        (fun hx => by cases hx), (fun hx => by cases hx), (fun hx => by cases hx)⟩, fun _ => ?_⟩
      · rw [insertFile_keys_fresh _ _ _ hfresh]; exact Or.inl rfl
      · intro kv hkv
        rcases (mem_insertFile_fresh _ _ _ hfresh kv).mp hkv with rfl | hm
        · exact Nat.le_refl _
        · have := h.le_wf kv hm
          simp only; omega
      · intro k hk
        have := h.dirs_le k hk
        simp only; omega
      · intro kv hkv hne
        rcases (mem_insertFile_fresh _ _ _ hfresh kv).mp hkv with rfl | hm
        · exact absurd rfl hne
        · by_cases hw : kv.1 = σ.wf
          · refine ⟨by rw [hw]; exact h.named hn, ?_⟩
            rw [hw]; exact h.cleanF hd kv hm hw
          · exact h.old kv hm hw
      · unfold PState.image
        simp only
        apply filterMap_insertFile _ _ _ _ hfresh
        simp only [hnd]
        rfl
    · cases hp
  | setLen f n =>
    simp only [pd1] at hp
    split at hp
    · rename_i hc
      obtain ⟨rfl, hn, _⟩ := hc
      injection hp with hp
      subst hp
      rw [prun_directP_vol S _ rfl] at hf1 ⊢
      simp only [direct, applyOsOps, List.foldl_cons, List.foldl_nil, applyOs] at hf1 ⊢
      refine ⟨⟨by rw [mapFile_keys]; exact h.nodup, by rw [mapFile_keys]; exact h.wf_mem, ?_, h.dirs_le, ?_, h.named,
        h.unnamed, (fun hx => by cases hx), (fun hx => by cases hx), (fun hx => by rw [hn] at hx; cases hx)⟩, fun _ => ?_⟩
      · intro kv hkv
        rcases mem_mapFile (img := S.vol) (f := σ.wf) (fn := fun c => setLenBytes c n) hkv with ⟨_, hm⟩ | ⟨hk, _⟩
        · exact h.le_wf kv hm
        · rw [hk]; exact Nat.le_refl _
      · intro kv hkv hne
        rcases mem_mapFile (img := S.vol) (f := σ.wf) (fn := fun c => setLenBytes c n) hkv with ⟨_, hm⟩ | ⟨hk, _⟩
        · exact h.old kv hm hne
        · exact absurd hk hne
      · apply image_mapFile h
        intro hx; rw [hn] at hx; cases hx
    · cases hp
  | unlink f =>
    simp only [pd1] at hp
    split at hp
    · rename_i hc
      obtain ⟨hne, hd, hn, _⟩ := hc
      injection hp with hp
      subst hp
      rw [prun_directP_vol S _ rfl] at hf1 ⊢
      simp only [direct, applyOsOps, List.foldl_cons, List.foldl_nil, applyOs] at hf1 ⊢
      have hsub : ∀ kv, kv ∈ S.vol.filter (fun x => x.1 != f) → kv ∈ S.vol := fun kv hkv => (List.mem_filter.mp hkv).1
      refine ⟨⟨?_, ?_, fun kv hkv => h.le_wf kv (hsub kv hkv), h.dirs_le, fun kv hkv => h.old kv (hsub kv hkv),
        h.named, h.unnamed, fun hx kv hkv => h.cleanF hx kv (hsub kv hkv), fun hx kv hkv => h.wrt hx kv (hsub kv hkv),
        h.nw⟩, fun hnot => absurd ⟨hd, hn⟩ hnot⟩
      · exact h.nodup.sublist (List.Sublist.map _ List.filter_sublist)
      · obtain ⟨kv, hkv, hk⟩ := List.mem_map.mp h.wf_mem
        refine List.mem_map.mpr ⟨kv, List.mem_filter.mpr ⟨hkv, ?_⟩, hk⟩
        simp only [bne_iff_ne, ne_eq]
        rw [hk]; exact fun e => hne e.symm
    · cases hp

/-! ### the volatile image, and the theorem -/

theorem pstep_vol (S : PState) (op : OsOpP) : (pstep S op).vol = applyOs S.vol op.erase := by
  cases op with
  | syncFile f =>
    simp only [pstep]
    split <;> rfl
  | syncDir => rfl
  | write f off d => rfl
  | create f => rfl
  | setLen f n => rfl
  | ensureLen f n => rfl
  | unlink f => rfl

theorem prun_vol (ops : List OsOpP) : ∀ S : PState, (prun S ops).vol = applyOsOps S.vol (ops.map OsOpP.erase) := by
  induction ops with
  | nil => intro S; rfl
  | cons o ops ih =>
    intro S
    simp only [prun, List.foldl_cons, List.map_cons, applyOsOps]
    have := ih (pstep S o)
    simp only [prun, applyOsOps] at this
    rw [this, pstep_vol]

theorem directP_erase (e : Effect) : (directP e).map OsOpP.erase = direct e := by
  by_cases he : isSyncE e = true
  · cases e <;> first | rfl | cases he
  · have he' : isSyncE e = false := by simpa using he
    rw [directP_nonsync e he', map_erase_lift (direct_noSync e he')]

theorem directOpsP_erase (es : List Effect) : (directOpsP es).map OsOpP.erase = directOps es := by
  induction es with
  | nil => rfl
  | cons e es ih => rw [directOpsP_cons, directOps_cons, List.map_append, directP_erase, ih]

theorem prun_vol_direct (S : PState) (es : List Effect) :
    (prun S (directOpsP es)).vol = applyOsOps S.vol (directOps es) := by
  rw [prun_vol, directOpsP_erase]

theorem split_at' {α : Type} : ∀ {l : List α} {i : Nat} {x : α}, l[i]? = some x → l = l.take i ++ x :: l.drop (i + 1)
  | [], i, x, h => by simp at h
  | a :: l, 0, x, h => by simp at h; simp [h]
  | a :: l, i + 1, x, h => by
    simp only [List.getElem?_cons_succ] at h
    have := split_at' h
    simp only [List.take_succ_cons, List.drop_succ_cons, List.cons_append]
    rw [← this]

theorem take_succ_get' {α : Type} {l : List α} {i : Nat} {x : α} (h : l[i]? = some x) :
    l.take (i + 1) = l.take i ++ [x] := by
  rw [List.take_succ, h]; rfl

/-- **power loss after `n` effects = volatile image after `p ≤ n` effects** -/
theorem power_prefix (fb : Nat) (es : List Effect) (σ : PD) (S : PState) (hI : PInv σ S)
    (hd : σ.dirty = false) (hn : σ.named = true) (σe : PD) (hpd : pd σ es = some σe)
    (hfoe : ∀ i, i ≤ es.length → FullOrEmpty fb (applyOsOps S.vol (directOps (es.take i)))) :
    ∀ n, n ≤ es.length → ∃ p σn, p ≤ n ∧ pd σ (es.take n) = some σn ∧
      PInv σn (prun S (directOpsP (es.take n))) ∧
      (prun S (directOpsP (es.take n))).image = applyOsOps S.vol (directOps (es.take p)) ∧
      ((σn.dirty = false ∧ σn.named = true) → p = n) := by
  intro n
  induction n with
  | zero =>
    intro _
    refine ⟨0, σ, Nat.le_refl _, rfl, hI, ?_, fun _ => rfl⟩
    simp only [List.take_zero, directOpsP, directOps, List.flatMap_nil, prun, List.foldl_nil, applyOsOps]
    exact image_alldur hI hd hn
  | succ n ih =>
    intro hle
    obtain ⟨p, σn, hp, hpdn, hIn, himg, hall⟩ := ih (by omega)
    obtain ⟨e, he⟩ : ∃ e, es[n]? = some e := ⟨es[n], by simp [List.getElem?_eq_getElem (by omega : n < es.length)]⟩
    have htk := take_succ_get' he
    -- the discipline accepts the next effect
    have hsplit : es = es.take n ++ e :: es.drop (n + 1) := by
      exact split_at' he
    have hpd1 : ∃ σ1, pd1 σn e = some σ1 := by
      rw [hsplit, pd_append, hpdn] at hpd
      simp only [Option.bind_some, pd] at hpd
      cases h1 : pd1 σn e with
      | none => rw [h1] at hpd; cases hpd
      | some σ1 => exact ⟨σ1, rfl⟩
    obtain ⟨σ1, hσ1⟩ := hpd1
    have hpdn1 : pd σ (es.take (n + 1)) = some σ1 := by
      rw [htk, pd_append, hpdn]
      simp only [Option.bind_some, pd, hσ1]
    have hrun : prun S (directOpsP (es.take (n + 1))) = prun (prun S (directOpsP (es.take n))) (directP e) := by
      rw [htk, directOpsP_append, prun_append]
      simp [directOpsP]
    have hf0 : FullOrEmpty fb (prun S (directOpsP (es.take n))).vol := by
      rw [prun_vol_direct]; exact hfoe n (by omega)
    have hf1 : FullOrEmpty fb (prun (prun S (directOpsP (es.take n))) (directP e)).vol := by
      rw [← hrun, prun_vol_direct]; exact hfoe (n + 1) hle
    obtain ⟨hI1, hsame⟩ := pinv_step fb hIn hσ1 hf0 hf1
    rw [← hrun] at hI1 hsame
    by_cases hall1 : σ1.dirty = false ∧ σ1.named = true
    · refine ⟨n + 1, σ1, Nat.le_refl _, hpdn1, hI1, ?_, fun _ => rfl⟩
      rw [image_alldur hI1 hall1.1 hall1.2, prun_vol_direct]
    · exact ⟨p, σ1, by omega, hpdn1, hI1, by rw [hsame hall1]; exact himg, fun h => absurd h hall1⟩

end MRL.P
