/-
Journal-level facts needed by the restart theorem on top of `JInv`: consecutive entries are
chained (`a.loc ≤ b.attr`), the first retained entry is attributed to the first tracked file or
earlier (`FirstOK`), and a GC pass alone keeps `JInv`.
-/
import MRL.Props.C01Journal

namespace MRL.G
open MRL Log C05 C01J

/-! ### chained journal -/

def Mono2 (J : List JE) : Prop := J.Pairwise (fun a b => a.loc ≤ b.attr)

theorem mono2_append {J js : List JE} (hJ : Mono2 J) (hjs : Mono2 js)
    (h : ∀ a ∈ J, ∀ b ∈ js, a.loc ≤ b.attr) : Mono2 (J ++ js) :=
  List.pairwise_append.mpr ⟨hJ, hjs, h⟩

theorem mono2_touches (g : Geom) (names : List Bytes) : ∀ l : Log, FilesWF l → Mono2 (touchesJ g l names) := by
  induction names with
  | nil => intro l _; exact List.Pairwise.nil
  | cons n ns ih =>
    intro l hwf
    rw [touchesJ_cons]
    have hg := writeEntry_grow g l (.touch n (touchNext l n)) hwf
    refine List.Pairwise.cons ?_ (ih _ hg.wf)
    intro b hb
    have h1 := writeEntry_cur_ge_nextLoc g l (.touch n (touchNext l n)) hwf
    have h2 := (touchesJ_chunk g ns _ hg.wf).bounds b hb
    simp only [je]; omega

theorem mono2_gcJ (g : Geom) (l : Log) (order : List Bytes) (h : HInv l) : Mono2 (gcJ g l order) := by
  rcases runGc_shape g l order h.inv.1 with ⟨hj, _⟩ | ⟨names, _, _, hj, _⟩
  · rw [hj]; exact List.Pairwise.nil
  · rw [hj]; exact mono2_touches g names l h.files

/-- journal chunk of a GC pass -/
theorem gcJ_chunk (g : Geom) (l : Log) (order : List Bytes) (h : HInv l) :
    Chunk l.cur (gcJ g l order) (runGc g l order).1.cur :=
  (gc_facts g l order h 0 (Nat.zero_le _)).2.2.1

/-- journal chunk of one call, with the chaining -/
theorem stepJ_chunk (g : Geom) (l : Log) (h : HInv l) (c : Call) (tick : Bool) (order : List Bytes) :
    Chunk l.cur (l.stepJ g c order) (l.step g c tick order).1.cur ∧ Mono2 (l.stepJ g c order) := by
  have hInv' : Inv (l.step g c tick order).1 := (C05_refines g l h.inv c tick order).2.2
  rcases step_shape g l h.inv c tick order with
    ⟨hj, hl⟩ | ⟨e, qs', hewf, hre, (⟨hj, hl⟩ | ⟨hj, hl⟩)⟩
  · rw [hj, hl]; exact ⟨Chunk.nil (Nat.le_refl _), List.Pairwise.nil⟩
  · rw [hj, hl]; exact ⟨je_chunk g l e h.files hewf, List.pairwise_singleton _ _⟩
  · have hq' : (runGc g { (Log.writeEntry g l e).1 with queues := qs' } order).1.queues = qs' :=
      runGc_queues g _ order
    rw [hl] at hInv'
    have hInv2 : Inv ({ (Log.writeEntry g l e).1 with queues := qs' } : Log) :=
      Inv.of_queues (l := (runGc g { (Log.writeEntry g l e).1 with queues := qs' } order).1) hq'.symm hInv'
    have h2 := write_hinv g l e qs' h hre hInv2
    have hc1 := je_chunk g l e h.files hewf
    have hc2 := gcJ_chunk g _ order h2
    rw [hj, hl]
    refine ⟨hc1.append hc2, List.Pairwise.cons ?_ (mono2_gcJ g _ order h2)⟩
    intro b hb
    have b1 := hc1.bounds (l.je g e) (by simp)
    have b2 := hc2.bounds b hb
    simp only at b1 b2 ⊢
    omega

theorem mono2_extend {J js : List JE} {c c' : Nat} (hJ : Mono2 J) (hc : Chunk 0 J c)
    (hjs : Chunk c js c') (hm : Mono2 js) : Mono2 (J ++ js) := by
  apply mono2_append hJ hm
  intro a ha b hb
  have := hc.bounds a ha
  have := hjs.bounds b hb
  omega

/-! ### the first retained entry -/

def FirstOK (F : Nat) (J : List JE) (cur : Nat) : Prop := (∃ j ∈ J, F ≤ j.loc ∧ j.attr ≤ F) ∨ cur = F

theorem filter_head_rel {α} (R : α → α → Prop) (p : α → Bool) : ∀ (l : List α), l.Pairwise R →
    ∀ a b, (l.filter p).head? = some a → b ∈ l → p b = true → a = b ∨ R a b := by
  intro l
  induction l with
  | nil => intro _ a b _ hb; cases hb
  | cons x l ih =>
    intro hp a b ha hb hpb
    rw [List.pairwise_cons] at hp
    rw [List.filter_cons] at ha
    by_cases hx : p x = true
    · simp only [hx, if_true, List.head?_cons, Option.some.injEq] at ha
      subst ha
      rcases List.mem_cons.mp hb with rfl | hb
      · exact Or.inl rfl
      · exact Or.inr (hp.1 b hb)
    · simp only [hx, Bool.false_eq_true, if_false] at ha
      rcases List.mem_cons.mp hb with rfl | hb
      · exact absurd hpb hx
      · exact ih hp.2 a b ha hb hpb

theorem hfirst_of {F cur : Nat} {J : List JE} (hm : Mono2 J) (hc : Chunk 0 J cur) (hf : FirstOK F J cur) :
    ∀ j0, (J.filter (fun j => decide (F ≤ j.loc))).head? = some j0 → j0.attr ≤ F := by
  intro j0 h0
  have hmem : j0 ∈ J := by
    have : j0 ∈ J.filter (fun j => decide (F ≤ j.loc)) := List.mem_of_head? h0
    exact (List.mem_filter.mp this).1
  have hb0 := hc.bounds j0 hmem
  rcases hf with ⟨j, hj, h1, h2⟩ | hcur
  · rcases filter_head_rel _ _ J hm j0 j h0 hj (by simpa using h1) with rfl | hr
    · exact h2
    · omega
  · omega

theorem firstOK_extend {F cur cur' : Nat} {J js : List JE} (hf : FirstOK F J cur)
    (hnil : js = [] → cur' = cur)
    (hhead : ∀ j1, js.head? = some j1 → j1.attr = cur ∧ cur ≤ j1.loc) : FirstOK F (J ++ js) cur' := by
  rcases hf with ⟨j, hj, h1, h2⟩ | hcur
  · exact Or.inl ⟨j, List.mem_append_left _ hj, h1, h2⟩
  · cases js with
    | nil => right; rw [hnil rfl]; exact hcur
    | cons j1 rest =>
      obtain ⟨a1, a2⟩ := hhead j1 rfl
      exact Or.inl ⟨j1, by simp, by omega, by omega⟩

/-! ### where the ghost attributions come from -/

def AttrsIn (Q : Nat → Prop) (gs : GQs) : Prop := ∀ n x, AL.get? gs n = some x → ∀ r ∈ x.recs, Q r.attr

theorem GQ.truncateHead_subset (x : GQ) (p : Nat) : ∀ r ∈ (x.truncateHead p).recs, r ∈ x.recs := by
  unfold GQ.truncateHead
  split
  · intro r h; exact h
  · split
    · intro r h; cases h
    · intro r h; exact List.mem_of_mem_drop h

theorem AttrsIn.set {Q : Nat → Prop} {gs : GQs} (h : AttrsIn Q gs) (n : Bytes) {x : GQ}
    (hx : ∀ r ∈ x.recs, Q r.attr) : AttrsIn Q (AL.set gs n x) := by
  intro m y hy
  by_cases hm : m = n
  · subst hm; rw [AL.get?_set_same] at hy; cases hy; exact hx
  · rw [AL.get?_set_other _ _ _ _ hm] at hy; exact h m y hy

theorem AttrsIn.ack {Q : Nat → Prop} {gs : GQs} (h : AttrsIn Q gs) (n : Bytes) (p : Nat) :
    AttrsIn Q (gs.ackPosition n p) := by
  intro m y hy
  by_cases hm : m = n
  · subst hm; rw [GQs.get?_ackPosition_same] at hy; cases hy; intro r hr; cases hr
  · rw [GQs.get?_ackPosition_other _ _ _ _ hm] at hy; exact h m y hy

theorem replayEntryG_attrs {Q : Nat → Prop} {gs gs' : GQs} {file : Nat} {e : Entry}
    (h : AttrsIn Q gs) (hf : Q file) (hr : replayEntryG gs file e = some gs') : AttrsIn Q gs' := by
  cases e with
  | touch q p => simp only [replayEntryG, Option.some.injEq] at hr; subst hr; exact h.ack q p
  | delete q p =>
    simp only [replayEntryG, Option.some.injEq] at hr; subst hr
    intro m y hy
    by_cases hm : m = q
    · subst hm; rw [AL.get?_remove_same] at hy; cases hy
    · rw [AL.get?_remove_other _ _ _ hm] at hy; exact h m y hy
  | truncate q p =>
    simp only [replayEntryG] at hr
    cases hg : AL.get? gs q with
    | none => rw [hg] at hr; cases hr; exact h
    | some x =>
      rw [hg] at hr; cases hr
      exact h.set q fun r hr => h q x hg r (GQ.truncateHead_subset x p r hr)
  | append q pos recs =>
    simp only [replayEntryG] at hr
    have h1 : AttrsIn Q (if AL.contains gs q then gs else gs.ackPosition q pos) := by
      split
      · exact h
      · exact h.ack q pos
    cases hg : AL.get? (if AL.contains gs q then gs else gs.ackPosition q pos) q with
    | none => simp only [hg] at hr; cases hr
    | some x =>
      simp only [hg] at hr
      cases ha : x.appendAll file recs with
      | none => rw [ha] at hr; cases hr
      | some x' =>
        rw [ha] at hr; cases hr
        apply h1.set q
        intro r hr
        rw [GQ.appendAll_recs file recs ha] at hr
        rcases List.mem_append.mp hr with hr | hr
        · exact h1 q x hg r hr
        · obtain ⟨r0, _, rfl⟩ := List.mem_map.mp hr
          exact hf

theorem replayJG_attrs (F : Nat) (Q : Nat → Prop) : ∀ (js : List JE) (gs gs' : GQs),
    (∀ j ∈ js, F ≤ j.loc → Q (max j.attr F)) → AttrsIn Q gs → replayJG F gs js = some gs' →
    AttrsIn Q gs' := by
  intro js
  induction js with
  | nil => intro gs gs' _ h hr; cases hr; exact h
  | cons j js ih =>
    intro gs gs' hq h hr
    have hrest : ∀ j' ∈ js, F ≤ j'.loc → Q (max j'.attr F) := fun j' hj' => hq j' (List.mem_cons_of_mem _ hj')
    simp only [replayJG] at hr
    split at hr
    · exact ih gs gs' hrest h hr
    · rename_i hlt
      cases h1 : replayEntryG gs (max j.attr F) j.e with
      | none => rw [h1] at hr; cases hr
      | some g1 =>
        rw [h1] at hr
        exact ih g1 gs' hrest (replayEntryG_attrs h (hq j List.mem_cons_self (by omega)) h1) hr

/-- every handle of a queue rebuilt by `replayJ F [] J` is `max j.attr F` for a retained `j` -/
theorem replay_handles (F : Nat) (J : List JE) (qs : MemQueues) (h : replayJ F [] J = some qs)
    (n : Bytes) (x : MemQueue) (hx : qs.get? n = some x) (r : Rec) (hr : r ∈ x.recs) (f : Nat)
    (hf : r.file = some f) : ∃ j ∈ J, F ≤ j.loc ∧ f = max j.attr F := by
  have hg := replayJ_toMemS F J []
  have hnil : toMemS [] = ([] : MemQueues) := rfl
  rw [hnil, h] at hg
  cases hga : replayJG F [] J with
  | none => rw [hga] at hg; cases hg
  | some gs =>
    rw [hga] at hg
    simp only [Option.map_some, Option.some.injEq] at hg
    have hattrs := replayJG_attrs F (fun a => ∃ j ∈ J, F ≤ j.loc ∧ a = max j.attr F) J [] gs
      (fun j hj hl => ⟨j, hj, hl, rfl⟩) (fun n x hx => by cases hx) hga
    rw [hg, toMemS_get?] at hx
    cases hgx : AL.get? gs n with
    | none => rw [hgx] at hx; cases hx
    | some gx =>
      rw [hgx] at hx
      simp only [Option.map_some, Option.some.injEq] at hx
      subst hx
      obtain ⟨gr, hgr, hga2⟩ := handle_is_attr gx.recs r f hr hf
      have := hattrs n gx hgx gr hgr
      rw [hga2] at this
      exact this

/-! ### a GC pass alone -/

theorem gcFiles_head (canDel : Nat → Bool) : ∀ (fs r d : List Nat), gcFiles canDel fs = (r, d) →
    ∀ f r', r = f :: r' → canDel f = false ∨ r' = [] := by
  intro fs
  induction fs with
  | nil => intro r d h f r' hr; simp only [gcFiles, Prod.mk.injEq] at h; rw [← h.1] at hr; cases hr
  | cons x fs ih =>
    intro r d h f r' hr
    cases fs with
    | nil =>
      simp only [gcFiles, Prod.mk.injEq] at h
      rw [← h.1] at hr
      simp only [List.cons.injEq] at hr
      exact Or.inr hr.2.symm
    | cons y rest =>
      simp only [gcFiles] at h
      split at h
      · rcases hg : gcFiles canDel (y :: rest) with ⟨r1, d1⟩
        rw [hg] at h
        simp only [Prod.mk.injEq] at h
        exact ih r1 d1 hg f r' (by rw [h.1]; exact hr)
      · rename_i hc
        simp only [Prod.mk.injEq] at h
        rw [← h.1] at hr
        simp only [List.cons.injEq] at hr
        left; rw [← hr.1]; simpa using hc

theorem jinv_gc (g : Geom) {l2 : Log} {J : List JE} (order : List Bytes) (hJ : JInv l2 J) :
    JInv (runGc g l2 order).1 (J ++ gcJ g l2 order) := by
  obtain ⟨h2, chunk, qs, hrep, heq, hwf⟩ := hJ
  have hF2 : l2.files.headD 0 ≤ l2.cur := head_le_of_mem h2.files.sorted h2.files.cur_mem
  obtain ⟨hH', hq', hchunk, hreplay, hhead⟩ := gc_facts g l2 order h2 (l2.files.headD 0) hF2
  have hchunk' := chunk.append hchunk
  obtain ⟨qs1, r1, r2, r3⟩ := extend_rep h2.inv hrep heq hwf hreplay
  refine ⟨hH', hchunk', ?_⟩
  rw [← hq'] at r2
  rcases hhead with hsame | ⟨hle, hT, hempty⟩
  · rw [hsame]; exact ⟨qs1, r1, r2, r3⟩
  · by_cases hFF : (runGc g l2 order).1.files.headD 0 = l2.files.headD 0
    · rw [hFF]; exact ⟨qs1, r1, r2, r3⟩
    · have hlt : l2.files.headD 0 < (runGc g l2 order).1.files.headD 0 := by omega
      obtain ⟨qb, b1, b2⟩ := suffix_lemma _ _ hlt J _ hchunk'.mono
        (fun j hj => ⟨(hchunk'.bounds j hj).2.1, hchunk'.wf j hj⟩) hT qs1 r1
        (by
          intro n x hx r hr f hf
          obtain ⟨y, hy, hxy⟩ := r2.get_some hx
          rw [hxy.1] at hr
          exact head_le_of_mem hH'.files.sorted (hH'.handles (n, y) (get_mem hy) r hr f hf))
        (by
          intro n x hx hxe
          obtain ⟨y, hy, hxy⟩ := r2.get_some hx
          have hye : y.recs = [] := by rw [← hxy.1]; exact hxe
          have hmem : n ∈ (runGc g l2 order).1.queues.emptyNames :=
            (mem_emptyNames hH'.inv.1 n).mpr ⟨y, hy, hye⟩
          rw [hq'] at hmem
          exact hempty n hmem)
      exact ⟨qb, b1, b2.trans r2, replayJ_wf _ _ QsWF.nil b1⟩

theorem gcJ_nil_cur (g : Geom) (l : Log) (order : List Bytes) (hn : (l.queues.map (·.1)).Nodup)
    (h : gcJ g l order = []) : (runGc g l order).1.cur = l.cur := by
  rcases runGc_shape g l order hn with ⟨_, hl⟩ | ⟨names, rem, del, hj, hl, _, _⟩
  · rw [hl]
  · rw [hl]
    rw [h] at hj
    cases names with
    | nil => rfl
    | cons n ns => rw [touchesJ_cons] at hj; cases hj

/-- the new first tracked file is one where an entry starts being attributed, or the current one -/
theorem firstOK_gc (g : Geom) {l2 : Log} {J : List JE} (order : List Bytes) (hJ2 : JInv l2 J)
    (hf : FirstOK (l2.files.headD 0) J l2.cur) :
    FirstOK ((runGc g l2 order).1.files.headD 0) (J ++ gcJ g l2 order) (runGc g l2 order).1.cur := by
  have hJ' := jinv_gc g order hJ2
  rcases runGc_shape g l2 order hJ2.h.inv.1 with ⟨hj, hl⟩ | ⟨names, rem, del, hj, hl, hgc, _⟩
  · rw [hj, hl, List.append_nil]; exact hf
  · have hcm := hJ'.h.files.cur_mem
    rw [hl] at hcm ⊢
    rw [hj] at hJ' ⊢
    rw [hl] at hJ'
    simp only at hcm ⊢
    cases hrem : rem with
    | nil => rw [hrem] at hcm; cases hcm
    | cons f r' =>
      rw [hrem] at hcm hJ'
      simp only [List.headD_cons]
      rcases gcFiles_head _ _ _ _ hgc f r' hrem with hnd | hr'
      · unfold canDelete at hnd
        simp only [Bool.and_eq_false_iff, bne_eq_false_iff_eq, Bool.not_eq_eq_eq_not, Bool.not_false] at hnd
        rcases hnd with (h1 | h1) | h1
        · right; exact h1.symm
        · -- the pinned file: the cursor at the start of the pass
          cases names with
          | nil => right; exact h1.symm
          | cons n ns =>
            left
            rw [touchesJ_cons]
            refine ⟨l2.je g (.touch n (touchNext l2 n)), by simp, ?_, ?_⟩
            · have := nextLoc_ge g l2; simp only [je]; omega
            · simp only [je]; omega
        · -- referenced by a handle
          left
          unfold MemQueues.refsFile MemQueue.refsFile at h1
          simp only [List.any_eq_true, beq_iff_eq] at h1
          obtain ⟨kv, hkv, r, hr, hrf⟩ := h1
          obtain ⟨qs, q1, q2, _⟩ := hJ'.rep
          simp only [List.headD_cons] at q1
          have hget : ({ (writeTouches g l2 names).1 with files := f :: r' } : Log).queues.get? kv.1 = some kv.2 :=
            AL.get?_of_mem_nodup hJ'.h.inv.1 hkv
          obtain ⟨y, hy, hxy⟩ := q2.symm.get_some hget
          rw [hxy.1] at hr
          obtain ⟨j, hjm, hj1, hj2⟩ := replay_handles f _ qs q1 kv.1 y hy r hr f hrf
          exact ⟨j, hjm, hj1, by omega⟩
      · subst hr'
        simp only [List.mem_singleton] at hcm
        right; exact hcm

end MRL.G
