/-
Power loss with a lazy directory, for histories (`PX.power_reductionX` for `powerImageD`): as long as
no `fsync(file)` has made new content durable while unlinks were not covered by an `fsync(dir)`,
the image left by a power loss at any instant after a prefix of the history that ends with
`flush, fsync(file), fsync(dir)`, WHATEVER the number `u` of pending unlinks that are durable, is the
image obtained from the flushed disk after that prefix by a whole number of the remaining effects.
-/
import MRL.Proofs.PDSem
import MRL.Proofs.PXRun

namespace MRL.PD
open MRL Buf G H L Log K C01J Codec P PX

/-! ### where `ensureLen` occurs -/

/-- every `ensureLen` comes right after `fsync(dir), open` (a roll-over into an existing file) -/
def EnsPat (es : List Effect) : Prop :=
  ∀ i f n, es[i]? = some (Effect.ensureLen f n) →
    2 ≤ i ∧ es[i - 2]? = some Effect.fsyncDir ∧ es[i - 1]? = some (Effect.openFile f)

theorem ensPat_of_none {es : List Effect} (h : ∀ f n, Effect.ensureLen f n ∉ es) : EnsPat es := by
  intro i f n hi
  exact absurd (List.mem_of_getElem? hi) (h f n)

theorem EnsPat.append {a b : List Effect} (ha : EnsPat a) (hb : EnsPat b) : EnsPat (a ++ b) := by
  intro i f n hi
  by_cases hlt : i < a.length
  · rw [List.getElem?_append_left hlt] at hi
    obtain ⟨h1, h2, h3⟩ := ha i f n hi
    exact ⟨h1, by rw [List.getElem?_append_left (by omega)]; exact h2,
      by rw [List.getElem?_append_left (by omega)]; exact h3⟩
  · rw [List.getElem?_append_right (by omega)] at hi
    obtain ⟨h1, h2, h3⟩ := hb _ f n hi
    refine ⟨by omega, ?_, ?_⟩
    · rw [List.getElem?_append_right (by omega)]
      have : i - 2 - a.length = i - a.length - 2 := by omega
      rw [this]; exact h2
    · rw [List.getElem?_append_right (by omega)]
      have : i - 1 - a.length = i - a.length - 1 := by omega
      rw [this]; exact h3

theorem ensPat_nil : EnsPat [] := ensPat_of_none (fun _ _ h => by cases h)

theorem ensPat_writeBuf (g : Geom) (l : Log) (buf : Bytes) : EnsPat (writeBuf g l buf).2 := by
  by_cases hb : buf = []
  · subst hb; simp only [writeBuf]; exact ensPat_nil
  · by_cases hroll : l.off + buf.length > g.fileBytes
    · cases hn : nextFile l.files l.cur with
      | none =>
        rw [L.writeBuf_roll_none g l buf hb hroll hn]
        apply ensPat_of_none
        intro f n h
        simp at h
      | some nf =>
        rw [L.writeBuf_roll_some g l buf hb hroll nf hn]
        intro i f n hi
        simp only [List.cons_append, List.nil_append] at hi ⊢
        rcases i with _ | _ | _ | _ | _ | _ | i
        · simp at hi
        · simp at hi
        · simp at hi
        · simp at hi
        · simp only [List.getElem?_cons_succ, List.getElem?_cons_zero, Option.some.injEq, Effect.ensureLen.injEq] at hi
          obtain ⟨rfl, _⟩ := hi
          exact ⟨by omega, rfl, rfl⟩
        · simp at hi
        · simp at hi
    · rw [L.writeBuf_noroll g l buf hb hroll]
      apply ensPat_of_none
      intro f n h
      simp at h

theorem ensPat_writeBufs (g : Geom) (bufs : List Bytes) : ∀ l : Log, EnsPat (writeBufs g l bufs).2 := by
  induction bufs with
  | nil => intro l; exact ensPat_nil
  | cons b bs ih =>
    intro l
    rw [Step.writeBufs_cons]
    exact (ensPat_writeBuf g l b).append (ih _)

theorem ensPat_writeEntry (g : Geom) (l : Log) (e : Entry) : EnsPat (Log.writeEntry g l e).2.1 := by
  rw [Step.writeEntry_eq]; exact ensPat_writeBufs g _ l

theorem ensPat_writeTouches (g : Geom) (names : List Bytes) : ∀ l : Log, EnsPat (writeTouches g l names).2.1 := by
  induction names with
  | nil => intro l; exact ensPat_nil
  | cons n ns ih =>
    intro l
    rw [Step.writeTouches_cons]
    exact (ensPat_writeEntry g l _).append (ih _)

theorem ensPat_persist (l : Log) (a : PersistAction) : EnsPat (l.persistEffects a) := by
  apply ensPat_of_none
  intro f n h
  cases a <;> simp [persistEffects] at h

theorem ensPat_unlinks (fs : List Nat) : EnsPat (fs.map Effect.unlink) := by
  apply ensPat_of_none
  intro f n h
  obtain ⟨x, _, hx⟩ := List.mem_map.mp h
  cases hx

theorem ensPat_runGc (g : Geom) (l : Log) (order : List Bytes) : EnsPat (runGc g l order).2.1 := by
  rcases G.runGc_full g l order with ⟨h1, _⟩ | ⟨names, _, h2⟩
  · rw [h1]; exact ensPat_nil
  · rw [h2]
    exact ((ensPat_writeTouches g names l).append (ensPat_persist _ _)).append (ensPat_unlinks _)

theorem ensPat_tailSync (l : Log) (c : Call) (tick : Bool) : EnsPat (Step.tailSync l c tick) := by
  unfold Step.tailSync
  split
  · exact ensPat_persist _ _
  · unfold policyEffects
    split
    · exact ensPat_persist _ _
    · split
      · exact ensPat_persist _ _
      · exact ensPat_nil
    · exact ensPat_nil

theorem ensPat_step (g : Geom) (l : Log) (c : Call) (tick : Bool) (order : List Bytes) :
    EnsPat (l.step g c tick order).2.2 := by
  rcases Step.step_shape2 g l c tick order with ⟨out, hs⟩ | ⟨a, _, hs⟩ | ⟨e, qs', out, hs⟩
  · rw [hs]; exact ensPat_nil
  · rw [hs]; exact ensPat_persist l a
  · rw [hs]
    simp only
    cases hgc : Step.isGcCall c with
    | false =>
      simp only [hgc, Bool.false_eq_true, if_false, List.append_nil]
      exact (ensPat_writeEntry g l e).append (ensPat_tailSync _ c tick)
    | true =>
      simp only [hgc, if_true]
      exact ((ensPat_writeEntry g l e).append (ensPat_runGc g _ order)).append (ensPat_tailSync _ c tick)

/-- after `fsync(dir), open` no unlink is pending -/
theorem und_of_pat (es : List Effect) (i : Nat) (f : Nat) (h2 : 2 ≤ i) (ha : es[i - 2]? = some Effect.fsyncDir)
    (hb : es[i - 1]? = some (Effect.openFile f)) (d : DState) :
    (prunD d (directOpsP (es.take i))).und = [] := by
  have h1 : es.take (i - 1) = es.take (i - 2) ++ [Effect.fsyncDir] := by
    have := take_succ_get' ha
    rwa [show i - 2 + 1 = i - 1 by omega] at this
  have h0 : es.take i = es.take (i - 1) ++ [Effect.openFile f] := by
    have := take_succ_get' hb
    rwa [show i - 1 + 1 = i by omega] at this
  rw [h0, h1, directOpsP_append, directOpsP_append, prunD_append, prunD_append]
  rfl

/-- in a history every `ensureLen` is a roll-over into an existing file, right after `fsync(dir),
    open`, or the no-op that `open` issues on the first file -/
theorem late_ok (g : Geom) (hB : g.B ≤ 65542) (evs : List Ev) : ∀ {l : Log} {J : List JE} {D : Image},
    CInvX g l J D → (∀ j ∈ J, C07.WF j.e) → (∀ j ∈ jourX g l D evs, C07.WF j.e) → TornEffs (effsX g l D evs) →
    ∀ i f n, (effsX g l D evs)[i]? = some (Effect.ensureLen f n) →
      (2 ≤ i ∧ (effsX g l D evs)[i - 2]? = some Effect.fsyncDir ∧ (effsX g l D evs)[i - 1]? = some (Effect.openFile f)) ∨
      applyOsOps D (directOps ((effsX g l D evs).take (i + 1))) = applyOsOps D (directOps ((effsX g l D evs).take i)) := by
  induction evs with
  | nil => intro l J D _ _ _ _ i f n hi; simp [effsX] at hi
  | cons e es ih =>
    intro l J D h hw hwf htorn i f n hi
    simp only [jourX, effsX] at hwf htorn hi ⊢
    obtain ⟨⟨J1, hc1, hw1⟩, _, _, _⟩ := ev_facts g hB h hw e
      (fun j hj => hwf j (List.mem_append_left _ hj)) (torn_left htorn)
    generalize hA : evEffs g l D e = A at *
    generalize hR : effsX g (evLog g l D e) (evDisk g l D e) es = R at *
    by_cases hlt : i < A.length
    · rw [List.getElem?_append_left hlt] at hi
      -- inside the event
      have hev : (2 ≤ i ∧ A[i - 2]? = some Effect.fsyncDir ∧ A[i - 1]? = some (Effect.openFile f)) ∨
          applyOsOps D (directOps (A.take (i + 1))) = applyOsOps D (directOps (A.take i)) := by
        cases e with
        | call c tick order =>
          left
          have : EnsPat A := by rw [← hA]; exact ensPat_step g l c tick order
          exact this i f n hi
        | reopen policy order =>
          obtain ⟨J', lp, io, r, _, _, _, hc0, _, _, _, e2, _⟩ := reopen_eval g hB h hw policy order
          rw [hA] at e2
          rw [e2] at hi ⊢
          rcases i with _ | _ | i
          · simp at hi
          · right
            have hens := ensureLen_head g hc0
            simp only [List.getElem?_cons_succ, List.getElem?_cons_zero, List.cons_append, List.nil_append,
              Option.some.injEq, Effect.ensureLen.injEq] at hi
            obtain ⟨rfl, rfl⟩ := hi
            simp only [List.take_succ_cons, List.take_zero, List.cons_append, List.nil_append]
            have e1 : directOps [Effect.flush, Effect.ensureLen (lp.files.headD 0) g.fileBytes] =
                directOps [Effect.ensureLen (lp.files.headD 0) g.fileBytes] := rfl
            have e2 : directOps [Effect.flush] = [] := rfl
            rw [e1, e2, hens]; rfl
          · left
            simp only [List.cons_append, List.nil_append, List.getElem?_cons_succ] at hi
            obtain ⟨h1, h2, h3⟩ := ensPat_runGc g lp order i f n hi
            refine ⟨by omega, ?_, ?_⟩
            · have : i + 1 + 1 - 2 = (i - 2) + 1 + 1 := by omega
              rw [this]
              simp only [List.cons_append, List.nil_append, List.getElem?_cons_succ]
              exact h2
            · have : i + 1 + 1 - 1 = (i - 1) + 1 + 1 := by omega
              rw [this]
              simp only [List.cons_append, List.nil_append, List.getElem?_cons_succ]
              exact h3
      rcases hev with ⟨h1, h2, h3⟩ | hv
      · left
        exact ⟨h1, by rw [List.getElem?_append_left (by omega)]; exact h2,
          by rw [List.getElem?_append_left (by omega)]; exact h3⟩
      · right
        rw [List.take_append_of_le_length (by omega), List.take_append_of_le_length (by omega)]
        exact hv
    · have hge : A.length ≤ i := by omega
      rw [List.getElem?_append_right hge] at hi
      have hD' : evDisk g l D e = applyOsOps D (directOps A) := by unfold evDisk; rw [hA]
      rcases ih hc1 hw1 (fun j hj => hwf j (List.mem_append_right _ hj)) (by rw [hR]; exact torn_right htorn)
        (i - A.length) f n (by rw [hR]; exact hi) with ⟨h1, h2, h3⟩ | hv
      · left
        rw [hR] at h2 h3
        refine ⟨by omega, ?_, ?_⟩
        · rw [List.getElem?_append_right (by omega)]
          have : i - 2 - A.length = i - A.length - 2 := by omega
          rw [this]; exact h2
        · rw [List.getElem?_append_right (by omega)]
          have : i - 1 - A.length = i - A.length - 1 := by omega
          rw [this]; exact h3
      · right
        rw [hR, hD'] at hv
        rw [List.take_append, List.take_append, List.take_of_length_le (by omega), List.take_of_length_le hge,
          directOps_append, directOps_append, applyOsOps_append, applyOsOps_append]
        have : i + 1 - A.length = i - A.length + 1 := by omega
        rw [this]; exact hv

/-! ### the buffered operations -/

theorem toOsOpsD_ok (cap : Nat) (es : List Effect) : ∀ (b : BufSt) (st st' : St), Inv cap b st →
    runS st es = some st' →
    ∀ S : DState, prunD (prunD S (toOsOpsP cap b es).2) ((toOsOpsP cap b es).1.flushOps.map OsOpP.lift) =
      prunD (prunD S (b.flushOps.map OsOpP.lift)) (directOpsP es) := by
  induction es with
  | nil => intro b st st' _ _ S; rfl
  | cons e es ih =>
    intro b st st' hinv hr S
    simp only [runS] at hr
    cases h1 : run1S st e with
    | none => rw [h1] at hr; cases hr
    | some st1 =>
      rw [h1] at hr
      simp only [Option.bind_some] at hr
      obtain ⟨hinv1, hok1⟩ := bufStepD_ok cap b st st1 e hinv h1
      have hok2 := ih _ st1 st' hinv1 hr
      rw [toOsOpsP_cons]
      simp only
      rw [prunD_append, hok2, hok1, directOpsP_cons, prunD_append]

theorem sorted_of_dshape {fb : Nat} {l : Log} {D : Image} (h : DShape fb l D) : SortedK D := by
  unfold SortedK; rw [← h.files]; exact h.fw.sorted

/-! ### the reduction -/

/-- **the reduction with a lazy directory** -/
theorem power_reductionD (g : Geom) (hB : g.B ≤ 65542) (cap : Nat) (l : Log) (J : List JE) (D : Image)
    (b : BufSt) (hc : CInvX g l J D) (hwJ : ∀ j ∈ J, C07.WF j.e) (hb : b.pend = []) (evs : List Ev)
    (hwf : ∀ j ∈ jourX g l D evs, C07.WF j.e) (htorn : TornEffs (effsX g l D evs))
    (m : Nat) (pre : List Effect) (f : Nat)
    (htail : effsX g l D (evs.take m) = pre ++ [.flush, .fsyncFile f, .fsyncDir])
    (k : Nat) (hk : (toOsOpsP cap b (effsX g l D (evs.take m))).2.length ≤ k)
    (hns : lateSync D ((toOsOpsP cap b (effsX g l D evs)).2.take k) = false) (u : Nat) :
    ∃ p, powerImageD D ((toOsOpsP cap b (effsX g l D evs)).2.take k) u =
      applyOsOps (diskXs g l D (evs.take m))
        (directOps ((effsX g (logX g l D (evs.take m)) (diskXs g l D (evs.take m)) (evs.drop m)).take p)) := by
  have hfb := fileBytes_pos g
  have hsplit : evs = evs.take m ++ evs.drop m := (List.take_append_drop m evs).symm
  have heffs : effsX g l D evs = effsX g l D (evs.take m) ++
      effsX g (logX g l D (evs.take m)) (diskXs g l D (evs.take m)) (evs.drop m) := by
    conv => lhs; rw [hsplit]
    exact effsX_append g _ _ l D
  have hjour : jourX g l D evs = jourX g l D (evs.take m) ++
      jourX g (logX g l D (evs.take m)) (diskXs g l D (evs.take m)) (evs.drop m) := by
    conv => lhs; rw [hsplit]
    exact jourX_append g _ _ l D
  have hwfm : ∀ j ∈ jourX g l D (evs.take m), C07.WF j.e :=
    fun j hj => hwf j (by rw [hjour]; exact List.mem_append_left _ hj)
  have hwfr : ∀ j ∈ jourX g (logX g l D (evs.take m)) (diskXs g l D (evs.take m)) (evs.drop m), C07.WF j.e :=
    fun j hj => hwf j (by rw [hjour]; exact List.mem_append_right _ hj)
  have htornm : TornEffs (effsX g l D (evs.take m)) := torn_left (by rw [← heffs]; exact htorn)
  have htornr : TornEffs (effsX g (logX g l D (evs.take m)) (diskXs g l D (evs.take m)) (evs.drop m)) :=
    torn_right (by rw [← heffs]; exact htorn)
  obtain ⟨⟨Jm, hcm, hwm⟩, hpdM, hdiscM⟩ := runX_inv g hB (evs.take m) hc hwJ hwfm htornm
  obtain ⟨_, hpdR, hdiscR⟩ := runX_inv g hB (evs.drop m) hcm hwm hwfr htornr
  have hfoeM := fun (w : Bool) X => runX_foe g hB (evs.take m) hc hwJ hwfm htornm w X
  have hfoeR := fun (w : Bool) X => runX_foe g hB (evs.drop m) hcm hwm hwfr htornr w X
  have hlateR := late_ok g hB (evs.drop m) hcm hwm hwfr htornr
  have hDm : diskXs g l D (evs.take m) = applyOsOps D (directOps (effsX g l D (evs.take m))) := diskXs_eq g _ l D
  have hsortm : SortedK (diskXs g l D (evs.take m)) := sorted_of_dshape (dshape_of_cinvx hcm)
  generalize hEm : effsX g l D (evs.take m) = Em at *
  generalize hEr : effsX g (logX g l D (evs.take m)) (diskXs g l D (evs.take m)) (evs.drop m) = Er at *
  have hsh := dshape_of_cinvx hc
  obtain ⟨σm, hpdm, hpdlm⟩ := hpdM (pd0X l) (pdl0X hsh)
  obtain ⟨σe, hpdr, _⟩ := hpdR σm hpdlm
  obtain ⟨hdm, hnm, hclean⟩ : σm.dirty = false ∧ σm.named = true ∧ σm.clean = true := by
    rw [htail] at hpdm; exact pd_triple_end _ _ _ pre f hpdm
  obtain ⟨stm, hrunm, _⟩ := hdiscM none (Or.inl rfl)
  obtain ⟨hrunSm, hstm⟩ := PX.runS_of_pd g.fileBytes Em none stm (pd0X l) σm hrunm hpdm (fun _ => rfl)
  have hstm0 : stm = none := hstm hclean
  subst hstm0
  obtain ⟨str, hrunr, _⟩ := hdiscR none (Or.inl rfl)
  obtain ⟨hrunSr, _⟩ := PX.runS_of_pd g.fileBytes Er none str σm σe hrunr hpdr (fun _ => rfl)
  have hinv0 : Buf.Inv cap b none := ⟨Or.inl hb, by rw [hb]; exact Nat.zero_le _⟩
  obtain ⟨hinvm, _⟩ := toOsOpsP_ok cap Em b none none hinv0 hrunSm
  have hbm : (toOsOpsP cap b Em).1.pend = [] := by
    rcases hinvm.1 with h | h
    · exact h
    · cases h
  -- the state after the first `m` events: nothing pending
  have hDSm : prunD (DState.init D) (toOsOpsP cap b Em).2 = prunD (DState.init D) (directOpsP Em) := by
    have := toOsOpsD_ok cap Em b none none hinv0 hrunSm (DState.init D)
    rw [flushOps_nil _ hbm, flushOps_nil b hb] at this
    exact this
  have hreset : prunD (DState.init D) (directOpsP Em) =
      ⟨prun (PState.init D) (directOpsP Em), [], false⟩ := by
    have hs := prunD_s (directOpsP Em) (DState.init D)
    rw [htail, directOpsP_append, prunD_append] at hs ⊢
    rw [htail, directOpsP_append] at *
    generalize prunD (DState.init D) (directOpsP pre) = d0 at *
    have : prunD d0 (directOpsP [Effect.flush, Effect.fsyncFile f, Effect.fsyncDir]) =
        pstepD (pstepD d0 (.syncFile f)) .syncDir := rfl
    rw [this] at hs ⊢
    have h2 : pstepD (pstepD d0 (.syncFile f)) .syncDir =
        ⟨(pstepD (pstepD d0 (.syncFile f)) .syncDir).s, [], false⟩ := rfl
    rw [h2, hs]
    rfl
  -- the operations
  unfold powerImageD lateSync at *
  rw [heffs, toOsOpsP_append] at hns ⊢
  simp only at hns ⊢
  rw [List.take_append, List.take_of_length_le hk, prunD_append, hDSm, hreset] at hns ⊢
  obtain ⟨n', hn'⟩ := op_boundaryD cap Er (toOsOpsP cap b Em).1 none str
    ⟨prun (PState.init D) (directOpsP Em), [], false⟩ hinvm hrunSr (k - (toOsOpsP cap b Em).2.length)
  rw [hn', pendW_nil _ hbm, List.nil_append] at hns ⊢
  -- sizes of the files along the history
  have hfoem : ∀ i, i ≤ Em.length → FullOrEmpty g.fileBytes
      (applyOsOps (PState.init D).vol (directOps (Em.take i))) := by
    intro i _
    exact hfoeM true _ (CutW.of_take true Em i D)
  obtain ⟨_, σn, _, hpdn, hIm, _⟩ := PX.power_prefix g.fileBytes hfb Em (pd0X l) (PState.init D) (pinv0X hfb hsh) rfl rfl
    σm hpdm hfoem Em.length (Nat.le_refl _)
  rw [List.take_length] at hpdn hIm
  rw [hpdm] at hpdn
  injection hpdn with hpdn
  subst hpdn
  have hvolm : (prun (PState.init D) (directOpsP Em)).vol = applyOsOps D (directOps Em) := prun_vol_direct _ _
  have hfoer : ∀ i, i ≤ Er.length → FullOrEmpty g.fileBytes
      (applyOsOps (prun (PState.init D) (directOpsP Em)).vol (directOps (Er.take i))) := by
    intro i _
    rw [hvolm, ← hDm]
    exact hfoeR true _ (CutW.of_take true Er i _)
  have htk : Er.take n' = Er.take (min n' Er.length) := by
    rw [List.take_eq_take_iff]; simp
  rw [htk] at hns ⊢
  obtain ⟨q, _, himg⟩ := powerD_prefix g.fileBytes hfb Er σm _ hIm hdm hnm σe hpdr hfoer
    (by rw [hvolm, ← hDm]; exact hsortm)
    (by
      intro i f' n hi
      rcases hlateR i f' n hi with ⟨h1, h2, h3⟩ | hv
      · left; exact und_of_pat Er i f' h1 h2 h3 _
      · right; rw [hvolm, ← hDm]; exact hv)
    (min n' Er.length) (Nat.min_le_right _ _) hns u
  exact ⟨q, by rw [himg, hvolm, hDm]⟩

end MRL.PD
