/-
Scan splitting at a file boundary (helpers of `MRL/Props/C03PosixDirAll.lean`).

`open` reads block after block and restarts at cursor 0 of every block; so, without I/O faults, when
the scan of `Lo ++ D` ends in a file of `D` it ends exactly where the scan of `D` alone ends:
`scan_suffix` (blocks), `recoverPre_suffix` (`recoverPre`: same current file and same offset).
`reader_cur`: on a disk described by `L.XInvX` the reader ends in the writer's current file.
-/
import MRL.Proofs.LRead
import MRL.Props.C10

namespace MRL.PDA
open MRL Codec Consts G H L Log

/-- the same block up to the I/O cost -/
def BlkEq (a b : Blk) : Prop := a.file = b.file ∧ a.idx = b.idx ∧ a.data = b.data

theorem BlkEq.refl (a : Blk) : BlkEq a a := ⟨rfl, rfl, rfl⟩

theorem all2_blkEq_refl : ∀ l : List Blk, All2 BlkEq l l
  | [] => All2.nil
  | b :: l => All2.cons (BlkEq.refl b) (all2_blkEq_refl l)

/-- without faults, the events and the end position do not depend on the costs -/
theorem scan_congr (g : Geom) (trail trail' : Nat) : ∀ (rest rest' : List Blk), All2 BlkEq rest rest' →
    ∀ (io io' : Nat) (cur cur' : Blk) (c : Nat) (evs : List RdEv) (e : EndPos) (io1 : Nat), BlkEq cur cur' →
      scanBlocks g none trail io cur c rest = some (evs, e, io1) →
      ∃ io2, scanBlocks g none trail' io' cur' c rest' = some (evs, e, io2) := by
  intro rest rest' hrel
  induction hrel with
  | nil =>
    intro io io' cur cur' c evs e io1 hb h
    obtain ⟨h1, h2, h3⟩ := hb
    rcases hsb : scanBlock g cur.data c with ⟨fe, be⟩
    have hsb' : scanBlock g cur'.data c = (fe, be) := by rw [← h3]; exact hsb
    cases be with
    | zeroHeader c' =>
      rw [Rec.scanBlocks_zero g none trail io cur c [] fe c' hsb] at h
      rw [Rec.scanBlocks_zero g none trail' io' cur' c [] fe c' hsb']
      injection h with h
      simp only [Prod.mk.injEq] at h
      exact ⟨io', by rw [← h.1, ← h.2.1, h1, h2]⟩
    | needNext c' =>
      rw [Rec.scanBlocks_next_nil g none trail io cur c fe c' hsb] at h
      rw [Rec.scanBlocks_next_nil g none trail' io' cur' c fe c' hsb']
      simp only [Rec.ioFails_none, Bool.false_eq_true, if_false, Option.some.injEq, Prod.mk.injEq] at h ⊢
      exact ⟨_, by rw [← h.1, h1], by rw [← h.2.1, h1, h2], rfl⟩
  | @cons b b' rest rest' hbb _ ih =>
    intro io io' cur cur' c evs e io1 hb h
    obtain ⟨h1, h2, h3⟩ := hb
    rcases hsb : scanBlock g cur.data c with ⟨fe, be⟩
    have hsb' : scanBlock g cur'.data c = (fe, be) := by rw [← h3]; exact hsb
    cases be with
    | zeroHeader c' =>
      rw [Rec.scanBlocks_zero g none trail io cur c _ fe c' hsb] at h
      rw [Rec.scanBlocks_zero g none trail' io' cur' c _ fe c' hsb']
      injection h with h
      simp only [Prod.mk.injEq] at h
      exact ⟨io', by rw [← h.1, ← h.2.1, h1, h2]⟩
    | needNext c' =>
      rw [Rec.scanBlocks_next_cons g none trail io cur c b rest fe c' hsb] at h
      rw [Rec.scanBlocks_next_cons g none trail' io' cur' c b' rest' fe c' hsb']
      simp only [Rec.ioFails_none, Bool.false_eq_true, if_false] at h ⊢
      cases hin : scanBlocks g none trail (io + b.cost) b 0 rest with
      | none => rw [hin] at h; cases h
      | some r =>
        obtain ⟨evs2, e2, io2⟩ := r
        rw [hin] at h
        simp only [Option.some.injEq, Prod.mk.injEq] at h
        obtain ⟨io3, h3'⟩ := ih (io + b.cost) (io' + b'.cost) b b' 0 evs2 e2 io2 hbb hin
        rw [h3']
        exact ⟨io3, by simp only [Option.some.injEq, Prod.mk.injEq]; exact ⟨by rw [← h.1, h1], h.2.1, trivial⟩⟩

/-- **scan splitting**: a scan that ends beyond the first blocks ends where the scan of the others ends -/
theorem scan_suffix (g : Geom) (trail : Nat) (b : Blk) (rest2 : List Blk) : ∀ (rest1 : List Blk)
    (io : Nat) (cur : Blk) (c : Nat) (evs : List RdEv) (e : EndPos) (io1 : Nat),
      scanBlocks g none trail io cur c (rest1 ++ b :: rest2) = some (evs, e, io1) →
      e.file ∉ (cur :: rest1).map (·.file) →
      ∃ io2 evs2 io3, scanBlocks g none trail io2 b 0 rest2 = some (evs2, e, io3) := by
  intro rest1
  induction rest1 with
  | nil =>
    intro io cur c evs e io1 h hn
    rcases hsb : scanBlock g cur.data c with ⟨fe, be⟩
    cases be with
    | zeroHeader c' =>
      rw [List.nil_append, Rec.scanBlocks_zero g none trail io cur c _ fe c' hsb] at h
      injection h with h
      simp only [Prod.mk.injEq] at h
      exfalso; apply hn; rw [← h.2.1]; simp
    | needNext c' =>
      rw [List.nil_append, Rec.scanBlocks_next_cons g none trail io cur c b rest2 fe c' hsb] at h
      simp only [Rec.ioFails_none, Bool.false_eq_true, if_false] at h
      cases hin : scanBlocks g none trail (io + b.cost) b 0 rest2 with
      | none => rw [hin] at h; cases h
      | some r =>
        obtain ⟨evs2, e2, io2⟩ := r
        rw [hin] at h
        simp only [Option.some.injEq, Prod.mk.injEq] at h
        exact ⟨_, evs2, io2, by rw [hin, h.2.1]⟩
  | cons b1 r ih =>
    intro io cur c evs e io1 h hn
    rcases hsb : scanBlock g cur.data c with ⟨fe, be⟩
    cases be with
    | zeroHeader c' =>
      rw [Rec.scanBlocks_zero g none trail io cur c _ fe c' hsb] at h
      injection h with h
      simp only [Prod.mk.injEq] at h
      exfalso; apply hn; rw [← h.2.1]; simp
    | needNext c' =>
      rw [List.cons_append, Rec.scanBlocks_next_cons g none trail io cur c b1 (r ++ b :: rest2) fe c' hsb] at h
      simp only [Rec.ioFails_none, Bool.false_eq_true, if_false] at h
      cases hin : scanBlocks g none trail (io + b1.cost) b1 0 (r ++ b :: rest2) with
      | none => rw [hin] at h; cases h
      | some r' =>
        obtain ⟨evs2, e2, io2⟩ := r'
        rw [hin] at h
        simp only [Option.some.injEq, Prod.mk.injEq] at h
        apply ih (io + b1.cost) b1 0 evs2 e io2 (by rw [hin, h.2.1])
        intro hm
        apply hn
        simp only [List.map_cons, List.mem_cons] at hm ⊢
        exact Or.inr hm

/-! ### the blocks of `Lo ++ D` -/

theorem fileBlocks_blkEq (g : Geom) (f : Nat) (p p' : Nat) : ∀ (n : Nat) (content : Bytes) (i : Nat),
    All2 BlkEq (fileBlocks g f content p i n) (fileBlocks g f content p' i n) := by
  intro n
  induction n with
  | zero => intro content i; exact All2.nil
  | succ n ih =>
    intro content i
    simp only [fileBlocks]
    exact All2.cons ⟨rfl, rfl, rfl⟩ (ih _ _)

theorem all2_append {α β : Type} {R : α → β → Prop} {a1 : List α} {b1 : List β} {a2 : List α} {b2 : List β}
    (h1 : All2 R a1 b1) (h2 : All2 R a2 b2) : All2 R (a1 ++ a2) (b1 ++ b2) := by
  induction h1 with
  | nil => exact h2
  | cons hab _ ih => exact All2.cons hab ih

theorem blocksOf_blkEq (g : Geom) : ∀ (D : Image) (p p' : Nat),
    All2 BlkEq (blocksOf g D p).1 (blocksOf g D p').1 := by
  intro D
  induction D with
  | nil => intro p p'; exact All2.nil
  | cons fc D ih =>
    intro p p'
    obtain ⟨f, content⟩ := fc
    simp only [blocksOf]
    by_cases hn : content.length / g.B = 0
    · simp only [hn, if_true]; exact ih _ _
    · simp only [hn, if_false]
      exact all2_append (fileBlocks_blkEq g f _ _ _ _ _) (all2_blkEq_refl _)

/-- the blocks of `Lo ++ D` are blocks of `Lo` followed by the blocks of `D` -/
theorem blocksOf_append (g : Geom) (D : Image) : ∀ (Lo : Image) (p : Nat),
    ∃ pre p', (blocksOf g (Lo ++ D) p).1 = pre ++ (blocksOf g D p').1 ∧ (blocksOf g (Lo ++ D) p).2 = (blocksOf g D p').2 ∧
      ∀ b ∈ pre, b.file ∈ Lo.map (·.1) := by
  intro Lo
  induction Lo with
  | nil => intro p; exact ⟨[], p, rfl, rfl, fun _ h => by cases h⟩
  | cons fc Lo ih =>
    intro p
    obtain ⟨f, content⟩ := fc
    simp only [List.cons_append, blocksOf]
    by_cases hn : content.length / g.B = 0
    · simp only [hn, if_true]
      obtain ⟨pre, p', h1, h2, h3⟩ := ih (p + 2)
      exact ⟨pre, p', h1, h2, fun b hb => List.mem_cons_of_mem _ (h3 b hb)⟩
    · simp only [hn, if_false]
      obtain ⟨pre, p', h1, h2, h3⟩ := ih 1
      refine ⟨fileBlocks g f content (p + 2) 0 (content.length / g.B) ++ pre, p', ?_, h2, ?_⟩
      · rw [h1, List.append_assoc]
      · intro b hb
        rcases List.mem_append.mp hb with hb | hb
        · rw [C10.fileBlocks_file g f _ _ _ _ b hb]; exact List.mem_cons_self
        · exact List.mem_cons_of_mem _ (h3 b hb)

/-- the fields of the log `recoverPre` returns -/
theorem recoverPre_end {g : Geom} {img : Image} {policy : Policy} {lp : Log} {e0 : List Effect} {io : Nat}
    (h : recoverPre g img policy none = .ok (lp, e0, io)) :
    ∃ b0 rest trail evs e io', blocksOf g (prepareImage g img).1 1 = (b0 :: rest, trail) ∧
      scanBlocks g none trail b0.cost b0 0 rest = some (evs, e, io') ∧
      lp.cur = e.file ∧ lp.off = e.idx * g.B + e.cursor := by
  obtain ⟨b0, rest, trail, rdEvs, e, hb, hs, hr⟩ := Rec.recoverPre_ok_replay h
  refine ⟨b0, rest, trail, rdEvs, e, _, hb, hs, ?_⟩
  rw [Rec.recoverPre_cons g img policy none b0 rest trail hb, hs] at h
  split at h
  · cases h
  · simp only [Rec.finishPre, hr, Except.ok.injEq, Prod.mk.injEq] at h
    obtain ⟨hl, _, _⟩ := h
    exact ⟨by rw [← hl], by rw [← hl]⟩

/-- **`recoverPre` on `Lo ++ D` and on `D`**: if the first ends in a file of `D`, both end at the
    same place -/
theorem recoverPre_suffix (g : Geom) (Lo D : Image) (policy policy' : Policy) {lpv lp : Log}
    {e0v e0 : List Effect} {iov io : Nat}
    (hpv : (prepareImage g (Lo ++ D)).1 = Lo ++ D) (hpr : (prepareImage g D).1 = D)
    (hv : recoverPre g (Lo ++ D) policy none = .ok (lpv, e0v, iov))
    (hr : recoverPre g D policy' none = .ok (lp, e0, io))
    (hcur : lpv.cur ∉ Lo.map (·.1)) :
    lpv.cur = lp.cur ∧ lpv.off = lp.off := by
  obtain ⟨b0v, restv, trailv, evsv, ev, iov', hbv, hsv, hcv, hov⟩ := recoverPre_end hv
  obtain ⟨b0, rest, trail, evs, e, io', hb, hs, hc, ho⟩ := recoverPre_end hr
  rw [hpv] at hbv
  rw [hpr] at hb
  obtain ⟨pre, p', h1, _, h3⟩ := blocksOf_append g D Lo 1
  rw [hbv] at h1
  simp only at h1
  have hrel := blocksOf_blkEq g D p' 1
  rw [hb] at hrel
  simp only at hrel
  -- the scan of the blocks of `D` inside the scan of `Lo ++ D`
  have key : ∃ io2 evs2 io3, scanBlocks g none trail io2 b0 0 rest = some (evs2, ev, io3) := by
    cases pre with
    | nil =>
      rw [List.nil_append] at h1
      rw [← h1] at hrel
      cases hrel with
      | cons hb0 hrest =>
        obtain ⟨io2, h2⟩ := scan_congr g trailv trail _ _ hrest b0v.cost b0.cost b0v b0 0 evsv ev iov' hb0 hsv
        exact ⟨_, _, _, h2⟩
    | cons q pre' =>
      rcases hD : (blocksOf g D p').1 with _ | ⟨b0', rest'⟩
      · rw [hD] at hrel; cases hrel
      · rw [hD] at hrel h1
        simp only [List.cons_append, List.cons.injEq] at h1
        obtain ⟨hq, hrv⟩ := h1
        subst hq
        rw [hrv] at hsv
        obtain ⟨io2, evs2, io3, h2⟩ := scan_suffix g trailv b0' rest' pre' _ _ _ _ _ _ hsv (by
          intro hm
          apply hcur
          rw [hcv]
          obtain ⟨bb, hbb, hfile⟩ := List.mem_map.mp hm
          rw [← hfile]
          exact h3 bb hbb)
        cases hrel with
        | cons hb0 hrest =>
          obtain ⟨io4, h4⟩ := scan_congr g trailv trail _ _ hrest io2 b0.cost b0' b0 0 evs2 ev io3 hb0 h2
          exact ⟨_, _, _, h4⟩
  obtain ⟨io2, evs2, io3, h2⟩ := key
  obtain ⟨io5, h5⟩ := scan_congr g trail trail _ _ (all2_blkEq_refl rest) io2 b0.cost b0 b0 0 evs2 ev io3
    (BlkEq.refl _) h2
  rw [hs] at h5
  simp only [Option.some.injEq, Prod.mk.injEq] at h5
  rw [hcv, hov, hc, ho, h5.2.1]
  exact ⟨rfl, rfl⟩

/-! ### the reader ends in the writer's file -/

/-- on a disk described by `XInvX`, `recoverPre` ends in the writer's current file -/
theorem reader_cur (g : Geom) (hB : g.B ≤ 65542) {l : Log} {D : Image} {F : Nat} {J : List JE} {init : List Bytes}
    {t : Bytes} {x : Bool} {res : Bytes} {ais lead : List AItm} {gs : List Grp}
    (h : XInvX g l D F J init t x res ais lead gs) {policy : Policy} {lp : Log} {e0 : List Effect} {io : Nat}
    (hrec : recoverPre g D policy none = .ok (lp, e0, io)) : lp.cur = l.cur := by
  have hfb := fileBytes_pos g
  obtain ⟨cs, x', hn, _, hfull, ⟨z, hflat⟩, hX, hlast⟩ := rtapeR_of_tapeR h.tape
  have hne : cs ≠ [] := by intro e; rw [e] at hn; simp at hn
  have hE : endPos g 0 (frs ais) ≤ (init.flatten ++ t).length := by
    rcases h.lay.len with h1 | h1
    · omega
    · have := le_hdrPos g (endPos g 0 (frs ais)); omega
  have hflat' : cs.flatten = flatJ g 0 ais ++ zeros ((init.flatten ++ t).length - endPos g 0 (frs ais)) ++ res ++
      zeros z := by
    rw [hflat]
    conv => lhs; rw [h.lay.bytes]
  have hlast' : (cs.length - 1) * g.fileBytes ≤ hdrPos g (endPos g 0 (frs ais)) := by
    rw [hn, Nat.add_sub_cancel]
    refine Nat.le_trans hlast ?_
    rcases h.lay.len with h1 | h1
    · rw [h1]; exact le_hdrPos g _
    · rw [h1]; exact Nat.le_refl _
  have hres' : ResOK g (cs.length * g.fileBytes)
      (endPos g 0 (frs ais) + ((init.flatten ++ t).length - endPos g 0 (frs ais))) (endPos g 0 (frs ais)) res := by
    rw [hn]
    have : endPos g 0 (frs ais) + ((init.flatten ++ t).length - endPos g 0 (frs ais)) = (init.flatten ++ t).length := by
      omega
    rw [this]; exact h.resok
  obtain ⟨evT, e, ke, ce, zz, hscan, _, he, hke, hce, _, hW1, hWres, _, _, _, _⟩ :=
    scan_diskX g hB F cs hne hfull ais res _ z hflat' h.lay.fits h.lay.tagged (by rw [hn]; exact h.lay.jok) hlast' hres'
  -- the scan of the blocks of `D`
  obtain ⟨c0, cs', hcs⟩ : ∃ c0 cs', cs = c0 :: cs' := by
    cases cs with
    | nil => exact absurd rfl hne
    | cons c0 cs' => exact ⟨c0, cs', rfl⟩
  have hc0 : c0.length = g.fileBytes := hfull c0 (by rw [hcs]; exact List.mem_cons_self)
  have hBle := B_le_fileBytes g
  have hXD : D = imgOf F cs ++ xtra x' (F + cs.length) := by rw [hX, hn]
  have hprep : prepareImage g D = (D, [.ensureLen F g.fileBytes]) := by
    rw [hXD, hcs]
    simp only [imgOf, List.cons_append, prepareImage]
    rw [if_neg (by omega)]
  have hblocks : (blocksOf g D 1).1 = blksFrom g F cs.flatten 0 (cs.length * g.K) := by
    have h0 := blocksOf_imgOf g F cs 0 [] hfull (by simp)
    simp only [Nat.add_zero, List.nil_append, Nat.zero_mul] at h0
    rw [hXD]
    cases x'
    · simpa [xtra] using h0
    · simp only [xtra, if_true]
      rw [blocksOf_snoc_empty]; exact h0
  have hNpos : 0 < cs.length * g.K := by
    rw [hcs]; exact Nat.mul_pos (Nat.succ_pos _) g.hK
  obtain ⟨m, hm⟩ : ∃ m, cs.length * g.K = m + 1 := ⟨cs.length * g.K - 1, by omega⟩
  rcases hbo : blocksOf g D 1 with ⟨bs, trail⟩
  rw [hbo] at hblocks
  simp only at hblocks
  rw [hm, blksFrom_succ] at hblocks
  have hbo' : blocksOf g (prepareImage g D).1 1 =
      (blkAt g F cs.flatten 0 :: blksFrom g F cs.flatten 1 m, trail) := by
    rw [hprep, hbo, hblocks]
  unfold scanAt at hscan
  have hm1 : cs.length * g.K - (0 + 1) = m := by omega
  rw [hm1] at hscan
  obtain ⟨io', hio⟩ := scanBlocks_eq_scanB g trail (blkAt g F cs.flatten 0).cost (blkAt g F cs.flatten 0) 0
    (blksFrom g F cs.flatten 1 m)
  rw [hscan] at hio
  obtain ⟨b0, rest, trail2, evs2, e2, io2, hb2, hs2, hc2, _⟩ := recoverPre_end hrec
  rw [hbo'] at hb2
  simp only [Prod.mk.injEq, List.cons.injEq] at hb2
  obtain ⟨⟨hb0, hrest⟩, htr⟩ := hb2
  subst hb0; subst hrest; subst htr
  rw [hio] at hs2
  simp only [Option.some.injEq, Prod.mk.injEq] at hs2
  rw [hc2, ← hs2.2.1, he]
  simp only
  -- the end position lies in the last chunk
  obtain ⟨a, ha⟩ : ∃ a, cs.length = a + 1 := ⟨cs.length - 1, by have := List.length_pos_iff.mpr hne; omega⟩
  rw [ha, Nat.add_sub_cancel] at hW1
  have hW2 : ke * g.B + ce ≤ (a + 1) * g.fileBytes := by rw [ha] at hWres; omega
  have hke' : ke < (a + 1) * g.K := by rw [← ha]; exact hke
  have hce' : ce < g.B ∨ (ce = g.B ∧ ke + 1 = (a + 1) * g.K) := by rw [← ha]; exact hce
  obtain ⟨hcur, _⟩ := end_decomp g a (ke * g.B + ce) ke ce hW1 hW2 hke' hce' rfl
  rw [hcur, h.tape.cur]
  omega

end MRL.PDA
