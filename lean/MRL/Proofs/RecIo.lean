/-
I/O faults during recovery (C11): `scanBlocks`, `recoverPre` and `recover` under a fault plan
`failAt = some n` against the fault-free run, and a bound on the number of I/O calls.
-/
import MRL.Model.Recovery

namespace MRL.Rec
open MRL Consts

theorem ioFails_none (lo hi : Nat) : ioFails none lo hi = false := rfl

theorem ioFails_some (n lo hi : Nat) : ioFails (some n) lo hi = (decide (lo ≤ n) && decide (n < hi)) := rfl

theorem ioFails_false_of {n lo hi : Nat} (h : n < lo ∨ hi ≤ n) : ioFails (some n) lo hi = false := by
  rw [ioFails_some]; rcases h with h | h <;> simp <;> omega

theorem ioFails_true_of {n lo hi : Nat} (h1 : lo ≤ n) (h2 : n < hi) : ioFails (some n) lo hi = true := by
  rw [ioFails_some]; simp; omega

/-! ### `scanBlocks` -/

theorem scanBlocks_zero (g : Geom) (fa : Option Nat) (trail io : Nat) (cur : Blk) (c : Nat) (rest : List Blk)
    (fe : List FrameEv) (c' : Nat) (h : scanBlock g cur.data c = (fe, .zeroHeader c')) :
    scanBlocks g fa trail io cur c rest = some (tagEvs cur.file fe, ⟨cur.file, cur.idx, c'⟩, io) := by
  cases rest <;> (unfold scanBlocks; rw [h])

theorem scanBlocks_next_nil (g : Geom) (fa : Option Nat) (trail io : Nat) (cur : Blk) (c : Nat)
    (fe : List FrameEv) (c' : Nat) (h : scanBlock g cur.data c = (fe, .needNext c')) :
    scanBlocks g fa trail io cur c [] =
      if ioFails fa io (io + trail) then none
      else some (tagEvs cur.file fe, ⟨cur.file, cur.idx, c'⟩, io + trail) := by
  unfold scanBlocks; rw [h]

theorem scanBlocks_next_cons (g : Geom) (fa : Option Nat) (trail io : Nat) (cur : Blk) (c : Nat)
    (b : Blk) (rest : List Blk)
    (fe : List FrameEv) (c' : Nat) (h : scanBlock g cur.data c = (fe, .needNext c')) :
    scanBlocks g fa trail io cur c (b :: rest) =
      if ioFails fa io (io + b.cost) then none
      else
        match scanBlocks g fa trail (io + b.cost) b 0 rest with
        | none => none
        | some (evs2, e, io') => some (tagEvs cur.file fe ++ evs2, e, io') := by
  conv => lhs; unfold scanBlocks
  rw [h]
  rfl

/-- the fault-free scan always succeeds -/
theorem scanBlocks_none_some (g : Geom) (trail : Nat) (rest : List Blk) :
    ∀ (io : Nat) (cur : Blk) (c : Nat), ∃ r, scanBlocks g none trail io cur c rest = some r := by
  induction rest with
  | nil =>
    intro io cur c
    rcases hsb : scanBlock g cur.data c with ⟨fe, be⟩
    cases be with
    | zeroHeader c' => exact ⟨_, scanBlocks_zero g none trail io cur c [] fe c' hsb⟩
    | needNext c' => rw [scanBlocks_next_nil g none trail io cur c fe c' hsb]; simp [ioFails_none]
  | cons b rest ih =>
    intro io cur c
    rcases hsb : scanBlock g cur.data c with ⟨fe, be⟩
    cases be with
    | zeroHeader c' => exact ⟨_, scanBlocks_zero g none trail io cur c _ fe c' hsb⟩
    | needNext c' =>
      obtain ⟨r, h⟩ := ih (io + b.cost) b 0
      rw [scanBlocks_next_cons g none trail io cur c b rest fe c' hsb]
      simp [ioFails_none, h]

/-- The scan under a fault plan, against the fault-free scan `some (evs, e, io')`:
    the call counter only grows; a fault at a call index in `[io, io')` aborts the scan; a
    fault elsewhere (already past, or never reached) changes nothing. -/
theorem scanBlocks_fault (g : Geom) (trail n : Nat) (rest : List Blk) :
    ∀ (io : Nat) (cur : Blk) (c : Nat) (evs : List RdEv) (e : EndPos) (io' : Nat),
      scanBlocks g none trail io cur c rest = some (evs, e, io') →
      io ≤ io' ∧
      (io ≤ n → n < io' → scanBlocks g (some n) trail io cur c rest = none) ∧
      (n < io ∨ io' ≤ n → scanBlocks g (some n) trail io cur c rest = some (evs, e, io')) := by
  induction rest with
  | nil =>
    intro io cur c evs e io' h
    rcases hsb : scanBlock g cur.data c with ⟨fe, be⟩
    cases be with
    | zeroHeader c' =>
      rw [scanBlocks_zero g _ trail io cur c [] fe c' hsb] at h ⊢
      simp only [Option.some.injEq, Prod.mk.injEq] at h
      obtain ⟨h1, h2, h3⟩ := h
      subst h1 h2 h3
      exact ⟨Nat.le_refl _, fun h1 h2 => by omega, fun _ => rfl⟩
    | needNext c' =>
      rw [scanBlocks_next_nil g _ trail io cur c fe c' hsb] at h ⊢
      simp only [ioFails_none, Bool.false_eq_true, if_false, Option.some.injEq, Prod.mk.injEq] at h
      obtain ⟨h1, h2, h3⟩ := h
      subst h1 h2 h3
      refine ⟨by omega, fun k1 k2 => ?_, fun k => ?_⟩
      · simp [ioFails_true_of k1 k2]
      · simp [ioFails_false_of (show n < io ∨ io + trail ≤ n from k)]
  | cons b rest ih =>
    intro io cur c evs e io' h
    rcases hsb : scanBlock g cur.data c with ⟨fe, be⟩
    cases be with
    | zeroHeader c' =>
      rw [scanBlocks_zero g _ trail io cur c _ fe c' hsb] at h ⊢
      simp only [Option.some.injEq, Prod.mk.injEq] at h
      obtain ⟨h1, h2, h3⟩ := h
      subst h1 h2 h3
      exact ⟨Nat.le_refl _, fun h1 h2 => by omega, fun _ => rfl⟩
    | needNext c' =>
      rw [scanBlocks_next_cons g _ trail io cur c b rest fe c' hsb] at h ⊢
      simp only [ioFails_none, Bool.false_eq_true, if_false] at h
      cases hr : scanBlocks g none trail (io + b.cost) b 0 rest with
      | none => rw [hr] at h; simp at h
      | some r =>
        obtain ⟨evs2, e2, io2⟩ := r
        rw [hr] at h
        simp only [Option.some.injEq, Prod.mk.injEq] at h
        obtain ⟨h1, h2, h3⟩ := h
        subst h1 h2 h3
        obtain ⟨m1, m2, m3⟩ := ih (io + b.cost) b 0 evs2 e2 io2 hr
        refine ⟨by omega, fun k1 k2 => ?_, fun k => ?_⟩
        · by_cases hk : n < io + b.cost
          · simp [ioFails_true_of k1 hk]
          · simp [ioFails_false_of (show n < io ∨ io + b.cost ≤ n by omega), m2 (by omega) k2]
        · have hf : ioFails (some n) io (io + b.cost) = false := by
            apply ioFails_false_of; omega
          simp [hf, m3 (by omega)]

/-- the fault-free scan makes at most one more call group per remaining block, plus the trailing
    failing `next_block` -/
theorem scanBlocks_io_le (g : Geom) (trail : Nat) (rest : List Blk) :
    ∀ (io : Nat) (cur : Blk) (c : Nat) (evs : List RdEv) (e : EndPos) (io' : Nat),
      scanBlocks g none trail io cur c rest = some (evs, e, io') →
      io' ≤ io + (rest.map (·.cost)).sum + trail := by
  induction rest with
  | nil =>
    intro io cur c evs e io' h
    rcases hsb : scanBlock g cur.data c with ⟨fe, be⟩
    cases be with
    | zeroHeader c' =>
      rw [scanBlocks_zero g _ trail io cur c [] fe c' hsb] at h
      simp only [Option.some.injEq, Prod.mk.injEq] at h
      simp; omega
    | needNext c' =>
      rw [scanBlocks_next_nil g _ trail io cur c fe c' hsb] at h
      simp only [ioFails_none, Bool.false_eq_true, if_false, Option.some.injEq, Prod.mk.injEq] at h
      simp; omega
  | cons b rest ih =>
    intro io cur c evs e io' h
    rcases hsb : scanBlock g cur.data c with ⟨fe, be⟩
    cases be with
    | zeroHeader c' =>
      rw [scanBlocks_zero g _ trail io cur c _ fe c' hsb] at h
      simp only [Option.some.injEq, Prod.mk.injEq] at h
      simp; omega
    | needNext c' =>
      rw [scanBlocks_next_cons g _ trail io cur c b rest fe c' hsb] at h
      simp only [ioFails_none, Bool.false_eq_true, if_false] at h
      cases hr : scanBlocks g none trail (io + b.cost) b 0 rest with
      | none => rw [hr] at h; simp at h
      | some r =>
        obtain ⟨evs2, e2, io2⟩ := r
        rw [hr] at h
        simp only [Option.some.injEq, Prod.mk.injEq] at h
        have := ih _ _ _ _ _ _ hr
        simp only [List.map_cons, List.sum_cons]
        omega

/-! ### counting the calls of the block sequence -/

/-- number of full blocks of an image -/
def fullBlocks (g : Geom) (img : Image) : Nat := (img.map fun fc => fc.2.length / g.B).sum

theorem fileBlocks_cost_pos (g : Geom) (f : Nat) (fc : Nat) (n : Nat) :
    ∀ (content : Bytes) (i : Nat), 0 < i → ((fileBlocks g f content fc i n).map (·.cost)).sum = n := by
  induction n with
  | zero => intro content i _; rfl
  | succ n ih =>
    intro content i hi
    have : i ≠ 0 := by omega
    simp only [fileBlocks, List.map_cons, List.sum_cons, this, if_false, ih _ (i + 1) (by omega)]
    omega

theorem fileBlocks_cost_zero (g : Geom) (f : Nat) (fc : Nat) (n : Nat) (content : Bytes) :
    ((fileBlocks g f content fc 0 (n + 1)).map (·.cost)).sum = fc + n := by
  simp only [fileBlocks, List.map_cons, List.sum_cons, if_true, fileBlocks_cost_pos g f fc n _ 1 (by omega)]

/-- all calls of `next_block` over an image: 2 per file (open, read), 1 per full block,
    plus the calls pending at the start -/
theorem blocksOf_cost (g : Geom) (img : Image) :
    ∀ pending, (((blocksOf g img pending).1.map (·.cost)).sum + (blocksOf g img pending).2
      = pending + 2 * img.length + fullBlocks g img) := by
  induction img with
  | nil => intro pending; simp [blocksOf, fullBlocks]
  | cons fc img ih =>
    intro pending
    obtain ⟨f, content⟩ := fc
    simp only [blocksOf]
    by_cases hn : content.length / g.B = 0
    · simp only [hn, if_true, ih, fullBlocks, List.map_cons, List.sum_cons, List.length_cons]
      omega
    · obtain ⟨m, hm⟩ : ∃ m, content.length / g.B = m + 1 := Nat.exists_eq_succ_of_ne_zero hn
      have := ih 1
      have hm1 : ¬ (m + 1 = 0) := by omega
      simp only [hm1, if_false, hm, List.map_append, List.sum_append, fileBlocks_cost_zero,
        fullBlocks, List.map_cons, List.sum_cons, List.length_cons] at this ⊢
      omega

/-! ### `recoverPre` and `recover` under a fault plan -/

/-- what `recoverPre` does with the result of the scan -/
def finishPre (g : Geom) (policy : Policy) (img1 : Image) (e0 : List Effect) (file0 : Nat) :
    Option (List RdEv × EndPos × Nat) → Except OpenErr (Log × List Effect × Nat)
  | none => .error .io
  | some (evs, endPos, io) =>
    match replay [] (assemble { within := false, buf := [], attr := file0 } evs) with
    | none => .error .corruption
    | some qs =>
      .ok ({ files := img1.map (·.1), cur := endPos.file,
             off := endPos.idx * g.B + endPos.cursor, queues := qs, policy := policy }, e0, io)

theorem recoverPre_nil (g : Geom) (img : Image) (policy : Policy) (fa : Option Nat) (trail : Nat)
    (hb : blocksOf g (prepareImage g img).1 1 = ([], trail)) :
    recoverPre g img policy fa = .error .io := by
  unfold recoverPre
  simp only [hb]

theorem recoverPre_cons (g : Geom) (img : Image) (policy : Policy) (fa : Option Nat)
    (b0 : Blk) (rest : List Blk) (trail : Nat)
    (hb : blocksOf g (prepareImage g img).1 1 = (b0 :: rest, trail)) :
    recoverPre g img policy fa =
      if ioFails fa 0 b0.cost then .error .io
      else finishPre g policy (prepareImage g img).1 (prepareImage g img).2 b0.file
        (scanBlocks g fa trail b0.cost b0 0 rest) := by
  unfold recoverPre
  simp only [hb]
  split
  · rfl
  · cases scanBlocks g fa trail b0.cost b0 0 rest with
    | none => rfl
    | some r => obtain ⟨evs, e, io⟩ := r; rfl

theorem finishPre_ok (g : Geom) (policy : Policy) (img1 : Image) (e0 : List Effect) (file0 : Nat)
    (evs : List RdEv) (e : EndPos) (io : Nat) (l : Log) (e0' : List Effect) (io' : Nat)
    (h : finishPre g policy img1 e0 file0 (some (evs, e, io)) = .ok (l, e0', io')) :
    e0' = e0 ∧ io' = io := by
  simp only [finishPre] at h
  cases hr : replay [] (assemble { within := false, buf := [], attr := file0 } evs) with
  | none => rw [hr] at h; cases h
  | some qs =>
    rw [hr] at h
    simp only [Except.ok.injEq, Prod.mk.injEq] at h
    exact ⟨h.2.1.symm, h.2.2.symm⟩

theorem finishPre_err (g : Geom) (policy : Policy) (img1 : Image) (e0 : List Effect) (file0 : Nat)
    (r : List RdEv × EndPos × Nat) (err : OpenErr)
    (h : finishPre g policy img1 e0 file0 (some r) = .error err) : err = .corruption := by
  obtain ⟨evs, e, io⟩ := r
  simp only [finishPre] at h
  cases hr : replay [] (assemble { within := false, buf := [], attr := file0 } evs) with
  | none => rw [hr] at h; cases h; rfl
  | some qs => rw [hr] at h; cases h

/-- `recoverPre` with a fault at call `n`, against a successful fault-free run -/
theorem recoverPre_fault_ok (g : Geom) (img : Image) (policy : Policy) (n : Nat)
    (l : Log) (e0 : List Effect) (io : Nat) (h : recoverPre g img policy none = .ok (l, e0, io)) :
    (n < io → recoverPre g img policy (some n) = .error .io) ∧
    (io ≤ n → recoverPre g img policy (some n) = .ok (l, e0, io)) := by
  rcases hb : blocksOf g (prepareImage g img).1 1 with ⟨bs, trail⟩
  cases bs with
  | nil => rw [recoverPre_nil g img policy none trail hb] at h; cases h
  | cons b0 rest =>
    rw [recoverPre_cons g img policy _ b0 rest trail hb] at h ⊢
    simp only [ioFails_none, Bool.false_eq_true, if_false] at h
    obtain ⟨⟨evs, e, io1⟩, hs⟩ := scanBlocks_none_some g trail rest b0.cost b0 0
    obtain ⟨m1, m2, m3⟩ := scanBlocks_fault g trail n rest b0.cost b0 0 evs e io1 hs
    rw [hs] at h
    obtain ⟨_, hio⟩ := finishPre_ok _ _ _ _ _ _ _ _ _ _ _ h
    subst hio
    refine ⟨fun hn => ?_, fun hn => ?_⟩
    · by_cases h0 : n < b0.cost
      · rw [ioFails_true_of (Nat.zero_le _) h0]; rfl
      · rw [ioFails_false_of (Or.inr (by omega)), m2 (by omega) hn]; rfl
    · rw [ioFails_false_of (Or.inr (by omega)), m3 (Or.inr hn)]
      simpa using h

/-- `recoverPre` with a fault at call `n`, against a failing fault-free run -/
theorem recoverPre_fault_err (g : Geom) (img : Image) (policy : Policy) (n : Nat) (err : OpenErr)
    (h : recoverPre g img policy none = .error err) :
    recoverPre g img policy (some n) = .error .io ∨ recoverPre g img policy (some n) = .error err := by
  rcases hb : blocksOf g (prepareImage g img).1 1 with ⟨bs, trail⟩
  cases bs with
  | nil => left; exact recoverPre_nil g img policy _ trail hb
  | cons b0 rest =>
    rw [recoverPre_cons g img policy _ b0 rest trail hb] at h ⊢
    simp only [ioFails_none, Bool.false_eq_true, if_false] at h
    obtain ⟨⟨evs, e, io1⟩, hs⟩ := scanBlocks_none_some g trail rest b0.cost b0 0
    obtain ⟨m1, m2, m3⟩ := scanBlocks_fault g trail n rest b0.cost b0 0 evs e io1 hs
    rw [hs] at h
    by_cases h0 : n < b0.cost
    · left; rw [ioFails_true_of (Nat.zero_le _) h0]; rfl
    · rw [ioFails_false_of (Or.inr (by omega))]
      by_cases h1 : n < io1
      · left; rw [m2 (by omega) h1]; rfl
      · right; rw [m3 (Or.inr (by omega))]; simpa using h

/-- number of `open_file` calls among effects -/
def countOpen (es : List Effect) : Nat :=
  (es.filter fun e => match e with | .openFile _ => true | _ => false).length

theorem recover_eq (g : Geom) (img : Image) (policy : Policy) (order : List Bytes) (failAt : Option Nat) :
    recover g img policy order failAt =
      match recoverPre g img policy failAt with
      | .error e => .error e
      | .ok (l, e0, io) =>
        if ioFails failAt io (io + countOpen (l.runGc g order).2.1) then .error .io
        else .ok { log := (l.runGc g order).1, effects := e0 ++ (l.runGc g order).2.1,
                   ioCalls := io + countOpen (l.runGc g order).2.1 } := by
  unfold recover
  cases recoverPre g img policy failAt with
  | error e => rfl
  | ok x => obtain ⟨l, e0, io⟩ := x; rfl

/-- the fault-free `recover` in terms of the fault-free `recoverPre` -/
theorem recover_none (g : Geom) (img : Image) (policy : Policy) (order : List Bytes) :
    recover g img policy order none =
      match recoverPre g img policy none with
      | .error e => .error e
      | .ok (l, e0, io) =>
        .ok { log := (l.runGc g order).1, effects := e0 ++ (l.runGc g order).2.1,
              ioCalls := io + countOpen (l.runGc g order).2.1 } := by
  rw [recover_eq]
  cases recoverPre g img policy none with
  | error e => rfl
  | ok x => obtain ⟨l, e0, io⟩ := x; simp [ioFails_none]

/-- `recover` with a fault at call `n`, against a successful fault-free run -/
theorem recover_fault_ok (g : Geom) (img : Image) (policy : Policy) (order : List Bytes) (n : Nat)
    (r : Recovered) (h : recover g img policy order none = .ok r) :
    (n < r.ioCalls → recover g img policy order (some n) = .error .io) ∧
    (r.ioCalls ≤ n → recover g img policy order (some n) = .ok r) := by
  rw [recover_none] at h
  rw [recover_eq g img policy order (some n)]
  cases h0 : recoverPre g img policy none with
  | error e => rw [h0] at h; cases h
  | ok x =>
    obtain ⟨l, e0, io⟩ := x
    rw [h0] at h
    simp only [Except.ok.injEq] at h
    subst h
    obtain ⟨p1, p2⟩ := recoverPre_fault_ok g img policy n l e0 io h0
    simp only
    refine ⟨fun hn => ?_, fun hn => ?_⟩
    · by_cases h1 : n < io
      · rw [p1 h1]
      · rw [p2 (by omega)]
        simp only
        rw [ioFails_true_of (by omega) hn]; rfl
    · rw [p2 (by omega)]
      simp only
      rw [ioFails_false_of (Or.inr hn)]; rfl

/-- `recover` with a fault at call `n`, against a failing fault-free run -/
theorem recover_fault_err (g : Geom) (img : Image) (policy : Policy) (order : List Bytes) (n : Nat)
    (err : OpenErr) (h : recover g img policy order none = .error err) :
    recover g img policy order (some n) = .error .io ∨ recover g img policy order (some n) = .error err := by
  rw [recover_none] at h
  rw [recover_eq g img policy order (some n)]
  cases h0 : recoverPre g img policy none with
  | ok x => obtain ⟨l, e0, io⟩ := x; rw [h0] at h; cases h
  | error e =>
    rw [h0] at h
    simp only [Except.error.injEq] at h
    subst h
    rcases recoverPre_fault_err g img policy n e h0 with h1 | h1 <;> rw [h1] <;> simp

/-- `prepareImage` produces no `open_file` effect -/
theorem countOpen_prepare (g : Geom) (img : Image) : countOpen (prepareImage g img).2 = 0 := by
  unfold prepareImage
  cases img with
  | nil => rfl
  | cons fc rest =>
    obtain ⟨f, content⟩ := fc
    simp only
    split <;> rfl

theorem countOpen_append (a b : List Effect) : countOpen (a ++ b) = countOpen a + countOpen b := by
  simp [countOpen]

/-- bound on the calls of the fault-free `recoverPre` -/
theorem recoverPre_io_le (g : Geom) (img : Image) (policy : Policy) (l : Log) (e0 : List Effect) (io : Nat)
    (h : recoverPre g img policy none = .ok (l, e0, io)) :
    io ≤ 1 + 2 * (prepareImage g img).1.length + fullBlocks g (prepareImage g img).1 ∧
    e0 = (prepareImage g img).2 := by
  have hc := blocksOf_cost g (prepareImage g img).1 1
  rcases hb : blocksOf g (prepareImage g img).1 1 with ⟨bs, trail⟩
  rw [hb] at hc
  cases bs with
  | nil => rw [recoverPre_nil g img policy none trail hb] at h; cases h
  | cons b0 rest =>
    rw [recoverPre_cons g img policy _ b0 rest trail hb] at h
    simp only [ioFails_none, Bool.false_eq_true, if_false] at h
    obtain ⟨⟨evs, e, io1⟩, hs⟩ := scanBlocks_none_some g trail rest b0.cost b0 0
    have hle := scanBlocks_io_le g trail rest b0.cost b0 0 evs e io1 hs
    rw [hs] at h
    obtain ⟨he, hio⟩ := finishPre_ok _ _ _ _ _ _ _ _ _ _ _ h
    subst hio
    simp only [List.map_cons, List.sum_cons] at hc
    exact ⟨by omega, he⟩

end MRL.Rec
