/-
Two logs with the same abstract state (same names, positions, payloads and next positions — the
file handles left out) behave the same: every call returns the same logical outcome on both and
leaves them with the same abstract state again. (Through the specification of C05.)
-/
import MRL.Props.C05
import MRL.Proofs.HAbs
import MRL.Proofs.QSpecLemmas

namespace MRL.L
open MRL Log C05 H

/-- same lookups -/
def SpecEq (s1 s2 : Spec) : Prop := ∀ n, Spec.get? s1 n = Spec.get? s2 n

theorem SpecEq.set {s1 s2 : Spec} (h : SpecEq s1 s2) (q : Bytes) (v : SQueue) :
    SpecEq (s1.set q v) (s2.set q v) := by
  intro n
  by_cases hn : n = q
  · subst hn; rw [Spec.get?_set_same, Spec.get?_set_same]
  · rw [Spec.get?_set_other _ _ _ _ hn, Spec.get?_set_other _ _ _ _ hn]; exact h n

theorem SpecEq.remove {s1 s2 : Spec} (h : SpecEq s1 s2) (q : Bytes) :
    SpecEq (s1.remove q) (s2.remove q) := by
  intro n
  by_cases hn : n = q
  · subst hn; rw [Spec.get?_remove_same, Spec.get?_remove_same]
  · rw [Spec.get?_remove_other _ _ _ hn, Spec.get?_remove_other _ _ _ hn]; exact h n

/-- the specification does not see the order of the queues -/
theorem spec_step_congr {s1 s2 : Spec} (h : SpecEq s1 s2) (c : Call) :
    (Spec.step s1 c).2 = (Spec.step s2 c).2 ∧ SpecEq (Spec.step s1 c).1 (Spec.step s2 c).1 := by
  cases c with
  | create q =>
    simp only [Spec.step, h q]
    cases Spec.get? s2 q with
    | some _ => exact ⟨rfl, h⟩
    | none => exact ⟨rfl, h.set q {}⟩
  | delete q =>
    simp only [Spec.step, h q]
    cases Spec.get? s2 q with
    | none => exact ⟨rfl, h⟩
    | some _ => exact ⟨rfl, h.remove q⟩
  | append q pos? pls =>
    simp only [Spec.step, h q]
    cases Spec.get? s2 q with
    | none => exact ⟨rfl, h⟩
    | some sq =>
      cases pos? with
      | some p =>
        simp only
        split
        · exact ⟨rfl, h⟩
        · split
          · exact ⟨rfl, h⟩
          · split
            · exact ⟨rfl, h⟩
            · exact ⟨rfl, h.set q _⟩
      | none =>
        simp only
        split
        · exact ⟨rfl, h⟩
        · exact ⟨rfl, h.set q _⟩
  | truncate q p =>
    simp only [Spec.step, h q]
    cases Spec.get? s2 q with
    | none => exact ⟨rfl, h⟩
    | some sq => exact ⟨rfl, h.set q _⟩
  | persist a => exact ⟨rfl, h⟩

theorem absEq_iff_specEq (l1 l2 : Log) : AbsEq l1.queues l2.queues ↔ SpecEq l1.abs l2.abs := by
  constructor
  · intro h n; rw [abs_get_eq, abs_get_eq]; exact h n
  · intro h n; have := h n; rwa [abs_get_eq, abs_get_eq] at this

/-- **same abstract state, same behaviour**: one call -/
theorem absEq_step (g : Geom) {l1 l2 : Log} (h1 : Inv l1) (h2 : Inv l2) (h : AbsEq l1.queues l2.queues)
    (c : Call) (tick1 tick2 : Bool) (order1 order2 : List Bytes) :
    (l1.step g c tick1 order1).2.1.logical = (l2.step g c tick2 order2).2.1.logical ∧
    AbsEq (l1.step g c tick1 order1).1.queues (l2.step g c tick2 order2).1.queues ∧
    Inv (l1.step g c tick1 order1).1 ∧ Inv (l2.step g c tick2 order2).1 := by
  obtain ⟨a1, a2, a3⟩ := C05_refines g l1 h1 c tick1 order1
  obtain ⟨b1, b2, b3⟩ := C05_refines g l2 h2 c tick2 order2
  obtain ⟨c1, c2⟩ := spec_step_congr ((absEq_iff_specEq l1 l2).mp h) c
  refine ⟨by rw [a2, b2, c1], ?_, a3, b3⟩
  rw [absEq_iff_specEq]
  rw [a1, b1]; exact c2

/-- a run of calls, each with its oracles; returns the final log and the logical outcomes -/
def runL (g : Geom) (l : Log) : List (Call × Bool × List Bytes) → Log × List Spec.LOutcome
  | [] => (l, [])
  | (c, tick, order) :: cs =>
    let r := l.step g c tick order
    let rest := runL g r.1 cs
    (rest.1, r.2.1.logical :: rest.2)

/-- the same calls, whatever the oracles -/
def SameCalls : List (Call × Bool × List Bytes) → List (Call × Bool × List Bytes) → Prop
  | [], [] => True
  | a :: as, b :: bs => a.1 = b.1 ∧ SameCalls as bs
  | _, _ => False

/-- **same abstract state, same behaviour**: any number of calls -/
theorem absEq_run (g : Geom) : ∀ (cs1 cs2 : List (Call × Bool × List Bytes)) {l1 l2 : Log},
    SameCalls cs1 cs2 → Inv l1 → Inv l2 → AbsEq l1.queues l2.queues →
    (runL g l1 cs1).2 = (runL g l2 cs2).2 ∧ AbsEq (runL g l1 cs1).1.queues (runL g l2 cs2).1.queues ∧
    Inv (runL g l1 cs1).1 ∧ Inv (runL g l2 cs2).1
  | [], [], _, _, _, h1, h2, h => ⟨rfl, h, h1, h2⟩
  | [], _ :: _, _, _, hs, _, _, _ => hs.elim
  | _ :: _, [], _, _, hs, _, _, _ => hs.elim
  | (c1, t1, o1) :: cs1, (c2, t2, o2) :: cs2, l1, l2, hs, h1, h2, h => by
    obtain ⟨hc, hs'⟩ := hs
    simp only at hc
    subst hc
    obtain ⟨a1, a2, a3, a4⟩ := absEq_step g h1 h2 h c1 t1 t2 o1 o2
    obtain ⟨b1, b2, b3, b4⟩ := absEq_run g cs1 cs2 hs' a3 a4 a2
    exact ⟨by simp only [runL]; rw [a1, b1], b2, b3, b4⟩

end MRL.L
