/-
A GC pass alone (the one that ends `open`), decomposed for the crash analysis: the touches (any
byte), then the unlinks (any prefix).
-/
import MRL.Proofs.HDecomp

namespace MRL.H
open MRL Codec Consts G Torn Log Buf C05 C01J

/-- **crash while the GC touches are written** -/
theorem touch_phase_crash (g : Geom) (hB : g.B ≤ 65542) {l : Log} {J : List JE} {D : Image}
    (h : CInv g l J D) (names : List Bytes) (hnames : ∀ n ∈ names, n ∈ l.queues.emptyNames)
    (hwf : ∀ j ∈ J ++ touchesJ g l names, C07.WF j.e)
    (htorn : TornEffs (writeTouches g l names).2.1) (X : Image)
    (hX : CutState D (writeTouches g l names).2.1 X) (policy : Policy) :
    ∃ lp e0 io, recoverPre g X policy none = .ok (lp, e0, io) ∧ QsEquiv lp.queues l.queues := by
  have hwfJ : ∀ j ∈ J, C07.WF j.e := fun j hj => hwf j (List.mem_append_left _ hj)
  by_cases hn : names = []
  · subst hn
    have : X = D := by simpa [writeTouches] using hX.nil_inv
    rw [this]
    exact preRes_of_cinv g hB h hwfJ policy
  have hF : l.files.headD 0 ≤ l.cur := head_le_of_mem h.jinv.h.files.sorted h.jinv.h.files.cur_mem
  obtain ⟨init, t, afs, lead, segs, x0⟩ := XInv.of_dinv h.disk
  obtain ⟨i3, t3, ntf, ns, B, x3, hlen3, _, hP3, hcut3, hmem3⟩ :=
    touches_ext g (l.files.headD 0) lead names _ _ _ _ _ _ _ x0
  have hch := touchesJ_chunk g names l h.jinv.h.files
  have hmono3 : Mono2 (J ++ touchesJ g l names) :=
    mono2_extend h.mono2 h.jinv.chunk hch (mono2_touches g names l h.jinv.h.files)
  have hchunk3 := h.jinv.chunk.append hch
  have hfirst3 : FirstOK (l.files.headD 0) (J ++ touchesJ g l names) (writeTouches g l names).1.cur := by
    apply firstOK_extend h.first
    · intro hnil
      cases names with
      | nil => rfl
      | cons n ns => rw [touchesJ_cons] at hnil; cases hnil
    · intro j1 hj1
      cases names with
      | nil => cases hj1
      | cons n ns =>
        rw [touchesJ_cons] at hj1
        simp only [List.head?_cons, Option.some.injEq] at hj1
        subst hj1
        exact ⟨rfl, nextLoc_ge g _⟩
  have hfirst := hfirst_of hmono3 hchunk3 hfirst3
  obtain ⟨hHl, chunk, qs, hrep, heq, hqwf⟩ := h.jinv
  have hexact : ∀ i, replayJ (l.files.headD 0) l.queues ((touchesJ g l names).take i) = some l.queues := by
    intro i
    rw [touchesJ_take]
    exact touches_replay g (l.files.headD 0) (names.take i) l hHl.files hF hHl.inv.1
      (fun n hn => hnames n (List.mem_of_mem_take hn))
  obtain ⟨qf, hqf, _, _⟩ := extend_rep hHl.inv hrep heq hqwf
    (by have := hexact names.length
        rwa [List.take_of_length_le (by rw [touchesJ_length]; exact Nat.le_refl _)] at this)
  obtain ⟨Pm, hct, hpc⟩ := hcut3 X hX
  have hnewloc : ∀ j ∈ touchesJ g l names, l.files.headD 0 ≤ j.loc := by
    intro j hj
    have := hch.bounds j hj; omega
  obtain ⟨i, qsr, lp, e0, io, hi, hqr, hrec, hlq⟩ := phase_read g hB x0 x3 (hlen3 hn).2 hnewloc hwf hfirst qf hqf
    (by
      intro a ha
      obtain ⟨f, off, hm⟩ := hmem3 a ha
      exact htorn _ _ f off hm)
    X Pm hct hpc policy
  refine ⟨lp, e0, io, hrec, ?_⟩
  rw [hlq]
  obtain ⟨q1, r1, r2, _⟩ := extend_rep hHl.inv hrep heq hqwf (hexact i)
  rw [hqr] at r1
  cases r1
  exact r2

/-- a GC pass, decomposed -/
theorem gc_decomp (g : Geom) (hB : g.B ≤ 65542) {l : Log} {J : List JE} {D : Image} (h : CInv g l J D)
    (order : List Bytes) (hfits : ∀ j ∈ J ++ gcJ g l order, C07.WF j.e)
    (htorn : TornEffs (runGc g l order).2.1) :
    ∃ (A : List Effect) (U : List Nat), (runGc g l order).2.1 = A ++ U.map Effect.unlink ∧
      (∀ f, Effect.unlink f ∉ A) ∧
      (∀ X, CutState D A X → ∀ policy, ∃ lp e0 io, recoverPre g X policy none = .ok (lp, e0, io) ∧
        QsEquiv lp.queues l.queues) ∧
      (∀ k, 0 < k → k ≤ U.length →
        AbsRes g l.queues (applyOsOps (applyOsOps D (directOps A)) ((U.take k).map OsOp.unlink))) ∧
      (∀ policy, ∃ lp e0 io, recoverPre g (applyOsOps D (directOps (runGc g l order).2.1)) policy none =
        .ok (lp, e0, io) ∧ QsEquiv lp.queues l.queues) := by
  have hfinal := cinv_gc g h order
  have hfin : ∀ policy, ∃ lp e0 io, recoverPre g (applyOsOps D (directOps (runGc g l order).2.1)) policy none =
      .ok (lp, e0, io) ∧ QsEquiv lp.queues l.queues := by
    intro policy
    obtain ⟨lp, e0, io, hrec, hq⟩ := preRes_of_cinv g hB hfinal hfits policy
    rw [runGc_queues] at hq
    exact ⟨lp, e0, io, hrec, hq⟩
  have hwfJ : ∀ j ∈ J, C07.WF j.e := fun j hj => hfits j (List.mem_append_left _ hj)
  rcases runGc_full g l order with ⟨hr1, hr2⟩ | ⟨names, hr1, hr2⟩
  · refine ⟨[], [], by rw [hr1]; simp, (fun f hf => by cases hf), ?_, (fun k hk0 hk => by simp at hk; omega), hfin⟩
    intro X hX policy
    rw [hX.nil_inv]
    exact preRes_of_cinv g hB h hwfJ policy
  · have hnames : ∀ n ∈ names, n ∈ l.queues.emptyNames := by
      rcases runGc_shape g l order h.jinv.h.inv.1 with ⟨hs1, _⟩ | ⟨names', _, _, hs1, _, _, hs5⟩
      · rw [hr1] at hs1
        cases names with
        | nil => intro n hn; cases hn
        | cons n ns => rw [touchesJ_cons] at hs1; cases hs1
      · rw [hr1] at hs1
        have := touchesJ_inj g _ _ _ hs1
        subst this
        intro n hn
        exact (hs5 n).mp hn
    rw [hr1] at hfits
    have heff : (runGc g l order).2.1 =
        ((writeTouches g l names).2.1 ++ (writeTouches g l names).1.persistEffects .flushAndFsync) ++
        (gcFiles ((writeTouches g l names).1.canDelete l.cur) (writeTouches g l names).1.files).2.map Effect.unlink := by
      rw [hr2]
    have htorn2 : TornEffs (writeTouches g l names).2.1 := by
      apply htorn.mono
      intro v hv
      rw [heff]
      exact List.mem_append_left _ (List.mem_append_left _ hv)
    have hpre : ∀ X, CutState D (writeTouches g l names).2.1 X → ∀ policy,
        ∃ lp e0 io, recoverPre g X policy none = .ok (lp, e0, io) ∧ QsEquiv lp.queues l.queues :=
      fun X hX policy => touch_phase_crash g hB h names hnames hfits htorn2 X hX policy
    refine ⟨_, _, heff, ?_, ?_, ?_, hfin⟩
    · intro f hf
      rcases List.mem_append.mp hf with hf | hf
      · exact no_unlink_of_unlinked (Step.writeTouches_unlinked g names _) f hf
      · exact no_unlink_syncL (isSyncL_persist _ _) f hf
    · intro X hX
      rcases CutState.of_append _ hX with hX | hX
      · exact hpre X hX
      · have := cut_syncL (isSyncL_persist _ _) hX
        rw [this]
        exact hpre _ (CutState.full _ _)
    · intro k hk0 hk policy
      have hD : applyOsOps D (directOps ((writeTouches g l names).2.1 ++
          (writeTouches g l names).1.persistEffects .flushAndFsync)) =
          applyOsOps D (directOps (writeTouches g l names).2.1) := by
        rw [directOps_append, applyOsOps_append, syncL_apply (isSyncL_persist _ _)]
      rw [hD]
      have hr3 : (runGc g l order).1 = { (writeTouches g l names).1 with
          files := (gcFiles ((writeTouches g l names).1.canDelete l.cur) (writeTouches g l names).1.files).1 } := by
        rw [hr2]
      exact unlink_phase_crash g hB h order names hr1 hr3 hfits k hk0 hk policy

end MRL.H
