/-
What `recoverPre` scans and delivers on the clean image of a disk satisfying the disk invariant
(C07 at file level): the frame events of the tape, no corrupt event; `assemble` delivers exactly
the retained journal entries, each attributed to `max attr F`. (The event-level content of
`G.read_disk`, restated.)
-/
import MRL.Proofs.ImgRead
import MRL.Proofs.GRestart

namespace MRL.Img
open MRL Consts Codec Log G

theorem decoded_readerOut (F : Nat) : ∀ (segs : List Seg) (a : Nat),
    (∀ s ∈ segs, C07.WF s.1.e) → AttrOK F a segs →
    Rec.decoded (readerOut a segs) = segs.map fun s => (max s.1.attr F, s.1.e) := by
  intro segs
  induction segs with
  | nil => intro a _ _; rfl
  | cons s segs ih =>
    intro a hw ha
    have h1 := hw s List.mem_cons_self
    simp only [readerOut, Rec.decoded, C07.decode_encode _ h1, List.map_cons, ← ha.1]
    rw [ih _ (fun s' hs' => hw s' (List.mem_cons_of_mem _ hs')) ha.2]

theorem readerOut_entries : ∀ (segs : List Seg) (a : Nat), ∀ ev ∈ readerOut a segs, ev ≠ RecEv.corrupt := by
  intro segs
  induction segs with
  | nil => intro a ev h; cases h
  | cons s segs ih =>
    intro a ev h
    simp only [readerOut, List.mem_cons] at h
    rcases h with rfl | h
    · intro hc; cases hc
    · exact ih _ ev h

/-- the scan and the delivery on the clean image -/
theorem clean_delivered (g : Geom) (hB : g.B ≤ 65542) {l : Log} {D : Image} {J : List JE} {F : Nat}
    (h : DInvF g l D J F) (hwf : ∀ j ∈ J, C07.WF j.e)
    (hfirst : ∀ j, (J.filter (fun j => decide (F ≤ j.loc))).head? = some j → j.attr ≤ F) :
    ∃ b0 rest trail evs e io,
      blocksOf g (prepareImage g D).1 1 = (b0 :: rest, trail) ∧
      scanBlocks g none trail b0.cost b0 0 rest = some (evs, e, io) ∧
      (∀ ev ∈ evs, ∀ f, ev ≠ RdEv.corrupt f) ∧
      (∀ ev ∈ assemble { within := false, buf := [], attr := b0.file } evs, ev ≠ RecEv.corrupt) ∧
      Rec.decoded (assemble { within := false, buf := [], attr := b0.file } evs) =
        (J.filter fun j => decide (F ≤ j.loc)).map fun j => (max j.attr F, j.e) := by
  have hB7 := Bpos g
  have hfb := fileBytes_pos g
  obtain ⟨init, t, afs, hT, hL, hS, hC, hN⟩ := h
  have hlastlen : (t ++ zeros (g.fileBytes - l.off)).length = g.fileBytes := by
    have := hT.off_le
    simp [hT.tlen]; omega
  have hfull : ∀ c ∈ init ++ [t ++ zeros (g.fileBytes - l.off)], c.length = g.fileBytes := by
    intro c hc
    rcases List.mem_append.mp hc with hc | hc
    · exact hT.full c hc
    · simp only [List.mem_singleton] at hc; rw [hc]; exact hlastlen
  have hne : init ++ [t ++ zeros (g.fileBytes - l.off)] ≠ [] := by simp
  obtain ⟨m, trail, hlen, hb⟩ := blocks_of_full g F _ hne hfull
  rw [← hT.img] at hb
  -- the stream and its scan
  have hSeq : (init ++ [t ++ zeros (g.fileBytes - l.off)]).flatten = (layoutBufs g 0 (untag afs)).flatten ++
      zeros ((init.flatten ++ t).length - endPos g 0 (untag afs) + (g.fileBytes - l.off)) := by
    rw [List.flatten_append, List.flatten_singleton, ← List.append_assoc]
    conv => lhs; rw [hL.bytes]
    rw [List.append_assoc, ← zeros_add]
  obtain ⟨e, hscan, _⟩ := readS_layout g hB F _ (m + 1) hlen.symm (untag afs) 0 0 _
    (Nat.succ_pos _) (by omega) hL.fits (by simpa using hSeq)
  have hm1 : m + 1 - (0 + 1) = m := by omega
  rw [hm1, Nat.zero_mul, Nat.zero_add, tagFrom_of_Tagged g F afs 0 hL.tagged] at hscan
  obtain ⟨io', hio⟩ := scanBlocks_eq_scanB g trail (blkAt g F _ 0).cost (blkAt g F _ 0) 0 (blksFrom g F _ 1 m)
  rw [hscan] at hio
  -- assemble
  obtain ⟨lead, segs, hafs, hlead, hmap, hsok, hchain⟩ := hS
  have hb0 : (blkAt g F (init ++ [t ++ zeros (g.fileBytes - l.off)]).flatten 0).file = F := by simp [blkAt]
  have hasm : assemble { within := false, buf := [], attr := F } (evsOf afs) = readerOut F segs := by
    rw [hafs, evsOf_append, assemble_lead _ rfl lead _ hlead, assemble_segs segs F [] hsok]
  have hsegJ : ∀ s ∈ segs, s.1 ∈ J ∧ F ≤ s.1.loc := by
    intro s hs
    have : s.1 ∈ segs.map (·.1) := List.mem_map_of_mem (f := (·.1)) hs
    rw [hmap] at this
    have := List.mem_filter.mp this
    exact ⟨this.1, by simpa using this.2⟩
  have hattr : AttrOK F F segs := by
    apply AttrOK_of_chain F segs F _ hchain
    · intro s hs
      have hle : s.1.attr ≤ F := by
        apply hfirst
        rw [← hmap]
        cases segs with
        | nil => cases hs
        | cons s' rest =>
          simp only [List.head?_cons, Option.some.injEq] at hs
          subst hs; rfl
      omega
    · intro s hs
      have hso := hsok s hs
      refine ⟨?_, ?_⟩
      · intro hnil
        have := hso.frames.ne_nil
        rw [hnil] at this; exact this rfl
      · intro x hx
        have hxa : x ∈ afs := by
          rw [hafs]
          exact List.mem_append_right _ (List.mem_flatMap.mpr ⟨s, hs, hx⟩)
        obtain ⟨hh, _, _, h3⟩ := tag_pos g F afs 0 hL.tagged x hxa
        rw [h3]; exact Nat.le_add_right _ _
  refine ⟨_, _, trail, _, _, io', hb, hio, ?_, ?_, ?_⟩
  · intro ev hev f
    unfold evsOf at hev
    obtain ⟨a, _, rfl⟩ := List.mem_map.mp hev
    intro hc; cases hc
  · rw [hb0, hasm]; exact readerOut_entries segs F
  · rw [hb0, hasm, decoded_readerOut F segs F (fun s hs => hwf _ (hsegJ s hs).1) hattr, ← hmap, List.map_map]
    rfl

end MRL.Img
