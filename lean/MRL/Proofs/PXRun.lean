/-
Histories with restarts. An event is a call or a `reopen` (drop the log = flush the `BufWriter`,
then `open` the directory again: `ensureLen` on the first file, the GC pass). `effsX` is the effect
list of a history — a reopen contributes `flush :: (the effects of recover)`; since `flush` leaves
the `BufWriter` model in its initial state `{}`, the refined operations of the whole history are
`toOsOpsP cap b (effsX …)`. From a state satisfying the relaxed invariant `CInvX` (every state
reachable with crashes, `C02U.reachX_inv`) the history obeys the power-loss discipline `PX.pd`,
the buffer discipline, all its cut states have full-size or empty files and open to a state of the
history (`runX_cut`); hence the power-loss reduction `power_reductionX`.
-/
import MRL.Proofs.PXDisc
import MRL.Proofs.PRun
import MRL.Props.C02Usable

namespace MRL.PX
open MRL Buf G H L Log K C01J Codec P

/-! ### histories -/

inductive Ev
  | call (c : Call) (tick : Bool) (order : List Bytes)
  | reopen (policy : Policy) (order : List Bytes)

/-- the log after the event; `D` is the flushed disk before it -/
def evLog (g : Geom) (l : Log) (D : Image) : Ev → Log
  | .call c tick order => (l.step g c tick order).1
  | .reopen policy order =>
    match recover g D policy order none with
    | .ok r => r.log
    | .error _ => l

/-- the effects of the event; dropping the log flushes the `BufWriter` -/
def evEffs (g : Geom) (l : Log) (D : Image) : Ev → List Effect
  | .call c tick order => (l.step g c tick order).2.2
  | .reopen policy order =>
    match recover g D policy order none with
    | .ok r => .flush :: r.effects
    | .error _ => [.flush]

/-- the journal entries the event appends (those that must be serialisable) -/
def evJ (g : Geom) (l : Log) (D : Image) : Ev → List JE
  | .call c _ order => l.stepJ g c order
  | .reopen policy order =>
    match recoverPre g D policy none with
    | .ok (lp, _, _) => lp.gcJ g order
    | .error _ => []

def evDisk (g : Geom) (l : Log) (D : Image) (e : Ev) : Image := applyOsOps D (directOps (evEffs g l D e))

def logX (g : Geom) : Log → Image → List Ev → Log
  | l, _, [] => l
  | l, D, e :: es => logX g (evLog g l D e) (evDisk g l D e) es

def diskXs (g : Geom) : Log → Image → List Ev → Image
  | _, D, [] => D
  | l, D, e :: es => diskXs g (evLog g l D e) (evDisk g l D e) es

def effsX (g : Geom) : Log → Image → List Ev → List Effect
  | _, _, [] => []
  | l, D, e :: es => evEffs g l D e ++ effsX g (evLog g l D e) (evDisk g l D e) es

def jourX (g : Geom) : Log → Image → List Ev → List JE
  | _, _, [] => []
  | l, D, e :: es => evJ g l D e ++ jourX g (evLog g l D e) (evDisk g l D e) es

theorem logX_append (g : Geom) (a b : List Ev) : ∀ (l : Log) (D : Image),
    logX g l D (a ++ b) = logX g (logX g l D a) (diskXs g l D a) b := by
  induction a with
  | nil => intro l D; rfl
  | cons e a ih => intro l D; simp only [List.cons_append, logX, diskXs, ih]

theorem diskXs_append (g : Geom) (a b : List Ev) : ∀ (l : Log) (D : Image),
    diskXs g l D (a ++ b) = diskXs g (logX g l D a) (diskXs g l D a) b := by
  induction a with
  | nil => intro l D; rfl
  | cons e a ih => intro l D; simp only [List.cons_append, logX, diskXs, ih]

theorem effsX_append (g : Geom) (a b : List Ev) : ∀ (l : Log) (D : Image),
    effsX g l D (a ++ b) = effsX g l D a ++ effsX g (logX g l D a) (diskXs g l D a) b := by
  induction a with
  | nil => intro l D; rfl
  | cons e a ih => intro l D; simp only [List.cons_append, logX, diskXs, effsX, ih, List.append_assoc]

theorem jourX_append (g : Geom) (a b : List Ev) : ∀ (l : Log) (D : Image),
    jourX g l D (a ++ b) = jourX g l D a ++ jourX g (logX g l D a) (diskXs g l D a) b := by
  induction a with
  | nil => intro l D; rfl
  | cons e a ih => intro l D; simp only [List.cons_append, logX, diskXs, jourX, ih, List.append_assoc]

theorem diskXs_eq (g : Geom) (evs : List Ev) : ∀ (l : Log) (D : Image),
    diskXs g l D evs = applyOsOps D (directOps (effsX g l D evs)) := by
  induction evs with
  | nil => intro l D; rfl
  | cons e es ih =>
    intro l D
    simp only [diskXs, effsX, ih, directOps_append, applyOsOps_append]
    rfl

/-! ### the shape of a disk satisfying the relaxed invariant -/

/-- tracked files = files on disk; those up to the current one are full, a file beyond it is the
    next one and is empty -/
structure DShape (fb : Nat) (l : Log) (D : Image) : Prop where
  files : l.files = D.map (·.1)
  fw : FilesWF l
  full : ∀ kv ∈ D, kv.1 ≤ l.cur → kv.2.length = fb
  empty : ∀ kv ∈ D, l.cur < kv.1 → kv.2 = []
  one : ∀ kv ∈ D, l.cur < kv.1 → kv.1 = l.cur + 1

theorem xtra_map_keys (x : Bool) (f : Nat) : (xtra x f).map (·.1) = if x then [f] else [] := by
  cases x <;> rfl

theorem dshape_of_cinvx {g : Geom} {l : Log} {J : List JE} {D : Image} (h : CInvX g l J D) :
    DShape g.fileBytes l D := by
  obtain ⟨init, t, x, res, ais, lead, gs, hx⟩ := h.disk
  have hT := hx.tape
  have hfull := tapeR_chunks hT
  generalize hcs : init ++ [t ++ (res ++ zeros (g.fileBytes - l.off - res.length))] = cs at hfull
  have hlen : cs.length = init.length + 1 := by rw [← hcs]; simp
  have himg : D = imgOf (l.files.headD 0) cs ++ xtra x (l.files.headD 0 + init.length + 1) := by
    rw [← hcs]; exact hT.img
  have hcur := hT.cur
  refine ⟨?_, h.jinv.h.files, ?_, ?_, ?_⟩
  · rw [himg, List.map_append, imgOf_keys, xtra_map_keys, hlen]
    conv => lhs; rw [hT.files]
    cases x
    · simp
    · simp only [if_true]
      rw [show init.length + 1 + 1 = (init.length + 1) + 1 from rfl, ← range'_snoc]
      congr 2
  · intro kv hkv hle
    rw [himg] at hkv
    rcases List.mem_append.mp hkv with hkv | hkv
    · exact hfull _ (imgOf_values _ _ kv hkv)
    · exfalso
      exact xtra_keys x _ kv.1 (by omega) kv hkv rfl
  · intro kv hkv hlt
    rw [himg] at hkv
    rcases List.mem_append.mp hkv with hkv | hkv
    · have := (imgOf_key_bounds _ _ kv hkv).2
      omega
    · cases x
      · cases hkv
      · simp only [xtra, if_true, List.mem_singleton] at hkv
        rw [hkv]
  · intro kv hkv hlt
    rw [himg] at hkv
    rcases List.mem_append.mp hkv with hkv | hkv
    · have := (imgOf_key_bounds _ _ kv hkv).2
      omega
    · cases x
      · cases hkv
      · simp only [xtra, if_true, List.mem_singleton] at hkv
        rw [hkv]; simp only; omega

/-- two logs with the same disk track the same files and stand in the same file -/
theorem dshape_same {fb : Nat} (hfb : 0 < fb) {l lp : Log} {D : Image} (h : DShape fb l D) (hp : DShape fb lp D) :
    lp.files = l.files ∧ lp.cur = l.cur := by
  refine ⟨by rw [h.files, hp.files], ?_⟩
  have key : ∀ {a b : Log}, DShape fb a D → DShape fb b D → ¬ a.cur < b.cur := by
    intro a b ha hb hlt
    have hm := hb.fw.cur_mem
    rw [hb.files] at hm
    obtain ⟨kv, hkv, hk⟩ := List.mem_map.mp hm
    have h1 := ha.empty kv hkv (by rw [hk]; exact hlt)
    have h2 := hb.full kv hkv (by rw [hk]; exact Nat.le_refl _)
    rw [h1] at h2
    simp at h2
    omega
  have := key h hp
  have := key hp h
  omega

theorem dshape_next {fb : Nat} {l : Log} {D : Image} (h : DShape fb l D) :
    ∀ f ∈ l.files, l.cur < f → nextFile l.files l.cur = some f := by
  intro f hf hlt
  have hf' := hf
  rw [h.files] at hf'
  obtain ⟨kv, hkv, hk⟩ := List.mem_map.mp hf'
  have h1 := h.one kv hkv (by rw [hk]; exact hlt)
  cases hn : nextFile l.files l.cur with
  | none =>
    have := nextFile_none hn f hf
    omega
  | some nf =>
    obtain ⟨hm, hl⟩ := nextFile_some hn
    rw [h.files] at hm
    obtain ⟨kv', hkv', hk'⟩ := List.mem_map.mp hm
    have h2 := h.one kv' hkv' (by rw [hk']; exact hl)
    congr 1
    omega

/-- discipline state in which everything is durable -/
def pd0X (l : Log) : PDX := ⟨l.cur, false, true, true, true, nextFile l.files l.cur⟩

theorem pdl0X {fb : Nat} {l : Log} {D : Image} (h : DShape fb l D) : PDLX (pd0X l) l :=
  ⟨rfl, rfl, rfl, dshape_next h, h.fw⟩

theorem pinv0X {fb : Nat} (hfb : 0 < fb) {l : Log} {D : Image} (h : DShape fb l D) :
    PInvX (pd0X l) (PState.init D) := by
  have hnd : (D.map (·.1)).Nodup := by
    rw [← h.files]
    exact h.fw.sorted.imp (fun hab => Nat.ne_of_lt hab)
  have hcm : l.cur ∈ D.map (·.1) := by rw [← h.files]; exact h.fw.cur_mem
  have hcont : ∀ k, k ∈ D.map (·.1) → (D.map (·.1)).contains k = true := by
    intro k hk; simpa using hk
  have hnext : ∀ kv ∈ D, kv.1 ≤ l.cur ∨ nextFile l.files l.cur = some kv.1 := by
    intro kv hkv
    rcases Nat.lt_or_ge l.cur kv.1 with h1 | h1
    · right
      exact dshape_next h kv.1 (by rw [h.files]; exact mem_keys hkv) h1
    · exact Or.inl h1
  have hne : ∀ kv ∈ D, kv.1 ≤ l.cur → kv.2 ≠ [] := by
    intro kv hkv hle he
    have := h.full kv hkv hle
    rw [he] at this
    simp at this
    omega
  refine ⟨hnd, hcm, hnext, ?_, fun nf hx => (nextFile_some hx).2, ?_, fun kv hkv _ => ⟨hcont _ (mem_keys hkv),
    lookupF_of_mem hnd hkv⟩, fun _ => hcont _ hcm, (fun hx => by cases hx),
    (fun _ kv hkv hw => by rw [← hw]; exact lookupF_of_mem hnd hkv), fun _ kv hkv hw => hne kv hkv (Nat.le_of_eq hw),
    fun _ => rfl, fun kv hkv hlt => hne kv hkv (Nat.le_of_lt hlt)⟩
  · intro k hk
    obtain ⟨kv, hkv, rfl⟩ := List.mem_map.mp hk
    exact hnext kv hkv
  · intro nf hx
    have := (nextFile_some hx).1
    rw [h.files] at this
    exact this

/-! ### one event -/

/-- what a `reopen` is, from a state satisfying the relaxed invariant -/
theorem reopen_eval (g : Geom) (hB : g.B ≤ 65542) {l : Log} {J : List JE} {D : Image} (h : CInvX g l J D)
    (hw : ∀ j ∈ J, C07.WF j.e) (policy : Policy) (order : List Bytes) :
    ∃ (J' : List JE) (lp : Log) (io : Nat) (r : Recovered),
      recoverPre g D policy none = .ok (lp, [.ensureLen (lp.files.headD 0) g.fileBytes], io) ∧
      recover g D policy order none = .ok r ∧
      r.effects = [.ensureLen (lp.files.headD 0) g.fileBytes] ++ (runGc g lp order).2.1 ∧
      CInvX g lp J' D ∧ (∀ j ∈ J', C07.WF j.e) ∧ AbsEq lp.queues l.queues ∧
      evLog g l D (.reopen policy order) = (runGc g lp order).1 ∧
      evEffs g l D (.reopen policy order) =
        .flush :: ([.ensureLen (lp.files.headD 0) g.fileBytes] ++ (runGc g lp order).2.1) ∧
      evJ g l D (.reopen policy order) = gcJ g lp order := by
  obtain ⟨J', lp, io, r, hpre, hrec, hlog, heff, hc0, hw0, hab, _⟩ := recover_okX g hB h hw policy order
  refine ⟨J', lp, io, r, hpre, hrec, heff, hc0, hw0, hab, ?_, ?_, ?_⟩
  · simp only [evLog, hrec, hlog]
  · simp only [evEffs, hrec, heff]
  · simp only [evJ, hpre]

/-- **one event**, from a state satisfying the relaxed invariant: the invariant is kept, the
    discipline is obeyed, and every cut state opens to the state before or after the event -/
theorem ev_facts (g : Geom) (hB : g.B ≤ 65542) {l : Log} {J : List JE} {D : Image} (h : CInvX g l J D)
    (hw : ∀ j ∈ J, C07.WF j.e) (e : Ev) (hwe : ∀ j ∈ evJ g l D e, C07.WF j.e)
    (htorn : TornEffs (evEffs g l D e)) :
    (∃ J', CInvX g (evLog g l D e) J' (evDisk g l D e) ∧ ∀ j ∈ J', C07.WF j.e) ∧
    (∀ σ, PDLX σ l → ∃ σ', pd g.fileBytes σ (evEffs g l D e) = some σ' ∧ PDLX σ' (evLog g l D e)) ∧
    C14.Disc l (evEffs g l D e) (evLog g l D e) ∧
    (∀ (w : Bool) X, CutW w D (evEffs g l D e) X → XInvRes g l.queues (evLog g l D e).queues X) := by
  cases e with
  | call c tick order =>
    have hfits : ∀ j ∈ J ++ l.stepJ g c order, C07.WF j.e := by
      intro j hj
      rcases List.mem_append.mp hj with hj | hj
      · exact hw j hj
      · exact hwe j hj
    exact ⟨⟨_, cinvx_step g h c tick order, hfits⟩, fun σ hσ => pd_step g l c tick order σ hσ,
      C14.step_Disc g l c tick order, fun w X hX => call_cutX g hB h c tick order hfits htorn w X hX⟩
  | reopen policy order =>
    obtain ⟨J', lp, io, r, hpre, hrec, heff, hc0, hw0, hab, e1, e2, e3⟩ := reopen_eval g hB h hw policy order
    rw [e3] at hwe
    have hfits : ∀ j ∈ J' ++ gcJ g lp order, C07.WF j.e := by
      intro j hj
      rcases List.mem_append.mp hj with hj | hj
      · exact hw0 j hj
      · exact hwe j hj
    have hsame := dshape_same (fileBytes_pos g) (dshape_of_cinvx h) (dshape_of_cinvx hc0)
    refine ⟨⟨J' ++ gcJ g lp order, ?_, hfits⟩, ?_, ?_, ?_⟩
    · unfold evDisk
      rw [e1, e2, directOps_cons, directOps_append, applyOsOps_append, applyOsOps_append]
      have hfl : applyOsOps D (direct Effect.flush) = D := rfl
      rw [hfl, ensureLen_head g hc0]
      exact cinvx_gc g hc0 order
    · intro σ hσ
      rw [e1, e2]
      exact pd_reopen g l lp order σ hσ hsame.1 hsame.2
    · rw [e1, e2]
      intro st _
      obtain ⟨st', hrun, hcl⟩ := C14.runGc_Disc g lp order none (Or.inl rfl)
      refine ⟨st', ?_, hcl⟩
      simp only [List.cons_append, List.nil_append, Buf.run, Buf.run1, if_true, Option.bind_some]
      exact hrun
    · intro w X hX
      rw [e2] at hX htorn
      have htorn' : TornEffs r.effects := by
        rw [heff]
        exact fun t p f off hm => htorn t p f off (List.mem_cons_of_mem _ hm)
      obtain ⟨_, _, hcut⟩ := C02U.recover_boundary g hB h hw policy order lp _ io r hpre hrec hwe htorn'
      have hX' : CutW w D r.effects X := by
        rw [heff]
        rcases hX.cons_inv with h1 | ⟨_, _, _, _, _, hw1, _⟩ | h1
        · rw [h1]; exact CutW.stop _ _ _
        · cases hw1
        · exact h1
      have hres := hcut w X hX'
      intro pol
      obtain ⟨J2, lp2, io2, F2, a1, a2, a3, a4, a5, a6⟩ := hres pol
      exact ⟨J2, lp2, io2, F2, a1, a2, a3, a4, a5, Or.inl ((a6.elim id id).trans hab)⟩

/-! ### whole histories -/

theorem torn_left {a b : List Effect} (h : TornEffs (a ++ b)) : TornEffs a :=
  fun t p f off hm => h t p f off (List.mem_append_left _ hm)

theorem torn_right {a b : List Effect} (h : TornEffs (a ++ b)) : TornEffs b :=
  fun t p f off hm => h t p f off (List.mem_append_right _ hm)

/-- the relaxed invariant is kept, the disciplines are obeyed -/
theorem runX_inv (g : Geom) (hB : g.B ≤ 65542) (evs : List Ev) : ∀ {l : Log} {J : List JE} {D : Image},
    CInvX g l J D → (∀ j ∈ J, C07.WF j.e) → (∀ j ∈ jourX g l D evs, C07.WF j.e) → TornEffs (effsX g l D evs) →
    (∃ J', CInvX g (logX g l D evs) J' (diskXs g l D evs) ∧ ∀ j ∈ J', C07.WF j.e) ∧
    (∀ σ, PDLX σ l → ∃ σ', pd g.fileBytes σ (effsX g l D evs) = some σ' ∧ PDLX σ' (logX g l D evs)) ∧
    C14.Disc l (effsX g l D evs) (logX g l D evs) := by
  induction evs with
  | nil =>
    intro l J D h hw _ _
    exact ⟨⟨J, h, hw⟩, fun σ hσ => ⟨σ, rfl, hσ⟩, C14.Disc.same rfl rfl⟩
  | cons e es ih =>
    intro l J D h hw hwf htorn
    simp only [jourX, effsX] at hwf htorn
    obtain ⟨⟨J1, hc1, hw1⟩, hpd1, hdisc1, _⟩ := ev_facts g hB h hw e
      (fun j hj => hwf j (List.mem_append_left _ hj)) (torn_left htorn)
    obtain ⟨hinv2, hpd2, hdisc2⟩ := ih hc1 hw1 (fun j hj => hwf j (List.mem_append_right _ hj)) (torn_right htorn)
    refine ⟨hinv2, ?_, hdisc1.trans hdisc2⟩
    intro σ hσ
    obtain ⟨σ1, q1, p1⟩ := hpd1 σ hσ
    obtain ⟨σ2, q2, p2⟩ := hpd2 σ1 p1
    refine ⟨σ2, ?_, p2⟩
    simp only [effsX]
    rw [pd_append, q1]
    exact q2

/-- **every cut state of a history opens to a state of the history**, and the log read back
    satisfies the relaxed invariant on it -/
theorem runX_cut (g : Geom) (hB : g.B ≤ 65542) (evs : List Ev) : ∀ {l : Log} {J : List JE} {D : Image},
    CInvX g l J D → (∀ j ∈ J, C07.WF j.e) → (∀ j ∈ jourX g l D evs, C07.WF j.e) → TornEffs (effsX g l D evs) →
    ∀ (w : Bool) X, CutW w D (effsX g l D evs) X → ∀ policy, ∃ (i : Nat) (J' : List JE) (lp : Log)
      (e0 : List Effect) (io : Nat), i ≤ evs.length ∧ recoverPre g X policy none = .ok (lp, e0, io) ∧
      CInvX g lp J' X ∧ AbsEq lp.queues (logX g l D (evs.take i)).queues := by
  induction evs with
  | nil =>
    intro l J D h hw _ _ w X hX policy
    have : X = D := by simpa [effsX] using hX.nil_inv
    rw [this]
    obtain ⟨J', lp, io, F', a1, _, a3, _, _, a6⟩ := xinvres_of_cinvx g hB h hw policy
    exact ⟨0, J', lp, _, io, Nat.le_refl _, a1, a3, a6⟩
  | cons e es ih =>
    intro l J D h hw hwf htorn w X hX policy
    simp only [jourX, effsX] at hwf htorn hX
    obtain ⟨⟨J1, hc1, hw1⟩, _, _, hcut⟩ := ev_facts g hB h hw e
      (fun j hj => hwf j (List.mem_append_left _ hj)) (torn_left htorn)
    rcases CutW.of_append _ hX with hX | hX
    · obtain ⟨J', lp, io, F', a1, _, a3, _, _, a6⟩ := hcut w X hX policy
      rcases a6 with a6 | a6
      · exact ⟨0, J', lp, _, io, Nat.zero_le _, a1, a3, a6⟩
      · exact ⟨1, J', lp, _, io, by simp, a1, a3, by simpa [logX] using a6⟩
    · obtain ⟨i, J', lp, e0, io, hi, a1, a3, a6⟩ := ih hc1 hw1 (fun j hj => hwf j (List.mem_append_right _ hj))
        (torn_right htorn) w X hX policy
      exact ⟨i + 1, J', lp, e0, io, by simp; omega, a1, a3, by simpa [logX] using a6⟩

/-- every cut state of a history has full-size (or still empty) files -/
theorem runX_foe (g : Geom) (hB : g.B ≤ 65542) (evs : List Ev) {l : Log} {J : List JE} {D : Image}
    (h : CInvX g l J D) (hw : ∀ j ∈ J, C07.WF j.e) (hwf : ∀ j ∈ jourX g l D evs, C07.WF j.e)
    (htorn : TornEffs (effsX g l D evs)) (w : Bool) (X : Image) (hX : CutW w D (effsX g l D evs) X) :
    FullOrEmpty g.fileBytes X := by
  obtain ⟨_, J', lp, _, _, _, _, hcx, _⟩ := runX_cut g hB evs h hw hwf htorn w X hX .doNothing
  exact foe_of_cinvx hcx

/-! ### the reduction -/

/-- **the reduction, for histories with restarts, from any state satisfying the relaxed invariant**:
    the image left by a power loss at any instant after a prefix of the history that ends with
    `flush, fsync(file), fsync(dir)` is the image obtained from the flushed disk after that prefix
    by a whole number of the remaining effects -/
theorem power_reductionX (g : Geom) (hB : g.B ≤ 65542) (cap : Nat) (l : Log) (J : List JE) (D : Image)
    (b : BufSt) (hc : CInvX g l J D) (hwJ : ∀ j ∈ J, C07.WF j.e) (hb : b.pend = []) (evs : List Ev)
    (hwf : ∀ j ∈ jourX g l D evs, C07.WF j.e) (htorn : TornEffs (effsX g l D evs))
    (m : Nat) (pre : List Effect) (f : Nat)
    (htail : effsX g l D (evs.take m) = pre ++ [.flush, .fsyncFile f, .fsyncDir])
    (k : Nat) (hk : (toOsOpsP cap b (effsX g l D (evs.take m))).2.length ≤ k) :
    ∃ p, powerImage D ((toOsOpsP cap b (effsX g l D evs)).2.take k) =
      applyOsOps (diskXs g l D (evs.take m))
        (directOps ((effsX g (logX g l D (evs.take m)) (diskXs g l D (evs.take m)) (evs.drop m)).take p)) := by
  have hfb := fileBytes_pos g
  have hsplit : evs = evs.take m ++ evs.drop m := (List.take_append_drop m evs).symm
  have heffs : effsX g l D evs = effsX g l D (evs.take m) ++
      effsX g (logX g l D (evs.take m)) (diskXs g l D (evs.take m)) (evs.drop m) := by
    conv => lhs; rw [hsplit]
    exact effsX_append g _ _ l D
  have hjour : jourX g l D evs = jourX g l D (evs.take m) ++
      jourX g (logX g l D (evs.take m)) (diskXs g l D (evs.take m)) (evs.drop m) := by
    conv => lhs; rw [hsplit]
    exact jourX_append g _ _ l D
  have hwfm : ∀ j ∈ jourX g l D (evs.take m), C07.WF j.e :=
    fun j hj => hwf j (by rw [hjour]; exact List.mem_append_left _ hj)
  have hwfr : ∀ j ∈ jourX g (logX g l D (evs.take m)) (diskXs g l D (evs.take m)) (evs.drop m), C07.WF j.e :=
    fun j hj => hwf j (by rw [hjour]; exact List.mem_append_right _ hj)
  have htornm : TornEffs (effsX g l D (evs.take m)) := torn_left (by rw [← heffs]; exact htorn)
  have htornr : TornEffs (effsX g (logX g l D (evs.take m)) (diskXs g l D (evs.take m)) (evs.drop m)) :=
    torn_right (by rw [← heffs]; exact htorn)
  -- the first `m` events
  obtain ⟨⟨Jm, hcm, hwm⟩, hpdM, hdiscM⟩ := runX_inv g hB (evs.take m) hc hwJ hwfm htornm
  obtain ⟨_, hpdR, hdiscR⟩ := runX_inv g hB (evs.drop m) hcm hwm hwfr htornr
  have hfoeM := fun (w : Bool) X => runX_foe g hB (evs.take m) hc hwJ hwfm htornm w X
  have hfoeR := fun (w : Bool) X => runX_foe g hB (evs.drop m) hcm hwm hwfr htornr w X
  have hDm : diskXs g l D (evs.take m) = applyOsOps D (directOps (effsX g l D (evs.take m))) := diskXs_eq g _ l D
  generalize hEm : effsX g l D (evs.take m) = Em at *
  generalize hEr : effsX g (logX g l D (evs.take m)) (diskXs g l D (evs.take m)) (evs.drop m) = Er at *
  have hsh := dshape_of_cinvx hc
  -- the discipline
  obtain ⟨σm, hpdm, hpdlm⟩ := hpdM (pd0X l) (pdl0X hsh)
  obtain ⟨σe, hpdr, _⟩ := hpdR σm hpdlm
  obtain ⟨hdm, hnm, hclean⟩ : σm.dirty = false ∧ σm.named = true ∧ σm.clean = true := by
    rw [htail] at hpdm; exact pd_triple_end _ _ _ pre f hpdm
  -- the buffer discipline
  obtain ⟨stm, hrunm, _⟩ := hdiscM none (Or.inl rfl)
  obtain ⟨hrunSm, hstm⟩ := runS_of_pd g.fileBytes Em none stm (pd0X l) σm hrunm hpdm (fun _ => rfl)
  have hstm0 : stm = none := hstm hclean
  subst hstm0
  obtain ⟨str, hrunr, _⟩ := hdiscR none (Or.inl rfl)
  obtain ⟨hrunSr, _⟩ := runS_of_pd g.fileBytes Er none str σm σe hrunr hpdr (fun _ => rfl)
  have hinv0 : Buf.Inv cap b none := ⟨Or.inl hb, by rw [hb]; exact Nat.zero_le _⟩
  obtain ⟨hinvm, hokm⟩ := toOsOpsP_ok cap Em b none none hinv0 hrunSm
  have hbm : (toOsOpsP cap b Em).1.pend = [] := by
    rcases hinvm.1 with h | h
    · exact h
    · cases h
  have hSm : prun (PState.init D) (toOsOpsP cap b Em).2 = prun (PState.init D) (directOpsP Em) := by
    have := hokm (PState.init D)
    rw [flushOps_nil _ hbm, flushOps_nil b hb] at this
    exact this
  -- the operations
  rw [heffs, toOsOpsP_append]
  simp only
  rw [List.take_append, List.take_of_length_le hk]
  unfold powerImage
  rw [prun_append, hSm]
  obtain ⟨n', hn'⟩ := op_boundaryP cap Er (toOsOpsP cap b Em).1 none str (prun (PState.init D) (directOpsP Em))
    hinvm hrunSr (k - (toOsOpsP cap b Em).2.length)
  rw [hn', pendW_nil _ hbm, List.nil_append]
  -- sizes of the files along the history
  have hfoem : ∀ i, i ≤ Em.length → FullOrEmpty g.fileBytes
      (applyOsOps (PState.init D).vol (directOps (Em.take i))) := by
    intro i _
    exact hfoeM true _ (CutW.of_take true Em i D)
  obtain ⟨_, σn, _, hpdn, hIm, _⟩ := power_prefix g.fileBytes hfb Em (pd0X l) (PState.init D) (pinv0X hfb hsh) rfl rfl
    σm hpdm hfoem Em.length (Nat.le_refl _)
  rw [List.take_length] at hpdn hIm
  rw [hpdm] at hpdn
  injection hpdn with hpdn
  subst hpdn
  have hvolm : (prun (PState.init D) (directOpsP Em)).vol = applyOsOps D (directOps Em) := prun_vol_direct _ _
  have hfoer : ∀ i, i ≤ Er.length → FullOrEmpty g.fileBytes
      (applyOsOps (prun (PState.init D) (directOpsP Em)).vol (directOps (Er.take i))) := by
    intro i _
    rw [hvolm, ← hDm]
    exact hfoeR true _ (CutW.of_take true Er i _)
  have htk : Er.take n' = Er.take (min n' Er.length) := by
    rw [List.take_eq_take_iff]; simp
  rw [htk]
  obtain ⟨p, _, _, _, _, himg⟩ := power_prefix g.fileBytes hfb Er σm _ hIm hdm hnm σe hpdr hfoer
    (min n' Er.length) (Nat.min_le_right _ _)
  exact ⟨p, by rw [himg, hvolm, hDm]⟩

end MRL.PX
