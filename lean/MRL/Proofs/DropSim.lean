/-
C09 (replay level): the simulation. `L` is the exact replay of the whole journal (the in-memory
queues of the history), `A` the replay of the entries located in the tracked files, `B` the same
replay with one entry erased. Per queue name, relation `T`:
* `A` lags behind `L` only by a prefix of records (entries in deleted files): same next position;
* `B` has every record of `A` that the erased entry did not append, and a next position not above
  `A`'s; if `B` lacks the queue, all of `A`'s records come from the erased entry; if only `B` has
  it (erased `delete`), the queue does not exist in `L` — the next entry on it is a creation,
  whose `ack_position` resets it.
Every entry the API can write in state `L` (`OkQ`) keeps `T`, and `B`'s step never fails.
-/
import MRL.Proofs.DropQueue

namespace MRL.Drop
open MRL Log C05 Rec

/-- `OkEntry` seen from the addressed queue -/
def OkQ (Lq : Option MemQueue) : Entry → Prop
  | .append _ pos recs => (∃ z, Lq = some z) ∧ ∃ pls, pls ≠ [] ∧ recs = numberFrom pos pls
  | .truncate _ _ => ∃ z, Lq = some z
  | .touch _ n => (Lq = none ∧ n = 0) ∨ (∃ z, Lq = some z ∧ z.recs = [] ∧ z.nextPosition = n)
  | .delete _ _ => ∃ z, Lq = some z

theorem okEntry_okQ (lq : MemQueues) (e : Entry) : OkEntry lq e ↔ OkQ (lq.get? e.queue) e := by
  cases e <;> exact Iff.rfl

/-- `A` against `L`: absent, or the same next position and a suffix of the records -/
def Rel2 (Lq Aq : Option MemQueue) : Prop :=
  match Aq with
  | none => True
  | some x => ∃ z, Lq = some z ∧ x.nextPosition = z.nextPosition ∧ plain x <:+ plain z

/-- the three-way relation for one queue name; `Er` = the records the erased entry appended to it -/
def T (Er : List (Nat × Bytes)) (Lq Aq Bq : Option MemQueue) : Prop :=
  Rel2 Lq Aq ∧
  match Aq, Bq with
  | none, none => True
  | some x, none => ∀ r ∈ plain x, r ∈ Er
  | none, some _ => Lq = none
  | some x, some y => y.nextPosition ≤ x.nextPosition ∧ ∀ r ∈ plain x, r ∉ Er → r ∈ plain y

theorem T_self (Er : List (Nat × Bytes)) {Lq Aq : Option MemQueue} (h : Rel2 Lq Aq) : T Er Lq Aq Aq := by
  refine ⟨h, ?_⟩
  cases Aq with
  | none => trivial
  | some x => exact ⟨Nat.le_refl _, fun r hr _ => hr⟩

/-- records the entry appends (to the queue it addresses) -/
def erasedOf : Entry → List (Nat × Bytes)
  | .append _ _ recs => recs
  | _ => []

/-- one entry applied to all three -/
theorem sim_q (Er : List (Nat × Bytes)) (e : Entry) (fL fA : Nat) (Lq Aq Bq Lq' : Option MemQueue)
    (hok : OkQ Lq e) (hL : opQ Lq fL e = some Lq') (hT : T Er Lq Aq Bq)
    (hwL : ∀ z, Lq = some z → QInv z) (hwA : ∀ z, Aq = some z → QInv z) (hwB : ∀ z, Bq = some z → QInv z) :
    ∃ Aq' Bq', opQ Aq fA e = some Aq' ∧ opQ Bq fA e = some Bq' ∧ T Er Lq' Aq' Bq' := by
  obtain ⟨hR, hM⟩ := hT
  cases e with
  | touch q p =>
    simp only [opQ, Option.some.injEq] at hL; subst hL
    refine ⟨_, _, rfl, rfl, ⟨_, rfl, rfl, List.suffix_refl _⟩, Nat.le_refl _, fun r hr _ => hr⟩
  | delete q p =>
    simp only [opQ, Option.some.injEq] at hL; subst hL
    exact ⟨_, _, rfl, rfl, trivial, trivial⟩
  | truncate q p =>
    obtain ⟨z, rfl⟩ := hok
    simp only [opQ, Option.map_some, Option.some.injEq] at hL; subst hL
    have hz := truncate_plain z p (hwL z rfl)
    cases Aq with
    | none =>
      cases Bq with
      | none => exact ⟨_, _, rfl, rfl, trivial, trivial⟩
      | some y => simp only at hM; cases hM
    | some x =>
      obtain ⟨z', hz', hn, hs⟩ := hR
      cases hz'
      have hx := truncate_plain x p (hwA x rfl)
      have hR' : Rel2 (some (z.truncateHead p).1) (some (x.truncateHead p).1) :=
        ⟨_, rfl, by rw [hx.2, hz.2, hn], by rw [hx.1, hz.1]; exact hs.filter _⟩
      cases Bq with
      | none =>
        refine ⟨_, _, rfl, rfl, hR', ?_⟩
        intro r hr
        rw [hx.1] at hr
        exact hM r (List.mem_filter.mp hr).1
      | some y =>
        have hy := truncate_plain y p (hwB y rfl)
        refine ⟨_, _, rfl, rfl, hR', ?_, ?_⟩
        · rw [hy.2, hx.2]; have := hM.1; omega
        · intro r hr hne
          rw [hx.1] at hr; rw [hy.1]
          obtain ⟨h1, h2⟩ := List.mem_filter.mp hr
          exact List.mem_filter.mpr ⟨hM.2 r h1 hne, h2⟩
  | append q pos recs =>
    obtain ⟨⟨z, rfl⟩, pls, hne, rfl⟩ := hok
    simp only [opQ, Option.getD_some] at hL
    cases hz : appendAll z fL (numberFrom pos pls) with
    | none => rw [hz] at hL; cases hL
    | some z' =>
      rw [hz] at hL
      simp only [Option.map_some, Option.some.injEq] at hL; subst hL
      have hzle := appendAll_le hne hz
      obtain ⟨z2, hz2, hzp, hzn⟩ := appendAll_ok z fL pos pls (hwL z rfl) hzle hne
      rw [hz] at hz2; cases hz2
      -- a queue created by this very append (in `A` or `B`)
      obtain ⟨w, hw, hwp, hwn⟩ := appendAll_ok (MemQueue.withNextPosition pos) fA pos pls
        (QInv_withNextPosition pos) (Nat.le_refl _) hne
      rw [plain_wnp, List.nil_append] at hwp
      cases Aq with
      | none =>
        cases Bq with
        | some y => simp only at hM; cases hM
        | none =>
          refine ⟨some w, some w, by simp [opQ, hw], by simp [opQ, hw], ⟨_, rfl, by rw [hwn, hzn], ?_⟩,
            Nat.le_refl _, fun r hr _ => hr⟩
          rw [hwp, hzp]; exact List.suffix_append _ _
      | some x =>
        obtain ⟨z0, hz0, hn, hs⟩ := hR
        cases hz0
        obtain ⟨x', hx', hxp, hxn⟩ := appendAll_ok x fA pos pls (hwA x rfl) (by omega) hne
        have hR' : Rel2 (some z') (some x') := by
          refine ⟨_, rfl, by rw [hxn, hzn], ?_⟩
          rw [hxp, hzp]
          obtain ⟨t, ht⟩ := hs
          exact ⟨t, by rw [← ht, List.append_assoc]⟩
        cases Bq with
        | none =>
          refine ⟨some x', some w, by simp [opQ, hx'], by simp [opQ, hw], hR', by rw [hwn, hxn]; exact Nat.le_refl _, ?_⟩
          intro r hr hnot
          rw [hxp] at hr; rw [hwp]
          rcases List.mem_append.mp hr with h | h
          · exact absurd (hM r h) hnot
          · exact h
        | some y =>
          obtain ⟨y', hy', hyp, hyn⟩ := appendAll_ok y fA pos pls (hwB y rfl) (by have := hM.1; omega) hne
          refine ⟨some x', some y', by simp [opQ, hx'], by simp [opQ, hy'], hR', by rw [hyn, hxn]; exact Nat.le_refl _, ?_⟩
          intro r hr hnot
          rw [hxp] at hr; rw [hyp]
          rcases List.mem_append.mp hr with h | h
          · exact List.mem_append_left _ (hM.2 r h hnot)
          · exact List.mem_append_right _ h

/-- the erased entry: applied to `L` and `A`, not to `B` (which was equal to `A`) -/
theorem erase_q (e : Entry) (fL fA : Nat) (Lq Aq Lq' : Option MemQueue)
    (hok : OkQ Lq e) (hL : opQ Lq fL e = some Lq') (hR : Rel2 Lq Aq)
    (hwL : ∀ z, Lq = some z → QInv z) (hwA : ∀ z, Aq = some z → QInv z) :
    ∃ Aq', opQ Aq fA e = some Aq' ∧ T (erasedOf e) Lq' Aq' Aq := by
  cases e with
  | touch q p =>
    simp only [opQ, Option.some.injEq] at hL; subst hL
    refine ⟨_, rfl, ⟨_, rfl, rfl, List.suffix_refl _⟩, ?_⟩
    cases Aq with
    | none => intro r hr; cases hr
    | some x =>
      obtain ⟨z, hz, hn, hs⟩ := hR
      subst hz
      rcases hok with ⟨h, _⟩ | ⟨z', hz', he, hnx⟩
      · cases h
      · cases hz'
        refine ⟨by rw [hn, hnx]; exact Nat.le_refl _, fun r hr _ => by cases hr⟩
  | delete q p =>
    simp only [opQ, Option.some.injEq] at hL; subst hL
    refine ⟨_, rfl, trivial, ?_⟩
    cases Aq with
    | none => trivial
    | some x => rfl
  | truncate q p =>
    obtain ⟨z, rfl⟩ := hok
    simp only [opQ, Option.map_some, Option.some.injEq] at hL; subst hL
    have hz := truncate_plain z p (hwL z rfl)
    cases Aq with
    | none => exact ⟨_, rfl, trivial, trivial⟩
    | some x =>
      obtain ⟨z', hz', hn, hs⟩ := hR
      cases hz'
      have hx := truncate_plain x p (hwA x rfl)
      refine ⟨_, rfl, ⟨_, rfl, by rw [hx.2, hz.2, hn], by rw [hx.1, hz.1]; exact hs.filter _⟩, ?_, ?_⟩
      · rw [hx.2]; omega
      · intro r hr _
        rw [hx.1] at hr
        exact (List.mem_filter.mp hr).1
  | append q pos recs =>
    obtain ⟨⟨z, rfl⟩, pls, hne, rfl⟩ := hok
    simp only [opQ, Option.getD_some] at hL
    cases hz : appendAll z fL (numberFrom pos pls) with
    | none => rw [hz] at hL; cases hL
    | some z' =>
      rw [hz] at hL
      simp only [Option.map_some, Option.some.injEq] at hL; subst hL
      have hzle := appendAll_le hne hz
      obtain ⟨z2, hz2, hzp, hzn⟩ := appendAll_ok z fL pos pls (hwL z rfl) hzle hne
      rw [hz] at hz2; cases hz2
      cases Aq with
      | none =>
        obtain ⟨w, hw, hwp, hwn⟩ := appendAll_ok (MemQueue.withNextPosition pos) fA pos pls
          (QInv_withNextPosition pos) (Nat.le_refl _) hne
        rw [plain_wnp, List.nil_append] at hwp
        refine ⟨some w, by simp [opQ, hw], ⟨_, rfl, by rw [hwn, hzn], ?_⟩, ?_⟩
        · rw [hwp, hzp]; exact List.suffix_append _ _
        · intro r hr; rw [hwp] at hr; exact hr
      | some x =>
        obtain ⟨z0, hz0, hn, hs⟩ := hR
        cases hz0
        obtain ⟨x', hx', hxp, hxn⟩ := appendAll_ok x fA pos pls (hwA x rfl) (by omega) hne
        refine ⟨some x', by simp [opQ, hx'], ⟨_, rfl, by rw [hxn, hzn], ?_⟩, by rw [hxn]; omega, ?_⟩
        · rw [hxp, hzp]
          obtain ⟨t, ht⟩ := hs
          exact ⟨t, by rw [← ht, List.append_assoc]⟩
        · intro r hr hnot
          rw [hxp] at hr
          rcases List.mem_append.mp hr with h | h
          · exact h
          · exact absurd h hnot

/-! ### the maps -/

/-- the invariant on the three maps; `nx` is the queue the erased entry addresses -/
def Inv3 (Er : List (Nat × Bytes)) (nx : Bytes) (L A B : MemQueues) : Prop :=
  QsWF L ∧ QsWF A ∧ QsWF B ∧ ∀ n, T (if n = nx then Er else []) (L.get? n) (A.get? n) (B.get? n)

theorem inv3_step {Er : List (Nat × Bytes)} {nx : Bytes} {L A B L' : MemQueues} {e : Entry} {fL fA : Nat}
    (hok : OkEntry L e) (hL : replayEntry L fL e = some L') (hI : Inv3 Er nx L A B) :
    ∃ A' B', replayEntry A fA e = some A' ∧ replayEntry B fA e = some B' ∧ Inv3 Er nx L' A' B' := by
  obtain ⟨wL, wA, wB, hT⟩ := hI
  obtain ⟨hL1, hL2⟩ := replayEntry_opQ hL
  obtain ⟨Aq', Bq', hA, hB, hT'⟩ := sim_q _ e fL fA _ _ _ _ ((okEntry_okQ L e).mp hok) hL1 (hT e.queue)
    (fun z hz => wL _ z hz) (fun z hz => wA _ z hz) (fun z hz => wB _ z hz)
  obtain ⟨A', hA', hA1, hA2⟩ := opQ_replayEntry hA
  obtain ⟨B', hB', hB1, hB2⟩ := opQ_replayEntry hB
  refine ⟨A', B', hA', hB', replayEntry_wf wL hL, replayEntry_wf wA hA', replayEntry_wf wB hB', ?_⟩
  intro n
  by_cases hn : n = e.queue
  · subst hn; rw [hA1, hB1]; exact hT'
  · rw [hL2 n hn, hA2 n hn, hB2 n hn]; exact hT n

theorem inv3_erase {L A L' : MemQueues} {e : Entry} {fL fA : Nat}
    (hok : OkEntry L e) (hL : replayEntry L fL e = some L') (hI : Inv3 (erasedOf e) e.queue L A A) :
    ∃ A', replayEntry A fA e = some A' ∧ Inv3 (erasedOf e) e.queue L' A' A := by
  obtain ⟨wL, wA, _, hT⟩ := hI
  obtain ⟨hL1, hL2⟩ := replayEntry_opQ hL
  obtain ⟨Aq', hA, hT'⟩ := erase_q e fL fA _ _ _ ((okEntry_okQ L e).mp hok) hL1 (hT e.queue).1
    (fun z hz => wL _ z hz) (fun z hz => wA _ z hz)
  obtain ⟨A', hA', hA1, hA2⟩ := opQ_replayEntry hA
  refine ⟨A', hA', replayEntry_wf wL hL, replayEntry_wf wA hA', wA, ?_⟩
  intro n
  by_cases hn : n = e.queue
  · subst hn; rw [hA1]; simpa using hT'
  · rw [hL2 n hn, hA2 n hn]; exact hT n

/-! ### lists of entries, all located in tracked files -/

theorem replayJ_cons_ge (F : Nat) (qs : MemQueues) (j : JE) (js : List JE) (h : F ≤ j.loc) :
    replayJ F qs (j :: js) = (replayEntry qs (max j.attr F) j.e).bind fun qs' => replayJ F qs' js := by
  simp only [replayJ]; rw [if_neg (by omega)]

theorem inv3_run {Er : List (Nat × Bytes)} {nx : Bytes} {F : Nat} {L L' : MemQueues} {js : List JE}
    (hrun : Run L js L') : ∀ {A B : MemQueues}, (∀ j ∈ js, F ≤ j.loc) → Inv3 Er nx L A B →
    ∃ A' B', replayJ F A js = some A' ∧ replayJ F B js = some B' ∧ Inv3 Er nx L' A' B' := by
  induction hrun with
  | nil => intro A B _ hI; exact ⟨A, B, rfl, rfl, hI⟩
  | @cons lq lq' lq'' j js hok hr _ ih =>
    intro A B hloc hI
    obtain ⟨A1, B1, hA1, hB1, hI1⟩ := inv3_step (fA := max j.attr F) hok hr hI
    obtain ⟨A', B', hA', hB', hI'⟩ := ih (fun j' hj' => hloc j' (List.mem_cons_of_mem _ hj')) hI1
    refine ⟨A', B', ?_, ?_, hI'⟩
    · rw [replayJ_cons_ge F A j js (hloc j List.mem_cons_self), hA1]; exact hA'
    · rw [replayJ_cons_ge F B j js (hloc j List.mem_cons_self), hB1]; exact hB'

theorem replayJ_skip (F : Nat) (qs : MemQueues) : ∀ js : List JE, (∀ j ∈ js, j.loc < F) →
    replayJ F qs js = some qs := by
  intro js
  induction js with
  | nil => intro _; rfl
  | cons j js ih =>
    intro h
    simp only [replayJ]
    rw [if_pos (h j List.mem_cons_self)]
    exact ih (fun j' hj' => h j' (List.mem_cons_of_mem _ hj'))

end MRL.Drop
