/-
A restart of the real log while collected files are still on the disk (their unlinks pending).

`virt_relog`: the real log re-read from the real disk `D`, put in front of the collected files `lo`,
satisfies `CInvA` on the disk `Dv` that still holds them — the reader of `Dv` ends exactly where the
reader of `D` ends (`PDA.recoverPre_suffix`), its description of `Dv` (`L.read_diskX`) is the one
needed, and its queues have the abstract state of the real ones.
`virt_reopenA`: the whole event (`ensureLen` on the first real file, the GC pass) up to its first
`fsync(dir)`.
-/
import MRL.Proofs.PDACall
import MRL.Proofs.PDAScan

namespace MRL.PDA
open MRL Codec Consts G H Torn Log Buf C05 C01J L PX PD PDC

theorem dshape_of_cinva {g : Geom} {l : Log} {J : List JE} {D : Image} (h : CInvA g l J D) :
    DShape g.fileBytes l D := by
  obtain ⟨init, t, x, res, ais, lead, gs, hx⟩ := h.disk
  have hT := hx.tape
  have hfull := tapeR_chunks hT
  generalize hcs : init ++ [t ++ (res ++ zeros (g.fileBytes - l.off - res.length))] = cs at hfull
  have hlen : cs.length = init.length + 1 := by rw [← hcs]; simp
  have himg : D = imgOf (l.files.headD 0) cs ++ xtra x (l.files.headD 0 + init.length + 1) := by
    rw [← hcs]; exact hT.img
  have hcur := hT.cur
  refine ⟨?_, h.files, ?_, ?_, ?_⟩
  · rw [himg, List.map_append, imgOf_keys, PX.xtra_map_keys, hlen]
    conv => lhs; rw [hT.files]
    cases x
    · simp
    · simp only [if_true]
      rw [show init.length + 1 + 1 = (init.length + 1) + 1 from rfl, ← range'_snoc]
      congr 2
  · intro kv hkv hle
    rw [himg] at hkv
    rcases List.mem_append.mp hkv with hkv | hkv
    · exact hfull _ (P.imgOf_values _ _ kv hkv)
    · exfalso
      exact xtra_keys x _ kv.1 (by omega) kv hkv rfl
  · intro kv hkv hlt
    rw [himg] at hkv
    rcases List.mem_append.mp hkv with hkv | hkv
    · have := (imgOf_key_bounds _ _ kv hkv).2
      omega
    · cases x
      · cases hkv
      · simp only [xtra, if_true, List.mem_singleton] at hkv
        rw [hkv]
  · intro kv hkv hlt
    rw [himg] at hkv
    rcases List.mem_append.mp hkv with hkv | hkv
    · have := (imgOf_key_bounds _ _ kv hkv).2
      omega
    · cases x
      · cases hkv
      · simp only [xtra, if_true, List.mem_singleton] at hkv
        rw [hkv]; simp only; omega

/-! ### the disk that still holds the collected files -/

/-- the files `lo` come first on the disk -/
theorem split_filter (lo : List Nat) : ∀ (pre : List Nat) (Dv : Image) (rest : List Nat),
    Dv.map (·.1) = pre ++ rest → (∀ k ∈ pre, k ∈ lo) → (∀ k ∈ rest, k ∉ lo) →
    Dv = Dv.filter (fun kv => lo.contains kv.1) ++ Dv.filter (fun kv => !lo.contains kv.1) ∧
    (Dv.filter (fun kv => lo.contains kv.1)).map (·.1) = pre := by
  intro pre
  induction pre with
  | nil =>
    intro Dv rest hk _ hr
    have hall : ∀ kv ∈ Dv, lo.contains kv.1 = false := by
      intro kv hkv
      have : kv.1 ∈ rest := by rw [List.nil_append] at hk; rw [← hk]; exact List.mem_map.mpr ⟨kv, hkv, rfl⟩
      have := hr _ this
      simpa using this
    have h1 : Dv.filter (fun kv => lo.contains kv.1) = [] := by
      rw [List.filter_eq_nil_iff]; intro kv hkv; rw [hall kv hkv]; simp
    have h2 : Dv.filter (fun kv => !lo.contains kv.1) = Dv := by
      rw [List.filter_eq_self]; intro kv hkv; rw [hall kv hkv]; rfl
    rw [h1, h2]; exact ⟨rfl, rfl⟩
  | cons a pre ih =>
    intro Dv rest hk hp hr
    cases Dv with
    | nil => simp at hk
    | cons kv Dv' =>
      simp only [List.map_cons, List.cons_append, List.cons.injEq] at hk
      obtain ⟨hka, hk'⟩ := hk
      have hc : lo.contains kv.1 = true := by
        rw [hka]; simpa using hp a List.mem_cons_self
      obtain ⟨i1, i2⟩ := ih Dv' rest hk' (fun k hk => hp k (List.mem_cons_of_mem _ hk)) hr
      simp only [List.filter_cons, hc, if_true, Bool.not_true, Bool.false_eq_true, if_false, List.cons_append,
        List.map_cons]
      exact ⟨by rw [← i1], by rw [i2, hka]⟩

theorem prepare_id (g : Geom) (f : Nat) (c : Bytes) (rest : Image) (h : g.B ≤ c.length) :
    (prepareImage g ((f, c) :: rest)).1 = (f, c) :: rest := by
  simp only [prepareImage]
  rw [if_neg (by omega)]

/-- the first file of a disk described by `DShape` is full: `open` does not touch the image -/
theorem prepare_dshape (g : Geom) {l : Log} {D : Image} (h : DShape g.fileBytes l D) : (prepareImage g D).1 = D := by
  have hBle := B_le_fileBytes g
  cases D with
  | nil =>
    have := h.fw.cur_mem
    rw [h.files] at this; cases this
  | cons kv rest =>
    obtain ⟨f, c⟩ := kv
    apply prepare_id
    have hle : f ≤ l.cur := by
      have h1 := head_le_of_mem h.fw.sorted h.fw.cur_mem
      rw [h.files] at h1
      exact h1
    have := h.full (f, c) List.mem_cons_self hle
    simp only at this
    omega

theorem virt_eq (lo : List Nat) (lp lpv : Log) (h1 : lpv.files = lo ++ lp.files) (h2 : lpv.cur = lp.cur)
    (h3 : lpv.off = lp.off) : virt lo lp = { lpv with queues := lp.queues, policy := lp.policy } := by
  cases lp; cases lpv
  simp only at h1 h2 h3
  subst h1; subst h2; subst h3
  rfl

/-- **the real log re-read from the real disk, in front of the collected files** -/
theorem virt_relog (g : Geom) (hB : g.B ≤ 65542) (lo : List Nat) {l : Log} {J Jv : List JE} {D Dv : Image}
    (hc : CInvX g l J D) (hw : ∀ j ∈ J, C07.WF j.e)
    (hv : CInvA g (virt lo l) Jv Dv) (hwv : ∀ j ∈ Jv, C07.WF j.e)
    (hrel : D = Dv.filter (fun kv => !lo.contains kv.1))
    (policy : Policy) {lp : Log} {e0 : List Effect} {io : Nat}
    (hrec : recoverPre g D policy none = .ok (lp, e0, io)) :
    (∃ Jv', CInvA g (virt lo lp) Jv' Dv ∧ (∀ j ∈ Jv', C07.WF j.e)) ∧ (∀ f ∈ lo, f ≤ lp.cur) ∧
      AbsEq lp.queues l.queues := by
  have hfb := fileBytes_pos g
  -- the two readers
  obtain ⟨Jv', lpv, iov, hrecv, hcv, hwv', habv, _, _⟩ := cinva_open g hB hv hwv policy
  obtain ⟨J', lp', io', hrec', hc', _, hab', _, _⟩ := open_okX g hB hc hw policy
  rw [hrec] at hrec'
  injection hrec' with hrec'
  simp only [Prod.mk.injEq] at hrec'
  obtain ⟨hlp, _, _⟩ := hrec'
  subst hlp
  -- shapes
  have dV := dshape_of_cinva hv
  have dVp := dshape_of_cinvx hcv
  have dR := dshape_of_cinvx hc
  have dRp := dshape_of_cinvx hc'
  obtain ⟨hfv, hcurv⟩ := dshape_same hfb dV dVp
  obtain ⟨hfr, hcurr⟩ := dshape_same hfb dR dRp
  have hcm : l.cur ∈ l.files := hc.jinv.h.files.cur_mem
  have hsorted : (lo ++ l.files).Pairwise (· < ·) := hv.files.sorted
  have hlt : ∀ f ∈ lo, ∀ k ∈ l.files, f < k := (List.pairwise_append.mp hsorted).2.2
  have hnotin : ∀ k ∈ l.files, k ∉ lo := fun k hk hm => Nat.lt_irrefl _ (hlt k hm k hk)
  -- the disk splits
  have hkeys : Dv.map (·.1) = lo ++ l.files := dV.files.symm
  obtain ⟨hsplit, hLo⟩ := split_filter lo lo Dv l.files hkeys (fun _ h => h) hnotin
  rw [← hrel] at hsplit
  generalize hLoE : Dv.filter (fun kv => lo.contains kv.1) = Lo at hsplit hLo
  -- the two readers end at the same place
  have hpv : (prepareImage g (Lo ++ D)).1 = Lo ++ D := by rw [← hsplit]; exact prepare_dshape g dV
  have hpr : (prepareImage g D).1 = D := prepare_dshape g dR
  rw [hsplit] at hrecv
  obtain ⟨hcur, hoff⟩ := recoverPre_suffix g Lo D policy policy hpv hpr hrecv hrec (by
    rw [hLo, hcurv]
    exact hnotin _ hcm)
  have hvcur : (virt lo l).cur = l.cur := rfl
  have hfiles : lpv.files = lo ++ lp.files := by rw [hfv, hfr]; rfl
  have hEq : virt lo lp = { lpv with queues := lp.queues, policy := lp.policy } := virt_eq lo lp lpv hfiles hcur hoff
  have habq : AbsEq lpv.queues lp.queues := habv.trans hab'.symm
  refine ⟨⟨Jv', ?_, hwv'⟩, ?_, hab'⟩
  · rw [hEq]
    obtain ⟨qs, r1, r2, r3⟩ := hcv.jinv.rep
    refine ⟨⟨hcv.jinv.h.files.sorted, hcv.jinv.h.files.cur_mem⟩, Inv.of_queues (l := lp) rfl hc'.jinv.h.inv,
      hcv.jinv.chunk, ⟨qs, r1, (AbsEq.of_qsEquiv r2).trans habq, r3⟩, ?_⟩
    obtain ⟨init, t, x, res, ais, lead, gs, hx⟩ := hcv.disk
    exact ⟨init, t, x, res, ais, lead, gs, hx.congr rfl rfl rfl⟩
  · intro f hf
    rw [← hcur, hcurv]
    exact Nat.le_of_lt (hlt f hf _ hcm)

end MRL.PDA
