/-
The reader over a stream spread over several files: `scanB` over the blocks of a stream
`… ++ layout fs ++ zeros` returns the frames `fs`, each tagged with the file its header lies in,
and stops at the writer's position (normalised to the next block when fewer than 7 bytes remain
in the block and a next block exists).
-/
import MRL.Proofs.GLayout
import MRL.Proofs.CodecRead

namespace MRL.G
open MRL Codec Consts

/-- block `k` of the stream `S` held by files `F, F+1, …` of `g.K` blocks each -/
def blkAt (g : Geom) (F : Nat) (S : Bytes) (k : Nat) : Blk :=
  ⟨F + k / g.K, k % g.K, (S.drop (k * g.B)).take g.B, if k % g.K = 0 then 3 else 1⟩

def blksFrom (g : Geom) (F : Nat) (S : Bytes) (k m : Nat) : List Blk :=
  (List.range' k m).map (blkAt g F S)

theorem blksFrom_succ (g : Geom) (F : Nat) (S : Bytes) (k m : Nat) :
    blksFrom g F S k (m + 1) = blkAt g F S k :: blksFrom g F S (k + 1) m := by
  simp [blksFrom, List.range'_succ]

theorem blkAt_data_drop (g : Geom) (F : Nat) (S : Bytes) (k c : Nat) :
    (blkAt g F S k).data.drop c = (S.drop (k * g.B + c)).take (g.B - c) := by
  simp only [blkAt]
  rw [List.drop_take, List.drop_drop]

def evsOf (afs : List TFrm) : List RdEv := afs.map fun a => RdEv.frame a.1 a.2.1 a.2.2

/-- where the reader stops when the written part of the stream ends at `E` (`N` blocks) -/
def EndOK (g : Geom) (F N E : Nat) (e : EndPos) : Prop :=
  ∃ ke ce, e = ⟨F + ke / g.K, ke % g.K, ce⟩ ∧ ke < N ∧ (ce < g.B ∨ (ce = g.B ∧ ke + 1 = N)) ∧
    ke * g.B + ce = (if g.B - E % g.B < 7 ∧ hdrPos g E < N * g.B then hdrPos g E else E)

theorem scanB_short_nil (g : Geom) (cur : Blk) (c : Nat) (h : g.B - c < 7) :
    scanB g cur c [] = ([], ⟨cur.file, cur.idx, c⟩) := by
  unfold scanB
  simp [scanBlock, scanBlockFrom_short g _ c h, tagEvs]

theorem pos_mod (g : Geom) (k c : Nat) (hc : c < g.B) : (k * g.B + c) % g.B = c := mod_of_pos g k c hc

theorem pos_div (g : Geom) (k c : Nat) (hc : c < g.B) : (k * g.B + c) / g.B = k := by
  rw [Nat.add_comm, Nat.add_mul_div_right _ _ (by omega), Nat.div_eq_of_lt hc, Nat.zero_add]

theorem pos_file (g : Geom) (k c : Nat) (hc : c < g.B) : (k * g.B + c) / g.fileBytes = k / g.K := by
  unfold Geom.fileBytes
  rw [← Nat.div_div_eq_div_mul, pos_div g k c hc]

theorem hdrPos_good (g : Geom) (k c : Nat) (hc : c < g.B) (h : 7 ≤ g.B - c) :
    hdrPos g (k * g.B + c) = k * g.B + c := by
  unfold hdrPos; rw [pos_mod g k c hc, if_neg (by omega)]

theorem hdrPos_pad (g : Geom) (k c : Nat) (hc : c < g.B) (h : g.B - c < 7) :
    hdrPos g (k * g.B + c) = (k + 1) * g.B + 0 := by
  unfold hdrPos; rw [pos_mod g k c hc, if_pos h, Nat.add_mul, Nat.one_mul]; omega

theorem tagFrom_hdrPos (g : Geom) (F p : Nat) (fs : List Frm) (hne : fs ≠ []) :
    tagFrom g F (hdrPos g p) fs = tagFrom g F p fs := by
  cases fs with
  | nil => exact absurd rfl hne
  | cons fr fs => simp only [tagFrom, hdrPos_idem, nextPos_hdrPos]

theorem layout_ne_nil (g : Geom) (c : Nat) (fr : Frm) (fs : List Frm) :
    0 < (layoutBufs g c (fr :: fs)).flatten.length := by
  simp only [layoutBufs, frameWrites]
  split <;> simp [length_encodeFrame] <;> omega

/-- **reading a multi-file stream** -/
theorem readS_layout (g : Geom) (hB : g.B ≤ 65542) (F : Nat) (S : Bytes) (N : Nat)
    (hS : S.length = N * g.B) (fs : List Frm) :
    ∀ (k c z : Nat), k < N → c < g.B → Fits g c fs →
      S.drop (k * g.B + c) = (layoutBufs g c fs).flatten ++ zeros z →
      ∃ e, scanB g (blkAt g F S k) c (blksFrom g F S (k + 1) (N - (k + 1))) =
          (evsOf (tagFrom g F (k * g.B + c) fs), e) ∧
        EndOK g F N (k * g.B + c + totalLen (layoutBufs g c fs)) e := by
  have hB7 := Bpos g
  induction fs with
  | nil =>
    intro k c z hk hc _ hT
    simp only [layoutBufs, List.flatten_nil, List.nil_append, totalLen_nil, Nat.add_zero, tagFrom,
      evsOf, List.map_nil] at hT ⊢
    have hz : z = N * g.B - (k * g.B + c) := by
      have := congrArg List.length hT
      simp only [List.length_drop, length_zeros, hS] at this
      omega
    have hkB : (k + 1) * g.B ≤ N * g.B := Nat.mul_le_mul_right _ hk
    rw [Nat.add_mul, Nat.one_mul] at hkB
    by_cases h7 : 7 ≤ g.B - c
    · refine ⟨⟨F + k / g.K, k % g.K, c⟩, ?_, k, c, rfl, hk, Or.inl hc, ?_⟩
      · have hd : (blkAt g F S k).data.drop c = zeros (g.B - c) ++ [] := by
          rw [blkAt_data_drop, hT, take_zeros, List.append_nil]
          congr 1; omega
        exact scanB_zeros g _ c _ _ [] hd h7 (by omega)
      · rw [pos_mod g k c hc, if_neg (by omega)]
    · have hbad : g.B - c < 7 := by omega
      by_cases hk1 : k + 1 < N
      · obtain ⟨m, hm⟩ : ∃ m, N - (k + 1) = m + 1 := ⟨N - (k + 1) - 1, by omega⟩
        rw [hm, blksFrom_succ, scanB_skip g _ _ c _ hbad]
        have hk2 : (k + 2) * g.B ≤ N * g.B := Nat.mul_le_mul_right _ hk1
        have e2 : (k + 2) * g.B = k * g.B + g.B + g.B := by
          rw [Nat.add_mul]; omega
        refine ⟨⟨F + (k + 1) / g.K, (k + 1) % g.K, 0⟩, ?_, k + 1, 0, rfl, hk1, Or.inl (by omega), ?_⟩
        · have hd : (blkAt g F S (k + 1)).data.drop 0 = zeros g.B ++ [] := by
            rw [blkAt_data_drop]
            have e1 : (k + 1) * g.B + 0 = (k * g.B + c) + (g.B - c) := by
              rw [Nat.add_mul, Nat.one_mul]; omega
            rw [e1, ← List.drop_drop, hT, drop_zeros, take_zeros, List.append_nil]
            congr 1; omega
          exact scanB_zeros g _ 0 _ _ [] hd (by omega) (by omega)
        · rw [pos_mod g k c hc, hdrPos_pad g k c hc hbad]
          have : (k + 1) * g.B + 0 < N * g.B := by rw [Nat.add_mul, Nat.one_mul]; omega
          rw [if_pos ⟨hbad, this⟩]
      · have hN : N - (k + 1) = 0 := by omega
        rw [hN]
        refine ⟨⟨F + k / g.K, k % g.K, c⟩, scanB_short_nil g _ c hbad, k, c, rfl, hk, Or.inl hc, ?_⟩
        rw [pos_mod g k c hc, hdrPos_pad g k c hc hbad]
        have hNk : N = k + 1 := by omega
        have : ¬ ((k + 1) * g.B + 0 < N * g.B) := by rw [hNk]; omega
        rw [if_neg (fun h => this h.2)]
  | cons fr fs ih =>
    obtain ⟨t, p⟩ := fr
    -- the frame is right at the cursor
    have good : ∀ (k c z : Nat), k < N → c < g.B → 7 ≤ g.B - c → Fits g c ((t, p) :: fs) →
        S.drop (k * g.B + c) = (layoutBufs g c ((t, p) :: fs)).flatten ++ zeros z →
        ∃ e, scanB g (blkAt g F S k) c (blksFrom g F S (k + 1) (N - (k + 1))) =
            (evsOf (tagFrom g F (k * g.B + c) ((t, p) :: fs)), e) ∧
          EndOK g F N (k * g.B + c + totalLen (layoutBufs g c ((t, p) :: fs))) e := by
      intro k c z hk hc h7 hf hT
      have hf1 : p.length ≤ g.B - c - 7 := by
        have := hf.1; simpa [maxFrameLen, HEADER_LEN, h7] using this
      have hfw : frameWrites g c t p = [encodeFrame t p] := by
        simp [frameWrites, HEADER_LEN]; omega
      have hfe : frameEndCursor g c p.length = adv g c (7 + p.length) := by
        simp [frameEndCursor, HEADER_LEN]; omega
      have hf2 : Fits g (adv g c (7 + p.length)) fs := by have := hf.2; rwa [hfe] at this
      simp only [layoutBufs, hfw, hfe, List.cons_append, List.nil_append, List.flatten_cons,
        totalLen_cons, length_encodeFrame, List.append_assoc] at hT ⊢
      have htag : tagFrom g F (k * g.B + c) ((t, p) :: fs) =
          (F + k / g.K, (t, p)) :: tagFrom g F (k * g.B + (c + 7 + p.length)) fs := by
        simp only [tagFrom, nextPos, hdrPos_good g k c hc h7, pos_file g k c hc]
        congr 2; omega
      rw [htag]
      have hev : ∀ rest : List TFrm, evsOf ((F + k / g.K, (t, p)) :: rest) =
          RdEv.frame (F + k / g.K) t p :: evsOf rest := fun _ => rfl
      rw [hev]
      -- the frame
      have hstep : ∀ rest, scanB g (blkAt g F S k) c rest =
          (RdEv.frame (F + k / g.K) t p :: (scanB g (blkAt g F S k) (c + 7 + p.length) rest).1,
            (scanB g (blkAt g F S k) (c + 7 + p.length) rest).2) := by
        intro rest
        have hd : (blkAt g F S k).data.drop c = encodeFrame t p ++
            (((layoutBufs g (adv g c (7 + p.length)) fs).flatten ++ zeros z).take (g.B - c - (7 + p.length))) := by
          rw [blkAt_data_drop, hT, List.take_append,
            List.take_of_length_le (by rw [length_encodeFrame]; omega), length_encodeFrame]
        exact scanB_frame g (blkAt g F S k) c rest t p _ hd (by omega) (by omega)
      have hTd : S.drop (k * g.B + (c + 7 + p.length)) =
          (layoutBufs g (adv g c (7 + p.length)) fs).flatten ++ zeros z := by
        have : k * g.B + (c + 7 + p.length) = (k * g.B + c) + (7 + p.length) := by omega
        rw [this, ← List.drop_drop, hT, List.drop_left' (length_encodeFrame t p)]
      by_cases hend : c + (7 + p.length) = g.B
      · have hadv : adv g c (7 + p.length) = 0 := by simp [adv, hend]
        rw [hadv] at hTd hf2 ⊢
        have hpos : k * g.B + (c + 7 + p.length) = (k + 1) * g.B + 0 := by
          rw [Nat.add_mul, Nat.one_mul]; omega
        by_cases hk1 : k + 1 < N
        · obtain ⟨m, hm⟩ : ∃ m, N - (k + 1) = m + 1 := ⟨N - (k + 1) - 1, by omega⟩
          rw [hpos] at hTd
          obtain ⟨e, h1, h2⟩ := ih (k + 1) 0 z hk1 (by omega) hf2 hTd
          refine ⟨e, ?_, ?_⟩
          · rw [hstep, hm, blksFrom_succ, scanB_skip g _ _ (c + 7 + p.length) _ (by omega)]
            have hm2 : m = N - (k + 1 + 1) := by omega
            rw [hm2, h1, hpos]
          · have e3 : k * g.B + c + (7 + p.length + totalLen (layoutBufs g 0 fs)) =
                (k + 1) * g.B + 0 + totalLen (layoutBufs g 0 fs) := by
              rw [Nat.add_mul, Nat.one_mul]; omega
            rw [e3]; exact h2
        · -- the frame ends the stream
          have hNk : N = k + 1 := by omega
          have hfs : fs = [] := by
            cases fs with
            | nil => rfl
            | cons f2 fs2 =>
              exfalso
              have h1 := congrArg List.length hTd
              have h2 := layout_ne_nil g 0 f2 fs2
              rw [List.length_drop, hS, hNk, hpos, List.length_append] at h1
              omega
          subst hfs
          have hN0 : N - (k + 1) = 0 := by omega
          refine ⟨⟨F + k / g.K, k % g.K, c + 7 + p.length⟩, ?_, k, c + 7 + p.length, rfl, hk,
            Or.inr ⟨by omega, by omega⟩, ?_⟩
          · rw [hstep, hN0]
            simp only [blksFrom, List.range'_zero, List.map_nil]
            rw [scanB_short_nil g _ _ (by omega)]
            simp [tagFrom, evsOf, blkAt]
          · have e4 : k * g.B + c + (7 + p.length) = (k + 1) * g.B := by
              rw [Nat.add_mul, Nat.one_mul]; omega
            simp only [layoutBufs, totalLen_nil, Nat.add_zero, List.flatten_nil, e4, Nat.mul_mod_left]
            rw [if_neg (by omega)]
            rw [Nat.add_mul, Nat.one_mul]; omega
      · have hadv : adv g c (7 + p.length) = c + 7 + p.length := by simp [adv, hend]; omega
        rw [hadv] at hTd hf2 ⊢
        obtain ⟨e, h1, h2⟩ := ih k (c + 7 + p.length) z hk (by omega) hf2 hTd
        refine ⟨e, ?_, ?_⟩
        · rw [hstep, h1]
        · have e3 : k * g.B + c + (7 + p.length + totalLen (layoutBufs g (c + 7 + p.length) fs)) =
              k * g.B + (c + 7 + p.length) + totalLen (layoutBufs g (c + 7 + p.length) fs) := by omega
          rw [e3]; exact h2
    intro k c z hk hc hf hT
    by_cases h7 : 7 ≤ g.B - c
    · exact good k c z hk hc h7 hf hT
    · -- padding, then the frame at cursor 0 of the next block
      have hbad : g.B - c < 7 := by omega
      rw [layoutBufs_bad g c _ _ hbad] at hT ⊢
      simp only [List.flatten_cons, List.append_assoc, totalLen_cons, length_zeros] at hT ⊢
      have hf0 : Fits g 0 ((t, p) :: fs) := by
        have h1 := hf.1
        have h2 := hf.2
        have hm : maxFrameLen g c = maxFrameLen g 0 := by
          unfold maxFrameLen; simp only [HEADER_LEN, Nat.sub_zero]
          rw [if_neg (by omega), if_pos (by omega)]
        have hfe : frameEndCursor g c p.length = frameEndCursor g 0 p.length := by
          unfold frameEndCursor; simp only [HEADER_LEN, Nat.sub_zero]
          rw [if_pos hbad, if_neg (by omega)]
        rw [hm] at h1; rw [hfe] at h2
        exact ⟨h1, h2⟩
      have hpos : (k + 1) * g.B + 0 = (k * g.B + c) + (g.B - c) := by
        rw [Nat.add_mul, Nat.one_mul]; omega
      have hk1 : k + 1 < N := by
        apply Classical.byContradiction
        intro hn
        have hNk : N = k + 1 := by omega
        have h1 := congrArg List.length hT
        have h2 := layout_ne_nil g 0 (t, p) fs
        rw [List.length_drop, hS, hNk, List.length_append, length_zeros, List.length_append,
          Nat.add_mul, Nat.one_mul] at h1
        omega
      obtain ⟨m, hm⟩ : ∃ m, N - (k + 1) = m + 1 := ⟨N - (k + 1) - 1, by omega⟩
      have hT2 : S.drop ((k + 1) * g.B + 0) = (layoutBufs g 0 ((t, p) :: fs)).flatten ++ zeros z := by
        rw [hpos, ← List.drop_drop, hT, List.drop_left' (length_zeros _)]
      obtain ⟨e, h1, h2⟩ := good (k + 1) 0 z hk1 (by omega) (by omega) hf0 hT2
      refine ⟨e, ?_, ?_⟩
      · rw [hm, blksFrom_succ, scanB_skip g _ _ c _ hbad]
        have hm2 : m = N - (k + 1 + 1) := by omega
        rw [hm2, h1]
        congr 2
        rw [← hdrPos_pad g k c hc hbad, tagFrom_hdrPos g F _ _ (by simp)]
      · have e3 : k * g.B + c + (g.B - c + totalLen (layoutBufs g 0 ((t, p) :: fs))) =
            (k + 1) * g.B + 0 + totalLen (layoutBufs g 0 ((t, p) :: fs)) := by
          rw [hpos]; omega
        rw [e3]; exact h2

end MRL.G
