/-
`Gen.asm_trace` again, for a tape that starts with arbitrary non-first frames (the tail of an
entry whose head was in a deleted file): they are genuine frames too, and `assemble` ignores them
outside an entry.
-/
import MRL.Proofs.ImgScan

namespace MRL.Img
open MRL Consts Codec Torn Gen

/-- the frames ahead, outside an entry: non-first frames, then whole groups for the entries `esR` -/
def Shape' (R : List Frm) (esR : List Bytes) : Prop :=
  ∃ junk GR, R = junk ++ GR ∧ (∀ a ∈ junk, a.1.isFirst = false) ∧ EntriesFrames esR GR

theorem nonfirst_of_tail : ∀ (l : List Frm), EntryFrames false l → ∀ a ∈ l, a.1.isFirst = false := by
  intro l
  induction l with
  | nil => intro h; exact h.elim
  | cons x l ih =>
    intro h a ha
    have h' : x.1 = FrameType.ofFlags false l.isEmpty ∧ (l ≠ [] → EntryFrames false l) := h
    rcases List.mem_cons.mp ha with rfl | ha
    · rw [h'.1]; cases l.isEmpty <;> rfl
    · have hl : l ≠ [] := by intro hn; rw [hn] at ha; cases ha
      exact ih (h'.2 hl) a ha

theorem nonfirst_of_group_tail {b : Bool} {x : Frm} {l : List Frm} (h : EntryFrames b (x :: l)) :
    ∀ a ∈ l, a.1.isFirst = false := by
  rcases Gen.tail_of_group h with hl | hl
  · intro a ha; rw [hl] at ha; cases ha
  · exact nonfirst_of_tail l hl

theorem Shape'.drop_one {a : Frm} {R : List Frm} {esR : List Bytes} (h : Shape' (a :: R) esR) :
    ∃ esR', Shape' R esR' ∧ List.Sublist esR' esR := by
  obtain ⟨junk, GR, hR, hj, hG⟩ := h
  cases junk with
  | cons b junk1 =>
    simp only [List.cons_append, List.cons.injEq] at hR
    obtain ⟨rfl, rfl⟩ := hR
    exact ⟨esR, ⟨junk1, GR, rfl, fun x hx => hj x (List.mem_cons_of_mem _ hx), hG⟩, List.Sublist.refl _⟩
  | nil =>
    simp only [List.nil_append] at hR
    cases hG with
    | nil => cases hR
    | @cons e es fs fss h1 h2 h3 =>
      cases fs with
      | nil => exact h1.elim
      | cons b gs =>
        simp only [List.cons_append, List.cons.injEq] at hR
        obtain ⟨rfl, rfl⟩ := hR
        exact ⟨es, ⟨gs, fss, rfl, nonfirst_of_group_tail h1, h3⟩, List.sublist_cons_self _ _⟩

theorem Shape'.drop {sk R : List Frm} : ∀ {esR : List Bytes}, Shape' (sk ++ R) esR →
    ∃ esR', Shape' R esR' ∧ List.Sublist esR' esR := by
  induction sk with
  | nil => intro esR h; exact ⟨esR, h, List.Sublist.refl _⟩
  | cons a sk ih =>
    intro esR h
    obtain ⟨es1, h1, s1⟩ := Shape'.drop_one h
    obtain ⟨es2, h2, s2⟩ := ih h1
    exact ⟨es2, h2, s2.trans s1⟩

/-- **reassembly of a trace**, leading non-first frames allowed -/
theorem asm_trace' (f : Nat) {R : List Frm} {tight : Bool} {evs : List RdEv} (h : Trace f R tight evs) :
    ∀ st : AsmSt, st.attr = f →
      (st.within = false → ∀ esR, Shape' R esR →
        List.Sublist (entriesOf (assemble st evs)) (esR.map (RecEv.entry f))) ∧
      (st.within = true → tight = true → ∀ (e : Bytes) (gt GR : List Frm) (esR : List Bytes),
        R = gt ++ GR → gt ≠ [] → EntryFrames false gt → st.buf ++ payloadOf gt = e → EntriesFrames esR GR →
        List.Sublist (entriesOf (assemble st evs)) ((e :: esR).map (RecEv.entry f))) := by
  induction h with
  | nil => intro st _; exact ⟨fun _ _ _ => by simp [assemble, entriesOf], fun _ _ _ _ _ _ _ _ _ _ _ => by simp [assemble, entriesOf]⟩
  | @corrupt R tight evs _ ih =>
    intro st hst
    have hstep : assemble st (RdEv.corrupt f :: evs) =
        RecEv.corrupt :: assemble { within := false, buf := st.buf, attr := f } evs := rfl
    rw [hstep, Gen.entriesOf_cons_corrupt]
    obtain ⟨ihA, _⟩ := ih { within := false, buf := st.buf, attr := f } rfl
    refine ⟨fun _ esR hS => ihA rfl esR hS, fun _ _ e gt GR esR hR _ hE _ hG => ?_⟩
    have := ihA rfl esR ⟨gt, GR, hR, nonfirst_of_tail gt hE, hG⟩
    exact this.trans (by simp)
  | @frame R' tight evs t p _ ih =>
    intro st hst
    constructor
    · intro hw esR hS
      obtain ⟨junk, GR, hR, hj, hG⟩ := hS
      cases junk with
      | cons b junk1 =>
        simp only [List.cons_append, List.cons.injEq] at hR
        obtain ⟨rfl, rfl⟩ := hR
        have hfirst : t.isFirst = false := hj (t, p) List.mem_cons_self
        have hstep : assemble st (RdEv.frame f t p :: evs) = assemble st evs := by
          simp only [assemble, hw, hfirst, Bool.or_false, Bool.false_eq_true, if_false]
        rw [hstep]
        exact (ih st hst).1 hw esR ⟨junk1, GR, rfl, fun x hx => hj x (List.mem_cons_of_mem _ hx), hG⟩
      | nil =>
        simp only [List.nil_append] at hR
        cases hG with
        | nil => cases hR
        | @cons e es fs fss h1 h2 h3 =>
          cases fs with
          | nil => exact h1.elim
          | cons b gs =>
            simp only [List.cons_append, List.cons.injEq] at hR
            obtain ⟨rfl, rfl⟩ := hR
            have h1' : t = FrameType.ofFlags true gs.isEmpty ∧ (gs ≠ [] → EntryFrames false gs) := h1
            have hfirst : t.isFirst = true := by rw [h1'.1]; cases gs.isEmpty <;> rfl
            have hw2 : (st.within || t.isFirst) = true := by rw [hfirst]; simp
            cases gs with
            | nil =>
              have hlast : t.isLast = true := by rw [h1'.1]; rfl
              rw [assemble_last st f t p evs hlast hw2, hfirst, Gen.entriesOf_cons_entry, hst]
              have hp : p = e := by simpa [payloadOf] using h2
              simp only [if_true, List.nil_append, hp, List.map_cons]
              exact List.Sublist.cons_cons _ ((ih _ rfl).1 rfl es ⟨[], fss, rfl, (fun _ h => by cases h), h3⟩)
            | cons b2 gs2 =>
              have hlast : t.isLast = false := by rw [h1'.1]; rfl
              rw [assemble_more st f t p evs hlast hw2, hfirst]
              simp only [if_true, List.nil_append]
              exact (ih { within := true, buf := p, attr := st.attr } hst).2 rfl rfl e (b2 :: gs2) fss es rfl
                (by simp) (h1'.2 (by simp)) (by simpa [payloadOf] using h2) h3
    · intro hw _ e gt GR esR hR hne hE hbuf hG
      cases gt with
      | nil => exact absurd rfl hne
      | cons b gt1 =>
        simp only [List.cons_append, List.cons.injEq] at hR
        obtain ⟨rfl, rfl⟩ := hR
        have hE' : t = FrameType.ofFlags false gt1.isEmpty ∧ (gt1 ≠ [] → EntryFrames false gt1) := hE
        have hfirst : t.isFirst = false := by rw [hE'.1]; cases gt1.isEmpty <;> rfl
        have hw2 : (st.within || t.isFirst) = true := by rw [hw]; simp
        cases gt1 with
        | nil =>
          have hlast : t.isLast = true := by rw [hE'.1]; rfl
          rw [assemble_last st f t p evs hlast hw2, hfirst, Gen.entriesOf_cons_entry, hst]
          have hp : st.buf ++ p = e := by simpa [payloadOf] using hbuf
          simp only [Bool.false_eq_true, if_false, hp, List.map_cons]
          exact List.Sublist.cons_cons _ ((ih _ rfl).1 rfl esR ⟨[], GR, rfl, (fun _ h => by cases h), hG⟩)
        | cons b2 gt2 =>
          have hlast : t.isLast = false := by rw [hE'.1]; rfl
          rw [assemble_more st f t p evs hlast hw2, hfirst]
          simp only [Bool.false_eq_true, if_false]
          exact (ih { within := true, buf := st.buf ++ p, attr := st.attr } hst).2 rfl rfl e (b2 :: gt2) GR esR rfl
            (by simp) (hE'.2 (by simp)) (by simpa [payloadOf, List.append_assoc] using hbuf) hG
  | @skip R' sk evs _ ih =>
    intro st hst
    refine ⟨fun hw esR hS => ?_, fun _ ht => by cases ht⟩
    obtain ⟨esR', hS', hsub⟩ := Shape'.drop hS
    exact ((ih st hst).1 hw esR' hS').trans (hsub.map _)

end MRL.Img
