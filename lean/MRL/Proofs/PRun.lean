/-
Power loss during a run of calls from a reachable state: after the operations of a prefix of the
run whose effects end with `flush, fsync(file), fsync(dir)`, the image left by a power loss at any
later instant is the image obtained by applying directly a whole number of the remaining effects
to the flushed disk reached after that prefix.
-/
import MRL.Proofs.PDisc
import MRL.Proofs.LCrash
import MRL.Props.C03Durable

namespace MRL.P
open MRL Buf G H L Log K C01J Codec

/-! ### file sizes along a run -/

theorem foe_of_cinvx {g : Geom} {l : Log} {J : List JE} {D : Image} (h : CInvX g l J D) :
    FullOrEmpty g.fileBytes D := by
  obtain ⟨init, t, x, res, ais, lead, gs, hx⟩ := h.disk
  intro kv hkv
  rw [hx.tape.img] at hkv
  rcases List.mem_append.mp hkv with hkv | hkv
  · left
    have hfull := tapeR_chunks hx.tape
    generalize init ++ [t ++ (res ++ zeros (g.fileBytes - l.off - res.length))] = cs at hfull hkv
    generalize l.files.headD 0 = F0 at hkv
    induction cs generalizing F0 with
    | nil => cases hkv
    | cons c cs ih =>
      simp only [imgOf, List.mem_cons] at hkv
      rcases hkv with rfl | hkv
      · exact hfull c List.mem_cons_self
      · exact ih (fun c' hc' => hfull c' (List.mem_cons_of_mem _ hc')) (F0 + 1) hkv
  · right
    cases x
    · cases hkv
    · simp only [xtra, if_true, List.mem_singleton] at hkv
      rw [hkv]

/-- every cut state of the effects of a run has full-size (or still empty) files -/
theorem run_foe (g : Geom) (hB : g.B ≤ 65542) (cs : List (Call × Bool × List Bytes)) :
    ∀ {l : Log} {J : List JE} {D : Image}, CInvX g l J D →
    (∀ j ∈ J ++ jourD g l cs, C07.WF j.e) → TornEffs (effsD g l cs) →
    ∀ (w : Bool) X, CutW w D (effsD g l cs) X → FullOrEmpty g.fileBytes X := by
  induction cs with
  | nil =>
    intro l J D hc _ _ w X hX
    have : X = D := by simpa [effsD] using hX.nil_inv
    rw [this]; exact foe_of_cinvx hc
  | cons x cs ih =>
    intro l J D hc hwf htorn w X hX
    obtain ⟨c, tick, order⟩ := x
    simp only [effsD, jourD] at hX hwf htorn
    have hwf1 : ∀ j ∈ J ++ l.stepJ g c order, C07.WF j.e := by
      intro j hj
      apply hwf j
      rw [← List.append_assoc]
      exact List.mem_append_left _ hj
    rcases CutW.of_append _ hX with hX | hX
    · obtain ⟨J', lp, io, F', _, _, hcx, _⟩ := call_cutX g hB hc c tick order hwf1
        (fun t p f off hm => htorn t p f off (List.mem_append_left _ hm)) w X hX .doNothing
      exact foe_of_cinvx hcx
    · have hc1 := cinvx_step g hc c tick order
      exact ih hc1 (by rw [List.append_assoc]; exact hwf)
        (fun t p f off hm => htorn t p f off (List.mem_append_right _ hm)) w X hX

/-! ### the initial state -/

/-- discipline state in which everything is durable -/
def pd0 (l : Log) : PD := ⟨l.cur, false, true, true, true⟩

theorem pdl0 {g : Geom} {l : Log} {J : List JE} {D : Image} (h : CInv g l J D) : PDL (pd0 l) l := by
  obtain ⟨init, t, afs, hT, _⟩ := h.disk
  refine ⟨rfl, rfl, ?_⟩
  unfold NoNext
  have hhead : l.files.headD 0 = l.files.headD 0 := rfl
  rw [hT.files, hT.cur]; exact nextFile_range _ _

theorem imgOf_values : ∀ (cs : List Bytes) (F : Nat), ∀ kv ∈ imgOf F cs, kv.2 ∈ cs
  | [], _, kv, h => by cases h
  | c :: cs, F, kv, h => by
    simp only [imgOf, List.mem_cons] at h
    rcases h with rfl | h
    · exact List.mem_cons_self
    · exact List.mem_cons_of_mem _ (imgOf_values cs (F + 1) kv h)

theorem pinv0 {g : Geom} {l : Log} {J : List JE} {D : Image} (h : CInv g l J D) :
    PInv (pd0 l) (PState.init D) := by
  obtain ⟨init, t, afs, hT, _⟩ := h.disk
  have hfb := fileBytes_pos g
  have hkeys : D.map (·.1) = List.range' (l.files.headD 0) (init.length + 1) := by
    rw [hT.img, imgOf_keys]; simp
  have hnd : (D.map (·.1)).Nodup := by rw [hkeys]; exact List.nodup_range'
  have hle : ∀ kv ∈ D, kv.1 ≤ l.cur := by
    intro kv hkv
    have := mem_keys hkv
    rw [hkeys, List.mem_range'_1] at this
    rw [hT.cur]; omega
  have hcont : ∀ kv ∈ D, (D.map (·.1)).contains kv.1 = true := by
    intro kv hkv; simpa using mem_keys hkv
  refine ⟨hnd, ?_, hle, ?_, fun kv hkv _ => ⟨hcont kv hkv, lookupF_of_mem hnd hkv⟩, ?_, (fun hx => by cases hx),
    (fun _ kv hkv hw => by rw [← hw]; exact lookupF_of_mem hnd hkv), ?_, fun _ => rfl⟩
  · show l.cur ∈ D.map (·.1)
    rw [hkeys, hT.cur, List.mem_range'_1]; omega
  · intro k hk
    obtain ⟨kv, hkv, rfl⟩ := List.mem_map.mp hk
    exact hle kv hkv
  · intro _
    show (D.map (·.1)).contains l.cur = true
    have : l.cur ∈ D.map (·.1) := by rw [hkeys, hT.cur, List.mem_range'_1]; omega
    simpa using this
  · intro _ kv hkv _
    have hv := imgOf_values _ _ kv (by rw [← hT.img]; exact hkv)
    have hfull : ∀ c ∈ init ++ [t ++ zeros (g.fileBytes - l.off)], c.length = g.fileBytes := by
      intro c hc
      rcases List.mem_append.mp hc with hc | hc
      · exact hT.full c hc
      · simp only [List.mem_singleton] at hc
        have := hT.off_le
        rw [hc]; simp [hT.tlen]; omega
    intro he
    have := hfull _ hv
    rw [he] at this
    simp at this
    omega

/-! ### the invariants along a run -/

theorem cinv_run (g : Geom) (cs : List (Call × Bool × List Bytes)) : ∀ {l : Log} {J : List JE} {D : Image},
    CInv g l J D → CInv g (logD g l cs) (J ++ jourD g l cs) (applyOsOps D (directOps (effsD g l cs))) := by
  induction cs with
  | nil => intro l J D h; simpa [logD, jourD, effsD, directOps, applyOsOps] using h
  | cons x cs ih =>
    intro l J D h
    obtain ⟨c, tick, order⟩ := x
    have h1 := cinv_step g h c tick order
    have h2 := ih h1
    simp only [logD, jourD, effsD, directOps_append, applyOsOps_append, ← List.append_assoc]
    exact h2

theorem pd_triple_clean (σ σ' : PD) (pre : List Effect) (f : Nat)
    (h : pd σ (pre ++ [.flush, .fsyncFile f, .fsyncDir]) = some σ') : σ'.clean = true := by
  rw [pd_append] at h
  cases h1 : pd σ pre with
  | none => rw [h1] at h; cases h
  | some σ1 =>
    rw [h1] at h
    simp only [Option.bind_some, pd, pd1] at h
    split at h
    · simp only [Option.bind_some] at h
      split at h
      · simp only [Option.bind_some, Option.some.injEq] at h
        subst h
        rfl
      · cases h
    · cases h

/-- **the reduction**: the image left by a power loss at any instant after a prefix of the run that
    ends with `flush, fsync(file), fsync(dir)` is the image obtained from the flushed disk after
    that prefix by a whole number of the remaining effects -/
theorem power_reduction (g : Geom) (hB : g.B ≤ 65542) (cap : Nat) (l : Log) (J : List JE) (img : Image)
    (b : BufSt) (hc : CInv g l J img) (hb : b.pend = []) (cs : List (Call × Bool × List Bytes))
    (hwf : ∀ j ∈ J ++ jourD g l cs, C07.WF j.e) (htorn : TornEffs (effsD g l cs))
    (m : Nat) (pre : List Effect) (f : Nat)
    (htail : effsD g l (cs.take m) = pre ++ [.flush, .fsyncFile f, .fsyncDir])
    (k : Nat) (hk : (toOsOpsP cap b (effsD g l (cs.take m))).2.length ≤ k) :
    ∃ p, powerImage img ((toOsOpsP cap b (effsD g l cs)).2.take k) =
      applyOsOps (applyOsOps img (directOps (effsD g l (cs.take m))))
        (directOps ((effsD g (logD g l (cs.take m)) (cs.drop m)).take p)) := by
  have hsplit : cs = cs.take m ++ cs.drop m := (List.take_append_drop m cs).symm
  have heffs : effsD g l cs = effsD g l (cs.take m) ++ effsD g (logD g l (cs.take m)) (cs.drop m) := by
    conv => lhs; rw [hsplit]
    exact C03D.effsD_append g _ _ l
  have hjour : jourD g l cs = jourD g l (cs.take m) ++ jourD g (logD g l (cs.take m)) (cs.drop m) := by
    conv => lhs; rw [hsplit]
    exact C03D.jourD_append g _ _ l
  generalize hEm : effsD g l (cs.take m) = Em at *
  generalize hEr : effsD g (logD g l (cs.take m)) (cs.drop m) = Er at *
  have hcx := CInvX.of_cinv hc
  -- the discipline
  obtain ⟨σm, hpdm, hpdlm⟩ := pd_effsD g (cs.take m) l (pd0 l) (pdl0 hc)
  rw [hEm] at hpdm
  obtain ⟨σe, hpdr, _⟩ := pd_effsD g (cs.drop m) _ σm hpdlm
  rw [hEr] at hpdr
  have hall : σm.dirty = false ∧ σm.named = true := by rw [htail] at hpdm; exact pd_triple_end _ _ pre f hpdm
  have hclean : σm.clean = true := by rw [htail] at hpdm; exact pd_triple_clean _ _ pre f hpdm
  -- the buffer discipline
  obtain ⟨stm, hrunm, _⟩ := effsD_Disc g (cs.take m) l none (Or.inl rfl)
  rw [hEm] at hrunm
  obtain ⟨hrunSm, hstm⟩ := runS_of_pd Em none stm (pd0 l) σm hrunm hpdm (fun _ => rfl)
  have hstm0 : stm = none := hstm hclean
  subst hstm0
  obtain ⟨str, hrunr, _⟩ := effsD_Disc g (cs.drop m) (logD g l (cs.take m)) none (Or.inl rfl)
  rw [hEr] at hrunr
  obtain ⟨hrunSr, _⟩ := runS_of_pd Er none str σm σe hrunr hpdr (fun _ => rfl)
  have hinv0 : Buf.Inv cap b none := ⟨Or.inl hb, by rw [hb]; exact Nat.zero_le _⟩
  obtain ⟨hinvm, hokm⟩ := toOsOpsP_ok cap Em b none none hinv0 hrunSm
  have hbm : (toOsOpsP cap b Em).1.pend = [] := by
    rcases hinvm.1 with h | h
    · exact h
    · cases h
  -- the state after the first `m` calls
  have hSm : prun (PState.init img) (toOsOpsP cap b Em).2 = prun (PState.init img) (directOpsP Em) := by
    have := hokm (PState.init img)
    rw [flushOps_nil _ hbm, flushOps_nil b hb] at this
    exact this
  -- the operations
  rw [heffs, toOsOpsP_append]
  simp only
  rw [List.take_append, List.take_of_length_le hk]
  unfold powerImage
  rw [prun_append, hSm]
  obtain ⟨n', hn'⟩ := op_boundaryP cap Er (toOsOpsP cap b Em).1 none str (prun (PState.init img) (directOpsP Em))
    hinvm hrunSr (k - (toOsOpsP cap b Em).2.length)
  rw [hn', pendW_nil _ hbm, List.nil_append]
  -- sizes of the files along the run
  have hwfm : ∀ j ∈ J ++ jourD g l (cs.take m), C07.WF j.e := by
    intro j hj
    apply hwf j
    rw [hjour, ← List.append_assoc]
    exact List.mem_append_left _ hj
  have htornm : TornEffs Em := fun t p f off hm => htorn t p f off (by rw [heffs]; exact List.mem_append_left _ hm)
  have htornr : TornEffs Er := fun t p f off hm => htorn t p f off (by rw [heffs]; exact List.mem_append_right _ hm)
  have hfoem : ∀ i, i ≤ Em.length → FullOrEmpty g.fileBytes
      (applyOsOps (PState.init img).vol (directOps (Em.take i))) := by
    intro i _
    exact run_foe g hB (cs.take m) hcx hwfm (by rw [hEm]; exact htornm) true _
      (by rw [hEm]; exact CutW.of_take true Em i img)
  -- the invariant after the first `m` calls
  obtain ⟨_, σn, _, hpdn, hIm, _, _⟩ := power_prefix g.fileBytes Em (pd0 l) (PState.init img) (pinv0 hc) rfl rfl σm hpdm
    hfoem Em.length (Nat.le_refl _)
  rw [List.take_length] at hpdn hIm
  rw [hpdm] at hpdn
  injection hpdn with hpdn
  subst hpdn
  have hcm := cinv_run g (cs.take m) hc
  rw [hEm] at hcm
  have hvolm : (prun (PState.init img) (directOpsP Em)).vol = applyOsOps img (directOps Em) := prun_vol_direct _ _
  have hfoer : ∀ i, i ≤ Er.length → FullOrEmpty g.fileBytes
      (applyOsOps (prun (PState.init img) (directOpsP Em)).vol (directOps (Er.take i))) := by
    intro i _
    rw [hvolm]
    exact run_foe g hB (cs.drop m) (CInvX.of_cinv hcm)
      (by rw [List.append_assoc, ← hjour]; exact hwf) (by rw [hEr]; exact htornr) true _
      (by rw [hEr]; exact CutW.of_take true Er i _)
  -- the power-loss image after `n'` more effects
  have htk : Er.take n' = Er.take (min n' Er.length) := by
    rw [List.take_eq_take_iff]; simp
  rw [htk]
  obtain ⟨p, _, _, _, _, himg, _⟩ := power_prefix g.fileBytes Er σm _ hIm hall.1 hall.2 σe hpdr hfoer
    (min n' Er.length) (Nat.min_le_right _ _)
  exact ⟨p, by rw [himg, hvolm]⟩

end MRL.P
