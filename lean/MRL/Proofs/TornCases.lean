/-
C02 at the byte level: the case analysis on where the cut falls, and the master theorem
`crash_master`.
-/
import MRL.Proofs.TornMain

namespace MRL.Torn
open MRL Consts Codec

/-- **the collision clause.** For every frame the writer wrote: a payload whose tail was lost
    (zero-filled) and thereby changed fails the frame's checksum. -/
def TornOK (g : Geom) (c : Nat) (hc : c < g.B) (es : List Bytes) : Prop :=
  ∀ t p, encodeFrame t p ∈ C07.writeEntriesBufs g c hc es → ∀ i, i < p.length →
    p.take i ++ zeros (p.length - i) ≠ p →
    frameCrc t (p.take i ++ zeros (p.length - i)) ≠ frameCrc t p

theorem mem_layout (g : Geom) (t : FrameType) (p : Bytes) (fs : List Frm) : ∀ c, (t, p) ∈ fs →
    encodeFrame t p ∈ layoutBufs g c fs := by
  induction fs with
  | nil => intro c h; cases h
  | cons fr fs ih =>
    intro c h
    simp only [layoutBufs, List.mem_append]
    rcases List.mem_cons.mp h with h | h
    · left; subst h; unfold frameWrites; split <;> simp
    · right; exact ih _ h

theorem LL_append (g : Geom) (c : Nat) (a b : List Frm) :
    (layoutBufs g c (a ++ b)).flatten.length =
      (layoutBufs g c a).flatten.length + (layoutBufs g (endCursor g c a) b).flatten.length := by
  rw [layoutBufs_append]; simp

theorem LL_single (g : Geom) (c : Nat) (t : FrameType) (p : Bytes) :
    (layoutBufs g c [(t, p)]).flatten.length = padLen g c + 7 + p.length := by
  rw [layout_cons_flatten]; simp [layoutBufs, length_encodeFrame]; omega

theorem LL_prefix (g : Geom) (es : List Bytes) (c : Nat) (hc : c < g.B) (j : Nat) :
    (layoutBufs g c (framesOf g c hc (es.take j))).flatten.length = prefixLen g c hc es j := by
  unfold prefixLen
  rw [(framesOf_spec g (es.take j) c hc).1, totalLen_eq]

theorem framesOf_take_prefix (g : Geom) (es : List Bytes) : ∀ (c : Nat) (hc : c < g.B) (j : Nat),
    ∃ rest, framesOf g c hc es = framesOf g c hc (es.take j) ++ rest := by
  induction es with
  | nil => intro c hc j; exact ⟨[], by simp [framesOf]⟩
  | cons e es ih =>
    intro c hc j
    cases j with
    | zero => exact ⟨framesOf g c hc (e :: es), by simp [framesOf]⟩
    | succ j =>
      obtain ⟨rest, h⟩ := ih _ (C07.cursorAfter_lt g c (totalLen (writeEntry g c e hc))) j
      refine ⟨rest, ?_⟩
      simp only [List.take_succ_cons, framesOf]
      rw [List.append_assoc, ← h]

/-- the frame `(t, p)` right after the complete frames `fs1` belongs to entry `j1`, of which
    `gp1` is already in `fs1` -/
theorem next_frame (g : Geom) (es : List Bytes) (c : Nat) (hc : c < g.B) (fs1 : List Frm) (t : FrameType)
    (p : Bytes) (fs2 : List Frm) (h : framesOf g c hc es = fs1 ++ (t, p) :: fs2) :
    ∃ j1 gp1 gs', j1 < es.length ∧ fs1 = framesOf g c hc (es.take j1) ++ gp1 ∧
      EntryFrames true (gp1 ++ (t, p) :: gs') ∧
      framesOf g c hc (es.take (j1 + 1)) = framesOf g c hc (es.take j1) ++ (gp1 ++ (t, p) :: gs') := by
  obtain ⟨j, gp, hj, hR, hcase⟩ := prefix_groups g es c hc fs1 ((t, p) :: fs2) h
  rcases hcase with hgp | ⟨hlt, gs, hgs, hE, hF⟩
  · subst hgp
    simp only [List.append_nil] at hR
    have hlt : j < es.length := by
      rcases Nat.lt_or_ge j es.length with h1 | h1
      · exact h1
      · exfalso
        rw [List.take_of_length_le h1] at hR
        rw [← hR] at h
        have := congrArg List.length h
        simp at this
    obtain ⟨grp, hs, hEg⟩ := framesOf_take_succ g es c hc j hlt
    obtain ⟨rest, hp⟩ := framesOf_take_prefix g es c hc (j + 1)
    rw [hs, h, hR, List.append_assoc] at hp
    have hp' := List.append_cancel_left hp
    cases grp with
    | nil => exact hEg.elim
    | cons a gs' =>
      simp only [List.cons_append, List.cons.injEq] at hp'
      obtain ⟨ha, _⟩ := hp'
      subst ha
      exact ⟨j, [], gs', hlt, by simpa using hR, by simpa using hEg, by simpa using hs⟩
  · obtain ⟨rest, hp⟩ := framesOf_take_prefix g es c hc (j + 1)
    rw [hF, h, hR, List.append_assoc, List.append_assoc, List.append_assoc] at hp
    have hp' := List.append_cancel_left (List.append_cancel_left hp)
    cases gs with
    | nil => exact absurd rfl hgs
    | cons a gs' =>
      simp only [List.cons_append, List.cons.injEq] at hp'
      obtain ⟨ha, _⟩ := hp'
      subst ha
      exact ⟨j, gp, gs', hlt, hR, hE, hF⟩

/-- whole entries before the cut, when the cut is between the end of `fs1` and the end of the
    next frame -/
theorem count_cut (g : Geom) (es : List Bytes) (c : Nat) (hc : c < g.B) (fs1 : List Frm) (t : FrameType)
    (p : Bytes) (j1 : Nat) (gp1 gs' : List Frm) (k : Nat) (hj : j1 < es.length)
    (h1 : fs1 = framesOf g c hc (es.take j1) ++ gp1)
    (h2 : framesOf g c hc (es.take (j1 + 1)) = framesOf g c hc (es.take j1) ++ (gp1 ++ (t, p) :: gs'))
    (hlo : (layoutBufs g c fs1).flatten.length ≤ k)
    (hhi : k < (layoutBufs g c (fs1 ++ [(t, p)])).flatten.length) :
    wholeCount g c hc es k = j1 := by
  apply wholeCount_eq g es c hc k j1 (Nat.le_of_lt hj)
  · rw [← LL_prefix, h1] at *
    rw [LL_append] at hlo; omega
  · intro _
    rw [← LL_prefix, h2]
    have : framesOf g c hc (es.take j1) ++ (gp1 ++ (t, p) :: gs') = (fs1 ++ [(t, p)]) ++ gs' := by
      rw [h1]; simp
    rw [this, LL_append]; omega

theorem isAllZero_eq_zeros (l : Bytes) (h : isAllZero l = true) : l = zeros l.length := by
  induction l with
  | nil => rfl
  | cons a l ih =>
    simp only [isAllZero, List.all_cons, Bool.and_eq_true, beq_iff_eq] at h
    have := ih (by simpa [isAllZero] using h.2)
    rw [h.1, List.length_cons]
    show (0 : UInt8) :: l = List.replicate (l.length + 1) 0
    rw [List.replicate_succ, ← zeros, ← this]

/-- the goal of the master theorem -/
def Goal (g : Geom) (file c : Nat) (hc : c < g.B) (es : List Bytes) (k : Nat) (S : Bytes) (n : Nat) : Prop :=
  ∃ j E,
    (j = wholeCount g c hc es k ∨ j = wholeCount g c hc es k + 1) ∧
    (j = wholeCount g c hc es k + 1 → ∃ d,
      (C07.writeEntriesBufs g c hc es).flatten.take (k + d) =
        (C07.writeEntriesBufs g c hc es).flatten.take k ++ zeros d ∧
      wholeCount g c hc es (k + d) = wholeCount g c hc es k + 1) ∧
    Concl g file c S n (es.take j) E

end MRL.Torn
