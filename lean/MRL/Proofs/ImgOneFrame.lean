/-
C09 about `recover`: one frame of the tape of the image of a reachable state is damaged
(checksum and/or payload bytes, detected). `recover` succeeds and loses at most the records of the
one journal entry the frame belongs to.
-/
import MRL.Proofs.ImgFrame

namespace MRL.Img
open MRL Log C05 Rec Drop Codec Torn G

theorem filter_split (F : Nat) (J1 J2 : List JE) (h1 : ∀ j ∈ J1, j.loc < F) (h2 : ∀ j ∈ J2, F ≤ j.loc) :
    (J1 ++ J2).filter (fun j => decide (F ≤ j.loc)) = J2 := by
  rw [List.filter_append]
  have e1 : J1.filter (fun j => decide (F ≤ j.loc)) = [] := by
    rw [List.filter_eq_nil_iff]; intro j hj; have := h1 j hj; simp; omega
  have e2 : J2.filter (fun j => decide (F ≤ j.loc)) = J2 := by
    rw [List.filter_eq_self]; intro j hj; have := h2 j hj; simpa using this
  rw [e1, e2]; rfl

theorem peq_records {a b : MemQueues} (h : PEq a b) {name : Bytes} {q : MemQueue} (hq : a.get? name = some q)
    {pos : Nat} {pl : Bytes} (hm : (pos, pl) ∈ plain q) :
    ∃ q', b.get? name = some q' ∧ ∃ r' ∈ q'.recs, r'.pos = pos ∧ r'.payload = pl := by
  have := h name
  rw [hq] at this
  cases hb : b.get? name with
  | none => rw [hb] at this; exact this.elim
  | some y =>
    rw [hb] at this
    have hy : (pos, pl) ∈ plain y := by rw [← this.1]; exact hm
    unfold plain at hy
    obtain ⟨r', hr', he⟩ := List.mem_map.mp hy
    simp only [Prod.mk.injEq] at he
    exact ⟨y, rfl, r', hr', he.1, he.2⟩

/-- `recover` on an image of full files, given the replay of what is scanned -/
theorem recover_of_replay (g : Geom) (W' : Image) (policy : Policy) (order : List Bytes)
    (b0 : Blk) (rest : List Blk) (trail : Nat)
    (hb : blocksOf g (prepareImage g W').1 1 = (b0 :: rest, trail)) (qs : MemQueues)
    (hrep : replay [] (assemble { within := false, buf := [], attr := b0.file } (scanB g b0 0 rest).1) = some qs) :
    ∃ r, recover g W' policy order none = .ok r ∧ r.log.queues = qs := by
  obtain ⟨io', hio⟩ := scanBlocks_eq_scanB g trail b0.cost b0 0 rest
  have hpre : recoverPre g W' policy none =
      .ok ({ files := (prepareImage g W').1.map (·.1), cur := (scanB g b0 0 rest).2.file,
             off := (scanB g b0 0 rest).2.idx * g.B + (scanB g b0 0 rest).2.cursor, queues := qs,
             policy := policy }, (prepareImage g W').2, io') := by
    rw [Rec.recoverPre_cons g W' policy none b0 rest trail hb, hio]
    simp only [Rec.ioFails_none, Bool.false_eq_true, if_false, Rec.finishPre, hrep]
  rw [Rec.recover_none, hpre]
  exact ⟨_, rfl, by simp only [runGc_queues]⟩

/-- **one damaged frame on the tape of a reachable state** -/
theorem one_frame_core (g : Geom) (hB : g.B ≤ 65542) (cap : Nat) (l : Log) (J : List JE) (img : Image)
    (b : BufSt) (h : C01R.ReachD g cap l J img b) (hwf : ∀ j ∈ J, C07.WF j.e) :
    ∃ fs z, streamOf (C01R.flushDisk img b) = (layoutBufs g 0 fs).flatten ++ zeros z ∧ Fits g 0 fs ∧
      ∀ fs1 t p fs2, fs = fs1 ++ (t, p) :: fs2 →
      ∀ crc' p' : Bytes, crc'.length = 4 → p'.length = p.length → frameCrc t p' ≠ leNat crc' → 7 ≤ z →
      ∀ W', SameShape (C01R.flushDisk img b) W' →
        streamOf W' = (C09.damagedBufs g 0 fs1 t fs2 crc' p').flatten ++ zeros z →
      ∀ (policy : Policy) (order : List Bytes),
        ∃ r a, recover g W' policy order none = .ok r ∧
          ∀ name q, l.queues.get? name = some q → ∀ rc ∈ q.recs,
            (∀ ha : a < J.length, ¬ C09R.RecordOf (J[a]) name rc) →
            ∃ q', r.log.queues.get? name = some q' ∧ ∃ r' ∈ q'.recs, r'.pos = rc.pos ∧ r'.payload = rc.payload := by
  have hrinv := C01R.reach_rinv g hB cap h hwf
  have hdisk := hrinv.c.disk
  have hjinv := hrinv.c.jinv
  obtain ⟨cs, afs, lead, segs, hD, hne, hfull, ⟨hfits, z, hstream⟩, hafs, hlead, hmap, hsok⟩ := tape_of_dinv hdisk
  refine ⟨untag afs, z, hstream, hfits, ?_⟩
  intro fs1 t p fs2 hfs crc' p' h4 hp hdet hz W' hshape hS' policy order
  -- the damaged image
  have hshape' : SameShape (imgOf (l.files.headD 0) cs) W' := by
    have : C01R.flushDisk img b = imgOf (l.files.headD 0) cs := hD
    rw [← this]; exact hshape
  obtain ⟨hW', hlens⟩ := sameShape_imgOf cs _ W' hshape'
  generalize hcs' : W'.map (·.2) = cs' at hW' hlens
  have hfull' : ∀ c ∈ cs', c.length = g.fileBytes := by
    intro c hc
    have : c.length ∈ cs'.map List.length := List.mem_map_of_mem hc
    rw [hlens] at this
    obtain ⟨c0, hc0, he⟩ := List.mem_map.mp this
    rw [← he]; exact hfull c0 hc0
  have hne' : cs' ≠ [] := by
    intro hn
    rw [hn] at hlens
    simp only [List.map_nil] at hlens
    exact hne (List.map_eq_nil_iff.mp hlens.symm)
  have hstream' : cs'.flatten = (C09.damagedBufs g 0 fs1 t fs2 crc' p').flatten ++ zeros z := by
    rw [← hS']; unfold streamOf; rw [hcs']
  generalize hF : l.files.headD 0 = F at *
  -- what is scanned
  obtain ⟨m, trail, hlen, hb⟩ := blocks_of_full g F cs' hne' hfull'
  rw [← hW'] at hb
  have hre := scan_multi_single g F F cs'.flatten m
  have hfits' : Fits g 0 (fs1 ++ (t, p) :: fs2) := by rw [← hfs]; exact hfits
  have hfx := FitsRaw_damaged g 0 fs1 t p fs2 (crc', t, p') h4 hp hfits'
  have hdrop : (cs'.flatten).drop 0 =
      (rawLayout g 0 (fs1.map good ++ (crc', t, p') :: fs2.map good)).flatten ++ zeros z := by
    rw [List.drop_zero, hstream']; rfl
  obtain ⟨e, e1, _, _⟩ := readFrom_raw_end g hB F _ cs'.flatten 0 m 0 z (Bpos g) hfx hlen.symm hdrop hz
  have hev : tagEvs F ((fs1.map good ++ (crc', t, p') :: fs2.map good).map Raw.ev) =
      tagF F fs1 ++ RdEv.corrupt F :: tagF F fs2 := by
    rw [List.map_append, tagEvs_append, tagEvs_good, List.map_cons]
    have hx : Raw.ev (crc', t, p') = FrameEv.corrupt := by simp [Raw.ev, hdet]
    rw [hx]
    show _ ++ RdEv.corrupt F :: tagEvs F ((fs2.map good).map Raw.ev) = _
    rw [tagEvs_good]
  rw [e1] at hre
  simp only at hre
  rw [hev] at hre
  -- what is delivered, as bytes
  have hbytes : bytesOf (assemble { within := false, buf := [], attr := (blkAt g F cs'.flatten 0).file }
      (scanB g (blkAt g F cs'.flatten 0) 0 (blksFrom g F cs'.flatten 1 m)).1) =
      bytesOf (assemble (st0 F) (tagF F fs1 ++ RdEv.corrupt F :: tagF F fs2)) := by
    have := assemble_retag F (scanB g (blkAt g F cs'.flatten 0) 0 (blksFrom g F cs'.flatten 1 m)).1
      { within := false, buf := [], attr := (blkAt g F cs'.flatten 0).file } (st0 F) rfl rfl
    rw [hre] at this
    exact this
  have htape : untag lead ++ untag (segs.flatMap (·.2)) = fs1 ++ (t, p) :: fs2 := by
    rw [← untag_append, ← hafs, hfs]
  -- the journal
  have hmono := hjinv.chunk.mono
  obtain ⟨qsA, hA, hEq, hwA⟩ := hjinv.rep
  rw [hF] at hA
  obtain ⟨Lf, hrun, _, _⟩ := reachD_run g hB cap h hwf
  obtain ⟨J1, J2, hJ, h1, h2⟩ := C09R.split_loc F J hmono
  subst hJ
  have hJ2 : segs.map (·.1) = J2 := by rw [hmap, filter_split F J1 J2 h1 h2]
  have hskip : ∀ js', replayJ F [] (J1 ++ js') = replayJ F [] js' := by
    intro js'
    rw [replayJ_append, replayJ_skip F [] J1 h1]; rfl
  have hsegwf : ∀ s ∈ segs, Entry.decode s.1.e.encode = some s.1.e := by
    intro s hs
    have : s.1 ∈ J2 := by rw [← hJ2]; exact List.mem_map_of_mem (f := (·.1)) hs
    exact C07.decode_encode _ (hwf _ (List.mem_append_right _ this))
  -- the two cases
  rcases asm_tape_damaged F lead segs hlead hsok fs1 (t, p) fs2 htape with hall | ⟨s1, sa, s2, hsegs, hsome⟩
  · -- a lead frame: every entry is delivered
    have hLsnd : (decoded (assemble { within := false, buf := [], attr := (blkAt g F cs'.flatten 0).file }
        (scanB g (blkAt g F cs'.flatten 0) 0 (blksFrom g F cs'.flatten 1 m)).1)).map (·.2) =
        (J2.map fun j => (max j.attr F, j.e)).map (·.2) := by
      rw [decoded_snd, hbytes, hall]
      have := decodedE_encoded (segs.map fun s => s.1.e) (by
        intro en hen
        obtain ⟨s, hs, rfl⟩ := List.mem_map.mp hen
        exact hsegwf s hs)
      rw [List.map_map] at this
      rw [show (fun s : Seg => s.1.e.encode) = (Entry.encode ∘ fun s : Seg => s.1.e) from rfl, this, ← hJ2]
      simp [List.map_map, Function.comp_def]
    have hA' : replayEntries [] (J2.map fun j => (max j.attr F, j.e)) = some qsA := by
      rw [← replayJ_ge F J2 [] h2, ← hskip]; exact hA
    obtain ⟨qs, hqs, hpeq, _⟩ := peq_entries _ _ hLsnd.symm hA' (PEq.refl _) QsWF.nil QsWF.nil
    rw [← replay_eq] at hqs
    obtain ⟨r, hr, hrq⟩ := recover_of_replay g W' policy order _ _ trail hb qs hqs
    refine ⟨r, (J1 ++ J2).length, hr, ?_⟩
    intro name q hq rc hrc _
    obtain ⟨xq, hxq, hxe⟩ := hEq.symm.get_some hq
    have hmem : (rc.pos, rc.payload) ∈ plain xq := by
      unfold plain; rw [← hxe.1]
      exact List.mem_map_of_mem (f := fun r : MRL.Rec => (r.pos, r.payload)) hrc
    rw [hrq]
    exact peq_records hpeq hxq hmem
  · -- a frame of the segment `sa`: all entries but that one are delivered
    have hJ2' : J2 = s1.map (·.1) ++ sa.1 :: s2.map (·.1) := by rw [← hJ2, hsegs]; simp
    have ha : J1.length + s1.length < (J1 ++ J2).length := by rw [hJ2']; simp
    have hers : (J1 ++ J2).eraseIdx (J1.length + s1.length) = J1 ++ (s1.map (·.1) ++ s2.map (·.1)) := by
      rw [List.eraseIdx_append_of_length_le (by omega), hJ2']
      have : J1.length + s1.length - J1.length = (s1.map (·.1)).length := by simp
      rw [this, List.eraseIdx_append_of_length_le (Nat.le_refl _), Nat.sub_self]
      rfl
    have hget : (J1 ++ J2)[J1.length + s1.length] = sa.1 := by
      rw [List.getElem_append_right (by omega)]
      simp [hJ2']
    obtain ⟨qsJ, hqsJ, hwJ, hii⟩ := drop_core F (J1 ++ J2) Lf qsA l.queues hrun hmono hA hEq _ ha
    rw [hers, hskip] at hqsJ
    have h2R : ∀ j ∈ s1.map (·.1) ++ s2.map (·.1), F ≤ j.loc := by
      intro j hj
      apply h2 j
      rw [hJ2']
      rcases List.mem_append.mp hj with hj | hj
      · exact List.mem_append_left _ hj
      · exact List.mem_append_right _ (List.mem_cons_of_mem _ hj)
    rw [replayJ_ge F _ [] h2R] at hqsJ
    have hLsnd : (decoded (assemble { within := false, buf := [], attr := (blkAt g F cs'.flatten 0).file }
        (scanB g (blkAt g F cs'.flatten 0) 0 (blksFrom g F cs'.flatten 1 m)).1)).map (·.2) =
        ((s1.map (·.1) ++ s2.map (·.1)).map fun j => (max j.attr F, j.e)).map (·.2) := by
      rw [decoded_snd, hbytes, hsome]
      have := decodedE_encoded ((s1 ++ s2).map fun s => s.1.e) (by
        intro en hen
        obtain ⟨s, hs, rfl⟩ := List.mem_map.mp hen
        exact hsegwf s (by
          rw [hsegs]
          rcases List.mem_append.mp hs with hs | hs
          · exact List.mem_append_left _ hs
          · exact List.mem_append_right _ (List.mem_cons_of_mem _ hs)))
      rw [List.map_map] at this
      rw [show (fun s : Seg => s.1.e.encode) = (Entry.encode ∘ fun s : Seg => s.1.e) from rfl, this]
      simp [List.map_map, Function.comp_def]
    obtain ⟨qs, hqs, hpeq, _⟩ := peq_entries _ _ hLsnd.symm hqsJ (PEq.refl _) QsWF.nil QsWF.nil
    rw [← replay_eq] at hqs
    obtain ⟨r, hr, hrq⟩ := recover_of_replay g W' policy order _ _ trail hb qs hqs
    refine ⟨r, J1.length + s1.length, hr, ?_⟩
    intro name q hq rc hrc hnot
    obtain ⟨q', hq', hm'⟩ := hii name q hq rc hrc (hnot ha)
    rw [hrq]
    exact peq_records hpeq hq' hm'

end MRL.Img
