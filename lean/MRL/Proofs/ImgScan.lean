/-
Lifting the single-stream damage theorems to images (C08/C09/C12 about `recover`): what the
reader does depends only on the block contents — not on the file numbers, block indices or I/O
costs of the blocks — and what `assemble` delivers (as bytes) does not depend on the file tags of
the events. So the events read from a multi-file image are, up to tags, those read from the
concatenated stream seen as one file.
-/
import MRL.Proofs.GenStream
import MRL.Proofs.GBlocks

namespace MRL.Img
open MRL Consts Codec Torn Gen

/-- the event with its file tag replaced -/
def retag (f : Nat) : RdEv → RdEv
  | .frame _ t p => .frame f t p
  | .corrupt _ => .corrupt f

theorem retag_tagEvs (f f' : Nat) (l : List FrameEv) : (tagEvs f' l).map (retag f) = tagEvs f l := by
  induction l with
  | nil => rfl
  | cons x l ih => cases x <;> simp [tagEvs, retag, ih]

/-- two block lists with the same data, the second all in file `f` -/
inductive SameData (f : Nat) : List Blk → List Blk → Prop
  | nil : SameData f [] []
  | cons {b b' : Blk} {rest rest' : List Blk} :
      (b.data = b'.data ∧ b'.file = f) → SameData f rest rest' → SameData f (b :: rest) (b' :: rest')

/-- `scanB` only looks at the data of the blocks -/
theorem scanB_retag (g : Geom) (f : Nat) : ∀ (rest rest' : List Blk),
    SameData f rest rest' →
    ∀ (cur cur' : Blk) (c : Nat), cur.data = cur'.data → cur'.file = f →
      (scanB g cur c rest).1.map (retag f) = (scanB g cur' c rest').1 := by
  intro rest rest' h
  induction h with
  | nil =>
    intro cur cur' c hd hf
    unfold scanB
    rw [hd]
    rcases scanBlock g cur'.data c with ⟨evs, e⟩
    cases e <;> simp [retag_tagEvs, hf]
  | @cons b b' rest rest' hb _ ih =>
    intro cur cur' c hd hf
    conv => lhs; unfold scanB
    conv => rhs; unfold scanB
    rw [hd]
    rcases scanBlock g cur'.data c with ⟨evs, e⟩
    cases e with
    | zeroHeader c' => simp [retag_tagEvs, hf]
    | needNext c' =>
      simp only [List.map_append, retag_tagEvs, hf]
      rw [ih b b' 0 hb.1 hb.2]

theorem sameData_map {α : Type} (f : Nat) (a b : α → Blk) (l : List α)
    (h : ∀ x ∈ l, (a x).data = (b x).data ∧ (b x).file = f) : SameData f (l.map a) (l.map b) := by
  induction l with
  | nil => exact SameData.nil
  | cons x l ih =>
    exact SameData.cons (h x List.mem_cons_self) (ih fun y hy => h y (List.mem_cons_of_mem _ hy))

/-- the events read from the blocks of files `F, F+1, …` are, up to tags, the events read from the
    same stream seen as a single file -/
theorem scan_multi_single (g : Geom) (F f : Nat) (S : Bytes) (n : Nat) :
    (scanB g (G.blkAt g F S 0) 0 (G.blksFrom g F S 1 n)).1.map (retag f) = (readFrom g f S 0 n 0).1 := by
  unfold readFrom
  apply scanB_retag g f
  · have h := G.fileBlocks_eq g f 1 S n 1
    rw [Nat.one_mul] at h
    rw [h]
    unfold G.blksFrom
    apply sameData_map
    intro k _
    exact ⟨rfl, rfl⟩
  · simp [G.blkAt]
  · rfl

/-! ### what `assemble` delivers, as bytes -/

/-- the entries among record events, as byte strings -/
def bytesOf (l : List RecEv) : List Bytes :=
  l.filterMap fun ev => match ev with | .entry _ b => some b | .corrupt => none

theorem bytesOf_cons_entry (a : Nat) (b : Bytes) (l : List RecEv) :
    bytesOf (RecEv.entry a b :: l) = b :: bytesOf l := rfl
theorem bytesOf_cons_corrupt (l : List RecEv) : bytesOf (RecEv.corrupt :: l) = bytesOf l := rfl

theorem bytesOf_entries (f : Nat) (es : List Bytes) : bytesOf (es.map (RecEv.entry f)) = es := by
  induction es with
  | nil => rfl
  | cons e es ih => rw [List.map_cons, bytesOf_cons_entry, ih]

theorem bytesOf_entriesOf (l : List RecEv) : bytesOf (entriesOf l) = bytesOf l := by
  induction l with
  | nil => rfl
  | cons ev l ih =>
    cases ev with
    | corrupt => rw [Gen.entriesOf_cons_corrupt, bytesOf_cons_corrupt, ih]
    | entry a b => rw [Gen.entriesOf_cons_entry, bytesOf_cons_entry, bytesOf_cons_entry, ih]

theorem bytesOf_sublist {l l' : List RecEv} (h : List.Sublist l l') : List.Sublist (bytesOf l) (bytesOf l') :=
  h.filterMap _

/-- the bytes delivered do not depend on the tags -/
theorem assemble_retag (f : Nat) (evs : List RdEv) : ∀ (st st' : AsmSt), st.within = st'.within →
    st.buf = st'.buf → bytesOf (assemble st evs) = bytesOf (assemble st' (evs.map (retag f))) := by
  induction evs with
  | nil => intro st st' _ _; rfl
  | cons ev evs ih =>
    intro st st' hw hb
    cases ev with
    | corrupt f' =>
      simp only [List.map_cons, retag, assemble, bytesOf_cons_corrupt]
      exact ih _ _ rfl hb
    | frame f' t p =>
      simp only [List.map_cons, retag, assemble, ← hw, ← hb]
      by_cases h1 : (st.within || t.isFirst) = true
      · simp only [h1, if_true]
        by_cases h2 : t.isLast = true
        · simp only [h2, if_true, bytesOf_cons_entry]
          exact congrArg _ (ih _ _ rfl rfl)
        · simp only [h2, Bool.false_eq_true, if_false]
          exact ih _ _ rfl rfl
      · simp only [h1, Bool.false_eq_true, if_false]
        exact ih _ _ hw hb

/-! ### decoded entries and their records, without file attribution -/

/-- records of the `append` entries -/
def recordsOfE : List Entry → List (Bytes × Nat × Bytes)
  | [] => []
  | .append q _ recs :: es => recs.map (fun r => (q, r.1, r.2)) ++ recordsOfE es
  | .truncate _ _ :: es => recordsOfE es
  | .touch _ _ :: es => recordsOfE es
  | .delete _ _ :: es => recordsOfE es

theorem recordsOf_eq (l : List (Nat × Entry)) : Rec.recordsOf l = recordsOfE (l.map (·.2)) := by
  induction l with
  | nil => rfl
  | cons fe l ih =>
    obtain ⟨f, e⟩ := fe
    cases e <;> simp [Rec.recordsOf, recordsOfE, ih]

theorem recordsOfE_sublist {l' l : List Entry} (h : List.Sublist l' l) :
    ∀ x ∈ recordsOfE l', x ∈ recordsOfE l := by
  induction h with
  | slnil => intro x hx; exact hx
  | @cons l1 l2 a _ ih =>
    intro x hx
    cases a <;> simp only [recordsOfE, List.mem_append] <;> first | exact Or.inr (ih x hx) | exact ih x hx
  | @cons_cons l1 l2 a _ ih =>
    intro x hx
    cases a with
    | append q p recs =>
      simp only [recordsOfE, List.mem_append] at hx ⊢
      rcases hx with h | h
      · exact Or.inl h
      · exact Or.inr (ih x h)
    | truncate q p => exact ih x hx
    | touch q p => exact ih x hx
    | delete q p => exact ih x hx

/-- the entries `replay` acts on, from the delivered bytes -/
def decodedE (bs : List Bytes) : List Entry := bs.filterMap Entry.decode

theorem decoded_snd (l : List RecEv) : (Rec.decoded l).map (·.2) = decodedE (bytesOf l) := by
  induction l with
  | nil => rfl
  | cons ev l ih =>
    cases ev with
    | corrupt => simp only [Rec.decoded, bytesOf_cons_corrupt]; exact ih
    | entry a b =>
      simp only [Rec.decoded, bytesOf_cons_entry, decodedE, List.filterMap_cons]
      cases Entry.decode b with
      | none => exact ih
      | some e => simp only [List.map_cons]; rw [ih]; rfl

theorem decodedE_encoded (l : List Entry) (h : ∀ e ∈ l, Entry.decode e.encode = some e) :
    decodedE (l.map Entry.encode) = l := by
  induction l with
  | nil => rfl
  | cons e l ih =>
    simp only [decodedE, List.map_cons, List.filterMap_cons, h e List.mem_cons_self]
    congr 1
    exact ih fun e' he' => h e' (List.mem_cons_of_mem _ he')

end MRL.Img
