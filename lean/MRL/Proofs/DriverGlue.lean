/-
Glue between the compiled driver (`Driver.lean`) and the definitions the theorems are about.

The driver does not apply OS operations one at a time to its list-based directory image:
* `St.sync` applies `coalesce (pending.reverse.filter (· != .sync))`;
* `runCrash` keeps the image after the first `baseK` operations and extends it by
  `coalesce (((ops.drop bk).take (k - bk)).filter (· != .sync))`, then takes
  `crashImage · (ops.drop k) 0 cut`;
* the power-loss state is kept the same way (`prun` of a cached prefix).

All of it is the definitional image, WITHOUT side condition (files that do not exist, writes beyond
the end of the file included: `overwrite` zero-extends first, `mapFile` on a missing file is the
identity on both sides).
-/
import MRL.Model.Disk
import MRL.Model.PowerLoss
import MRL.Proofs.PBuf

namespace MRL.Glue
open MRL

theorem applyOsOps_cons (img : Image) (op : OsOp) (ops : List OsOp) :
    applyOsOps img (op :: ops) = applyOsOps (applyOs img op) ops := rfl

theorem applyOsOps_append (img : Image) (a b : List OsOp) :
    applyOsOps img (a ++ b) = applyOsOps (applyOsOps img a) b := by
  simp [applyOsOps, List.foldl_append]

/-- two consecutive writes, the second continuing the first, are one write -/
theorem overwrite_overwrite (c : Bytes) (off : Nat) (d d' : Bytes) :
    overwrite (overwrite c off d) (off + d.length) d' = overwrite c off (d ++ d') := by
  unfold overwrite
  generalize hc1 : (if c.length < off then c ++ zeros (off - c.length) else c) = c1
  have hlen : off ≤ c1.length := by
    rw [← hc1]; split
    · simp only [List.length_append, zeros, List.length_replicate]; omega
    · omega
  have htl : (c1.take off).length = off := by rw [List.length_take]; omega
  have hnot : ¬ (c1.take off ++ d ++ c1.drop (off + d.length)).length < off + d.length := by
    simp only [List.length_append, htl]; omega
  simp only [hnot, if_false]
  have e1 : (c1.take off ++ d ++ c1.drop (off + d.length)).take (off + d.length) = c1.take off ++ d := by
    rw [List.take_append_of_le_length (by simp only [List.length_append, htl]; omega)]
    rw [List.take_of_length_le (by simp only [List.length_append, htl]; omega)]
  have e2 : (c1.take off ++ d ++ c1.drop (off + d.length)).drop (off + d.length + d'.length) =
      c1.drop (off + (d ++ d').length) := by
    have hl : (c1.take off ++ d).length = off + d.length := by simp only [List.length_append, htl]
    rw [List.drop_append, List.drop_of_length_le (by omega), List.nil_append, hl, List.drop_drop,
      List.length_append]
    congr 1; omega
  rw [e1, e2, List.append_assoc (c1.take off) d d']

theorem mapFile_mapFile (img : Image) (f : Nat) (h k : Bytes → Bytes) :
    mapFile (mapFile img f h) f k = mapFile img f (fun c => k (h c)) := by
  unfold mapFile
  rw [List.map_map]
  apply List.map_congr_left
  intro kv _
  simp only [Function.comp]
  by_cases hf : kv.1 = f
  · simp only [hf, if_true]
  · simp only [hf, if_false]

theorem applyOs_write_write (img : Image) (f off : Nat) (d d' : Bytes) :
    applyOs (applyOs img (.write f off d)) (.write f (off + d.length) d') =
      applyOs img (.write f off (d ++ d')) := by
  simp only [applyOs]
  rw [mapFile_mapFile]
  congr 1
  funext c
  exact overwrite_overwrite c off d d'

/-- **(a)** `coalesce` does not change the image — no side condition -/
theorem applyOsOps_coalesce (ops : List OsOp) : ∀ img : Image,
    applyOsOps img (coalesce ops) = applyOsOps img ops := by
  fun_induction coalesce ops with
  | case1 f off d f' off' d' rest hc ih =>
    intro img
    obtain ⟨rfl, rfl⟩ := hc
    rw [ih img, applyOsOps_cons, applyOsOps_cons, applyOsOps_cons, applyOs_write_write]
  | case2 f off d f' off' d' rest _ ih =>
    intro img
    rw [applyOsOps_cons, ih]
    rfl
  | case3 op rest _ ih =>
    intro img
    rw [applyOsOps_cons, ih]
    rfl
  | case4 => intro img; rfl

/-- **(b)** `sync` operations do not change the image -/
theorem applyOsOps_filter_sync (ops : List OsOp) : ∀ img : Image,
    applyOsOps img (ops.filter (· != .sync)) = applyOsOps img ops := by
  induction ops with
  | nil => intro img; rfl
  | cons op ops ih =>
    intro img
    by_cases h : op = .sync
    · subst h
      rw [List.filter_cons_of_neg (by simp), ih, applyOsOps_cons]
      rfl
    · rw [List.filter_cons_of_pos (by simpa using h), applyOsOps_cons, ih, applyOsOps_cons]

/-- what `St.sync` computes -/
theorem sync_disk (disk : Image) (pending : List OsOp) :
    applyOsOps disk (coalesce (pending.reverse.filter (· != .sync))) = applyOsOps disk pending.reverse := by
  rw [applyOsOps_coalesce, applyOsOps_filter_sync]

theorem take_split {α : Type} (ops : List α) (bk k : Nat) (h : bk ≤ k) :
    ops.take bk ++ (ops.drop bk).take (k - bk) = ops.take k := by
  have : k = bk + (k - bk) := by omega
  conv => rhs; rw [this, List.take_add]

/-- **(c1)** the incremental base image of `runCrash` -/
theorem applyOsOps_incremental (img : Image) (ops : List OsOp) (bk k : Nat) (h : bk ≤ k) :
    applyOsOps (applyOsOps img (ops.take bk)) ((ops.drop bk).take (k - bk)) = applyOsOps img (ops.take k) := by
  rw [← applyOsOps_append, take_split ops bk k h]

/-- **(c2)** the crash image from the base image -/
theorem crashImage_base (img : Image) (ops : List OsOp) (k cut : Nat) :
    crashImage (applyOsOps img (ops.take k)) (ops.drop k) 0 cut = crashImage img ops k cut := by
  unfold crashImage
  simp only [List.take_zero, List.getElem?_drop, Nat.add_zero]
  rfl

/-- what `runCrash` computes, in one statement: if the cached image is the image after the first
    `bk ≤ k` operations, the new cached image is the image after the first `k` operations and the
    image handed to `recover` is `crashImage img ops k cut` -/
theorem runCrash_image (img bimg : Image) (ops : List OsOp) (bk k cut : Nat) (h : bk ≤ k)
    (hb : bimg = applyOsOps img (ops.take bk)) :
    applyOsOps bimg (coalesce (((ops.drop bk).take (k - bk)).filter (· != .sync))) = applyOsOps img (ops.take k) ∧
    crashImage (applyOsOps bimg (coalesce (((ops.drop bk).take (k - bk)).filter (· != .sync)))) (ops.drop k) 0 cut =
      crashImage img ops k cut := by
  have e : applyOsOps bimg (coalesce (((ops.drop bk).take (k - bk)).filter (· != .sync))) =
      applyOsOps img (ops.take k) := by
    rw [applyOsOps_coalesce, applyOsOps_filter_sync, hb, applyOsOps_incremental img ops bk k h]
  exact ⟨e, by rw [e, crashImage_base]⟩

/-- the restart of the cache (`bk = 0`, empty image) satisfies the hypothesis of `runCrash_image` -/
theorem runCrash_image_zero (img : Image) (ops : List OsOp) : img = applyOsOps img (ops.take 0) := rfl

/-- **(d)** the power-loss cache -/
theorem prun_incremental (S : PState) (ops : List OsOpP) (pk i : Nat) (h : pk ≤ i) :
    prun (prun S (ops.take pk)) ((ops.drop pk).take (i - pk)) = prun S (ops.take i) := by
  rw [← P.prun_append, take_split ops pk i h]

theorem prun_zero (S : PState) (ops : List OsOpP) : S = prun S (ops.take 0) := rfl

/-! ### the cache across later operations

`runCrash` stores `baseK := k` and the image after `ops.take k`, and the history goes on: the next
`crash` sees `ops ++ more`. The cached image is still "the image after the first `baseK`
operations" PROVIDED `baseK ≤ ops.length` when it was stored; `runCrash` does not check this
(`crash k` with `k` beyond the operations issued so far stores a stale pair). -/

theorem cache_stable (img : Image) (ops more : List OsOp) (bk : Nat) (h : bk ≤ ops.length) :
    applyOsOps img ((ops ++ more).take bk) = applyOsOps img (ops.take bk) := by
  rw [List.take_append_of_le_length h]

theorem prun_cache_stable (S : PState) (ops more : List OsOpP) (pk : Nat) (h : pk ≤ ops.length) :
    prun S ((ops ++ more).take pk) = prun S (ops.take pk) := by
  rw [List.take_append_of_le_length h]

/-- without `bk ≤ ops.length` the stored pair is stale: `crash 1` on an empty history stores
    `(1, [])`; after one more operation the image after the first operation is not `[]` -/
example : applyOsOps [] ((([] : List OsOp) ++ [OsOp.create 0]).take 1) ≠ applyOsOps [] (([] : List OsOp).take 1) := by
  decide

end MRL.Glue
