/-
Crash states of a whole call, of the GC pass that ends `open`, and of `open` itself, from a state
satisfying the relaxed invariant: at ANY byte `open` succeeds with the queues before or after, up
to the handles, and the recovered log satisfies the relaxed invariant again.
-/
import MRL.Proofs.LDecomp
import MRL.Proofs.HSecond
import MRL.Proofs.RecIo

namespace MRL.L
open MRL Codec Consts G H Torn Log Buf C05 C01J

theorem XInvRes.inr {g : Geom} {qB qA : MemQueues} {X : Image} (h : XInvRes g qA qA X) : XInvRes g qB qA X := by
  intro policy
  obtain ⟨J', lp, io, F', a1, a2, a3, a4, a5, a6⟩ := h policy
  exact ⟨J', lp, io, F', a1, a2, a3, a4, a5, Or.inr (a6.elim id id)⟩

/-- every crash state of a call -/
theorem call_cutX (g : Geom) (hB : g.B ≤ 65542) {l : Log} {J : List JE} {D : Image} (h : CInvX g l J D)
    (c : Call) (tick : Bool) (order : List Bytes)
    (hfits : ∀ j ∈ J ++ l.stepJ g c order, C07.WF j.e)
    (htorn : TornEffs (l.step g c tick order).2.2) (w : Bool) (X : Image)
    (hX : CutW w D (l.step g c tick order).2.2 X) :
    XInvRes g l.queues (l.step g c tick order).1.queues X := by
  obtain ⟨A, U, S, heff, _, hS, hpre, habs, hfin⟩ := step_decompX g hB h c tick order hfits htorn
  rw [heff] at hX
  rcases CutW.of_append _ hX with hX | hX
  · rcases CutW.of_append _ hX with hX | hX
    · exact hpre w X hX
    · obtain ⟨k'', hk, hXe⟩ := cutW_unlinks U hX
      rw [hXe]
      cases k'' with
      | zero =>
        simp only [List.take_zero, List.map_nil, applyOsOps, List.foldl_nil]
        exact hpre true _ (CutW.full true A D)
      | succ k'' =>
        exact (habs (k'' + 1) (Nat.succ_pos _) hk).inr (qB := l.queues)
  · have hXe := cutW_syncL hS hX
    rw [hXe]
    have : applyOsOps D (directOps (A ++ U.map Effect.unlink)) =
        applyOsOps D (directOps (l.step g c tick order).2.2) := by
      rw [heff, directOps_append (A ++ U.map Effect.unlink), applyOsOps_append, syncL_apply hS]
    rw [this]
    exact hfin

/-- **crash while the GC touches are written**, from a relaxed state, at any byte -/
theorem touch_phase_crashX (g : Geom) (hB : g.B ≤ 65542) {l : Log} {J : List JE} {D : Image}
    (h : CInvX g l J D) (names : List Bytes) (hnames : ∀ n ∈ names, n ∈ l.queues.emptyNames)
    (hwf : ∀ j ∈ J ++ touchesJ g l names, C07.WF j.e)
    (htorn : TornEffs (writeTouches g l names).2.1) (w : Bool) (X : Image)
    (hX : CutW w D (writeTouches g l names).2.1 X) :
    XInvRes g l.queues l.queues X := by
  have hF : l.files.headD 0 ≤ l.cur := head_le_of_mem h.jinv.h.files.sorted h.jinv.h.files.cur_mem
  obtain ⟨init, t, x, res, ais, lead, gs, x0⟩ := h.disk
  obtain ⟨i3, t3, x3, r3, ais3, gs3, y3, hcut3⟩ :=
    touches_extX g (l.files.headD 0) lead names _ _ _ _ _ _ _ _ _ x0
  have hch := touchesJ_chunk g names l h.jinv.h.files
  have hchunk3 := h.jinv.chunk.append hch
  obtain ⟨hHl, chunk, qs, hrep, heq, hqwf⟩ := h.jinv
  have hexact : ∀ i, replayJ (l.files.headD 0) l.queues ((touchesJ g l names).take i) = some l.queues := by
    intro i
    rw [touchesJ_take]
    exact touches_replay g (l.files.headD 0) (names.take i) l hHl.files hF hHl.inv.1
      (fun n hn => hnames n (List.mem_of_mem_take hn))
  have hreps : ∀ i, ∃ q, replayJ (l.files.headD 0) [] (J ++ (touchesJ g l names).take i) = some q ∧
      AbsEq q l.queues := by
    intro i
    obtain ⟨q1, r1, r2, _⟩ := extend_rep hHl.inv hrep heq hqwf (hexact i)
    exact ⟨q1, r1, AbsEq.of_qsEquiv r2⟩
  have hsub : ∀ i, (J ++ (touchesJ g l names).take i).Sublist (J ++ touchesJ g l names) :=
    fun i => List.Sublist.append_left (List.take_sublist _ _) _
  obtain ⟨i, _, hd⟩ := hcut3 htorn w X hX
  intro policy
  obtain ⟨q, hq, hqe⟩ := hreps i
  obtain ⟨J', lp, io, hrec, hc, hw, hab, hpol, hhead⟩ := open_diskX g hB hd
    (fun j hj => hwf j ((hsub i).subset hj)) (fun j hj => hchunk3.wf j ((hsub i).subset hj))
    (hchunk3.mono.sublist (hsub i)) q hq policy
  exact ⟨J', lp, io, _, hrec, hhead, hc, hw, hpol, Or.inl (hab.symm.trans hqe)⟩

/-- every crash state of a GC pass alone -/
theorem gc_cutX (g : Geom) (hB : g.B ≤ 65542) {l : Log} {J : List JE} {D : Image} (h : CInvX g l J D)
    (order : List Bytes) (hfits : ∀ j ∈ J ++ gcJ g l order, C07.WF j.e)
    (htorn : TornEffs (runGc g l order).2.1) (w : Bool) (X : Image)
    (hX : CutW w D (runGc g l order).2.1 X) :
    XInvRes g l.queues l.queues X := by
  have hwfJ : ∀ j ∈ J, C07.WF j.e := fun j hj => hfits j (List.mem_append_left _ hj)
  have hfinal := cinvx_gc g h order
  have hfin : XInvRes g l.queues l.queues (applyOsOps D (directOps (runGc g l order).2.1)) := by
    intro policy
    obtain ⟨J', lp, io, F', a1, a2, a3, a4, a5, a6⟩ := xinvres_of_cinvx g hB hfinal hfits policy
    rw [runGc_queues] at a6
    exact ⟨J', lp, io, F', a1, a2, a3, a4, a5, Or.inl a6⟩
  rcases runGc_full g l order with ⟨hr1, hr2⟩ | ⟨names, hr1, hr2⟩
  · rw [hr1] at hX
    have : X = D := hX.nil_inv
    rw [this]
    have hres : XInvRes g l.queues l.queues D := by
      intro policy
      obtain ⟨J', lp, io, F', a1, a2, a3, a4, a5, a6⟩ := xinvres_of_cinvx g hB h hwfJ policy
      exact ⟨J', lp, io, F', a1, a2, a3, a4, a5, Or.inl a6⟩
    exact hres
  · have hnames : ∀ n ∈ names, n ∈ l.queues.emptyNames := by
      rcases runGc_shape g l order h.jinv.h.inv.1 with ⟨hs1, _⟩ | ⟨names', _, _, hs1, _, _, hs5⟩
      · rw [hr1] at hs1
        cases names with
        | nil => intro n hn; cases hn
        | cons n ns => rw [touchesJ_cons] at hs1; cases hs1
      · rw [hr1] at hs1
        have := touchesJ_inj g _ _ _ hs1
        subst this
        intro n hn
        exact (hs5 n).mp hn
    rw [hr1] at hfits
    have heff : (runGc g l order).2.1 =
        ((writeTouches g l names).2.1 ++ (writeTouches g l names).1.persistEffects .flushAndFsync) ++
        (gcFiles ((writeTouches g l names).1.canDelete l.cur) (writeTouches g l names).1.files).2.map Effect.unlink := by
      rw [hr2]
    have htorn2 : TornEffs (writeTouches g l names).2.1 := by
      apply htorn.mono
      intro v hv
      rw [heff]
      exact List.mem_append_left _ (List.mem_append_left _ hv)
    have hpre : ∀ (w : Bool) X, CutW w D (writeTouches g l names).2.1 X →
        XInvRes g l.queues l.queues X :=
      fun w X hX => touch_phase_crashX g hB h names hnames hfits htorn2 w X hX
    rw [heff] at hX
    rcases CutW.of_append _ hX with hX | hX
    · rcases CutW.of_append _ hX with hX | hX
      · exact hpre w X hX
      · have := cutW_syncL (isSyncL_persist _ _) hX
        rw [this]
        exact hpre true _ (CutW.full true _ _)
    · obtain ⟨k, hk, hXe⟩ := cutW_unlinks _ hX
      rw [hXe]
      have hD : applyOsOps D (directOps ((writeTouches g l names).2.1 ++
          (writeTouches g l names).1.persistEffects .flushAndFsync)) =
          applyOsOps D (directOps (writeTouches g l names).2.1) := by
        rw [directOps_append, applyOsOps_append, syncL_apply (isSyncL_persist _ _)]
      rw [hD]
      cases k with
      | zero =>
        simp only [List.take_zero, List.map_nil, applyOsOps, List.foldl_nil]
        exact hpre true _ (CutW.full true _ D)
      | succ k =>
        have hr3 : (runGc g l order).1 = { (writeTouches g l names).1 with
            files := (gcFiles ((writeTouches g l names).1.canDelete l.cur) (writeTouches g l names).1.files).1 } := by
          rw [hr2]
        exact unlink_phase_crashX g hB h order names hr1 hr3 hfits (k + 1) (Nat.succ_pos _) hk

/-- the first file of a `DiskX`-like tape is full: `ensureLen` on it changes nothing -/
theorem ensureLen_head (g : Geom) {l : Log} {J : List JE} {D : Image} (h : CInvX g l J D) :
    applyOsOps D (directOps [Effect.ensureLen (l.files.headD 0) g.fileBytes]) = D := by
  obtain ⟨init, t, x, res, ais, lead, gs, hx⟩ := h.disk
  simp only [directOps, List.flatMap_cons, List.flatMap_nil, direct, List.append_nil,
    applyOsOps, List.foldl_cons, List.foldl_nil]
  apply ensureLen_full
  intro kv hkv hk
  rw [hx.tape.img] at hkv
  rcases List.mem_append.mp hkv with hkv | hkv
  · have hfull := tapeR_chunks hx.tape
    have : kv.2.length = g.fileBytes := by
      generalize init ++ [t ++ (res ++ zeros (g.fileBytes - l.off - res.length))] = cs at hfull hkv
      generalize l.files.headD 0 = F0 at hkv
      induction cs generalizing F0 with
      | nil => cases hkv
      | cons c cs ih =>
        simp only [imgOf, List.mem_cons] at hkv
        rcases hkv with rfl | hkv
        · exact hfull c List.mem_cons_self
        · exact ih (fun c' hc' => hfull c' (List.mem_cons_of_mem _ hc')) (F0 + 1) hkv
    omega
  · exfalso
    exact xtra_keys x _ (l.files.headD 0) (by omega) kv hkv hk

/-- `recover` on a relaxed disk -/
theorem recover_okX (g : Geom) (hB : g.B ≤ 65542) {l : Log} {J : List JE} {D : Image} (h : CInvX g l J D)
    (hwf : ∀ j ∈ J, C07.WF j.e) (policy : Policy) (order : List Bytes) :
    ∃ (J' : List JE) (lp : Log) (io : Nat) (r : Recovered),
      recoverPre g D policy none = .ok (lp, [.ensureLen (lp.files.headD 0) g.fileBytes], io) ∧
      recover g D policy order none = .ok r ∧ r.log = (runGc g lp order).1 ∧
      r.effects = [.ensureLen (lp.files.headD 0) g.fileBytes] ++ (runGc g lp order).2.1 ∧
      CInvX g lp J' D ∧ (∀ j ∈ J', C07.WF j.e) ∧ AbsEq lp.queues l.queues ∧ lp.policy = policy := by
  obtain ⟨J', lp, io, hrec, hc, hw, hab, hpol, hhead⟩ := open_okX g hB h hwf policy
  rw [← hhead] at hrec
  refine ⟨J', lp, io, (⟨(runGc g lp order).1,
      [.ensureLen (lp.files.headD 0) g.fileBytes] ++ (runGc g lp order).2.1,
      io + Rec.countOpen (runGc g lp order).2.1⟩ : Recovered), hrec, ?_, rfl, rfl, hc, hw, hab, hpol⟩
  rw [Rec.recover_none, hrec]

end MRL.L
