/-
Tapes with junk. An ITEM is a tagged frame with an optional override of the bytes of its slot:
`none` = the frame as the writer wrote it; `some r` = junk left by a write that was cut — the frame
is then only a PLACEHOLDER of the exact slot size, so that all the position theory (`endPos`,
`hdrPos`, `Fits`, `Tagged`, cuts at file boundaries) applies unchanged. Two kinds of junk:
a complete slot whose checksum fails (the payload was cut: the reader emits one `corrupt` event and
goes on after the slot), and a torn header (1 to 6 bytes, not all zero, then zeros to the end of
the block: one `corrupt` event and the rest of the block is given up).
-/
import MRL.Proofs.HCrashRead
import MRL.Proofs.HAbs
import MRL.Proofs.TornMaster

namespace MRL.L
open MRL Codec Consts G H Torn

abbrev AItm := TFrm × Option Bytes

/-- the (placeholder) frames -/
def tfs (ais : List AItm) : List TFrm := ais.map (·.1)
def frs (ais : List AItm) : List Frm := untag (tfs ais)
/-- frames as items -/
def plain (afs : List TFrm) : List AItm := afs.map fun a => (a, none)

@[simp] theorem tfs_nil : tfs [] = [] := rfl
@[simp] theorem tfs_cons (a : AItm) (l : List AItm) : tfs (a :: l) = a.1 :: tfs l := rfl
theorem tfs_append (a b : List AItm) : tfs (a ++ b) = tfs a ++ tfs b := by simp [tfs]
theorem tfs_plain (afs : List TFrm) : tfs (plain afs) = afs := by
  simp only [tfs, plain, List.map_map]
  conv => rhs; rw [← List.map_id afs]
  rfl
theorem frs_append (a b : List AItm) : frs (a ++ b) = frs a ++ frs b := by simp [frs, tfs_append, untag_append]
theorem frs_plain (afs : List TFrm) : frs (plain afs) = untag afs := by simp [frs, tfs_plain]
@[simp] theorem frs_nil : frs [] = [] := rfl
@[simp] theorem frs_cons (a : AItm) (l : List AItm) : frs (a :: l) = a.1.2 :: frs l := rfl
theorem plain_append (a b : List TFrm) : plain (a ++ b) = plain a ++ plain b := by simp [plain]
theorem tfs_take (ais : List AItm) (n : Nat) : tfs (ais.take n) = (tfs ais).take n := by simp [tfs, List.map_take]
theorem tfs_drop (ais : List AItm) (n : Nat) : tfs (ais.drop n) = (tfs ais).drop n := by simp [tfs, List.map_drop]
theorem plain_take (afs : List TFrm) (n : Nat) : plain (afs.take n) = (plain afs).take n := by simp [plain, List.map_take]
theorem plain_drop (afs : List TFrm) (n : Nat) : plain (afs.drop n) = (plain afs).drop n := by simp [plain, List.map_drop]
theorem mem_plain {afs : List TFrm} {a : AItm} (h : a ∈ plain afs) : a.2 = none := by
  simp only [plain, List.mem_map] at h
  obtain ⟨x, _, rfl⟩ := h; rfl

/-- the bytes of the slot -/
def slot (a : AItm) : Bytes := a.2.getD (encodeFrame a.1.2.1 a.1.2.2)

/-- the bytes written from in-block cursor `c`: padding, slot, padding, slot … -/
def flatJ (g : Geom) : Nat → List AItm → Bytes
  | _, [] => []
  | c, a :: rest => zeros (padLen g c) ++ slot a ++ flatJ g (frameEndCursor g c a.1.2.2.length) rest

theorem flatJ_plain (g : Geom) (afs : List TFrm) : ∀ c, flatJ g c (plain afs) = (layoutBufs g c (untag afs)).flatten := by
  induction afs with
  | nil => intro c; rfl
  | cons a afs ih =>
    intro c
    obtain ⟨f, t, p⟩ := a
    have := layout_cons_flatten g c t p (untag afs)
    have e1 : flatJ g c (plain ((f, t, p) :: afs)) =
        zeros (padLen g c) ++ encodeFrame t p ++ flatJ g (frameEndCursor g c p.length) (plain afs) := rfl
    have e2 : untag ((f, t, p) :: afs) = (t, p) :: untag afs := rfl
    rw [e1, e2, this, ih]

theorem flatJ_append (g : Geom) (a b : List AItm) : ∀ c,
    flatJ g c (a ++ b) = flatJ g c a ++ flatJ g (endCursor g c (frs a)) b := by
  induction a with
  | nil => intro c; rfl
  | cons x a ih =>
    intro c
    simp only [List.cons_append, flatJ, frs_cons, endCursor, ih, List.append_assoc]

/-- the override has the size of the slot -/
def RawLen (a : AItm) : Prop := ∀ r, a.2 = some r → r.length = 7 + a.1.2.2.length

theorem slot_length {a : AItm} (h : RawLen a) : (slot a).length = 7 + a.1.2.2.length := by
  unfold slot
  cases ha : a.2 with
  | none => simp [length_encodeFrame]
  | some r => simpa using h r ha

theorem padLen_frameWrites (g : Geom) (c : Nat) (t : FrameType) (p : Bytes) :
    totalLen (frameWrites g c t p) = padLen g c + 7 + p.length := by
  rw [totalLen_eq, frameWrites_flatten]
  simp [length_encodeFrame]; omega

theorem flatJ_length (g : Geom) (ais : List AItm) (h : ∀ a ∈ ais, RawLen a) : ∀ c,
    (flatJ g c ais).length = totalLen (layoutBufs g c (frs ais)) := by
  induction ais with
  | nil => intro c; rfl
  | cons a ais ih =>
    intro c
    simp only [flatJ, frs_cons, layoutBufs, List.length_append, length_zeros, totalLen_append,
      slot_length (h a List.mem_cons_self), padLen_frameWrites,
      ih (fun x hx => h x (List.mem_cons_of_mem _ hx))]
    omega

theorem flatJ_pos_length (g : Geom) (ais : List AItm) (h : ∀ a ∈ ais, RawLen a) (p : Nat)
    (hf : Fits g (p % g.B) (frs ais)) : p + (flatJ g (p % g.B) ais).length = endPos g p (frs ais) := by
  rw [flatJ_length g ais h]; exact totalLen_layout_pos g _ p hf

theorem flatJ0_len (g : Geom) (ais : List AItm) (h : ∀ a ∈ ais, RawLen a) (hf : Fits g 0 (frs ais)) :
    (flatJ g 0 ais).length = endPos g 0 (frs ais) := by
  have := flatJ_pos_length g ais h 0 (by rw [zero_mod]; exact hf)
  rw [zero_mod] at this; omega

theorem padLen_zero (g : Geom) : padLen g 0 = 0 := by
  have := G.Bpos g
  unfold padLen; simp only [HEADER_LEN]; rw [if_neg (by omega)]

/-- writing from the normalised position (after the padding) is the same bytes -/
theorem flatJ_hdrPos (g : Geom) (p : Nat) (ais : List AItm) (hne : ais ≠ []) :
    flatJ g (p % g.B) ais = zeros (hdrPos g p - p) ++ flatJ g (hdrPos g p % g.B) ais := by
  have hB := G.Bpos g
  cases ais with
  | nil => exact absurd rfl hne
  | cons a ais =>
    rw [hdrPos_mod]
    unfold hdrPos
    split
    · rename_i hp
      simp only [flatJ, padLen, HEADER_LEN, hp, if_true, Nat.sub_zero, frameEndCursor]
      rw [if_neg (by omega), if_neg (by omega)]
      simp only [zeros, List.replicate_zero, List.nil_append, List.append_assoc]
      congr 2
      omega
    · simp [zeros]

/-! ### what junk is -/

/-- `c`: in-block cursor of the header of the slot; `e`: position of the end of the slot;
    `L`: length of the stream -/
def JunkOK (g : Geom) (c e L : Nat) (a : AItm) : Prop :=
  ∀ r, a.2 = some r →
    (∃ crc : Bytes, crc.length = 4 ∧ r = Raw.bytes (crc, a.1.2.1, a.1.2.2) ∧
      Raw.ev (crc, a.1.2.1, a.1.2.2) = FrameEv.corrupt) ∨
    (∃ hd : Bytes, hd.length ≤ 6 ∧ isAllZero hd = false ∧
      r = hd ++ zeros (7 + a.1.2.2.length - hd.length) ∧ c + 7 + a.1.2.2.length = g.B ∧ e < L)

def JOK (g : Geom) (L : Nat) : Nat → List AItm → Prop
  | _, [] => True
  | p, a :: rest =>
    JunkOK g (hdrPos g p % g.B) (nextPos g p a.1.2.2.length) L a ∧ JOK g L (nextPos g p a.1.2.2.length) rest

theorem JunkOK.rawLen {g : Geom} {c e L : Nat} {a : AItm} (h : JunkOK g c e L a) : RawLen a := by
  intro r hr
  rcases h r hr with ⟨crc, h4, rfl, _⟩ | ⟨hd, hl, _, rfl, _, _⟩
  · exact length_raw_bytes _ h4
  · simp; omega

theorem JOK.rawLen {g : Geom} {L : Nat} : ∀ {ais : List AItm} {p : Nat}, JOK g L p ais → ∀ a ∈ ais, RawLen a := by
  intro ais
  induction ais with
  | nil => intro p _ a ha; cases ha
  | cons x ais ih =>
    intro p h a ha
    rcases List.mem_cons.mp ha with rfl | ha
    · exact h.1.rawLen
    · exact ih h.2 a ha

theorem JOK_plain (g : Geom) (L : Nat) (afs : List TFrm) : ∀ p, JOK g L p (plain afs) := by
  induction afs with
  | nil => intro p; trivial
  | cons a afs ih => intro p; exact ⟨(fun r hr => by cases hr), ih _⟩

theorem JOK_append (g : Geom) (L : Nat) (a b : List AItm) : ∀ p,
    JOK g L p (a ++ b) ↔ JOK g L p a ∧ JOK g L (endPos g p (frs a)) b := by
  induction a with
  | nil => intro p; simp [JOK, endPos]
  | cons x a ih =>
    intro p
    simp only [List.cons_append, JOK, ih, frs_cons, endPos, and_assoc]

theorem JunkOK.mono {g : Geom} {c e L L' : Nat} {a : AItm} (h : JunkOK g c e L a) (hL : L ≤ L') :
    JunkOK g c e L' a := by
  intro r hr
  rcases h r hr with h1 | ⟨hd, a1, a2, a3, a4, a5⟩
  · exact Or.inl h1
  · exact Or.inr ⟨hd, a1, a2, a3, a4, by omega⟩

theorem JOK.mono {g : Geom} {L L' : Nat} (hL : L ≤ L') : ∀ {ais : List AItm} {p : Nat}, JOK g L p ais → JOK g L' p ais := by
  intro ais
  induction ais with
  | nil => intro p _; trivial
  | cons x ais ih => intro p h; exact ⟨h.1.mono hL, ih h.2⟩

theorem JOK_hdrPos (g : Geom) (L p : Nat) (ais : List AItm) (hne : ais ≠ []) :
    JOK g L (hdrPos g p) ais ↔ JOK g L p ais := by
  cases ais with
  | nil => exact absurd rfl hne
  | cons a ais => simp only [JOK, hdrPos_idem, nextPos_hdrPos]

/-- shifting by a multiple of the block size (a GC cut) -/
theorem JOK_shift (g : Geom) (L m : Nat) (hm : m % g.B = 0) (ais : List AItm) : ∀ p,
    JOK g (L + m) (p + m) ais ↔ JOK g L p ais := by
  induction ais with
  | nil => intro p; exact Iff.rfl
  | cons a ais ih =>
    intro p
    have e : (hdrPos g p + m) % g.B = hdrPos g p % g.B := by
      rw [Nat.add_mod, hm, Nat.add_zero, Nat.mod_mod]
    simp only [JOK, hdrPos_shift g p m hm, nextPos_shift g p m _ hm, ih, e]
    constructor
    · rintro ⟨h1, h2⟩
      refine ⟨?_, h2⟩
      intro r hr
      rcases h1 r hr with h | ⟨hd, a1, a2, a3, a4, a5⟩
      · exact Or.inl h
      · exact Or.inr ⟨hd, a1, a2, a3, a4, by omega⟩
    · rintro ⟨h1, h2⟩
      refine ⟨?_, h2⟩
      intro r hr
      rcases h1 r hr with h | ⟨hd, a1, a2, a3, a4, a5⟩
      · exact Or.inl h
      · exact Or.inr ⟨hd, a1, a2, a3, a4, by omega⟩

/-! ### what the reader makes of the items -/

def evJ (a : AItm) : RdEv :=
  match a.2 with
  | none => RdEv.frame a.1.1 a.1.2.1 a.1.2.2
  | some _ => RdEv.corrupt a.1.1

def evsJ (ais : List AItm) : List RdEv := ais.map evJ

theorem evsJ_append (a b : List AItm) : evsJ (a ++ b) = evsJ a ++ evsJ b := by simp [evsJ]
theorem evsJ_cons (a : AItm) (l : List AItm) : evsJ (a :: l) = evJ a :: evsJ l := rfl
theorem evsJ_plain (afs : List TFrm) : evsJ (plain afs) = evsOf afs := by
  simp [evsJ, plain, evsOf, evJ, Function.comp_def]

end MRL.L
