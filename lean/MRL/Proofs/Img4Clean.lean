/-
The collision clause, restated on bytes only (no item list), and shown to imply the clause the
damaged-read theorems need.

`Img.NoAccidentalFrameImgX g W W'` quantifies over EVERY item layout `ais` of the tape of `W`
(`ItemTape`), and `ItemTape` leaves the residue unconstrained: `ItemTape g W []` always holds
(`itemTape_nil`). The clause therefore forces `NoAcc g [] (streamOf W')`: NO position of `W'` may pass
the acceptance test (`noAccX_forces_none`). It is satisfied only by images without any valid frame;
the theorems stated with it (`C08X.C08_crash_genuine`, `C12X.C12_crash_damage`, …) are true but say
nothing about an image that still holds a frame.

The repair: `CleanDamage g W W'`, decidable on concrete images —
* `W` is clean: the positions passing the acceptance test anywhere on the stream of `W` are as many
  as the frames the reader reads on `W` (no valid frame hidden in a payload, a junk slot or the
  residue);
* wherever the test passes on `W'`, it passes on `W`, at the same position, for the same frame.
`noAcc_of_cleanDamage`: on a `DiskX` disk this implies `NoAcc g (glocs g 0 ais) (streamOf W')` for the
item list of the invariant (genuine frames pass the test where they are — `glocs_accepted` — and a
duplicate-free list included in a list that is not longer is that list, `subset_of_length_le`).
-/
import MRL.Proofs.Img3Read
import MRL.Proofs.LRead

namespace MRL.Img
open MRL Consts Codec Torn G H L Gen

/-! ### the old clause forces an image without any valid frame -/

theorem itemTape_nil (g : Geom) (W : Image) : ItemTape g W [] :=
  ⟨trivial, trivial, 0, streamOf W, 0, by simp [flatJ, zeros]⟩

theorem noAccX_forces_none (g : Geom) (W W' : Image) (h : NoAccidentalFrameImgX g W W') :
    ∀ k x t p, ¬ Accepts g (streamOf W') k x t p := by
  intro k x t p hacc
  have := h [] (itemTape_nil g W) k x t p hacc
  simp [glocs] at this

/-! ### genuine frames pass the test where they are -/

theorem glocs_in_stream (g : Geom) (ais : List AItm) : ∀ (P : Nat) (pre tail : Bytes), pre.length = P →
    Fits g (P % g.B) (frs ais) → (∀ a ∈ ais, RawLen a) → ∀ x ∈ glocs g P ais,
      ((pre ++ flatJ g (P % g.B) ais ++ tail).drop x.1).take (7 + x.2.2.length) =
        encodeFrame x.2.1 x.2.2 := by
  induction ais with
  | nil => intro P pre tail _ _ _ x hx; cases hx
  | cons a ais ih =>
    intro P pre tail hpre hF hraw x hx
    have hF' : Fits g (P % g.B) (a.1.2 :: frs ais) := hF
    rw [G.Fits_pos_cons] at hF'
    have hflat : flatJ g (P % g.B) (a :: ais) = zeros (padLen g (P % g.B)) ++ slot a ++
        flatJ g (G.nextPos g P a.1.2.2.length % g.B) ais := by
      simp only [flatJ, G.frameEndCursor_pos g P _ hF'.1]
    rw [hflat]
    simp only [glocs, List.mem_append] at hx
    rcases hx with hx | hx
    · cases ha : a.2 with
      | some r => rw [ha] at hx; simp at hx
      | none =>
        rw [ha] at hx
        simp only [Option.isNone_none, if_true, List.mem_singleton] at hx
        subst hx
        have hslot : slot a = encodeFrame a.1.2.1 a.1.2.2 := by simp [slot, ha]
        have : pre ++ (zeros (padLen g (P % g.B)) ++ slot a ++ flatJ g (G.nextPos g P a.1.2.2.length % g.B) ais) ++ tail =
            (pre ++ zeros (padLen g (P % g.B))) ++ (encodeFrame a.1.2.1 a.1.2.2 ++
              (flatJ g (G.nextPos g P a.1.2.2.length % g.B) ais ++ tail)) := by
          rw [hslot]; simp only [List.append_assoc]
        rw [this, List.drop_left' (by simp [hpre, hdrPos_eq_pad]), List.take_left' (by simp [length_encodeFrame])]
    · have hsl := slot_length (hraw a List.mem_cons_self)
      have : pre ++ (zeros (padLen g (P % g.B)) ++ slot a ++ flatJ g (G.nextPos g P a.1.2.2.length % g.B) ais) ++ tail =
          (pre ++ zeros (padLen g (P % g.B)) ++ slot a) ++ flatJ g (G.nextPos g P a.1.2.2.length % g.B) ais ++ tail := by
        simp only [List.append_assoc]
      rw [this]
      exact ih (G.nextPos g P a.1.2.2.length) _ tail
        (by simp [G.nextPos, hdrPos_eq_pad, hsl, hpre]; omega) hF'.2
        (fun b hb => hraw b (List.mem_cons_of_mem _ hb)) x hx

/-- positions of genuine frames: header position in its block, the frame fits -/
theorem glocs_fit (g : Geom) (ais : List AItm) : ∀ (P : Nat), Fits g (P % g.B) (frs ais) →
    ∀ x ∈ glocs g P ais, x.1 % g.B + 7 + x.2.2.length ≤ g.B := by
  induction ais with
  | nil => intro P _ x hx; cases hx
  | cons a ais ih =>
    intro P hF x hx
    have hF' : Fits g (P % g.B) (a.1.2 :: frs ais) := hF
    rw [G.Fits_pos_cons] at hF'
    simp only [glocs, List.mem_append] at hx
    rcases hx with hx | hx
    · cases ha : a.2 with
      | some r => rw [ha] at hx; simp at hx
      | none =>
        rw [ha] at hx
        simp only [Option.isNone_none, if_true, List.mem_singleton] at hx
        subst hx
        exact G.maxFrameLen_pos g P _ hF'.1
    · exact ih _ hF'.2 x hx

/-- a frame lying in a block of the stream passes the acceptance test there -/
theorem accepts_of_frame (g : Geom) (S : Bytes) (k x : Nat) (t : FrameType) (p : Bytes)
    (hfit : x + 7 + p.length ≤ g.B) (hlen : p.length < 65536)
    (hbytes : (S.drop (k * g.B + x)).take (7 + p.length) = encodeFrame t p) : Accepts g S k x t p := by
  have hr : (((S.drop (k * g.B)).take g.B).drop x).take (7 + p.length) = encodeFrame t p := by
    rw [List.drop_take, List.drop_drop, List.take_take, Nat.min_eq_left (by omega)]
    exact hbytes
  unfold Accepts
  generalize ((S.drop (k * g.B)).take g.B).drop x = r at hr ⊢
  have h7 : r.take 7 = encodeHeader t p := by
    have := congrArg (List.take 7) hr
    rw [List.take_take, Nat.min_eq_left (by omega)] at this
    rw [this]
    unfold encodeFrame
    rw [List.take_left' (length_encodeHeader t p)]
  have hp : (r.drop 7).take p.length = p := by
    have := congrArg (List.drop 7) hr
    rw [List.drop_take] at this
    have e : 7 + p.length - 7 = p.length := by omega
    rw [e] at this
    rw [this]
    unfold encodeFrame
    rw [List.drop_left' (length_encodeHeader t p)]
  refine ⟨by omega, ?_, ?_, ?_, ?_, ?_⟩
  · rw [h7]; exact isAllZero_encodeHeader t p
  · rw [h7, encodeHeader_getD6]; exact ofCode_code t
  · rw [h7, encodeHeader_len, leNat_leBytes2 _ hlen]; omega
  · rw [h7, encodeHeader_len, leNat_leBytes2 _ hlen]; exact hp.symm
  · rw [h7, encodeHeader_take4, leNat_leBytes4 _ (frameCrc_lt t p)]

/-! ### the positions passing the test, enumerated -/

/-- every (position, frame) passing the acceptance test in the first `N` blocks of `S` -/
def accepted (g : Geom) (S : Bytes) (N : Nat) : List (Nat × Frm) :=
  (List.range N).flatMap fun k => (List.range (g.B - 6)).filterMap fun x =>
    (acceptB g S k x).map fun tp => (k * g.B + x, tp)

theorem mem_accepted (g : Geom) (S : Bytes) (N k x : Nat) (t : FrameType) (p : Bytes) (hk : k < N)
    (h : Accepts g S k x t p) : (k * g.B + x, (t, p)) ∈ accepted g S N := by
  have hB := g.hB
  simp only [HEADER_LEN] at hB
  unfold accepted
  rw [List.mem_flatMap]
  refine ⟨k, List.mem_range.mpr hk, ?_⟩
  rw [List.mem_filterMap]
  refine ⟨x, List.mem_range.mpr (by have := h.1; omega), ?_⟩
  rw [accepts_acceptB g S k x t p h]; rfl

/-- `NoAcc` against the enumerated positions is a finite check -/
theorem noAcc_accepted_of_check (g : Geom) (S S' : Bytes) (N N' : Nat) (hlen : S'.length ≤ N' * g.B)
    (h : checkAll g (accepted g S N) S' N' = true) : NoAcc g (accepted g S N) S' :=
  noAcc_of_check g _ S' N' hlen h

/-! ### a duplicate-free list included in a list that is not longer is that list -/

theorem subset_of_length_le {α : Type} [DecidableEq α] : ∀ (l₁ l₂ : List α), l₁.Nodup → (∀ a ∈ l₁, a ∈ l₂) →
    l₂.length ≤ l₁.length → ∀ c ∈ l₂, c ∈ l₁ := by
  intro l₁
  induction l₁ with
  | nil =>
    intro l₂ _ _ hlen c hc
    have : l₂ = [] := List.eq_nil_of_length_eq_zero (by simpa using hlen)
    rw [this] at hc; cases hc
  | cons a t ih =>
    intro l₂ hnd hsub hlen c hc
    rw [List.nodup_cons] at hnd
    have ha : a ∈ l₂ := hsub a List.mem_cons_self
    have hsub' : ∀ b ∈ t, b ∈ l₂.erase a := by
      intro b hb
      have hne : b ≠ a := by intro e; rw [e] at hb; exact hnd.1 hb
      exact (List.mem_erase_of_ne hne).mpr (hsub b (List.mem_cons_of_mem _ hb))
    have hlen' : (l₂.erase a).length ≤ t.length := by
      rw [List.length_erase_of_mem ha]
      simp only [List.length_cons] at hlen
      omega
    by_cases hca : c = a
    · rw [hca]; exact List.mem_cons_self
    · exact List.mem_cons_of_mem _ (ih (l₂.erase a) hnd.2 hsub' hlen' c ((List.mem_erase_of_ne hca).mpr hc))

/-! ### the byte-level clause -/

def isFrameEv : RdEv → Bool
  | .frame _ _ _ => true
  | .corrupt _ => false

/-- the number of frames the reader reads on a stream of `N` blocks -/
def frameCount (g : Geom) (F : Nat) (S : Bytes) (N : Nat) : Nat :=
  ((scanAt g F S N 0 0).1.filter isFrameEv).length

/-- **the collision clause on bytes**: the image `W` has no valid frame besides those the reader
    reads, and the damage creates none -/
def CleanDamage (g : Geom) (W W' : Image) : Prop :=
  (accepted g (streamOf W) ((streamOf W).length / g.B)).length ≤
    frameCount g ((W.map (·.1)).headD 0) (streamOf W) ((streamOf W).length / g.B) ∧
  NoAcc g (accepted g (streamOf W) ((streamOf W).length / g.B)) (streamOf W')

theorem filter_isFrame_evsJ (ais : List AItm) :
    ((evsJ ais).filter isFrameEv).length = (gfrs ais).length := by
  induction ais with
  | nil => rfl
  | cons a ais ih =>
    simp only [evsJ_cons, gfrs, List.filter_cons] at ih ⊢
    cases ha : a.2 with
    | none => simp [evJ, ha, isFrameEv, ih]
    | some r => simp [evJ, ha, isFrameEv, ih]

/-- **on a `DiskX` disk the byte-level clause gives the clause against the genuine frames of the
    item list of the invariant** -/
theorem noAcc_of_clean (g : Geom) (hB : g.B ≤ 65542) (F : Nat) (cs : List Bytes) (hne : cs ≠ [])
    (hfull : ∀ c ∈ cs, c.length = g.fileBytes) (x : Bool) (ais : List AItm) (res : Bytes) (z0 z1 : Nat)
    (hflat : cs.flatten = flatJ g 0 ais ++ zeros z0 ++ res ++ zeros z1)
    (hfits : Fits g 0 (frs ais)) (htag : Tagged g F 0 (tfs ais)) (hjok : JOK g (cs.length * g.fileBytes) 0 ais)
    (hlast : (cs.length - 1) * g.fileBytes ≤ hdrPos g (endPos g 0 (frs ais)))
    (hres : ResOK g (cs.length * g.fileBytes) (endPos g 0 (frs ais) + z0) (endPos g 0 (frs ais)) res)
    (D : Image) (hX : D = imgOf F cs ++ xtra x (F + cs.length)) (W' : Image) (hc : CleanDamage g D W') :
    NoAcc g (glocs g 0 ais) (streamOf W') := by
  have hB7 := G.Bpos g
  have hstreamD : streamOf D = cs.flatten := by
    rw [hX, streamOf_append, streamOf_imgOf, streamOf_xtra, List.append_nil]
  have hSlen : cs.flatten.length = cs.length * g.K * g.B := by
    rw [flatten_length_full _ _ hfull, mul_fb]
  have hN : (streamOf D).length / g.B = cs.length * g.K := by
    rw [hstreamD, hSlen, Nat.mul_div_cancel _ (by omega)]
  have hF : (D.map (·.1)).headD 0 = F := by
    cases cs with
    | nil => exact absurd rfl hne
    | cons c0 cs' => rw [hX]; simp [imgOf]
  obtain ⟨hcount, hno⟩ := hc
  rw [hN, hF, hstreamD] at hcount
  rw [hN, hstreamD] at hno
  -- the frames read are the genuine items
  obtain ⟨evT, e, ke, ce, zz, hscan, hevT, _⟩ :=
    scan_diskX g hB F cs hne hfull ais res z0 z1 hflat hfits htag hjok hlast hres
  have hfc : frameCount g F cs.flatten (cs.length * g.K) = (glocs g 0 ais).length := by
    unfold frameCount
    rw [hscan]
    simp only [List.filter_append, List.length_append, filter_isFrame_evsJ]
    have : (evT.filter isFrameEv).length = 0 := by
      rcases hevT with rfl | ⟨f, rfl⟩
      · rfl
      · rfl
    rw [this, Nat.add_zero, ← glocs_snd g ais 0, List.length_map]
  rw [hfc] at hcount
  -- genuine frames pass the test where they are
  have hraw := hjok.rawLen
  have hsub : ∀ y ∈ glocs g 0 ais, y ∈ accepted g cs.flatten (cs.length * g.K) := by
    intro y hy
    have hbytes := glocs_in_stream g ais 0 [] (zeros z0 ++ res ++ zeros z1) rfl
      (by rw [G.zero_mod]; exact hfits) hraw y hy
    rw [G.zero_mod] at hbytes
    have hst : [] ++ flatJ g 0 ais ++ (zeros z0 ++ res ++ zeros z1) = cs.flatten := by
      rw [hflat]; simp only [List.nil_append, List.append_assoc]
    rw [hst] at hbytes
    have hfit := glocs_fit g ais 0 (by rw [G.zero_mod]; exact hfits) y hy
    have hlen := congrArg List.length hbytes
    rw [length_encodeFrame, List.length_take, List.length_drop] at hlen
    have hdm : y.1 / g.B * g.B + y.1 % g.B = y.1 := by
      rw [Nat.mul_comm]; exact Nat.div_add_mod y.1 g.B
    have hk : y.1 / g.B < cs.length * g.K := by
      have h1 : y.1 < cs.length * g.K * g.B := by omega
      exact Nat.div_lt_of_lt_mul (by rw [Nat.mul_comm]; exact h1)
    have hacc := accepts_of_frame g cs.flatten (y.1 / g.B) (y.1 % g.B) y.2.1 y.2.2 hfit (by omega)
      (by rw [hdm]; exact hbytes)
    have := mem_accepted g cs.flatten (cs.length * g.K) _ _ _ _ hk hacc
    rw [hdm] at this
    exact this
  have hnd : (glocs g 0 ais).Nodup := by
    have := (located_glocs g ais 0).sorted
    exact this.imp (fun hab he => by rw [he] at hab; exact Nat.lt_irrefl _ hab)
  have hall := subset_of_length_le (glocs g 0 ais) (accepted g cs.flatten (cs.length * g.K)) hnd hsub hcount
  intro k x' t p hacc
  exact hall _ (hno k x' t p hacc)

end MRL.Img
