/-
Crash states of the `BufWriter` model. `crashImage img ops k cut` (the first `k` OS operations, then
the first `cut` bytes of operation `k` if it is a write) is always a *cut state* of the effect
list: the image obtained by applying directly a prefix of the effects, the last one — if it is
a write — possibly cut at any byte. (The `BufWriter` only merges contiguous writes and keeps the
byte order; file-level operations are issued with an empty buffer.)
-/
import MRL.Proofs.StepBuf

namespace MRL.H
open MRL Buf

/-- images reachable by stopping the direct application of the effects `V` at any point -/
inductive CutState : Image → List Effect → Image → Prop
  | stop (img : Image) (V : List Effect) : CutState img V img
  | part (img : Image) (f off : Nat) (d : Bytes) (c : Nat) (V : List Effect) :
      CutState img (.write f off d :: V) (applyOs img (.write f off (d.take c)))
  | next (img : Image) (v : Effect) (V : List Effect) (X : Image) :
      CutState (applyOsOps img (direct v)) V X → CutState img (v :: V) X

theorem crashImage_nil (img : Image) (k cut : Nat) : crashImage img [] k cut = img := by
  simp [crashImage, applyOsOps]

theorem crashImage_succ (img : Image) (o : OsOp) (ops : List OsOp) (k cut : Nat) :
    crashImage img (o :: ops) (k + 1) cut = crashImage (applyOs img o) ops k cut := by
  simp [crashImage, applyOsOps]

theorem crashImage_append_lt (img : Image) (a b : List OsOp) (k cut : Nat) (h : k < a.length) :
    crashImage img (a ++ b) k cut = crashImage img a k cut := by
  induction a generalizing img k with
  | nil => simp at h
  | cons o a ih =>
    cases k with
    | zero => simp [crashImage, applyOsOps]
    | succ k =>
      rw [List.cons_append, crashImage_succ, crashImage_succ]
      exact ih _ _ (by simpa using h)

theorem crashImage_append_ge (img : Image) (a b : List OsOp) (k cut : Nat) (h : a.length ≤ k) :
    crashImage img (a ++ b) k cut = crashImage (applyOsOps img a) b (k - a.length) cut := by
  induction a generalizing img k with
  | nil => simp [applyOsOps]
  | cons o a ih =>
    cases k with
    | zero => simp at h
    | succ k =>
      rw [List.cons_append, crashImage_succ, ih _ _ (by simpa using h)]
      simp [applyOsOps]

theorem crashImage_zero_write (img : Image) (f off : Nat) (d : Bytes) (ops : List OsOp) (cut : Nat) :
    crashImage img (.write f off d :: ops) 0 cut = applyOs img (.write f off (d.take cut)) := by
  simp [crashImage, applyOsOps]

/-- the pending bytes of the buffer as a (virtual) write effect -/
def pendW (b : BufSt) : List Effect := if b.pend = [] then [] else [.write b.file b.off b.pend]

theorem CutState.merge {img : Image} {f o : Nat} {p d : Bytes} {V : List Effect} {X : Image}
    (h : CutState img (.write f o (p ++ d) :: V) X) :
    CutState img (.write f o p :: .write f (o + p.length) d :: V) X := by
  cases h with
  | stop => exact .stop _ _
  | part _ _ _ _ c _ =>
    by_cases hc : c ≤ p.length
    · rw [List.take_append_of_le_length hc]
      exact .part _ _ _ _ c _
    · have : (p ++ d).take c = p ++ d.take (c - p.length) := by
        rw [List.take_append, List.take_of_length_le (by omega)]
      rw [this, ← write_write]
      exact .next _ _ _ _ (by
        simp only [direct, applyOsOps, List.foldl_cons, List.foldl_nil]
        exact .part _ _ _ _ _ _)
  | next _ _ _ _ h1 =>
    refine .next _ _ _ _ (.next _ _ _ _ ?_)
    simp only [direct, applyOsOps, List.foldl_cons, List.foldl_nil] at h1 ⊢
    rw [write_write]; exact h1

/-- an effect that changes no image can be inserted anywhere -/
theorem CutState.insert_noop (v : Effect) (hv : ∀ img, applyOsOps img (direct v) = img) :
    ∀ (A : List Effect) {img : Image} {V : List Effect} {X : Image},
    CutState img (A ++ V) X → CutState img (A ++ v :: V) X := by
  intro A
  induction A with
  | nil =>
    intro img V X h
    exact .next _ _ _ _ (by rw [hv]; exact h)
  | cons a A ih =>
    intro img V X h
    cases h with
    | stop => exact .stop _ _
    | part _ _ _ _ c _ => exact .part _ _ _ _ c _
    | next _ _ _ _ h1 => exact .next _ _ _ _ (ih h1)

theorem CutState.append_left {img : Image} {A : List Effect} {X : Image} (B : List Effect)
    (h : CutState img A X) : CutState img (A ++ B) X := by
  induction h with
  | stop => exact .stop _ _
  | part _ _ _ _ c _ => exact .part _ _ _ _ c _
  | next _ _ _ _ _ ih => exact .next _ _ _ _ ih

theorem CutState.append_right {img : Image} (A : List Effect) {B : List Effect} {X : Image}
    (h : CutState (applyOsOps img (directOps A)) B X) : CutState img (A ++ B) X := by
  induction A generalizing img with
  | nil => simpa [directOps, applyOsOps] using h
  | cons a A ih =>
    refine .next _ _ _ _ (ih ?_)
    rw [directOps_cons, applyOsOps_append] at h
    exact h

theorem CutState.of_append {img : Image} (A : List Effect) {B : List Effect} {X : Image}
    (h : CutState img (A ++ B) X) :
    CutState img A X ∨ CutState (applyOsOps img (directOps A)) B X := by
  induction A generalizing img with
  | nil => right; simpa [directOps, applyOsOps] using h
  | cons a A ih =>
    cases h with
    | stop => left; exact .stop _ _
    | part _ _ _ _ c _ => left; exact .part _ _ _ _ c _
    | next _ _ _ _ h1 =>
      rcases ih h1 with h2 | h2
      · left; exact .next _ _ _ _ h2
      · right; rw [directOps_cons, applyOsOps_append]; exact h2

theorem CutState.full (A : List Effect) : ∀ img : Image, CutState img A (applyOsOps img (directOps A)) := by
  induction A with
  | nil => intro img; exact .stop _ _
  | cons a A ih =>
    intro img
    rw [directOps_cons, applyOsOps_append]
    exact .next _ _ _ _ (ih _)

theorem pendW_nil (b : BufSt) (h : b.pend = []) : pendW b = [] := by simp [pendW, h]
theorem pendW_ne (b : BufSt) (h : b.pend ≠ []) : pendW b = [.write b.file b.off b.pend] := by simp [pendW, h]

theorem applyOsOps_one (img : Image) (o : OsOp) : applyOsOps img [o] = applyOs img o := rfl

/-- one effect: crashes inside the operations it emits, and crashes later -/
theorem bufStep_cut (cap : Nat) (b : BufSt) (st st1 : St) (e : Effect) (es : List Effect)
    (hinv : Inv cap b st) (hr : run1 st e = some st1) (img : Image) :
    (∀ k cut, k < (bufStep cap b e).2.length →
      CutState img (pendW b ++ e :: es) (crashImage img (bufStep cap b e).2 k cut)) ∧
    (∀ X, CutState (applyOsOps img (bufStep cap b e).2) (pendW (bufStep cap b e).1 ++ es) X →
      CutState img (pendW b ++ e :: es) X) := by
  -- generic pieces
  have noop : ∀ v : Effect, (∀ img, applyOsOps img (direct v) = img) →
      ∀ X, CutState img (pendW b ++ es) X → CutState img (pendW b ++ v :: es) X :=
    fun v hv X h => CutState.insert_noop v hv (pendW b) h
  have clean : (if st = none then some (none : St) else none) = some st1 → b.pend = [] := by
    intro h
    split at h
    · rename_i hst
      rcases hinv.1 with h1 | h1
      · exact h1
      · rw [hst] at h1; cases h1
    · cases h
  have fileop : ∀ (v : Effect) (o : OsOp), direct v = [o] → (∀ f off d, o ≠ .write f off d) →
      bufStep cap b v = (b, [o]) → b.pend = [] →
      (∀ k cut, k < (bufStep cap b v).2.length →
        CutState img (pendW b ++ v :: es) (crashImage img (bufStep cap b v).2 k cut)) ∧
      (∀ X, CutState (applyOsOps img (bufStep cap b v).2) (pendW (bufStep cap b v).1 ++ es) X →
        CutState img (pendW b ++ v :: es) X) := by
    intro v o hd hnw hbs hp
    rw [hbs]
    simp only [pendW_nil b hp, List.nil_append, List.length_singleton]
    constructor
    · intro k cut hk
      have : k = 0 := by omega
      subst this
      have : crashImage img [o] 0 cut = img := by
        cases o <;> first | (exfalso; exact hnw _ _ _ rfl) | simp [crashImage, applyOsOps]
      rw [this]; exact .stop _ _
    · intro X h
      exact .next _ _ _ _ (by rw [hd]; exact h)
  cases e with
  | write f off data =>
    simp only [run1] at hr
    by_cases hc : data ≠ [] ∧ (st = none ∨ st = some (f, off))
    case neg => rw [if_neg hc] at hr; cases hr
    obtain ⟨hne, hst⟩ := hc
    -- where the pending bytes end, if any
    have hfo : b.pend ≠ [] → f = b.file ∧ off = b.off + b.pend.length := by
      intro hp
      have hs : st = some (b.file, b.off + b.pend.length) := by
        rcases hinv.1 with h | h
        · exact absurd h hp
        · exact h
      rcases hst with h | h
      · rw [h] at hs; cases hs
      · rw [h] at hs
        injection hs with hs
        injection hs with h1 h2
        exact ⟨h1, h2⟩
    -- pushing onto the buffer
    have hpush : ∀ X, CutState img (pendW (push b f off data) ++ es) X →
        CutState img (pendW b ++ .write f off data :: es) X := by
      intro X h
      by_cases hp : b.pend = []
      · have : push b f off data = { pend := data, file := f, off := off } := by simp [push, hp]
        rw [this, pendW_ne _ hne] at h
        rw [pendW_nil b hp]
        exact h
      · obtain ⟨rfl, rfl⟩ := hfo hp
        have : push b b.file (b.off + b.pend.length) data = { b with pend := b.pend ++ data } := by
          simp [push, hp]
        rw [this, pendW_ne _ (by simp [hp])] at h
        rw [pendW_ne b hp]
        exact CutState.merge h
    have hpush0 : ∀ (img' : Image) X, CutState img' (pendW (push {} f off data) ++ es) X →
        CutState img' (.write f off data :: es) X := by
      intro img' X h
      have : push {} f off data = { pend := data, file := f, off := off } := by simp [push]
      rw [this, pendW_ne _ hne] at h
      exact h
    rw [bufStep_write]
    by_cases h1 : data.length < cap - b.pend.length
    · rw [if_pos h1]
      exact ⟨fun k cut hk => by simp at hk, fun X h => hpush X (by simpa [applyOsOps] using h)⟩
    · rw [if_neg h1]
      by_cases h2 : data.length > cap - b.pend.length
      · rw [if_pos h2]
        by_cases h3 : data.length ≥ cap
        · rw [if_pos h3]
          by_cases hp : b.pend = []
          · simp only [flushOps_nil b hp, List.nil_append, pendW_nil b hp, List.length_singleton]
            constructor
            · intro k cut hk
              have : k = 0 := by omega
              subst this
              rw [crashImage_zero_write]; exact .part _ _ _ _ _ _
            · intro X h
              have hn : pendW ({} : BufSt) = [] := rfl
              rw [hn, List.nil_append] at h
              exact .next _ _ _ _ h
          · obtain ⟨rfl, rfl⟩ := hfo hp
            simp only [flushOps_ne b hp, pendW_ne b hp, List.cons_append, List.nil_append,
              List.length_cons, List.length_nil]
            constructor
            · intro k cut hk
              have : k = 0 ∨ k = 1 := by omega
              rcases this with rfl | rfl
              · rw [crashImage_zero_write]; exact .part _ _ _ _ _ _
              · rw [crashImage_succ, crashImage_zero_write]
                exact .next _ _ _ _ (.part _ _ _ _ _ _)
            · intro X h
              have hn : pendW ({} : BufSt) = [] := rfl
              rw [hn, List.nil_append] at h
              exact .next _ _ _ _ (.next _ _ _ _ h)
        · rw [if_neg h3]
          by_cases hp : b.pend = []
          · simp only [flushOps_nil b hp, pendW_nil b hp, List.nil_append, List.length_nil]
            exact ⟨fun k cut hk => by omega, fun X h => hpush0 _ X (by simpa [applyOsOps] using h)⟩
          · simp only [flushOps_ne b hp, pendW_ne b hp, List.cons_append, List.nil_append,
              List.length_singleton]
            constructor
            · intro k cut hk
              have : k = 0 := by omega
              subst this
              rw [crashImage_zero_write]; exact .part _ _ _ _ _ _
            · intro X h
              exact .next _ _ _ _ (hpush0 _ X h)
      · rw [if_neg h2]
        by_cases h3 : data.length ≥ cap
        · rw [if_pos h3]
          have hp : b.pend = [] := by
            apply List.eq_nil_of_length_eq_zero
            have := hinv.2
            have hd : data.length ≠ 0 := fun h => hne (List.eq_nil_of_length_eq_zero h)
            omega
          simp only [pendW_nil b hp, List.nil_append, List.length_singleton]
          constructor
          · intro k cut hk
            have : k = 0 := by omega
            subst this
            rw [crashImage_zero_write]; exact .part _ _ _ _ _ _
          · intro X h
            exact .next _ _ _ _ h
        · rw [if_neg h3]
          exact ⟨fun k cut hk => by simp at hk, fun X h => hpush X (by simpa [applyOsOps] using h)⟩
  | flush =>
    have hbs : bufStep cap b .flush = ({}, b.flushOps) := rfl
    rw [hbs]
    have hn : pendW ({} : BufSt) = [] := rfl
    by_cases hp : b.pend = []
    · simp only [flushOps_nil b hp, pendW_nil b hp, hn, List.nil_append, List.length_nil]
      exact ⟨fun k cut hk => by omega, fun X h => .next _ _ _ _ (by simpa [applyOsOps, direct] using h)⟩
    · simp only [flushOps_ne b hp, pendW_ne b hp, hn, List.nil_append, List.cons_append,
        List.length_singleton]
      constructor
      · intro k cut hk
        have : k = 0 := by omega
        subst this
        rw [crashImage_zero_write]; exact .part _ _ _ _ _ _
      · intro X h
        exact .next _ _ _ _ (.next _ _ _ _ (by simpa [applyOsOps, direct] using h))
  | fsyncFile f =>
    have hbs : bufStep cap b (.fsyncFile f) = (b, [.sync]) := rfl
    rw [hbs]
    constructor
    · intro k cut hk
      have : k = 0 := by simp at hk; omega
      subst this
      have : crashImage img [OsOp.sync] 0 cut = img := by simp [crashImage, applyOsOps]
      rw [this]; exact .stop _ _
    · intro X h
      exact noop _ (fun img => rfl) X (by simpa [applyOsOps, applyOs] using h)
  | fsyncDir =>
    have hbs : bufStep cap b .fsyncDir = (b, [.sync]) := rfl
    rw [hbs]
    constructor
    · intro k cut hk
      have : k = 0 := by simp at hk; omega
      subst this
      have : crashImage img [OsOp.sync] 0 cut = img := by simp [crashImage, applyOsOps]
      rw [this]; exact .stop _ _
    · intro X h
      exact noop _ (fun img => rfl) X (by simpa [applyOsOps, applyOs] using h)
  | listDir =>
    have hbs : bufStep cap b .listDir = (b, []) := rfl
    rw [hbs]
    exact ⟨fun k cut hk => by simp at hk, fun X h => noop _ (fun img => rfl) X (by simpa [applyOsOps] using h)⟩
  | openFile f =>
    have hbs : bufStep cap b (.openFile f) = (b, []) := rfl
    rw [hbs]
    exact ⟨fun k cut hk => by simp at hk, fun X h => noop _ (fun img => rfl) X (by simpa [applyOsOps] using h)⟩
  | readBlock f =>
    have hbs : bufStep cap b (.readBlock f) = (b, []) := rfl
    rw [hbs]
    exact ⟨fun k cut hk => by simp at hk, fun X h => noop _ (fun img => rfl) X (by simpa [applyOsOps] using h)⟩
  | create f => exact fileop _ (.create f) rfl (fun _ _ _ h => by cases h) rfl (clean hr)
  | setLen f n => exact fileop _ (.setLen f n) rfl (fun _ _ _ h => by cases h) rfl (clean hr)
  | ensureLen f n => exact fileop _ (.ensureLen f n) rfl (fun _ _ _ h => by cases h) rfl (clean hr)
  | unlink f => exact fileop _ (.unlink f) rfl (fun _ _ _ h => by cases h) rfl (clean hr)

/-- **every crash image is a cut state of the effects** -/
theorem crash_cut (cap : Nat) (es : List Effect) : ∀ (b : BufSt) (st st' : St) (img : Image),
    Inv cap b st → run st es = some st' → ∀ k cut,
    CutState img (pendW b ++ es) (crashImage img (toOsOps cap b es).2 k cut) := by
  induction es with
  | nil =>
    intro b st st' img _ _ k cut
    simp only [toOsOps, crashImage_nil]
    exact .stop _ _
  | cons e es ih =>
    intro b st st' img hinv hr k cut
    simp only [run] at hr
    cases h1 : run1 st e with
    | none => rw [h1] at hr; cases hr
    | some st1 =>
      rw [h1] at hr
      simp only [Option.bind_some] at hr
      obtain ⟨hinv1, _⟩ := bufStep_ok cap b st st1 e hinv h1
      obtain ⟨hA, hB⟩ := bufStep_cut cap b st st1 e es hinv h1 img
      rw [toOsOps_cons]
      simp only
      by_cases hk : k < (bufStep cap b e).2.length
      · rw [crashImage_append_lt _ _ _ _ _ hk]
        exact hA k cut hk
      · rw [crashImage_append_ge _ _ _ _ _ (by omega)]
        exact hB _ (ih _ st1 st' _ hinv1 hr _ cut)

end MRL.H
