/-
Effect lists with the LATE unlinks undone. `skipLate u es`: the effects `es` in which, of the unlinks
issued after the last `fsync(dir)`, only the first `u` are kept. `pendAfter`: are there unlinks not
covered by an `fsync(dir)`. List lemmas only.
-/
import MRL.Proofs.PDRun

namespace MRL.PDC
open MRL Buf H L P PD

def isDS : Effect → Bool
  | .fsyncDir => true
  | _ => false

def hasDS (es : List Effect) : Bool := es.any isDS

def NoUnl (es : List Effect) : Prop := ∀ e ∈ es, isUnl e = false

/-- keep the first `u` unlinks -/
def keepU : Nat → List Effect → List Effect
  | _, [] => []
  | u, e :: es =>
    if isUnl e then (match u with
      | 0 => keepU 0 es
      | u + 1 => e :: keepU u es)
    else e :: keepU u es

/-- of the unlinks after the last `fsync(dir)` keep the first `u` -/
def skipLate (u : Nat) : List Effect → List Effect
  | [] => []
  | e :: es => if hasDS es then e :: skipLate u es else (if isDS e then e :: keepU u es else keepU u (e :: es))

/-- number of unlinks in a list -/
def countU : List Effect → Nat
  | [] => 0
  | e :: es => (if isUnl e then 1 else 0) + countU es

/-- number of unlinks after the last `fsync(dir)` -/
def lateCount : List Effect → Nat
  | [] => 0
  | e :: es => if hasDS es then lateCount es else (if isDS e then countU es else countU (e :: es))

theorem hasDS_append (a b : List Effect) : hasDS (a ++ b) = (hasDS a || hasDS b) := by simp [hasDS]

theorem keepU_noUnl : ∀ (u : Nat) (es : List Effect), NoUnl es → keepU u es = es
  | _, [], _ => rfl
  | u, e :: es, h => by
    have he := h e List.mem_cons_self
    simp only [keepU, he, Bool.false_eq_true, if_false]
    rw [keepU_noUnl u es (fun x hx => h x (List.mem_cons_of_mem _ hx))]

theorem keepU_append_noUnl : ∀ (u : Nat) (a b : List Effect), NoUnl b → keepU u (a ++ b) = keepU u a ++ b
  | u, [], b, h => keepU_noUnl u b h
  | u, e :: a, b, h => by
    simp only [List.cons_append, keepU]
    split
    · cases u with
      | zero => exact keepU_append_noUnl 0 a b h
      | succ u => simp only; rw [keepU_append_noUnl u a b h]; rfl
    · rw [keepU_append_noUnl u a b h]; rfl

theorem keepU_noUnl_append : ∀ (u : Nat) (a b : List Effect), NoUnl a → keepU u (a ++ b) = a ++ keepU u b
  | _, [], _, _ => rfl
  | u, e :: a, b, h => by
    have he := h e List.mem_cons_self
    simp only [List.cons_append, keepU, he, Bool.false_eq_true, if_false]
    rw [keepU_noUnl_append u a b (fun x hx => h x (List.mem_cons_of_mem _ hx))]

theorem keepU_unlinks : ∀ (u : Nat) (U : List Nat), keepU u (U.map Effect.unlink) = (U.take u).map Effect.unlink
  | _, [] => by simp [keepU]
  | 0, f :: U => by
    simp only [List.map_cons, keepU, isUnl, if_true, List.take_zero, List.map_nil]
    have := keepU_unlinks 0 U
    simpa using this
  | u + 1, f :: U => by
    simp only [List.map_cons, keepU, isUnl, if_true, List.take_succ_cons]
    rw [keepU_unlinks u U]

theorem keepU_snoc_unlink : ∀ (u : Nat) (x : List Effect) (f : Nat),
    keepU u (x ++ [Effect.unlink f]) = keepU u x ++ (if countU x < u then [Effect.unlink f] else [])
  | u, [], f => by
    cases u <;> simp [keepU, isUnl, countU]
  | u, e :: x, f => by
    simp only [List.cons_append, keepU, countU]
    by_cases he : isUnl e = true
    · simp only [he, if_true]
      cases u with
      | zero =>
        have := keepU_snoc_unlink 0 x f
        simp only [Nat.not_lt_zero, if_false, List.append_nil] at this ⊢
        exact this
      | succ u =>
        simp only
        rw [keepU_snoc_unlink u x f]
        have : (1 + countU x < u + 1) = (countU x < u) := by
          apply propext; omega
        simp only [this, List.cons_append]
    · have he' : isUnl e = false := by simpa using he
      simp only [he', Bool.false_eq_true, if_false, Nat.zero_add, List.cons_append]
      rw [keepU_snoc_unlink u x f]

theorem skipLate_noDS (u : Nat) : ∀ es : List Effect, hasDS es = false → skipLate u es = keepU u es
  | [], _ => rfl
  | e :: es, h => by
    simp only [hasDS, List.any_cons, Bool.or_eq_false_iff] at h
    have h2 : hasDS es = false := h.2
    simp only [skipLate, h2, Bool.false_eq_true, if_false, h.1]

theorem skipLate_noUnl (u : Nat) : ∀ es : List Effect, NoUnl es → skipLate u es = es
  | [], _ => rfl
  | e :: es, h => by
    have ht : NoUnl es := fun x hx => h x (List.mem_cons_of_mem _ hx)
    simp only [skipLate]
    split
    · rw [skipLate_noUnl u es ht]
    · split
      · rw [keepU_noUnl u es ht]
      · exact keepU_noUnl u _ h

/-- a later `fsync(dir)`: nothing before it is undone -/
theorem skipLate_append_ds (u : Nat) (b : List Effect) (hb : hasDS b = true) : ∀ a : List Effect,
    skipLate u (a ++ b) = a ++ skipLate u b
  | [] => rfl
  | e :: a => by
    have : hasDS (a ++ b) = true := by rw [hasDS_append, hb, Bool.or_true]
    simp only [List.cons_append, skipLate, this, if_true]
    rw [skipLate_append_ds u b hb a]

/-- later effects without `fsync(dir)` and without unlink are kept as they are -/
theorem skipLate_append_quiet (u : Nat) (b : List Effect) (hb : hasDS b = false) (hu : NoUnl b) :
    ∀ a : List Effect, skipLate u (a ++ b) = skipLate u a ++ b
  | [] => by rw [List.nil_append, skipLate_noDS u b hb, keepU_noUnl u b hu]; rfl
  | e :: a => by
    have hds : hasDS (a ++ b) = hasDS a := by rw [hasDS_append, hb, Bool.or_false]
    simp only [List.cons_append, skipLate, hds]
    split
    · rw [skipLate_append_quiet u b hb hu a]; rfl
    · split
      · rw [keepU_append_noUnl u a b hu]; rfl
      · have := keepU_append_noUnl u (e :: a) b hu
        simpa using this

/-- an unlink-free part followed by a block of unlinks -/
theorem skipLate_noUnl_unlinks (u : Nat) (U : List Nat) : ∀ a : List Effect, NoUnl a →
    skipLate u (a ++ U.map Effect.unlink) = a ++ (U.take u).map Effect.unlink
  | [], _ => by
    have : hasDS (U.map Effect.unlink) = false := by
      simp only [hasDS, List.any_map, List.any_eq_false]
      intro x _; simp [isDS]
    rw [List.nil_append, skipLate_noDS u _ this, keepU_unlinks]; rfl
  | e :: a, h => by
    have ht : NoUnl a := fun x hx => h x (List.mem_cons_of_mem _ hx)
    have he := h e List.mem_cons_self
    have hU : hasDS (U.map Effect.unlink) = false := by
      simp only [hasDS, List.any_map, List.any_eq_false]
      intro x _; simp [isDS]
    have hds : hasDS (a ++ U.map Effect.unlink) = hasDS a := by rw [hasDS_append, hU, Bool.or_false]
    simp only [List.cons_append, skipLate, hds]
    split
    · rw [skipLate_noUnl_unlinks u U a ht]
    · split
      · rw [keepU_noUnl_append u a _ ht, keepU_unlinks]
      · simp only [keepU, he, Bool.false_eq_true, if_false]
        rw [keepU_noUnl_append u a _ ht, keepU_unlinks]

/-- one more effect -/
theorem skipLate_snoc (u : Nat) (es : List Effect) (e : Effect) :
    skipLate u (es ++ [e]) =
      if isDS e then es ++ [e]
      else if isUnl e then skipLate u es ++ (if lateCount es < u then [e] else [])
      else skipLate u es ++ [e] := by
  by_cases hd : isDS e = true
  · rw [if_pos hd, skipLate_append_ds u [e] (by simp [hasDS, hd])]
    have : skipLate u [e] = [e] := by simp [skipLate, hasDS, hd, keepU]
    rw [this]
  · have hd' : isDS e = false := by simpa using hd
    rw [if_neg hd]
    by_cases hu : isUnl e = true
    · rw [if_pos hu]
      obtain ⟨f, rfl⟩ : ∃ f, e = Effect.unlink f := by cases e <;> first | exact ⟨_, rfl⟩ | cases hu
      induction es with
      | nil => cases u <;> simp [skipLate, hasDS, isDS, keepU, isUnl, lateCount]
      | cons x es ih =>
        have hds : hasDS (es ++ [Effect.unlink f]) = hasDS es := by
          rw [hasDS_append]; simp [hasDS, isDS]
        simp only [List.cons_append, skipLate, hds, lateCount]
        split
        · rw [ih]; rfl
        · split
          · rw [keepU_snoc_unlink]; rfl
          · have := keepU_snoc_unlink u (x :: es) f
            simpa using this
    · have hu' : isUnl e = false := by simpa using hu
      rw [if_neg hu]
      exact skipLate_append_quiet u [e] (by simp [hasDS, hd']) (fun x hx => by
        rw [List.mem_singleton] at hx; rw [hx]; exact hu') es

/-- unlinks pending after the effects (`p`: before them) -/
def pendAfter (p : Bool) (es : List Effect) : Bool :=
  es.foldl (fun p e => if isDS e then false else if isUnl e then true else p) p

theorem pendAfter_append (p : Bool) (a b : List Effect) : pendAfter p (a ++ b) = pendAfter (pendAfter p a) b := by
  simp [pendAfter, List.foldl_append]

theorem pendAfter_quiet (p : Bool) : ∀ es : List Effect, hasDS es = false → NoUnl es → pendAfter p es = p
  | [], _, _ => rfl
  | e :: es, h, hu => by
    simp only [hasDS, List.any_cons, Bool.or_eq_false_iff] at h
    have he := hu e List.mem_cons_self
    simp only [pendAfter, List.foldl_cons, h.1, he, Bool.false_eq_true, if_false]
    exact pendAfter_quiet p es h.2 (fun x hx => hu x (List.mem_cons_of_mem _ hx))

theorem pendAfter_end_ds (p : Bool) (es : List Effect) : pendAfter p (es ++ [Effect.fsyncDir]) = false := by
  simp [pendAfter, List.foldl_append, isDS]

theorem take_mid (a : List Effect) (U : List Nat) (s : List Effect) (k : Nat) (hk : k ≤ U.length) :
    (a ++ U.map Effect.unlink ++ s).take (a.length + k) = a ++ (U.take k).map Effect.unlink := by
  have hlen : (a ++ U.map Effect.unlink).length = a.length + U.length := by simp
  rw [List.take_append_of_le_length (by rw [hlen]; omega), List.take_append,
    List.take_of_length_le (by omega), ← List.map_take]
  congr 3
  omega

theorem take_min_len {α : Type} (l : List α) (u : Nat) : l.take u = l.take (min u l.length) := by
  rw [List.take_eq_take_iff]; simp

/-- an event `a ++ unlinks ++ s` (`a` unlink-free, `s` only flush/fsync): every image of a prefix
    with its late unlinks undone is the image of a (shorter) prefix -/
theorem skipLate_event (u : Nat) (D : Image) (a : List Effect) (U : List Nat) (s : List Effect)
    (ha : NoUnl a) (hs : IsSyncL s) (n : Nat) :
    ∃ q, q ≤ (a ++ U.map Effect.unlink ++ s).length ∧
      applyOsOps D (directOps (skipLate u ((a ++ U.map Effect.unlink ++ s).take n))) =
        applyOsOps D (directOps ((a ++ U.map Effect.unlink ++ s).take q)) := by
  have hsU : NoUnl s := by
    intro e he
    rcases hs e he with rfl | ⟨f, rfl⟩ | rfl <;> rfl
  have hlen : (a ++ U.map Effect.unlink).length = a.length + U.length := by simp
  have htot : (a ++ U.map Effect.unlink ++ s).length = a.length + U.length + s.length := by simp; omega
  by_cases h1 : n ≤ a.length
  · refine ⟨n, by rw [htot]; omega, ?_⟩
    rw [List.append_assoc, List.take_append_of_le_length h1,
      skipLate_noUnl u _ (fun e he => ha e (List.mem_of_mem_take he))]
  · by_cases h2 : n ≤ a.length + U.length
    · have htk : (a ++ U.map Effect.unlink ++ s).take n = a ++ (U.take (n - a.length)).map Effect.unlink := by
        have := take_mid a U s (n - a.length) (by omega)
        rwa [show a.length + (n - a.length) = n by omega] at this
      refine ⟨a.length + min u (n - a.length), by rw [htot]; omega, ?_⟩
      rw [htk, skipLate_noUnl_unlinks u _ a ha, take_mid a U s _ (by omega), List.take_take]
    · have htk : (a ++ U.map Effect.unlink ++ s).take n =
          (a ++ U.map Effect.unlink) ++ s.take (n - (a.length + U.length)) := by
        rw [List.take_append, List.take_of_length_le (by rw [hlen]; omega), hlen]
      have hsk : NoUnl (s.take (n - (a.length + U.length))) := fun e he => hsU e (List.mem_of_mem_take he)
      cases hds : hasDS (s.take (n - (a.length + U.length))) with
      | true =>
        refine ⟨min n (a ++ U.map Effect.unlink ++ s).length, Nat.min_le_right _ _, ?_⟩
        rw [← take_min_len, htk, skipLate_append_ds u _ hds, skipLate_noUnl u _ hsk]
      | false =>
        refine ⟨a.length + min u U.length, by rw [htot]; omega, ?_⟩
        rw [htk, skipLate_append_quiet u _ hds hsk, skipLate_noUnl_unlinks u U a ha, directOps_append,
          applyOsOps_append, syncL_apply (fun v hv => hs v (List.mem_of_mem_take hv)),
          take_mid a U s _ (Nat.min_le_right _ _), ← take_min_len]

end MRL.PDC
