/-
One call from a relaxed state, decomposed for the crash analysis: its effects are a write part
`A` (no unlink), the unlinks `U` of the GC pass, and trailing flush/fsync effects `S`; what
`recoverPre` returns on every crash state of each part.
-/
import MRL.Proofs.LUnlink
import MRL.Proofs.HDecomp

namespace MRL.L
open MRL Codec Consts G H Torn Log Buf C05 C01J

theorem xinvres_of_cinvx (g : Geom) (hB : g.B ≤ 65542) {l : Log} {J : List JE} {D : Image} (h : CInvX g l J D)
    (hwf : ∀ j ∈ J, C07.WF j.e) (policy : Policy) :
    ∃ (J' : List JE) (lp : Log) (io F' : Nat),
      recoverPre g D policy none = .ok (lp, [.ensureLen F' g.fileBytes], io) ∧ lp.files.headD 0 = F' ∧
      CInvX g lp J' D ∧ (∀ j ∈ J', C07.WF j.e) ∧ lp.policy = policy ∧ AbsEq lp.queues l.queues := by
  obtain ⟨J', lp, io, hrec, hc, hw, hab, hpol, hhead⟩ := open_okX g hB h hwf policy
  exact ⟨J', lp, io, _, hrec, hhead, hc, hw, hpol, hab⟩

theorem step_decompX (g : Geom) (hB : g.B ≤ 65542) {l : Log} {J : List JE} {D : Image} (h : CInvX g l J D)
    (c : Call) (tick : Bool) (order : List Bytes)
    (hfits : ∀ j ∈ J ++ l.stepJ g c order, C07.WF j.e)
    (htorn : TornEffs (l.step g c tick order).2.2) :
    ∃ (A : List Effect) (U : List Nat) (S : List Effect),
      (l.step g c tick order).2.2 = A ++ U.map Effect.unlink ++ S ∧
      (∀ f, Effect.unlink f ∉ A) ∧ IsSyncL S ∧
      (∀ (w : Bool) X, CutW w D A X → XInvRes g l.queues (l.step g c tick order).1.queues X) ∧
      (∀ k, 0 < k → k ≤ U.length →
        XInvRes g (l.step g c tick order).1.queues (l.step g c tick order).1.queues
          (applyOsOps (applyOsOps D (directOps A)) ((U.take k).map OsOp.unlink))) ∧
      XInvRes g l.queues (l.step g c tick order).1.queues (applyOsOps D (directOps (l.step g c tick order).2.2)) := by
  have hInv' : Inv (l.step g c tick order).1 := (C05_refines g l h.jinv.h.inv c tick order).2.2
  have hfinal := cinvx_step g h c tick order
  have hfin : XInvRes g l.queues (l.step g c tick order).1.queues
      (applyOsOps D (directOps (l.step g c tick order).2.2)) := by
    intro policy
    obtain ⟨J', lp, io, F', a1, a2, a3, a4, a5, a6⟩ := xinvres_of_cinvx g hB hfinal hfits policy
    exact ⟨J', lp, io, F', a1, a2, a3, a4, a5, Or.inr a6⟩
  have hwfJ : ∀ j ∈ J, C07.WF j.e := fun j hj => hfits j (List.mem_append_left _ hj)
  rcases step_full2 g l h.jinv.h.inv c tick order with
    ⟨hj, hl, hsy⟩ | ⟨e, qs', sy, hewf, hre, hsy, (⟨hj, hl, heff⟩ | ⟨hj, hl, heff⟩)⟩
  · -- nothing written
    refine ⟨[], [], (l.step g c tick order).2.2, by simp, (fun f hf => by cases hf), hsy, ?_,
      (fun k hk0 hk => by simp at hk; omega), hfin⟩
    intro w X hX
    rw [hX.nil_inv]
    have hres : XInvRes g l.queues (l.step g c tick order).1.queues D := by
      intro policy
      obtain ⟨J', lp, io, F', a1, a2, a3, a4, a5, a6⟩ := xinvres_of_cinvx g hB h hwfJ policy
      exact ⟨J', lp, io, F', a1, a2, a3, a4, a5, Or.inl a6⟩
    exact hres
  · -- one entry, no GC
    rw [hl] at hInv'
    have hq1 : (l.step g c tick order).1.queues = qs' := by rw [hl]
    refine ⟨(Log.writeEntry g l e).2.1, [], sy, by rw [heff]; simp,
      no_unlink_of_unlinked (Step.writeEntry_unlinked g l e), hsy, ?_,
      (fun k hk0 hk => by simp at hk; omega), hfin⟩
    intro w X hX
    rw [hq1]
    have hwf' : ∀ j ∈ J ++ l.je g e :: touchesJ g { (Log.writeEntry g l e).1 with queues := qs' } [],
        C07.WF j.e := by
      intro j hj'
      apply hfits j
      rw [hj]; simpa [touchesJ] using hj'
    exact write_phase_crashX g hB h e qs' hewf hre hInv' [] (fun n hn => by cases hn) hwf'
      (htorn.mono (by
        intro v hv
        rw [heff]
        simp only [writeTouches, List.append_nil] at hv
        exact List.mem_append_left _ hv))
      w X (by simpa [writeTouches] using hX)
  · -- one entry, then a GC pass
    have hq' : (runGc g { (Log.writeEntry g l e).1 with queues := qs' } order).1.queues = qs' :=
      runGc_queues g _ order
    have hq1 : (l.step g c tick order).1.queues = qs' := by rw [hl]; exact hq'
    rw [hl] at hInv'
    have hInv2 : Inv ({ (Log.writeEntry g l e).1 with queues := qs' } : Log) :=
      Inv.of_queues (l := (runGc g { (Log.writeEntry g l e).1 with queues := qs' } order).1) hq'.symm hInv'
    have h2 := cinvx_write g h e qs' hewf hre hInv2
    rcases runGc_full g { (Log.writeEntry g l e).1 with queues := qs' } order with ⟨hr1, hr2⟩ | ⟨names, hr1, hr2⟩
    · -- the GC pass does nothing
      rw [hr1] at heff
      rw [hr2] at hj
      refine ⟨(Log.writeEntry g l e).2.1, [], sy, by rw [heff]; simp,
        no_unlink_of_unlinked (Step.writeEntry_unlinked g l e), hsy, ?_,
        (fun k hk0 hk => by simp at hk; omega), hfin⟩
      intro w X hX
      rw [hq1]
      have hwf' : ∀ j ∈ J ++ l.je g e :: touchesJ g { (Log.writeEntry g l e).1 with queues := qs' } [],
          C07.WF j.e := by
        intro j hj'
        apply hfits j
        rw [hj]; simpa [touchesJ] using hj'
      exact write_phase_crashX g hB h e qs' hewf hre hInv2 [] (fun n hn => by cases hn) hwf'
        (htorn.mono (by
          intro v hv
          rw [heff]
          simp only [writeTouches, List.append_nil] at hv
          exact List.mem_append_left _ (List.mem_append_left _ hv)))
        w X (by simpa [writeTouches] using hX)
    · -- the GC pass runs
      have hnames : ∀ n ∈ names, n ∈ qs'.emptyNames := by
        rcases runGc_shape g { (Log.writeEntry g l e).1 with queues := qs' } order hInv2.1 with
          ⟨hs1, _⟩ | ⟨names', _, _, hs1, _, _, hs5⟩
        · rw [hr1] at hs1
          cases names with
          | nil => intro n hn; cases hn
          | cons n ns => rw [touchesJ_cons] at hs1; cases hs1
        · rw [hr1] at hs1
          have := touchesJ_inj g _ _ _ hs1
          subst this
          intro n hn
          exact (hs5 n).mp hn
      rw [hr1] at hj
      have hwf' : ∀ j ∈ J ++ l.je g e :: touchesJ g { (Log.writeEntry g l e).1 with queues := qs' } names,
          C07.WF j.e := by
        intro j hj'; exact hfits j (by rw [hj]; exact hj')
      have heff' : (l.step g c tick order).2.2 =
          ((Log.writeEntry g l e).2.1 ++ (writeTouches g { (Log.writeEntry g l e).1 with queues := qs' } names).2.1 ++
            (writeTouches g { (Log.writeEntry g l e).1 with queues := qs' } names).1.persistEffects .flushAndFsync) ++
          (gcFiles ((writeTouches g { (Log.writeEntry g l e).1 with queues := qs' } names).1.canDelete
            ({ (Log.writeEntry g l e).1 with queues := qs' } : Log).cur)
            (writeTouches g { (Log.writeEntry g l e).1 with queues := qs' } names).1.files).2.map Effect.unlink ++ sy := by
        rw [heff, hr2]; simp only [List.append_assoc]
      have htorn2 : TornEffs ((Log.writeEntry g l e).2.1 ++
          (writeTouches g { (Log.writeEntry g l e).1 with queues := qs' } names).2.1) := by
        apply htorn.mono
        intro v hv
        rw [heff']
        exact List.mem_append_left _ (List.mem_append_left _ (List.mem_append_left _ hv))
      have hpre : ∀ (w : Bool) X, CutW w D ((Log.writeEntry g l e).2.1 ++
          (writeTouches g { (Log.writeEntry g l e).1 with queues := qs' } names).2.1) X →
          XInvRes g l.queues qs' X :=
        fun w X hX => write_phase_crashX g hB h e qs' hewf hre hInv2 names hnames hwf' htorn2 w X hX
      refine ⟨_, _, sy, heff', ?_, hsy, ?_, ?_, hfin⟩
      · intro f hf
        rcases List.mem_append.mp hf with hf | hf
        · rcases List.mem_append.mp hf with hf | hf
          · exact no_unlink_of_unlinked (Step.writeEntry_unlinked g l e) f hf
          · exact no_unlink_of_unlinked (Step.writeTouches_unlinked g names _) f hf
        · exact no_unlink_syncL (isSyncL_persist _ _) f hf
      · intro w X hX
        rw [hq1]
        rcases CutW.of_append _ hX with hX | hX
        · exact hpre w X hX
        · have := cutW_syncL (isSyncL_persist _ _) hX
          rw [this]
          exact hpre true _ (CutW.full true _ _)
      · intro k hk0 hk
        rw [hq1]
        have hD : applyOsOps D (directOps ((Log.writeEntry g l e).2.1 ++
            (writeTouches g { (Log.writeEntry g l e).1 with queues := qs' } names).2.1 ++
            (writeTouches g { (Log.writeEntry g l e).1 with queues := qs' } names).1.persistEffects .flushAndFsync)) =
            applyOsOps (applyOsOps D (directOps (Log.writeEntry g l e).2.1))
              (directOps (writeTouches g { (Log.writeEntry g l e).1 with queues := qs' } names).2.1) := by
          rw [directOps_append, applyOsOps_append, syncL_apply (isSyncL_persist _ _), directOps_append,
            applyOsOps_append]
        rw [hD]
        have hr3 : (runGc g { (Log.writeEntry g l e).1 with queues := qs' } order).1 =
            { (writeTouches g { (Log.writeEntry g l e).1 with queues := qs' } names).1 with
              files := (gcFiles ((writeTouches g { (Log.writeEntry g l e).1 with queues := qs' } names).1.canDelete
                ({ (Log.writeEntry g l e).1 with queues := qs' } : Log).cur)
                (writeTouches g { (Log.writeEntry g l e).1 with queues := qs' } names).1.files).1 } := by
          rw [hr2]
        have hwf2 : ∀ j ∈ (J ++ [l.je g e]) ++ touchesJ g { (Log.writeEntry g l e).1 with queues := qs' } names,
            C07.WF j.e := by
          intro j hj'; exact hwf' j (by simpa using hj')
        exact unlink_phase_crashX g hB h2 order names hr1 hr3 hwf2 k hk0 hk

end MRL.L
