/-
File numbers vs. roll-overs (helpers of `MRL/Props/C10FileNumbers.lean`).

`crs es` = number of `create` effects of `es` = number of roll-overs that open a NEW file.
`Grow M l' es` : starting from a log whose file numbers are at most `M` (`C10.Bnd M l`), the log
`l'` reached by emitting `es` has file numbers at most `M + crs es`, and so has every file that
`es` creates. Proved for `writeBuf`, `writeBufs`, `writeEntry`, `writeTouches`, `runGc`, `Log.step`
and `recover`, together with `crs ≤ number of buffers` for the GC pass (`gcBufCount`).

Second half: the keys of an image only grow by `create` operations, so the keys of every image
reached by a prefix of the OS operations of `es` (the last write cut anywhere: `crashImage`) are
bounded by `M + crs es` as well.
-/
import MRL.Props.C10NoPanicReach

namespace MRL.FN
open MRL Log

/-! ### counting the roll-overs -/

def isCreate : Effect → Bool
  | .create _ => true
  | _ => false

/-- number of files created by a list of effects -/
def crs (es : List Effect) : Nat := (es.filter isCreate).length

theorem crs_nil : crs [] = 0 := rfl

theorem crs_append (a b : List Effect) : crs (a ++ b) = crs a + crs b := by
  simp [crs, List.filter_append]

/-- every file created by `es` has a number at most `M` -/
def CrLe (M : Nat) (es : List Effect) : Prop := ∀ f, Effect.create f ∈ es → f ≤ M

theorem CrLe.nil (M : Nat) : CrLe M [] := fun _ h => by cases h

theorem CrLe.mono {M M' : Nat} {es : List Effect} (h : CrLe M es) (hm : M ≤ M') : CrLe M' es :=
  fun f hf => Nat.le_trans (h f hf) hm

theorem CrLe.append {M : Nat} {a b : List Effect} (ha : CrLe M a) (hb : CrLe M b) : CrLe M (a ++ b) := by
  intro f hf
  rcases List.mem_append.mp hf with hf | hf
  · exact ha f hf
  · exact hb f hf

theorem crs_zero_of_none {es : List Effect} (h : ∀ f, Effect.create f ∉ es) : crs es = 0 := by
  unfold crs
  rw [List.length_eq_zero_iff, List.filter_eq_nil_iff]
  intro e he hc
  cases e <;> simp [isCreate] at hc
  exact h _ he

theorem CrLe.of_none {M : Nat} {es : List Effect} (h : ∀ f, Effect.create f ∉ es) : CrLe M es :=
  fun f hf => absurd hf (h f)

/-- the bundle carried through the writer -/
def Grow (M : Nat) (l' : Log) (es : List Effect) : Prop :=
  C10.Bnd (M + crs es) l' ∧ CrLe (M + crs es) es

theorem Grow.refl {M : Nat} {l : Log} (h : C10.Bnd M l) : Grow M l [] := ⟨h, CrLe.nil _⟩

/-- sequencing -/
theorem Grow.seq {M : Nat} {l1 l2 : Log} {e1 e2 : List Effect} (h1 : Grow M l1 e1)
    (h2 : Grow (M + crs e1) l2 e2) : Grow M l2 (e1 ++ e2) := by
  unfold Grow at *
  rw [crs_append, ← Nat.add_assoc]
  exact ⟨h2.1, (h1.2.mono (Nat.le_add_right _ _)).append h2.2⟩

/-- trailing effects that create nothing and leave the file numbers alone -/
theorem Grow.tail {M : Nat} {l1 l2 : Log} {e1 e2 : List Effect} (h1 : Grow M l1 e1)
    (hn : ∀ f, Effect.create f ∉ e2) (hb : ∀ K, C10.Bnd K l1 → C10.Bnd K l2) : Grow M l2 (e1 ++ e2) := by
  refine h1.seq ⟨?_, ?_⟩
  · rw [crs_zero_of_none hn]; exact hb _ h1.1
  · exact CrLe.of_none hn

section
variable (g : Geom)

theorem persist_no_create (l : Log) (a : PersistAction) : ∀ f, Effect.create f ∉ l.persistEffects a := by
  intro f hf
  cases a <;> simp [persistEffects] at hf

theorem policy_no_create (l : Log) (tick : Bool) : ∀ f, Effect.create f ∉ l.policyEffects tick := by
  intro f hf
  rcases Step.policyEffects_isSync l tick with h | ⟨a, h⟩
  · rw [h] at hf; cases hf
  · rw [h] at hf; exact persist_no_create l a f hf

/-- **one buffer**: at most one roll-over, and it goes to `cur + 1` at most -/
theorem writeBuf_grow (l : Log) (buf : Bytes) (M : Nat) (h : C10.Bnd M l) :
    Grow M (writeBuf g l buf).1 (writeBuf g l buf).2 ∧ crs (writeBuf g l buf).2 ≤ 1 := by
  unfold writeBuf
  split
  · exact ⟨Grow.refl h, Nat.zero_le _⟩
  · split
    · split
      · rename_i nf hnf
        have hm : nf ∈ l.files := by unfold nextFile at hnf; exact List.mem_of_find?_eq_some hnf
        have hz : crs ([Effect.flush, .fsyncFile l.cur, .fsyncDir] ++
            [.openFile nf, .ensureLen nf g.fileBytes, .write nf 0 buf]) = 0 := rfl
        refine ⟨⟨?_, ?_⟩, ?_⟩
        · rw [hz]; exact ⟨h.2 nf hm, fun f hf => h.2 f hf⟩
        · intro f hf; simp at hf
        · rw [hz]; exact Nat.zero_le _
      · have hz : crs ([Effect.flush, .fsyncFile l.cur, .fsyncDir] ++
            [.create (l.cur + 1), .setLen (l.cur + 1) g.fileBytes, .write (l.cur + 1) 0 buf]) = 1 := rfl
        refine ⟨⟨?_, ?_⟩, ?_⟩
        · rw [hz]
          refine ⟨Nat.succ_le_succ h.1, fun f hf => ?_⟩
          simp only [List.mem_append, List.mem_singleton] at hf
          rcases hf with hf | rfl
          · exact Nat.le_trans (h.2 f hf) (Nat.le_succ _)
          · exact Nat.succ_le_succ h.1
        · rw [hz]
          intro f hf
          simp at hf
          subst hf
          exact Nat.succ_le_succ h.1
        · rw [hz]; exact Nat.le_refl _
    · refine ⟨⟨?_, ?_⟩, ?_⟩
      · have hz : crs [Effect.write l.cur l.off buf] = 0 := rfl
        rw [hz]; exact h
      · intro f hf; simp at hf
      · exact Nat.zero_le _

theorem writeBufs_grow (bufs : List Bytes) : ∀ (l : Log) (M : Nat), C10.Bnd M l →
    Grow M (writeBufs g l bufs).1 (writeBufs g l bufs).2 ∧ crs (writeBufs g l bufs).2 ≤ bufs.length := by
  induction bufs with
  | nil => intro l M h; exact ⟨Grow.refl h, Nat.zero_le _⟩
  | cons b bs ih =>
    intro l M h
    rw [Step.writeBufs_cons]
    obtain ⟨h1, c1⟩ := writeBuf_grow g l b M h
    obtain ⟨h2, c2⟩ := ih (writeBuf g l b).1 (M + crs (writeBuf g l b).2) h1.1
    refine ⟨h1.seq h2, ?_⟩
    rw [crs_append]
    simp only [List.length_cons]
    omega

theorem entryBufsOf_eq (l : Log) (e : Entry) : entryBufsOf g l e = Step.entryBufs g l e := rfl

theorem writeEntry_grow (l : Log) (e : Entry) (M : Nat) (h : C10.Bnd M l) :
    Grow M (l.writeEntry g e).1 (l.writeEntry g e).2.1 ∧
      crs (l.writeEntry g e).2.1 ≤ (entryBufsOf g l e).length := by
  rw [Step.writeEntry_eq]
  exact writeBufs_grow g _ l M h

theorem touchOf_eq (l : Log) (name : Bytes) : touchOf l name = Step.touchEntry l name := rfl

theorem writeTouches_grow (names : List Bytes) : ∀ (l : Log) (M : Nat), C10.Bnd M l →
    Grow M (writeTouches g l names).1 (writeTouches g l names).2.1 ∧
      crs (writeTouches g l names).2.1 ≤ touchBufCount g l names := by
  induction names with
  | nil => intro l M h; exact ⟨Grow.refl h, Nat.zero_le _⟩
  | cons nm ns ih =>
    intro l M h
    rw [Step.writeTouches_cons]
    simp only [touchBufCount, touchOf_eq]
    obtain ⟨h1, c1⟩ := writeEntry_grow g l (Step.touchEntry l nm) M h
    obtain ⟨h2, c2⟩ := ih (l.writeEntry g (Step.touchEntry l nm)).1 _ h1.1
    refine ⟨h1.seq h2, ?_⟩
    rw [crs_append]
    omega

theorem unlinks_no_create (del : List Nat) : ∀ f, Effect.create f ∉ del.map Effect.unlink := by
  intro f hf
  obtain ⟨x, _, hx⟩ := List.mem_map.mp hf
  cases hx

/-- `runGc` does nothing, or visits `gcNamesOf` -/
theorem runGc_names (l : Log) (order : List Bytes) :
    runGc g l order = (l, [], 0) ∨
    (gcNamesOf l order = Step.gcNames l order ∧
      runGc g l order =
        ({ (writeTouches g l (Step.gcNames l order)).1 with
            files := (gcFiles ((writeTouches g l (Step.gcNames l order)).1.canDelete l.cur)
              (writeTouches g l (Step.gcNames l order)).1.files).1 },
         (writeTouches g l (Step.gcNames l order)).2.1 ++
           (writeTouches g l (Step.gcNames l order)).1.persistEffects .flushAndFsync ++
           (gcFiles ((writeTouches g l (Step.gcNames l order)).1.canDelete l.cur)
              (writeTouches g l (Step.gcNames l order)).1.files).2.map Effect.unlink,
         (writeTouches g l (Step.gcNames l order)).2.2)) := by
  cases hfl : l.files with
  | nil => left; simp only [runGc, hfl]
  | cons f t =>
    cases t with
    | nil => left; simp only [runGc, hfl]
    | cons f' t' =>
      by_cases hcd : l.canDelete l.cur f = true
      · right
        refine ⟨?_, ?_⟩
        · simp only [gcNamesOf, hfl, hcd, if_true, Step.gcNames]
        · simp only [runGc, hfl, hcd, if_true, Step.gcNames]
      · left; simp only [runGc, hfl, hcd, if_false, Bool.false_eq_true]

/-- **the GC pass**: roll-overs at most `gcBufCount` -/
theorem runGc_grow (l : Log) (order : List Bytes) (M : Nat) (h : C10.Bnd M l) :
    Grow M (runGc g l order).1 (runGc g l order).2.1 ∧ crs (runGc g l order).2.1 ≤ gcBufCount g l order := by
  rcases runGc_names g l order with hr | ⟨hn, hr⟩
  · rw [hr]; exact ⟨Grow.refl h, Nat.zero_le _⟩
  · rw [hr]
    unfold gcBufCount
    rw [hn]
    simp only
    obtain ⟨h1, c1⟩ := writeTouches_grow g (Step.gcNames l order) l M h
    have hnc : ∀ f, Effect.create f ∉
        (writeTouches g l (Step.gcNames l order)).1.persistEffects .flushAndFsync ++
        (gcFiles ((writeTouches g l (Step.gcNames l order)).1.canDelete l.cur)
          (writeTouches g l (Step.gcNames l order)).1.files).2.map Effect.unlink := by
      intro f hf
      rcases List.mem_append.mp hf with hf | hf
      · exact persist_no_create _ _ f hf
      · exact unlinks_no_create _ f hf
    refine ⟨?_, ?_⟩
    · rw [List.append_assoc]
      refine h1.tail hnc ?_
      intro K hK
      refine ⟨hK.1, fun f hf => hK.2 f ?_⟩
      have hsplit := Step.gcFiles_split
        ((writeTouches g l (Step.gcNames l order)).1.canDelete l.cur)
        (writeTouches g l (Step.gcNames l order)).1.files
      rw [← hsplit]
      exact List.mem_append_right _ hf
    · rw [List.append_assoc, crs_append, crs_zero_of_none hnc]
      exact c1

/-- **one call**: the file numbers grow by at most the number of files the call creates, and
    every created file is within that bound -/
theorem step_grow (l : Log) (c : Call) (tick : Bool) (order : List Bytes) (M : Nat) (h : C10.Bnd M l) :
    Grow M (step g l c tick order).1 (step g l c tick order).2.2 := by
  rcases Step.step_shape g l c tick order with ⟨out, hs, _⟩ | ⟨a, hs⟩ | ⟨e, qs', gc, sy, out, hs, _, hsy⟩
  · rw [hs]; exact Grow.refl h
  · rw [hs]
    have := (Grow.refl h).tail (persist_no_create l a) (fun K hK => hK)
    simpa using this
  · rw [hs]
    simp only
    obtain ⟨h1, _⟩ := writeEntry_grow g l e M h
    have h1' : Grow M ({ (l.writeEntry g e).1 with queues := qs' } : Log) (l.writeEntry g e).2.1 := h1
    have hsn : ∀ f, Effect.create f ∉ sy := by
      intro f hf
      rcases hsy with rfl | ⟨a, rfl⟩
      · cases hf
      · exact persist_no_create _ a f hf
    cases gc with
    | false =>
      simp only [Bool.false_eq_true, if_false, List.append_nil]
      exact h1'.tail hsn (fun K hK => hK)
    | true =>
      simp only [if_true]
      obtain ⟨h2, _⟩ := runGc_grow g ({ (l.writeEntry g e).1 with queues := qs' } : Log) order _ h1'.1
      exact (h1'.seq h2).tail hsn (fun K hK => hK)

theorem step_cur_le (l : Log) (c : Call) (tick : Bool) (order : List Bytes) (M : Nat) (h : C10.Bnd M l) :
    (step g l c tick order).1.cur ≤ M + crs (step g l c tick order).2.2 :=
  (step_grow g l c tick order M h).1.1

/-! ### `open` -/

theorem prepare_crle (img : Image) : CrLe 0 (prepareImage g img).2 ∧ (img ≠ [] → crs (prepareImage g img).2 = 0) := by
  unfold prepareImage
  split
  · refine ⟨?_, fun h => absurd rfl h⟩
    intro f hf
    simp at hf
    omega
  · split
    · exact ⟨fun f hf => by simp at hf, fun _ => by simp [crs, isCreate]⟩
    · exact ⟨fun f hf => by simp at hf, fun _ => by simp [crs, isCreate]⟩

/-- the log rebuilt by the scan of `open` tracks exactly the files it found -/
theorem pre_bnd {X : Image} {policy : Policy} {lp : Log} {e0 : List Effect} {io : Nat} {M : Nat}
    (hk : ∀ f ∈ X.map (·.1), f ≤ M) (hpre : recoverPre g X policy none = .ok (lp, e0, io)) :
    C10.Bnd M lp ∧ CrLe M e0 := by
  obtain ⟨hf, hc⟩ := C10.recoverPre_files hpre
  have hall : ∀ f ∈ lp.files, f ≤ M := by
    intro f hm
    rw [hf, C10.prepareImage_files] at hm
    split at hm
    · simp only [List.mem_singleton] at hm; subst hm; exact Nat.zero_le _
    · exact hk f hm
  refine ⟨⟨hall _ hc, hall⟩, ?_⟩
  rw [Step.recoverPre_effects g X policy none lp e0 io hpre]
  exact (prepare_crle g X).1.mono (Nat.zero_le _)

/-- **`open`**: the file numbers of the returned log, and of every file `open` creates, are at most
    the largest file number found plus the number of buffers of its GC pass -/
theorem recover_grow {X : Image} {policy : Policy} {order : List Bytes} {lp : Log} {e0 : List Effect}
    {io : Nat} {r : Recovered} {M : Nat} (hk : ∀ f ∈ X.map (·.1), f ≤ M)
    (hpre : recoverPre g X policy none = .ok (lp, e0, io))
    (hrec : recover g X policy order none = .ok r) :
    C10.Bnd (M + gcBufCount g lp order) r.log ∧ CrLe (M + gcBufCount g lp order) r.effects := by
  obtain ⟨lp', e0', io', hpre', hlog, heff⟩ := Step.recover_ok g X policy order none r hrec
  rw [hpre] at hpre'
  cases hpre'
  obtain ⟨hb, hc0⟩ := pre_bnd g hk hpre
  obtain ⟨⟨h1, h2⟩, hc⟩ := runGc_grow g lp order M hb
  rw [hlog, heff]
  exact ⟨h1.mono (by omega), (hc0.mono (Nat.le_add_right _ _)).append (h2.mono (by omega))⟩

end

/-! ### the keys of the images -/

/-- every key of the image is at most `M` -/
def KeysLe (M : Nat) (img : Image) : Prop := ∀ f ∈ img.map (·.1), f ≤ M

theorem KeysLe.mono {M M' : Nat} {img : Image} (h : KeysLe M img) (hm : M ≤ M') : KeysLe M' img :=
  fun f hf => Nat.le_trans (h f hf) hm

theorem KeysLe.nil (M : Nat) : KeysLe M [] := fun _ h => by cases h

theorem mapFile_keys (img : Image) (f : Nat) (fn : Bytes → Bytes) :
    (mapFile img f fn).map (·.1) = img.map (·.1) := by
  unfold mapFile
  rw [List.map_map]
  apply List.map_congr_left
  intro kv _
  simp only [Function.comp]
  split <;> rfl

theorem insertFile_keys (img : Image) (f : Nat) (c : Bytes) :
    ∀ x ∈ (insertFile img f c).map (·.1), x = f ∨ x ∈ img.map (·.1) := by
  induction img with
  | nil => intro x hx; simp [insertFile] at hx; exact .inl hx
  | cons kv rest ih =>
    intro x hx
    obtain ⟨f', c'⟩ := kv
    simp only [insertFile] at hx
    split at hx
    · simp only [List.map_cons, List.mem_cons] at hx ⊢
      rcases hx with hx | hx | hx
      · exact .inl hx
      · exact .inr (.inl hx)
      · exact .inr (.inr hx)
    · split at hx
      · exact .inr hx
      · simp only [List.map_cons, List.mem_cons] at hx ⊢
        rcases hx with hx | hx
        · exact .inr (.inl hx)
        · rcases ih x hx with h | h
          · exact .inl h
          · exact .inr (.inr h)

/-- only `create` adds a key -/
theorem applyOs_keys {M : Nat} {img : Image} (h : KeysLe M img) (op : OsOp)
    (hop : ∀ f, op = .create f → f ≤ M) : KeysLe M (applyOs img op) := by
  cases op with
  | write f off data => intro x hx; simp only [applyOs, mapFile_keys] at hx; exact h x hx
  | setLen f n => intro x hx; simp only [applyOs, mapFile_keys] at hx; exact h x hx
  | ensureLen f n => intro x hx; simp only [applyOs, mapFile_keys] at hx; exact h x hx
  | sync => exact h
  | unlink f =>
    intro x hx
    simp only [applyOs] at hx
    obtain ⟨kv, hkv, rfl⟩ := List.mem_map.mp hx
    exact h _ (List.mem_map.mpr ⟨kv, (List.mem_filter.mp hkv).1, rfl⟩)
  | create f =>
    intro x hx
    simp only [applyOs] at hx
    rcases insertFile_keys img f [] x hx with rfl | hx
    · exact hop _ rfl
    · exact h x hx

theorem applyOsOps_keys (ops : List OsOp) : ∀ {M : Nat} {img : Image}, KeysLe M img →
    (∀ f, OsOp.create f ∈ ops → f ≤ M) → KeysLe M (applyOsOps img ops) := by
  induction ops with
  | nil => intro M img h _; exact h
  | cons op ops ih =>
    intro M img h hc
    show KeysLe M (applyOsOps (applyOs img op) ops)
    exact ih (applyOs_keys h op (fun f hf => hc f (hf ▸ List.mem_cons_self)))
      (fun f hf => hc f (List.mem_cons_of_mem _ hf))

theorem crashImage_keys {M : Nat} {img : Image} (ops : List OsOp) (k cut : Nat) (h : KeysLe M img)
    (hc : ∀ f, OsOp.create f ∈ ops → f ≤ M) : KeysLe M (crashImage img ops k cut) := by
  have hb : KeysLe M (applyOsOps img (ops.take k)) :=
    applyOsOps_keys _ h (fun f hf => hc f (List.mem_of_mem_take hf))
  unfold crashImage
  simp only
  split
  · exact applyOs_keys hb _ (fun f hf => by cases hf)
  · exact hb

theorem flushOps_no_create (b : BufSt) : ∀ f, OsOp.create f ∉ b.flushOps := by
  intro f hf
  unfold BufSt.flushOps at hf
  split at hf
  · cases hf
  · simp at hf

theorem bufStep_creates (cap : Nat) (b : BufSt) (e : Effect) (f : Nat)
    (h : OsOp.create f ∈ (bufStep cap b e).2) : e = .create f := by
  cases e with
  | write f' off data =>
    exfalso
    simp only [bufStep] at h
    by_cases h1 : data.length < cap - b.pend.length
    · simp [h1] at h
    · by_cases h2 : data.length > cap - b.pend.length <;> by_cases h3 : data.length ≥ cap <;>
        simp [h1, h2, h3] at h <;> exact flushOps_no_create b f h
  | flush => exact absurd h (flushOps_no_create b f)
  | create f' => simp [bufStep] at h; rw [h]
  | fsyncFile _ => simp [bufStep] at h
  | fsyncDir => simp [bufStep] at h
  | setLen _ _ => simp [bufStep] at h
  | ensureLen _ _ => simp [bufStep] at h
  | unlink _ => simp [bufStep] at h
  | listDir => simp [bufStep] at h
  | openFile _ => simp [bufStep] at h
  | readBlock _ => simp [bufStep] at h

/-- the OS only sees the `create`s of the effects -/
theorem toOsOps_creates (cap : Nat) (es : List Effect) : ∀ (b : BufSt) (f : Nat),
    OsOp.create f ∈ (toOsOps cap b es).2 → Effect.create f ∈ es := by
  induction es with
  | nil => intro b f h; cases h
  | cons e es ih =>
    intro b f h
    simp only [toOsOps, List.mem_append] at h
    rcases h with h | h
    · rw [bufStep_creates cap b e f h]; exact List.mem_cons_self
    · exact List.mem_cons_of_mem _ (ih _ f h)

theorem flushDisk_keys {M : Nat} {img : Image} (b : BufSt) (h : KeysLe M img) :
    KeysLe M (C02U.flushDisk img b) :=
  applyOsOps_keys _ h (fun f hf => absurd hf (flushOps_no_create b f))

/-- the image after the OS operations of `es`, and every crash image on the way -/
theorem effects_keys {M : Nat} {img : Image} (cap : Nat) (b : BufSt) (es : List Effect) (h : KeysLe M img)
    (hc : CrLe M es) :
    KeysLe M (applyOsOps img (toOsOps cap b es).2) ∧
    ∀ k cut, KeysLe M (crashImage img (toOsOps cap b es).2 k cut) :=
  ⟨applyOsOps_keys _ h (fun f hf => hc f (toOsOps_creates cap es b f hf)),
   fun k cut => crashImage_keys _ k cut h (fun f hf => hc f (toOsOps_creates cap es b f hf))⟩

end MRL.FN
