/-
The replay discipline of the hidden journal of every crash-reachable state.

`reachXR_inv`: every `C02W.ReachXW g cap l img b W` state (= every `C02U.ReachX` state) has a journal
`J` with `CInvX g l J (flushDisk img b)`, all entries serialisable and in `W`, AND `LR.RunOK J l.queues`:
`J` replays entry by entry as the API wrote it (`Drop.Run`, every entry `Drop.OkEntry`) from some
well-formed start to queues with the abstract state of the in-memory ones. It is `C02W.reachXW_inv`
with the `RunOK`-carrying variants (`LRun*.lean`) of the crash lemmas; at a restart or crash-recovery
the new journal is the retained part of the old one (plus, at a crash, a prefix of what the
interrupted call appended), re-attributed: `RunOK.retained`.
-/
import MRL.Proofs.LRunCrash
import MRL.Proofs.LProvReach

namespace MRL.LR
open MRL Log C05 C01J G H L LP Buf Codec Drop C02W

abbrev flushDisk (img : Image) (b : BufSt) : Image := C01R.flushDisk img b
abbrev CInvX := @L.CInvX
abbrev AbsEq := H.AbsEq

/-- `C02U.XRInv` with provenance and the replay discipline -/
structure XRInvR (g : Geom) (cap : Nat) (P : Entry → Prop) (l : Log) (img : Image) (b : BufSt) : Prop where
  inv : ∃ J, CInvX g l J (flushDisk img b) ∧ (∀ j ∈ J, WFP P j.e) ∧ RunOK J l.queues
  buf : BufOK cap l b

/-- after `recoverPre` returned a log satisfying the relaxed invariant: the state after `recover` -/
theorem after_recoverR (g : Geom) (cap : Nat) (P : Entry → Prop) {X : Image} {lp : Log} {J' : List JE} (hc : CInvX g lp J' X)
    (hw : (∀ j ∈ J', WFP P j.e) ∧ RunOK J' lp.queues) (policy : Policy) (order : List Bytes) (io : Nat) (r : Recovered)
    (hpre : recoverPre g X policy none = .ok (lp, [.ensureLen (lp.files.headD 0) g.fileBytes], io))
    (hrec : recover g X policy order none = .ok r) (hgw : ∀ j ∈ lp.gcJ g order, WFP P j.e) :
    XRInvR g cap P r.log (applyOsOps X (toOsOps cap {} r.effects).2) (toOsOps cap {} r.effects).1 := by
  rw [Rec.recover_none, hpre] at hrec
  simp only [Except.ok.injEq] at hrec
  subst hrec
  simp only
  obtain ⟨st', hrun, hclean'⟩ := C14.runGc_Disc g lp order none (Or.inl rfl)
  have hrun' : Buf.run none ([Effect.ensureLen (lp.files.headD 0) g.fileBytes] ++ (runGc g lp order).2.1) =
      some st' := by
    simp only [List.cons_append, List.nil_append, Buf.run, Buf.run1, if_true, Option.bind_some]
    exact hrun
  obtain ⟨hfl, hinv'⟩ := flushDisk_toOsOps cap X {} _ none st' (Buf.inv_empty cap none) hrun'
  refine ⟨⟨J' ++ lp.gcJ g order, ?_, ?_, ?_⟩, st', hinv', hclean'⟩
  · show L.CInvX g _ _ (G.flushDisk _ _)
    rw [hfl]
    have hD : G.flushDisk X {} = X := rfl
    rw [hD, directOps_append, applyOsOps_append, ensureLen_head g hc]
    exact cinvx_gc g hc order
  · intro j hj
    rcases List.mem_append.mp hj with hj | hj
    · exact hw.1 j hj
    · exact hgw j hj
  · rw [runGc_queues]
    exact hw.2.gc g hc.jinv.h.inv order

/-- from an `XInvRes` disk -/
theorem after_xinvresR (g : Geom) (cap : Nat) (P : Entry → Prop) {qB qA : MemQueues} {X : Image} (hres : XInvResR g P qB qA X)
    (policy : Policy) (order : List Bytes) (lp : Log) (e0 : List Effect) (io : Nat) (r : Recovered)
    (hpre : recoverPre g X policy none = .ok (lp, e0, io))
    (hrec : recover g X policy order none = .ok r) (hgw : ∀ j ∈ lp.gcJ g order, WFP P j.e) :
    XRInvR g cap P r.log (applyOsOps X (toOsOps cap {} r.effects).2) (toOsOps cap {} r.effects).1 ∧
      (AbsEq r.log.queues qB ∨ AbsEq r.log.queues qA) := by
  obtain ⟨J', lp1, io1, F', h1, h2, h3, h4, _, h6⟩ := hres policy
  rw [hpre] at h1
  simp only [Except.ok.injEq, Prod.mk.injEq] at h1
  obtain ⟨rfl, rfl, rfl⟩ := h1
  rw [← h2] at hpre
  refine ⟨after_recoverR g cap P h3 h4 policy order io r hpre hrec hgw, ?_⟩
  have hq : r.log.queues = lp.queues := by
    rw [Rec.recover_none, hpre] at hrec
    simp only [Except.ok.injEq] at hrec
    subst hrec
    exact runGc_queues g lp order
  rw [hq]; exact h6

/-- the crash states of `open` on a relaxed disk, at effect boundaries -/
theorem recover_boundaryR (g : Geom) (hB : g.B ≤ 65542) (P : Entry → Prop) {l : Log} {J : List JE} {D : Image}
    (h : CInvX g l J D) (hwf : ∀ j ∈ J, WFP P j.e) (hR : RunOK J l.queues) (policy : Policy) (order : List Bytes) (lp0 : Log)
    (e00 : List Effect) (io0 : Nat) (r0 : Recovered)
    (hpre0 : recoverPre g D policy none = .ok (lp0, e00, io0))
    (hrec0 : recover g D policy order none = .ok r0)
    (hgw0 : ∀ j ∈ lp0.gcJ g order, WFP P j.e) (htorn : TornEffs r0.effects) :
    AbsEq lp0.queues l.queues ∧ (∃ st', Buf.run none r0.effects = some st') ∧
    (∀ (w : Bool) X, CutW w D r0.effects X → XInvResR g P lp0.queues lp0.queues X) := by
  obtain ⟨J0, lp, io, r, hpre, hrec, hlog, heff, hc0, hw0, hab, _⟩ := recover_okXR g hB P h hwf hR policy order
  rw [hpre0] at hpre
  simp only [Except.ok.injEq, Prod.mk.injEq] at hpre
  obtain ⟨rfl, _, _⟩ := hpre
  rw [hrec0] at hrec
  simp only [Except.ok.injEq] at hrec
  subst hrec
  have hdisc : ∃ st', Buf.run none ([Effect.ensureLen (lp0.files.headD 0) g.fileBytes] ++ (runGc g lp0 order).2.1) =
      some st' := by
    obtain ⟨st', hrun, _⟩ := C14.runGc_Disc g lp0 order none (Or.inl rfl)
    refine ⟨st', ?_⟩
    simp only [List.cons_append, List.nil_append, Buf.run, Buf.run1, if_true, Option.bind_some]
    exact hrun
  refine ⟨hab, by rw [heff]; exact hdisc, ?_⟩
  intro w X hX
  rw [heff] at hX htorn
  have hfits : ∀ j ∈ J0 ++ gcJ g lp0 order, WFP P j.e := by
    intro j hj
    rcases List.mem_append.mp hj with hj | hj
    · exact hw0.1 j hj
    · exact hgw0 j hj
  have htorn2 : TornEffs (runGc g lp0 order).2.1 :=
    htorn.mono (fun v hv => List.mem_append_right _ hv)
  have hens := ensureLen_head g hc0
  rcases CutW.of_append _ hX with hX | hX
  · -- inside `[ensureLen …]`: the disk itself
    have hXD : X = D := by
      rcases hX.cons_inv with h1 | ⟨_, _, _, _, _, hw1, _⟩ | h1
      · exact h1
      · cases hw1
      · have := h1.nil_inv
        rw [this]
        simpa [directOps] using hens
    rw [hXD]
    exact gc_cutXR g hB P hc0 order hfits hw0.2 htorn2 w D (CutW.stop _ _ _)
  · rw [hens] at hX
    exact gc_cutXR g hB P hc0 order hfits hw0.2 htorn2 w X hX

/-- **every `ReachXW` state satisfies the relaxed invariant for a journal all of whose entries were
    handed to the writer** -/
theorem reachXR_inv (g : Geom) (hB : g.B ≤ 65542) (cap : Nat) {l : Log} {img : Image} {b : BufSt}
    {W : List Entry} (h : ReachXW g cap l img b W) : XRInvR g cap (fun e => e ∈ W) l img b := by
  induction h with
  | base hr hwf =>
    have := C01R.reach_rinv g hB cap hr hwf
    obtain ⟨Lf, hrun, heq, hwf'⟩ := Img.reachD_run g hB cap hr hwf
    exact ⟨⟨_, CInvX.of_cinv this.c, fun j hj => ⟨hwf j hj, mem_ents hj⟩,
      ⟨[], Lf, QsWF.nil, hrun, hwf', AbsEq.of_qsEquiv heq⟩⟩, this.buf⟩
  | @step l img b W c tick order _ hwf ih =>
    obtain ⟨⟨J, hc, hw, hR⟩, st, hinv, hclean⟩ := ih
    obtain ⟨st', hrun, hclean'⟩ := C14.step_Disc g l c tick order st hclean
    obtain ⟨hfl, hinv'⟩ := flushDisk_toOsOps cap img b _ st st' hinv hrun
    refine ⟨⟨J ++ l.stepJ g c order, ?_, ?_, ?_⟩, st', hinv', hclean'⟩
    · show L.CInvX g _ _ (G.flushDisk _ _)
      rw [hfl]
      exact L.cinvx_step g hc c tick order
    · exact wfp_append hw hwf (fun e he => List.mem_append.mpr he)
    · exact hR.step g hc.jinv.h.inv c tick order
  | @reopen l img b W policy order lp e0 io r _ hpre hrec hgw ih =>
    obtain ⟨⟨J, hc, hw, hR⟩, _⟩ := ih
    have hw' : ∀ j ∈ J, WFP (fun e => e ∈ W ++ ents (lp.gcJ g order)) j.e :=
      fun j hj => ⟨(hw j hj).1, List.mem_append_left _ (hw j hj).2⟩
    have hres : XInvResR g (fun e => e ∈ W ++ ents (lp.gcJ g order)) l.queues l.queues (flushDisk img b) := by
      intro pol
      obtain ⟨J', lp1, io1, F', a1, a2, a3, a4, a5, a6⟩ := xinvres_of_cinvxR g hB _ hc hw' hR pol
      exact ⟨J', lp1, io1, F', a1, a2, a3, a4, a5, Or.inl a6⟩
    exact (after_xinvresR g cap _ hres policy order lp e0 io r hpre hrec
      (fun j hj => ⟨hgw j hj, List.mem_append_right _ (mem_ents hj)⟩)).1
  | @crash l img b W c tick order k cut X policy' order' lp e0 io r _ hb hwf htorn hXeq hpre hrec hgw ih =>
    obtain ⟨⟨J, hc, hw, hR⟩, st, hinv, hclean⟩ := ih
    have hfd : flushDisk img b = img := C02U.flushDisk_of_empty img b hb
    rw [hfd] at hc
    obtain ⟨st', hrun, _⟩ := C14.step_Disc g l c tick order st hclean
    have hcut := crash_cut cap _ b st st' img hinv hrun k cut
    rw [pendW_nil b hb, List.nil_append, ← hXeq] at hcut
    have hfits : ∀ j ∈ J ++ l.stepJ g c order,
        WFP (fun e => e ∈ W ++ ents (l.stepJ g c order) ++ ents (lp.gcJ g order')) j.e :=
      wfp_append hw hwf (fun e he => List.mem_append_left _ (List.mem_append.mpr he))
    have hres := call_cutXR g hB _ hc c tick order hfits hR htorn false X (CutW.of_cutState hcut)
    exact (after_xinvresR g cap _ hres policy' order' lp e0 io r hpre hrec
      (fun j hj => ⟨hgw j hj, List.mem_append_right _ (mem_ents hj)⟩)).1
  | @crash2 l img b W policy order lp0 e00 io0 r0 k cut X policy' order' lp e0 io r _ hpre0 hrec0 hgw0 htorn hXeq
      hpre hrec hgw ih =>
    obtain ⟨⟨J, hc, hw, hR⟩, _⟩ := ih
    have hw' : ∀ j ∈ J, WFP (fun e => e ∈ W ++ ents (lp0.gcJ g order) ++ ents (lp.gcJ g order')) j.e :=
      fun j hj => ⟨(hw j hj).1, List.mem_append_left _ (List.mem_append_left _ (hw j hj).2)⟩
    obtain ⟨_, ⟨st', hrun⟩, hcut⟩ := recover_boundaryR g hB _ hc hw' hR policy order lp0 e00 io0 r0 hpre0 hrec0
      (fun j hj => ⟨hgw0 j hj, List.mem_append_left _ (List.mem_append_right _ (mem_ents hj))⟩) htorn
    have hX := crash_cut cap _ {} none st' (flushDisk img b) (Buf.inv_empty cap none) hrun k cut
    have hn : pendW ({} : BufSt) = [] := rfl
    rw [hn, List.nil_append, ← hXeq] at hX
    have hres := hcut false X (CutW.of_cutState hX)
    exact (after_xinvresR g cap _ hres policy' order' lp e0 io r hpre hrec
      (fun j hj => ⟨hgw j hj, List.mem_append_right _ (mem_ents hj)⟩)).1


/-- the same, unpacked -/
theorem reachXR_journal (g : Geom) (hB : g.B ≤ 65542) (cap : Nat) {l : Log} {img : Image} {b : BufSt}
    {W : List Entry} (h : ReachXW g cap l img b W) :
    ∃ J, L.CInvX g l J (flushDisk img b) ∧ (∀ j ∈ J, C07.WF j.e) ∧ (∀ j ∈ J, j.e ∈ W) ∧ RunOK J l.queues := by
  obtain ⟨⟨J, hc, hw, hR⟩, _⟩ := reachXR_inv g hB cap h
  exact ⟨J, hc, fun j hj => (hw j hj).1, fun j hj => (hw j hj).2, hR⟩

end MRL.LR
