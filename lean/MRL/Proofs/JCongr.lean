/-
`QEquiv` / `QsEquiv` are congruences for everything replay does: `appendRecord`, `appendAll`,
`truncateHead`, `ackPosition`, `set`, `remove`, hence for `replayEntry` and `replayJ`.
-/
import MRL.Proofs.Journal
import MRL.Proofs.JAssoc
import MRL.Props.C05

namespace MRL
open C05

/-! ### `QEquiv` -/

theorem QEquiv.refl (a : MemQueue) : QEquiv a a := ⟨rfl, rfl⟩
theorem QEquiv.symm {a b : MemQueue} (h : QEquiv a b) : QEquiv b a := ⟨h.1.symm, h.2.symm⟩
theorem QEquiv.trans {a b c : MemQueue} (h1 : QEquiv a b) (h2 : QEquiv b c) : QEquiv a c :=
  ⟨h1.1.trans h2.1, h1.2.trans h2.2⟩

def OEquiv : Option MemQueue → Option MemQueue → Prop
  | some x, some y => QEquiv x y
  | none, none => True
  | _, _ => False

theorem qsEquiv_iff {a b : MemQueues} : QsEquiv a b ↔ ∀ n, OEquiv (a.get? n) (b.get? n) := by
  unfold QsEquiv
  constructor
  · intro h n
    have := h n
    revert this
    cases a.get? n <;> cases b.get? n <;> simp [OEquiv]
  · intro h n
    have := h n
    revert this
    cases a.get? n <;> cases b.get? n <;> simp [OEquiv]

theorem OEquiv.refl (a : Option MemQueue) : OEquiv a a := by
  cases a with
  | none => trivial
  | some x => exact QEquiv.refl x

theorem OEquiv.symm {a b : Option MemQueue} (h : OEquiv a b) : OEquiv b a := by
  cases a <;> cases b <;> simp only [OEquiv] at h ⊢
  exact QEquiv.symm h

theorem OEquiv.trans {a b c : Option MemQueue} (h1 : OEquiv a b) (h2 : OEquiv b c) : OEquiv a c := by
  cases a <;> cases b <;> cases c <;> simp only [OEquiv] at h1 h2 ⊢
  exact QEquiv.trans h1 h2

theorem QsEquiv.refl (a : MemQueues) : QsEquiv a a := qsEquiv_iff.mpr fun _ => OEquiv.refl _
theorem QsEquiv.symm {a b : MemQueues} (h : QsEquiv a b) : QsEquiv b a :=
  qsEquiv_iff.mpr fun n => (qsEquiv_iff.mp h n).symm
theorem QsEquiv.trans {a b c : MemQueues} (h1 : QsEquiv a b) (h2 : QsEquiv b c) : QsEquiv a c :=
  qsEquiv_iff.mpr fun n => (qsEquiv_iff.mp h1 n).trans (qsEquiv_iff.mp h2 n)

theorem QsEquiv.get_some {a b : MemQueues} (h : QsEquiv a b) {n : Bytes} {x : MemQueue}
    (hx : a.get? n = some x) : ∃ y, b.get? n = some y ∧ QEquiv x y := by
  have := qsEquiv_iff.mp h n
  rw [hx] at this
  cases hb : b.get? n with
  | none => rw [hb] at this; exact this.elim
  | some y => rw [hb] at this; exact ⟨y, rfl, this⟩

theorem QsEquiv.get_none {a b : MemQueues} (h : QsEquiv a b) {n : Bytes}
    (hx : a.get? n = none) : b.get? n = none := by
  have := qsEquiv_iff.mp h n
  rw [hx] at this
  cases hb : b.get? n with
  | none => rfl
  | some y => rw [hb] at this; exact this.elim

theorem QsEquiv.contains {a b : MemQueues} (h : QsEquiv a b) (n : Bytes) :
    a.contains n = b.contains n := by
  rw [MemQueues.contains_isSome, MemQueues.contains_isSome]
  cases ha : a.get? n with
  | none => rw [h.get_none ha]
  | some x => obtain ⟨y, hy, _⟩ := h.get_some ha; rw [hy]; rfl

theorem QsEquiv.set {a b : MemQueues} (h : QsEquiv a b) (n : Bytes) {x y : MemQueue}
    (hxy : QEquiv x y) : QsEquiv (a.set n x) (b.set n y) := by
  rw [qsEquiv_iff] at h ⊢
  intro m
  by_cases hm : m = n
  · subst hm; rw [MemQueues.get?_set_same, MemQueues.get?_set_same]; exact hxy
  · rw [MemQueues.get?_set_other _ _ _ _ hm, MemQueues.get?_set_other _ _ _ _ hm]; exact h m

theorem QsEquiv.remove {a b : MemQueues} (h : QsEquiv a b) (n : Bytes) :
    QsEquiv (a.remove n) (b.remove n) := by
  rw [qsEquiv_iff] at h ⊢
  intro m
  by_cases hm : m = n
  · subst hm; rw [MemQueues.get?_remove_same, MemQueues.get?_remove_same]; trivial
  · rw [MemQueues.get?_remove_other _ _ _ hm, MemQueues.get?_remove_other _ _ _ hm]; exact h m

theorem QsEquiv.ackPosition {a b : MemQueues} (h : QsEquiv a b) (n : Bytes) (p : Nat) :
    QsEquiv (a.ackPosition n p) (b.ackPosition n p) := by
  rw [qsEquiv_iff] at h ⊢
  intro m
  by_cases hm : m = n
  · subst hm
    rw [MemQueues.get?_ackPosition_same, MemQueues.get?_ackPosition_same]
    exact QEquiv.refl _
  · rw [MemQueues.get?_ackPosition_other _ _ _ _ hm, MemQueues.get?_ackPosition_other _ _ _ _ hm]
    exact h m

/-! ### queue operations -/

theorem appendRecord_some_le {q q' : MemQueue} {f p : Nat} {pl : Bytes}
    (h : q.appendRecord f p pl = some q') : q.nextPosition ≤ p := by
  unfold MemQueue.appendRecord at h
  split at h
  · cases h
  · omega

theorem appendRecord_inv {q q' : MemQueue} {f p : Nat} {pl : Bytes} (hq : QInv q)
    (h : q.appendRecord f p pl = some q') : QInv q' := by
  obtain ⟨q2, h2, _, _, hs, hst⟩ :=
    MemQueue.appendRecord_spec q f p pl hq.1 hq.2 (appendRecord_some_le h)
  rw [h] at h2; cases h2
  exact ⟨hs, hst⟩

theorem appendAll_inv (f : Nat) (rs : List (Nat × Bytes)) : ∀ {q q' : MemQueue}, QInv q →
    Log.appendAll q f rs = some q' → QInv q' := by
  induction rs with
  | nil => intro q q' hq h; cases h; exact hq
  | cons r rs ih =>
    intro q q' hq h
    obtain ⟨p, pl⟩ := r
    simp only [Log.appendAll] at h
    cases h1 : q.appendRecord f p pl with
    | none => rw [h1] at h; cases h
    | some q1 => rw [h1] at h; exact ih (appendRecord_inv hq h1) h

theorem QEquiv.appendRecord {a b a' : MemQueue} (h : QEquiv a b) {f p : Nat} {pl : Bytes}
    (ha : a.appendRecord f p pl = some a') :
    ∃ b', b.appendRecord f p pl = some b' ∧ QEquiv a' b' := by
  have hle := appendRecord_some_le ha
  unfold MemQueue.appendRecord at ha ⊢
  have h1 : ¬ p < a.nextPosition := by omega
  have h2 : ¬ p < b.nextPosition := by rw [← h.2]; exact h1
  simp only [h1, if_false, Option.some.injEq] at ha
  simp only [h2, if_false]
  refine ⟨_, rfl, ?_⟩
  subst ha
  refine ⟨by simp only [h.1], ?_⟩
  rw [MemQueue.nextPosition_append, MemQueue.nextPosition_append]

theorem QEquiv.appendAll (f : Nat) (rs : List (Nat × Bytes)) : ∀ {a b a' : MemQueue}, QEquiv a b →
    Log.appendAll a f rs = some a' → ∃ b', Log.appendAll b f rs = some b' ∧ QEquiv a' b' := by
  induction rs with
  | nil => intro a b a' h ha; cases ha; exact ⟨b, rfl, h⟩
  | cons r rs ih =>
    intro a b a' h ha
    obtain ⟨p, pl⟩ := r
    simp only [Log.appendAll] at ha ⊢
    cases h1 : a.appendRecord f p pl with
    | none => rw [h1] at ha; cases ha
    | some a1 =>
      rw [h1] at ha
      obtain ⟨b1, hb1, he1⟩ := h.appendRecord h1
      rw [hb1]
      exact ih he1 ha

theorem QEquiv.truncateHead {a b : MemQueue} (h : QEquiv a b) (ha : QInv a) (hb : QInv b) (p : Nat) :
    QEquiv (a.truncateHead p).1 (b.truncateHead p).1 := by
  obtain ⟨a1, a2, _, _, _⟩ := MemQueue.truncateHead_spec a p ha.1 ha.2
  obtain ⟨b1, b2, _, _, _⟩ := MemQueue.truncateHead_spec b p hb.1 hb.2
  exact ⟨by rw [a1, b1, h.1], by rw [a2, b2, h.2]⟩

theorem truncateHead_inv {a : MemQueue} (ha : QInv a) (p : Nat) : QInv (a.truncateHead p).1 := by
  obtain ⟨_, _, _, h4, h5⟩ := MemQueue.truncateHead_spec a p ha.1 ha.2
  exact ⟨h4, h5⟩

/-! ### well-formed maps -/

/-- every visible queue satisfies the queue invariant -/
def QsWF (qs : MemQueues) : Prop := ∀ n x, qs.get? n = some x → QInv x

theorem QsWF.nil : QsWF [] := by intro n x h; cases h

theorem QsWF.set {qs : MemQueues} (h : QsWF qs) (n : Bytes) {x : MemQueue} (hx : QInv x) :
    QsWF (qs.set n x) := by
  intro m y hy
  by_cases hm : m = n
  · subst hm; rw [MemQueues.get?_set_same] at hy; cases hy; exact hx
  · rw [MemQueues.get?_set_other _ _ _ _ hm] at hy; exact h m y hy

theorem QsWF.remove {qs : MemQueues} (h : QsWF qs) (n : Bytes) : QsWF (qs.remove n) := by
  intro m y hy
  by_cases hm : m = n
  · subst hm; rw [MemQueues.get?_remove_same] at hy; cases hy
  · rw [MemQueues.get?_remove_other _ _ _ hm] at hy; exact h m y hy

theorem QInv_withNextPosition (p : Nat) : QInv (MemQueue.withNextPosition p) :=
  ⟨List.Pairwise.nil, fun _ h => by cases h⟩

theorem QsWF.ackPosition {qs : MemQueues} (h : QsWF qs) (n : Bytes) (p : Nat) :
    QsWF (qs.ackPosition n p) := by
  intro m y hy
  by_cases hm : m = n
  · subst hm; rw [MemQueues.get?_ackPosition_same] at hy; cases hy; exact QInv_withNextPosition p
  · rw [MemQueues.get?_ackPosition_other _ _ _ _ hm] at hy; exact h m y hy

theorem QsWF.of_inv {l : Log} (h : Inv l) : QsWF l.queues := fun _ _ hg => h.get hg

/-! ### `replayEntry`, `replayJ` -/

theorem replayEntry_wf {qs qs' : MemQueues} {f : Nat} {e : Entry} (h : QsWF qs)
    (hr : replayEntry qs f e = some qs') : QsWF qs' := by
  cases e with
  | touch q p => simp only [replayEntry, Option.some.injEq] at hr; subst hr; exact h.ackPosition q p
  | delete q p => simp only [replayEntry, Option.some.injEq] at hr; subst hr; exact h.remove q
  | truncate q p =>
    simp only [replayEntry] at hr
    cases hg : qs.get? q with
    | none => rw [hg] at hr; cases hr; exact h
    | some mq =>
      rw [hg] at hr; cases hr
      exact h.set q (truncateHead_inv (h q mq hg) p)
  | append q pos recs =>
    simp only [replayEntry] at hr
    have h1 : QsWF (if qs.contains q then qs else qs.ackPosition q pos) := by
      split
      · exact h
      · exact h.ackPosition q pos
    cases hg : (if qs.contains q then qs else qs.ackPosition q pos).get? q with
    | none => rw [hg] at hr; cases hr
    | some mq =>
      simp only [hg] at hr
      cases ha : Log.appendAll mq f recs with
      | none => rw [ha] at hr; cases hr
      | some mq' =>
        rw [ha] at hr; cases hr
        exact h1.set q (appendAll_inv f recs (h1 q mq hg) ha)

theorem replayEntry_congr {a b a' : MemQueues} {f : Nat} {e : Entry} (h : QsEquiv a b)
    (ha : QsWF a) (hb : QsWF b) (hr : replayEntry a f e = some a') :
    ∃ b', replayEntry b f e = some b' ∧ QsEquiv a' b' := by
  cases e with
  | touch q p =>
    simp only [replayEntry, Option.some.injEq] at hr ⊢; subst hr
    exact ⟨_, rfl, h.ackPosition q p⟩
  | delete q p =>
    simp only [replayEntry, Option.some.injEq] at hr ⊢; subst hr
    exact ⟨_, rfl, h.remove q⟩
  | truncate q p =>
    simp only [replayEntry] at hr ⊢
    cases hg : a.get? q with
    | none =>
      rw [hg] at hr; cases hr
      rw [h.get_none hg]
      exact ⟨_, rfl, h⟩
    | some x =>
      rw [hg] at hr; cases hr
      obtain ⟨y, hy, hxy⟩ := h.get_some hg
      rw [hy]
      exact ⟨_, rfl, h.set q (hxy.truncateHead (ha q x hg) (hb q y hy) p)⟩
  | append q pos recs =>
    simp only [replayEntry] at hr ⊢
    have h1 : QsEquiv (if a.contains q then a else a.ackPosition q pos)
        (if b.contains q then b else b.ackPosition q pos) := by
      rw [← h.contains q]
      split
      · exact h
      · exact h.ackPosition q pos
    cases hg : (if a.contains q then a else a.ackPosition q pos).get? q with
    | none => rw [hg] at hr; cases hr
    | some x =>
      simp only [hg] at hr
      cases hx : Log.appendAll x f recs with
      | none => rw [hx] at hr; cases hr
      | some x' =>
        rw [hx] at hr; cases hr
        obtain ⟨y, hy, hxy⟩ := h1.get_some hg
        obtain ⟨y', hy', hxy'⟩ := hxy.appendAll f recs hx
        simp only [hy, hy', Option.map_some]
        exact ⟨_, rfl, h1.set q hxy'⟩

theorem replayJ_append (F : Nat) (js js' : List JE) : ∀ qs : MemQueues,
    replayJ F qs (js ++ js') = (replayJ F qs js).bind fun qs' => replayJ F qs' js' := by
  induction js with
  | nil => intro qs; rfl
  | cons j js ih =>
    intro qs
    simp only [List.cons_append, replayJ]
    split
    · exact ih qs
    · cases replayEntry qs (max j.attr F) j.e with
      | none => rfl
      | some q1 => simp only [Option.bind_some]; exact ih q1

theorem replayJ_wf (F : Nat) (js : List JE) : ∀ {qs qs' : MemQueues}, QsWF qs →
    replayJ F qs js = some qs' → QsWF qs' := by
  induction js with
  | nil => intro qs qs' h hr; cases hr; exact h
  | cons j js ih =>
    intro qs qs' h hr
    simp only [replayJ] at hr
    split at hr
    · exact ih h hr
    · cases h1 : replayEntry qs (max j.attr F) j.e with
      | none => rw [h1] at hr; cases hr
      | some q1 => rw [h1] at hr; exact ih (replayEntry_wf h h1) hr

theorem replayJ_congr (F : Nat) (js : List JE) : ∀ {a b a' : MemQueues}, QsEquiv a b →
    QsWF a → QsWF b → replayJ F a js = some a' →
    ∃ b', replayJ F b js = some b' ∧ QsEquiv a' b' := by
  induction js with
  | nil => intro a b a' h _ _ hr; cases hr; exact ⟨b, rfl, h⟩
  | cons j js ih =>
    intro a b a' h ha hb hr
    simp only [replayJ] at hr ⊢
    split
    · rename_i hlt; simp only [hlt, if_true] at hr; exact ih h ha hb hr
    · rename_i hlt
      simp only [hlt, if_false] at hr
      cases h1 : replayEntry a (max j.attr F) j.e with
      | none => rw [h1] at hr; cases hr
      | some a1 =>
        rw [h1] at hr
        obtain ⟨b1, hb1, he1⟩ := replayEntry_congr h ha hb h1
        rw [hb1]
        exact ih he1 (replayEntry_wf ha h1) (replayEntry_wf hb hb1) hr

end MRL
