/-
Reading a damaged image of a crash-reachable state (C08 over `ReachX`): the image is full files
holding a tape of items, a residue, zeros, and possibly an EMPTY next file; an image of the same
shape; the blocks `recover` scans; and — under the no-accidental-frame hypothesis against the
genuine frames — the entries delivered are a sub-sequence of the entries of the live groups.
-/
import MRL.Proofs.Img3Loc
import MRL.Proofs.Img3Trace
import MRL.Proofs.LRead

namespace MRL.Img
open MRL Consts Codec Torn Gen G L

theorem sameShape_append (A B W' : Image) (h : SameShape (A ++ B) W') :
    ∃ A' B', W' = A' ++ B' ∧ SameShape A A' ∧ SameShape B B' := by
  unfold SameShape at h
  rw [List.map_append] at h
  obtain ⟨A', B', h1, h2, h3⟩ := List.map_eq_append_iff.mp h
  exact ⟨A', B', h1, h2, h3⟩

theorem sameShape_xtra (x : Bool) (f : Nat) (B' : Image) (h : SameShape (xtra x f) B') : B' = xtra x f := by
  unfold SameShape at h
  cases x with
  | false =>
    simp only [xtra, Bool.false_eq_true, if_false, List.map_nil, List.map_eq_nil_iff] at h
    rw [h]; rfl
  | true =>
    simp only [xtra, if_true, List.map_cons, List.map_nil] at h
    cases B' with
    | nil => simp at h
    | cons kv rest =>
      simp only [List.map_cons, List.cons.injEq, Prod.mk.injEq, List.map_eq_nil_iff] at h
      obtain ⟨⟨h1, h2⟩, h3⟩ := h
      obtain ⟨k, v⟩ := kv
      simp only at h1 h2
      subst h1 h3
      have : v = [] := List.eq_nil_of_length_eq_zero h2
      subst this
      rfl

theorem streamOf_append (A B : Image) : streamOf (A ++ B) = streamOf A ++ streamOf B := by
  simp [streamOf]

theorem streamOf_xtra (x : Bool) (f : Nat) : streamOf (xtra x f) = [] := by
  cases x <;> rfl

/-- the blocks `recover` scans on full files `F, F+1, …` followed by an optional empty file -/
theorem blocks_of_fullX (g : Geom) (F : Nat) (cs : List Bytes) (hne : cs ≠ [])
    (hfull : ∀ c ∈ cs, c.length = g.fileBytes) (x : Bool) (f' : Nat) :
    ∃ m trail, (m + 1) * g.B = cs.flatten.length ∧
      blocksOf g (prepareImage g (imgOf F cs ++ xtra x f')).1 1 =
        (blkAt g F cs.flatten 0 :: blksFrom g F cs.flatten 1 m, trail) := by
  obtain ⟨c0, cs', hcs⟩ : ∃ c0 cs', cs = c0 :: cs' := by
    cases cs with
    | nil => exact absurd rfl hne
    | cons c0 cs' => exact ⟨c0, cs', rfl⟩
  have hc0 : c0.length = g.fileBytes := hfull c0 (by rw [hcs]; exact List.mem_cons_self)
  have hBle := B_le_fileBytes g
  have hprep : (prepareImage g (imgOf F cs ++ xtra x f')).1 = imgOf F cs ++ xtra x f' := by
    rw [hcs]
    simp only [imgOf, List.cons_append, prepareImage]
    rw [if_neg (by omega)]
  have hblocks : (blocksOf g (imgOf F cs ++ xtra x f') 1).1 = blksFrom g F cs.flatten 0 (cs.length * g.K) := by
    have h0 := blocksOf_imgOf g F cs 0 [] hfull (by simp)
    simp only [Nat.add_zero, List.nil_append, Nat.zero_mul] at h0
    cases x
    · simpa [xtra] using h0
    · simp only [xtra, if_true]
      rw [H.blocksOf_snoc_empty]; exact h0
  have hNpos : 0 < cs.length * g.K := by
    rw [hcs]; exact Nat.mul_pos (Nat.succ_pos _) g.hK
  obtain ⟨m, hm⟩ : ∃ m, cs.length * g.K = m + 1 := ⟨cs.length * g.K - 1, by omega⟩
  rcases hbo : blocksOf g (imgOf F cs ++ xtra x f') 1 with ⟨bs, trail⟩
  rw [hbo] at hblocks
  simp only at hblocks
  rw [hm, blksFrom_succ] at hblocks
  refine ⟨m, trail, ?_, ?_⟩
  · rw [flatten_length_full _ _ hfull, mul_fb, hm]
  · rw [hprep, hbo, hblocks]

/-- the genuine frames of the groups: live and dead chunks -/
theorem chunks_of_groups : ∀ (gs : List Grp), (∀ y ∈ gs, GrpOK y) →
    Chunks ((liveOf gs).map fun s => s.1.e.encode) (gfrs (gs.flatMap (·.2)))
  | [], _ => Chunks.nil
  | y :: gs, h => by
    have ih := chunks_of_groups gs fun y' hy' => h y' (List.mem_cons_of_mem _ hy')
    have hy := h y List.mem_cons_self
    obtain ⟨oj, fs⟩ := y
    rw [List.flatMap_cons, gfrs_append]
    cases oj with
    | some j =>
      rw [liveOf_cons_some, List.map_cons]
      have hy' : SegOK (j, tfs fs) ∧ ∀ a ∈ fs, a.2 = none := hy
      have hg : gfrs fs = untag (tfs fs) := gfrs_none hy'.2
      show Chunks _ (gfrs fs ++ _)
      rw [hg]
      exact Chunks.live hy'.1.frames hy'.1.payload ih
    | none =>
      rw [liveOf_cons_none]
      have hy' : (∃ rest : List Frm, rest ≠ [] ∧ EntryFrames true (frs fs ++ rest) ∧ ∀ a ∈ fs, a.2 = none) ∨
          (∃ a r, fs = [a] ∧ a.2 = some r) := hy
      show Chunks _ (gfrs fs ++ _)
      rcases hy' with ⟨rest, hrest, hE, hnone⟩ | ⟨a, r, hfs, ha⟩
      · rw [gfrs_none hnone]
        by_cases he : frs fs = []
        · rw [he]; exact ih
        · exact Chunks.dead he ⟨rest, hrest, hE⟩ ih
      · have : gfrs fs = [] := by rw [hfs]; simp [gfrs, ha]
        rw [this]; exact ih

/-- **the entries delivered from a damaged image of a crash-reachable state** (as bytes) are a
    sub-sequence of the encoded entries of the live groups -/
theorem img_deliveredX (g : Geom) (F : Nat) (cs' : List Bytes) (hne : cs' ≠ [])
    (hfull : ∀ c ∈ cs', c.length = g.fileBytes) (x : Bool) (f' : Nat) (ais lead : List AItm) (gs : List Grp)
    (hais : ais = lead ++ gs.flatMap (·.2)) (hlead : ∀ a ∈ lead, a.2 = none ∧ a.1.2.1.isFirst = false)
    (hok : ∀ y ∈ gs, GrpOK y)
    (hN : NoAcc g (glocs g 0 ais) cs'.flatten)
    (b0 : Blk) (rest : List Blk) (trail : Nat) (rdEvs : List RdEv) (e : EndPos) (io : Nat)
    (hb : blocksOf g (prepareImage g (imgOf F cs' ++ xtra x f')).1 1 = (b0 :: rest, trail))
    (hs : scanBlocks g none trail b0.cost b0 0 rest = some (rdEvs, e, io)) :
    List.Sublist (bytesOf (assemble { within := false, buf := [], attr := b0.file } rdEvs))
      ((liveOf gs).map fun s => s.1.e.encode) := by
  obtain ⟨m, trail', hlen, hb'⟩ := blocks_of_fullX g F cs' hne hfull x f'
  rw [hb] at hb'
  simp only [Prod.mk.injEq, List.cons.injEq] at hb'
  obtain ⟨⟨hb0, hrest⟩, _⟩ := hb'
  subst hb0 hrest
  obtain ⟨io', hio⟩ := scanBlocks_eq_scanB g trail (blkAt g F cs'.flatten 0).cost (blkAt g F cs'.flatten 0) 0
    (blksFrom g F cs'.flatten 1 m)
  rw [hs] at hio
  simp only [Option.some.injEq, Prod.mk.injEq] at hio
  obtain ⟨hev, _, _⟩ := hio
  have hre := scan_multi_single g F F cs'.flatten m
  rw [← hev] at hre
  have hL := located_glocs g ais 0
  have htr := trace_blocks g F _ hL cs'.flatten hN m 0 0 (by simpa using hlen.symm) (Nat.zero_le _) false
    (fun h => by cases h)
  simp only [Nat.zero_mul, List.drop_zero, Nat.zero_add] at htr
  have hall : ahead (glocs g 0 ais) 0 = glocs g 0 ais := by
    unfold ahead
    rw [List.filter_eq_self]
    intro y _; simp
  rw [hall, glocs_snd, ← hre] at htr
  have hshape : ShapeX (gfrs ais) ((liveOf gs).map fun s => s.1.e.encode) := by
    refine ⟨gfrs lead, gfrs (gs.flatMap (·.2)), by rw [hais, gfrs_append], ?_, chunks_of_groups gs hok⟩
    intro a ha
    rw [gfrs_none (fun a ha => (hlead a ha).1)] at ha
    unfold frs tfs untag at ha
    simp only [List.map_map, List.mem_map, Function.comp] at ha
    obtain ⟨y, hy, rfl⟩ := ha
    exact (hlead y hy).2
  have hsub := (asm_traceX F htr { within := false, buf := [], attr := F } rfl).1 rfl _ hshape
  have hbs := bytesOf_sublist hsub
  rw [bytesOf_entriesOf, bytesOf_entries] at hbs
  rw [assemble_retag F rdEvs { within := false, buf := [], attr := (blkAt g F cs'.flatten 0).file }
    { within := false, buf := [], attr := F } rfl rfl]
  exact hbs

end MRL.Img
