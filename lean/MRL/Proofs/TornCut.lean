/-
Cutting the writer's byte stream at an arbitrary offset (C02): the frames of a list of entries as
a function (`framesOf`), where a cut falls (in padding / at a frame boundary, inside a header,
inside a payload), which entries are whole before the cut.
-/
import MRL.Proofs.TornRaw
import MRL.Props.C07

namespace MRL.Torn
open MRL Consts Codec

/-! ### the frames of a list of entries, as a function -/

noncomputable def entryFrames (g : Geom) (c : Nat) (e : Bytes) (hc : c < g.B) : List Frm :=
  Classical.choose (writeEntryBufs_layout g c true e hc)

theorem entryFrames_spec (g : Geom) (c : Nat) (e : Bytes) (hc : c < g.B) :
    writeEntry g c e hc = layoutBufs g c (entryFrames g c e hc) ∧ EntryFrames true (entryFrames g c e hc) ∧
      payloadOf (entryFrames g c e hc) = e ∧ Fits g c (entryFrames g c e hc) :=
  Classical.choose_spec (writeEntryBufs_layout g c true e hc)

noncomputable def framesOf (g : Geom) : (c : Nat) → (hc : c < g.B) → List Bytes → List Frm
  | _, _, [] => []
  | c, hc, e :: es =>
    entryFrames g c e hc ++
      framesOf g (C07.cursorAfter g c (totalLen (writeEntry g c e hc))) (C07.cursorAfter_lt g _ _) es

theorem cursorAfter_entry (g : Geom) (c : Nat) (e : Bytes) (hc : c < g.B) :
    C07.cursorAfter g c (totalLen (writeEntry g c e hc)) = endCursor g c (entryFrames g c e hc) := by
  obtain ⟨h1, _, _, h4⟩ := entryFrames_spec g c e hc
  unfold C07.cursorAfter; rw [h1]; exact layoutBufs_mod g c _ hc h4

theorem framesOf_spec (g : Geom) (es : List Bytes) : ∀ (c : Nat) (hc : c < g.B),
    C07.writeEntriesBufs g c hc es = layoutBufs g c (framesOf g c hc es) ∧
    EntriesFrames es (framesOf g c hc es) ∧ Fits g c (framesOf g c hc es) := by
  induction es with
  | nil => intro c hc; exact ⟨rfl, .nil, trivial⟩
  | cons e es ih =>
    intro c hc
    obtain ⟨h1, h2, h3, h4⟩ := entryFrames_spec g c e hc
    obtain ⟨k1, k2, k3⟩ := ih (C07.cursorAfter g c (totalLen (writeEntry g c e hc))) (C07.cursorAfter_lt g _ _)
    have hcur := cursorAfter_entry g c e hc
    refine ⟨?_, .cons h2 h3 k2, ?_⟩
    · simp only [C07.writeEntriesBufs, framesOf]
      rw [k1, layoutBufs_append, ← hcur]
      exact congrArg (fun a => a ++ _) h1
    · simp only [framesOf]
      rw [Fits_append, ← hcur]; exact ⟨h4, k3⟩

/-! ### bytes of one frame write -/

/-- zero padding the writer inserts before a frame at cursor `c` -/
def padLen (g : Geom) (c : Nat) : Nat := if g.B - c < HEADER_LEN then g.B - c else 0

theorem frameWrites_flatten (g : Geom) (c : Nat) (t : FrameType) (p : Bytes) :
    (frameWrites g c t p).flatten = zeros (padLen g c) ++ encodeFrame t p := by
  unfold frameWrites padLen
  split <;> simp [zeros]

theorem layout_cons_flatten (g : Geom) (c : Nat) (t : FrameType) (p : Bytes) (fs : List Frm) :
    (layoutBufs g c ((t, p) :: fs)).flatten =
      zeros (padLen g c) ++ encodeFrame t p ++ (layoutBufs g (frameEndCursor g c p.length) fs).flatten := by
  simp only [layoutBufs, List.flatten_append, frameWrites_flatten]

theorem rawWrites_flatten (g : Geom) (c : Nat) (x : Raw) :
    (rawWrites g c x).flatten = zeros (padLen g c) ++ x.bytes := by
  unfold rawWrites padLen
  split <;> simp [zeros]

/-! ### where a cut falls -/

/-- A cut at `k`, strictly inside the bytes of the layout of `fs`: the frames `fs1` before it are
    complete, and the cut is (1) in the padding before the next frame `(t, p)` or right at its
    start, (2) inside its header, or (3) at the end of its header or inside its payload. -/
theorem cut_frames (g : Geom) (fs : List Frm) : ∀ (c k : Nat), k < (layoutBufs g c fs).flatten.length →
    ∃ fs1 t p fs2, fs = fs1 ++ (t, p) :: fs2 ∧
      ((∃ d, d ≤ padLen g (endCursor g c fs1) ∧
          (layoutBufs g c fs).flatten.take k = (layoutBufs g c fs1).flatten ++ zeros d) ∨
       (∃ i, 1 ≤ i ∧ i ≤ 6 ∧
          (layoutBufs g c fs).flatten.take k =
            (layoutBufs g c fs1).flatten ++ zeros (padLen g (endCursor g c fs1)) ++ (encodeHeader t p).take i) ∨
       (∃ i, i < p.length ∧
          (layoutBufs g c fs).flatten.take k =
            (layoutBufs g c fs1).flatten ++ zeros (padLen g (endCursor g c fs1)) ++ encodeHeader t p ++ p.take i)) := by
  induction fs with
  | nil => intro c k hk; simp [layoutBufs] at hk
  | cons fr fs ih =>
    intro c k hk
    obtain ⟨t, p⟩ := fr
    rw [layout_cons_flatten] at hk ⊢
    have hlen : (zeros (padLen g c) ++ encodeFrame t p).length = padLen g c + 7 + p.length := by
      simp [length_encodeFrame]; omega
    by_cases h1 : k ≤ padLen g c
    · -- in the padding of the first frame
      refine ⟨[], t, p, fs, rfl, Or.inl ⟨k, by simpa [endCursor] using h1, ?_⟩⟩
      rw [List.append_assoc, List.take_append_of_le_length (by simpa using h1), take_zeros]
      simp [layoutBufs, Nat.min_eq_left h1]
    · by_cases h2 : k < padLen g c + 7
      · -- inside the header
        refine ⟨[], t, p, fs, rfl, Or.inr (Or.inl ⟨k - padLen g c, by omega, by omega, ?_⟩)⟩
        rw [List.append_assoc, List.take_append, List.take_of_length_le (by simp; omega)]
        simp only [length_zeros, layoutBufs, List.flatten_nil, List.nil_append, endCursor, encodeFrame]
        rw [List.append_assoc, List.take_append_of_le_length (by rw [length_encodeHeader]; omega)]
      · by_cases h3 : k < padLen g c + 7 + p.length
        · -- inside the payload
          refine ⟨[], t, p, fs, rfl, Or.inr (Or.inr ⟨k - padLen g c - 7, by omega, ?_⟩)⟩
          rw [List.append_assoc, List.take_append, List.take_of_length_le (by simp; omega)]
          simp only [length_zeros, layoutBufs, List.flatten_nil, List.nil_append, endCursor, encodeFrame]
          rw [List.append_assoc, List.take_append, List.take_of_length_le (by rw [length_encodeHeader]; omega),
            length_encodeHeader, List.take_append_of_le_length (by omega)]
          have : k - padLen g c - 7 = k - padLen g c - 7 := rfl
          simp only [List.append_assoc]
        · -- past the first frame
          have hk' : k - (padLen g c + 7 + p.length) <
              (layoutBufs g (frameEndCursor g c p.length) fs).flatten.length := by
            rw [List.length_append, hlen] at hk; omega
          obtain ⟨fs1, t', p', fs2, hfs, hcase⟩ := ih (frameEndCursor g c p.length) _ hk'
          have htake : ∀ X : Bytes,
              (zeros (padLen g c) ++ encodeFrame t p ++ X).take k =
                zeros (padLen g c) ++ encodeFrame t p ++ X.take (k - (padLen g c + 7 + p.length)) := by
            intro X
            rw [List.take_append, List.take_of_length_le (by rw [hlen]; omega), hlen]
          refine ⟨(t, p) :: fs1, t', p', fs2, by rw [hfs]; rfl, ?_⟩
          simp only [endCursor, layout_cons_flatten, htake]
          rcases hcase with ⟨d, hd, he⟩ | ⟨i, hi1, hi2, he⟩ | ⟨i, hi, he⟩
          · exact Or.inl ⟨d, hd, by rw [he]; simp only [List.append_assoc]⟩
          · exact Or.inr (Or.inl ⟨i, hi1, hi2, by rw [he]; simp only [List.append_assoc]⟩)
          · exact Or.inr (Or.inr ⟨i, hi, by rw [he]; simp only [List.append_assoc]⟩)

/-! ### whole entries before a cut -/

/-- number of entries whose bytes lie entirely within the first `k` bytes the writer produced -/
def wholeCount (g : Geom) : (c : Nat) → (hc : c < g.B) → List Bytes → Nat → Nat
  | _, _, [], _ => 0
  | c, hc, e :: es, k =>
    if totalLen (writeEntry g c e hc) ≤ k then
      1 + wholeCount g (C07.cursorAfter g c (totalLen (writeEntry g c e hc))) (C07.cursorAfter_lt g _ _) es
            (k - totalLen (writeEntry g c e hc))
    else 0

/-- bytes of the first `m` entries -/
def prefixLen (g : Geom) (c : Nat) (hc : c < g.B) (es : List Bytes) (m : Nat) : Nat :=
  totalLen (C07.writeEntriesBufs g c hc (es.take m))

theorem prefixLen_zero (g : Geom) (c : Nat) (hc : c < g.B) (es : List Bytes) : prefixLen g c hc es 0 = 0 := by
  simp [prefixLen, C07.writeEntriesBufs]

theorem prefixLen_succ (g : Geom) (c : Nat) (hc : c < g.B) (e : Bytes) (es : List Bytes) (m : Nat) :
    prefixLen g c hc (e :: es) (m + 1) = totalLen (writeEntry g c e hc) +
      prefixLen g (C07.cursorAfter g c (totalLen (writeEntry g c e hc))) (C07.cursorAfter_lt g _ _) es m := by
  simp [prefixLen, C07.writeEntriesBufs, totalLen_append]

theorem wholeCount_eq (g : Geom) (es : List Bytes) : ∀ (c : Nat) (hc : c < g.B) (k m : Nat),
    m ≤ es.length → prefixLen g c hc es m ≤ k → (m < es.length → k < prefixLen g c hc es (m + 1)) →
    wholeCount g c hc es k = m := by
  induction es with
  | nil => intro c hc k m hm _ _; simp at hm; subst hm; rfl
  | cons e es ih =>
    intro c hc k m hm h1 h2
    cases m with
    | zero =>
      have := h2 (by simp)
      rw [prefixLen_succ, prefixLen_zero] at this
      simp only [wholeCount]
      rw [if_neg (by omega)]
    | succ m =>
      rw [prefixLen_succ] at h1
      simp only [wholeCount]
      rw [if_pos (by omega)]
      have := ih (C07.cursorAfter g c (totalLen (writeEntry g c e hc))) (C07.cursorAfter_lt g c _)
        (k - totalLen (writeEntry g c e hc)) m
        (by simpa using hm) (by omega)
        (fun hlt => by have := h2 (by simpa using hlt); rw [prefixLen_succ] at this; omega)
      omega

theorem framesOf_take_succ (g : Geom) (es : List Bytes) : ∀ (c : Nat) (hc : c < g.B) (j : Nat), j < es.length →
    ∃ grp, framesOf g c hc (es.take (j + 1)) = framesOf g c hc (es.take j) ++ grp ∧ EntryFrames true grp := by
  induction es with
  | nil => intro c hc j hj; simp at hj
  | cons e es ih =>
    intro c hc j hj
    cases j with
    | zero =>
      refine ⟨entryFrames g c e hc, ?_, (entryFrames_spec g c e hc).2.1⟩
      simp [framesOf]
    | succ j =>
      obtain ⟨grp, h1, h2⟩ := ih _ (C07.cursorAfter_lt g c (totalLen (writeEntry g c e hc))) j (by simpa using hj)
      refine ⟨grp, ?_, h2⟩
      simp only [List.take_succ_cons, framesOf]
      rw [h1, List.append_assoc]

/-- A prefix `fsR` of the frames of `es` is the frames of the first `j` entries followed by a
    proper prefix `gp` of the frames of entry `j`. -/
theorem prefix_groups (g : Geom) (es : List Bytes) : ∀ (c : Nat) (hc : c < g.B) (fsR rest : List Frm),
    framesOf g c hc es = fsR ++ rest →
    ∃ j gp, j ≤ es.length ∧ fsR = framesOf g c hc (es.take j) ++ gp ∧
      (gp = [] ∨ (j < es.length ∧ ∃ gs, gs ≠ [] ∧ EntryFrames true (gp ++ gs) ∧
        framesOf g c hc (es.take (j + 1)) = framesOf g c hc (es.take j) ++ (gp ++ gs))) := by
  induction es with
  | nil =>
    intro c hc fsR rest h
    simp only [framesOf] at h
    have : fsR = [] := by
      cases fsR with
      | nil => rfl
      | cons a b => simp at h
    exact ⟨0, [], Nat.le_refl _, by simp [this, framesOf], Or.inl rfl⟩
  | cons e es ih =>
    intro c hc fsR rest h
    simp only [framesOf] at h
    rcases List.append_eq_append_iff.mp h with ⟨a', h1, h2⟩ | ⟨c', h1, h2⟩
    · -- fsR = entry frames ++ a'
      obtain ⟨j, gp, hj, hR, hcase⟩ := ih _ (C07.cursorAfter_lt g c (totalLen (writeEntry g c e hc))) a' rest h2
      refine ⟨j + 1, gp, by simpa using hj, ?_, ?_⟩
      · rw [h1, hR]; simp only [List.take_succ_cons, framesOf, List.append_assoc]
      · rcases hcase with h | ⟨hlt, gs, hgs, hE, hF⟩
        · exact Or.inl h
        · refine Or.inr ⟨by simpa using hlt, gs, hgs, hE, ?_⟩
          simp only [List.take_succ_cons, framesOf]
          rw [hF, List.append_assoc]
    · -- fsR is a prefix of the entry's frames
      by_cases hc' : c' = []
      · subst hc'
        simp only [List.append_nil] at h1
        refine ⟨1, [], by simp, ?_, Or.inl rfl⟩
        simp [framesOf, h1]
      · refine ⟨0, fsR, Nat.zero_le _, by simp [framesOf], Or.inr ⟨by simp, c', hc', ?_, ?_⟩⟩
        · rw [← h1]; exact (entryFrames_spec g c e hc).2.1
        · simp [framesOf, h1]

end MRL.Torn
