/-
C02 at the byte level, the master theorem: for every cut of the writer's byte stream, what the
reader makes of the crash image and of the crash image after the writer resumed on it.
-/
import MRL.Proofs.TornAsm

namespace MRL.Torn
open MRL Consts Codec

theorem Bpos (g : Geom) : 0 < g.B := Nat.lt_trans (by decide : 0 < HEADER_LEN) g.hB

/-- initial state of the record reader standing in `file` -/
def st0 (file : Nat) : AsmSt := { within := false, buf := [], attr := file }

/-- What is proved of a crash image `S` read from cursor `c`, `esj` being the entries delivered
    and `E` the offset where reading stops (and the writer resumes):
    the read; the cursor at `E` leaves room for a header; and for every list `es'` of entries
    written from `E` on over the image, the read-back of the result. -/
def Concl (g : Geom) (file c : Nat) (S : Bytes) (n : Nat) (esj : List Bytes) (E : Nat) : Prop :=
  (∃ evs e, readFrom g file S 0 n c = (evs, e) ∧ e.file = file ∧ e.idx * g.B + e.cursor = E ∧
      entriesOf (assemble (st0 file) evs) = esj.map (RecEv.entry file)) ∧
  E % g.B + 7 ≤ g.B ∧
  ∀ (es' : List Bytes) (z2 n2 : Nat), 7 ≤ z2 →
    (S.take E ++ ((C07.writeEntriesBufs g (E % g.B) (Nat.mod_lt _ (Bpos g)) es').flatten ++ zeros z2)).length
      = (n2 + 1) * g.B →
    ∃ evs2 e2,
      readFrom g file
        (S.take E ++ ((C07.writeEntriesBufs g (E % g.B) (Nat.mod_lt _ (Bpos g)) es').flatten ++ zeros z2)) 0 n2 c
        = (evs2, e2) ∧ e2.file = file ∧
      entriesOf (assemble (st0 file) evs2) = (esj ++ es').map (RecEv.entry file) ∧
      e2.idx * g.B + e2.cursor =
        finalPos g (E + totalLen (C07.writeEntriesBufs g (E % g.B) (Nat.mod_lt _ (Bpos g)) es'))

theorem pad_good (g : Geom) (W : Nat) : (W + padLen g (W % g.B)) % g.B + 7 ≤ g.B := by
  have hB := g.hB
  simp only [HEADER_LEN] at hB
  have hm : W % g.B < g.B := Nat.mod_lt _ (Bpos g)
  have hd := Nat.div_add_mod W g.B
  unfold padLen
  simp only [HEADER_LEN]
  split
  · have : W + (g.B - W % g.B) = g.B * (W / g.B + 1) := by rw [Nat.mul_add, Nat.mul_one]; omega
    rw [this, Nat.mul_mod_right]; omega
  · simp only [Nat.add_zero]; omega

theorem finalPos_of_good (g : Geom) (E : Nat) (h : E % g.B + 7 ≤ g.B) : finalPos g E = E := by
  unfold finalPos; rw [if_neg (by omega)]

theorem take_prefix_zeros (A : Bytes) (D gap : Nat) (h : gap ≤ D) :
    (A ++ zeros D).take (A.length + gap) = A ++ zeros gap := by
  rw [List.take_append, List.take_of_length_le (by omega), take_zeros]
  congr 2; omega

/-- **clean shape**: complete raw frames `xs`, then only zeros -/
theorem finish_clean (g : Geom) (hB : g.B ≤ 65542) (file c : Nat) (hc : c < g.B)
    (esj : List Bytes) (G gp : List Frm) (hG : EntriesFrames esj G)
    (hgp : gp = [] ∨ ∃ gs, gs ≠ [] ∧ EntryFrames true (gp ++ gs))
    (C : List RdEv) (hC : C = [] ∨ C = [RdEv.corrupt file]) (xs : List Raw)
    (hev : tagEvs file (xs.map Raw.ev) = tagF file (G ++ gp) ++ C) (hfx : FitsRaw g c xs)
    (S : Bytes) (n D : Nat) (hlen : S.length = (n + 1) * g.B)
    (hS : S = zeros c ++ ((rawLayout g c xs).flatten ++ zeros D)) (hD : 14 ≤ D) :
    Concl g file c S n esj
      (c + (rawLayout g c xs).flatten.length + padLen g ((c + (rawLayout g c xs).flatten.length) % g.B)) := by
  have hpl := padLen_le g ((c + (rawLayout g c xs).flatten.length) % g.B)
  have hgood := pad_good g (c + (rawLayout g c xs).flatten.length)
  refine ⟨?_, hgood, ?_⟩
  · -- the crash image itself
    have hSd : S.drop c = (rawLayout g c xs).flatten ++
        (zeros (padLen g ((c + (rawLayout g c xs).flatten.length) % g.B)) ++
          ((rawLayout g ((c + (rawLayout g c xs).flatten.length +
            padLen g ((c + (rawLayout g c xs).flatten.length) % g.B)) % g.B) []).flatten ++
            zeros (D - padLen g ((c + (rawLayout g c xs).flatten.length) % g.B)))) := by
      rw [hS, List.drop_left' (length_zeros c)]
      simp only [rawLayout, List.flatten_nil, List.nil_append]
      rw [← zeros_add]; congr 2; omega
    obtain ⟨e, e1, e2, e3⟩ := clean_read g hB file xs [] S n c _ hc hlen hfx trivial hSd (by omega)
    refine ⟨_, e, e1, e2, ?_, ?_⟩
    · rw [e3]; simp only [rawLayout, List.flatten_nil, List.length_nil, Nat.add_zero]
      exact finalPos_of_good g _ hgood
    · rw [hev]
      have := asm_prefix file esj G gp hG hgp C hC [] [] .nil
      simpa [tagF, st0, tagEvs] using this
  · -- resumed
    intro es' z2 n2 hz2 hlen2
    obtain ⟨k1, k2, k3⟩ := framesOf_spec g es' _ (Nat.mod_lt (c + (rawLayout g c xs).flatten.length +
      padLen g ((c + (rawLayout g c xs).flatten.length) % g.B)) (Bpos g))
    rw [k1] at hlen2 ⊢
    generalize framesOf g _ _ es' = fs' at k2 k3 hlen2 ⊢
    rw [← rawLayout_good] at hlen2 ⊢
    have htake : S.take (c + (rawLayout g c xs).flatten.length +
        padLen g ((c + (rawLayout g c xs).flatten.length) % g.B)) =
        zeros c ++ ((rawLayout g c xs).flatten ++ zeros (padLen g ((c + (rawLayout g c xs).flatten.length) % g.B))) := by
      rw [hS, ← List.append_assoc, ← List.append_assoc]
      have := take_prefix_zeros (zeros c ++ (rawLayout g c xs).flatten) D
        (padLen g ((c + (rawLayout g c xs).flatten.length) % g.B)) (by omega)
      simpa [List.append_assoc] using this
    rw [htake] at hlen2 ⊢
    have hSd : (zeros c ++ ((rawLayout g c xs).flatten ++
          zeros (padLen g ((c + (rawLayout g c xs).flatten.length) % g.B))) ++
        ((rawLayout g ((c + (rawLayout g c xs).flatten.length +
            padLen g ((c + (rawLayout g c xs).flatten.length) % g.B)) % g.B) (fs'.map good)).flatten ++ zeros z2)).drop c
        = (rawLayout g c xs).flatten ++
        (zeros (padLen g ((c + (rawLayout g c xs).flatten.length) % g.B)) ++
          ((rawLayout g ((c + (rawLayout g c xs).flatten.length +
            padLen g ((c + (rawLayout g c xs).flatten.length) % g.B)) % g.B) (fs'.map good)).flatten ++ zeros z2)) := by
      rw [List.append_assoc, List.drop_left' (length_zeros c), List.append_assoc]
    obtain ⟨e, e1, e2, e3⟩ := clean_read g hB file xs (fs'.map good) _ n2 c z2 hc hlen2 hfx
      (FitsRaw_good g _ fs' k3) hSd hz2
    refine ⟨_, e, e1, e2, ?_, ?_⟩
    · rw [hev, tagEvs_good, List.append_assoc]
      exact asm_prefix file esj G gp hG hgp C hC es' fs' k2
    · rw [e3, totalLen_eq]

/-- **torn-header shape**: complete raw frames `xs`, padding, a torn header, zeros -/
theorem finish_torn (g : Geom) (hB : g.B ≤ 65542) (file c : Nat) (hc : c < g.B)
    (esj : List Bytes) (G gp : List Frm) (hG : EntriesFrames esj G)
    (hgp : gp = [] ∨ ∃ gs, gs ≠ [] ∧ EntryFrames true (gp ++ gs)) (xs : List Raw)
    (hev : tagEvs file (xs.map Raw.ev) = tagF file (G ++ gp)) (hfx : FitsRaw g c xs)
    (hd : Bytes) (hl : hd.length ≤ 6) (hnz : isAllZero hd = false)
    (S : Bytes) (n z : Nat) (hlen : S.length = (n + 1) * g.B)
    (hS : S = zeros c ++ ((rawLayout g c xs).flatten ++
      (zeros (padLen g ((c + (rawLayout g c xs).flatten.length) % g.B)) ++ (hd ++ zeros z))))
    (hz : g.B + 7 ≤ z) :
    Concl g file c S n esj
      (c + (rawLayout g c xs).flatten.length + padLen g ((c + (rawLayout g c xs).flatten.length) % g.B) +
        (g.B - (c + (rawLayout g c xs).flatten.length +
          padLen g ((c + (rawLayout g c xs).flatten.length) % g.B)) % g.B)) := by
  have hgood := pad_good g (c + (rawLayout g c xs).flatten.length)
  -- abbreviations are not introduced: the statements of `torn_read` are matched syntactically
  have hzsplit : zeros z = zeros (g.B - (c + (rawLayout g c xs).flatten.length +
        padLen g ((c + (rawLayout g c xs).flatten.length) % g.B)) % g.B - hd.length) ++
      zeros (z - (g.B - (c + (rawLayout g c xs).flatten.length +
        padLen g ((c + (rawLayout g c xs).flatten.length) % g.B)) % g.B - hd.length)) := by
    rw [← zeros_add]; congr 1; omega
  have hSd : S.drop c = (rawLayout g c xs).flatten ++
      (zeros (padLen g ((c + (rawLayout g c xs).flatten.length) % g.B)) ++
        (hd ++ (zeros (g.B - (c + (rawLayout g c xs).flatten.length +
            padLen g ((c + (rawLayout g c xs).flatten.length) % g.B)) % g.B - hd.length) ++
          ((rawLayout g 0 []).flatten ++ zeros (z - (g.B - (c + (rawLayout g c xs).flatten.length +
            padLen g ((c + (rawLayout g c xs).flatten.length) % g.B)) % g.B - hd.length)))))) := by
    rw [hS, List.drop_left' (length_zeros c)]
    simp only [rawLayout, List.flatten_nil, List.nil_append]
    rw [← hzsplit]
  obtain ⟨e, e1, e2, e3, e4⟩ := torn_read g hB file xs [] S n c _ hd hc hlen hfx trivial hl hnz hSd (by omega)
  refine ⟨?_, by rw [e4]; omega, ?_⟩
  · refine ⟨_, e, e1, e2, ?_, ?_⟩
    · rw [e3]; simp only [rawLayout, List.flatten_nil, List.length_nil, Nat.add_zero]
      exact finalPos_of_good g _ (by rw [e4]; omega)
    · rw [hev]
      have := asm_prefix file esj G gp hG hgp [RdEv.corrupt file] (Or.inr rfl) [] [] .nil
      simpa [tagF, st0, tagEvs] using this
  · intro es' z2 n2 hz2 hlen2
    obtain ⟨k1, k2, k3⟩ := framesOf_spec g es' _ (Nat.mod_lt (c + (rawLayout g c xs).flatten.length +
      padLen g ((c + (rawLayout g c xs).flatten.length) % g.B) +
      (g.B - (c + (rawLayout g c xs).flatten.length +
        padLen g ((c + (rawLayout g c xs).flatten.length) % g.B)) % g.B)) (Bpos g))
    rw [k1] at hlen2 ⊢
    generalize framesOf g _ _ es' = fs' at k2 k3 hlen2 ⊢
    rw [e4] at k3 hlen2 ⊢
    rw [← rawLayout_good] at hlen2 ⊢
    have hhd : hd.length ≤ g.B - (c + (rawLayout g c xs).flatten.length +
        padLen g ((c + (rawLayout g c xs).flatten.length) % g.B)) % g.B := by omega
    have htake : S.take (c + (rawLayout g c xs).flatten.length +
          padLen g ((c + (rawLayout g c xs).flatten.length) % g.B) +
          (g.B - (c + (rawLayout g c xs).flatten.length +
            padLen g ((c + (rawLayout g c xs).flatten.length) % g.B)) % g.B)) =
        zeros c ++ ((rawLayout g c xs).flatten ++
          (zeros (padLen g ((c + (rawLayout g c xs).flatten.length) % g.B)) ++
            (hd ++ zeros (g.B - (c + (rawLayout g c xs).flatten.length +
              padLen g ((c + (rawLayout g c xs).flatten.length) % g.B)) % g.B - hd.length)))) := by
      rw [hS]
      have := take_prefix_zeros (zeros c ++ ((rawLayout g c xs).flatten ++
          (zeros (padLen g ((c + (rawLayout g c xs).flatten.length) % g.B)) ++ hd))) z
        (g.B - (c + (rawLayout g c xs).flatten.length +
          padLen g ((c + (rawLayout g c xs).flatten.length) % g.B)) % g.B - hd.length) (by omega)
      simp only [List.append_assoc, List.length_append, length_zeros] at this ⊢
      rw [← this]; congr 1; omega
    rw [htake] at hlen2 ⊢
    have hSd2 : (zeros c ++ ((rawLayout g c xs).flatten ++
          (zeros (padLen g ((c + (rawLayout g c xs).flatten.length) % g.B)) ++
            (hd ++ zeros (g.B - (c + (rawLayout g c xs).flatten.length +
              padLen g ((c + (rawLayout g c xs).flatten.length) % g.B)) % g.B - hd.length)))) ++
        ((rawLayout g 0 (fs'.map good)).flatten ++ zeros z2)).drop c
        = (rawLayout g c xs).flatten ++
      (zeros (padLen g ((c + (rawLayout g c xs).flatten.length) % g.B)) ++
        (hd ++ (zeros (g.B - (c + (rawLayout g c xs).flatten.length +
            padLen g ((c + (rawLayout g c xs).flatten.length) % g.B)) % g.B - hd.length) ++
          ((rawLayout g 0 (fs'.map good)).flatten ++ zeros z2)))) := by
      rw [List.append_assoc, List.drop_left' (length_zeros c)]
      simp only [List.append_assoc]
    obtain ⟨e', f1, f2, f3, _⟩ := torn_read g hB file xs (fs'.map good) _ n2 c z2 hd hc hlen2 hfx
      (FitsRaw_good g _ fs' k3) hl hnz hSd2 hz2
    refine ⟨_, e', f1, f2, ?_, ?_⟩
    · rw [hev, tagEvs_good]
      have := asm_prefix file esj G gp hG hgp [RdEv.corrupt file] (Or.inr rfl) es' fs' k2
      simpa [st0] using this
    · rw [f3, totalLen_eq]

end MRL.Torn
